import TplModel.Exp.Parse
/-! # Round trip on the model's real expression parser (`EL.expr` / `EL.parseCode`) — lemmas for C09

`EL.toks` prints a tree of the operator fragment (`OpE`) to tokens, parentheses being the explicit `.paren`
nodes; `EL.wellParen` says that every operand sits at a level the table (`binPrec`/`binRhs`/`condAlt`/
`Facts.unaryOperandLevel`, re-extracted from the generated parser on every run) admits without parentheses.
`EL.RT_all` : parsing `toks e ++ rest` gives what the operator loop gives for `e` in front of `rest`, with the
explicit fuel `3 * (toks e).length`.  Core-only. -/
namespace EL

/-! ## one-step lemmas for the mutual block -/

theorem loop_cond {f p : Nat} {lhs a b : E} {rest rest' rest'' : List Tok} (hp : p ≤ condAlt.1)
    (h1 : expr f condAlt.2.1 rest = some (a, .op ":" :: rest'))
    (h2 : expr f condAlt.2.2 rest' = some (b, rest'')) :
    loop (f+1) p lhs (.op "?" :: rest) = loop f p (.cond lhs a b) rest'' := by
  rw [loop]; simp only [hp, if_true, h1, h2]

theorem loop_bin {f p k : Nat} {o : String} {lhs r : E} {rest rest' : List Tok} (ho : o ≠ "?")
    (hk : binPrec o = some k) (hp : p ≤ k)
    (h1 : expr f ((binRhs o).getD (k + 1)) rest = some (r, rest')) :
    loop (f+1) p lhs (.op o :: rest) = loop f p (.bin o lhs r) rest' := by
  rw [loop]
  · simp only [hk, hp, if_true, h1]
  · exact fun h => ho h

/-- `rest` does not continue an expression at level `q`: its head is not an operator of level ≥ q -/
def Stop (q : Nat) : List Tok → Prop
  | .op o :: _ => if o = "?" then condAlt.1 < q else ∀ k, binPrec o = some k → k < q
  | _ => True

theorem loop_stop (f p : Nat) (e : E) (ts : List Tok) (h : Stop p ts) : loop (f+1) p e ts = some (e, ts) := by
  unfold loop
  split
  · simp [Stop] at h; simp; omega
  · rename_i o rest ho
    have ho' : o ≠ "?" := fun h => ho h
    simp only [Stop, ho', if_false] at h
    split
    · rename_i k hk; have := h k hk
      rw [if_neg (by omega)]
    · rfl
  · rfl

/-- `rest` does not continue a primary expression (no selector, index, slice or call follows) -/
def Follow : List Tok → Prop
  | .op o :: _ => o ≠ "." ∧ o ≠ "?." ∧ o ≠ "[" ∧ o ≠ "("
  | _ => True

theorem suffix_stop (f : Nat) (e : E) (ts : List Tok) (h : Follow ts) : suffix (f+1) e ts = some (e, ts) := by
  unfold suffix
  split <;> simp_all [Follow]

theorem primary_paren {f : Nat} {e : E} {rest rest' : List Tok} (h : expr f 0 rest = some (e, .op ")" :: rest')) :
    primary (f+1) (.op "(" :: rest) = suffix f (.paren e) rest' := by
  rw [primary]; simp only [h]

theorem expr_un {f p : Nat} {o : String} {e : E} {rest rest' : List Tok} (ho : unaryOps.contains o = true)
    (h : expr f Facts.unaryOperandLevel rest = some (e, rest')) :
    expr (f+1) p (.op o :: rest) = loop f p (.un o e) rest' := by
  rw [expr]; simp only [ho, if_true, h]

theorem expr_primary {f p : Nat} {t : Tok} {e : E} {rest rest' : List Tok}
    (ht : ∀ o, t = .op o → unaryOps.contains o = false)
    (h : primary f (t :: rest) = some (e, rest')) :
    expr (f+1) p (t :: rest) = loop f p e rest' := by
  unfold expr
  split
  · rename_i o r heq
    simp only [List.cons.injEq] at heq
    have := ht o heq.1
    rw [← heq.1, ← heq.2] at *
    simp only [this, Bool.false_eq_true, if_false, h]
  · simp only [h]

/-! ## facts about the extracted table -/

theorem binPrec_some {o : String} {k : Nat} (h : binPrec o = some k) :
    ∃ a ∈ Facts.exprAlts, a.2.1 ≠ ["?", ":"] ∧ o ∈ a.2.1 ∧ a.1 = k ∧ binRhs o = a.2.2.head? := by
  unfold binPrec at h
  unfold binRhs
  cases hf : (Facts.exprAlts.filter (fun a => a.2.1 ≠ ["?", ":"])).find? (fun a => a.2.1.contains o) with
  | none => rw [hf] at h; cases h
  | some a =>
    rw [hf] at h
    simp only [Option.map_some, Option.some.injEq] at h
    have hm := List.mem_of_find?_eq_some hf
    have hp := List.find?_some hf
    simp only [List.mem_filter, decide_eq_true_eq] at hm
    exact ⟨a, hm.1, hm.2, by simpa using hp, h, by simp⟩

/-- what the proofs use about the binary alternatives of the extracted table: no binary operator is spelled like
    `?` or like a token that continues a primary expression, every binary level is below the unary operand level,
    the right operand is parsed exactly one level above the operator's own (left associativity), and every binary
    level is above the conditional's and admissible in its else position -/
theorem table_facts : ∀ a ∈ Facts.exprAlts, a.2.1 ≠ ["?", ":"] → ∀ o ∈ a.2.1,
    (o ≠ "?" ∧ o ≠ "." ∧ o ≠ "?." ∧ o ≠ "[" ∧ o ≠ "(") ∧ a.1 < Facts.unaryOperandLevel ∧
      (a.2.2.head?).getD (a.1 + 1) = a.1 + 1 ∧ condAlt.1 < a.1 ∧ condAlt.2.2 ≤ a.1 := by decide

theorem binPrec_facts {o : String} {k : Nat} (h : binPrec o = some k) :
    (o ≠ "?" ∧ o ≠ "." ∧ o ≠ "?." ∧ o ≠ "[" ∧ o ≠ "(") ∧ k < Facts.unaryOperandLevel ∧
      (binRhs o).getD (k + 1) = k + 1 ∧ condAlt.1 < k ∧ condAlt.2.2 ≤ k := by
  obtain ⟨a, ha, hne, hmem, rfl, hr⟩ := binPrec_some h
  rw [hr]
  exact table_facts a ha hne o hmem

/-- what the proofs use about the conditional alternative. `condAlt.1 < condAlt.2.2` is the LEFT grouping of the
    pinned grammar (known finding F19: the else operand is parsed one level above the conditional's own level);
    if the grammar is changed to group to the right this `decide` fails and `wellParen`'s else clause has to be
    revisited. -/
theorem cond_facts : condAlt.1 < Facts.unaryOperandLevel ∧ condAlt.1 < condAlt.2.2 ∧ binPrec ":" = none ∧
    binPrec ")" = none ∧ unaryOps.contains "(" = false := by decide

/-! ## `Stop` / `Follow` for the tokens the printer emits -/

theorem Stop.mono {q q' : Nat} {ts : List Tok} (h : Stop q ts) (hq : q ≤ q') : Stop q' ts := by
  cases ts with
  | nil => trivial
  | cons t ts =>
    cases t <;> try trivial
    rename_i o
    simp only [Stop] at h ⊢
    split
    · rename_i ho; rw [if_pos ho] at h; omega
    · rename_i ho; rw [if_neg ho] at h; intro k hk; have := h k hk; omega

theorem stop_high {q : Nat} (hq : Facts.unaryOperandLevel ≤ q) (ts : List Tok) : Stop q ts := by
  cases ts with
  | nil => trivial
  | cons t ts =>
    cases t <;> try trivial
    rename_i o
    simp only [Stop]
    split
    · have := cond_facts.1; omega
    · intro k hk; have := (binPrec_facts hk).2.1; omega

theorem stop_colon (q : Nat) (ts : List Tok) : Stop q (.op ":" :: ts) := by
  simp only [Stop]; rw [if_neg (by decide)]; intro k hk; rw [cond_facts.2.2.1] at hk; cases hk

theorem stop_rparen (q : Nat) (ts : List Tok) : Stop q (.op ")" :: ts) := by
  simp only [Stop]; rw [if_neg (by decide)]; intro k hk; rw [cond_facts.2.2.2.1] at hk; cases hk

theorem stop_q {q : Nat} (h : condAlt.1 < q) (ts : List Tok) : Stop q (.op "?" :: ts) := by
  simp only [Stop]; rw [if_pos trivial]; exact h

theorem stop_bin {q k : Nat} {o : String} (hk : binPrec o = some k) (h : k < q) (ts : List Tok) :
    Stop q (.op o :: ts) := by
  simp only [Stop]; rw [if_neg (binPrec_facts hk).1.1]
  intro k' hk'; rw [hk] at hk'; cases hk'; exact h

theorem follow_bin {k : Nat} {o : String} (hk : binPrec o = some k) (ts : List Tok) : Follow (.op o :: ts) :=
  (binPrec_facts hk).1.2

/-! ## the operator fragment, its token printer, levels -/

/-- token of a literal node -/
def litTok (k s : String) : Tok :=
  if k = "int" then .int s else if k = "float" then .float s else if k = "imag" then .imag s
  else if k = "str" then .str s else .nil_

/-- print a tree to tokens; parentheses are exactly the `.paren` nodes (the parser keeps them in the tree).
    Nodes outside the operator fragment print to nothing (they are excluded by `OpE`). -/
def toks : E → List Tok
  | .lit k s => [litTok k s]
  | .name s => [.ident s]
  | .paren e => .op "(" :: toks e ++ [.op ")"]
  | .un o e => .op o :: toks e
  | .bin o l r => toks l ++ .op o :: toks r
  | .cond c a b => toks c ++ .op "?" :: (toks a ++ .op ":" :: toks b)
  | _ => []

/-- grammar level of a node: the `Precpred` level of its alternative; primaries sit above the unary level -/
def lev : E → Nat
  | .un _ _ => Facts.unaryOperandLevel
  | .bin o _ _ => (binPrec o).getD 0
  | .cond _ _ _ => condAlt.1
  | _ => Facts.unaryOperandLevel + 1

/-- the operator fragment of `E`: names, literals, parentheses, the unary operators of the grammar, the binary
    operators of the table, the conditional -/
inductive OpE : E → Prop
  | name (s : String) : OpE (.name s)
  | int (s : String) : OpE (.lit "int" s)
  | float (s : String) : OpE (.lit "float" s)
  | imag (s : String) : OpE (.lit "imag" s)
  | str (s : String) : OpE (.lit "str" s)
  | nil : OpE (.lit "nil" "nil")
  | paren {e : E} : OpE e → OpE (.paren e)
  | un {o : String} {e : E} : unaryOps.contains o = true → OpE e → OpE (.un o e)
  | bin {o : String} {k : Nat} {l r : E} : binPrec o = some k → OpE l → OpE r → OpE (.bin o l r)
  | cond {c a b : E} : OpE c → OpE a → OpE b → OpE (.cond c a b)

/-- every operand sits at a level at which the grammar parses it without parentheses:
    unary operand ≥ `unaryOperandLevel`; left operand ≥ the operator's level, right operand ≥ `binRhs`
    (one more: left associativity); condition ≥ the conditional's own level, then-part ≥ `condAlt.2.1`,
    else-part ≥ `condAlt.2.2` (which excludes a bare conditional there: F19) -/
def wellParen : E → Bool
  | .paren e => wellParen e
  | .un _ e => decide (Facts.unaryOperandLevel ≤ lev e) && wellParen e
  | .bin o l r =>
    decide ((binPrec o).getD 0 ≤ lev l) && decide ((binRhs o).getD ((binPrec o).getD 0 + 1) ≤ lev r) &&
      wellParen l && wellParen r
  | .cond c a b =>
    decide (condAlt.1 ≤ lev c) && decide (condAlt.2.1 ≤ lev a) && decide (condAlt.2.2 ≤ lev b) &&
      wellParen c && wellParen a && wellParen b
  | _ => true

abbrev WellParen (e : E) : Prop := wellParen e = true

/-! ## the round trip with continuation -/

/-- parsing `toks e ++ rest` at level `p ≤ lev e` is: run the operator loop with `e` as left operand on `rest`;
    the fuel needed on top of the loop's is `3 * (toks e).length` -/
def RT (e : E) : Prop :=
  ∀ p rest r n, p ≤ lev e → Stop (lev e + 1) rest → Follow rest →
    (∀ g, n ≤ g → loop g p e rest = some r) →
    ∀ g, n + 3 * (toks e).length ≤ g → expr g p (toks e ++ rest) = some r

theorem RT_atom (t : Tok) (a : E) (hnop : ∀ o, t ≠ .op o)
    (hprim : ∀ f rest, primary (f+1) (t :: rest) = suffix f a rest) (ht : toks a = [t]) : RT a := by
  intro p rest r n _ _ hf hl g hg
  rw [ht] at hg ⊢
  obtain ⟨g, rfl⟩ : ∃ g', g = g' + 3 := ⟨g - 3, by simp at hg; omega⟩
  simp only [List.singleton_append]
  rw [expr_primary (e := a) (rest' := rest) (fun o h => absurd h (hnop o))]
  · exact hl _ (by simp at hg; omega)
  · rw [hprim, suffix_stop _ _ _ hf]

/-- the result of `RT` when the loop stops at once -/
theorem RT.stop {e : E} (h : RT e) {p : Nat} {rest : List Tok} (hp : p ≤ lev e) (hs : Stop (lev e + 1) rest)
    (hs' : Stop p rest) (hf : Follow rest) {g : Nat} (hg : 1 + 3 * (toks e).length ≤ g) :
    expr g p (toks e ++ rest) = some (e, rest) :=
  h p rest (e, rest) 1 hp hs hf
    (fun g hg => by obtain ⟨g, rfl⟩ : ∃ g', g = g' + 1 := ⟨g - 1, by omega⟩; exact loop_stop g p e rest hs') g hg

theorem RT_all {e : E} (ho : OpE e) (hw : WellParen e) : RT e := by
  induction ho with
  | name s => exact RT_atom (.ident s) _ (by simp) (fun f rest => by rw [primary]) rfl
  | int s => exact RT_atom (.int s) _ (by simp) (fun f rest => by rw [primary]) (by simp [toks, litTok])
  | float s => exact RT_atom (.float s) _ (by simp) (fun f rest => by rw [primary]) (by simp [toks, litTok])
  | imag s => exact RT_atom (.imag s) _ (by simp) (fun f rest => by rw [primary]) (by simp [toks, litTok])
  | str s => exact RT_atom (.str s) _ (by simp) (fun f rest => by rw [primary]) (by simp [toks, litTok])
  | nil => exact RT_atom .nil_ _ (by simp) (fun f rest => by rw [primary]) (by simp [toks, litTok])
  | @paren e _ ih =>
    simp only [WellParen, wellParen] at hw
    have ih := ih hw
    intro p rest r n _ _ hf hl g hg
    simp only [toks, List.length_cons, List.length_append, List.length_nil] at hg
    obtain ⟨g, rfl⟩ : ∃ g', g = g' + 2 := ⟨g - 2, by omega⟩
    have h1 : expr g 0 (toks e ++ .op ")" :: rest) = some (e, .op ")" :: rest) :=
      ih.stop (Nat.zero_le _) (stop_rparen _ _) (stop_rparen _ _) (by simp [Follow]) (by omega)
    simp only [toks, List.cons_append, List.append_assoc, List.nil_append]
    rw [expr_primary (e := .paren e) (rest' := rest)
      (fun o h => by cases h; exact cond_facts.2.2.2.2)]
    · exact hl _ (by omega)
    · obtain ⟨g, rfl⟩ : ∃ g', g = g' + 1 := ⟨g - 1, by omega⟩
      rw [primary_paren h1, suffix_stop _ _ _ hf]
  | @un o e hu _ ih =>
    simp only [WellParen, wellParen, Bool.and_eq_true, decide_eq_true_eq] at hw
    have ih := ih hw.2
    intro p rest r n _ _ hf hl g hg
    simp only [toks, List.length_cons] at hg
    obtain ⟨g, rfl⟩ : ∃ g', g = g' + 1 := ⟨g - 1, by omega⟩
    have h1 : expr g Facts.unaryOperandLevel (toks e ++ rest) = some (e, rest) :=
      ih.stop hw.1 (stop_high (by omega) _) (stop_high (Nat.le_refl _) _) hf (by omega)
    simp only [toks, List.cons_append]
    rw [expr_un hu h1]
    exact hl _ (by omega)
  | @bin o k l r hk _ _ ihl ihr =>
    simp only [WellParen, wellParen, hk, Option.getD_some, Bool.and_eq_true, decide_eq_true_eq] at hw
    obtain ⟨⟨⟨hl1, hr1⟩, hwl⟩, hwr⟩ := hw
    have ihl := ihl hwl
    have ihr := ihr hwr
    have hfacts := binPrec_facts hk
    intro p rest res n hp hs hf hl g hg
    simp only [lev, hk, Option.getD_some] at hp hs
    simp only [toks, List.length_cons, List.length_append] at hg
    simp only [toks, List.append_assoc, List.cons_append]
    refine ihl p _ res (n + 3 * (toks r).length + 2) (by omega) (stop_bin hk (by omega) _) (follow_bin hk _) ?_ g
      (by omega)
    intro g hg
    obtain ⟨g, rfl⟩ : ∃ g', g = g' + 1 := ⟨g - 1, by omega⟩
    have h1 : expr g ((binRhs o).getD (k + 1)) (toks r ++ rest) = some (r, rest) :=
      ihr.stop hr1 (hs.mono (by omega)) (hs.mono (by omega)) hf (by omega)
    rw [loop_bin hfacts.1.1 hk hp h1]
    exact hl _ (by omega)
  | @cond c a b _ _ _ ihc iha ihb =>
    simp only [WellParen, wellParen, Bool.and_eq_true, decide_eq_true_eq] at hw
    obtain ⟨⟨⟨⟨⟨hc1, ha1⟩, hb1⟩, hwc⟩, hwa⟩, hwb⟩ := hw
    have ihc := ihc hwc
    have iha := iha hwa
    have ihb := ihb hwb
    intro p rest res n hp hs hf hl g hg
    simp only [lev] at hp hs
    simp only [toks, List.length_cons, List.length_append] at hg
    simp only [toks, List.append_assoc, List.cons_append]
    refine ihc p _ res (n + 3 * (toks a).length + 3 * (toks b).length + 2) (by omega) (stop_q (by omega) _)
      (by simp [Follow]) ?_ g (by omega)
    intro g hg
    obtain ⟨g, rfl⟩ : ∃ g', g = g' + 1 := ⟨g - 1, by omega⟩
    have h1 : expr g condAlt.2.1 (toks a ++ .op ":" :: (toks b ++ rest)) = some (a, .op ":" :: (toks b ++ rest)) :=
      iha.stop ha1 (stop_colon _ _) (stop_colon _ _) (by simp [Follow]) (by omega)
    have hc := cond_facts.2.1
    have h2 : expr g condAlt.2.2 (toks b ++ rest) = some (b, rest) :=
      ihb.stop hb1 (hs.mono (by omega)) (hs.mono (by omega)) hf (by omega)
    rw [loop_cond hp h1 h2]
    exact hl _ (by omega)

/-- token-level round trip with explicit fuel, in front of any `rest` that does not continue the expression -/
theorem parse_toks_rest {e : E} (ho : OpE e) (hw : WellParen e) {rest : List Tok} (hs : Stop 0 rest)
    (hf : Follow rest) {f : Nat} (hfu : 3 * (toks e).length + 1 ≤ f) :
    expr f 0 (toks e ++ rest) = some (e, rest) :=
  (RT_all ho hw).stop (Nat.zero_le _) (hs.mono (Nat.zero_le _)) hs hf (by omega)

/-! ## deciding `OpE` -/

def opE : E → Bool
  | .name _ => true
  | .lit k s => k = "int" || k = "float" || k = "imag" || k = "str" || (k = "nil" && s = "nil")
  | .paren e => opE e
  | .un o e => unaryOps.contains o && opE e
  | .bin o l r => (binPrec o).isSome && opE l && opE r
  | .cond c a b => opE c && opE a && opE b
  | _ => false

theorem OpE.of_opE : (e : E) → opE e = true → OpE e
  | .name s, _ => .name s
  | .lit k s, h => by
    simp only [opE, Bool.or_eq_true, Bool.and_eq_true, decide_eq_true_eq] at h
    rcases h with (((rfl | rfl) | rfl) | rfl) | ⟨rfl, rfl⟩
    · exact .int s
    · exact .float s
    · exact .imag s
    · exact .str s
    · exact .nil
  | .paren e, h => .paren (OpE.of_opE e (by simpa [opE] using h))
  | .un o e, h => by
    simp only [opE, Bool.and_eq_true] at h
    exact .un h.1 (OpE.of_opE e h.2)
  | .bin o l r, h => by
    simp only [opE, Bool.and_eq_true, Option.isSome_iff_exists] at h
    obtain ⟨⟨⟨k, hk⟩, hl⟩, hr⟩ := h
    exact .bin hk (OpE.of_opE l hl) (OpE.of_opE r hr)
  | .cond c a b, h => by
    simp only [opE, Bool.and_eq_true] at h
    exact .cond (OpE.of_opE c h.1.1) (OpE.of_opE a h.1.2) (OpE.of_opE b h.2)
  | .field .., h | .index .., h | .slice .., h | .call .., h => by simp [opE] at h

theorem OpE.opE {e : E} (h : OpE e) : EL.opE e = true := by
  induction h <;> simp_all [EL.opE]

instance (e : E) : Decidable (OpE e) := decidable_of_iff (opE e = true) ⟨OpE.of_opE e, OpE.opE⟩

/-! ## the minimal-parenthesis printer -/

/-- wrap `e` in parentheses iff its level is below the level `q` its position requires -/
def parenAt (q : Nat) (e : E) : E := if q ≤ lev e then e else .paren e

/-- insert exactly the parentheses the table requires below the root: unary operand at `unaryOperandLevel`,
    left operand at the operator's level, right operand at `binRhs` (one above: left associativity), the three
    parts of `?:` at `condAlt` (own level / then-level / else-level). Existing `.paren` nodes are kept. -/
def parenthesize : E → E
  | .paren e => .paren (parenthesize e)
  | .un o e => .un o (parenAt Facts.unaryOperandLevel (parenthesize e))
  | .bin o l r =>
    .bin o (parenAt ((binPrec o).getD 0) (parenthesize l))
      (parenAt ((binRhs o).getD ((binPrec o).getD 0 + 1)) (parenthesize r))
  | .cond c a b =>
    .cond (parenAt condAlt.1 (parenthesize c)) (parenAt condAlt.2.1 (parenthesize a))
      (parenAt condAlt.2.2 (parenthesize b))
  | e => e

/-- minimal-parenthesis printer to tokens for a position of level `q` (`q = 0`: top level) -/
def ppToks (q : Nat) (e : E) : List Tok := toks (parenAt q (parenthesize e))

/-- remove all parentheses -/
def strip : E → E
  | .paren e => strip e
  | .un o e => .un o (strip e)
  | .bin o l r => .bin o (strip l) (strip r)
  | .cond c a b => .cond (strip c) (strip a) (strip b)
  | e => e

theorem lev_parenthesize (e : E) : lev (parenthesize e) = lev e := by
  cases e <;> simp [parenthesize, lev]

theorem lev_parenAt {q : Nat} (e : E) (hq : q ≤ Facts.unaryOperandLevel + 1) : q ≤ lev (parenAt q e) := by
  unfold parenAt; split
  · assumption
  · exact hq

theorem strip_parenAt (q : Nat) (e : E) : strip (parenAt q e) = strip e := by
  unfold parenAt; split <;> simp [strip]

theorem OpE.parenAt {e : E} (q : Nat) (h : OpE e) : OpE (parenAt q e) := by
  unfold EL.parenAt; split
  · exact h
  · exact .paren h

theorem wellParen_parenAt {e : E} (q : Nat) (h : WellParen e) : WellParen (parenAt q e) := by
  unfold parenAt; split
  · exact h
  · simpa [WellParen, wellParen] using h

theorem parenAt_of_le {q : Nat} {e : E} (h : q ≤ lev e) : parenAt q e = e := by simp [parenAt, h]

theorem cond_levels_le : condAlt.1 ≤ Facts.unaryOperandLevel + 1 ∧ condAlt.2.1 ≤ Facts.unaryOperandLevel + 1 ∧
    condAlt.2.2 ≤ Facts.unaryOperandLevel + 1 := by decide

theorem OpE.parenthesize {e : E} (h : OpE e) : OpE (parenthesize e) := by
  induction h with
  | paren _ ih => exact .paren ih
  | un hu _ ih => exact .un hu (ih.parenAt _)
  | bin hk _ _ ihl ihr => exact .bin hk (ihl.parenAt _) (ihr.parenAt _)
  | cond _ _ _ ihc iha ihb => exact .cond (ihc.parenAt _) (iha.parenAt _) (ihb.parenAt _)
  | _ => constructor

theorem strip_parenthesize {e : E} (h : OpE e) : strip (parenthesize e) = strip e := by
  induction h <;> simp_all [parenthesize, strip, strip_parenAt]

/-- the printer's output is well parenthesised -/
theorem wellParen_parenthesize {e : E} (h : OpE e) : WellParen (parenthesize e) := by
  induction h with
  | paren _ ih => simpa [WellParen, wellParen, parenthesize] using ih
  | un hu _ ih =>
    simp only [WellParen, wellParen, parenthesize, Bool.and_eq_true, decide_eq_true_eq]
    exact ⟨lev_parenAt _ (by omega), wellParen_parenAt _ ih⟩
  | @bin o k l r hk _ _ ihl ihr =>
    have hf := binPrec_facts hk
    simp only [WellParen, wellParen, parenthesize, hk, Option.getD_some, Bool.and_eq_true, decide_eq_true_eq]
    exact ⟨⟨⟨lev_parenAt _ (by omega), lev_parenAt _ (by omega)⟩, wellParen_parenAt _ ihl⟩, wellParen_parenAt _ ihr⟩
  | cond _ _ _ ihc iha ihb =>
    have hc := cond_levels_le
    simp only [WellParen, wellParen, parenthesize, Bool.and_eq_true, decide_eq_true_eq]
    exact ⟨⟨⟨⟨⟨lev_parenAt _ hc.1, lev_parenAt _ hc.2.1⟩, lev_parenAt _ hc.2.2⟩, wellParen_parenAt _ ihc⟩,
      wellParen_parenAt _ iha⟩, wellParen_parenAt _ ihb⟩
  | _ => rfl

/-- minimality: a tree that is already well parenthesised gets no further parentheses -/
theorem parenthesize_of_wellParen {e : E} (h : OpE e) (hw : WellParen e) : parenthesize e = e := by
  induction h with
  | paren _ ih => simp only [WellParen, wellParen] at hw; simp [parenthesize, ih hw]
  | un hu _ ih =>
    simp only [WellParen, wellParen, Bool.and_eq_true, decide_eq_true_eq] at hw
    simp [parenthesize, ih hw.2, parenAt_of_le hw.1]
  | @bin o k l r hk _ _ ihl ihr =>
    simp only [WellParen, wellParen, hk, Option.getD_some, Bool.and_eq_true, decide_eq_true_eq] at hw
    obtain ⟨⟨⟨hl1, hr1⟩, hwl⟩, hwr⟩ := hw
    simp [parenthesize, ihl hwl, ihr hwr, hk, parenAt_of_le hl1, parenAt_of_le hr1]
  | cond _ _ _ ihc iha ihb =>
    simp only [WellParen, wellParen, Bool.and_eq_true, decide_eq_true_eq] at hw
    obtain ⟨⟨⟨⟨⟨hc1, ha1⟩, hb1⟩, hwc⟩, hwa⟩, hwb⟩ := hw
    simp [parenthesize, ihc hwc, iha hwa, ihb hwb, parenAt_of_le hc1, parenAt_of_le ha1, parenAt_of_le hb1]
  | _ => rfl


/-! ## Bool equality on the fragment (for kernel-evaluated examples; `E` is a nested inductive without `DecidableEq`) -/

def eqOp : E → E → Bool
  | .name s, .name t => s = t
  | .lit k s, .lit k' s' => k = k' && s = s'
  | .paren e, .paren e' => eqOp e e'
  | .un o e, .un o' e' => o = o' && eqOp e e'
  | .bin o l r, .bin o' l' r' => o = o' && eqOp l l' && eqOp r r'
  | .cond c a b, .cond c' a' b' => eqOp c c' && eqOp a a' && eqOp b b'
  | _, _ => false

theorem eqOp_sound (a b : E) (h : eqOp a b = true) : a = b := by
  fun_induction eqOp a b <;> simp_all

def acceptsAs (s : String) (e : E) : Bool :=
  match parseCode s with
  | .accept e' => eqOp e' e
  | _ => false

theorem acceptsAs_sound {s : String} {e : E} (h : acceptsAs s e = true) : parseCode s = .accept e := by
  unfold acceptsAs at h
  split at h
  · rename_i e' he; rw [he, eqOp_sound _ _ h]
  · cases h

/-! ## string level: the lexer gives back the printed tokens

Covered spellings: ASCII identifiers (not `nil`, not a Go keyword), `nil`, decimal integer literals without `_`
and without leading zeros, every operator of the table, the unary operators, `(`, `)`, `?`, `:`; tokens are
separated by single spaces.  Not covered: float / imaginary / string literals, other integer spellings. -/

set_option linter.deprecated false in
theorem mk_eq (cs : List Char) : String.mk cs = String.ofList cs := rfl


/-- what may follow a printed token: the end of the text or a single space -/
def EndTok (tail : List Char) : Prop := tail = [] ∨ ∃ r, tail = ' ' :: r

theorem takeWhileN_append {p : Char → Bool} {pre tail : List Char} (hp : ∀ c ∈ pre, p c = true)
    (ht : ∀ c r, tail = c :: r → p c = false) : takeWhileN p (pre ++ tail) = pre.length := by
  unfold takeWhileN
  induction pre with
  | nil =>
    cases tail with
    | nil => rfl
    | cons c r => simp [ht c r rfl]
  | cons c cs ih =>
    simp only [List.cons_append, List.takeWhile, hp c (by simp), List.length_cons]
    rw [ih (fun c hc => hp c (by simp [hc]))]

theorem digitsU_cons {c : Char} (rest : List Char) (hc : isDec c = true) :
    digitsU isDec (c :: rest) = 1 + digitsU isDec rest := by
  have hcu : c ≠ '_' := by rintro rfl; exact absurd hc (by decide)
  rw [digitsU.eq_def]
  split
  · rename_i h; cases h; exact absurd rfl hcu
  · rename_i h1 h; cases h; simp only [hc, if_true]
  · rename_i h; cases h

theorem digitsU_end {d : Char → Bool} {tail : List Char} (ht : EndTok tail) (hd : d ' ' = false) : digitsU d tail = 0 := by
  rcases ht with rfl | ⟨r, rfl⟩
  · rfl
  · unfold digitsU
    split
    · rename_i h; cases h
    · rename_i h1 h; cases h; simp [hd]
    · rename_i h; cases h

theorem digitsU_append {pre tail : List Char} (hp : ∀ c ∈ pre, isDec c = true) (ht : EndTok tail) :
    digitsU isDec (pre ++ tail) = pre.length := by
  induction pre with
  | nil => exact digitsU_end ht (by decide)
  | cons c cs ih =>
    rw [List.cons_append, digitsU_cons _ (hp c (by simp)), ih (fun c hc => hp c (by simp [hc]))]
    simp; omega


theorem endTok_head {p : Char → Bool} {tail : List Char} (ht : EndTok tail) (hp : p ' ' = false) :
    ∀ c r, tail = c :: r → p c = false := by
  intro c r h
  rcases ht with rfl | ⟨r', rfl⟩
  · cases h
  · cases h; exact hp

theorem lexDefault_word {s : String} {c : Char} {cs tail : List Char} (hs : s.toList = c :: cs)
    (hc : isLetter c = true) (hcs : ∀ x ∈ cs, (isLetter x || isDec x) = true) (ht : EndTok tail) :
    lexDefault (s.toList ++ tail) =
      if s = "nil" then some (some .nil_, s.toList.length, true)
      else if keywords.contains s then some (some (.kw s), s.toList.length, nlKeywords.contains s)
      else some (some (.ident s), s.toList.length, true) := by
  have h1 : c ≠ ' ' := by rintro rfl; exact absurd hc (by decide)
  have h2 : c ≠ '\t' := by rintro rfl; exact absurd hc (by decide)
  have h3 : c ≠ '\r' := by rintro rfl; exact absurd hc (by decide)
  have h4 : c ≠ '\n' := by rintro rfl; exact absurd hc (by decide)
  have h5 : c ≠ '/' := by rintro rfl; exact absurd hc (by decide)
  have hn : takeWhileN (fun c => isLetter c || isDec c) (c :: cs ++ tail) = (c :: cs).length :=
    takeWhileN_append (fun x hx => by
      rcases List.mem_cons.1 hx with rfl | hx
      · simp [hc]
      · exact hcs x hx) (endTok_head ht (by decide))
  rw [hs]
  unfold lexDefault
  simp only [List.cons_append, h1, h2, h3, h4, h5, hc, decide_false, Bool.or_self, Bool.false_and, if_false, if_true,
    Bool.false_eq_true]
  rw [List.cons_append] at hn
  simp only [hn, mk_eq]
  have : String.ofList (List.take (c :: cs).length (c :: (cs ++ tail))) = s := by
    rw [← List.cons_append, List.take_left', ← hs, String.ofList_toList]; rfl
  rw [this]

theorem lexDefault_nil {tail : List Char} (ht : EndTok tail) :
    lexDefault ("nil".toList ++ tail) = some (some .nil_, 3, true) := by
  rw [lexDefault_word (s := "nil") (c := 'n') (cs := ['i', 'l']) (by decide) (by decide) (by decide) ht]
  rfl
/-- the last branch of `lexDefault`: numeric literal or operator -/
def numOrOp (cs : List Char) : Option (Option Tok × Nat × Bool) :=
  let cands : List (Nat × (String → Tok)) :=
    [(decimalLit cs, Tok.int), (prefixedLit 'b' 'B' isBin false cs, Tok.int), (prefixedLit 'o' 'O' isOct true cs, Tok.int),
     (prefixedLit 'x' 'X' isHex false cs, Tok.int), (max (decimalFloat cs) (hexFloat cs), Tok.float)]
  let best := cands.foldl (fun (b : Nat × (String → Tok)) (x : Nat × (String → Tok)) => if x.1 > b.1 then x else b) (0, Tok.int)
  let imag := cands.foldl (fun (b : Nat) (x : Nat × (String → Tok)) =>
    if x.1 > 0 && (cs.drop x.1).head? = some 'i' && x.1 + 1 > b then x.1 + 1 else b) 0
  let opLen := match longestOp cs with | some o => o.length | none => 0
  if imag > best.1 && imag > opLen then some (some (.imag (String.ofList (cs.take imag))), imag, true)
  else if best.1 > 0 && best.1 ≥ opLen then some (some (best.2 (String.ofList (cs.take best.1))), best.1, true)
  else match longestOp cs with
    | some o => some (some (.op o), o.length, nlOps.contains o)
    | none => none

/-- first characters that lead `lexDefault` to its last branch -/
def plainStart (c : Char) : Bool :=
  !(c = ' ' || c = '\t' || c = '\r' || c = '\n' || isLetter c || c = '`' || c = '"' || c = '\'' || c = '\\')

theorem lexDefault_numOrOp {c : Char} {rest : List Char} (hc : plainStart c = true)
    (hsl : c = '/' → rest.head? ≠ some '/' ∧ rest.head? ≠ some '*') :
    lexDefault (c :: rest) = numOrOp (c :: rest) := by
  simp only [plainStart, Bool.not_eq_true', Bool.or_eq_false_iff, decide_eq_false_iff_not] at hc
  obtain ⟨⟨⟨⟨⟨⟨⟨⟨h1, h2⟩, h3⟩, h4⟩, h5⟩, h6⟩, h7⟩, h8⟩, h9⟩ := hc
  have hsl' : (c = '/' && rest.head? = some '/') = false := by
    by_cases h : c = '/'
    · simp [h, (hsl h).1]
    · simp [h]
  have hsl2 : (c = '/' && rest.head? = some '*' && (commentEnd (rest.drop 1)).isSome) = false := by
    by_cases h : c = '/'
    · simp [h, (hsl h).2]
    · simp [h]
  have hsl3 : (c = '/' && rest.head? = some '*') = false := by
    by_cases h : c = '/'
    · simp [h, (hsl h).2]
    · simp [h]
  unfold lexDefault
  simp only [h1, h2, h3, h4, h5, h6, h7, h8, h9, hsl', hsl2, hsl3, decide_false, Bool.or_self, if_false, Bool.false_eq_true]
  rfl
theorem decimalLit_nondigit {c : Char} (rest : List Char) (hc : isDec c = false) : decimalLit (c :: rest) = 0 := by
  have h0 : c ≠ '0' := by rintro rfl; exact absurd hc (by decide)
  unfold decimalLit
  split
  · rename_i h; cases h; exact absurd rfl h0
  · rename_i h; cases h; simp [hc]
  · rename_i h; cases h

theorem prefixedLit_non0 {c : Char} (a b : Char) (d : Char → Bool) (o : Bool) (rest : List Char) (h0 : c ≠ '0') :
    prefixedLit a b d o (c :: rest) = 0 := by
  unfold prefixedLit
  split
  · rename_i h; cases h; exact absurd rfl h0
  · rfl

theorem decimalFloat_nondigit {c : Char} (rest : List Char) (hc : isDec c = false) (hd : c ≠ '.') :
    decimalFloat (c :: rest) = 0 := by
  unfold decimalFloat
  have : decimals (c :: rest) = 0 := by simp [decimals, hc]
  simp only [this, if_true]
  split
  · rename_i h; cases h; exact absurd rfl hd
  · rfl

theorem hexFloat_non0 {c : Char} (rest : List Char) (h0 : c ≠ '0') : hexFloat (c :: rest) = 0 := by
  unfold hexFloat
  split
  · rename_i h; cases h; exact absurd rfl h0
  · rfl

theorem numOrOp_op {c : Char} {rest : List Char} (hc : isDec c = false) (hd : c ≠ '.') {o : String}
    (ho : longestOp (c :: rest) = some o) :
    numOrOp (c :: rest) = some (some (.op o), o.length, nlOps.contains o) := by
  have h0 : c ≠ '0' := by rintro rfl; exact absurd hc (by decide)
  unfold numOrOp
  simp [decimalLit_nondigit rest hc, prefixedLit_non0 _ _ _ _ rest h0, decimalFloat_nondigit rest hc hd,
    hexFloat_non0 rest h0, ho]
theorem isPrefixOf_space {l : List Char} (hl : ' ' ∉ l) (pre rest : List Char) :
    l.isPrefixOf (pre ++ ' ' :: rest) = l.isPrefixOf pre := by
  induction l generalizing pre with
  | nil => simp
  | cons a l ih =>
    have ha : a ≠ ' ' := fun h => hl (by simp [h])
    cases pre with
    | nil => simp [List.isPrefixOf, ha]
    | cons b pre => simp only [List.cons_append, List.isPrefixOf]; rw [ih (fun h => hl (by simp [h]))]

theorem ops_no_space : ∀ o ∈ ops, ' ' ∉ o.toList := by decide +kernel

theorem longestOp_endTok {pre tail : List Char} (ht : EndTok tail) : longestOp (pre ++ tail) = longestOp pre := by
  rcases ht with rfl | ⟨r, rfl⟩
  · simp
  · unfold longestOp
    congr 1
    apply List.filter_congr
    intro o ho
    exact isPrefixOf_space (ops_no_space o ho) pre r

/-- the operator spellings the printer emits: parentheses, unary operators, every operator of the table -/
def goodOps : List String := ["(", ")"] ++ Facts.unaryOps ++ Facts.exprAlts.flatMap (·.2.1)

def opOK (o : String) : Bool :=
  match o.toList with
  | c :: cs => plainStart c && !isDec c && c ≠ '.' && c ≠ ';' && (c ≠ '/' || cs.isEmpty) && longestOp (c :: cs) == some o
  | [] => false

theorem goodOps_ok : goodOps.all opOK = true := by decide +kernel

theorem lexDefault_op {o : String} (ho : o ∈ goodOps) {tail : List Char} (ht : EndTok tail) :
    lexDefault (o.toList ++ tail) = some (some (.op o), o.length, nlOps.contains o) := by
  have h := List.all_eq_true.1 goodOps_ok o ho
  unfold opOK at h
  split at h
  · rename_i c cs hcs
    simp only [Bool.and_eq_true, Bool.not_eq_true', decide_eq_true_eq, Bool.or_eq_true, beq_iff_eq,
      List.isEmpty_iff] at h
    obtain ⟨⟨⟨⟨⟨h1, h2⟩, h3⟩, h4⟩, h5⟩, h6⟩ := h
    rw [hcs, List.cons_append, lexDefault_numOrOp h1, numOrOp_op h2 h3]
    · rw [← List.cons_append, longestOp_endTok ht, h6]
    · intro hsl
      rcases h5 with h5 | rfl
      · exact absurd hsl h5
      · rcases ht with rfl | ⟨r, rfl⟩ <;> simp
  · cases h
def opsFirstNonDigit : Bool := ops.all fun o => match o.toList with | c :: _ => !isDec c | [] => false
theorem opsFirstNonDigit_ok : opsFirstNonDigit = true := by decide +kernel

theorem longestOp_digit {c : Char} (rest : List Char) (hc : isDec c = true) : longestOp (c :: rest) = none := by
  unfold longestOp
  have : ops.filter (fun o => o.toList.isPrefixOf (c :: rest)) = [] := by
    rw [List.filter_eq_nil_iff]
    intro o ho
    have h := List.all_eq_true.1 opsFirstNonDigit_ok o ho
    split at h
    · rename_i c' cs' heq
      rw [heq]
      simp only [List.isPrefixOf, Bool.and_eq_true, beq_iff_eq, not_and]
      rintro rfl; simp [hc] at h
    · cases h
  rw [this]; rfl

theorem exponent_end (e1 e2 : Char) (h1 : e1 ≠ ' ') (h2 : e2 ≠ ' ') {tail : List Char} (ht : EndTok tail) :
    exponent e1 e2 tail = 0 := by
  rcases ht with rfl | ⟨r, rfl⟩
  · rfl
  · unfold exponent; simp [Ne.symm h1, Ne.symm h2]

theorem prefixedLit_zero_end (a b : Char) (d : Char → Bool) (o : Bool) (ha : a ≠ ' ') (hb : b ≠ ' ')
    (hd : d ' ' = false) {tail : List Char} (ht : EndTok tail) : prefixedLit a b d o ('0' :: tail) = 0 := by
  rcases ht with rfl | ⟨r, rfl⟩
  · rfl
  · unfold prefixedLit
    have : digitsU d (' ' :: r) = 0 := digitsU_end (Or.inr ⟨r, rfl⟩) hd
    simp [Ne.symm ha, Ne.symm hb, this]

theorem hexFloat_zero_end {tail : List Char} (ht : EndTok tail) : hexFloat ('0' :: tail) = 0 := by
  rcases ht with rfl | ⟨r, rfl⟩
  · rfl
  · simp [hexFloat]

/-- decimal integer spelling: "0" or a non-zero digit followed by digits -/
def goodIntChars : List Char → Bool
  | [] => false
  | c :: cs => isDec c && cs.all isDec && (c ≠ '0' || cs.isEmpty)

theorem numOrOp_int {ds tail : List Char} (hg : goodIntChars ds = true) (ht : EndTok tail) :
    numOrOp (ds ++ tail) = some (some (.int (String.ofList ds)), ds.length, true) := by
  cases ds with
  | nil => cases hg
  | cons c cs =>
    simp only [goodIntChars, Bool.and_eq_true, List.all_eq_true, Bool.or_eq_true, decide_eq_true_eq,
      List.isEmpty_iff] at hg
    obtain ⟨⟨hc, hcs⟩, h0⟩ := hg
    have hdot : c ≠ '.' := by rintro rfl; exact absurd hc (by decide)
    have hU : digitsU isDec (cs ++ tail) = cs.length := digitsU_append hcs ht
    have e1 : decimalLit (c :: (cs ++ tail)) = cs.length + 1 := by
      unfold decimalLit
      split
      · rename_i h; cases h
        rcases h0 with h0 | rfl
        · exact absurd rfl h0
        · rfl
      · rename_i h; cases h; simp only [hc, if_true, hU]; omega
      · rename_i h; cases h
    have e2 : ∀ a b d o, a ≠ ' ' → b ≠ ' ' → d ' ' = false → prefixedLit a b d o (c :: (cs ++ tail)) = 0 := by
      intro a b d o ha hb hd
      by_cases hz : c = '0'
      · subst hz
        rcases h0 with h0 | rfl
        · exact absurd rfl h0
        · exact prefixedLit_zero_end a b d o ha hb hd ht
      · exact prefixedLit_non0 a b d o _ hz
    have e3 : decimalFloat (c :: (cs ++ tail)) = 0 := by
      have hn : decimals (c :: (cs ++ tail)) = cs.length + 1 := by simp only [decimals, hc, if_true, hU]; omega
      have hdrop : List.drop (cs.length + 1) (c :: (cs ++ tail)) = tail := by simp
      have hex := exponent_end 'e' 'E' (by decide) (by decide) ht
      unfold decimalFloat
      simp only [hn, hdrop]
      rcases ht with rfl | ⟨r, rfl⟩
      all_goals
        simp [hex]
        split
        · rename_i h; cases h; exact absurd rfl hdot
        · rfl
    have e4 : hexFloat (c :: (cs ++ tail)) = 0 := by
      by_cases hz : c = '0'
      · subst hz
        rcases h0 with h0 | rfl
        · exact absurd rfl h0
        · exact hexFloat_zero_end ht
      · exact hexFloat_non0 _ hz
    have e5 : (cs ++ tail)[cs.length]? ≠ some 'i' := by
      rcases ht with rfl | ⟨r, rfl⟩ <;> simp
    unfold numOrOp
    simp only [List.cons_append, e1, e2 'b' 'B' isBin false (by decide) (by decide) (by decide),
      e2 'o' 'O' isOct true (by decide) (by decide) (by decide),
      e2 'x' 'X' isHex false (by decide) (by decide) (by decide), e3, e4, longestOp_digit _ hc]
    simp [e5]
def pushTok (t : Option Tok) (acc : List Tok) : List Tok := match t with | some t => t :: acc | none => acc

theorem lexAll_default {f : Nat} {c : Char} {cs : List Char} {acc : List Tok} {t : Option Tok} {n : Nat} {nl' : Bool}
    (h : lexDefault (c :: cs) = some (t, n, nl')) :
    lexAll (f+1) false (c :: cs) acc =
      lexAll f nl' ((c :: cs).drop n) (pushTok t acc) := by
  rw [lexAll]
  · simp only [Bool.false_eq_true, if_false, h]; cases t <;> rfl
  · intro h; cases h

theorem lexAll_nl {f : Nat} {c : Char} {cs : List Char} {acc : List Tok} {t : Option Tok} {n : Nat} {stay : Bool}
    (h : lexNL (c :: cs) = (t, n, stay)) :
    lexAll (f+1) true (c :: cs) acc =
      lexAll f stay ((c :: cs).drop n) (pushTok t acc) := by
  rw [lexAll]
  · simp only [if_true, h]; cases t <;> rfl
  · intro h; cases h

theorem lexAll_nil (f : Nat) (nl : Bool) (acc : List Tok) : lexAll (f+1) nl [] acc = .ok acc.reverse := by
  rw [lexAll]

/-- first characters after which NLSEMI mode hands back to the default mode without a token -/
def startOK (c : Char) : Bool := !(c = ' ' || c = '\t' || c = '\r' || c = '\n' || c = ';')

theorem lexNL_start {c : Char} {rest : List Char} (hc : startOK c = true)
    (hsl : c = '/' → rest.head? ≠ some '/' ∧ rest.head? ≠ some '*') : lexNL (c :: rest) = (none, 0, false) := by
  simp only [startOK, Bool.not_eq_true', Bool.or_eq_false_iff, decide_eq_false_iff_not] at hc
  obtain ⟨⟨⟨⟨h1, h2⟩, h3⟩, h4⟩, h5⟩ := hc
  have hsl' : (c = '/' && rest.head? = some '/') = false := by
    by_cases h : c = '/'
    · simp [h, (hsl h).1]
    · simp [h]
  have hsl2 : (c = '/' && rest.head? = some '*') = false := by
    by_cases h : c = '/'
    · simp [h, (hsl h).2]
    · simp [h]
  unfold lexNL
  simp only [h1, h2, h3, h4, h5, hsl', hsl2, decide_false, Bool.or_self, if_false, Bool.false_eq_true]

theorem lexDefault_space {c : Char} {rest : List Char} (hc : startOK c = true) :
    lexDefault (' ' :: c :: rest) = some (none, 1, false) := by
  simp only [startOK, Bool.not_eq_true', Bool.or_eq_false_iff, decide_eq_false_iff_not] at hc
  unfold lexDefault
  simp [takeWhileN, List.takeWhile, hc.1.1.1.1, hc.1.1.1.2]

theorem lexNL_space {c : Char} {rest : List Char} (hc : startOK c = true) :
    lexNL (' ' :: c :: rest) = (none, 1, true) := by
  simp only [startOK, Bool.not_eq_true', Bool.or_eq_false_iff, decide_eq_false_iff_not] at hc
  unfold lexNL
  simp [takeWhileN, List.takeWhile, hc.1.1.1.1, hc.1.1.1.2]
/-- spelling of a token (identifiers, integer literals, operators, `nil`; other tokens are not printed) -/
def tokChars : Tok → List Char
  | .ident s => s.toList
  | .int s => s.toList
  | .op o => o.toList
  | .nil_ => "nil".toList
  | _ => []

/-- tokens separated by single spaces -/
def renderChars : List Tok → List Char
  | [] => []
  | [t] => tokChars t
  | t :: ts => tokChars t ++ ' ' :: renderChars ts

/-- ASCII identifier that is neither `nil` nor a Go keyword -/
def goodIdent (s : String) : Bool :=
  (match s.toList with
   | c :: cs => isLetter c && cs.all (fun x => isLetter x || isDec x)
   | [] => false) && s ≠ "nil" && !keywords.contains s

def goodTok : Tok → Bool
  | .ident s => goodIdent s
  | .int s => goodIntChars s.toList
  | .op o => goodOps.contains o
  | .nil_ => true
  | _ => false

/-- mode of the lexer after the token (NLSEMI after identifiers, literals and closing brackets) -/
def nlAfter : Tok → Bool
  | .op o => nlOps.contains o
  | _ => true

theorem digit_plain {c : Char} (h : isDec c = true) :
    isLetter c = false ∧ c ≠ ' ' ∧ c ≠ '\t' ∧ c ≠ '\r' ∧ c ≠ '\n' ∧ c ≠ '`' ∧ c ≠ '"' ∧ c ≠ '\'' ∧ c ≠ '\\' ∧
      c ≠ '/' ∧ c ≠ ';' := by
  refine ⟨?_, ?_⟩
  · simp only [isDec, isLetter, Char.isDigit, Char.isAlpha, Char.isUpper, Char.isLower, Bool.and_eq_true,
      decide_eq_true_eq, Bool.or_eq_false_iff, Bool.and_eq_false_iff, decide_eq_false_iff_not,
      UInt32.le_iff_toNat_le] at *
    have : c ≠ '_' := by rintro rfl; simp at h
    simp [this]
    simp at h
    omega
  · refine ⟨?_, ?_, ?_, ?_, ?_, ?_, ?_, ?_, ?_, ?_⟩ <;> (rintro rfl; exact absurd h (by decide))

theorem letter_start {c : Char} (h : isLetter c = true) : startOK c = true := by
  have h1 : c ≠ ' ' := by rintro rfl; exact absurd h (by decide)
  have h2 : c ≠ '\t' := by rintro rfl; exact absurd h (by decide)
  have h3 : c ≠ '\r' := by rintro rfl; exact absurd h (by decide)
  have h4 : c ≠ '\n' := by rintro rfl; exact absurd h (by decide)
  have h5 : c ≠ ';' := by rintro rfl; exact absurd h (by decide)
  simp [startOK, h1, h2, h3, h4, h5]

theorem lexDefault_good {t : Tok} (hg : goodTok t = true) {tail : List Char} (ht : EndTok tail) :
    lexDefault (tokChars t ++ tail) = some (some t, (tokChars t).length, nlAfter t) := by
  cases t with
  | ident s =>
    simp only [goodTok, goodIdent, Bool.and_eq_true, decide_eq_true_eq, Bool.not_eq_true'] at hg
    obtain ⟨⟨h1, hnil⟩, hkw⟩ := hg
    split at h1
    · rename_i c cs hs
      simp only [Bool.and_eq_true, List.all_eq_true] at h1
      simp only [tokChars, nlAfter]
      rw [lexDefault_word hs h1.1 h1.2 ht, if_neg hnil, hkw]; rfl
    · cases h1
  | int s =>
    simp only [goodTok] at hg
    simp only [tokChars, nlAfter]
    cases hs : s.toList with
    | nil => rw [hs] at hg; cases hg
    | cons c cs =>
      have hg' := hg
      rw [hs] at hg
      have hc : isDec c = true := by simp only [goodIntChars, Bool.and_eq_true] at hg; exact hg.1.1
      obtain ⟨p0, p1, p2, p3, p4, p5, p6, p7, p8, p9, _⟩ := digit_plain hc
      have hp : plainStart c = true := by simp [plainStart, p0, p1, p2, p3, p4, p5, p6, p7, p8]
      rw [List.cons_append, lexDefault_numOrOp hp (fun h => absurd h p9), ← List.cons_append, numOrOp_int hg ht,
        ← hs, String.ofList_toList]
  | op o =>
    simp only [goodTok, List.contains_iff_mem] at hg
    simp only [tokChars, nlAfter]
    rw [lexDefault_op hg ht, String.length_toList]
  | nil_ => simp only [tokChars, nlAfter]; exact lexDefault_nil ht
  | _ => cases hg

/-- a printed token starts with a character that neither is blank nor opens a comment when the token is followed
    by the end or a space -/
theorem tokChars_start {t : Tok} (hg : goodTok t = true) :
    ∃ c cs, tokChars t = c :: cs ∧ startOK c = true ∧ (c = '/' → cs = []) := by
  cases t with
  | ident s =>
    simp only [goodTok, goodIdent, Bool.and_eq_true] at hg
    have h1 := hg.1.1
    split at h1
    · rename_i c cs hs
      simp only [Bool.and_eq_true] at h1
      exact ⟨c, cs, hs, letter_start h1.1, fun h => by subst h; exact absurd h1.1 (by decide)⟩
    · cases h1
  | int s =>
    simp only [goodTok] at hg
    cases hs : s.toList with
    | nil => rw [hs] at hg; cases hg
    | cons c cs =>
      rw [hs] at hg
      have hc : isDec c = true := by simp only [goodIntChars, Bool.and_eq_true] at hg; exact hg.1.1
      obtain ⟨p0, p1, p2, p3, p4, p5, p6, p7, p8, p9, p10⟩ := digit_plain hc
      exact ⟨c, cs, hs, by simp [startOK, p1, p2, p3, p4, p10], fun h => absurd h p9⟩
  | op o =>
    simp only [goodTok, List.contains_iff_mem] at hg
    have h := List.all_eq_true.1 goodOps_ok o hg
    unfold opOK at h
    split at h
    · rename_i c cs hcs
      simp only [Bool.and_eq_true, Bool.not_eq_true', decide_eq_true_eq, Bool.or_eq_true, beq_iff_eq,
        List.isEmpty_iff] at h
      obtain ⟨⟨⟨⟨⟨h1, h2⟩, h3⟩, h4⟩, h5⟩, h6⟩ := h
      refine ⟨c, cs, hcs, ?_, fun hsl => ?_⟩
      · simp only [plainStart, Bool.not_eq_true', Bool.or_eq_false_iff, decide_eq_false_iff_not] at h1
        simp [startOK, h1.1.1.1.1.1.1.1.1, h1.1.1.1.1.1.1.1.2, h1.1.1.1.1.1.1.2, h1.1.1.1.1.1.2, h4]
      · rcases h5 with h5 | h5
        · exact absurd hsl h5
        · exact h5
    · cases h
  | nil_ => exact ⟨'n', ['i', 'l'], by decide, by decide, by decide⟩
  | _ => cases hg

theorem renderChars_cons2 (t t' : Tok) (ts : List Tok) :
    renderChars (t :: t' :: ts) = tokChars t ++ ' ' :: renderChars (t' :: ts) := rfl

theorem renderChars_start {t : Tok} (hg : goodTok t = true) (ts : List Tok) :
    ∃ c r, renderChars (t :: ts) = c :: r ∧ startOK c = true ∧
      (c = '/' → r.head? ≠ some '/' ∧ r.head? ≠ some '*') := by
  obtain ⟨c, cs, hcs, hc, hsl⟩ := tokChars_start hg
  cases ts with
  | nil => exact ⟨c, cs, hcs, hc, fun h => by rw [hsl h]; simp⟩
  | cons t' ts =>
    refine ⟨c, cs ++ ' ' :: renderChars (t' :: ts), by rw [renderChars_cons2, hcs]; rfl, hc, fun h => ?_⟩
    rw [hsl h]; simp

/-- lexing the printed token list gives the tokens back (explicit fuel) -/
theorem lexAll_render (ts : List Tok) (hg : ∀ t ∈ ts, goodTok t = true) (hne : ts ≠ []) :
    ∀ f acc, 3 * ts.length ≤ f → lexAll f false (renderChars ts) acc = .ok (acc.reverse ++ ts) := by
  induction ts with
  | nil => exact absurd rfl hne
  | cons t ts ih =>
    intro f acc hf
    have hgt := hg t (by simp)
    obtain ⟨c, cs, hcs, hc, hsl⟩ := tokChars_start hgt
    cases ts with
    | nil =>
      obtain ⟨f, rfl⟩ : ∃ f', f = f' + 2 := ⟨f - 2, by simp at hf; omega⟩
      have h1 := lexDefault_good hgt (tail := []) (Or.inl rfl)
      simp only [List.append_nil] at h1
      simp only [renderChars]
      rw [hcs] at h1 ⊢
      rw [lexAll_default h1, ← hcs, List.drop_length, lexAll_nil]
      simp [pushTok]
    | cons t' ts =>
      have hgt' := hg t' (by simp)
      have ih := ih (fun x hx => hg x (by simp [hx])) (by simp)
      obtain ⟨c', r', hr', hc', hsl'⟩ := renderChars_start hgt' ts
      obtain ⟨f, rfl⟩ : ∃ f', f = f' + 3 := ⟨f - 3, by simp at hf; omega⟩
      have h1 := lexDefault_good hgt (tail := ' ' :: renderChars (t' :: ts)) (Or.inr ⟨_, rfl⟩)
      rw [renderChars_cons2]
      rw [hcs] at h1 ⊢
      rw [List.cons_append] at h1 ⊢
      rw [lexAll_default h1, ← List.cons_append, ← hcs, List.drop_left' rfl, hr']
      cases nlAfter t with
      | false =>
        rw [lexAll_default (lexDefault_space hc'), ← hr']
        simp only [List.drop_succ_cons, List.drop_zero, pushTok]
        rw [ih _ _ (by simp at hf ⊢; omega)]; simp
      | true =>
        rw [lexAll_nl (lexNL_space hc')]
        simp only [List.drop_succ_cons, List.drop_zero, pushTok]
        rw [lexAll_nl (lexNL_start hc' hsl'), ← hr']
        simp only [List.drop_zero, pushTok]
        rw [ih _ _ (by simp at hf ⊢; omega)]; simp
theorem renderChars_length (ts : List Tok) (hg : ∀ t ∈ ts, goodTok t = true) :
    2 * ts.length ≤ (renderChars ts).length + 1 := by
  induction ts with
  | nil => simp
  | cons t ts ih =>
    obtain ⟨c, cs, hcs, _, _⟩ := tokChars_start (hg t (by simp))
    have ih := ih (fun x hx => hg x (by simp [hx]))
    cases ts with
    | nil => simp [renderChars, hcs]
    | cons t' ts =>
      rw [renderChars_cons2, hcs]
      simp only [List.length_cons, List.length_append] at ih ⊢
      omega

/-- the printed text: tokens separated by single spaces -/
def renderToks (ts : List Tok) : String := String.ofList (renderChars ts)

/-- string-level lexer round trip -/
theorem lex_renderToks (ts : List Tok) (hg : ∀ t ∈ ts, goodTok t = true) (hne : ts ≠ []) :
    lex (renderToks ts) = .ok ts := by
  unfold lex renderToks
  simp only [String.toList_ofList, Bool.and_false, Bool.false_eq_true, if_false]
  rw [lexAll_render ts hg hne _ _ (by have := renderChars_length ts hg; omega)]
  simp

/-- atoms the string-level theorem covers: ASCII identifiers other than `nil` and the keywords, `nil`,
    decimal integer literals without `_` and leading zeros -/
def goodAtoms : E → Bool
  | .name s => goodIdent s
  | .lit k s => (k = "int" && goodIntChars s.toList) || (k = "nil" && s = "nil")
  | .paren e => goodAtoms e
  | .un _ e => goodAtoms e
  | .bin _ l r => goodAtoms l && goodAtoms r
  | .cond c a b => goodAtoms c && goodAtoms a && goodAtoms b
  | _ => false

theorem punct_good : goodOps.contains "(" = true ∧ goodOps.contains ")" = true ∧ goodOps.contains "?" = true ∧
    goodOps.contains ":" = true := by decide

theorem unary_good {o : String} (h : unaryOps.contains o = true) : goodOps.contains o = true := by
  simp only [List.contains_iff_mem, unaryOps, goodOps, List.mem_append] at h ⊢
  exact Or.inl (Or.inr h)

theorem binary_good {o : String} {k : Nat} (h : binPrec o = some k) : goodOps.contains o = true := by
  obtain ⟨a, ha, _, hmem, _, _⟩ := binPrec_some h
  simp only [List.contains_iff_mem, goodOps, List.mem_append, List.mem_flatMap]
  exact Or.inr ⟨a, ha, hmem⟩

theorem toks_good {e : E} (ho : OpE e) (hg : goodAtoms e = true) : ∀ t ∈ toks e, goodTok t = true := by
  induction ho with
  | name s => simpa [toks, goodTok, goodAtoms] using hg
  | int s => simpa [toks, litTok, goodTok, goodAtoms] using hg
  | float s => simp [goodAtoms] at hg
  | imag s => simp [goodAtoms] at hg
  | str s => simp [goodAtoms] at hg
  | nil => simp [toks, litTok, goodTok]
  | paren _ ih =>
    simp only [goodAtoms] at hg
    intro t ht
    simp only [toks, List.mem_cons, List.mem_append, List.not_mem_nil, or_false] at ht
    rcases ht with (rfl | ht) | rfl
    · exact punct_good.1
    · exact ih hg t ht
    · exact punct_good.2.1
  | un hu _ ih =>
    simp only [goodAtoms] at hg
    intro t ht
    simp only [toks, List.mem_cons] at ht
    rcases ht with rfl | ht
    · exact unary_good hu
    · exact ih hg t ht
  | bin hk _ _ ihl ihr =>
    simp only [goodAtoms, Bool.and_eq_true] at hg
    intro t ht
    simp only [toks, List.mem_cons, List.mem_append] at ht
    rcases ht with ht | rfl | ht
    · exact ihl hg.1 t ht
    · exact binary_good hk
    · exact ihr hg.2 t ht
  | cond _ _ _ ihc iha ihb =>
    simp only [goodAtoms, Bool.and_eq_true] at hg
    intro t ht
    simp only [toks, List.mem_cons, List.mem_append] at ht
    rcases ht with ht | rfl | ht | rfl | ht
    · exact ihc hg.1.1 t ht
    · exact punct_good.2.2.1
    · exact iha hg.1.2 t ht
    · exact punct_good.2.2.2
    · exact ihb hg.2 t ht

theorem toks_ne_nil {e : E} (ho : OpE e) : toks e ≠ [] := by
  induction ho <;> simp [toks]

theorem goodAtoms_parenAt (q : Nat) (e : E) : goodAtoms (parenAt q e) = goodAtoms e := by
  unfold parenAt; split <;> simp [goodAtoms]

theorem goodAtoms_parenthesize {e : E} (ho : OpE e) (hg : goodAtoms e = true) :
    goodAtoms (parenthesize e) = true := by
  induction ho <;> simp_all [goodAtoms, parenthesize, goodAtoms_parenAt]

/-- the printed text of a tree -/
def render (e : E) : String := renderToks (toks e)

end EL
