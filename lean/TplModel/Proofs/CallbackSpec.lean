import TplModel.Html.Engine
import TplModel.Proofs.AttrProofs
import TplModel.Proofs.RenderSpec
/-! # Closed forms of the evaluation callbacks of a loaded manager (`EN.envOf`)

Helper lemmas for `TplModel/Props/Callbacks.lean`. `Engine.lean` is NOT changed: the `Id.run`/`for` loops of
`EN.attrEvaluate` and `EN.withAssign` are proved EQUAL to structurally recursive functions (`evalParts`; `waScan` +
`evalPairs`) with the loop induction principle `forIn_id_ind`; everything else is derived from these functions.

1. `attrEvaluate_loop` (`evalParts`, compositional form `partsVal`, `partsVal_ok`, `partsVal_err`);
2. `withAssign_loops`; the grammar of accepted part lists (`waScan_accepts`: `waL`/`waC` on the significant parts);
   evaluation `evalAll`, frame `bindAll`, lookup in the frame (`bindAll_find`);
3. `extractRange_eq_AT` (the String-level header splitter of the engine is the `List Char` one of Props/C04hdr),
   the vocabulary of the closed form of `rangeItems` (`rangeHeader`, `rangePairs`, `itemFrame`), `scopeGet_itemFrame`;
4. `evalExpr_name`;
5. generic facts about the range loop of the specification (`threadBodies_ok_or_fuel`, `joinItems_true`, `lastNc_const`).
Core-only. -/
namespace EN
open EV (Val FnSpec)
open RN (CAttr Part NodeD Node NK Cls trimSpace trimSuffixS trimPrefixS)
open EV (fmtV)

/-! ## 0. loops in `Id`; lists -/

theorem map_mapIdx' {α β γ : Type} (l : List α) (f : Nat → α → β) (g : β → γ) :
    (l.mapIdx f).map g = l.mapIdx (fun i x => g (f i x)) := by
  apply List.ext_getElem <;> simp

theorem mapIdx_const {α β : Type} (l : List α) (g : α → β) : l.mapIdx (fun _ x => g x) = l.map g := by
  apply List.ext_getElem <;> simp

/-- induction principle for an `Id` loop followed by a continuation: `I l s r` relates the remaining list, the loop
    state and the final result -/
theorem forIn_id_ind {α σ β : Type} (f : α → σ → Id (ForInStep σ)) (K : σ → Id β) (I : List α → σ → β → Prop)
    (hnil : ∀ s, I [] s (K s).run)
    (hcons : ∀ x xs s r, (match (f x s).run with | .done s' => r = (K s').run | .yield s' => I xs s' r) → I (x :: xs) s r) :
    ∀ l s, I l s (forIn l s f >>= K).run
  | [], s => by simpa using hnil s
  | x :: xs, s => by
    apply hcons
    simp only [List.forIn_cons, Id.run_bind]
    cases hx : (f x s).run with
    | done s' => simp
    | yield s' =>
      simp only
      have := forIn_id_ind f K I hnil hcons xs s'
      simpa using this


/-! ## 1. `Attr.Evaluate` -/

/-- the loop of `Attr.Evaluate` from part list, buffer and log so far -/
def evalParts (cx : Ctx) (sc : List Val) : List Part → String → List String → Except Cls String × List String
  | [], buf, lg => (.ok buf, lg)
  | .lit s :: ps, buf, lg => evalParts cx sc ps (buf ++ s) lg
  | .other :: ps, buf, lg => evalParts cx sc ps buf lg
  | .code k :: ps, buf, lg =>
    match evalExpr cx sc cx.exprs[k]! with
    | (.error c, l) => (.error c, lg ++ l)
    | (.ok r, l) =>
      match EV.fmtV r with
      | some s => evalParts cx sc ps (buf ++ s) (lg ++ l)
      | none => evalParts cx sc ps buf (lg ++ l ++ [unsupportedEv])

theorem attrEvaluate_loop (cx : Ctx) (a : CAttr) (sc : List Val) :
    attrEvaluate cx a sc =
      match a.value with
      | none => (.error .attrValueExpected, [])
      | some v => if a.parts.isEmpty then (.ok v, []) else evalParts cx sc a.parts "" [] := by
  unfold attrEvaluate
  cases a.value with
  | none => rfl
  | some v =>
    simp only
    split
    · rfl
    · refine forIn_id_ind _ _ (fun ps (s : Option (Except Cls String × List String) × String × List String) r => s.1 = none → r = evalParts cx sc ps s.2.1 s.2.2) ?_ ?_ a.parts (none, "", []) rfl
      · intro s hs
        simp [hs, evalParts]
      · intro x xs s r h hs
        cases x with
        | lit t => simp only [evalParts]; exact h rfl
        | other => simp only [evalParts]; exact h rfl
        | code k =>
          simp only [evalParts]
          simp only [] at h
          rcases he : evalExpr cx sc cx.exprs[k]! with ⟨_ | w, l⟩
          · simp only [he] at h ⊢; exact h
          · simp only [he] at h ⊢
            cases hfm : fmtV w
            · simp only [hfm] at h ⊢; exact h rfl
            · simp only [hfm] at h ⊢; exact h rfl

/-- what one part contributes: its text and its events, or the error that ends the evaluation -/
def partVal (cx : Ctx) (sc : List Val) : Part → Except Cls String × List String
  | .lit s => (.ok s, [])
  | .other => (.ok "", [])
  | .code k =>
    match evalExpr cx sc cx.exprs[k]! with
    | (.error c, l) => (.error c, l)
    | (.ok r, l) =>
      match fmtV r with
      | some s => (.ok s, l)
      | none => (.ok "", l ++ [unsupportedEv])

/-- left-to-right fold over the parts: texts and logs are concatenated, the first failure ends the fold -/
def partsVal (cx : Ctx) (sc : List Val) : List Part → Except Cls String × List String
  | [] => (.ok "", [])
  | p :: ps =>
    match partVal cx sc p with
    | (.error c, l) => (.error c, l)
    | (.ok s, l) =>
      match partsVal cx sc ps with
      | (.error c, l') => (.error c, l ++ l')
      | (.ok t, l') => (.ok (s ++ t), l ++ l')

/-- prefix a result with the buffer and the log accumulated so far -/
def prefixRes (buf : String) (lg : List String) : Except Cls String × List String → Except Cls String × List String
  | (.error c, l) => (.error c, lg ++ l)
  | (.ok t, l) => (.ok (buf ++ t), lg ++ l)

theorem evalParts_eq (cx : Ctx) (sc : List Val) : ∀ (ps : List Part) (buf : String) (lg : List String),
    evalParts cx sc ps buf lg = prefixRes buf lg (partsVal cx sc ps)
  | [], buf, lg => by simp [evalParts, partsVal, prefixRes]
  | .lit s :: ps, buf, lg => by
    rw [evalParts, evalParts_eq cx sc ps, partsVal]
    simp only [partVal]
    rcases partsVal cx sc ps with ⟨_ | t, l⟩ <;> simp [prefixRes, String.append_assoc]
  | .other :: ps, buf, lg => by
    rw [evalParts, evalParts_eq cx sc ps, partsVal]
    simp only [partVal]
    rcases partsVal cx sc ps with ⟨_ | t, l⟩ <;> simp [prefixRes]
  | .code k :: ps, buf, lg => by
    rw [evalParts, partsVal]
    simp only [partVal]
    rcases evalExpr cx sc cx.exprs[k]! with ⟨c | r, l⟩
    · simp [prefixRes]
    · simp only []
      cases fmtV r with
      | none =>
        simp only []
        rw [evalParts_eq cx sc ps]
        rcases partsVal cx sc ps with ⟨_ | t, l'⟩ <;> simp [prefixRes]
      | some s =>
        simp only []
        rw [evalParts_eq cx sc ps]
        rcases partsVal cx sc ps with ⟨_ | t, l'⟩ <;> simp [prefixRes, String.append_assoc]

/-- the text a part contributes when it succeeds -/
def partText (cx : Ctx) (sc : List Val) (p : Part) : String :=
  match (partVal cx sc p).1 with | .ok s => s | .error _ => ""

def IsOk {α : Type} : Except Cls α → Prop
  | .ok _ => True
  | .error _ => False

/-- every part succeeds: the result is the concatenation of the texts, the log the concatenation of the logs -/
theorem partsVal_ok (cx : Ctx) (sc : List Val) : ∀ (ps : List Part), (∀ p ∈ ps, IsOk (partVal cx sc p).1) →
    partsVal cx sc ps = (.ok (String.join (ps.map (partText cx sc))), ps.flatMap fun p => (partVal cx sc p).2)
  | [], _ => by simp [partsVal, String.join]
  | p :: ps, h => by
    have h1 := h p (List.mem_cons_self ..)
    have ih := partsVal_ok cx sc ps (fun q hq => h q (List.mem_cons_of_mem _ hq))
    rw [partsVal, ih]
    unfold partText
    rcases hp : partVal cx sc p with ⟨_ | s, l⟩
    · rw [hp] at h1; exact h1.elim
    · simp [String.join_cons, hp]

/-- the first failing part ends the evaluation: its error class, the log up to and including its own events -/
theorem partsVal_err (cx : Ctx) (sc : List Val) : ∀ (pre : List Part) (p : Part) (post : List Part) (c : Cls) (l : List String),
    (∀ q ∈ pre, IsOk (partVal cx sc q).1) → partVal cx sc p = (.error c, l) →
    partsVal cx sc (pre ++ p :: post) = (.error c, (pre.flatMap fun q => (partVal cx sc q).2) ++ l)
  | [], p, post, c, l, _, hp => by simp [partsVal, hp]
  | q :: pre, p, post, c, l, h, hp => by
    have h1 := h q (List.mem_cons_self ..)
    have ih := partsVal_err cx sc pre p post c l (fun q hq => h q (List.mem_cons_of_mem _ hq)) hp
    rw [List.cons_append, partsVal, ih]
    rcases hq : partVal cx sc q with ⟨_ | s, l'⟩
    · rw [hq] at h1; exact h1.elim
    · simp [hq]

/-! ## 2. `Attr.WithAssign` -/

/-- the name written in a literal part of a `with` value: `name :=` for the first assignment, `; name :=` for the
    following ones (`none`: the literal is not of this form) -/
def waName (first : Bool) (l : String) : Option String :=
  let t := trimSpace l
  if !t.endsWith ":=" then none
  else
    let u := trimSpace (trimSuffixS t ":=")
    if first then some u
    else if !u.startsWith ";" then none
    else some (trimSpace (trimPrefixS u ";"))

/-- first loop of `WithAssign` as a function of the parts and the lists collected so far (`none` = syntax error) -/
def waScan : List Part → List String → List Nat → Option (List String × List Nat)
  | [], ns, cs => some (ns, cs)
  | .lit s :: ps, ns, cs =>
    if trimSpace s == "" then waScan ps ns cs
    else if cs.length > ns.length then none
    else match waName (ns.length == 0) s with
      | none => none
      | some n => waScan ps (ns ++ [n]) cs
  | .code k :: ps, ns, cs => if ns.length != cs.length + 1 then none else waScan ps ns (cs ++ [k])
  | .other :: ps, ns, cs => waScan ps ns cs

/-- second loop of `WithAssign`: the expressions are evaluated in order, all in the scope `sc` of the element -/
def evalPairs (cx : Ctx) (sc : List Val) : List (String × Nat) → List (String × Val) → List String →
    Except Cls (List (String × Val)) × List String
  | [], kvs, lg => (.ok kvs, lg)
  | (n, k) :: rest, kvs, lg =>
    match evalExpr cx sc cx.exprs[k]! with
    | (.error c, l) => (.error c, lg ++ l)
    | (.ok v, l) => evalPairs cx sc rest (kvs.filter (·.1 ≠ n) ++ [(n, v)]) (lg ++ l)

/-- what follows the first loop -/
def waFinish (cx : Ctx) (sc : List Val) : Option (List String × List Nat) → Except Cls (List Val) × List String
  | none => (.error .withSyntax, [])
  | some (ns, cs) =>
    if ns.isEmpty then (.error .withSyntax, [])
    else if cs.length != ns.length then (.error .withSyntax, [])
    else match evalPairs cx sc (ns.zip cs) [] [] with
      | (.error c, lg) => (.error c, lg)
      | (.ok kvs, lg) => (.ok (Val.map "map[string]interface {}" kvs :: sc), lg)

theorem withAssign_loops (cx : Ctx) (a : CAttr) (sc : List Val) :
    withAssign cx a sc =
      match a.value with
      | none => (.error .attrValueExpected, [])
      | some _ => waFinish cx sc (waScan a.parts [] []) := by
  unfold withAssign
  cases a.value with
  | none => rfl
  | some v =>
    simp only
    refine forIn_id_ind _ _ (fun ps (s : Option (Except Cls (List Val) × List String) × List String × List Nat)
      (r : Except Cls (List Val) × List String) =>
      s.1 = none → r = waFinish cx sc (waScan ps s.2.1 s.2.2)) ?_ ?_ a.parts (none, [], []) rfl
    · rintro ⟨r0, ns, cs⟩ hs
      simp only at hs
      subst hs
      simp only [waScan, waFinish]
      split
      · rfl
      · split
        · rfl
        · refine forIn_id_ind _ _ (fun ps (s : Option (Except Cls (List Val) × List String) × List (String × Val) × List String)
            (r : Except Cls (List Val) × List String) =>
            s.1 = none → r = match evalPairs cx sc ps s.2.1 s.2.2 with
              | (.error c, lg) => (.error c, lg)
              | (.ok kvs, lg) => (.ok (Val.map "map[string]interface {}" kvs :: sc), lg)) ?_ ?_ (ns.zip cs) (none, [], []) rfl
          · rintro ⟨r0, kvs, lg⟩ hs
            simp only at hs
            subst hs
            rfl
          · rintro ⟨n, k⟩ xs ⟨r0, kvs, lg⟩ r h hs
            simp only at hs
            subst hs
            simp only [evalPairs]
            simp only [] at h
            rcases he : evalExpr cx sc cx.exprs[k]! with ⟨_ | w, l⟩
            · simp only [he] at h ⊢; exact h
            · simp only [he] at h ⊢; exact h rfl
    · rintro p ps ⟨r0, ns, cs⟩ r h hs
      simp only at hs
      subst hs
      cases p with
      | other => simp only [waScan]; exact h rfl
      | code k =>
        simp only [waScan]
        simp only [] at h
        split
        · rename_i hc; rw [if_pos hc] at h; exact h
        · rename_i hc; rw [if_neg hc] at h; exact h rfl
      | lit t =>
        simp only [waScan, waName]
        simp only [] at h
        generalize trimSpace t = ts at h ⊢
        generalize trimSpace (trimSuffixS ts ":=") = u at h ⊢
        generalize (ts == "") = b1 at h ⊢
        generalize (!ts.endsWith ":=") = b3 at h ⊢
        generalize (!u.startsWith ";") = b5 at h ⊢
        generalize trimSpace (trimPrefixS u ";") = w at h ⊢
        cases b1
        · simp only [Bool.false_eq_true, if_false] at h ⊢
          by_cases c2 : cs.length > ns.length
          · rw [if_pos c2] at h ⊢; exact h
          rw [if_neg c2] at h ⊢
          cases b3
          · simp only [Bool.false_eq_true, if_false] at h ⊢
            by_cases c4 : ns.length > 0
            · have c4' : (ns.length == 0) = false := by rw [beq_eq_false_iff_ne]; omega
              rw [if_pos c4] at h
              simp only [c4', Bool.false_eq_true, if_false]
              cases b5
              · simp only [Bool.false_eq_true, if_false] at h ⊢; exact h rfl
              · simp only [if_true] at h ⊢; exact h
            · have c4' : (ns.length == 0) = true := by rw [beq_iff_eq]; omega
              rw [if_neg c4] at h
              simp only [c4', if_true]
              exact h rfl
          · simp only [if_true] at h ⊢; exact h
        · simp only [if_true] at h ⊢; exact h rfl

/-- the checks after the first loop: at least one name, as many blocks as names -/
def waOk : Option (List String × List Nat) → Option (List (String × Nat))
  | some (ns, cs) => if ns.isEmpty || cs.length != ns.length then none else some (ns.zip cs)
  | none => none

/-- parts that the first loop looks at: `${…}` blocks and non-blank literals -/
def waKeep : Part → Bool
  | .lit s => !(trimSpace s == "")
  | .code _ => true
  | .other => false

def waSig (ps : List Part) : List Part := ps.filter waKeep

mutual
/-- grammar of an accepted `with` value, on the significant parts: (literal `name :=` block)+ ; expecting a literal -/
def waL : Bool → List Part → Option (List (String × Nat))
  | _, [] => some []
  | first, .lit l :: rest =>
    match waName first l with
    | none => none
    | some n => waC n rest
  | _, _ :: _ => none
/-- expecting the block of name `n` -/
def waC : String → List Part → Option (List (String × Nat))
  | n, .code k :: rest => (waL false rest).map ((n, k) :: ·)
  | _, _ => none
end

theorem waC_ne_nil {n : String} {l : List Part} {prs : List (String × Nat)} (h : waC n l = some prs) : prs ≠ [] := by
  cases l with
  | nil => simp [waC] at h
  | cons p rest =>
    cases p <;> simp [waC] at h
    obtain ⟨a, _, rfl⟩ := h
    simp

theorem waScan_dead : ∀ (ps : List Part) (ns : List String) (cs : List Nat), cs.length + 2 ≤ ns.length →
    waOk (waScan ps ns cs) = none
  | [], ns, cs, h => by
    have : (cs.length != ns.length) = true := by rw [bne_iff_ne]; omega
    simp [waScan, waOk, this]
  | .lit s :: ps, ns, cs, h => by
    rw [waScan]
    split
    · exact waScan_dead ps ns cs h
    · split
      · rfl
      · split
        · rfl
        · exact waScan_dead ps _ cs (by simp; omega)
  | .code k :: ps, ns, cs, h => by
    have : (ns.length != cs.length + 1) = true := by rw [bne_iff_ne]; omega
    simp [waScan, this, waOk]
  | .other :: ps, ns, cs, h => by rw [waScan]; exact waScan_dead ps ns cs h

theorem waSig_cons (p : Part) (ps : List Part) : waSig (p :: ps) = if waKeep p then p :: waSig ps else waSig ps := by
  simp only [waSig, List.filter_cons]

theorem waScan_LC : ∀ (ps : List Part) (ns : List String) (cs : List Nat), ns.length = cs.length →
    (waOk (waScan ps ns cs) =
      match waL (ns.length == 0) (waSig ps) with
      | none => none
      | some prs => if (ns.zip cs ++ prs).isEmpty then none else some (ns.zip cs ++ prs)) ∧
    (∀ n, waOk (waScan ps (ns ++ [n]) cs) =
      match waC n (waSig ps) with
      | none => none
      | some prs => some (ns.zip cs ++ prs))
  | [], ns, cs, h => by
    constructor
    · have : (cs.length != ns.length) = false := by rw [bne_eq_false_iff_eq]; omega
      simp only [waScan, waOk, this, waSig, List.filter_nil, waL, List.append_nil, Bool.or_false]
      cases ns <;> cases cs <;> simp_all
    · intro n
      have : (cs.length != (ns ++ [n]).length) = true := by rw [bne_iff_ne]; simp; omega
      simp only [waScan, waOk, this, waSig, List.filter_nil, waC, Bool.or_true, if_true]
  | .other :: ps, ns, cs, h => by
    have ih := waScan_LC ps ns cs h
    simp only [waScan, waSig_cons, waKeep, Bool.false_eq_true, if_false]
    exact ih
  | .code k :: ps, ns, cs, h => by
    constructor
    · have : (ns.length != cs.length + 1) = true := by rw [bne_iff_ne]; omega
      simp [waScan, this, waOk, waSig_cons, waKeep, waL]
    · intro n
      have : ((ns ++ [n]).length != cs.length + 1) = false := by rw [bne_eq_false_iff_eq]; simp; omega
      have ih := (waScan_LC ps (ns ++ [n]) (cs ++ [k]) (by simp; omega)).1
      simp only [waScan, this, Bool.false_eq_true, if_false, waSig_cons, waKeep, if_true, waC]
      rw [ih]
      have e0 : ((ns ++ [n]).length == 0) = false := by rw [beq_eq_false_iff_ne]; simp
      rw [e0, List.zip_append h]
      cases waL false (waSig ps) <;> simp
  | .lit s :: ps, ns, cs, h => by
    have ih := waScan_LC ps ns cs h
    simp only [waScan, waSig_cons, waKeep]
    by_cases hb : (trimSpace s == "") = true
    · simp only [hb, if_true, Bool.not_true, Bool.false_eq_true, if_false]
      exact ih
    · rw [Bool.not_eq_true] at hb
      simp only [hb, Bool.false_eq_true, if_false, Bool.not_false, if_true]
      constructor
      · rw [if_neg (by omega)]
        simp only [waL]
        cases hn : waName (ns.length == 0) s with
        | none => rfl
        | some n =>
          simp only []
          rw [ih.2 n]
          cases hc : waC n (waSig ps) with
          | none => rfl
          | some prs =>
            have := waC_ne_nil hc
            simp [this]
      · intro n
        rw [if_neg (by simp; omega)]
        simp only [waC]
        cases hn : waName ((ns ++ [n]).length == 0) s with
        | none => rfl
        | some n' =>
          simp only []
          exact waScan_dead ps _ cs (by simp; omega)

/-- **the first loop accepts exactly the grammar**: after dropping the parts the loop ignores (`waSig`), the value
    must be a non-empty sequence of (literal `name :=` / `; name :=`, `${…}` block) pairs -/
theorem waScan_accepts (ps : List Part) :
    waOk (waScan ps [] []) =
      match waL true (waSig ps) with
      | none => none
      | some prs => if prs.isEmpty then none else some prs := by
  have := (waScan_LC ps [] [] rfl).1
  simpa using this

/-- the assignments `(name, block index)` of an accepted `with` value; `none`: `WithAssign` reports a syntax error -/
def waAccept (ps : List Part) : Option (List (String × Nat)) :=
  match waL true (waSig ps) with
  | none => none
  | some prs => if prs.isEmpty then none else some prs

/-- declarative form of the grammar -/
inductive WaShape : Bool → List Part → List (String × Nat) → Prop
  | nil (first : Bool) : WaShape first [] []
  | cons {first : Bool} {l n : String} {k : Nat} {rest : List Part} {prs : List (String × Nat)} :
      waName first l = some n → WaShape false rest prs → WaShape first (.lit l :: .code k :: rest) ((n, k) :: prs)

theorem waL_iff : ∀ (sg : List Part) (first : Bool) (prs : List (String × Nat)), waL first sg = some prs ↔ WaShape first sg prs
  | [], first, prs => by
    rw [waL]
    constructor
    · intro h; cases h; exact .nil _
    · intro h; cases h; rfl
  | .code _ :: _, first, prs => by
    constructor
    · intro h; simp [waL] at h
    · intro h; cases h
  | .other :: _, first, prs => by
    constructor
    · intro h; simp [waL] at h
    · intro h; cases h
  | [.lit l], first, prs => by
    rw [waL]
    constructor
    · intro h; cases hn : waName first l <;> simp [hn, waC] at h
    · intro h; cases h
  | .lit l :: .lit _ :: _, first, prs => by
    rw [waL]
    constructor
    · intro h; cases hn : waName first l <;> simp [hn, waC] at h
    · intro h; cases h
  | .lit l :: .other :: _, first, prs => by
    rw [waL]
    constructor
    · intro h; cases hn : waName first l <;> simp [hn, waC] at h
    · intro h; cases h
  | .lit l :: .code k :: rest, first, prs => by
    rw [waL]
    constructor
    · intro h
      cases hn : waName first l with
      | none => simp [hn] at h
      | some n =>
        simp only [hn, waC, Option.map_eq_some_iff] at h
        obtain ⟨prs', h1, rfl⟩ := h
        exact .cons hn ((waL_iff rest false prs').1 h1)
    · intro h
      cases h with
      | cons hn hr =>
        simp only [hn, waC, (waL_iff rest false _).2 hr, Option.map_some]

theorem waAccept_iff (ps : List Part) (prs : List (String × Nat)) :
    waAccept ps = some prs ↔ prs ≠ [] ∧ WaShape true (waSig ps) prs := by
  unfold waAccept
  cases h : waL true (waSig ps) with
  | none =>
    simp only [reduceCtorEq, false_iff, not_and]
    intro _ hs
    rw [(waL_iff _ _ _).2 hs] at h
    cases h
  | some prs' =>
    have h' := (waL_iff _ _ _).1 h
    simp only
    cases prs' with
    | nil =>
      simp only [List.isEmpty_nil, if_true, reduceCtorEq, false_iff, not_and]
      intro hne hs
      have e := (waL_iff _ _ _).2 hs
      rw [h] at e
      cases e
      exact hne rfl
    | cons p rest =>
      simp only [List.isEmpty_cons, Bool.false_eq_true, if_false, Option.some.injEq]
      constructor
      · intro e; subst e; exact ⟨by simp, h'⟩
      · rintro ⟨_, hs⟩
        have e := (waL_iff _ _ _).2 hs
        rw [h] at e
        cases e
        rfl

/-- the assignments evaluated in order, every expression in the scope `sc` of the element (an assignment does NOT
    see the earlier assignments of the same attribute); the first failure ends the evaluation -/
def evalAll (cx : Ctx) (sc : List Val) : List (String × Nat) → Except Cls (List (String × Val)) × List String
  | [] => (.ok [], [])
  | (n, k) :: rest =>
    match evalExpr cx sc cx.exprs[k]! with
    | (.error c, l) => (.error c, l)
    | (.ok v, l) =>
      match evalAll cx sc rest with
      | (.error c, l') => (.error c, l ++ l')
      | (.ok bs, l') => (.ok ((n, v) :: bs), l ++ l')

/-- `m[name] = value` for each binding in order (a later binding of the same name replaces the earlier one) -/
def bindAll (kvs : List (String × Val)) (bs : List (String × Val)) : List (String × Val) :=
  bs.foldl (fun kvs b => kvs.filter (·.1 ≠ b.1) ++ [b]) kvs

theorem evalPairs_eq (cx : Ctx) (sc : List Val) : ∀ (prs : List (String × Nat)) (kvs : List (String × Val)) (lg : List String),
    evalPairs cx sc prs kvs lg =
      match evalAll cx sc prs with
      | (.error c, l) => (.error c, lg ++ l)
      | (.ok bs, l) => (.ok (bindAll kvs bs), lg ++ l)
  | [], kvs, lg => by simp [evalPairs, evalAll, bindAll]
  | (n, k) :: rest, kvs, lg => by
    rw [evalPairs, evalAll]
    rcases evalExpr cx sc cx.exprs[k]! with ⟨c | v, l⟩
    · rfl
    · simp only []
      rw [evalPairs_eq cx sc rest]
      rcases evalAll cx sc rest with ⟨c | bs, l'⟩ <;> simp [bindAll]

theorem find_filter_ne (kvs : List (String × Val)) (n m : String) (h : m ≠ n) :
    (kvs.filter (·.1 ≠ n)).find? (fun kv => kv.1 = m) = kvs.find? (fun kv => kv.1 = m) := by
  induction kvs with
  | nil => rfl
  | cons kv rest ih =>
    rw [List.filter_cons]
    by_cases hk : kv.1 = n
    · have hm : decide (kv.1 = m) = false := decide_eq_false (fun e => h (e.symm.trans hk))
      rw [if_neg (by simp [hk]), ih, List.find?_cons, hm]
    · rw [if_pos (by simp [hk]), List.find?_cons, List.find?_cons, ih]

theorem find_filter_self (kvs : List (String × Val)) (n : String) :
    (kvs.filter (·.1 ≠ n)).find? (fun kv => kv.1 = n) = none := by
  simp [List.find?_eq_none]

theorem find_single (b : String × Val) (m : String) :
    [b].find? (fun kv => kv.1 = m) = if b.1 = m then some b else none := by
  by_cases h : b.1 = m <;> simp [h]

/-- lookup in the frame built by `bindAll`: the LAST binding of the name wins; names not bound are looked up in
    the entries that were there before -/
theorem bindAll_find : ∀ (bs kvs : List (String × Val)) (m : String),
    (bindAll kvs bs).find? (fun kv => kv.1 = m) =
      match bs.reverse.find? (fun kv => kv.1 = m) with
      | some b => some b
      | none => kvs.find? (fun kv => kv.1 = m)
  | [], kvs, m => by simp [bindAll]
  | b :: bs, kvs, m => by
    have ih := bindAll_find bs (kvs.filter (·.1 ≠ b.1) ++ [b]) m
    show (bindAll (kvs.filter (·.1 ≠ b.1) ++ [b]) bs).find? _ = _
    rw [ih, List.reverse_cons, List.find?_append, List.find?_append, find_single]
    cases hbs : bs.reverse.find? (fun kv => kv.1 = m) with
    | some x => rfl
    | none =>
      simp only [Option.none_or]
      by_cases hm : b.1 = m
      · subst hm
        rw [find_filter_self, if_pos rfl]; rfl
      · have hm' : m ≠ b.1 := fun e => hm e.symm
        rw [find_filter_ne kvs b.1 m hm', if_neg hm, Option.or_none]

/-- value and events of one assignment `(name, block index)`, evaluated in `sc` -/
def pairVal (cx : Ctx) (sc : List Val) (p : String × Nat) : Val :=
  match (evalExpr cx sc cx.exprs[p.2]!).1 with | .ok v => v | .error _ => .nil
def pairLog (cx : Ctx) (sc : List Val) (p : String × Nat) : List String := (evalExpr cx sc cx.exprs[p.2]!).2

/-- all assignments succeed: names and values in order, logs concatenated -/
theorem evalAll_ok (cx : Ctx) (sc : List Val) : ∀ (prs : List (String × Nat)),
    (∀ p ∈ prs, IsOk (evalExpr cx sc cx.exprs[p.2]!).1) →
    evalAll cx sc prs = (.ok (prs.map fun p => (p.1, pairVal cx sc p)), prs.flatMap (pairLog cx sc))
  | [], _ => rfl
  | (n, k) :: rest, h => by
    have h1 := h (n, k) (List.mem_cons_self ..)
    have ih := evalAll_ok cx sc rest (fun q hq => h q (List.mem_cons_of_mem _ hq))
    rw [evalAll, ih]
    simp only [pairVal, pairLog, List.map_cons, List.flatMap_cons] at h1 ⊢
    rcases he : evalExpr cx sc cx.exprs[k]! with ⟨_ | v, l⟩
    · rw [he] at h1; exact h1.elim
    · rfl

/-- the first failing assignment ends the evaluation -/
theorem evalAll_err (cx : Ctx) (sc : List Val) : ∀ (pre : List (String × Nat)) (p : String × Nat) (post : List (String × Nat))
    (c : Cls) (l : List String), (∀ q ∈ pre, IsOk (evalExpr cx sc cx.exprs[q.2]!).1) →
    evalExpr cx sc cx.exprs[p.2]! = (.error c, l) →
    evalAll cx sc (pre ++ p :: post) = (.error c, pre.flatMap (pairLog cx sc) ++ l)
  | [], (n, k), post, c, l, _, hp => by simp only [List.nil_append, evalAll]; rw [hp]; rfl
  | (n, k) :: pre, p, post, c, l, h, hp => by
    have h1 := h (n, k) (List.mem_cons_self ..)
    have ih := evalAll_err cx sc pre p post c l (fun q hq => h q (List.mem_cons_of_mem _ hq)) hp
    rw [List.cons_append, evalAll, ih]
    simp only [pairLog, List.flatMap_cons] at h1 ⊢
    rcases he : evalExpr cx sc cx.exprs[k]! with ⟨_ | v, l'⟩
    · rw [he] at h1; exact h1.elim
    · simp

/-- a successful evaluation: every assignment succeeded -/
theorem evalAll_ok_inv (cx : Ctx) (sc : List Val) : ∀ (prs : List (String × Nat)) (bs : List (String × Val)) (lg : List String),
    evalAll cx sc prs = (.ok bs, lg) → ∀ p ∈ prs, IsOk (evalExpr cx sc cx.exprs[p.2]!).1
  | [], _, _, _ => by intro p hp; cases hp
  | (n, k) :: rest, bs, lg, h => by
    rw [evalAll] at h
    rcases he : evalExpr cx sc cx.exprs[k]! with ⟨_ | v, l⟩
    · rw [he] at h; cases h
    · rw [he] at h
      simp only at h
      rcases hr : evalAll cx sc rest with ⟨_ | bs', l'⟩
      · rw [hr] at h; cases h
      · intro p hp
        rcases List.mem_cons.1 hp with rfl | hp
        · simp only [he]; trivial
        · exact evalAll_ok_inv cx sc rest bs' l' hr p hp

/-- **closed form of `withAssign`** -/
theorem withAssign_eq (cx : Ctx) (a : CAttr) (sc : List Val) :
    withAssign cx a sc =
      match a.value with
      | none => (.error .attrValueExpected, [])
      | some _ =>
        match waAccept a.parts with
        | none => (.error .withSyntax, [])
        | some prs =>
          match evalAll cx sc prs with
          | (.error c, lg) => (.error c, lg)
          | (.ok bs, lg) => (.ok (Val.map "map[string]interface {}" (bindAll [] bs) :: sc), lg) := by
  rw [withAssign_loops]
  cases a.value with
  | none => rfl
  | some v =>
    simp only
    have hacc := waScan_accepts a.parts
    have hfin : ∀ r, waFinish cx sc r =
        match waOk r with
        | none => (.error .withSyntax, [])
        | some prs =>
          match evalPairs cx sc prs [] [] with
          | (.error c, lg) => (.error c, lg)
          | (.ok kvs, lg) => (.ok (Val.map "map[string]interface {}" kvs :: sc), lg) := by
      intro r
      cases r with
      | none => rfl
      | some p =>
        obtain ⟨ns, cs⟩ := p
        simp only [waFinish, waOk]
        by_cases h1 : ns.isEmpty = true
        · simp [h1]
        · by_cases h2 : (cs.length != ns.length) = true
          · simp [h1, h2]
          · simp [h1, h2]
    rw [hfin, hacc]
    unfold waAccept
    cases waL true (waSig a.parts) with
    | none => rfl
    | some prs =>
      simp only
      by_cases hp : prs.isEmpty = true
      · simp only [hp, if_true]
      · rw [Bool.not_eq_true] at hp
        simp only [hp, Bool.false_eq_true, if_false, evalPairs_eq, List.nil_append]
        rcases evalAll cx sc prs with ⟨c | bs, lg⟩ <;> rfl

/-! ## 3. range -/

theorem isSpaceC_eq : RN.isSpaceC = HS.isSpace := rfl

theorem trimSpace_eq_AT (s : String) : trimSpace s = String.ofList (AT.trimSpace s.toList) := by
  simp only [trimSpace, AT.trimSpace, AT.trimRight, AT.trimLeft, isSpaceC_eq]

theorem splitFirst_eq (c : Char) : ∀ cs : List Char,
    AT.splitFirst c cs =
      if (cs.takeWhile (· ≠ c)).length < cs.length then
        some (cs.take (cs.takeWhile (· ≠ c)).length, cs.drop ((cs.takeWhile (· ≠ c)).length + 1))
      else none
  | [] => rfl
  | x :: xs => by
    rw [AT.splitFirst]
    by_cases h : x = c
    · simp [h]
    · rw [if_neg h, splitFirst_eq c xs]
      simp only [List.takeWhile_cons, h, ne_eq, not_false_eq_true, decide_true, if_true, List.length_cons,
        Nat.add_lt_add_iff_right, List.take_succ_cons, List.drop_succ_cons]
      by_cases hl : (List.takeWhile (fun x => decide ¬x = c) xs).length < xs.length
      · simp only [hl, if_true]
      · simp only [hl, if_false]

/-- the engine's `extractRange` (on `String`) is the `List Char` function that Props/C04hdr.lean is about -/
theorem extractRange_eq_AT (s : String) :
    extractRange s =
      (String.ofList (AT.extractRange s.toList).1, String.ofList (AT.extractRange s.toList).2.1,
       String.ofList (AT.extractRange s.toList).2.2) := by
  unfold extractRange AT.extractRange
  simp only [indexOfC, sTake, sDrop, trimSpace_eq_AT, String.toList_ofList, splitFirst_eq]
  generalize AT.trimSpace s.toList = t
  by_cases h1 : (t.takeWhile (· ≠ ':')).length < t.length
  · simp only [h1, if_true, AT.splitNames, splitFirst_eq]
    generalize t.take (t.takeWhile (· ≠ ':')).length = hd
    by_cases h2 : (hd.takeWhile (· ≠ ',')).length < hd.length
    · simp only [h2, if_true]
    · simp only [h2, if_false]
  · simp only [h1, if_false]


/-- type string of the frames the renderer builds (`map[string]any`) -/
def frameTy : String := "map[string]interface {}"

/-- `processRange`: the attribute value without one surrounding pair of quotes -/
def rangeValue (av : String) : String := stripOwnQuotes av

/-- the header `(indexName, itemName, objName)` of a range attribute value -/
def rangeHeader (av : String) : String × String × String := extractRange (rangeValue av)

/-- the (index / key, item) pairs of a collection, in the order of the loop; `none`: not a collection.
    Slices, arrays and strings are enumerated in index order with the 1-based `int` index; a string yields its BYTES
    as `uint8`; a map yields its entries in the order of the model's entry list (Go: unspecified order). -/
def rangePairs : Val → Option (List (Val × Val))
  | .slice _ xs _ | .array _ xs => some (xs.mapIdx fun i x => (Val.int .int (i + 1), x))
  | .str s => some (s.toUTF8.toList.mapIdx fun i b => (Val.int .int (i + 1), Val.int .uint8 b.toNat))
  | .map _ kvs => some (kvs.map fun kv => (Val.str kv.1, kv.2))
  | _ => none

/-- the frame of one item: `map[string]any{indexName: i, itemName: x}` (the item wins when both names are equal,
    e.g. both empty for a header-less `range`) -/
def itemFrame (iv xv : String) (i x : Val) : Val :=
  Val.map frameTy (if iv == xv then [(xv, x)] else [(iv, i), (xv, x)])

/-- lookup in a map value -/
theorem getValue_map (n ty : String) (kvs : List (String × Val)) :
    EV.getValue n (.map ty kvs) =
      match kvs.find? (fun kv => kv.1 = n) with
      | some kv => .found kv.2
      | none => .absent := rfl

/-- lookup under an item frame: the item name, then the index name, then the enclosing scope -/
theorem scopeGet_itemFrame (iv xv : String) (i x : Val) (sc : List Val) (n : String) :
    EV.scopeGet (itemFrame iv xv i x :: sc) n =
      if n = xv then .found x else if n = iv then .found i else EV.scopeGet sc n := by
  rw [EV.scopeGet, itemFrame, getValue_map]
  by_cases hix : iv = xv
  · subst hix
    by_cases hn : n = iv
    · subst hn; simp
    · have : ¬ iv = n := fun e => hn e.symm
      simp [hn, this]
  · have hb : (iv == xv) = false := by rw [beq_eq_false_iff_ne]; exact hix
    simp only [hb, Bool.false_eq_true, if_false]
    by_cases hn : n = xv
    · subst hn
      have : ¬ iv = n := hix
      simp [this]
    · have h1 : ¬ xv = n := fun e => hn e.symm
      by_cases hi : n = iv
      · subst hi; simp [hn]
      · have h2 : ¬ iv = n := fun e => hi e.symm
        simp [h1, h2, hn, hi]

/-! ## 4. evaluation of a variable -/

/-- `exp.Evaluate` of a plain name: the scope lookup (`EV.scopeGet`, innermost frame first, built-ins last);
    no events; a missing name is the `ErrNoSuchValue` class, a failed lookup the plain error class -/
theorem evalExpr_name (cx : Ctx) (sc : List Val) (n : String) :
    evalExpr cx sc (.name n) =
      match EV.scopeGet sc n with
      | .found v => (.ok v, [])
      | .absent => (.error (.eval false true), [])
      | .failed => (.error (.eval false false), []) := by
  unfold evalExpr
  rw [EV.eval]
  cases EV.scopeGet sc n <;> rfl

/-! ## 5. the range loop of the specification -/

section RangeLoop
open RN RN.Spec
variable {Sc : Type}

/-- bodies that can fail only for lack of fuel, and otherwise succeed with an output and a log that depend on the
    item only and leave the conditions unchanged: either all succeed, or there is a first one that ran out of fuel -/
theorem threadBodies_ok_or_fuel {α : Type} (F : NC → Sc → Q) (g : α → Sc) (o l : α → List String) :
    ∀ (ys : List α) (nc : NC),
      (∀ nc' y, y ∈ ys → (F nc' (g y)).st ≠ .fuel → F nc' (g y) = { st := .ok, out := o y, log := l y, nc := nc' }) →
      threadBodies F nc (ys.map g) = ys.map (fun y => ({ st := .ok, out := o y, log := l y, nc := nc } : Q)) ∨
      ∃ pre r post, threadBodies F nc (ys.map g) = pre ++ r :: post ∧ (∀ p ∈ pre, p.st = .ok) ∧ r.st = .fuel
  | [], nc, _ => .inl rfl
  | y :: rest, nc, h => by
    rw [List.map_cons]
    by_cases hf : (F nc (g y)).st = .fuel
    · exact .inr ⟨[], F nc (g y), threadBodies F (F nc (g y)).nc (rest.map g), rfl, by simp, hf⟩
    · have e := h nc y (List.mem_cons_self ..) hf
      have hnc : (F nc (g y)).nc = nc := by rw [e]
      rcases threadBodies_ok_or_fuel F g o l rest nc (fun nc' y' hy' => h nc' y' (List.mem_cons_of_mem _ hy')) with ih | ⟨pre, r, post, h1, h2, h3⟩
      · left
        rw [threadBodies, hnc, ih, e]
        rfl
      · right
        refine ⟨F nc (g y) :: pre, r, post, ?_, ?_, h3⟩
        · rw [threadBodies, hnc, h1]; rfl
        · intro p hp
          rcases List.mem_cons.1 hp with rfl | hp
          · rw [e]
          · exact h2 p hp

theorem join_intersperse (sep : String) : ∀ (x : String) (xs : List String),
    String.join ((x :: xs).intersperse sep) = x ++ String.join (xs.map (sep ++ ·))
  | x, [] => by simp [List.intersperse, String.join]
  | x, y :: ys => by
    rw [List.intersperse_cons_cons, String.join_cons, String.join_cons, join_intersperse sep y ys]
    simp [String.join_cons, String.append_assoc]

theorem joinItems_false (nb : Option String) : ∀ rs : List Q,
    joinItems nb false rs = String.join (rs.map fun r => nb.getD "" ++ String.join r.out)
  | [] => by simp [joinItems, String.join]
  | r :: rs => by
    rw [joinItems, joinItems_false nb rs]
    simp [String.join_cons, String.append_assoc]

/-- the text of the loop: the item texts with the separator BETWEEN them -/
theorem joinItems_true (nb : Option String) (rs : List Q) :
    joinItems nb true rs = String.join ((rs.map fun r => String.join r.out).intersperse (nb.getD "")) := by
  cases rs with
  | nil => simp [joinItems, String.join]
  | cons r rs =>
    rw [joinItems, joinItems_false, List.map_cons, join_intersperse]
    simp [List.map_map, Function.comp_def]

theorem lastNc_const (nc : NC) : ∀ rs : List Q, (∀ r ∈ rs, r.nc = nc) → lastNc nc rs = nc
  | [], _ => rfl
  | r :: rs, h => by
    rw [lastNc, h r (List.mem_cons_self ..)]
    exact lastNc_const nc rs (fun q hq => h q (List.mem_cons_of_mem _ hq))

end RangeLoop

end EN
