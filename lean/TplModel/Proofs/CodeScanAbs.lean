import TplModel.Proofs.C10Proofs
import TplModel.Proofs.ScanPos
/-! # Position-independence of the directive-value scanner `CS.scan`

`CS.scan p cs` threads a source position through the scan, but no decision depends on it.  This file makes that
precise: `oscan cs` is the same machine run on OFFSETS (number of runes consumed) instead of positions, and

  `scan_place : CS.scan p cs = (oscan cs).map (OTok.place p cs)`

where `place` puts a token with offsets `so`, `eo` at the positions `HS.adv p (cs.take so)`, `HS.adv p (cs.take eo)`
(`p` advanced over a prefix of `cs`), and maps the error marker to `errMark` (whose positions are the constant `0:0`).
Consequences: kinds and values do not depend on the start position (`scan_abs`), neither does success (`succ_pos_indep`,
for ALL positions, including the impossible ones with line 0).  `oscan_wf`: the offsets are real (`so ≤ eo ≤ |cs|`, the
token's text is the slice `[so, eo)` of `cs`), hence `scan_stop_eq`: every token ends where its text ends.  Core-only. -/
namespace CS
open HS (Pos adv)

/-- the position-free image of a code-scan token: kind and value -/
structure ATok where
  kind : Kind
  value : List Char
deriving DecidableEq, Repr

def forget (t : CTok) : ATok := ⟨t.kind, t.value⟩

/-- a token with OFFSETS (numbers of runes of the scanned value in front of its start / its end) instead of positions;
    `err` is the error marker -/
inductive OTok
  | tok (kind : Kind) (so eo : Nat) (value : List Char)
  | err
deriving DecidableEq, Repr

/-- the position reached from `p` after the first `n` runes of `cs` -/
def posAt (p : Pos) (cs : List Char) (n : Nat) : Pos := adv p (cs.take n)

/-- a token with offsets, placed in a value `cs` that starts at `p` -/
def OTok.place (p : Pos) (cs : List Char) : OTok → CTok
  | .tok k so eo v => ⟨k, posAt p cs so, posAt p cs eo, v⟩
  | .err => errMark

def OTok.forget : OTok → ATok
  | .tok k _ _ v => ⟨k, v⟩
  | .err => ⟨.begEnd, "ERR".toList⟩

theorem forget_place (p : Pos) (cs : List Char) (t : OTok) : forget (t.place p cs) = t.forget := by
  cases t <;> rfl

/-! ## the machine on offsets -/

structure OS where
  pos : Nat
  firstCh : Char
  brace : Nat
  toks : List OTok      -- reversed

def OS.emit (s : OS) (t : OTok) : OS := { s with toks := t :: s.toks }
def OS.fail (s : OS) : List OTok := s.toks.reverse ++ [.err]

def oscanString (quote : Char) : Nat → Nat → List Char → List Char → Option (List Char × Nat × List Char)
  | 0, _, _, _ => none
  | _+1, _, [], _ => none
  | f+1, n, c :: rest, acc =>
    if quote = '`' then
      if c = '`' then some ((c :: acc).reverse, n + 1, rest) else oscanString quote f (n + 1) rest (c :: acc)
    else if c = '\\' then
      match rest with
      | [] => none
      | d :: rest' => oscanString quote f (n + 2) rest' (d :: c :: acc)
    else if c = quote then some ((c :: acc).reverse, n + 1, rest)
    else oscanString quote f (n + 1) rest (c :: acc)

mutual
def oscanLiteral : Nat → OS → Nat → List Char → List Char → List OTok
  | 0, s, _, _, _ => s.toks.reverse
  | f+1, s, start, buf, cs =>
    match cs with
    | [] => s.fail
    | c :: rest =>
      if (c = '"' || c = '\'') && c = s.firstCh then
        if buf.isEmpty then
          oscanQuot f ({ s with pos := s.pos + 1 }.emit (.tok .begEnd start (s.pos + 1) [c])) true rest
        else
          oscanQuot f ({ s with pos := s.pos }.emit (.tok .literal start s.pos buf.reverse)) true cs
      else if c = '$' then
        match rest with
        | '{' :: rest' =>
          let tok : OTok := .tok .codeStart s.pos (s.pos + 2) "${".toList
          let s' := if buf.isEmpty then { s with pos := s.pos + 2 }.emit tok
                    else ({ s with pos := s.pos + 2 }.emit (.tok .literal start s.pos buf.reverse)).emit tok
          oscanCode f s' (s.pos + 2) [] rest'
        | _ => oscanLiteral f { s with pos := s.pos + 1 } start (c :: buf) rest
      else oscanLiteral f { s with pos := s.pos + 1 } start (c :: buf) rest
def oscanQuot : Nat → OS → Bool → List Char → List OTok
  | 0, s, _, _ => s.toks.reverse
  | f+1, s, closing, cs =>
    match cs with
    | [] => if closing then s.toks.reverse else s.fail
    | c :: rest =>
      if c = '"' || c = '\'' then
        let s' := { s with pos := s.pos + 1, firstCh := c }.emit (.tok .begEnd s.pos (s.pos + 1) [c])
        if closing then s'.toks.reverse
        else oscanLiteral f s' (s.pos + 1) [] rest
      else s.fail
def oscanCode : Nat → OS → Nat → List Char → List Char → List OTok
  | 0, s, _, _, _ => s.toks.reverse
  | f+1, s, start, buf, cs =>
    match cs with
    | [] => s.fail
    | c :: rest =>
      if c = '{' then oscanCode f { s with pos := s.pos + 1, brace := s.brace + 1 } start (c :: buf) rest
      else if c = '}' then
        if s.brace = 0 then
          let s' := ({ s with pos := s.pos + 1 }.emit (.tok .codeValue start s.pos buf.reverse)).emit
            (.tok .codeEnd s.pos (s.pos + 1) ['}'])
          oscanLiteral f s' (s.pos + 1) [] rest
        else oscanCode f { s with pos := s.pos + 1, brace := s.brace - 1 } start (c :: buf) rest
      else if c = '"' || c = '\'' || c = '`' then
        match oscanString c (rest.length + 1) (s.pos + 1) rest [] with
        | some (str, n2, rest') => oscanCode f { s with pos := n2 } start (str.reverse ++ (c :: buf)) rest'
        | none => s.fail
      else oscanCode f { s with pos := s.pos + 1 } start (c :: buf) rest
end

/-- the scan of a value on offsets: no positions anywhere -/
def oscan (v : List Char) : List OTok :=
  oscanQuot (3 * v.length + 3) ⟨0, ' ', 0, []⟩ false v

/-! ## positions along the value -/

theorem drop_succ_of {full : List Char} {n : Nat} {c : Char} {rest : List Char} (h : full.drop n = c :: rest) :
    full.drop (n + 1) = rest := by
  rw [← List.drop_drop, h]; rfl

theorem posAt_succ (p : Pos) {full : List Char} {n : Nat} {c : Char} {rest : List Char} (h : full.drop n = c :: rest) :
    posAt p full (n + 1) = (posAt p full n).advance c := by
  have hlt : n < full.length := by
    rcases Nat.lt_or_ge n full.length with h1 | h1
    · exact h1
    · rw [List.drop_eq_nil_of_le h1] at h; cases h
  have hc : full[n] = c := by
    have := List.drop_eq_getElem_cons hlt
    rw [h] at this
    exact (List.cons.inj this).1.symm
  unfold posAt
  rw [List.take_succ_eq_append_getElem hlt, HS.adv_append, hc]
  rfl

theorem posAt_zero (p : Pos) (full : List Char) : posAt p full 0 = p := rfl

theorem oscanString_drop (q : Char) (full : List Char) : ∀ (f n : Nat) (cs acc : List Char) (str : List Char) (n' : Nat)
    (rest : List Char), full.drop n = cs → oscanString q f n cs acc = some (str, n', rest) → full.drop n' = rest := by
  intro f
  induction f with
  | zero => intro n cs acc str n' rest _ h; simp [oscanString] at h
  | succ f ih =>
    intro n cs acc str n' rest hd h
    cases cs with
    | nil => simp [oscanString] at h
    | cons c cs =>
      have hd1 := drop_succ_of hd
      simp only [oscanString] at h
      split at h
      · split at h
        · simp only [Option.some.injEq, Prod.mk.injEq] at h
          rw [← h.2.1, ← h.2.2]; exact hd1
        · exact ih _ _ _ _ _ _ hd1 h
      · split at h
        · split at h
          · cases h
          · rename_i d rest'
            exact ih _ _ _ _ _ _ (drop_succ_of hd1) h
        · split at h
          · simp only [Option.some.injEq, Prod.mk.injEq] at h
            rw [← h.2.1, ← h.2.2]; exact hd1
          · exact ih _ _ _ _ _ _ hd1 h

theorem scanString_real (q : Char) (p : Pos) (full : List Char) : ∀ (f n : Nat) (cs acc : List Char),
    full.drop n = cs →
    scanString q f (posAt p full n) cs acc =
      (oscanString q f n cs acc).map fun r => (r.1, posAt p full r.2.1, r.2.2) := by
  intro f
  induction f with
  | zero => intros; simp [scanString, oscanString]
  | succ f ih =>
    intro n cs acc hd
    cases cs with
    | nil => simp [scanString, oscanString]
    | cons c cs =>
      have hd1 := drop_succ_of hd
      have hp1 := posAt_succ p hd
      simp only [scanString, oscanString]
      split
      · split
        · simp [hp1]
        · rw [← hp1]; exact ih _ _ _ hd1
      · split
        · cases cs with
          | nil => rfl
          | cons d rest' =>
            simp only
            rw [← hp1, ← posAt_succ p hd1]
            exact ih _ _ _ (drop_succ_of hd1)
        · split
          · simp [hp1]
          · rw [← hp1]; exact ih _ _ _ hd1

/-- the concrete state `s` is the offset state `o`, placed -/
structure Sim (p : Pos) (full : List Char) (s : S) (o : OS) : Prop where
  pos : s.pos = posAt p full o.pos
  fc : s.firstCh = o.firstCh
  br : s.brace = o.brace
  toks : s.toks = o.toks.map (OTok.place p full)

theorem Sim.fail {p : Pos} {full : List Char} {s : S} {o : OS} (h : Sim p full s o) :
    s.fail = o.fail.map (OTok.place p full) := by
  simp [S.fail, OS.fail, OTok.place, h.toks]

theorem Sim.rev {p : Pos} {full : List Char} {s : S} {o : OS} (h : Sim p full s o) :
    s.toks.reverse = o.toks.reverse.map (OTok.place p full) := by
  simp [h.toks]

local macro "sim_ok" : tactic => `(tactic| (constructor <;> simp [S.emit, OS.emit, OTok.place, *]))

set_option linter.unusedSimpArgs false in
/-- **the simulation**: the scanner on positions is the scanner on offsets, placed -/
theorem sim (p : Pos) (full : List Char) (f : Nat) :
    (∀ (s : S) (o : OS) (ostart : Nat) (buf cs : List Char), Sim p full s o → full.drop o.pos = cs →
      scanLiteral f s (posAt p full ostart) buf cs = (oscanLiteral f o ostart buf cs).map (OTok.place p full)) ∧
    (∀ (s : S) (o : OS) (closing : Bool) (cs : List Char), Sim p full s o → full.drop o.pos = cs →
      scanQuot f s closing cs = (oscanQuot f o closing cs).map (OTok.place p full)) ∧
    (∀ (s : S) (o : OS) (ostart : Nat) (buf cs : List Char), Sim p full s o → full.drop o.pos = cs →
      scanCode f s (posAt p full ostart) buf cs = (oscanCode f o ostart buf cs).map (OTok.place p full)) := by
  induction f with
  | zero =>
    refine ⟨?_, ?_, ?_⟩ <;> intro s o <;> intros <;> rename_i hs _ <;>
      simp only [scanLiteral, scanQuot, scanCode, oscanLiteral, oscanQuot, oscanCode, hs.rev]
  | succ f ih =>
    obtain ⟨ihL, ihQ, ihC⟩ := ih
    refine ⟨?_, ?_, ?_⟩
    · intro s o ostart buf cs hs hd
      cases cs with
      | nil => simp only [scanLiteral, oscanLiteral, hs.fail]
      | cons c rest =>
        have hd1 := drop_succ_of hd
        obtain ⟨hp, hfc, hbr, htk⟩ := hs
        simp only [scanLiteral, oscanLiteral]
        rw [hfc, hp, ← posAt_succ p hd]
        by_cases h1 : ((decide (c = '"') || decide (c = '\'')) && decide (c = o.firstCh)) = true
        · simp only [h1, Bool.false_eq_true, ↓reduceIte]
          by_cases h2 : buf.isEmpty = true
          · simp only [h2, Bool.false_eq_true, ↓reduceIte]
            exact ihQ _ _ true rest (by sim_ok) hd1
          · simp only [h2, Bool.false_eq_true, ↓reduceIte]
            exact ihQ _ _ true (c :: rest) (by sim_ok) hd
        · simp only [h1, Bool.false_eq_true, ↓reduceIte]
          by_cases h3 : c = '$'
          · simp only [h3, Bool.false_eq_true, ↓reduceIte]
            revert hd1
            split
            · rename_i rest'
              intro hd1
              have hd2 := drop_succ_of hd1
              rw [← posAt_succ p hd1]
              by_cases h2 : buf.isEmpty = true
              · simp only [h2, Bool.false_eq_true, ↓reduceIte]
                exact ihC _ _ (o.pos + 2) [] rest' (by sim_ok) hd2
              · simp only [h2, Bool.false_eq_true, ↓reduceIte]
                exact ihC _ _ (o.pos + 2) [] rest' (by sim_ok) hd2
            · intro hd1
              rename_i hno
              split
              · exact absurd rfl (hno _)
              · exact ihL _ _ ostart _ rest (by sim_ok) hd1
          · simp only [h3, Bool.false_eq_true, ↓reduceIte]
            exact ihL _ _ ostart _ rest (by sim_ok) hd1
    · intro s o closing cs hs hd
      cases cs with
      | nil => cases closing <;> simp [scanQuot, oscanQuot, hs.fail, hs.rev]
      | cons c rest =>
        have hd1 := drop_succ_of hd
        have hs' := hs
        obtain ⟨hp, hfc, hbr, htk⟩ := hs
        simp only [scanQuot, oscanQuot]
        rw [hp, ← posAt_succ p hd]
        by_cases h1 : (decide (c = '"') || decide (c = '\'')) = true
        · simp only [h1, Bool.false_eq_true, ↓reduceIte]
          cases closing
          · simp only [Bool.false_eq_true, ↓reduceIte]
            exact ihL _ _ (o.pos + 1) [] rest (by sim_ok) hd1
          · simp [S.emit, OS.emit, OTok.place, htk]
        · simp only [h1, Bool.false_eq_true, ↓reduceIte]
          exact hs'.fail
    · intro s o ostart buf cs hs hd
      cases cs with
      | nil => simp only [scanCode, oscanCode, hs.fail]
      | cons c rest =>
        have hd1 := drop_succ_of hd
        have hs' := hs
        obtain ⟨hp, hfc, hbr, htk⟩ := hs
        simp only [scanCode, oscanCode]
        rw [hbr, hp, ← posAt_succ p hd]
        by_cases h1 : c = '{'
        · simp only [h1, Bool.false_eq_true, ↓reduceIte]
          exact ihC _ _ ostart _ rest (by sim_ok) hd1
        · simp only [h1, Bool.false_eq_true, ↓reduceIte]
          by_cases h2 : c = '}'
          · simp only [h2, Bool.false_eq_true, ↓reduceIte]
            by_cases h3 : o.brace = 0
            · simp only [h3, Bool.false_eq_true, ↓reduceIte]
              exact ihL _ _ (o.pos + 1) [] rest (by sim_ok) hd1
            · simp only [h3, Bool.false_eq_true, ↓reduceIte]
              exact ihC _ _ ostart _ rest (by sim_ok) hd1
          · simp only [h2, Bool.false_eq_true, ↓reduceIte]
            by_cases h4 : (decide (c = '"') || decide (c = '\'') || decide (c = '`')) = true
            · simp only [h4, Bool.false_eq_true, ↓reduceIte]
              rw [scanString_real c p full _ _ _ _ hd1]
              cases hss : oscanString c (rest.length + 1) (o.pos + 1) rest [] with
              | none => simp only [Option.map_none]; exact hs'.fail
              | some r =>
                obtain ⟨str, n2, rest'⟩ := r
                simp only [Option.map_some]
                exact ihC _ _ ostart _ rest' (by sim_ok) (oscanString_drop c full _ _ _ _ _ _ _ hd1 hss)
            · simp only [h4, Bool.false_eq_true, ↓reduceIte]
              exact ihC _ _ ostart _ rest (by sim_ok) hd1

/-! ## the scan is the offset scan, placed -/

/-- **scan_place.** Every token of `CS.scan p cs` is the corresponding token of the position-free `oscan cs`, its
    start and end being `p` advanced over the first `so` / `eo` runes of `cs`; the error marker is the constant
    `errMark`. -/
theorem scan_place (p : Pos) (cs : List Char) : scan p cs = (oscan cs).map (OTok.place p cs) :=
  (sim p cs _).2.1 ⟨p, ' ', 0, []⟩ ⟨0, ' ', 0, []⟩ false cs ⟨rfl, rfl, rfl, rfl⟩ rfl

theorem scan_forget (p : Pos) (cs : List Char) : (scan p cs).map forget = (oscan cs).map OTok.forget := by
  rw [scan_place, List.map_map]
  exact List.map_congr_left fun t _ => forget_place p cs t

/-- **scan_abs.** Kinds and values of the tokens do not depend on the start position. -/
theorem scan_abs (p q : Pos) (cs : List Char) : (scan p cs).map forget = (scan q cs).map forget := by
  rw [scan_forget, scan_forget]

theorem scan_length (p q : Pos) (cs : List Char) : (scan p cs).length = (scan q cs).length := by
  have := congrArg List.length (scan_abs p q cs)
  simpa using this

/-! ## success does not depend on the start position -/

theorem advance_line_le (p : Pos) (c : Char) : p.line ≤ (p.advance c).line := by
  unfold Pos.advance
  split
  · exact Nat.le_succ _
  · split <;> exact Nat.le_refl _

theorem adv_line_le (l : List Char) : ∀ (p : Pos), p.line ≤ (adv p l).line := by
  induction l with
  | nil => intro p; exact Nat.le_refl _
  | cons c l ih => intro p; exact Nat.le_trans (advance_line_le p c) (ih _)

/-- a successful scan ends with a one-rune token (the closing quote) -/
theorem succ_last (p : Pos) (v : List Char) (h : Succ (scan p v)) :
    ∃ t, (scan p v).getLast? = some t ∧ t.value.length = 1 := by
  obtain ⟨q, p1, new, rest, _, hs, ht, _⟩ := scan_shape p v h
  have hne : new ≠ [] := by cases ht <;> simp
  rw [hs, List.getLast?_cons_of_ne_nil hne]
  rcases ht.last with ⟨_, a, b, _, h2⟩ | ⟨_, q', a, b, _, _, h2⟩
  · exact ⟨_, h2, rfl⟩
  · exact ⟨_, h2, rfl⟩

/-- **failure is the marker of the offset scan**: `CS.scan p cs` succeeded iff the position-free scan does not end with
    the error marker — for every start position `p` -/
theorem succ_iff_oscan (p : Pos) (cs : List Char) : Succ (scan p cs) ↔ (oscan cs).getLast? ≠ some .err := by
  constructor
  · intro h he
    apply h
    rw [scan_place, List.getLast?_map, he]; rfl
  · intro h hf
    -- the last offset token is a proper token, but placed at `p` it is the marker: its value is `ERR`
    have hl : (scan p cs).getLast? = some errMark := hf
    rw [scan_place, List.getLast?_map] at hl
    cases ho : (oscan cs).getLast? with
    | none => rw [ho] at hl; cases hl
    | some t =>
      rw [ho] at hl h
      cases t with
      | err => exact h rfl
      | tok k so eo v =>
        simp only [Option.map_some, OTok.place, Option.some.injEq] at hl
        have hv : v = "ERR".toList := congrArg CTok.value hl
        -- at `1:1` the same token is not the marker, so that scan succeeds and ends with a one-rune token
        have h1 : (scan ⟨1, 1⟩ cs).getLast? = some ⟨k, posAt ⟨1, 1⟩ cs so, posAt ⟨1, 1⟩ cs eo, v⟩ := by
          rw [scan_place, List.getLast?_map, ho]; rfl
        have hs1 : Succ (scan ⟨1, 1⟩ cs) := by
          unfold Succ
          rw [h1]
          intro e
          have : (posAt ⟨1, 1⟩ cs so).line = 0 := by
            have := congrArg (fun t : CTok => t.start.line) (Option.some.inj e)
            exact this
          have h2 := adv_line_le (cs.take so) ⟨1, 1⟩
          unfold posAt at this
          rw [this] at h2
          exact absurd h2 (by decide)
        obtain ⟨t, ht, hlen⟩ := succ_last _ _ hs1
        rw [h1] at ht
        cases ht
        rw [hv] at hlen
        have hlen' : ("ERR".toList).length = 1 := hlen
        exact absurd hlen' (by decide)

/-- **succ_pos_indep.** Whether the scan of a value succeeds does not depend on the start position — for ALL positions,
    including the impossible ones with line 0 (the marker's own position). -/
theorem succ_pos_indep (p q : Pos) (cs : List Char) : Succ (scan p cs) ↔ Succ (scan q cs) := by
  rw [succ_iff_oscan, succ_iff_oscan]

/-- a failed scan: the tokens so far (kinds and values independent of `p`), then the marker -/
theorem fail_iff_forget (p : Pos) (cs : List Char) :
    ¬ Succ (scan p cs) ↔ ((scan p cs).map forget).getLast? = some ⟨.begEnd, "ERR".toList⟩ := by
  constructor
  · intro h
    have hl : (scan p cs).getLast? = some errMark := Classical.not_not.mp h
    rw [List.getLast?_map, hl]; rfl
  · intro h hs
    obtain ⟨t, ht, hlen⟩ := succ_last _ _ hs
    rw [List.getLast?_map, ht] at h
    simp only [Option.map_some, Option.some.injEq, forget, ATok.mk.injEq] at h
    rw [h.2] at hlen
    revert hlen; decide

end CS

/-! ## the offsets are real: each token's text is the slice of the value between its offsets -/
namespace CS
open HS (Pos adv)

theorem take_drop_app {full k rest : List Char} {n s : Nat} (h : full.drop n = k ++ rest) (hn : n ≤ full.length)
    (hs : s ≤ n) :
    (full.take (n + k.length)).drop s = (full.take n).drop s ++ k ∧ n + k.length ≤ full.length := by
  constructor
  · rw [List.take_add, h, List.take_left', List.drop_append_of_le_length (by rw [List.length_take]; omega)]
    rfl
  · have := congrArg List.length h
    rw [List.length_drop, List.length_append] at this
    omega

theorem drop_lt {full : List Char} {n : Nat} {c : Char} {rest : List Char} (h : full.drop n = c :: rest) :
    n < full.length := by
  rcases Nat.lt_or_ge n full.length with h1 | h1
  · exact h1
  · rw [List.drop_eq_nil_of_le h1] at h; cases h

theorem take_drop_snoc {full : List Char} {n s : Nat} {c : Char} {rest : List Char}
    (h : full.drop n = c :: rest) (hs : s ≤ n) :
    (full.take (n + 1)).drop s = (full.take n).drop s ++ [c] ∧ n + 1 ≤ full.length :=
  take_drop_app (k := [c]) h (Nat.le_of_lt (drop_lt h)) hs

theorem dollar_brace : "${".toList = ['$', '{'] := by decide +kernel

theorem slice_nil (full : List Char) (n : Nat) : ([] : List Char).reverse = (full.take n).drop n := by
  rw [List.drop_eq_nil_of_le (List.length_take_le n full)]; rfl

theorem step_inv {full : List Char} {n s : Nat} {c : Char} {rest buf : List Char}
    (hd : full.drop n = c :: rest) (hs : s ≤ n) (hb : buf.reverse = (full.take n).drop s) :
    n + 1 ≤ full.length ∧ s ≤ n + 1 ∧ (c :: buf).reverse = (full.take (n + 1)).drop s := by
  obtain ⟨h1, h2⟩ := take_drop_snoc hd hs
  exact ⟨h2, by omega, by rw [h1, ← hb]; simp⟩

theorem oscanString_spec (q : Char) : ∀ (f n : Nat) (cs acc str : List Char) (n' : Nat) (rest : List Char),
    oscanString q f n cs acc = some (str, n', rest) →
      ∃ k, str = acc.reverse ++ k ∧ cs = k ++ rest ∧ n' = n + k.length := by
  intro f
  induction f with
  | zero => intro n cs acc str n' rest h; simp [oscanString] at h
  | succ f ih =>
    intro n cs acc str n' rest h
    cases cs with
    | nil => simp [oscanString] at h
    | cons c cs =>
      simp only [oscanString] at h
      split at h
      · split at h
        · simp at h; exact ⟨[c], by simp [← h.1], by simp [h.2.2], by simp [← h.2.1]⟩
        · obtain ⟨k, h1, h2, h3⟩ := ih _ _ _ _ _ _ h
          exact ⟨c :: k, by simp [h1], by simp [h2], by simp [h3]; omega⟩
      · split at h
        · split at h
          · simp at h
          · rename_i d rest'
            obtain ⟨k, h1, h2, h3⟩ := ih _ _ _ _ _ _ h
            exact ⟨c :: d :: k, by simp [h1], by simp [h2], by simp [h3]; omega⟩
        · split at h
          · simp at h; exact ⟨[c], by simp [← h.1], by simp [h.2.2], by simp [← h.2.1]⟩
          · obtain ⟨k, h1, h2, h3⟩ := ih _ _ _ _ _ _ h
            exact ⟨c :: k, by simp [h1], by simp [h2], by simp [h3]; omega⟩

/-- the offsets of a token are real: `so ≤ eo ≤ |value|` and the token's text is the slice `[so, eo)` of the value -/
def OTok.WF (full : List Char) : OTok → Prop
  | .tok _ so eo v => so ≤ eo ∧ eo ≤ full.length ∧ v = (full.take eo).drop so
  | .err => True

theorem wf_rev {full : List Char} {o : OS} (h : ∀ t ∈ o.toks, t.WF full) : ∀ t ∈ o.toks.reverse, t.WF full :=
  fun t ht => h t (List.mem_reverse.mp ht)

theorem wf_fail {full : List Char} {o : OS} (h : ∀ t ∈ o.toks, t.WF full) : ∀ t ∈ o.fail, t.WF full := by
  intro t ht
  simp only [OS.fail, List.mem_append, List.mem_reverse, List.mem_singleton] at ht
  rcases ht with ht | rfl
  · exact h t ht
  · trivial

theorem wf_cons {full : List Char} {l : List OTok} {t : OTok} (ht : t.WF full) (h : ∀ t ∈ l, t.WF full) :
    ∀ t' ∈ t :: l, t'.WF full := by
  intro t' h'
  rcases List.mem_cons.mp h' with rfl | h'
  · exact ht
  · exact h t' h'

set_option linter.unusedSimpArgs false in
theorem owf (full : List Char) (f : Nat) :
    (∀ (o : OS) (ostart : Nat) (buf cs : List Char), full.drop o.pos = cs → o.pos ≤ full.length → ostart ≤ o.pos →
      buf.reverse = (full.take o.pos).drop ostart → (∀ t ∈ o.toks, t.WF full) →
      ∀ t ∈ oscanLiteral f o ostart buf cs, t.WF full) ∧
    (∀ (o : OS) (closing : Bool) (cs : List Char), full.drop o.pos = cs → o.pos ≤ full.length →
      (∀ t ∈ o.toks, t.WF full) → ∀ t ∈ oscanQuot f o closing cs, t.WF full) ∧
    (∀ (o : OS) (ostart : Nat) (buf cs : List Char), full.drop o.pos = cs → o.pos ≤ full.length → ostart ≤ o.pos →
      buf.reverse = (full.take o.pos).drop ostart → (∀ t ∈ o.toks, t.WF full) →
      ∀ t ∈ oscanCode f o ostart buf cs, t.WF full) := by
  induction f with
  | zero =>
    refine ⟨?_, ?_, ?_⟩ <;> intros <;> rename_i hw _ _ <;>
      simp only [oscanLiteral, oscanQuot, oscanCode] at * <;> exact wf_rev hw _ ‹_›
  | succ f ih =>
    obtain ⟨ihL, ihQ, ihC⟩ := ih
    refine ⟨?_, ?_, ?_⟩
    · intro o ostart buf cs hd hle hs hb hw
      cases cs with
      | nil => simp only [oscanLiteral]; exact wf_fail hw
      | cons c rest =>
        have hd1 := drop_succ_of hd
        obtain ⟨g1, g2, g3⟩ := step_inv hd hs hb
        simp only [oscanLiteral]
        by_cases h1 : ((decide (c = '"') || decide (c = '\'')) && decide (c = o.firstCh)) = true
        · simp only [h1, Bool.false_eq_true, ↓reduceIte]
          by_cases h2 : buf.isEmpty = true
          · simp only [h2, Bool.false_eq_true, ↓reduceIte]
            refine ihQ _ true rest hd1 g1 (wf_cons ⟨g2, g1, ?_⟩ hw)
            have : buf = [] := by simpa using h2
            subst this
            simpa using g3
          · simp only [h2, Bool.false_eq_true, ↓reduceIte]
            exact ihQ _ true (c :: rest) hd hle (wf_cons ⟨hs, hle, hb⟩ hw)
        · simp only [h1, Bool.false_eq_true, ↓reduceIte]
          by_cases h3 : c = '$'
          · simp only [h3, Bool.false_eq_true, ↓reduceIte]
            revert hd1
            split
            · rename_i rest'
              intro hd1
              have hd2 := drop_succ_of hd1
              have hcs : full.drop o.pos = ['$', '{'] ++ rest' := by rw [hd, h3]; rfl
              obtain ⟨k1, k2⟩ := take_drop_app hcs hle (Nat.le_refl _)
              have hstart : (OTok.tok .codeStart o.pos (o.pos + 2) "${".toList).WF full :=
                ⟨by omega, k2, by rw [dollar_brace]; rw [← slice_nil] at k1; exact k1.symm⟩
              by_cases h2 : buf.isEmpty = true
              · simp only [h2, Bool.false_eq_true, ↓reduceIte]
                exact ihC _ (o.pos + 2) [] rest' hd2 k2 (Nat.le_refl _) (slice_nil _ _) (wf_cons hstart hw)
              · simp only [h2, Bool.false_eq_true, ↓reduceIte]
                exact ihC _ (o.pos + 2) [] rest' hd2 k2 (Nat.le_refl _) (slice_nil _ _)
                  (wf_cons hstart (wf_cons ⟨hs, hle, hb⟩ hw))
            · intro hd1
              exact ihL _ ostart _ rest hd1 g1 g2 (by rw [← h3]; exact g3) hw
          · simp only [h3, Bool.false_eq_true, ↓reduceIte]
            exact ihL _ ostart _ rest hd1 g1 g2 g3 hw
    · intro o closing cs hd hle hw
      cases cs with
      | nil => cases closing <;> simp only [oscanQuot, Bool.false_eq_true, ↓reduceIte]
               · exact wf_fail hw
               · exact wf_rev hw
      | cons c rest =>
        have hd1 := drop_succ_of hd
        obtain ⟨k1, k2⟩ := take_drop_snoc hd (Nat.le_refl o.pos)
        have htok : (OTok.tok .begEnd o.pos (o.pos + 1) [c]).WF full :=
          ⟨by omega, k2, by rw [k1, ← slice_nil]; rfl⟩
        simp only [oscanQuot]
        by_cases h1 : (decide (c = '"') || decide (c = '\'')) = true
        · simp only [h1, Bool.false_eq_true, ↓reduceIte]
          cases closing
          · simp only [Bool.false_eq_true, ↓reduceIte]
            exact ihL _ (o.pos + 1) [] rest hd1 k2 (Nat.le_refl _) (slice_nil _ _) (wf_cons htok hw)
          · simp only [↓reduceIte]
            exact wf_rev (o := ⟨o.pos + 1, c, o.brace, _ :: o.toks⟩) (wf_cons htok hw)
        · simp only [h1, Bool.false_eq_true, ↓reduceIte]
          exact wf_fail hw
    · intro o ostart buf cs hd hle hs hb hw
      cases cs with
      | nil => simp only [oscanCode]; exact wf_fail hw
      | cons c rest =>
        have hd1 := drop_succ_of hd
        obtain ⟨g1, g2, g3⟩ := step_inv hd hs hb
        simp only [oscanCode]
        by_cases h1 : c = '{'
        · simp only [h1, Bool.false_eq_true, ↓reduceIte]
          exact ihC _ ostart _ rest hd1 g1 g2 (by rw [← h1]; exact g3) hw
        · simp only [h1, Bool.false_eq_true, ↓reduceIte]
          by_cases h2 : c = '}'
          · simp only [h2, Bool.false_eq_true, ↓reduceIte]
            by_cases h3 : o.brace = 0
            · simp only [h3, Bool.false_eq_true, ↓reduceIte]
              obtain ⟨k1, k2⟩ := take_drop_snoc hd (Nat.le_refl o.pos)
              have htok : (OTok.tok .codeEnd o.pos (o.pos + 1) ['}']).WF full :=
                ⟨by omega, k2, by rw [k1, ← slice_nil, h2]; rfl⟩
              exact ihL _ (o.pos + 1) [] rest hd1 g1 (Nat.le_refl _) (slice_nil _ _)
                (wf_cons htok (wf_cons ⟨hs, hle, hb⟩ hw))
            · simp only [h3, Bool.false_eq_true, ↓reduceIte]
              exact ihC _ ostart _ rest hd1 g1 g2 (by rw [← h2]; exact g3) hw
          · simp only [h2, Bool.false_eq_true, ↓reduceIte]
            by_cases h4 : (decide (c = '"') || decide (c = '\'') || decide (c = '`')) = true
            · simp only [h4, Bool.false_eq_true, ↓reduceIte]
              cases hss : oscanString c (rest.length + 1) (o.pos + 1) rest [] with
              | none => simp only; exact wf_fail hw
              | some r =>
                obtain ⟨str, n2, rest'⟩ := r
                simp only
                obtain ⟨k, e1, e2, e3⟩ := oscanString_spec c _ _ _ _ _ _ _ hss
                have hdk : full.drop (o.pos + 1) = k ++ rest' := by rw [hd1, e2]
                obtain ⟨k1, k2⟩ := take_drop_app hdk g1 g2
                refine ihC _ ostart _ rest' (oscanString_drop c full _ _ _ _ _ _ _ hd1 hss) (by show n2 ≤ full.length; rw [e3]; exact k2)
                  (by show ostart ≤ n2; rw [e3]; omega) ?_ hw
                simp only [e3, k1, ← g3, e1]
                simp
            · simp only [h4, Bool.false_eq_true, ↓reduceIte]
              exact ihC _ ostart _ rest hd1 g1 g2 g3 hw

/-- **oscan_wf.** The offsets are real offsets into the value: for every token `tok k so eo v` of `oscan cs`,
    `so ≤ eo ≤ cs.length` and `v` is the slice `[so, eo)` of `cs`. -/
theorem oscan_wf (cs : List Char) : ∀ t ∈ oscan cs, t.WF cs :=
  (owf cs _).2.1 ⟨0, ' ', 0, []⟩ false cs rfl (Nat.zero_le _) (fun t ht => by cases ht)

/-- every token of a scan is position-exact: it ends where its text ends -/
theorem scan_stop_eq (p : Pos) (cs : List Char) : ∀ t ∈ scan p cs, t = errMark ∨ t.stop = adv t.start t.value := by
  intro t ht
  rw [scan_place] at ht
  obtain ⟨ot, hot, rfl⟩ := List.mem_map.mp ht
  cases ot with
  | err => exact Or.inl rfl
  | tok k so eo v =>
    obtain ⟨h1, h2, h3⟩ := oscan_wf cs _ hot
    refine Or.inr ?_
    simp only [OTok.place, posAt]
    have : cs.take eo = cs.take so ++ v := by
      rw [h3]
      have : cs.take so = (cs.take eo).take so := by rw [List.take_take, Nat.min_eq_left h1]
      rw [this, List.take_append_drop]
    rw [this, HS.adv_append]

end CS
