import TplModel.Sys.Xtpl
/-! # Lemmas about the xtpl model (`TplModel/Sys/Xtpl.lean`, namespace `XT`) used by `Props/C20.lean`

Sections: literals at positions / `doExtract` / the listener (membership characterisations);
`calls` = the call nodes occurring in an expression (`Sub`); the merge loop of `Save` (`mergeBy`, for an
arbitrary key function); `Entry.goKey`; `save`; `parseKeywords`. Core-only. -/
namespace XT
open EL (E)

/-! ## extraction -/

theorem litAt_zero (args : List E) : litAt args 0 = "" := by simp [litAt]

theorem litAt_lit {args : List E} {i : Nat} {a : E} {s : String}
    (hi : 1 ≤ i) (ha : args[i - 1]? = some a) (hs : strLit a = some s) : litAt args i = s := by
  have : i ≠ 0 := by omega
  simp [litAt, this, ha, hs]

theorem litAt_nonlit {args : List E} {i : Nat} {a : E}
    (ha : args[i - 1]? = some a) (hs : strLit a = none) : litAt args i = "" := by
  by_cases h : i = 0 <;> simp [litAt, h, ha, hs]

theorem litAt?_eq {args : List E} {i : Nat} {s : String} :
    litAt? args i = some s ↔ ∃ a, args[i - 1]? = some a ∧ strLit a = some s := by
  unfold litAt?
  cases h : args[i - 1]? <;> simp

def entryOf (kw : Keyword) (args : List E) (s : String) (o : Nat) : Entry :=
  ⟨litAt args kw.ctx, s, litAt args kw.plural, o, true⟩

/-- a keyword without msgid position (`-keywords T:0`, `T:-1`, `X:1c,0`) adds nothing -/
theorem doExtract_id_zero {kw : Keyword} (fn : String) (args : List E) (occ : Nat → Nat) (h : kw.id = 0) :
    doExtract kw fn args occ = [] := by
  unfold doExtract
  by_cases h1 : kw.name = fn <;> by_cases h2 : kw.maxArg > args.length <;> simp [h1, h2, h]

theorem mem_doExtract_iff {kw : Keyword} {fn : String} {args : List E} {occ : Nat → Nat} {x : Entry} :
    x ∈ doExtract kw fn args occ ↔
      kw.name = fn ∧ kw.maxArg ≤ args.length ∧ 1 ≤ kw.id ∧
      ∃ s, litAt? args kw.id = some s ∧ ¬(s = "" ∧ litAt args kw.ctx = "") ∧
        x = entryOf kw args s (occ kw.id) := by
  unfold doExtract entryOf
  by_cases h1 : kw.name = fn
  · by_cases h2 : kw.maxArg > args.length
    · simp [h1, h2]; omega
    · have h2' : kw.maxArg ≤ args.length := by omega
      by_cases h3 : kw.id = 0
      · simp [h1, h2, h3]
      · have h3' : 1 ≤ kw.id := by omega
        cases h4 : litAt? args kw.id with
        | none => simp [h1, h2, h3]
        | some s =>
          by_cases h5 : s = "" ∧ litAt args kw.ctx = ""
          · simp [h1, h2, h2', h3, h3', h5]
          · simp [h1, h2, h2', h3, h3', h5]
            exact fun _ a b => h5 ⟨a, b⟩
  · simp [h1]

theorem mem_extractCall_iff {kws : List Keyword} {f : E} {as : List E} {occ : Nat → Nat} {x : Entry} :
    x ∈ extractCall kws f as occ ↔
      ∃ fn, fnName f = some fn ∧ as ≠ [] ∧ ∃ kw ∈ kws, x ∈ doExtract kw fn as occ := by
  unfold extractCall
  cases h : fnName f with
  | none => simp
  | some fn =>
    cases as with
    | nil => simp
    | cons a t => simp [List.mem_flatMap]

theorem mem_extractFrom_iff {kws : List Keyword} {pos : Nat → Nat → Nat} {x : Entry} :
    ∀ {cs : List E} {n : Nat}, x ∈ extractFrom kws pos n cs ↔
      ∃ i c, cs[i]? = some c ∧ x ∈ extractNode kws (pos (n + i)) c := by
  intro cs
  induction cs with
  | nil => intro n; simp [extractFrom]
  | cons c cs ih =>
    intro n
    simp only [extractFrom, List.mem_append, ih]
    constructor
    · rintro (h | ⟨i, c', hc, hx⟩)
      · exact ⟨0, c, by simp, by simpa using h⟩
      · exact ⟨i + 1, c', by simpa using hc, by rw [show n + (i + 1) = n + 1 + i by omega]; exact hx⟩
    · rintro ⟨i, c', hc, hx⟩
      cases i with
      | zero => left; simp at hc; subst hc; simpa using hx
      | succ i => right; exact ⟨i, c', by simpa using hc, by rw [show n + 1 + i = n + (i + 1) by omega]; exact hx⟩

theorem mem_extract_iff {kws : List Keyword} {pos : Nat → Nat → Nat} {e : E} {x : Entry} :
    x ∈ extract kws pos e ↔ ∃ n c, (calls e)[n]? = some c ∧ x ∈ extractNode kws (pos n) c := by
  simp [extract, mem_extractFrom_iff]

theorem mem_extractNode_iff {kws : List Keyword} {occ : Nat → Nat} {c : E} {x : Entry} :
    x ∈ extractNode kws occ c ↔ ∃ f as ell, c = .call f as ell ∧ x ∈ extractCall kws f as occ := by
  cases c <;> simp [extractNode]
  constructor
  · intro h; exact ⟨_, _, ⟨rfl, rfl⟩, h⟩
  · rintro ⟨_, _, ⟨rfl, rfl⟩, h⟩; exact h


/-! ## the call nodes of an expression -/

/-- `Child c p`: `c` is an immediate sub-expression of `p` -/
inductive Child : E → E → Prop
  | paren {e} : Child e (.paren e)
  | un {o e} : Child e (.un o e)
  | binL {o l r} : Child l (.bin o l r)
  | binR {o l r} : Child r (.bin o l r)
  | condC {c a b} : Child c (.cond c a b)
  | condA {c a b} : Child a (.cond c a b)
  | condB {c a b} : Child b (.cond c a b)
  | field {e s n} : Child e (.field e s n)
  | indexE {e i} : Child e (.index e i)
  | indexI {e i} : Child i (.index e i)
  | sliceE {e lo hi cap} : Child e (.slice e lo hi cap)
  | sliceLo {e lo hi cap} : Child lo (.slice e (some lo) hi cap)
  | sliceHi {e lo hi cap} : Child hi (.slice e lo (some hi) cap)
  | sliceCap {e lo hi cap} : Child cap (.slice e lo hi (some cap))
  | callF {f as ell} : Child f (.call f as ell)
  | callArg {f as ell a} : a ∈ as → Child a (.call f as ell)

/-- `Sub c e`: `c` occurs in `e` (reflexive-transitive closure of `Child`) -/
inductive Sub : E → E → Prop
  | refl {e} : Sub e e
  | step {c m p} : Sub c m → Child m p → Sub c p

def IsCall (c : E) : Prop := ∃ f as ell, c = .call f as ell

theorem callsL_eq (as : List E) : callsL as = as.flatMap calls := by
  induction as with
  | nil => simp [callsL]
  | cons a t ih => simp [callsL, ih]

theorem mem_callsL {as : List E} {c : E} : c ∈ callsL as ↔ ∃ a ∈ as, c ∈ calls a := by
  simp [callsL_eq, List.mem_flatMap]

theorem mem_calls_of_child {c m p : E} (h : c ∈ calls m) (hc : Child m p) : c ∈ calls p := by
  cases hc <;> simp [calls, callsO, h]
  case callArg hm => right; right; exact mem_callsL.2 ⟨_, hm, h⟩

theorem mem_calls_of_sub {c e : E} (hs : Sub c e) (hc : IsCall c) : c ∈ calls e := by
  induction hs with
  | refl => obtain ⟨f, as, ell, rfl⟩ := hc; simp [calls]
  | step _ hch ih => exact mem_calls_of_child ih hch

theorem Sub.trans_child {c m p : E} (h : Child m p) (hs : Sub c m) : Sub c p := .step hs h

mutual
theorem sub_of_mem_calls : ∀ (e c : E), c ∈ calls e → Sub c e ∧ IsCall c
  | .lit _ _, c, h => by simp [calls] at h
  | .name _, c, h => by simp [calls] at h
  | .paren e, c, h => by
    simp only [calls] at h
    have := sub_of_mem_calls e c h
    exact ⟨.step this.1 .paren, this.2⟩
  | .un _ e, c, h => by
    simp only [calls] at h
    have := sub_of_mem_calls e c h
    exact ⟨.step this.1 .un, this.2⟩
  | .bin _ l r, c, h => by
    simp only [calls, List.mem_append] at h
    rcases h with h | h
    · have := sub_of_mem_calls l c h; exact ⟨.step this.1 .binL, this.2⟩
    · have := sub_of_mem_calls r c h; exact ⟨.step this.1 .binR, this.2⟩
  | .cond x a b, c, h => by
    simp only [calls, List.mem_append] at h
    rcases h with h | h | h
    · have := sub_of_mem_calls x c h; exact ⟨.step this.1 .condC, this.2⟩
    · have := sub_of_mem_calls a c h; exact ⟨.step this.1 .condA, this.2⟩
    · have := sub_of_mem_calls b c h; exact ⟨.step this.1 .condB, this.2⟩
  | .field e _ _, c, h => by
    simp only [calls] at h
    have := sub_of_mem_calls e c h
    exact ⟨.step this.1 .field, this.2⟩
  | .index e i, c, h => by
    simp only [calls, List.mem_append] at h
    rcases h with h | h
    · have := sub_of_mem_calls e c h; exact ⟨.step this.1 .indexE, this.2⟩
    · have := sub_of_mem_calls i c h; exact ⟨.step this.1 .indexI, this.2⟩
  | .slice e lo hi cap, c, h => by
    simp only [calls, List.mem_append] at h
    rcases h with h | h | h | h
    · have := sub_of_mem_calls e c h; exact ⟨.step this.1 .sliceE, this.2⟩
    · obtain ⟨x, rfl, hs, hc⟩ := sub_of_mem_callsO lo c h; exact ⟨.step hs .sliceLo, hc⟩
    · obtain ⟨x, rfl, hs, hc⟩ := sub_of_mem_callsO hi c h; exact ⟨.step hs .sliceHi, hc⟩
    · obtain ⟨x, rfl, hs, hc⟩ := sub_of_mem_callsO cap c h; exact ⟨.step hs .sliceCap, hc⟩
  | .call f as ell, c, h => by
    simp only [calls, List.mem_cons, List.mem_append] at h
    rcases h with h | h | h
    · subst h; exact ⟨.refl, ⟨f, as, ell, rfl⟩⟩
    · have := sub_of_mem_calls f c h; exact ⟨.step this.1 .callF, this.2⟩
    · obtain ⟨a, ha, hs, hc⟩ := sub_of_mem_callsL as c h; exact ⟨.step hs (.callArg ha), hc⟩
theorem sub_of_mem_callsL : ∀ (as : List E) (c : E), c ∈ callsL as → ∃ a ∈ as, Sub c a ∧ IsCall c
  | [], c, h => by simp [callsL] at h
  | a :: t, c, h => by
    simp only [callsL, List.mem_append] at h
    rcases h with h | h
    · have := sub_of_mem_calls a c h; exact ⟨a, by simp, this⟩
    · obtain ⟨a', ha', r⟩ := sub_of_mem_callsL t c h; exact ⟨a', by simp [ha'], r⟩
theorem sub_of_mem_callsO : ∀ (o : Option E) (c : E), c ∈ callsO o → ∃ x, o = some x ∧ Sub c x ∧ IsCall c
  | none, c, h => by simp [callsO] at h
  | some x, c, h => by
    simp only [callsO] at h
    have := sub_of_mem_calls x c h; exact ⟨x, rfl, this⟩
end

/-- `calls e` is exactly the set of call nodes occurring in `e` -/
theorem mem_calls_iff {e c : E} : c ∈ calls e ↔ Sub c e ∧ IsCall c :=
  ⟨sub_of_mem_calls e c, fun h => mem_calls_of_sub h.1 h.2⟩


/-! ## the merge loop of `Save` -/

section Merge
variable {κ : Type} [DecidableEq κ]

abbrev Tab (κ : Type) := List (κ × Entry × List Nat)

def find (k : κ) : Tab κ → Option (Entry × List Nat)
  | [] => none
  | (k', v) :: t => if k' = k then some v else find k t

def keysOf (acc : Tab κ) : List κ := acc.map (·.1)

/-- keys in first-occurrence order -/
def firstOcc (ks : List κ) : List κ := ks.foldl (fun acc k => if k ∈ acc then acc else acc ++ [k]) []

theorem find_upsert (k k' : κ) (e : Entry) (r : List Nat) (acc : Tab κ) :
    find k' (upsert k e r acc) =
      if k' = k then some (e, ((find k acc).map (·.2)).getD [] ++ r) else find k' acc := by
  induction acc with
  | nil =>
    by_cases h : k' = k
    · simp [upsert, find, h]
    · have h' : ¬ k = k' := fun a => h a.symm
      simp [upsert, find, h, h']
  | cons x t ih =>
    obtain ⟨k0, e0, r0⟩ := x
    by_cases h0 : k0 = k
    · subst h0
      by_cases h : k' = k0
      · subst h; simp [upsert, find]
      · have h' : ¬ k0 = k' := fun a => h a.symm
        simp [upsert, find, h, h']
    · by_cases h : k' = k
      · subst h; simp [upsert, find, h0, ih]
      · simp [upsert, find, h0, ih, h]

theorem keysOf_upsert (k : κ) (e : Entry) (r : List Nat) (acc : Tab κ) :
    keysOf (upsert k e r acc) = if k ∈ keysOf acc then keysOf acc else keysOf acc ++ [k] := by
  induction acc with
  | nil => simp [upsert, keysOf]
  | cons x t ih =>
    obtain ⟨k0, e0, r0⟩ := x
    by_cases h0 : k0 = k
    · subst h0; simp [upsert, keysOf]
    · have h0' : ¬ k = k0 := fun a => h0 a.symm
      simp only [keysOf] at ih
      simp only [upsert, h0, if_false, keysOf, List.map_cons, List.mem_cons, h0', false_or, ih]
      split <;> simp [*]

theorem find_isSome_iff (k : κ) (acc : Tab κ) : (find k acc).isSome ↔ k ∈ keysOf acc := by
  induction acc with
  | nil => simp [find, keysOf]
  | cons x t ih =>
    obtain ⟨k0, v⟩ := x
    by_cases h : k0 = k
    · simp [find, keysOf, h]
    · have h' : ¬ k = k0 := fun a => h a.symm
      simp only [keysOf] at ih
      simp [find, keysOf, h, h', ih]

theorem mem_of_find {k : κ} {v : Entry × List Nat} {acc : Tab κ} (h : find k acc = some v) : (k, v) ∈ acc := by
  induction acc with
  | nil => simp [find] at h
  | cons x t ih =>
    obtain ⟨k0, v0⟩ := x
    by_cases h0 : k0 = k
    · simp [find, h0] at h; simp [h0, h]
    · simp [find, h0] at h; simp [ih h]

theorem find_of_mem {k : κ} {v : Entry × List Nat} {acc : Tab κ} (hn : (keysOf acc).Nodup) (h : (k, v) ∈ acc) :
    find k acc = some v := by
  induction acc with
  | nil => simp at h
  | cons x t ih =>
    obtain ⟨k0, v0⟩ := x
    simp only [keysOf, List.map_cons, List.nodup_cons] at hn
    simp only [List.mem_cons, Prod.mk.injEq] at h
    rcases h with ⟨rfl, rfl⟩ | h
    · simp [find]
    · have : k0 ≠ k := by
        rintro rfl
        exact hn.1 (List.mem_map.2 ⟨_, h, rfl⟩)
      simp [find, this, ih hn.2 h]

variable (key : Entry → κ)

def matching (k : κ) (es : List Entry) : List Entry := es.filter (fun e => key e = k)

/-- what `Save` must hold for key `k` after the entries `es` -/
def specFor (k : κ) (es : List Entry) : Option (Entry × List Nat) :=
  ((matching key k es).getLast?).map fun e => (e, (matching key k es).flatMap Entry.refs)

theorem specFor_snoc (k : κ) (es : List Entry) (e : Entry) :
    specFor key k (es ++ [e]) =
      if k = key e then some (e, ((specFor key k es).map (·.2)).getD [] ++ e.refs) else specFor key k es := by
  unfold specFor matching
  by_cases h : k = key e
  · subst h
    simp only [List.filter_append, List.filter_cons, List.filter_nil, decide_true, if_true]
    cases hl : (List.filter (fun e_1 => decide (key e_1 = key e)) es).getLast? with
    | none =>
      have : List.filter (fun e_1 => decide (key e_1 = key e)) es = [] := by
        simpa [List.getLast?_eq_none_iff] using hl
      simp [this]
    | some x => simp
  · have h' : ¬ key e = k := fun a => h a.symm
    simp [List.filter_append, h, h']

theorem merge_inv (es : List Entry) : ∀ (acc : Tab κ) (pre : List Entry),
    (keysOf acc).Nodup → (∀ k, find k acc = specFor key k pre) → keysOf acc = firstOcc (pre.map key) →
    let r := es.foldl (fun acc e => upsert (key e) e e.refs acc) acc
    (keysOf r).Nodup ∧ (∀ k, find k r = specFor key k (pre ++ es)) ∧ keysOf r = firstOcc ((pre ++ es).map key) := by
  induction es with
  | nil => intro acc pre h1 h2 h3; simpa using ⟨h1, h2, h3⟩
  | cons e t ih =>
    intro acc pre h1 h2 h3
    have := ih (upsert (key e) e e.refs acc) (pre ++ [e]) ?_ ?_ ?_
    · simpa using this
    · rw [keysOf_upsert]; split
      · exact h1
      · rename_i hk
        refine List.nodup_append.2 ⟨h1, by simp, ?_⟩
        intro a ha b hb
        simp at hb; subst hb
        rintro rfl; exact hk ha
    · intro k; rw [find_upsert, specFor_snoc]
      by_cases hk : k = key e
      · subst hk; simp [h2]
      · simp [hk, h2]
    · rw [keysOf_upsert, h3]
      simp only [firstOcc, List.map_append, List.foldl_append, List.map_cons, List.map_nil, List.foldl_cons,
        List.foldl_nil]
      split <;> rename_i h <;> simp [h]

theorem mergeBy_inv (es : List Entry) :
    (keysOf (mergeBy key es)).Nodup ∧ (∀ k, find k (mergeBy key es) = specFor key k es) ∧
      keysOf (mergeBy key es) = firstOcc (es.map key) := by
  have := merge_inv key es [] [] (by simp [keysOf]) (by intro k; simp [find, specFor, matching]) (by simp [keysOf, firstOcc])
  simpa [mergeBy] using this


theorem mem_mergeBy_iff (es : List Entry) (k : κ) (e : Entry) (r : List Nat) :
    (k, e, r) ∈ mergeBy key es ↔
      (matching key k es).getLast? = some e ∧ r = (matching key k es).flatMap Entry.refs := by
  obtain ⟨h1, h2, _⟩ := mergeBy_inv key es
  constructor
  · intro h
    have := find_of_mem h1 h
    rw [h2, specFor] at this
    cases hl : (matching key k es).getLast? with
    | none => simp [hl] at this
    | some x => simp [hl] at this; simp [this.1, this.2]
  · rintro ⟨ha, hb⟩
    apply mem_of_find
    rw [h2, specFor, ha, hb]; rfl

theorem mem_keys_mergeBy_iff (es : List Entry) (k : κ) :
    k ∈ keysOf (mergeBy key es) ↔ ∃ e ∈ es, key e = k := by
  obtain ⟨_, h2, _⟩ := mergeBy_inv key es
  rw [← find_isSome_iff, h2, specFor]
  simp only [Option.isSome_map, matching]
  rw [Option.isSome_iff_ne_none]
  simp

/-- the entry stored for a key carries that key -/
theorem key_of_mem_mergeBy {es : List Entry} {k : κ} {e : Entry} {r : List Nat}
    (h : (k, e, r) ∈ mergeBy key es) : key e = k ∧ e ∈ es := by
  have := ((mem_mergeBy_iff key es k e r).1 h).1
  have hm := List.mem_of_getLast? this
  simpa [matching, and_comm] using hm

/-- when every entry carries its reference the reference list is the list of occurrences -/
theorem refs_eq_map_occ {es : List Entry} (h : ∀ e ∈ es, e.cited = true) :
    es.flatMap Entry.refs = es.map (·.occ) := by
  induction es with
  | nil => rfl
  | cons e t ih =>
    have he := h e (by simp)
    simp [List.flatMap_cons, Entry.refs, he, ih (fun x hx => h x (by simp [hx]))]

end Merge

/-! ### `catalogue` -/

theorem catalogue_keys (es : List Entry) :
    (catalogue es).map (·.1) = keysOf (mergeBy Entry.key es) := by
  simp [catalogue, keysOf, List.map_map, Function.comp_def]

theorem mem_catalogue_iff (es : List Entry) (k : String × String) (p : String) (r : List Nat) :
    (k, p, r) ∈ catalogue es ↔
      ∃ e, (matching Entry.key k es).getLast? = some e ∧ p = e.plural ∧
        r = (matching Entry.key k es).flatMap Entry.refs := by
  simp only [catalogue, List.mem_map]
  constructor
  · rintro ⟨⟨k', e, r'⟩, hm, heq⟩
    simp only [Prod.mk.injEq] at heq
    obtain ⟨rfl, rfl, rfl⟩ := heq
    have := (mem_mergeBy_iff Entry.key es k' e r').1 hm
    exact ⟨e, this.1, rfl, this.2⟩
  · rintro ⟨e, h1, rfl, rfl⟩
    exact ⟨(k, e, _), (mem_mergeBy_iff Entry.key es k e _).2 ⟨h1, rfl⟩, rfl⟩


/-! ## the translator's string key, `save` -/

theorem goKey_toList (e : Entry) : e.goKey.toList = e.ctx.toList ++ '\x04' :: e.id.toList := by
  simp [Entry.goKey, String.toList_append]

theorem goKey_eq_headerKey_iff (e : Entry) : e.goKey = headerKey ↔ e.ctx = "" ∧ e.id = "" := by
  rw [← String.toList_inj, goKey_toList]
  constructor
  · intro h
    have hl := congrArg List.length h
    simp [headerKey] at hl
    have h1 : e.ctx.toList = [] := List.eq_nil_of_length_eq_zero (by omega)
    have h2 : e.id.toList = [] := List.eq_nil_of_length_eq_zero (by omega)
    exact ⟨String.toList_inj.1 (by simpa using h1), String.toList_inj.1 (by simpa using h2)⟩
  · rintro ⟨h1, h2⟩; simp [h1, h2, headerKey]

theorem append_sep_inj {c : Char} : ∀ {l1 l2 r1 r2 : List Char}, c ∉ l1 → c ∉ l2 →
    l1 ++ c :: r1 = l2 ++ c :: r2 → l1 = l2 ∧ r1 = r2
  | [], [], _, _, _, _, h => by simpa using h
  | [], b :: l2, _, _, _, h2, h => by simp at h; simp [h.1] at h2
  | a :: l1, [], _, _, h1, _, h => by simp at h; simp [h.1] at h1
  | a :: l1, b :: l2, r1, r2, h1, h2, h => by
    simp at h h1 h2
    have := append_sep_inj (l1 := l1) (l2 := l2) h1.2 h2.2 h.2
    simp [h.1, this]

/-- the string key of the translator package identifies (context, msgid) as long as no context contains its
    separator U+0004 -/
theorem goKey_inj {a b : Entry} (ha : '\x04' ∉ a.ctx.toList) (hb : '\x04' ∉ b.ctx.toList)
    (h : a.goKey = b.goKey) : a.key = b.key := by
  rw [← String.toList_inj, goKey_toList, goKey_toList] at h
  obtain ⟨h1, h2⟩ := append_sep_inj ha hb h
  simp [Entry.key, String.toList_inj.1 h1, String.toList_inj.1 h2]

/-- … and does not otherwise: two different (context, msgid) pairs with the same `Key()` -/
example : (⟨"a\x04b", "c", "", 0, true⟩ : Entry).goKey = (⟨"a", "b\x04c", "", 1, true⟩ : Entry).goKey := by decide

theorem potSet_fresh {k : String} {v : PotEntry} : ∀ {pot : List (String × PotEntry)},
    k ∉ pot.map (·.1) → potSet k v pot = pot ++ [(k, v)]
  | [], _ => rfl
  | (k', v') :: t, h => by
    simp at h
    have : ¬ k' = k := fun a => h.1 a.symm
    simp [potSet, this, potSet_fresh (pot := t) (by simpa using h.2)]

theorem foldl_potSet_fresh : ∀ (xs : List (String × Entry × List Nat)) (pot : List (String × PotEntry)),
    (xs.map (·.1)).Nodup → (∀ k ∈ xs.map (·.1), k ∉ pot.map (·.1)) →
    xs.foldl (fun pot x => potSet x.1 (.msg x.2.1 x.2.2) pot) pot
      = pot ++ xs.map (fun x => (x.1, PotEntry.msg x.2.1 x.2.2))
  | [], pot, _, _ => by simp
  | x :: t, pot, hn, hd => by
    simp only [List.map_cons, List.nodup_cons] at hn
    have hx : x.1 ∉ pot.map (·.1) := hd x.1 (by simp)
    simp only [List.foldl_cons, potSet_fresh hx]
    rw [foldl_potSet_fresh t _ hn.2]
    · simp
    · intro k hk
      simp only [List.map_append, List.map_cons, List.map_nil, List.mem_append, List.mem_singleton, not_or]
      refine ⟨hd k (by simp [hk]), ?_⟩
      rintro rfl; exact hn.1 hk


/-! ## `parseKeywords` -/

/-! ### `parseKeywords` -/

theorem splitOn_not_mem {sep : Char} : ∀ {a : List Char}, sep ∉ a → splitOn sep a = [a]
  | [], _ => rfl
  | c :: t, h => by
    simp at h
    have hc : ¬ c = sep := fun x => h.1 x.symm
    simp [splitOn, hc, splitOn_not_mem (a := t) h.2]

theorem splitOn_append {sep : Char} : ∀ {a : List Char} (b : List Char), sep ∉ a →
    splitOn sep (a ++ sep :: b) = a :: splitOn sep b
  | [], b, _ => by simp [splitOn]
  | c :: t, b, h => by
    simp at h
    have hc : ¬ c = sep := fun x => h.1 x.symm
    simp [splitOn, hc, splitOn_append (a := t) b h.2]

theorem digitsVal_append (l : List Char) (c : Char) : ∀ (acc : Nat),
    digitsVal (l ++ [c]) acc = (digitsVal l acc).bind (fun v => digitsVal [c] v) := by
  induction l with
  | nil => intro acc; simp [digitsVal]
  | cons d t ih =>
    intro acc
    by_cases h : '0' ≤ d ∧ d ≤ '9'
    · simp [digitsVal, h, ih]
    · simp [digitsVal, h]

theorem digitsVal_digitChar {d : Nat} (h : d < 10) (acc : Nat) :
    digitsVal [Nat.digitChar d] acc = some (acc * 10 + d) := by
  have : d = 0 ∨ d = 1 ∨ d = 2 ∨ d = 3 ∨ d = 4 ∨ d = 5 ∨ d = 6 ∨ d = 7 ∨ d = 8 ∨ d = 9 := by omega
  rcases this with rfl | rfl | rfl | rfl | rfl | rfl | rfl | rfl | rfl | rfl <;> simp [digitsVal, Nat.digitChar] <;> decide

theorem digitsVal_toDigits (n : Nat) : digitsVal (Nat.toDigits 10 n) 0 = some n := by
  induction n using Nat.strongRecOn with
  | _ n ih =>
    by_cases h : n < 10
    · rw [Nat.toDigits_of_lt_base h, digitsVal_digitChar h]; simp
    · have h1 : 0 < n / 10 := by omega
      have h2 : n % 10 < 10 := by omega
      have := Nat.toDigits_append_toDigits (b := 10) (n := n / 10) (d := n % 10) (by omega) h1 h2
      rw [show 10 * (n / 10) + n % 10 = n by omega, Nat.toDigits_of_lt_base h2] at this
      rw [← this, digitsVal_append, ih (n / 10) (by omega)]
      simp [digitsVal_digitChar h2]; omega

theorem toDigits_ne_nil (n : Nat) : Nat.toDigits 10 n ≠ [] := by
  intro h
  have := digitsVal_toDigits n
  by_cases hn : n < 10
  · rw [Nat.toDigits_of_lt_base hn] at h; simp at h
  · rw [h] at this; simp [digitsVal] at this; omega

theorem mem_toDigits_isDigit {n : Nat} {c : Char} (h : c ∈ Nat.toDigits 10 n) : c.isDigit = true :=
  Nat.isDigit_of_mem_toDigits (by omega) (by omega) h

theorem not_mem_toDigits {n : Nat} {c : Char} (hc : c.isDigit = false) : c ∉ Nat.toDigits 10 n := by
  intro h; rw [mem_toDigits_isDigit h] at hc; cases hc

/-- decimal numerals are read back: `strconv.ParseInt(strconv.Itoa(n), 10, 64) = n` below 2^63 -/
theorem parseInt_toDigits {n : Nat} (h : n < 9223372036854775808) : parseInt (Nat.toDigits 10 n) = some n := by
  have hne := toDigits_ne_nil n
  have hp : '+' ∉ Nat.toDigits 10 n := not_mem_toDigits (by decide)
  have hm : '-' ∉ Nat.toDigits 10 n := not_mem_toDigits (by decide)
  have hd := digitsVal_toDigits n
  cases hl : Nat.toDigits 10 n with
  | nil => exact absurd hl hne
  | cons c t =>
    rw [hl] at hp hm hd
    simp at hp hm
    have h1 : ¬ c = '+' := fun x => hp.1 x.symm
    have h2 : ¬ c = '-' := fun x => hm.1 x.symm
    unfold parseInt
    split
    · cases ‹c :: t = []›
    · rename_i heq; simp at heq; exact absurd heq.1 h1
    · rename_i heq; simp at heq; exact absurd heq.1 h2
    · simp [hd, h]

theorem stripC_snoc (l : List Char) : stripC (l ++ ['c']) = some l := by simp [stripC]

theorem stripC_toDigits (n : Nat) : stripC (Nat.toDigits 10 n) = none := by
  unfold stripC
  have : (Nat.toDigits 10 n).getLast? ≠ some 'c' := by
    intro h
    have := mem_toDigits_isDigit (List.mem_of_getLast? h)
    revert this; decide
  simp [this]


/-- the decimal numeral of `n` (`strconv.Itoa`) -/
def dec (n : Nat) : List Char := Nat.toDigits 10 n

theorem colon_not_mem_dec (n : Nat) : ':' ∉ dec n := not_mem_toDigits (by decide)
theorem comma_not_mem_dec (n : Nat) : ',' ∉ dec n := not_mem_toDigits (by decide)

abbrev maxPos : Nat := 9223372036854775808

theorem parseKeyword_name {name : List Char} (h0 : name ≠ []) (h : ':' ∉ name) :
    parseKeyword name = some ⟨String.ofList name, 0, 1, 0⟩ := by
  cases name with
  | nil => exact absurd rfl h0
  | cons c t => simp [parseKeyword, splitOn_not_mem h]

theorem parseKeyword_positions {name rest : List Char} (h0 : name ≠ []) (h : ':' ∉ name) (hr : ':' ∉ rest) :
    parseKeyword (name ++ ':' :: rest) = parsePositions (String.ofList name) (splitOn ',' rest) := by
  cases name with
  | nil => exact absurd rfl h0
  | cons c t => rw [parseKeyword, splitOn_append _ h, splitOn_not_mem hr]; simp

theorem parseKeyword_id {name : List Char} {i : Nat} (h0 : name ≠ []) (h : ':' ∉ name) (hi : i < maxPos) :
    parseKeyword (name ++ ':' :: dec i) = some ⟨String.ofList name, 0, i, 0⟩ := by
  rw [parseKeyword_positions h0 h (colon_not_mem_dec i), splitOn_not_mem (comma_not_mem_dec i)]
  simp [parsePositions, dec, parseInt_toDigits hi]

theorem parseKeyword_id_plural {name : List Char} {i j : Nat} (h0 : name ≠ []) (h : ':' ∉ name)
    (hi : i < maxPos) (hj : j < maxPos) :
    parseKeyword (name ++ ':' :: (dec i ++ ',' :: dec j)) = some ⟨String.ofList name, 0, i, j⟩ := by
  rw [parseKeyword_positions h0 h (by simp [colon_not_mem_dec]),
    splitOn_append _ (comma_not_mem_dec i), splitOn_not_mem (comma_not_mem_dec j)]
  simp [parsePositions, dec, parseInt_toDigits hi, parseInt_toDigits hj, stripC_toDigits]

theorem parseKeyword_ctx_id {name : List Char} {i j : Nat} (h0 : name ≠ []) (h : ':' ∉ name)
    (hi : i < maxPos) (hj : j < maxPos) :
    parseKeyword (name ++ ':' :: (dec i ++ 'c' :: ',' :: dec j)) = some ⟨String.ofList name, i, j, 0⟩ := by
  have e : dec i ++ 'c' :: ',' :: dec j = (dec i ++ ['c']) ++ ',' :: dec j := by simp
  rw [parseKeyword_positions h0 h (by simp [colon_not_mem_dec]), e,
    splitOn_append _ (by simp [comma_not_mem_dec]), splitOn_not_mem (comma_not_mem_dec j)]
  simp only [parsePositions, stripC_snoc]
  simp [dec, parseInt_toDigits hi, parseInt_toDigits hj]

theorem parseKeyword_ctx_id_plural {name : List Char} {i j k : Nat} (h0 : name ≠ []) (h : ':' ∉ name)
    (hi : i < maxPos) (hj : j < maxPos) (hk : k < maxPos) :
    parseKeyword (name ++ ':' :: (dec i ++ 'c' :: ',' :: (dec j ++ ',' :: dec k))) =
      some ⟨String.ofList name, i, j, k⟩ := by
  have e : dec i ++ 'c' :: ',' :: (dec j ++ ',' :: dec k) = (dec i ++ ['c']) ++ ',' :: (dec j ++ ',' :: dec k) := by
    simp
  rw [parseKeyword_positions h0 h (by simp [colon_not_mem_dec]), e,
    splitOn_append _ (by simp [comma_not_mem_dec]), splitOn_append _ (comma_not_mem_dec j),
    splitOn_not_mem (comma_not_mem_dec k)]
  simp only [parsePositions, stripC_snoc]
  simp [dec, parseInt_toDigits hi, parseInt_toDigits hj, parseInt_toDigits hk]

/-- the flag is the `;`-separated list of its items -/
theorem parseKeywords_single {item : List Char} (h : ';' ∉ item) :
    parseKeywords (String.ofList item) = (parseKeyword item).map fun kw => [kw] := by
  simp only [parseKeywords, String.toList_ofList, splitOn_not_mem h, parseKeywordsL]
  cases parseKeyword item <;> rfl

theorem parseKeywords_cons {item rest : List Char} (h : ';' ∉ item) :
    parseKeywords (String.ofList (item ++ ';' :: rest)) =
      (parseKeyword item).bind fun kw => (parseKeywords (String.ofList rest)).map fun r => kw :: r := by
  simp only [parseKeywords, String.toList_ofList, splitOn_append _ h, parseKeywordsL]
  cases parseKeyword item with
  | none => rfl
  | some kw => cases parseKeywordsL (splitOn ';' rest) <;> rfl

/-- an empty function name is an error (so is an empty flag, a trailing or doubled `;`) -/
theorem parseKeyword_empty_name (rest : List Char) : parseKeyword (':' :: rest) = none := by
  simp only [parseKeyword, splitOn]
  cases h : splitOn ':' rest with
  | nil => simp
  | cons a t => cases t with
    | nil => simp
    | cons b u => cases u <;> simp



/-! ## `save`, `extractMany` -/

/-- as long as no entry has the header's key, `Save` writes the header followed by the merged entries -/
theorem save_eq_of_no_header_key {es : List Entry} (h : ∀ e ∈ es, ¬ (e.ctx = "" ∧ e.id = "")) :
    save es = (headerKey, PotEntry.header) ::
      (mergeBy Entry.goKey es).map (fun x => (x.1, PotEntry.msg x.2.1 x.2.2)) := by
  obtain ⟨hn, _, _⟩ := mergeBy_inv Entry.goKey es
  unfold save
  rw [foldl_potSet_fresh _ _ hn]
  · rfl
  · intro k hk
    obtain ⟨e, he, rfl⟩ := (mem_keys_mergeBy_iff Entry.goKey es k).1 hk
    simp only [List.map_cons, List.map_nil, List.mem_singleton]
    intro heq
    exact h e he ((goKey_eq_headerKey_iff e).1 heq)

theorem mem_extractMany_iff {kws : List Keyword} {x : Entry} :
    ∀ {ts : List ((Nat → Nat → Nat) × E)}, x ∈ extractMany kws ts ↔ ∃ t ∈ ts, x ∈ extract kws t.1 t.2
  | [] => by simp [extractMany]
  | (pos, e) :: ts => by simp [extractMany, mem_extractMany_iff (ts := ts)]

end XT
