import TplModel.Proofs.FsLoader
/-! # Duplicate names inside ONE file, at the level of the TREE (helper lemmas for `Props/C19dups.lean`)

`Proofs/FsLoader.lean` lists the `define`s of a tree as `EN.defSeq` (the pre-order in which `EN.addDefined` meets them) and
proves `EN.addFile_clash_err`: a clash among `name :: definedBy src` is `.err`.  Here the list is tied to POSITIONS in the
tree, so that "the tree contains two `define` elements named `n`" can be said about the tree:

* `EN.nodeAt p root` — the node reached by the child indices `p`; `p < q` (the lexicographic order of `List Nat`, a prefix
  first) is the pre-order in which `addDefinedTpl` visits the nodes;
* `EN.DefinesName cfg cx k n` / `EN.NameFailsAt cfg cx k` — `k` is a `define` element whose name evaluates to `n` / fails
  to evaluate (`definesName_iff`, `nameFailsAt_iff`: spelled out on the attribute);
* `EN.defSeqP` — `defSeq` with the path of every entry (`defSeqP_snd`); `defSeqP_split`: the entry of the node at `q` is
  preceded by exactly the entries at paths `< q` and followed by exactly those at paths `> q`; `defSeqP_mem`;
* `EN.seqBefore cfg cx root q`, `EN.namesBefore` — the `define`s (names) at paths `< q`; `defSeq_eq_before`,
  `mem_seqBefore`, `mem_namesBefore`;
* `EN.clash_at` — a `define` at `q` whose name is in the base or among `namesBefore`, nothing failing before `q`: the
  names are not `Fresh`; `EN.addFile_clash_at` — then `addFile` is `.err`;
* `FP.regPrefix_clash`, `FP.add_clash_at` — the abstract `Add` on the content of the text: `err duplicate`, and what stays
  registered is the file name and `namesBefore`.

Core-only. -/
namespace EN
open EV (Val FnSpec)
open RN (Node NodeD)

/-! ## positions -/

/-- the node reached from a node by a list of child indices -/
def nodeAt : List Nat → Node → Option Node
  | [], n => some n
  | i :: p, n => (n.kids[i]?).bind (nodeAt p)

theorem nodeAt_nil (n : Node) : nodeAt [] n = some n := rfl

theorem nodeAt_cons (i : Nat) (p : List Nat) (d : NodeD) (kids : List Node) (e : Option String) :
    nodeAt (i :: p) (.mk d kids e) = (kids[i]?).bind (nodeAt p) := rfl

/-- two different paths are ordered one way or the other -/
theorem path_lt_or_gt : ∀ {p q : List Nat}, p ≠ q → p < q ∨ q < p
  | [], [], h => absurd rfl h
  | [], _ :: _, _ => Or.inl (List.nil_lt_cons _ _)
  | _ :: _, [], _ => Or.inr (List.nil_lt_cons _ _)
  | i :: p, j :: q, h => by
    rw [List.cons_lt_cons_iff, List.cons_lt_cons_iff]
    rcases Nat.lt_trichotomy i j with hij | hij | hij
    · exact Or.inl (Or.inl hij)
    · subst hij
      have hpq : p ≠ q := fun hpq => h (by rw [hpq])
      rcases path_lt_or_gt hpq with h1 | h1
      · exact Or.inl (Or.inr ⟨rfl, h1⟩)
      · exact Or.inr (Or.inr ⟨rfl, h1⟩)
    · exact Or.inr (Or.inl hij)

theorem path_lt_irrefl (p : List Nat) : ¬ p < p := List.lt_irrefl p

theorem path_lt_asymm {p q : List Nat} (h : p < q) : ¬ q < p := List.lt_asymm h

/-! ## `define` elements -/

/-- `k` is a `define` element whose name evaluates to `n` (what `addDefinedTpl` registers, or finds taken) -/
def DefinesName (cfg : Cfg) (cx : Ctx) (k : Node) (n : String) : Prop := defNameOf cfg cx k.d k.kids = [some n]

/-- `k` is a `define` element whose name fails to evaluate (`addDefinedTpl` returns that error) -/
def NameFailsAt (cfg : Cfg) (cx : Ctx) (k : Node) : Prop := defNameOf cfg cx k.d k.kids = [none]

/-- the `define` attribute `addDefinedTpl` looks at -/
def defineAttr (cfg : Cfg) (d : NodeD) : Option RN.CAttr :=
  if d.kind == .tag then d.attrs.find? (fun a => a.name == cfg.attrPrefix ++ "define") else none

theorem defNameOf_eq (cfg : Cfg) (cx : Ctx) (d : NodeD) (kids : List Node) :
    defNameOf cfg cx d kids =
      match defineAttr cfg d with
      | none => []
      | some a =>
        match attrEvaluate cx a [emptyMap] with
        | (.error _, _) => [none]
        | (.ok nameS, lg) => if lg.contains unsupportedEv then [none] else [some nameS] := by
  unfold defNameOf defOf defineAttr
  cases hk : (d.kind == .tag)
  · simp [names]
  · simp only [if_true]
    cases hf : d.attrs.find? (fun a => a.name == cfg.attrPrefix ++ "define") with
    | none => simp [names]
    | some a =>
      simp only
      rcases hev : attrEvaluate cx a [emptyMap] with ⟨c | nameS, lg⟩
      · simp
      · simp only
        by_cases hu : lg.contains unsupportedEv = true
        · rw [if_pos hu, if_pos hu]
        · rw [if_neg hu, if_neg hu]; simp [names]

/-- **what "a `define` element named `n`" means**: a tag with a `define` attribute whose value evaluates, in the empty
    scope, to `n` (the model-only class "unsupported expression" counts as a failure) -/
theorem definesName_iff (cfg : Cfg) (cx : Ctx) (k : Node) (n : String) :
    DefinesName cfg cx k n ↔
      ∃ a lg, defineAttr cfg k.d = some a ∧ attrEvaluate cx a [emptyMap] = (.ok n, lg) ∧
        lg.contains unsupportedEv = false := by
  unfold DefinesName
  rw [defNameOf_eq]
  cases hd : defineAttr cfg k.d with
  | none => simp
  | some a =>
    simp only
    rcases hev : attrEvaluate cx a [emptyMap] with ⟨c | nameS, lg⟩
    · simp only
      constructor
      · intro h; cases h
      · rintro ⟨a', lg', h1, h2, _⟩
        cases h1
        rw [hev] at h2; cases h2
    · simp only
      by_cases hu : lg.contains unsupportedEv = true
      · rw [if_pos hu]
        constructor
        · intro h; cases h
        · rintro ⟨a', lg', h1, h2, h3⟩
          cases h1
          rw [hev] at h2; cases h2
          rw [hu] at h3; cases h3
      · rw [if_neg hu]
        constructor
        · intro h
          cases h
          exact ⟨a, lg, rfl, hev, by simpa using hu⟩
        · rintro ⟨a', lg', h1, h2, _⟩
          cases h1
          rw [hev] at h2; cases h2; rfl

theorem nameFailsAt_iff (cfg : Cfg) (cx : Ctx) (k : Node) :
    NameFailsAt cfg cx k ↔
      ∃ a, defineAttr cfg k.d = some a ∧
        ((∃ c lg, attrEvaluate cx a [emptyMap] = (.error c, lg)) ∨
         (∃ s lg, attrEvaluate cx a [emptyMap] = (.ok s, lg) ∧ lg.contains unsupportedEv = true)) := by
  unfold NameFailsAt
  rw [defNameOf_eq]
  cases hd : defineAttr cfg k.d with
  | none => simp
  | some a =>
    simp only
    rcases hev : attrEvaluate cx a [emptyMap] with ⟨c | nameS, lg⟩
    · simp only [true_iff]
      exact ⟨a, rfl, Or.inl ⟨c, lg, hev⟩⟩
    · simp only
      by_cases hu : lg.contains unsupportedEv = true
      · rw [if_pos hu]
        simp only [true_iff]
        exact ⟨a, rfl, Or.inr ⟨nameS, lg, hev, hu⟩⟩
      · rw [if_neg hu]
        constructor
        · intro h; cases h
        · rintro ⟨a', h1, ⟨c, lg', h2⟩ | ⟨s, lg', h2, h3⟩⟩
          · cases h1
            rw [hev] at h2; cases h2
          · cases h1
            rw [hev] at h2; cases h2
            exact absurd h3 hu

/-- a node contributes no entry, one name, or one failure -/
theorem defNameOf_cases (cfg : Cfg) (cx : Ctx) (d : NodeD) (kids : List Node) :
    defNameOf cfg cx d kids = [] ∨ (∃ n, defNameOf cfg cx d kids = [some n]) ∨ defNameOf cfg cx d kids = [none] := by
  rw [defNameOf_eq]
  cases defineAttr cfg d with
  | none => exact Or.inl rfl
  | some a =>
    simp only
    rcases attrEvaluate cx a [emptyMap] with ⟨c | nameS, lg⟩
    · exact Or.inr (Or.inr rfl)
    · simp only
      split
      · exact Or.inr (Or.inr rfl)
      · exact Or.inr (Or.inl ⟨_, rfl⟩)

/-! ## the `define`s of a tree with their paths -/

/-- an entry of `defSeq` with the path of its node -/
abbrev PEntry := List Nat × Option String

/-- push an entry of the `i`-th child up to the parent -/
def underChild (i : Nat) (e : PEntry) : PEntry := (i :: e.1, e.2)

/-- the entry of a node itself -/
def atHere (x : Option String) : PEntry := ([], x)

mutual
/-- `defSeq` with paths: the `define`s of a tree in the pre-order of `addDefined`, each with the path of its element -/
def defSeqP (cfg : Cfg) (cx : Ctx) : Node → List PEntry
  | .mk d kids _ => (defNameOf cfg cx d kids).map atHere ++ defSeqPL cfg cx 0 kids
/-- the same for the children `i, i+1, …` of a node -/
def defSeqPL (cfg : Cfg) (cx : Ctx) : Nat → List Node → List PEntry
  | _, [] => []
  | i, k :: ks => (defSeqP cfg cx k).map (underChild i) ++ defSeqPL cfg cx (i + 1) ks
end

/-- forgetting the paths gives `defSeq` -/
theorem defSeqP_snd (cfg : Cfg) (cx : Ctx) : ∀ n : Node, (defSeqP cfg cx n).map (·.2) = defSeq cfg cx n := by
  refine RN.Spec.Node.induct (PL := fun ks => ∀ i, (defSeqPL cfg cx i ks).map (·.2) = defSeqL cfg cx ks) ?_ ?_ ?_
  · intro d kids e ih
    rw [defSeqP, defSeq, List.map_append, ih 0, List.map_map]
    congr 1
    simp [Function.comp_def, atHere]
  · intro i; rfl
  · intro k ks ih1 ih2 i
    rw [defSeqPL, defSeqL, List.map_append, ih2 (i + 1), List.map_map, ← ih1]
    congr 1

/-- the entries of the children `i, i+1, …` sit at paths that start with an index `≥ i` -/
theorem defSeqPL_head (cfg : Cfg) (cx : Ctx) : ∀ (ks : List Node) (i : Nat) (e : PEntry),
    e ∈ defSeqPL cfg cx i ks → ∃ j p, e.1 = j :: p ∧ i ≤ j
  | [], _, _, h => by simp [defSeqPL] at h
  | k :: ks, i, e, h => by
    rw [defSeqPL, List.mem_append] at h
    rcases h with h | h
    · obtain ⟨e', _, rfl⟩ := List.mem_map.mp h
      exact ⟨i, e'.1, rfl, Nat.le_refl _⟩
    · obtain ⟨j, p, h1, h2⟩ := defSeqPL_head cfg cx ks (i + 1) e h
      exact ⟨j, p, h1, by omega⟩

/-- every entry is the entry of the node at its path -/
theorem defSeqP_mem (cfg : Cfg) (cx : Ctx) : ∀ (n : Node) (e : PEntry),
    e ∈ defSeqP cfg cx n → ∃ k, nodeAt e.1 n = some k ∧ e.2 ∈ defNameOf cfg cx k.d k.kids := by
  refine RN.Spec.Node.induct (PL := fun ks => ∀ (i : Nat) (e : PEntry), e ∈ defSeqPL cfg cx i ks →
    ∃ j p kk k, e.1 = (i + j) :: p ∧ ks[j]? = some kk ∧ nodeAt p kk = some k ∧ e.2 ∈ defNameOf cfg cx k.d k.kids) ?_ ?_ ?_
  · intro d kids en ih e h
    rw [defSeqP, List.mem_append] at h
    rcases h with h | h
    · obtain ⟨x, hx, rfl⟩ := List.mem_map.mp h
      exact ⟨_, rfl, hx⟩
    · obtain ⟨j, p, kk, k, h1, h2, h3, h4⟩ := ih 0 e h
      refine ⟨k, ?_, h4⟩
      rw [h1, Nat.zero_add, nodeAt_cons, h2]
      exact h3
  · intro i e h; simp [defSeqPL] at h
  · intro k0 ks ih1 ih2 i e h
    rw [defSeqPL, List.mem_append] at h
    rcases h with h | h
    · obtain ⟨e', he', rfl⟩ := List.mem_map.mp h
      obtain ⟨k, h1, h2⟩ := ih1 e' he'
      exact ⟨0, e'.1, k0, k, rfl, rfl, h1, h2⟩
    · obtain ⟨j, p, kk, k, h1, h2, h3, h4⟩ := ih2 (i + 1) e h
      exact ⟨j + 1, p, kk, k, by rw [h1]; congr 1; omega, by simpa using h2, h3, h4⟩

/-- **position of a node's entry.** The entry (if any) of the node at `q` is preceded by entries at paths `< q` only and
    followed by entries at paths `> q` only: `defSeqP` is in pre-order -/
theorem defSeqP_split (cfg : Cfg) (cx : Ctx) : ∀ (n : Node) (q : List Nat) (k : Node), nodeAt q n = some k →
    ∃ A C, defSeqP cfg cx n = A ++ (defNameOf cfg cx k.d k.kids).map (fun x => (q, x)) ++ C ∧
      (∀ e ∈ A, e.1 < q) ∧ (∀ e ∈ C, q < e.1) := by
  refine RN.Spec.Node.induct (PL := fun ks => ∀ (i j : Nat) (q : List Nat) (kk k : Node),
    ks[j]? = some kk → nodeAt q kk = some k →
    ∃ A C, defSeqPL cfg cx i ks = A ++ (defNameOf cfg cx k.d k.kids).map (fun x => ((i + j) :: q, x)) ++ C ∧
      (∀ e ∈ A, e.1 < (i + j) :: q) ∧ (∀ e ∈ C, (i + j) :: q < e.1)) ?_ ?_ ?_
  · intro d kids en ih q k h
    cases q with
    | nil =>
      rw [nodeAt_nil] at h
      cases h
      refine ⟨[], defSeqPL cfg cx 0 kids, by rw [defSeqP]; rfl, by simp, ?_⟩
      intro e he
      obtain ⟨j, p, h1, _⟩ := defSeqPL_head cfg cx kids 0 e he
      rw [h1]
      exact List.nil_lt_cons _ _
    | cons i q =>
      rw [nodeAt_cons] at h
      cases hk : kids[i]? with
      | none => rw [hk] at h; cases h
      | some kk =>
        rw [hk] at h
        obtain ⟨A, C, h1, h2, h3⟩ := ih 0 i q kk k hk h
        rw [Nat.zero_add] at h1 h2 h3
        refine ⟨(defNameOf cfg cx d kids).map atHere ++ A, C, by rw [defSeqP, h1]; simp, ?_, h3⟩
        intro e he
        rcases List.mem_append.mp he with he | he
        · obtain ⟨x, _, rfl⟩ := List.mem_map.mp he
          exact List.nil_lt_cons _ _
        · exact h2 e he
  · intro i j q kk k h; simp at h
  · intro k0 ks ih1 ih2 i j q kk k hj hq
    cases j with
    | zero =>
      simp only [List.getElem?_cons_zero, Option.some.injEq] at hj
      subst hj
      obtain ⟨A, C, h1, h2, h3⟩ := ih1 q k hq
      refine ⟨A.map (underChild i), C.map (underChild i) ++ defSeqPL cfg cx (i + 1) ks, ?_, ?_, ?_⟩
      · rw [defSeqPL, h1]
        simp [underChild, Function.comp_def]
      · intro e he
        obtain ⟨e', he', rfl⟩ := List.mem_map.mp he
        exact List.cons_lt_cons_iff.mpr (Or.inr ⟨rfl, h2 e' he'⟩)
      · intro e he
        rcases List.mem_append.mp he with he | he
        · obtain ⟨e', he', rfl⟩ := List.mem_map.mp he
          exact List.cons_lt_cons_iff.mpr (Or.inr ⟨rfl, h3 e' he'⟩)
        · obtain ⟨j', p, h4, h5⟩ := defSeqPL_head cfg cx ks (i + 1) e he
          rw [h4]
          exact List.cons_lt_cons_iff.mpr (Or.inl (by omega))
    | succ j =>
      simp only [List.getElem?_cons_succ] at hj
      obtain ⟨A, C, h1, h2, h3⟩ := ih2 (i + 1) j q kk k hj hq
      have hij : i + 1 + j = i + (j + 1) := by omega
      rw [hij] at h1 h2 h3
      refine ⟨(defSeqP cfg cx k0).map (underChild i) ++ A, C, by rw [defSeqPL, h1]; simp, ?_, h3⟩
      intro e he
      rcases List.mem_append.mp he with he | he
      · obtain ⟨e', _, rfl⟩ := List.mem_map.mp he
        exact List.cons_lt_cons_iff.mpr (Or.inl (by omega))
      · exact h2 e he

/-! ## what comes before a position -/

/-- the `define`s at paths `< q` (strictly before `q` in pre-order), in order: `some name`, or `none` for a failing name -/
def seqBefore (cfg : Cfg) (cx : Ctx) (root : Node) (q : List Nat) : List (Option String) :=
  ((defSeqP cfg cx root).filter (fun e => decide (e.1 < q))).map (·.2)

/-- the names `addDefinedTpl` has met when it arrives at `q` (those in front of the first failing name) -/
def namesBefore (cfg : Cfg) (cx : Ctx) (root : Node) (q : List Nat) : List String :=
  FP.definedNames (seqBefore cfg cx root q)

/-- **`defSeq` around a position**: the `define`s before `q`, the entry of the node at `q`, the rest -/
theorem defSeq_eq_before (cfg : Cfg) (cx : Ctx) (root : Node) (q : List Nat) (k : Node) (h : nodeAt q root = some k) :
    ∃ C, defSeq cfg cx root = seqBefore cfg cx root q ++ defNameOf cfg cx k.d k.kids ++ C := by
  obtain ⟨A, C, h1, h2, h3⟩ := defSeqP_split cfg cx root q k h
  refine ⟨C.map (·.2), ?_⟩
  have hA : A.filter (fun e => decide (e.1 < q)) = A :=
    List.filter_eq_self.mpr (fun e he => by simpa using h2 e he)
  have hX : ((defNameOf cfg cx k.d k.kids).map (fun x => (q, x))).filter (fun e : PEntry => decide (e.1 < q)) = [] :=
    List.filter_eq_nil_iff.mpr (fun e he => by
      obtain ⟨x, _, rfl⟩ := List.mem_map.mp he
      simp)
  have hC : C.filter (fun e => decide (e.1 < q)) = [] :=
    List.filter_eq_nil_iff.mpr (fun e he => by simpa using path_lt_asymm (h3 e he))
  rw [← defSeqP_snd, seqBefore, h1, List.filter_append, List.filter_append, hA, hX, hC]
  simp [Function.comp_def]

/-- an entry comes before `q` iff it is the entry of a node at a path `< q` -/
theorem mem_seqBefore (cfg : Cfg) (cx : Ctx) (root : Node) (q : List Nat) (x : Option String) :
    x ∈ seqBefore cfg cx root q ↔
      ∃ r k, r < q ∧ nodeAt r root = some k ∧ defNameOf cfg cx k.d k.kids = [x] := by
  unfold seqBefore
  rw [List.mem_map]
  constructor
  · rintro ⟨e, he, rfl⟩
    rw [List.mem_filter] at he
    obtain ⟨k, h1, h2⟩ := defSeqP_mem cfg cx root e he.1
    refine ⟨e.1, k, by simpa using he.2, h1, ?_⟩
    rcases defNameOf_cases cfg cx k.d k.kids with h | ⟨n, h⟩ | h <;> rw [h] at h2 ⊢ <;> simp at h2 <;> rw [h2]
  · rintro ⟨r, k, h1, h2, h3⟩
    obtain ⟨A, C, h4, _, _⟩ := defSeqP_split cfg cx root r k h2
    refine ⟨(r, x), List.mem_filter.mpr ⟨?_, by simpa using h1⟩, rfl⟩
    rw [h4, h3]
    simp

/-- an entry of `defSeq` is the entry of some node of the tree, and conversely -/
theorem mem_defSeq (cfg : Cfg) (cx : Ctx) (root : Node) (x : Option String) :
    x ∈ defSeq cfg cx root ↔ ∃ r k, nodeAt r root = some k ∧ defNameOf cfg cx k.d k.kids = [x] := by
  rw [← defSeqP_snd, List.mem_map]
  constructor
  · rintro ⟨e, he, rfl⟩
    obtain ⟨k, h1, h2⟩ := defSeqP_mem cfg cx root e he
    refine ⟨e.1, k, h1, ?_⟩
    rcases defNameOf_cases cfg cx k.d k.kids with h | ⟨n, h⟩ | h <;> rw [h] at h2 ⊢ <;> simp at h2 <;> rw [h2]
  · rintro ⟨r, k, h2, h3⟩
    obtain ⟨A, C, h4, _, _⟩ := defSeqP_split cfg cx root r k h2
    refine ⟨(r, x), ?_, rfl⟩
    rw [h4, h3]
    simp

theorem seqBefore_subset (cfg : Cfg) (cx : Ctx) (root : Node) (q : List Nat) (x : Option String)
    (h : x ∈ seqBefore cfg cx root q) : x ∈ defSeq cfg cx root := by
  obtain ⟨r, k, _, h2, h3⟩ := (mem_seqBefore cfg cx root q x).mp h
  exact (mem_defSeq cfg cx root x).mpr ⟨r, k, h2, h3⟩

/-- nothing fails before `q` iff no node at a path `< q` is a `define` whose name fails -/
theorem none_not_mem_seqBefore (cfg : Cfg) (cx : Ctx) (root : Node) (q : List Nat) :
    none ∉ seqBefore cfg cx root q ↔ ∀ r k, r < q → nodeAt r root = some k → ¬ NameFailsAt cfg cx k := by
  rw [mem_seqBefore]
  constructor
  · intro h r k h1 h2 h3; exact h ⟨r, k, h1, h2, h3⟩
  · rintro h ⟨r, k, h1, h2, h3⟩; exact h r k h1 h2 h3

theorem mem_definedNames_of_no_none {l : List (Option String)} (h : none ∉ l) (n : String) :
    n ∈ FP.definedNames l ↔ some n ∈ l := by
  induction l with
  | nil => simp [FP.definedNames]
  | cons d l ih =>
    cases d with
    | none => simp at h
    | some d =>
      have h' : none ∉ l := fun hm => h (List.mem_cons_of_mem _ hm)
      simp [FP.definedNames, ih h']

/-- when nothing fails before `q`: the names before `q` are the names of the `define` elements at paths `< q` -/
theorem mem_namesBefore (cfg : Cfg) (cx : Ctx) (root : Node) (q : List Nat) (hev : none ∉ seqBefore cfg cx root q)
    (n : String) :
    n ∈ namesBefore cfg cx root q ↔ ∃ r k, r < q ∧ nodeAt r root = some k ∧ DefinesName cfg cx k n := by
  unfold namesBefore
  rw [mem_definedNames_of_no_none hev, mem_seqBefore]
  rfl

/-- the names `addDefinedTpl` meets, as far as the position `q` of a `define` named `n` -/
theorem definedNames_defSeq_at (cfg : Cfg) (cx : Ctx) (root : Node) (q : List Nat) (k : Node) (n : String)
    (hq : nodeAt q root = some k) (hn : DefinesName cfg cx k n) (hev : none ∉ seqBefore cfg cx root q) :
    ∃ C, FP.definedNames (defSeq cfg cx root) = namesBefore cfg cx root q ++ n :: C := by
  obtain ⟨C, hC⟩ := defSeq_eq_before cfg cx root q k hq
  refine ⟨FP.definedNames C, ?_⟩
  rw [hC, hn, List.append_assoc, FP.definedNames_append_of_not_mem hev]
  rfl

/-- **the clash.** A `define` at `q` named `n`, nothing failing before `q`, and `n` is taken — in the base (earlier files,
    their fragments, the name of this file) or by a `define` before `q` in this tree: the names are not `Fresh` -/
theorem clash_at (cfg : Cfg) (cx : Ctx) (root : Node) (q : List Nat) (k : Node) (n : String) (base : List String)
    (hq : nodeAt q root = some k) (hn : DefinesName cfg cx k n) (hev : none ∉ seqBefore cfg cx root q)
    (hclash : n ∈ base ∨ n ∈ namesBefore cfg cx root q) :
    ¬ Fresh base (FP.definedNames (defSeq cfg cx root)) := by
  obtain ⟨C, hC⟩ := definedNames_defSeq_at cfg cx root q k n hq hn hev
  rw [hC, Fresh_iff]
  rintro ⟨h1, h2⟩
  rcases hclash with h | h
  · exact h2 n (by simp) h
  · rw [List.nodup_append] at h1
    exact h1.2.2 n h n (by simp) rfl

/-- two `define` elements named `n` at different positions, nothing failing before the later one: `n` is among the names
    before the later one -/
theorem mem_namesBefore_of_two (cfg : Cfg) (cx : Ctx) (root : Node) {p q : List Nat} {kp : Node} {n : String}
    (hpq : p < q) (hp : nodeAt p root = some kp) (hnp : DefinesName cfg cx kp n)
    (hev : none ∉ seqBefore cfg cx root q) : n ∈ namesBefore cfg cx root q :=
  (mem_namesBefore cfg cx root q hev n).mpr ⟨p, kp, hpq, hp, hnp⟩

/-! ## `addFile` -/

theorem definedBy_of_parsed {cfg : Cfg} {fns : List (String × FnSpec)} {src : String} {root : Node} {E : Tbl}
    (h : parsed cfg src = some (root, E)) :
    definedBy cfg fns src = FP.definedNames (defSeq cfg ⟨E, fns⟩ root) := by
  unfold definedBy defsOf
  simp only [h]
  exact definedNames_upToNone _

theorem parses_of_parsed {cfg : Cfg} {src : String} {root : Node} {E : Tbl} (h : parsed cfg src = some (root, E)) :
    parses cfg src = true := by simp [parses, h]

theorem nameFails_of_parsed {cfg : Cfg} {fns : List (String × FnSpec)} {src : String} {root : Node} {E : Tbl}
    (h : parsed cfg src = some (root, E)) :
    nameFails cfg fns src = true ↔ none ∈ defSeq cfg ⟨E, fns⟩ root := by
  unfold nameFails defsOf
  simp only [h]
  rw [← none_mem_upToNone]
  simp

/-- **`addFile` meets a taken name at `q`.** The text parses to `root`; the element at `q` is a `define` named `n`; no
    `define` before `q` has a failing name; `n` is taken by the registry of `m`, by the file name, or by a `define` before
    `q`.  Then `addFile` is `.err`. -/
theorem addFile_clash_at (cfg : Cfg) (fns : List (String × FnSpec)) (i : Nat) (name src : String) (m : Mgr)
    {root : Node} {E : Tbl} (hp : parsed cfg src = some (root, E)) (q : List Nat) (k : Node) (n : String)
    (hq : nodeAt q root = some k) (hn : DefinesName cfg ⟨E, fns⟩ k n)
    (hev : none ∉ seqBefore cfg ⟨E, fns⟩ root q)
    (hclash : n ∈ names m.templates ∨ n = name ∨ n ∈ namesBefore cfg ⟨E, fns⟩ root q) :
    addFile cfg fns i name src m = .err := by
  apply addFile_clash_err cfg fns i name src m (parses_of_parsed hp)
  rintro ⟨h1, h2⟩
  rw [definedBy_of_parsed hp] at h2
  refine clash_at cfg ⟨E, fns⟩ root q k n (names m.templates ++ [name]) hq hn hev ?_ h2
  rcases hclash with h | h | h
  · exact Or.inl (List.mem_append_left _ h)
  · exact Or.inl (List.mem_append_right _ (by simp [h]))
  · exact Or.inr h

end EN

namespace FP
open EN (Fresh names)

/-- `regPrefix` stops in front of the first taken name -/
theorem regPrefix_clash (base a : List String) (n : String) (c : List String) (hf : Fresh base a)
    (hn : n ∈ base ∨ n ∈ a) : regPrefix base (a ++ n :: c) = a := by
  induction a generalizing base with
  | nil =>
    have : n ∈ base := by simpa using hn
    simp [regPrefix, this]
  | cons d a ih =>
    obtain ⟨h1, h2⟩ := hf
    rw [List.cons_append, regPrefix, if_neg h1, ih (base ++ [d]) h2]
    rcases hn with h | h
    · exact Or.inl (List.mem_append_left _ h)
    · rcases List.mem_cons.mp h with rfl | h
      · exact Or.inl (by simp)
      · exact Or.inr h

/-- **the abstract `Add` meets a taken name at `q`** (from ANY registry `s`): the duplicate-name error -/
theorem add_dup_at (cfg : EN.Cfg) (fns : List (String × EV.FnSpec)) (s : State) (name src : String)
    {root : RN.Node} {E : EN.Tbl} (hp : EN.parsed cfg src = some (root, E)) (q : List Nat) (k : RN.Node) (n : String)
    (hq : EN.nodeAt q root = some k) (hn : EN.DefinesName cfg ⟨E, fns⟩ k n)
    (hev : none ∉ EN.seqBefore cfg ⟨E, fns⟩ root q)
    (hclash : n ∈ s.templates ∨ n = name ∨ n ∈ EN.namesBefore cfg ⟨E, fns⟩ root q) :
    (add s name (contentOf cfg fns src)).1 = .err .duplicate := by
  rw [add_err_kind]
  by_cases hfree : name ∈ s.templates
  · rw [if_pos hfree]
  · rw [if_neg hfree, if_neg (by simp [EN.parses_of_parsed hp]), if_neg]
    rintro ⟨_, h2⟩
    refine EN.clash_at cfg ⟨E, fns⟩ root q k n _ hq hn hev ?_ (EN.definedBy_of_parsed hp ▸ h2)
    rcases hclash with h | h | h
    · exact Or.inl (List.mem_append_left _ h)
    · exact Or.inl (List.mem_append_right _ (by simp [h]))
    · exact Or.inr h

/-- **the abstract `Add` on a text whose FIRST clash is at `q`.**  The file name is free, the text parses to `root`, the
    element at `q` is a `define` named `n`, no name fails before `q`, the names before `q` are fresh on top of the registry
    and the file name, and `n` is taken (registry, file name, or a `define` before `q`).  Then `Add` returns the
    duplicate-name error, and the registry is the old one plus the file name plus the names before `q`: the file and the
    earlier fragments STAY registered, nothing from `q` on is registered. -/
theorem add_clash_at (cfg : EN.Cfg) (fns : List (String × EV.FnSpec)) (s : State) (name src : String)
    {root : RN.Node} {E : EN.Tbl} (hp : EN.parsed cfg src = some (root, E)) (q : List Nat) (k : RN.Node) (n : String)
    (hq : EN.nodeAt q root = some k) (hn : EN.DefinesName cfg ⟨E, fns⟩ k n)
    (hev : none ∉ EN.seqBefore cfg ⟨E, fns⟩ root q)
    (hfree : name ∉ s.templates)
    (hfresh : Fresh (s.templates ++ [name]) (EN.namesBefore cfg ⟨E, fns⟩ root q))
    (hclash : n ∈ s.templates ∨ n = name ∨ n ∈ EN.namesBefore cfg ⟨E, fns⟩ root q) :
    (add s name (contentOf cfg fns src)).1 = .err .duplicate ∧
    (add s name (contentOf cfg fns src)).2.templates =
      s.templates ++ name :: EN.namesBefore cfg ⟨E, fns⟩ root q ∧
    (add s name (contentOf cfg fns src)).2.files = s.files ++ [name] := by
  obtain ⟨C, hC⟩ := EN.definedNames_defSeq_at cfg ⟨E, fns⟩ root q k n hq hn hev
  have hclash' : n ∈ s.templates ++ [name] ∨ n ∈ EN.namesBefore cfg ⟨E, fns⟩ root q := by
    rcases hclash with h | h | h
    · exact Or.inl (List.mem_append_left _ h)
    · exact Or.inl (List.mem_append_right _ (by simp [h]))
    · exact Or.inr h
  have hdb : EN.definedBy cfg fns src = EN.namesBefore cfg ⟨E, fns⟩ root q ++ n :: C := by
    rw [EN.definedBy_of_parsed hp, hC]
  have hpar : EN.parses cfg src = true := EN.parses_of_parsed hp
  refine ⟨?_, ?_, ?_⟩
  · rw [add_err_kind, if_neg hfree, if_neg (by simp [hpar]), if_neg]
    rintro ⟨_, h2⟩
    exact EN.clash_at cfg ⟨E, fns⟩ root q k n _ hq hn hev hclash' (EN.definedBy_of_parsed hp ▸ h2)
  · rw [(add_state s name _).1, if_neg (by simp [hfree, contentOf, hpar]), contentOf_names, hdb,
      regPrefix_clash _ _ _ _ hfresh hclash']
  · rw [(add_state s name _).2.1, if_neg (by simp [hfree, contentOf, hpar])]

end FP
