import TplModel.Exp.Eval
import TplModel.Exp.OpsPure
/-! # Helper lemmas about the total evaluator `EV.eval` (C12)

`M = StateT St (Except Unit)`: a run `m st` is `.error ()` (Go panic, recovered by `Evaluate`) or `.ok (value, st')`.
This file provides

* the run equations of the primitive actions and of `>>=`;
* `Resp R m`: "every normally-returning run of `m` relates the initial and the final state by `R`", for the three
  preorders `RN` (call log untouched, recorded error kept), `RM` (recorded error kept, call log only grows) and
  `RQ` (once an error is recorded: error kept and call log untouched) and their conjunction `RS`, with the closure
  lemmas;
* `Resp` facts for every operator / step function of `Eval.lean`;
* the stickiness of `eval` (`eval_of_err`), `eval_mono`, `eval_quiet`;
* the big-step decomposition equations `eval_*_eq` (from a state without recorded error);
* `unOp_int` / `eval_un_int`: the unary cases agree with the pure restatement `intUn` of `OpsPure.lean` (this was
  not statable while `eval` was a `partial def`).

Headline theorems: `TplModel/Props/C12eval.lean`. -/
namespace EV
open EL (E)

/-! ## run equations -/

theorem bind_apply {α β} (m : M α) (k : α → M β) (st : St) :
    (m >>= k) st = match m st with | .ok (a, s) => k a s | .error e => .error e := by
  show (StateT.bind m k) st = _
  unfold StateT.bind
  show (m st >>= _) = _
  cases m st with
  | error e => rfl
  | ok p => cases p; rfl

theorem bind_apply_ok {α β} {m : M α} {k : α → M β} {st s : St} {a : α} (h : m st = .ok (a, s)) :
    (m >>= k) st = k a s := by
  rw [bind_apply, h]

theorem bind_apply_error {α β} {m : M α} {k : α → M β} {st : St} (h : m st = .error ()) :
    (m >>= k) st = .error () := by
  rw [bind_apply, h]

theorem pure_apply {α} (a : α) (st : St) : (pure a : M α) st = .ok (a, st) := rfl
theorem goPanic_apply (st : St) : goPanic st = .error () := rfl
theorem setErr_apply (s n : Bool) (st : St) :
    setErr s n st = .ok (.nil, if st.err.isSome then st else { st with err := some ⟨s, n⟩ }) := rfl
theorem unsupp_apply (st : St) : unsupp st = .ok (.nil, { st with unsupported := true, err := if st.err.isSome then st.err else some ⟨false, false⟩ }) := rfl
theorem logCall_apply (c : String) (st : St) : logCall c st = .ok ((), { st with calls := c :: st.calls }) := rfl
theorem hasErr_apply (st : St) : hasErr st = .ok (st.err.isSome, st) := rfl

/-- `SetError` when an error is already recorded: nothing happens (the FIRST error is kept) -/
theorem setErr_of_err {s n : Bool} {st : St} {x : Err} (h : st.err = some x) : setErr s n st = .ok (.nil, st) := by
  rw [setErr_apply]; simp [h]

/-- `SetError` on a clean state records exactly this error -/
theorem setErr_of_ok {s n : Bool} {st : St} (h : st.err = none) :
    setErr s n st = .ok (.nil, { st with err := some ⟨s, n⟩ }) := by
  rw [setErr_apply]; simp [h]

theorem guardErr_err {m : M Val} {st : St} {x : Err} (h : st.err = some x) : guardErr m st = .ok (.nil, st) := by
  unfold guardErr
  rw [bind_apply, hasErr_apply]
  simp [h, pure_apply]

theorem guardErr_ok {m : M Val} {st : St} (h : st.err = none) : guardErr m st = m st := by
  unfold guardErr
  rw [bind_apply, hasErr_apply]
  simp [h]

/-! ## state relations respected by runs -/

/-- every normal return of `m` relates initial and final state by `R` (panics are not constrained: the whole
    evaluation is then reported as a failure by `Evaluate`'s recover) -/
def Resp {α} (R : St → St → Prop) (m : M α) : Prop := ∀ st r s, m st = .ok (r, s) → R st s

/-- no user function was called, a recorded error is kept -/
def RN (st s : St) : Prop := s.calls = st.calls ∧ ∀ x, st.err = some x → s.err = some x
/-- a recorded error is kept (never cleared, never replaced); the call log only grows -/
def RM (st s : St) : Prop := (∀ x, st.err = some x → s.err = some x) ∧ st.calls <:+ s.calls
/-- once an error is recorded: it is kept and no user function is called any more -/
def RQ (st s : St) : Prop := ∀ x, st.err = some x → s.err = some x ∧ s.calls = st.calls

/-- preorders on states that contain `RN` -/
structure Good (R : St → St → Prop) : Prop where
  refl : ∀ s, R s s
  trans : ∀ {a b c}, R a b → R b c → R a c
  ofN : ∀ {a b}, RN a b → R a b

theorem RN.good : Good RN where
  refl _ := ⟨rfl, fun _ h => h⟩
  trans h1 h2 := ⟨h2.1.trans h1.1, fun x hx => h2.2 x (h1.2 x hx)⟩
  ofN h := h

theorem RM.good : Good RM where
  refl _ := ⟨fun _ h => h, List.suffix_refl _⟩
  trans h1 h2 := ⟨fun x hx => h2.1 x (h1.1 x hx), h1.2.trans h2.2⟩
  ofN h := ⟨h.2, by rw [h.1]; exact List.suffix_refl _⟩

theorem RQ.good : Good RQ where
  refl _ := fun _ h => ⟨h, rfl⟩
  trans h1 h2 := fun x hx => ⟨(h2 x (h1 x hx).1).1, (h2 x (h1 x hx).1).2.trans (h1 x hx).2⟩
  ofN h := fun x hx => ⟨h.2 x hx, h.1⟩

/-- both: a recorded error is kept, the call log only grows, and it is frozen once an error is recorded -/
def RS (st s : St) : Prop := RM st s ∧ RQ st s

theorem RS.good : Good RS where
  refl s := ⟨RM.good.refl s, RQ.good.refl s⟩
  trans h1 h2 := ⟨RM.good.trans h1.1 h2.1, RQ.good.trans h1.2 h2.2⟩
  ofN h := ⟨RM.good.ofN h, RQ.good.ofN h⟩

section closure
variable {R : St → St → Prop}

theorem Resp.pure {α} (hR : Good R) (a : α) : Resp R (pure a : M α) := by
  intro st r s h; rw [pure_apply] at h; cases h; exact hR.refl _

theorem Resp.goPanic : Resp R goPanic := by
  intro st r s h; rw [goPanic_apply] at h; cases h

theorem Resp.bind {α β} (hR : Good R) {m : M α} {k : α → M β} (hm : Resp R m) (hk : ∀ a, Resp R (k a)) :
    Resp R (m >>= k) := by
  intro st r s h
  rw [bind_apply] at h
  cases hm' : m st with
  | error e => rw [hm'] at h; cases h
  | ok p =>
    obtain ⟨a, s1⟩ := p
    rw [hm'] at h
    exact hR.trans (hm _ _ _ hm') (hk a _ _ _ h)

theorem Resp.ofN {α} (hR : Good R) {m : M α} (h : Resp RN m) : Resp R m :=
  fun st r s hs => hR.ofN (h st r s hs)

theorem Resp.setErrN (a b : Bool) : Resp RN (setErr a b) := by
  intro st r s h
  rw [setErr_apply] at h
  cases h
  cases hst : st.err with
  | none => exact ⟨by simp, fun x hx => by rw [hst] at hx; cases hx⟩
  | some e => simp; exact RN.good.refl _

theorem Resp.unsuppN : Resp RN unsupp := by
  intro st r s h
  rw [unsupp_apply] at h
  cases h
  exact ⟨rfl, fun _ hx => by simp [hx]⟩

theorem Resp.setErr (hR : Good R) (a b : Bool) : Resp R (setErr a b) := Resp.ofN hR (Resp.setErrN a b)
theorem Resp.unsupp (hR : Good R) : Resp R unsupp := Resp.ofN hR Resp.unsuppN

theorem Resp.hasErr (hR : Good R) : Resp R hasErr := by
  intro st r s h; rw [hasErr_apply] at h; cases h; exact hR.refl _

theorem Resp.guardErr (hR : Good R) {m : M Val} (hm : Resp R m) : Resp R (guardErr m) := by
  intro st r s h
  cases hst : st.err with
  | none => rw [guardErr_ok hst] at h; exact hm _ _ _ h
  | some x => rw [guardErr_err hst] at h; cases h; exact hR.refl _

end closure

theorem Resp.logCallM (c : String) : Resp RM (logCall c) := by
  intro st r s h
  rw [logCall_apply] at h
  cases h
  exact ⟨fun _ hx => hx, List.suffix_cons _ _⟩

/-- discharge `Resp R (…)` goals for bodies built from `pure`, `setErr`, `unsupp`, `goPanic`, `>>=`, `if`, `match` -/
macro "resp_tac" hR:term : tactic =>
  `(tactic| repeat' (first
      | exact Resp.pure $hR _
      | exact Resp.setErr $hR _ _
      | exact Resp.unsupp $hR
      | exact Resp.goPanic
      | (refine Resp.bind $hR ?_ (fun _ => ?_))
      | (dsimp only)
      | split))

/-! ## operators never call user functions and never clear an error -/

theorem lookRes_resp (l : Look) : Resp RN (lookRes l) := by
  unfold lookRes; resp_tac RN.good

theorem unOp_resp (op : String) (v : Val) : Resp RN (unOp op v) := by
  unfold unOp; resp_tac RN.good

theorem logOp_resp (f : Bool → Bool → Bool) (a b : Val) : Resp RN (logOp f a b) := by
  unfold logOp; resp_tac RN.good

theorem numBin_resp (op : String) (a b : Val) : Resp RN (numBin op a b) := by
  unfold numBin; resp_tac RN.good

theorem intBin_resp (op : String) (a b : Val) : Resp RN (intBin op a b) := by
  unfold intBin; resp_tac RN.good

theorem relOp_resp (fns : List (String × FnSpec)) (op : String) (a b : Val) : Resp RN (relOp fns op a b) := by
  unfold relOp; resp_tac RN.good

theorem binOp_resp (fns : List (String × FnSpec)) (op : String) (a b : Val) : Resp RN (binOp fns op a b) := by
  unfold binOp
  repeat' (first
    | exact numBin_resp _ _ _ | exact intBin_resp _ _ _ | exact relOp_resp _ _ _ _
    | exact Resp.pure RN.good _ | exact Resp.unsupp RN.good | split)

theorem indexOp_resp (pv iv : Val) : Resp RN (indexOp pv iv) := by
  unfold indexOp
  repeat' (first | exact lookRes_resp _ | exact Resp.setErr RN.good _ _ | split)

theorem evalLit_resp (k t : String) : Resp RN (evalLit k t) := by
  unfold evalLit
  repeat' (first
    | (refine Resp.guardErr RN.good ?_) | exact Resp.pure RN.good _ | exact Resp.unsupp RN.good
    | exact Resp.goPanic | split)

/-! ## step functions: parametric in what the sub-evaluations respect -/

section steps
variable {R : St → St → Prop}

theorem andStep_resp (hR : Good R) (a : Val) {mr : M Val} (hr : Resp R mr) : Resp R (andStep a mr) := by
  unfold andStep
  split
  · exact Resp.pure hR _
  · exact Resp.bind hR hr (fun _ => Resp.ofN hR (logOp_resp _ _ _))

theorem orStep_resp (hR : Good R) (a : Val) {mr : M Val} (hr : Resp R mr) : Resp R (orStep a mr) := by
  unfold orStep
  split
  · exact Resp.pure hR _
  · exact Resp.bind hR hr (fun _ => Resp.ofN hR (logOp_resp _ _ _))

theorem binStep_resp (hR : Good R) (fns : List (String × FnSpec)) (op : String) {ml mr : M Val}
    (hl : Resp R ml) (hr : Resp R mr) : Resp R (binStep fns op ml mr) := by
  unfold binStep
  split
  · exact Resp.bind hR hl (fun a => andStep_resp hR a hr)
  · split
    · exact Resp.bind hR hl (fun a => orStep_resp hR a hr)
    · exact Resp.bind hR hl (fun a => Resp.bind hR hr (fun b => Resp.ofN hR (binOp_resp fns op a b)))

theorem condStep_resp (hR : Good R) (c : Val) {ma mb : M Val} (ha : Resp R ma) (hb : Resp R mb) :
    Resp R (condStep c ma mb) := by
  unfold condStep
  split
  · exact ha
  · exact hb
  · exact Resp.setErr hR _ _

theorem sliceStep_resp (hR : Good R) (pv : Val) {glo ghi gcap : Int → M (Option Int)} (hasCap : Bool)
    (hlo : ∀ d, Resp R (glo d)) (hhi : ∀ d, Resp R (ghi d)) (hcap : ∀ d, Resp R (gcap d)) :
    Resp R (sliceStep pv glo ghi gcap hasCap) := by
  unfold sliceStep
  repeat' (first
    | exact hlo _ | exact hhi _ | exact hcap _
    | exact Resp.pure hR _ | exact Resp.setErr hR _ _ | exact Resp.unsupp hR | exact Resp.goPanic
    | (refine Resp.bind hR ?_ (fun _ => ?_))
    | (dsimp only)
    | split)

end steps

/-- a call may log (only grows the call log) and never clears an error -/
theorem invoke_resp (fns : List (String × FnSpec)) (pv : Val) (vs : List Val) : Resp RM (invoke fns pv vs) := by
  unfold invoke
  repeat' (first
    | exact Resp.logCallM _
    | exact Resp.pure RM.good _ | exact Resp.setErr RM.good _ _ | exact Resp.unsupp RM.good | exact Resp.goPanic
    | (refine Resp.bind RM.good ?_ (fun _ => ?_))
    | (dsimp only)
    | split)

theorem callFinish_resp (fns : List (String × FnSpec)) (pv : Val) (vs : List Val) (ell : Bool) :
    Resp RM (callFinish fns pv vs ell) := by
  unfold callFinish
  repeat' (first | exact invoke_resp _ _ _ | exact Resp.setErr RM.good _ _ | split)

theorem callStep_resp (fns : List (String × FnSpec)) (pv : Val) (noArgs ell : Bool) {margs : M (List Val)}
    (hargs : Resp RM margs) : Resp RM (callStep fns pv noArgs ell margs) := by
  unfold callStep
  repeat' (first
    | exact callFinish_resp _ _ _ _ | exact hargs | exact Resp.hasErr RM.good
    | exact Resp.pure RM.good _ | exact Resp.setErr RM.good _ _
    | (refine Resp.bind RM.good ?_ (fun _ => ?_))
    | (dsimp only)
    | split)

/-- a failed callee expression: the call step returns nil at once: nothing is looked up, no argument is
    evaluated, nothing is called (`VisitPrimaryExpr` re-checks the error right after the primary expression) -/
theorem callStep_of_err (fns : List (String × FnSpec)) (pv : Val) (noArgs ell : Bool) (margs : M (List Val))
    {st : St} {x : Err} (h : st.err = some x) : callStep fns pv noArgs ell margs st = .ok (.nil, st) := by
  unfold callStep
  rw [bind_apply, hasErr_apply]
  simp [h, pure_apply]

/-- from a state without recorded error the checks before the argument list pass -/
theorem callStep_of_ok (fns : List (String × FnSpec)) (pv : Val) (noArgs ell : Bool) (margs : M (List Val))
    {st : St} (h : st.err = none) :
    callStep fns pv noArgs ell margs st
      = (if !isFuncVal pv then setErr
         else if noArgs then callFinish fns pv [] ell
         else do
           let vs ← margs
           if ← hasErr then return .nil
           callFinish fns pv vs ell) st := by
  unfold callStep
  rw [bind_apply, hasErr_apply]
  simp only [h, Option.isSome_none, Bool.false_eq_true, if_false]
  split
  · rfl
  · split
    · rfl
    · rw [bind_apply, hasErr_apply]
      simp only [h, Option.isSome_none, Bool.false_eq_true, if_false]

/-- once an error is recorded a call step calls nothing (whatever the argument evaluation would do) -/
theorem callStep_quiet (fns : List (String × FnSpec)) (pv : Val) (noArgs ell : Bool) (margs : M (List Val)) :
    Resp RQ (callStep fns pv noArgs ell margs) := by
  intro st r s hr x hx
  rw [callStep_of_err fns pv noArgs ell margs hx] at hr
  cases hr
  exact ⟨hx, rfl⟩

/-! ## the tree walk never clears or replaces a recorded error, and the call log only grows -/

theorem eval_mono (fns : List (String × FnSpec)) (data : List Val) (e : E) : Resp RM (eval fns data e) := by
  refine eval.induct (motive_1 := fun e => Resp RM (eval fns data e))
    (motive_2 := fun as => Resp RM (evalArgs fns data as))
    (motive_3 := fun o d => Resp RM (evalOpt fns data o d))
    ?_ ?_ ?_ ?_ ?_ ?_ ?_ ?_ ?_ ?_ ?_ ?_ ?_ ?_ e
  · intro k t; rw [eval]; exact Resp.ofN RM.good (evalLit_resp k t)
  · intro n; rw [eval]; exact Resp.guardErr RM.good (Resp.ofN RM.good (lookRes_resp _))
  · intro e ih; rw [eval]; exact Resp.guardErr RM.good ih
  · intro op e ih; rw [eval]
    exact Resp.guardErr RM.good (Resp.bind RM.good ih (fun v => Resp.ofN RM.good (unOp_resp op v)))
  · intro op l r ihl ihr; rw [eval]; exact Resp.guardErr RM.good (binStep_resp RM.good fns op ihl ihr)
  · intro c a b ihc iha ihb; rw [eval]
    exact Resp.guardErr RM.good (Resp.bind RM.good ihc (fun cv => condStep_resp RM.good cv iha ihb))
  · intro e safe n ih; rw [eval]
    exact Resp.guardErr RM.good (Resp.bind RM.good ih (fun pv => Resp.ofN RM.good (lookRes_resp _)))
  · intro e i ihe ihi; rw [eval]
    exact Resp.guardErr RM.good (Resp.bind RM.good ihe (fun pv =>
      Resp.bind RM.good ihi (fun iv => Resp.ofN RM.good (indexOp_resp pv iv))))
  · intro e lo hi cap ihe ihlo ihhi ihcap; rw [eval]
    exact Resp.guardErr RM.good (Resp.bind RM.good ihe (fun pv =>
      sliceStep_resp RM.good pv _ ihlo ihhi ihcap))
  · intro e args ell ihe ihargs; rw [eval]
    exact Resp.guardErr RM.good (Resp.bind RM.good ihe (fun pv => callStep_resp fns pv _ ell ihargs))
  · intro d; rw [evalOpt]; exact Resp.pure RM.good _
  · intro ex d ih; rw [evalOpt]; exact Resp.bind RM.good ih (fun _ => Resp.pure RM.good _)
  · rw [evalArgs]; exact Resp.pure RM.good _
  · intro a rest iha ihrest; rw [evalArgs]
    exact Resp.bind RM.good iha (fun _ => Resp.bind RM.good ihrest (fun _ => Resp.pure RM.good _))

theorem evalArgs_mono (fns : List (String × FnSpec)) (data : List Val) (as : List E) :
    Resp RM (evalArgs fns data as) := by
  induction as with
  | nil => rw [evalArgs]; exact Resp.pure RM.good _
  | cons a rest ih =>
    rw [evalArgs]
    exact Resp.bind RM.good (eval_mono fns data a) (fun _ => Resp.bind RM.good ih (fun _ => Resp.pure RM.good _))

theorem evalOpt_mono (fns : List (String × FnSpec)) (data : List Val) (o : Option E) (d : Int) :
    Resp RM (evalOpt fns data o d) := by
  cases o with
  | none => rw [evalOpt]; exact Resp.pure RM.good _
  | some ex => rw [evalOpt]; exact Resp.bind RM.good (eval_mono fns data ex) (fun _ => Resp.pure RM.good _)

/-! ## stickiness: with an error recorded, every visit returns nil at once -/

/-- the literal kinds the visitor knows (`VisitLiteral`); the model panics on every other kind -/
def knownLit (k : String) : Bool := k = "nil" || k = "int" || k = "float" || k = "str" || k = "imag"

/-- the constructs that do NOT panic unconditionally when visited with an error already recorded: everything
    except a literal of unknown kind.  (Unary `&` also panics unconditionally, but only after its guard and its
    operand: with an error recorded on entry the guard returns first, see `un_amp_panics` in Props/C12eval.) -/
def NoUncondPanic : E → Prop
  | .lit k _ => knownLit k = true
  | _ => True

instance : DecidablePred NoUncondPanic := fun e => by
  cases e <;> unfold NoUncondPanic <;> infer_instance

theorem evalLit_of_err {k t : String} {st : St} {x : Err} (hk : knownLit k = true) (h : st.err = some x) :
    evalLit k t st = .ok (.nil, st) := by
  unfold evalLit
  split
  · exact guardErr_err h
  · exact guardErr_err h
  · exact guardErr_err h
  · exact guardErr_err h
  · exact guardErr_err h
  · rename_i h1 h2 h3 h4 h5
    simp [knownLit] at hk
    rcases hk with (((hk | hk) | hk) | hk) | hk
    · exact absurd hk h1
    · exact absurd hk h2
    · exact absurd hk h3
    · exact absurd hk h4
    · exact absurd hk h5

theorem evalLit_unknown {k t : String} (hk : knownLit k = false) (st : St) : evalLit k t st = .error () := by
  unfold evalLit
  simp [knownLit] at hk
  obtain ⟨⟨⟨⟨h1, h2⟩, h3⟩, h4⟩, h5⟩ := hk
  split
  · exact absurd rfl h1
  · exact absurd rfl h2
  · exact absurd rfl h3
  · exact absurd rfl h4
  · exact absurd rfl h5
  · rfl

/-- STICKY: visited with an error recorded, every expression returns nil at once, leaving the state untouched -/
theorem eval_of_err (fns : List (String × FnSpec)) (data : List Val) {e : E} (hp : NoUncondPanic e)
    {st : St} {x : Err} (h : st.err = some x) : eval fns data e st = .ok (.nil, st) := by
  cases e with
  | lit k t => rw [eval]; exact evalLit_of_err hp h
  | _ => rw [eval]; exact guardErr_err h

/-- exactness of the exception set -/
theorem eval_uncond_panic (fns : List (String × FnSpec)) (data : List Val) {e : E} (hp : ¬ NoUncondPanic e)
    (st : St) : eval fns data e st = .error () := by
  cases e with
  | lit k t =>
    rw [eval]
    apply evalLit_unknown
    unfold NoUncondPanic at hp
    cases hk : knownLit k
    · rfl
    · exact absurd hk hp
  | _ => exact absurd trivial hp

/-- with an error recorded, a normally-returning visit is the identity on the state and yields nil -/
theorem eval_id_of_err (fns : List (String × FnSpec)) (data : List Val) (e : E) {st s : St} {x : Err} {v : Val}
    (h : st.err = some x) (hr : eval fns data e st = .ok (v, s)) : v = .nil ∧ s = st := by
  by_cases hp : NoUncondPanic e
  · rw [eval_of_err fns data hp h] at hr; cases hr; exact ⟨rfl, rfl⟩
  · rw [eval_uncond_panic fns data hp] at hr; cases hr

theorem eval_quiet (fns : List (String × FnSpec)) (data : List Val) (e : E) : Resp RQ (eval fns data e) := by
  intro st v s hr x hx
  obtain ⟨_, rfl⟩ := eval_id_of_err fns data e hx hr
  exact ⟨hx, rfl⟩

theorem evalArgs_of_err (fns : List (String × FnSpec)) (data : List Val) {as : List E}
    (hp : ∀ a ∈ as, NoUncondPanic a) {st : St} {x : Err} (h : st.err = some x) :
    evalArgs fns data as st = .ok (as.map (fun _ => Val.nil), st) := by
  induction as with
  | nil => rw [evalArgs]; rfl
  | cons a rest ih =>
    rw [evalArgs, bind_apply_ok (eval_of_err fns data (hp a (List.mem_cons_self ..)) h),
      bind_apply_ok (ih (fun b hb => hp b (List.mem_cons_of_mem _ hb)))]
    rfl

theorem evalArgs_id_of_err (fns : List (String × FnSpec)) (data : List Val) (as : List E) {st s : St} {x : Err}
    {vs : List Val} (h : st.err = some x) (hr : evalArgs fns data as st = .ok (vs, s)) : s = st := by
  induction as generalizing vs with
  | nil => rw [evalArgs, pure_apply] at hr; cases hr; rfl
  | cons a rest ih =>
    rw [evalArgs, bind_apply] at hr
    cases ha : eval fns data a st with
    | error u => rw [ha] at hr; cases hr
    | ok p =>
      obtain ⟨v, s1⟩ := p
      obtain ⟨_, rfl⟩ := eval_id_of_err fns data a h ha
      rw [ha] at hr
      simp only at hr
      rw [bind_apply] at hr
      cases hrest : evalArgs fns data rest s1 with
      | error u => rw [hrest] at hr; cases hr
      | ok q =>
        obtain ⟨ws, s2⟩ := q
        rw [hrest] at hr
        cases hr
        exact ih hrest

theorem evalArgs_quiet (fns : List (String × FnSpec)) (data : List Val) (as : List E) :
    Resp RQ (evalArgs fns data as) := by
  intro st v s hr x hx
  obtain rfl := evalArgs_id_of_err fns data as hx hr
  exact ⟨hx, rfl⟩

theorem evalOpt_quiet (fns : List (String × FnSpec)) (data : List Val) (o : Option E) (d : Int) :
    Resp RQ (evalOpt fns data o d) := by
  cases o with
  | none => rw [evalOpt]; exact Resp.pure RQ.good _
  | some ex => rw [evalOpt]; exact Resp.bind RQ.good (eval_quiet fns data ex) (fun _ => Resp.pure RQ.good _)

/-! ## both at once (`RS`): what every continuation of a sub-evaluation respects -/

theorem Resp.and {α} {m : M α} (h1 : Resp RM m) (h2 : Resp RQ m) : Resp RS m :=
  fun st r s h => ⟨h1 st r s h, h2 st r s h⟩

theorem eval_rs (fns : List (String × FnSpec)) (data : List Val) (e : E) : Resp RS (eval fns data e) :=
  Resp.and (eval_mono fns data e) (eval_quiet fns data e)

theorem evalArgs_rs (fns : List (String × FnSpec)) (data : List Val) (as : List E) :
    Resp RS (evalArgs fns data as) :=
  Resp.and (evalArgs_mono fns data as) (evalArgs_quiet fns data as)

theorem evalOpt_rs (fns : List (String × FnSpec)) (data : List Val) (o : Option E) (d : Int) :
    Resp RS (evalOpt fns data o d) :=
  Resp.and (evalOpt_mono fns data o d) (evalOpt_quiet fns data o d)

theorem callStep_rs (fns : List (String × FnSpec)) (pv : Val) (noArgs ell : Bool) {margs : M (List Val)}
    (hargs : Resp RM margs) : Resp RS (callStep fns pv noArgs ell margs) :=
  Resp.and (callStep_resp fns pv noArgs ell hargs) (callStep_quiet fns pv noArgs ell margs)

/-- the rest of a call after one of its arguments: the remaining arguments, the re-check, the call itself -/
theorem callRest_rs (fns : List (String × FnSpec)) (pv : Val) (ell : Bool) {mrest : M (List Val)}
    (hrest : Resp RS mrest) (f : List Val → List Val) :
    Resp RS (do
      let ws ← mrest
      if ← hasErr then return .nil
      callFinish fns pv (f ws) ell : M Val) := by
  refine Resp.and ?_ ?_
  · refine Resp.bind RM.good (fun st r s h => (hrest st r s h).1) (fun ws => ?_)
    refine Resp.bind RM.good (Resp.hasErr RM.good) (fun b => ?_)
    split
    · exact Resp.pure RM.good _
    · exact callFinish_resp fns pv _ ell
  · intro st r s hr x hx
    rw [bind_apply] at hr
    cases hm : mrest st with
    | error u => rw [hm] at hr; cases hr
    | ok p =>
      obtain ⟨ws, s1⟩ := p
      obtain ⟨hx1, hc1⟩ := (hrest st ws s1 hm).2 x hx
      rw [hm] at hr
      simp only [bind_apply, hasErr_apply, hx1, Option.isSome_some, if_true, pure_apply] at hr
      cases hr
      exact ⟨hx1, hc1⟩

/-! ## big-step equations (from a state without recorded error) -/

section eqs
variable (fns : List (String × FnSpec)) (data : List Val) {st s1 s2 : St}

theorem eval_name_eq (n : String) (h : st.err = none) :
    eval fns data (.name n) st = lookRes (scopeGet data n) st := by
  rw [eval, guardErr_ok h]

theorem eval_paren_eq (e : E) (h : st.err = none) : eval fns data (.paren e) st = eval fns data e st := by
  rw [eval, guardErr_ok h]

theorem eval_un_eq (op : String) {e : E} {v : Val} (h : st.err = none) (he : eval fns data e st = .ok (v, s1)) :
    eval fns data (.un op e) st = unOp op v s1 := by
  rw [eval, guardErr_ok h, bind_apply_ok he]

theorem eval_bin_eq (op : String) (l r : E) (h : st.err = none) :
    eval fns data (.bin op l r) st = binStep fns op (eval fns data l) (eval fns data r) st := by
  rw [eval, guardErr_ok h]

theorem eval_and_eq {l : E} (r : E) {a : Val} (h : st.err = none) (hl : eval fns data l st = .ok (a, s1)) :
    eval fns data (.bin "&&" l r) st = andStep a (eval fns data r) s1 := by
  rw [eval_bin_eq fns data _ _ _ h]
  unfold binStep
  rw [if_pos rfl, bind_apply_ok hl]

theorem eval_or_eq {l : E} (r : E) {a : Val} (h : st.err = none) (hl : eval fns data l st = .ok (a, s1)) :
    eval fns data (.bin "||" l r) st = orStep a (eval fns data r) s1 := by
  rw [eval_bin_eq fns data _ _ _ h]
  unfold binStep
  rw [if_neg (by decide), if_pos rfl, bind_apply_ok hl]

theorem eval_binop_eq {op : String} {l r : E} {a b : Val} (hop : op ≠ "&&" ∧ op ≠ "||") (h : st.err = none)
    (hl : eval fns data l st = .ok (a, s1)) (hr : eval fns data r s1 = .ok (b, s2)) :
    eval fns data (.bin op l r) st = binOp fns op a b s2 := by
  rw [eval_bin_eq fns data _ _ _ h]
  unfold binStep
  rw [if_neg hop.1, if_neg hop.2, bind_apply_ok hl, bind_apply_ok hr]

theorem eval_cond_eq {c : E} (a b : E) {cv : Val} (h : st.err = none) (hc : eval fns data c st = .ok (cv, s1)) :
    eval fns data (.cond c a b) st = condStep cv (eval fns data a) (eval fns data b) s1 := by
  rw [eval, guardErr_ok h, bind_apply_ok hc]

theorem eval_field_eq {e : E} (safe : Bool) (n : String) {pv : Val} (h : st.err = none)
    (he : eval fns data e st = .ok (pv, s1)) :
    eval fns data (.field e safe n) st = lookRes (getValue n pv) s1 := by
  rw [eval, guardErr_ok h, bind_apply_ok he]

theorem eval_index_eq {e i : E} {pv iv : Val} (h : st.err = none)
    (he : eval fns data e st = .ok (pv, s1)) (hi : eval fns data i s1 = .ok (iv, s2)) :
    eval fns data (.index e i) st = indexOp pv iv s2 := by
  rw [eval, guardErr_ok h, bind_apply_ok he, bind_apply_ok hi]

theorem eval_slice_eq {e : E} (lo hi cap : Option E) {pv : Val} (h : st.err = none)
    (he : eval fns data e st = .ok (pv, s1)) :
    eval fns data (.slice e lo hi cap) st
      = sliceStep pv (fun d => evalOpt fns data lo d) (fun d => evalOpt fns data hi d)
          (fun d => evalOpt fns data cap d) cap.isSome s1 := by
  rw [eval, guardErr_ok h, bind_apply_ok he]

theorem eval_call_eq {e : E} (args : List E) (ell : Bool) {pv : Val} (h : st.err = none)
    (he : eval fns data e st = .ok (pv, s1)) :
    eval fns data (.call e args ell) st = callStep fns pv args.isEmpty ell (evalArgs fns data args) s1 := by
  rw [eval, guardErr_ok h, bind_apply_ok he]

/-- a Go panic in the first evaluated operand unwinds through every enclosing construct -/
theorem eval_panic_first (h : st.err = none) {e : E} (he : eval fns data e st = .error ()) :
    (eval fns data (.paren e) st = .error ()) ∧ (∀ op, eval fns data (.un op e) st = .error ()) ∧
    (∀ op r, eval fns data (.bin op e r) st = .error ()) ∧ (∀ a b, eval fns data (.cond e a b) st = .error ()) ∧
    (∀ safe n, eval fns data (.field e safe n) st = .error ()) ∧ (∀ i, eval fns data (.index e i) st = .error ()) ∧
    (∀ lo hi cap, eval fns data (.slice e lo hi cap) st = .error ()) ∧
    (∀ args ell, eval fns data (.call e args ell) st = .error ()) := by
  refine ⟨?_, ?_, ?_, ?_, ?_, ?_, ?_, ?_⟩
  · rw [eval, guardErr_ok h, he]
  · intro op; rw [eval, guardErr_ok h, bind_apply_error he]
  · intro op r
    rw [eval, guardErr_ok h]
    unfold binStep
    split
    · exact bind_apply_error he
    · split <;> exact bind_apply_error he
  · intro a b; rw [eval, guardErr_ok h, bind_apply_error he]
  · intro safe n; rw [eval, guardErr_ok h, bind_apply_error he]
  · intro i; rw [eval, guardErr_ok h, bind_apply_error he]
  · intro lo hi cap; rw [eval, guardErr_ok h, bind_apply_error he]
  · intro args ell; rw [eval, guardErr_ok h, bind_apply_error he]

end eqs

/-! ## unary operators on integers: agreement with `OpsPure.intUn` -/

/-- the unary cases of the evaluator agree with the pure restatement `intUn` on integer operands (every operator
    except `&`, which panics) -/
theorem unOp_int {op : String} {v : Val} {a : Int} (hop : op ≠ "&") (h : isInt v = some a) :
    unOp op v = (intUn op a).toM := by
  obtain ⟨k, x, rfl, _⟩ := isInt_eq_some.1 h
  unfold unOp intUn
  split
  · simp only [h]; rfl
  · simp only [h]; rfl
  · split <;> first | (rename_i heq; cases heq) | rfl
  · simp only [h]; rfl
  · split <;> first | (rename_i heq; cases heq) | rfl
  · exact absurd rfl hop
  · split <;> first | contradiction | rfl

theorem eval_un_int (fns : List (String × FnSpec)) (data : List Val) {op : String} {e : E} {st s1 : St} {v : Val}
    {a : Int} (hop : op ≠ "&") (h : st.err = none) (he : eval fns data e st = .ok (v, s1)) (hv : isInt v = some a) :
    eval fns data (.un op e) st = (intUn op a).toM s1 := by
  rw [eval_un_eq fns data op h he, unOp_int hop hv]

end EV
