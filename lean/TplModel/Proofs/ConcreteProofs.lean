import TplModel.Props.Callbacks
import TplModel.Props.C07order
import TplModel.Props.C12eval
/-! # Helper lemmas for `Props/Concrete.lean`: the generic renderer clauses on the environment of a manager

* `Prints` / `EvalFails`: what a compiled directive value (`"lit"` or `"${e}"`) yields, in terms of `EN.evalExpr` and
  `EV.fmtV` — resp. of `EV.eval` for a failing block — and the corresponding results of `EN.attrEvaluate`;
* `Shape`: an element whose attribute list is ONE directive followed by static attributes; its control attributes,
  option state, start chunk and attribute loop in closed form;
* the root of a file / fragment renders `""` followed by its children;
* chain elements: `elemEval` of the generic chain theorem from `Prints`.
Core-only. -/
namespace Concrete
open EN
open EV (Val FnSpec fmtV)
open RN (CAttr Part NodeD Node NK Cls)
open RN RN.Spec RN.Props

/-! ## 1. what a compiled directive value prints -/

/-- the five parts of a pure block value `"${e}"` (quote, `${`, block, `}`, quote); `k` = table index of `e` -/
def blockParts (k : Nat) : List Part := [.other, .other, .code k, .other, .other]
/-- the three parts of a literal value `"s"` (quote, literal, quote) -/
def litParts (s : String) : List Part := [.other, .lit s, .other]

/-- **Prints.** The directive attribute `a`, as compiled by the loader, yields the string `s` in scope `sc`, with the
    events `lg`: either its value is the literal `"s"` (no events), or it is one block `"${e}"`, `e` evaluates
    (`EN.evalExpr`) to a value `r` with events `lg`, and `s` is the `%v` form of `r` (`EV.fmtV`). -/
inductive Prints (cx : Ctx) (sc : List Val) (a : CAttr) (s : String) (lg : List String) : Prop
  | lit (v : String) : a.value = some v → a.parts = litParts s → lg = [] → Prints cx sc a s lg
  | block (v : String) (k : Nat) (r : Val) : a.value = some v → a.parts = blockParts k →
      evalExpr cx sc cx.exprs[k]! = (.ok r, lg) → fmtV r = some s → Prints cx sc a s lg

theorem Prints.eval {cx : Ctx} {sc : List Val} {a : CAttr} {s : String} {lg : List String}
    (h : Prints cx sc a s lg) : attrEvaluate cx a sc = (.ok s, lg) := by
  obtain ⟨n, v0, ps⟩ := a
  cases h with
  | lit v hv hp hl =>
    simp only at hv hp
    subst hv hp hl
    exact Callbacks.attrEvaluate_literal cx n v s sc
  | block v k r hv hp he hf =>
    simp only at hv hp
    subst hv hp
    rw [blockParts, Callbacks.attrEvaluate_pure_block, he]
    simp only [hf]

/-- the events of the block of a pure-block value (nothing for any other value) -/
def blockLog (cx : Ctx) (sc : List Val) (a : CAttr) : List String :=
  match a.parts with
  | [.other, .other, .code k, .other, .other] => (evalExpr cx sc cx.exprs[k]!).2
  | _ => []

theorem Prints.log_eq {cx : Ctx} {sc : List Val} {a : CAttr} {s : String} {lg : List String}
    (h : Prints cx sc a s lg) : lg = blockLog cx sc a := by
  cases h with
  | lit v hv hp hl => rw [hl, blockLog, hp]; rfl
  | block v k r hv hp he hf => rw [blockLog, hp, blockParts]; simp only [he]

/-- **EvalFails.** The block `e` fails in the evaluator: the run ends with a recorded error `er` (class
    `.eval er.sentinel er.nosuch`, the events are the calls made, in order, plus the `unsupported` marker), or it
    panics (`.eval false false`, the call log is lost with the panic). -/
inductive EvalFails (cx : Ctx) (sc : List Val) (e : EL.E) : Cls → List String → Prop
  | err (v : Val) (st : EV.St) (er : EV.Err) : (EV.eval cx.fns sc e).run {} = .ok (v, st) → st.err = some er →
      EvalFails cx sc e (.eval er.sentinel er.nosuch)
        (st.calls.reverse ++ (if st.unsupported then [unsupportedEv] else []))
  | panic : (EV.eval cx.fns sc e).run {} = .error () → EvalFails cx sc e (.eval false false) []

theorem EvalFails.evalExpr {cx : Ctx} {sc : List Val} {e : EL.E} {c : Cls} {lg : List String}
    (h : EvalFails cx sc e c lg) : evalExpr cx sc e = (.error c, lg) := by
  cases h with
  | err v st er hr he => simp only [EN.evalExpr, hr, he]
  | panic hr => simp only [EN.evalExpr, hr]

/-- a block attribute that `Prints`: the underlying evaluation -/
theorem Prints.block_inv {cx : Ctx} {sc : List Val} {a : CAttr} {s : String} {lg : List String} {i : Nat}
    (h : Prints cx sc a s lg) (hp : a.parts = blockParts i) :
    ∃ r, evalExpr cx sc cx.exprs[i]! = (.ok r, lg) ∧ fmtV r = some s := by
  cases h with
  | lit v hv hp' hl => rw [hp'] at hp; cases hp
  | block v k r hv hp' he hf =>
    rw [hp'] at hp
    simp only [blockParts, List.cons.injEq, Part.code.injEq, true_and, and_true] at hp
    subst hp
    exact ⟨r, he, hf⟩

/-- a failure of a class other than the one of a panic comes from a recorded error -/
theorem EvalFails.err_inv {cx : Ctx} {sc : List Val} {e : EL.E} {c : Cls} {lg : List String} (h : EvalFails cx sc e c lg)
    (hc : c ≠ .eval false false) :
    ∃ x st er, (EV.eval cx.fns sc e).run {} = .ok (x, st) ∧ st.err = some er ∧ c = .eval er.sentinel er.nosuch := by
  cases h with
  | err x st er hrun herr => exact ⟨x, st, er, hrun, herr, rfl⟩
  | panic hr => exact absurd rfl hc

/-- a pure block whose expression fails: `Attr.Evaluate` fails with that class and those events -/
theorem attrEvaluate_block_fails (cx : Ctx) (sc : List Val) (a : CAttr) (v : String) (k : Nat) (c : Cls) (lg : List String)
    (hv : a.value = some v) (hp : a.parts = blockParts k) (h : EvalFails cx sc cx.exprs[k]! c lg) :
    attrEvaluate cx a sc = (.error c, lg) := by
  obtain ⟨n, v0, ps⟩ := a
  simp only at hv hp
  subst hv hp
  rw [blockParts, Callbacks.attrEvaluate_pure_block, h.evalExpr]

/-! ## 2. an element with ONE directive attribute followed by static attributes -/

/-- **Shape.** `node` is an element whose (sorted) attribute list is the directive `a` followed by the static attributes
    `post`, none of which is overridden by a dynamic attribute of the same name; it is not the block tag. (`SortedAttr`
    puts directives before static attributes, so this is the form of `<div :insert="f" class="c">` after loading.) -/
structure Shape (cfg : RN.Cfg) (node : Node) (a : CAttr) (post : List CAttr) : Prop where
  kind : node.d.kind = .tag
  attrs : node.d.attrs = a :: post
  statics : ∀ x ∈ post, classify cfg x = .plain ∧
    node.d.attrs.any (fun b => b.name == cfg.attrPrefix ++ x.name) = false
  notBlock : (trimSlash (RN.lowerS node.d.tagName) == cfg.tagPrefix ++ "block") = false

/-- the start tag of such an element: `<name`, the static attributes as written, `>` -/
def openTag (node : Node) (post : List CAttr) : String :=
  "<" ++ node.d.tagName ++ String.join (post.map printAttr) ++ ">"

variable {cfg : RN.Cfg} {node : Node} {a : CAttr} {post : List CAttr}

theorem Shape.post_plain (h : Shape cfg node a post) : ∀ x ∈ post, classify cfg x = .plain := fun x hx => (h.statics x hx).1

theorem find_plain_none (p : AK → Bool) (hp : p .plain = false) :
    ∀ (post : List CAttr), (∀ x ∈ post, classify cfg x = .plain) → post.find? (fun x => p (classify cfg x)) = none := by
  intro post h
  rw [List.find?_eq_none]
  intro x hx
  rw [h x hx, hp]; simp

theorem Shape.withAttr (h : Shape cfg node a post) (hk : classify cfg a ≠ .with_) : withAttr cfg node.d.attrs = none := by
  unfold RN.withAttr
  rw [h.attrs, List.find?_cons]
  have : (classify cfg a == AK.with_) = false := by simpa using hk
  rw [this]
  exact find_plain_none (fun k => k == .with_) rfl post h.post_plain

theorem Shape.rangeAttr (h : Shape cfg node a post) (hk : classify cfg a ≠ .range) : rangeAttr cfg node.d.attrs = none := by
  unfold RN.rangeAttr
  rw [h.attrs, List.find?_cons]
  have : (classify cfg a == AK.range) = false := by simpa using hk
  rw [this]
  exact find_plain_none (fun k => k == .range) rfl post h.post_plain

theorem Shape.condAttr (h : Shape cfg node a post) (hk : ∀ b, classify cfg a ≠ .cond b) : condAttr cfg node.d.attrs = none := by
  unfold RN.condAttr
  rw [h.attrs, List.findSome?_eq_none_iff]
  intro x hx
  rcases List.mem_cons.1 hx with rfl | hx
  · cases hc : classify cfg x <;> first | rfl | exact absurd hc (hk _)
  · rw [h.post_plain x hx]

/-- such an element (its directive being none of with / if-family / range) is its body -/
theorem Shape.node_eq_body (h : Shape cfg node a post) (hk : isCtl cfg a = false) {Sc : Type} (env : Env Sc)
    (f depth : Nat) (nc : NC) (sc : Sc) (hf : (refNode cfg env f depth nc node sc).st ≠ .fuel) :
    refNode cfg env f depth nc node sc = refBody cfg env f depth nc node sc := by
  have h1 : classify cfg a ≠ .with_ := by intro e; simp [isCtl, e] at hk
  have h2 : ∀ b, classify cfg a ≠ .cond b := by intro b e; simp [isCtl, e] at hk
  have h3 : classify cfg a ≠ .range := by intro e; simp [isCtl, e] at hk
  exact refNode_noctl cfg env f depth nc node sc h.kind (h.withAttr h1) (h.condAttr h2) (h.rangeAttr h3) hf

theorem Shape.hasKind (h : Shape cfg node a post) (p : AK → Bool) (hp : p .plain = false) :
    hasKind cfg node.d.attrs p = p (classify cfg a) := by
  unfold RN.hasKind
  rw [h.attrs, List.any_cons]
  have : post.any (fun x => p (classify cfg x)) = false := by
    rw [List.any_eq_false]; intro x hx; rw [h.post_plain x hx, hp]; simp
  rw [this, Bool.or_false]

theorem optFold_plain : ∀ (post : List CAttr) (o : Bool × ChildMode), (∀ x ∈ post, classify cfg x = .plain) →
    optFold cfg post o = o := by
  intro post
  induction post with
  | nil => intro o _; rfl
  | cons x rest ih =>
    intro o h
    simp only [optFold]
    rw [show optStep cfg x o = o by unfold optStep; rw [h x (by simp)]]
    exact ih o (fun y hy => h y (by simp [hy]))

/-- the attribute loop over static attributes when the tag is not printed: nothing happens -/
theorem attrsRun_plain_hidden {Sc : Type} (env : Env Sc) (frag : Node → Sc → R) (d : NodeD) (nc : NC) :
    ∀ (as : List CAttr) (ps : PS Sc), (∀ x ∈ as, classify cfg x = .plain) → ps.noPrint = true →
    attrsRun cfg env frag d nc as ps = { st := .ok, ps := ps, log := [], nc := nc, fl := emptyFl } := by
  intro as
  induction as with
  | nil => intro ps _ _; simp [attrsRun]
  | cons x rest ih =>
    intro ps hall hnp
    have hp := hall x (by simp)
    simp only [attrsRun, isCtl_plain hp, hp, Bool.false_eq_true, if_false]
    have hstep : bodyStep cfg env frag d x .plain ps nc emptyFl = { st := .ok, ps := ps, log := [], nc := nc, fl := emptyFl } := by
      simp only [bodyStep, hnp, if_true]; split <;> rfl
    rw [hstep, PR.andThen_ok _ rfl]
    simp only []
    rw [ih ps (fun y hy => hall y (by simp [hy])) hnp]
    rfl

/-- the attribute loop of such an element, from the step of its directive -/
theorem Shape.attrsRun_ok {Sc : Type} (h : Shape cfg node a post) (hk : isCtl cfg a = false) (env : Env Sc) (frag : Node → Sc → R)
    (nc : NC) (sc : Sc) (ps1 : PS Sc) (l1 : List String)
    (hstep : bodyStep cfg env frag node.d a (classify cfg a) (startPS cfg node.d sc) nc emptyFl =
      { st := .ok, ps := ps1, log := l1, nc := nc, fl := emptyFl }) :
    RN.Spec.attrsRun cfg env frag node.d nc node.d.attrs (startPS cfg node.d sc) =
      { st := .ok, ps := if ps1.noPrint then ps1 else { ps1 with tagBuf := ps1.tagBuf ++ String.join (post.map printAttr) },
        log := l1, nc := nc, fl := emptyFl } := by
  rw [h.attrs]
  simp only [attrsRun, hk, Bool.false_eq_true, if_false]
  rw [hstep, PR.andThen_ok _ rfl]
  simp only []
  cases hnp : ps1.noPrint with
  | true =>
    rw [attrsRun_plain_hidden env frag node.d nc post ps1 h.post_plain hnp]
    simp
  | false =>
    rw [attrsRun_plain cfg env frag node.d nc post ps1 h.statics hnp]
    simp [hnp]

/-- a failing step of the directive is the result of the loop -/
theorem Shape.attrsRun_fail {Sc : Type} (h : Shape cfg node a post) (hk : isCtl cfg a = false) (env : Env Sc) (frag : Node → Sc → R)
    (nc : NC) (sc : Sc)
    (hstep : (bodyStep cfg env frag node.d a (classify cfg a) (startPS cfg node.d sc) nc emptyFl).st ≠ .ok) :
    RN.Spec.attrsRun cfg env frag node.d nc node.d.attrs (startPS cfg node.d sc) =
      bodyStep cfg env frag node.d a (classify cfg a) (startPS cfg node.d sc) nc emptyFl := by
  rw [h.attrs]
  simp only [attrsRun, hk, Bool.false_eq_true, if_false]
  rw [PR.andThen_not_ok _ hstep]

/-- the option state before the attribute loop -/
theorem Shape.initOpt (h : Shape cfg node a post) :
    initOpt cfg node.d 3 =
      ((classify cfg a == .define || classify cfg a == .replace),
       if classify cfg a == .insert then ChildMode.nop
       else if (classify cfg a == .define || classify cfg a == .replace) then ChildMode.nop else ChildMode.unset) := by
  rw [initOpt3, h.hasKind (fun k => k == .define || k == .replace) rfl, h.hasKind (· == .insert) rfl, h.notBlock]
  cases (classify cfg a == .define || classify cfg a == .replace) <;> rfl

/-- the body of such an element, from the (successful) step of its directive: the start chunk, the children as the
    step left the child mode, the end tag -/
theorem Shape.body {Sc : Type} (h : Shape cfg node a post) (hk : isCtl cfg a = false) (env : Env Sc)
    (f depth : Nat) (nc : NC) (sc : Sc) (ps1 : PS Sc) (l1 : List String)
    (hf : (refBody cfg env f depth nc node sc).st ≠ .fuel)
    (hstep : bodyStep cfg env (fragOf cfg env f depth nc) node.d a (classify cfg a) (startPS cfg node.d sc) nc emptyFl =
      { st := .ok, ps := ps1, log := l1, nc := nc, fl := emptyFl }) :
    refBody cfg env f depth nc node sc =
      (({ st := .ok,
          out := [if ps1.noPrint then ps1.tokenBuf
                  else ps1.tokenBuf ++ (ps1.tagBuf ++ String.join (post.map printAttr) ++ ">" ++ ps1.contentBuf)],
          log := l1, nc := nc } : Q).andThen fun nc =>
        childRun env (fun nc ks => refKids cfg env f depth nc ks ps1.data)
          (fun nc k => refNode cfg env f depth nc k ps1.data)
          node nc ps1.child ps1.data).andThen fun nc => Q.okQ (endChunks node.endVal ps1.noPrint) nc := by
  have hA := h.attrsRun_ok hk env (fragOf cfg env f depth nc) nc sc ps1 l1 hstep
  have hAok : AttrsOk cfg env f depth nc node sc := by unfold AttrsOk; rw [hA]
  have e := refBody_unf cfg env f depth nc node sc hf
  rw [show (fun t sc => (refFrag cfg env f depth nc t sc).toR emptyFl) = fragOf cfg env f depth nc from rfl, hA] at e
  rw [e] at hf ⊢
  unfold bodyRun at hf ⊢
  simp only [] at hf ⊢
  have h2 := (Q.andThen_ne_fuel (Q.andThen_ne_fuel hf).1).2 rfl
  simp only [] at h2
  cases hnp : ps1.noPrint
  all_goals
    simp only [hnp, Bool.false_eq_true, if_false, if_true, finishTag] at h2 ⊢
    congr 1
    rw [Q.andThen_ok _ rfl, Q.andThen_ok _ rfl]
    simp only []
    rw [refChild_unf cfg env f depth nc node _ _ h2]

/-- a failing step of the directive is the result of the element; nothing is written -/
theorem Shape.body_fail {Sc : Type} (h : Shape cfg node a post) (hk : isCtl cfg a = false) (env : Env Sc)
    (f depth : Nat) (nc : NC) (sc : Sc)
    (hf : (refBody cfg env f depth nc node sc).st ≠ .fuel)
    (hstep : (bodyStep cfg env (fragOf cfg env f depth nc) node.d a (classify cfg a) (startPS cfg node.d sc) nc emptyFl).st ≠ .ok) :
    refBody cfg env f depth nc node sc =
      { st := (bodyStep cfg env (fragOf cfg env f depth nc) node.d a (classify cfg a) (startPS cfg node.d sc) nc emptyFl).st,
        out := [],
        log := (bodyStep cfg env (fragOf cfg env f depth nc) node.d a (classify cfg a) (startPS cfg node.d sc) nc emptyFl).log,
        nc := nc } := by
  have hA := h.attrsRun_fail hk env (fragOf cfg env f depth nc) nc sc hstep
  rw [refBody_attr_fail cfg env f depth nc node sc hf (by rw [hA]; exact hstep), hA]

/-! ### `text` -/

theorem isCtl_of_text (hk : classify cfg a = .text) : isCtl cfg a = false := by simp [isCtl, hk]

/-- `<x :text=… statics>`: the start tag, then the escaped value — or the failure of the evaluation, after the start
    tag has been written; the element's own children are not rendered -/
theorem Shape.text_body {Sc : Type} (h : Shape cfg node a post) (hk : classify cfg a = .text) (env : Env Sc)
    (f depth : Nat) (nc : NC) (sc : Sc) (hf : (refBody cfg env f depth nc node sc).st ≠ .fuel) :
    refBody cfg env f depth nc node sc =
      match env.evalStr a sc with
      | (.error c, lg) => { st := .err c, out := [openTag node post], log := lg, nc := nc }
      | (.ok v, lg) =>
        { st := .ok, out := [openTag node post, RN.escapeHtml v] ++ endChunks node.endVal false, log := lg, nc := nc } := by
  have hi := h.initOpt
  simp only [hk, show (AK.text == AK.define) = false from rfl, show (AK.text == AK.replace) = false from rfl,
    show (AK.text == AK.insert) = false from rfl, Bool.or_self, Bool.false_eq_true, if_false] at hi
  have hstep : bodyStep cfg env (fragOf cfg env f depth nc) node.d a (classify cfg a) (startPS cfg node.d sc) nc emptyFl =
      { st := .ok, ps := { data := sc, noPrint := false, child := .textLike a true, tagBuf := "<" ++ node.d.tagName },
        log := [], nc := nc, fl := emptyFl } := by
    simp [bodyStep, hk, startPS, hi]
  rw [h.body (isCtl_of_text hk) env f depth nc sc _ _ hf hstep]
  simp only [childRun, Bool.false_eq_true, if_false, if_true, String.empty_append, String.append_empty, openTag]
  rcases env.evalStr a sc with ⟨c | v, lg⟩
  · simp [Q.andThen]
  · cases node.endVal <;> simp [Q.andThen, Q.okQ, endChunks]

/-! ### `insert` / `replace` -/

theorem isCtl_of_frag (hk : classify cfg a = .insert ∨ classify cfg a = .replace) : isCtl cfg a = false := by
  rcases hk with hk | hk <;> simp [isCtl, hk]

set_option linter.unusedSimpArgs false in
/-- the step of an `insert` / `replace` attribute whose name evaluates to a registered template -/
theorem bodyStep_frag {Sc : Type} (env : Env Sc) (frag : Node → Sc → R) (d : NodeD) (ps : PS Sc) (nc : NC) (fl : Fl)
    (name : String) (lg : List String) (t : Node)
    (hk : classify cfg a = .insert ∨ classify cfg a = .replace)
    (hE : env.evalStr a ps.data = (.ok name, lg)) (hT : env.tpl name = some t) :
    bodyStep cfg env frag d a (classify cfg a) ps nc fl =
      if (frag t ps.data).st = .ok then
        { st := .ok,
          ps := if classify cfg a == .replace then { ps with tokenBuf := ps.tokenBuf ++ (frag t ps.data).text }
                else { ps with contentBuf := ps.contentBuf ++ (frag t ps.data).text },
          log := lg ++ (frag t ps.data).log, nc := nc, fl := fl }
      else { st := (frag t ps.data).st, ps := ps, log := lg ++ (frag t ps.data).log, nc := nc, fl := fl } := by
  rcases hk with hk | hk <;>
  · simp only [hk, bodyStep, hE, hT]
    cases hs : (frag t ps.data).st <;> simp [hs]

/-- a fragment call that does not run out of fuel, below the depth limit: the rendering of the fragment root one level
    deeper with FRESH condition records, joined into one string; the caller's records are untouched -/
theorem fragOf_eq {Sc : Type} (env : Env Sc) (f depth : Nat) (nc : NC) (t : Node) (sc : Sc)
    (hd : depth + 1 ≤ cfg.maxDepth) (hne : (refFrag cfg env f depth nc t sc).st ≠ .fuel) :
    fragOf cfg env f depth nc t sc =
      { st := (refNode cfg env f (depth + 1) emptyNc t sc).st,
        out := (refNode cfg env f (depth + 1) emptyNc t sc).buffered.out,
        log := (refNode cfg env f (depth + 1) emptyNc t sc).log, nc := nc, fl := emptyFl } := by
  unfold fragOf
  rw [fragment_gets_fresh_conditions cfg env f depth nc t sc hne hd]
  rfl

/-- the fragment of such an element did not run out of fuel if the element did not -/
theorem Shape.frag_ne_fuel {Sc : Type} (h : Shape cfg node a post) (hk : classify cfg a = .insert ∨ classify cfg a = .replace)
    (env : Env Sc) (f depth : Nat) (nc : NC) (sc : Sc) (name : String) (lg : List String) (t : Node)
    (hE : env.evalStr a sc = (.ok name, lg)) (hT : env.tpl name = some t)
    (hf : (refBody cfg env f depth nc node sc).st ≠ .fuel) : (refFrag cfg env f depth nc t sc).st ≠ .fuel := by
  intro hfu
  have hst := bodyStep_frag (cfg := cfg) (a := a) env (fragOf cfg env f depth nc) node.d (startPS cfg node.d sc) nc emptyFl
    name lg t hk (by simpa using hE) hT
  have hfs : (fragOf cfg env f depth nc t (startPS cfg node.d sc).data).st = .fuel := by
    simp only [startPS_data, fragOf, Q.toR, hfu]
  rw [if_neg (by rw [hfs]; simp)] at hst
  have := h.body_fail (isCtl_of_frag hk) env f depth nc sc hf (by rw [hst, hfs]; simp)
  rw [this, hst, hfs] at hf
  exact hf rfl

/-- `<x :insert=… statics>old</x>`: the start tag, the text of the fragment, the end tag — or the failure of the
    fragment; the element's own children are not rendered -/
theorem Shape.insert_body {Sc : Type} (h : Shape cfg node a post) (hk : classify cfg a = .insert) (env : Env Sc)
    (f depth : Nat) (nc : NC) (sc : Sc) (name : String) (lg : List String) (t : Node)
    (hE : env.evalStr a sc = (.ok name, lg)) (hT : env.tpl name = some t) (hd : depth + 1 ≤ cfg.maxDepth)
    (hf : (refBody cfg env f depth nc node sc).st ≠ .fuel) :
    (refNode cfg env f (depth + 1) emptyNc t sc).st ≠ .fuel ∧
    refBody cfg env f depth nc node sc =
      if (refNode cfg env f (depth + 1) emptyNc t sc).st = .ok then
        { st := .ok,
          out := [openTag node post ++ String.join (refNode cfg env f (depth + 1) emptyNc t sc).out] ++
            endChunks node.endVal false,
          log := lg ++ (refNode cfg env f (depth + 1) emptyNc t sc).log, nc := nc }
      else
        { st := (refNode cfg env f (depth + 1) emptyNc t sc).st, out := [],
          log := lg ++ (refNode cfg env f (depth + 1) emptyNc t sc).log, nc := nc } := by
  have hne := h.frag_ne_fuel (.inl hk) env f depth nc sc name lg t hE hT hf
  have hfr := fragOf_eq env f depth nc t sc hd hne
  have hq : (refNode cfg env f (depth + 1) emptyNc t sc).st ≠ .fuel := by
    have := congrArg R.st hfr
    simp only [fragOf, Q.toR] at this
    rw [← this]; exact hne
  refine ⟨hq, ?_⟩
  have hi := h.initOpt
  simp only [hk, show (AK.insert == AK.define) = false from rfl, show (AK.insert == AK.replace) = false from rfl,
    beq_self_eq_true, Bool.or_self, if_true] at hi
  have hst := bodyStep_frag (cfg := cfg) (a := a) env (fragOf cfg env f depth nc) node.d (startPS cfg node.d sc) nc emptyFl
    name lg t (.inl hk) (by simpa using hE) hT
  have hb : (classify cfg a == AK.replace) = false := by rw [hk]; rfl
  simp only [startPS_data, hfr, hb, Bool.false_eq_true, if_false] at hst
  by_cases hok : (refNode cfg env f (depth + 1) emptyNc t sc).st = .ok
  · rw [if_pos hok] at hst ⊢
    rw [h.body (isCtl_of_frag (.inl hk)) env f depth nc sc _ _ hf hst]
    simp only [startPS, hi, childRun, Bool.false_eq_true, if_false, String.empty_append, R.text,
      Q.buffered_out_ok hok, openTag]
    cases node.endVal <;> simp [Q.andThen, Q.okQ, endChunks, String.join, String.append_assoc]
  · rw [if_neg hok] at hst ⊢
    rw [h.body_fail (isCtl_of_frag (.inl hk)) env f depth nc sc hf (by rw [hst]; exact hok), hst]

/-- `<x :replace=… statics>old</x>`: the text of the fragment only (no tag, no children, no end tag) — or the failure
    of the fragment -/
theorem Shape.replace_body {Sc : Type} (h : Shape cfg node a post) (hk : classify cfg a = .replace) (env : Env Sc)
    (f depth : Nat) (nc : NC) (sc : Sc) (name : String) (lg : List String) (t : Node)
    (hE : env.evalStr a sc = (.ok name, lg)) (hT : env.tpl name = some t) (hd : depth + 1 ≤ cfg.maxDepth)
    (hf : (refBody cfg env f depth nc node sc).st ≠ .fuel) :
    (refNode cfg env f (depth + 1) emptyNc t sc).st ≠ .fuel ∧
    refBody cfg env f depth nc node sc =
      if (refNode cfg env f (depth + 1) emptyNc t sc).st = .ok then
        { st := .ok, out := [String.join (refNode cfg env f (depth + 1) emptyNc t sc).out],
          log := lg ++ (refNode cfg env f (depth + 1) emptyNc t sc).log, nc := nc }
      else
        { st := (refNode cfg env f (depth + 1) emptyNc t sc).st, out := [],
          log := lg ++ (refNode cfg env f (depth + 1) emptyNc t sc).log, nc := nc } := by
  have hne := h.frag_ne_fuel (.inr hk) env f depth nc sc name lg t hE hT hf
  have hfr := fragOf_eq env f depth nc t sc hd hne
  have hq : (refNode cfg env f (depth + 1) emptyNc t sc).st ≠ .fuel := by
    have := congrArg R.st hfr
    simp only [fragOf, Q.toR] at this
    rw [← this]; exact hne
  refine ⟨hq, ?_⟩
  have hi := h.initOpt
  simp only [hk, show (AK.replace == AK.define) = false from rfl, show (AK.replace == AK.insert) = false from rfl,
    beq_self_eq_true, Bool.or_true, Bool.false_eq_true, if_false, if_true] at hi
  have hst := bodyStep_frag (cfg := cfg) (a := a) env (fragOf cfg env f depth nc) node.d (startPS cfg node.d sc) nc emptyFl
    name lg t (.inr hk) (by simpa using hE) hT
  have hb : (classify cfg a == AK.replace) = true := by rw [hk]; rfl
  simp only [startPS_data, hfr, hb, if_true] at hst
  by_cases hok : (refNode cfg env f (depth + 1) emptyNc t sc).st = .ok
  · rw [if_pos hok] at hst ⊢
    rw [h.body (isCtl_of_frag (.inr hk)) env f depth nc sc _ _ hf hst]
    simp only [startPS, hi, childRun, if_true, String.empty_append, R.text, Q.buffered_out_ok hok]
    cases node.endVal <;> simp [Q.andThen, Q.okQ, endChunks, String.join]
  · rw [if_neg hok] at hst ⊢
    rw [h.body_fail (isCtl_of_frag (.inr hk)) env f depth nc sc hf (by rw [hst]; exact hok), hst]

/-- a name that resolves to nothing: `tplNotFound`, nothing written -/
theorem Shape.frag_unknown {Sc : Type} (h : Shape cfg node a post) (hk : classify cfg a = .insert ∨ classify cfg a = .replace)
    (env : Env Sc) (f depth : Nat) (nc : NC) (sc : Sc) (name : String) (lg : List String)
    (hE : env.evalStr a sc = (.ok name, lg)) (hT : env.tpl name = none)
    (hf : (refBody cfg env f depth nc node sc).st ≠ .fuel) :
    refBody cfg env f depth nc node sc = { st := .err .tplNotFound, out := [], log := lg, nc := nc } := by
  have := unknown_name_is_tplNotFound cfg env f depth nc node sc [] post a name lg hf h.attrs hk.symm
    (by simp [attrsRun]) hE hT
  rw [this]
  simp [attrsRun]

/-- a failing name evaluation: that failure, nothing written -/
theorem Shape.frag_name_fails {Sc : Type} (h : Shape cfg node a post) (hk : classify cfg a = .insert ∨ classify cfg a = .replace)
    (env : Env Sc) (f depth : Nat) (nc : NC) (sc : Sc) (c : Cls) (lg : List String)
    (hE : env.evalStr a sc = (.error c, lg))
    (hf : (refBody cfg env f depth nc node sc).st ≠ .fuel) :
    refBody cfg env f depth nc node sc = { st := .err c, out := [], log := lg, nc := nc } := by
  have hst : bodyStep cfg env (fragOf cfg env f depth nc) node.d a (classify cfg a) (startPS cfg node.d sc) nc emptyFl =
      { st := .err c, ps := startPS cfg node.d sc, log := lg, nc := nc, fl := emptyFl } := by
    rcases hk with hk | hk <;> simp only [hk, bodyStep, startPS_data, hE]
  rw [h.body_fail (isCtl_of_frag hk) env f depth nc sc hf (by rw [hst]; simp), hst]

/-! ### the fuel a `text` element needs does not depend on the environment -/

theorem bodyStep_plain_ok {Sc : Type} (env : Env Sc) (frag : Node → Sc → R) (d : NodeD) (x : CAttr) (ps : PS Sc) (nc : NC) (fl : Fl) :
    ∃ ps1, bodyStep cfg env frag d x .plain ps nc fl = { st := .ok, ps := ps1, log := [], nc := nc, fl := fl } ∧
      ps1.child = ps.child ∧ ps1.data = ps.data := by
  simp only [bodyStep]
  split
  · exact ⟨ps, rfl, rfl, rfl⟩
  · split
    · exact ⟨ps, rfl, rfl, rfl⟩
    · exact ⟨_, rfl, rfl, rfl⟩

/-- the attribute loop over static attributes: out of fuel iff the fuel does not exceed their number; otherwise it
    succeeds and leaves child mode and scope alone -/
theorem refAttrs_plain_st {Sc : Type} (env : Env Sc) (depth : Nat) (nc : NC) (d : NodeD) :
    ∀ (post : List CAttr) (f : Nat) (ps : PS Sc), (∀ x ∈ post, classify cfg x = .plain) →
    (f ≤ post.length → (refAttrs cfg env f depth nc d post ps).st = .fuel) ∧
    (post.length < f → (refAttrs cfg env f depth nc d post ps).st = .ok ∧
      (refAttrs cfg env f depth nc d post ps).ps.child = ps.child ∧
      (refAttrs cfg env f depth nc d post ps).ps.data = ps.data ∧
      (refAttrs cfg env f depth nc d post ps).nc = nc) := by
  intro post
  induction post with
  | nil =>
    intro f ps _
    cases f with
    | zero => exact ⟨fun _ => by simp [refAttrs], fun h => absurd h (by simp)⟩
    | succ f => exact ⟨fun h => absurd h (by simp), fun _ => by simp [refAttrs]⟩
  | cons x rest ih =>
    intro f ps hall
    have hx := hall x (by simp)
    cases f with
    | zero => exact ⟨fun _ => by simp [refAttrs], fun h => absurd h (by simp)⟩
    | succ f =>
      obtain ⟨ps1, hst, hc, hd⟩ := bodyStep_plain_ok (cfg := cfg) env
        (fun t sc => (refFrag cfg env f depth nc t sc).toR emptyFl) d x ps nc emptyFl
      have e : refAttrs cfg env (f + 1) depth nc d (x :: rest) ps =
          { refAttrs cfg env f depth nc d rest ps1 with log := [] ++ (refAttrs cfg env f depth nc d rest ps1).log } := by
        rw [refAttrs]
        simp only [isCtl_plain hx, hx, Bool.false_eq_true, if_false, hst]
        rw [PR.andThen_ok _ rfl]
      obtain ⟨i1, i2⟩ := ih f ps1 (fun y hy => hall y (by simp [hy]))
      rw [e]
      refine ⟨fun h => i1 (by simpa using h), fun h => ?_⟩
      obtain ⟨j1, j2, j3, j4⟩ := i2 (by simpa using h)
      exact ⟨j1, j2.trans hc, j3.trans hd, j4⟩

/-- **fuel of a `text` element**: the run is out of fuel iff the fuel is below (number of static attributes) + 4 —
    whatever the environment, the scope and the incoming conditions -/
theorem Shape.text_fuel_iff {Sc : Type} (h : Shape cfg node a post) (hk : classify cfg a = .text) (env : Env Sc)
    (F depth : Nat) (nc : NC) (sc : Sc) :
    (refNode cfg env F depth nc node sc).st = .fuel ↔ F < post.length + 4 := by
  have hctl := isCtl_of_text hk
  have h1 : classify cfg a ≠ .with_ := by rw [hk]; decide
  have h2 : ∀ b, classify cfg a ≠ .cond b := by intro b e; rw [hk] at e; cases e
  have h3 : classify cfg a ≠ .range := by rw [hk]; decide
  cases F with
  | zero => simp [st_zero_node]
  | succ f =>
    rw [refNode_tag cfg env f depth nc node sc h.kind]
    simp only [tagPhases, withPhase, h.withAttr h1, condPhase, h.condAttr h2, refRest, h.rangeAttr h3, Q.addLogS_nil]
    cases f with
    | zero => simp [refBody]
    | succ g =>
      have e0 : refBody cfg env (g + 1) depth nc node sc =
          bodyRun node (refAttrs cfg env g depth nc node.d node.d.attrs (startPS cfg node.d sc))
            (fun nc mode sc => refChild cfg env g depth nc node mode sc) := by
        rw [refBody]; rfl
      rw [e0, h.attrs]
      cases g with
      | zero => simp [refAttrs, bodyRun]
      | succ k =>
        have hi := h.initOpt
        simp only [hk, show (AK.text == AK.define) = false from rfl, show (AK.text == AK.replace) = false from rfl,
          show (AK.text == AK.insert) = false from rfl, Bool.or_self, Bool.false_eq_true, if_false] at hi
        have hstep : bodyStep cfg env (fun t sc => (refFrag cfg env k depth nc t sc).toR emptyFl) node.d a (classify cfg a)
            (startPS cfg node.d sc) nc emptyFl =
            { st := .ok, ps := { data := sc, noPrint := false, child := .textLike a true, tagBuf := "<" ++ node.d.tagName },
              log := [], nc := nc, fl := emptyFl } := by
          simp [bodyStep, hk, startPS, hi]
        have e1 : refAttrs cfg env (k + 1) depth nc node.d (a :: post) (startPS cfg node.d sc) =
            { refAttrs cfg env k depth nc node.d post
                { data := sc, noPrint := false, child := .textLike a true, tagBuf := "<" ++ node.d.tagName } with
              log := [] ++ (refAttrs cfg env k depth nc node.d post
                { data := sc, noPrint := false, child := .textLike a true, tagBuf := "<" ++ node.d.tagName }).log } := by
          rw [refAttrs]
          simp only [hctl, Bool.false_eq_true, if_false, hstep]
          rw [PR.andThen_ok _ rfl]
        rw [e1]
        obtain ⟨i1, i2⟩ := refAttrs_plain_st (cfg := cfg) env depth nc node.d post k
          { data := sc, noPrint := false, child := .textLike a true, tagBuf := "<" ++ node.d.tagName } h.post_plain
        by_cases hle : k ≤ post.length
        · have := i1 hle
          constructor
          · intro _; omega
          · intro _; unfold bodyRun; simp only [this]
        · obtain ⟨j1, j2, j3, j4⟩ := i2 (by omega)
          constructor
          · intro hfu
            exfalso
            unfold bodyRun at hfu
            simp only [j1] at hfu
            have hch : (finishTag (refAttrs cfg env k depth nc node.d post
                { data := sc, noPrint := false, child := .textLike a true, tagBuf := "<" ++ node.d.tagName }).ps).child =
                .textLike a true := by
              unfold finishTag; split <;> simp [j2]
            have hdd : (finishTag (refAttrs cfg env k depth nc node.d post
                { data := sc, noPrint := false, child := .textLike a true, tagBuf := "<" ++ node.d.tagName }).ps).data = sc := by
              unfold finishTag; split <;> simp [j3]
            rw [hch, hdd] at hfu
            simp only [refChild_succ, childRun] at hfu
            rcases hev : env.evalStr a sc with ⟨c | v, lg⟩
            · rw [hev] at hfu; simp [Q.andThen] at hfu
            · rw [hev] at hfu; simp [Q.andThen, Q.okQ] at hfu
          · intro hlt; omega

/-- the element runs out of fuel under one environment iff it does under any other -/
theorem Shape.text_fuel_indep {Sc : Type} (h : Shape cfg node a post) (hk : classify cfg a = .text) (env env' : Env Sc)
    (F depth depth' : Nat) (nc nc' : NC) (sc sc' : Sc) (hf : (refNode cfg env F depth nc node sc).st ≠ .fuel) :
    (refNode cfg env' F depth' nc' node sc').st ≠ .fuel := by
  rw [Ne, h.text_fuel_iff hk] at hf ⊢
  exact hf

/-! ## 3. the root of a file or of a fragment -/

/-- a root node (files and fragments: kind `root`, no end tag) renders the empty chunk followed by its children -/
theorem root_render {Sc : Type} (cfg : RN.Cfg) (env : Env Sc) (f depth : Nat) (nc : NC) (r : Node) (sc : Sc)
    (hk : r.d.kind = .root) (he : r.endVal = none) (hf : (refNode cfg env f depth nc r sc).st ≠ .fuel) :
    (refKids cfg env f depth nc r.kids sc).st ≠ .fuel ∧
    refNode cfg env f depth nc r sc =
      { st := (refKids cfg env f depth nc r.kids sc).st, out := "" :: (refKids cfg env f depth nc r.kids sc).out,
        log := (refKids cfg env f depth nc r.kids sc).log, nc := (refKids cfg env f depth nc r.kids sc).nc } := by
  have hnt : r.d.kind ≠ .tag := by rw [hk]; decide
  have e := refNode_unf_nontag cfg env f depth nc r sc hnt hf
  rw [e] at hf ⊢
  have hh : headChunk r.d = "" := by simp [headChunk, hk]
  simp only [hh, he, endChunks, Q.okQ_andThen] at hf ⊢
  have h1 : (refKids cfg env f depth nc r.kids sc).st ≠ .fuel := by
    intro h; apply hf; simp [Q.andThen, h]
  refine ⟨h1, ?_⟩
  cases hs : (refKids cfg env f depth nc r.kids sc).st <;> simp [Q.andThen, Q.okQ, hs]

/-! ## 4. chain elements of a manager -/

theorem flatMap_congr' {α β : Type} {f g : α → List β} : ∀ {l : List α}, (∀ x ∈ l, f x = g x) → l.flatMap f = l.flatMap g
  | [], _ => rfl
  | x :: l, h => by
    rw [List.flatMap_cons, List.flatMap_cons, h x (by simp), flatMap_congr' (fun y hy => h y (by simp [hy]))]

/-- the scope in which the condition of `k` is evaluated: the scope after its `with` assignment (`sc` when the
    element has no `with` attribute) -/
def condScope (cfg : RN.Cfg) (m : Mgr) (sc : List Val) (k : Node) : List Val :=
  match (withPhase cfg (envOf m) k.d sc).1 with
  | .ok sc1 => sc1
  | .error _ => sc

/-- **CondPrints.** The `with` assignment of the chain element `k` (if any) succeeds and its condition attribute — a
    literal or one block — prints `s` in the resulting scope. -/
def CondPrints (cfg : RN.Cfg) (m : Mgr) (sc : List Val) (k : Node) (s : String) : Prop :=
  (∃ sc1 lw, withPhase cfg (envOf m) k.d sc = (.ok sc1, lw)) ∧
  ∃ lc, Prints m.cx (condScope cfg m sc k) (condOf cfg k) s lc

/-- the events of the condition of an element: those of the evaluation (`EN.evalExpr`) of its block -/
def condLog (cfg : RN.Cfg) (m : Mgr) (sc : List Val) (k : Node) : List String :=
  if k.d.kind = .tag then blockLog m.cx (condScope cfg m sc k) (condOf cfg k) else []

theorem elemEval_of_condPrints {cfg : RN.Cfg} {m : Mgr} {sc : List Val} {k : Node} {s : String}
    (h : CondPrints cfg m sc k s) :
    elemEval cfg (envOf m) sc k =
      some ⟨condScope cfg m sc k, (withPhase cfg (envOf m) k.d sc).2, s,
        blockLog m.cx (condScope cfg m sc k) (condOf cfg k)⟩ := by
  obtain ⟨⟨sc1, lw, hw⟩, lc, hp⟩ := h
  have hcs : condScope cfg m sc k = sc1 := by simp [condScope, hw]
  rw [hcs] at hp ⊢
  have he : (envOf m).evalStr (condOf cfg k) sc1 = (.ok s, lc) := hp.eval
  simp only [elemEval, hw, he, ← hp.log_eq]

/-- no condition of the siblings `ks` prints "true" (text / comment leaves in between) -/
def NonePrintsTrue (cfg : RN.Cfg) (m : Mgr) (sc : List Val) (ks : List Node) : Prop :=
  ∀ k ∈ ks, (k.d.kind = .tag → ∃ s, CondPrints cfg m sc k s ∧ s ≠ "true") ∧ (k.d.kind ≠ .tag → k.kids = [])

theorem allFalse_of {cfg : RN.Cfg} {m : Mgr} {sc : List Val} {ks : List Node} (h : NonePrintsTrue cfg m sc ks) :
    AllFalse cfg (envOf m) sc ks := by
  intro k hk
  refine ⟨fun ht => ?_, (h k hk).2⟩
  obtain ⟨s, hp, hs⟩ := (h k hk).1 ht
  exact ⟨_, elemEval_of_condPrints hp, by simpa using hs⟩

theorem falseLog_eq {cfg : RN.Cfg} {m : Mgr} {sc : List Val} {ks : List Node} (h : NonePrintsTrue cfg m sc ks) :
    ks.flatMap (falseLog cfg (envOf m) sc) =
      ks.flatMap fun k => withLog cfg (envOf m) sc k ++ condLog cfg m sc k := by
  apply flatMap_congr'
  intro k hk
  by_cases ht : k.d.kind = .tag
  · obtain ⟨s, hp, _⟩ := (h k hk).1 ht
    simp only [falseLog, withLog, condLog, ht, if_true, elemEval_of_condPrints hp]
  · simp only [falseLog, withLog, condLog, ht, if_false, List.append_nil]

/-- elements without a `with` attribute -/
def NoWith (cfg : RN.Cfg) (ks : List Node) : Prop := ∀ k ∈ ks, withAttr cfg k.d.attrs = none

theorem withPhase_noWith {Sc : Type} {cfg : RN.Cfg} (env : Env Sc) {k : Node} (h : withAttr cfg k.d.attrs = none) (sc : Sc) :
    withPhase cfg env k.d sc = (.ok sc, []) := by simp [withPhase, h]

theorem condScope_noWith {cfg : RN.Cfg} (m : Mgr) {k : Node} (h : withAttr cfg k.d.attrs = none) (sc : List Val) :
    condScope cfg m sc k = sc := by simp [condScope, withPhase_noWith (envOf m) h]

theorem withLog_noWith {Sc : Type} {cfg : RN.Cfg} (env : Env Sc) {k : Node} (h : withAttr cfg k.d.attrs = none) (sc : Sc) :
    withLog cfg env sc k = [] := by
  simp only [withLog, withPhase_noWith env h]; split <;> rfl

theorem allWith_noWith {Sc : Type} {cfg : RN.Cfg} (env : Env Sc) (sc : Sc) {ks : List Node} (h : NoWith cfg ks)
    (hl : ∀ k ∈ ks, k.d.kind ≠ .tag → k.kids = []) : AllWith cfg env sc ks :=
  fun k hk => ⟨fun _ => ⟨sc, [], withPhase_noWith env (h k hk) sc⟩, hl k hk⟩

/-! ## 5. deciding the hypotheses on concrete trees (for `decide +kernel`)

`Val`, `Node` and `EL.E` have no decidable equality; these Boolean checkers only compare strings, attribute lists and
error classes, and each comes with a soundness lemma. -/

/-- the string and the events an attribute prints, if it is a literal or a successful pure block with a modelled `%v` -/
def printsB (cx : Ctx) (sc : List Val) (a : CAttr) : Option (String × List String) :=
  match a.value, a.parts with
  | some _, [.other, .lit s, .other] => some (s, [])
  | some _, [.other, .other, .code k, .other, .other] =>
    (match evalExpr cx sc cx.exprs[k]! with
     | (.ok r, lg) => (match fmtV r with | some s => some (s, lg) | none => none)
     | _ => none)
  | _, _ => none

theorem prints_of_B {cx : Ctx} {sc : List Val} {a : CAttr} {s : String} {lg : List String}
    (h : printsB cx sc a = some (s, lg)) : Prints cx sc a s lg := by
  unfold printsB at h
  split at h
  · rename_i v s' hv hp
    simp only [Option.some.injEq, Prod.mk.injEq] at h
    obtain ⟨rfl, rfl⟩ := h
    exact .lit v hv hp rfl
  · rename_i v k hv hp
    rcases he : evalExpr cx sc cx.exprs[k]! with ⟨c | r, lg'⟩
    · simp [he] at h
    · simp only [he] at h
      cases hf : fmtV r with
      | none => simp [hf] at h
      | some s' =>
        simp only [hf, Option.some.injEq, Prod.mk.injEq] at h
        obtain ⟨rfl, rfl⟩ := h
        exact .block v k r hv hp he hf
  · cases h

/-- the printed condition of a chain element (after its `with`, if any) -/
def condPrintsB (cfg : RN.Cfg) (m : Mgr) (sc : List Val) (k : Node) : Option String :=
  match (withPhase cfg (envOf m) k.d sc).1 with
  | .ok sc1 => (printsB m.cx sc1 (condOf cfg k)).map (·.1)
  | .error _ => none

theorem condPrints_of_B {cfg : RN.Cfg} {m : Mgr} {sc : List Val} {k : Node} {s : String}
    (h : condPrintsB cfg m sc k = some s) : CondPrints cfg m sc k s := by
  unfold condPrintsB at h
  rcases hw : withPhase cfg (envOf m) k.d sc with ⟨c | sc1, lw⟩
  · simp [hw] at h
  · simp only [hw, Option.map_eq_some_iff] at h
    obtain ⟨⟨s', lg⟩, hp, rfl⟩ := h
    refine ⟨⟨sc1, lw, hw⟩, lg, ?_⟩
    have : condScope cfg m sc k = sc1 := by simp [condScope, hw]
    rw [this]
    exact prints_of_B hp

def nonePrintsTrueB (cfg : RN.Cfg) (m : Mgr) (sc : List Val) (ks : List Node) : Bool :=
  ks.all fun k =>
    if k.d.kind = .tag then (match condPrintsB cfg m sc k with | some s => s != "true" | none => false)
    else k.kids.isEmpty

theorem nonePrintsTrue_of_B {cfg : RN.Cfg} {m : Mgr} {sc : List Val} {ks : List Node}
    (h : nonePrintsTrueB cfg m sc ks = true) : NonePrintsTrue cfg m sc ks := by
  intro k hk
  have := List.all_eq_true.mp h k hk
  constructor
  · intro ht
    simp only [ht, if_true] at this
    cases hc : condPrintsB cfg m sc k with
    | none => simp [hc] at this
    | some s => exact ⟨s, condPrints_of_B hc, by simpa [hc] using this⟩
  · intro ht
    simp only [ht, if_false] at this
    simpa using this

/-- class and events of a failing block -/
def evalFailsB (cx : Ctx) (sc : List Val) (e : EL.E) : Option (Cls × List String) :=
  match (EV.eval cx.fns sc e).run {} with
  | .error _ => some (.eval false false, [])
  | .ok (_, st) =>
    match st.err with
    | some er => some (.eval er.sentinel er.nosuch, st.calls.reverse ++ (if st.unsupported then [unsupportedEv] else []))
    | none => none

theorem evalFails_of_B {cx : Ctx} {sc : List Val} {e : EL.E} {c : Cls} {lg : List String}
    (h : evalFailsB cx sc e = some (c, lg)) : EvalFails cx sc e c lg := by
  unfold evalFailsB at h
  rcases hr : (EV.eval cx.fns sc e).run {} with u | ⟨v, st⟩
  · simp only [hr, Option.some.injEq, Prod.mk.injEq] at h
    obtain ⟨rfl, rfl⟩ := h
    exact .panic hr
  · simp only [hr] at h
    cases he : st.err with
    | none => simp [he] at h
    | some er =>
      simp only [he, Option.some.injEq, Prod.mk.injEq] at h
      obtain ⟨rfl, rfl⟩ := h
      exact .err v st er hr he

def shapeB (cfg : RN.Cfg) (node : Node) (a : CAttr) (post : List CAttr) : Bool :=
  decide (node.d.kind = .tag) && decide (node.d.attrs = a :: post) &&
  post.all (fun x => decide (classify cfg x = .plain) && !node.d.attrs.any (fun b => b.name == cfg.attrPrefix ++ x.name)) &&
  !(trimSlash (RN.lowerS node.d.tagName) == cfg.tagPrefix ++ "block")

theorem shape_of_B {cfg : RN.Cfg} {node : Node} {a : CAttr} {post : List CAttr} (h : shapeB cfg node a post = true) :
    Shape cfg node a post := by
  simp only [shapeB, Bool.and_eq_true, decide_eq_true_eq, List.all_eq_true, Bool.not_eq_true'] at h
  obtain ⟨⟨⟨h1, h2⟩, h3⟩, h4⟩ := h
  exact ⟨h1, h2, fun x hx => h3 x hx, h4⟩

def chainTailB (cfg : RN.Cfg) : Nat → List Node → Bool
  | _, [] => true
  | prev, k :: ks =>
    if k.d.kind = .tag then
      decide (k.d.prevTag = some prev) &&
      (match condAttr cfg k.d.attrs with | some (ca, false) => ca.value.isSome | _ => false) &&
      !(RN.Spec.idsL k.kids).contains k.d.id && chainTailB cfg k.d.id ks
    else !(RN.Spec.ids k).contains prev && chainTailB cfg prev ks

theorem chainTail_of_B {cfg : RN.Cfg} : ∀ {ks : List Node} {prev : Nat}, chainTailB cfg prev ks = true → ChainTail cfg prev ks
  | [], prev, _ => .nil prev
  | k :: ks, prev, h => by
    unfold chainTailB at h
    by_cases ht : k.d.kind = .tag
    · simp only [ht, if_true, Bool.and_eq_true, decide_eq_true_eq, Bool.not_eq_true'] at h
      obtain ⟨⟨⟨h1, h2⟩, h3⟩, h4⟩ := h
      cases hc : condAttr cfg k.d.attrs with
      | none => simp [hc] at h2
      | some p =>
        obtain ⟨ca, b⟩ := p
        cases b with
        | true => simp [hc] at h2
        | false =>
          simp only [hc] at h2
          obtain ⟨v, hv⟩ := Option.isSome_iff_exists.1 h2
          exact .elem prev k ks ca v ht h1 hc hv (by simpa using h3) (chainTail_of_B h4)
    · simp only [ht, if_false, Bool.and_eq_true, Bool.not_eq_true'] at h
      exact .skip prev k ks ht (by simpa using h.1) (chainTail_of_B h.2)

def chainB (cfg : RN.Cfg) : List Node → Bool
  | [] => false
  | e :: ks =>
    decide (e.d.kind = .tag) && (match condAttr cfg e.d.attrs with | some (ca, true) => ca.value.isSome | _ => false) &&
    !(RN.Spec.idsL e.kids).contains e.d.id && chainTailB cfg e.d.id ks

theorem chain_of_B {cfg : RN.Cfg} {ks : List Node} (h : chainB cfg ks = true) : Chain cfg ks := by
  cases ks with
  | nil => cases h
  | cons e ks =>
    simp only [chainB, Bool.and_eq_true, decide_eq_true_eq, Bool.not_eq_true'] at h
    obtain ⟨⟨⟨h1, h2⟩, h3⟩, h4⟩ := h
    cases hc : condAttr cfg e.d.attrs with
    | none => simp [hc] at h2
    | some p =>
      obtain ⟨ca, b⟩ := p
      cases b with
      | false => simp [hc] at h2
      | true =>
        simp only [hc] at h2
        obtain ⟨v, hv⟩ := Option.isSome_iff_exists.1 h2
        exact .mk e ks ca v h1 hc hv (by simpa using h3) (chainTail_of_B h4)

/-- the `i`-th child (a default node when there is none) -/
def kid (r : Node) (i : Nat) : Node := r.kids[i]?.getD default

theorem kid_mem {r : Node} {i : Nat} (h : (kid r i).d.kind = .tag) : kid r i ∈ r.kids := by
  unfold kid at h ⊢
  cases hk : r.kids[i]? with
  | none => rw [hk] at h; cases h
  | some k => exact List.mem_of_getElem? hk

theorem kids_split {r : Node} {i : Nat} (h : i < r.kids.length) :
    r.kids = r.kids.take i ++ kid r i :: r.kids.drop (i + 1) := by
  have : kid r i = r.kids[i] := by simp [kid, h]
  rw [this, ← List.drop_eq_getElem_cons h, List.take_append_drop]

theorem kid_ok {cfg : RN.Cfg} {r : Node} {i : Nat} (hu : Uniq r) (hs : Sorted cfg r) (h : (kid r i).d.kind = .tag) :
    Uniq (kid r i) ∧ Sorted cfg (kid r i) :=
  ⟨Callbacks.Examples.uniqL_mem hu.kids (kid_mem h), Callbacks.Examples.sortedL_mem hs.kids (kid_mem h)⟩

/-- two runs over the same children that both have enough fuel agree -/
theorem refKids_fuel_irrel {Sc : Type} (cfg : RN.Cfg) (env : Env Sc) (f g depth : Nat) (nc : NC) (ks : List Node) (sc : Sc)
    (hf : (refKids cfg env f depth nc ks sc).st ≠ .fuel) (hg : (refKids cfg env g depth nc ks sc).st ≠ .fuel) :
    refKids cfg env f depth nc ks sc = refKids cfg env g depth nc ks sc := by
  rcases Nat.le_total f g with h | h
  · exact (refKids_mono cfg env h hf).symm
  · exact refKids_mono cfg env h hg

/-! ## 6. the user functions of a loaded manager -/

theorem addFile_fns {cfg : EN.Cfg} {fns : List (String × FnSpec)} {idx : Nat} {name src : String} {m m' : Mgr}
    (h : addFile cfg fns idx name src m = .ok m') : m'.cx.fns = fns := by
  unfold addFile at h
  split at h
  · cases h
  · split at h
    · cases h
    · cases h
    · unfold registerFile at h
      split at h
      · unfold withTemplates at h
        split at h
        · cases h; rfl
        all_goals cases h
      all_goals cases h

theorem loadFrom_fns (cfg : EN.Cfg) (fns : List (String × FnSpec)) : ∀ (files : List (String × String)) (i : Nat) (m m' : Mgr),
    m.cx.fns = fns → loadFrom cfg fns i files m = .ok m' → m'.cx.fns = fns
  | [], i, m, m', h0, h => by simp only [loadFrom, LoadRes.ok.injEq] at h; subst h; exact h0
  | f :: rest, i, m, m', h0, h => by
    rw [loadFrom] at h
    cases ha : addFile cfg fns (i + 1) f.1 f.2 m with
    | ok m1 => simp only [ha] at h; exact loadFrom_fns cfg fns rest (i + 1) m1 m' (addFile_fns ha) h
    | err => simp [ha] at h
    | panic => simp [ha] at h
    | unsupported => simp [ha] at h

/-- a loaded manager evaluates with the functions it was loaded with -/
theorem loadFiles_fns (cfg : EN.Cfg) (fns : List (String × FnSpec)) (files : List (String × String)) (m : Mgr)
    (h : loadFiles cfg fns files = .ok m) : m.cx.fns = fns :=
  loadFrom_fns cfg fns files 0 (emptyMgr cfg fns) m rfl h

end Concrete

