import TplModel.Sys.Reload
/-! Helper lemmas for `Props/C18.lean` (model: `Sys/Reload.lean`). Core-only. -/
namespace RL

@[simp] theorem runFrom_length (hot : Bool) (s : State) (ops : List Op) :
    (runFrom hot s ops).length = ops.length := by
  induction ops generalizing s with
  | nil => rfl
  | cons op ops ih => simp [runFrom, ih]

@[simp] theorem run_length (hot : Bool) (first : Build) (ops : List Op) :
    (run hot first ops).length = ops.length := runFrom_length ..

theorem execFrom_append (hot : Bool) (s : State) (a b : List Op) :
    execFrom hot s (a ++ b) = execFrom hot (execFrom hot s a) b := by
  induction a generalizing s with
  | nil => rfl
  | cons op a ih => simp [execFrom, ih]

theorem runFrom_append (hot : Bool) (s : State) (a b : List Op) :
    runFrom hot s (a ++ b) = runFrom hot s a ++ runFrom hot (execFrom hot s a) b := by
  induction a generalizing s with
  | nil => rfl
  | cons op a ih => simp [runFrom, execFrom, ih]

/-- The `i`-th output is the output of the `i`-th operation on the state reached by the operations before it. -/
theorem runFrom_getElem? (hot : Bool) (s : State) (ops : List Op) (i : Nat) (h : i < ops.length) :
    (runFrom hot s ops)[i]? = some (step hot (execFrom hot s (ops.take i)) ops[i]).2 := by
  induction ops generalizing s i with
  | nil => simp at h
  | cons op ops ih =>
    cases i with
    | zero => simp [runFrom, execFrom]
    | succ i =>
      have h' : i < ops.length := by simpa using h
      simp [runFrom, execFrom, ih _ i h']

theorem run_getElem? (hot : Bool) (first : Build) (ops : List Op) (i : Nat) (h : i < ops.length) :
    (run hot first ops)[i]? = some (step hot (exec hot first (ops.take i)) ops[i]).2 :=
  runFrom_getElem? ..

/-- Requests and `GetTemplate` never change the state. -/
theorem step_state (hot : Bool) (s : State) (op : Op) :
    (step hot s op).1 = match op with
      | .reload (.ok m) => { current := some m }
      | _ => s := by
  cases op with
  | reload b => cases b <;> rfl
  | request => rfl
  | getTemplate => rfl

/-- In BOTH modes the stored manager is the last successfully reloaded one (else the one we started with). -/
theorem execFrom_current (hot : Bool) (s : State) (ops : List Op) :
    (execFrom hot s ops).current = match lastReload? ops with
      | some m => some m
      | none => s.current := by
  induction ops generalizing s with
  | nil => rfl
  | cons op ops ih =>
    simp only [execFrom, lastReload?, ih]
    cases h : lastReload? ops with
    | some m => rfl
    | none =>
      simp only [step_state]
      cases op with
      | reload b => cases b <;> rfl
      | request => rfl
      | getTemplate => rfl

theorem init_current (hot : Bool) (first : Build) : (init hot first).1.current = first.mgr? := by
  cases first <;> rfl

theorem exec_current (hot : Bool) (first : Build) (ops : List Op) :
    (exec hot first ops).current = lastSuccess first ops := by
  simp only [exec, execFrom_current, init_current, lastSuccess]
  cases lastReload? ops <;> rfl

theorem getTpl_cold (s : State) (name : Nat) (b : Build) :
    getTpl false s name b = serveFrom s.current name := by
  simp only [getTpl, serveFrom]
  cases s.current <;> rfl

theorem getTpl_hot (s : State) (name : Nat) (b : Build) :
    getTpl true s name b = serveFresh b name := by
  cases b <;> rfl

theorem lastReload?_append (a b : List Op) :
    lastReload? (a ++ b) = match lastReload? b with
      | some m => some m
      | none => lastReload? a := by
  induction a with
  | nil => simp only [List.nil_append, lastReload?]; cases lastReload? b <;> rfl
  | cons op a ih =>
    simp only [List.cons_append, lastReload?, ih]
    cases lastReload? b <;> rfl

theorem lastSuccess_after_ok (first : Build) (pre : List Op) (m : Mgr) (post : List Op)
    (h : lastReload? post = none) : lastSuccess first (pre ++ .reload (.ok m) :: post) = some m := by
  simp only [lastSuccess, lastReload?_append, lastReload?, h]

theorem lastSuccess_after_fail (first : Build) (pre : List Op) :
    lastSuccess first (pre ++ [.reload .fail]) = lastSuccess first pre := by
  simp only [lastSuccess, lastReload?_append, lastReload?]

end RL
