import TplModel.Html.Render
/-! # Proof-friendly equational forms of `RN.exec…` / `RN.ref…`

Nothing here changes the model: the helper definitions below are *named pieces* of the bodies of the mutual
definitions of `TplModel/Html/Render.lean`, and every `…_eq` theorem states that the original function (at
fuel `f+1`) equals the composition of the named pieces. -/
namespace RN
variable {Sc : Type}

/-! ## named pieces -/

/-- initial locals of processTagStart for the given flags of the node -/
def ps0 (cfg : Cfg) (d : NodeD) (flags : Nat) (sc : Sc) : PS Sc :=
  { data := sc, noPrint := (initOpt cfg d flags).1, child := (initOpt cfg d flags).2,
    tagBuf := if (initOpt cfg d flags).1 then "" else "<" ++ d.tagName }

def endChunk (node : Node) (np : Bool) : List String :=
  match node.endVal with | some e => if np then [] else [e] | none => []

/-- what `exec` does after the attribute loop -/
def execTail (cfg : Cfg) (env : Env Sc) (f depth : Nat) (node : Node) (pr : PR Sc) : R :=
  match pr.st with
  | .ok =>
    let ps := finishTag pr.ps
    let r0 : R := { st := .ok, out := [ps.tokenBuf], log := pr.log, nc := pr.nc, fl := pr.fl }
    (r0.andThen fun nc fl => execChild cfg env f depth nc fl node ps.child ps.data).andThen fun nc fl =>
      R.okR (endChunk node ps.noPrint) nc fl
  | st => { st := st, log := pr.log, nc := pr.nc, fl := pr.fl }

/-- what `refBody` does after the attribute loop -/
def refTail (cfg : Cfg) (env : Env Sc) (f depth : Nat) (node : Node) (pr : PR Sc) : Q :=
  match pr.st with
  | .ok =>
    let ps := finishTag pr.ps
    let r0 : Q := { st := .ok, out := [ps.tokenBuf], log := pr.log, nc := pr.nc }
    (r0.andThen fun nc => refChild cfg env f depth nc node ps.child ps.data).andThen fun nc =>
      Q.okQ (endChunk node ps.noPrint) nc
  | st => { st := st, log := pr.log, nc := pr.nc }

def leafOut (d : NodeD) : String :=
  match d.kind with
  | .comment => if isHiddenComment d.value then "" else d.value
  | .root => ""
  | _ => d.value
def leafNp (d : NodeD) : Bool :=
  match d.kind with
  | .comment => isHiddenComment d.value
  | _ => false

def withStep (env : Env Sc) (a : CAttr) (ps : PS Sc) (nc : NC) (fl : Fl) (k : PS Sc → PR Sc) : PR Sc :=
  match env.withAssign a ps.data with
  | (.error c, lg) => { st := .err c, ps := ps, log := lg, nc := nc, fl := fl }
  | (.ok sc', lg) =>
    let r := k { ps with data := sc' }
    { r with log := lg ++ r.log }

def evalCondStep (env : Env Sc) (reexec : NC → Fl → Sc → R) (d : NodeD) (a : CAttr) (ps : PS Sc) (nc : NC) (fl1 : Fl) : PR Sc :=
  let ps1 := { ps with child := .nop }
  match env.evalStr a ps.data with
  | (.error c, lg) => { st := .err c, ps := ps1, log := lg, nc := nc, fl := fl1 }
  | (.ok v, lg) =>
    if v == "true" then
      let r := (reexec (setNc nc d.id true) fl1 ps.data).buffered
      { st := r.st, ps := { ps1 with tokenBuf := ps1.tokenBuf ++ r.text }, log := lg ++ r.log, nc := r.nc, fl := r.fl }
    else { st := .ok, ps := ps1, log := lg, nc := setNc nc d.id false, fl := fl1 }

/-- processIfElse on the pass on which the condition flag is not yet set -/
def condStep (env : Env Sc) (reexec : NC → Fl → Sc → R) (d : NodeD) (a : CAttr) (isIf : Bool) (ps : PS Sc) (nc : NC) (fl : Fl) : PR Sc :=
  match a.value with
  | none => { st := .err .attrValueExpected, ps := ps, nc := nc, fl := fl }
  | some _ =>
    let fl1 := setFl fl d.id (fl d.id ||| 1)
    let ps1 := { ps with child := .nop }
    let r : PR Sc :=
      if isIf then evalCondStep env reexec d a ps nc fl1
      else
        match d.prevTag.bind nc with
        | none => { st := .err .unexpectedElse, ps := ps1, nc := nc, fl := fl1 }
        | some false => evalCondStep env reexec d a ps nc fl1
        | some true => { st := .ok, ps := ps1, nc := setNc nc d.id true, fl := fl1 }
    { r with fl := setFl r.fl d.id (r.fl d.id &&& 2) }

/-- processRange on the pass on which the range flag is not yet set -/
def rangeStep (env : Env Sc) (items : NC → Fl → List Sc → R) (d : NodeD) (a : CAttr) (ps : PS Sc) (nc : NC) (fl : Fl) : PR Sc :=
  match a.value with
  | none => { st := .err .attrValueExpected, ps := ps, nc := nc, fl := fl }
  | some _ =>
    let fl1 := setFl fl d.id (fl d.id ||| 2)
    match env.rangeItems a ps.data with
    | (.error c, lg) => { st := .err c, ps := ps, log := lg, nc := nc, fl := setFl fl1 d.id (fl1 d.id &&& 1) }
    | (.ok its, lg) =>
      let r := (items nc fl1 its).buffered
      { st := r.st, ps := { ps with tokenBuf := ps.tokenBuf ++ r.text }, log := lg ++ r.log, nc := r.nc,
        fl := setFl r.fl d.id (r.fl d.id &&& 1) }

/-- `with` phase of the specification -/
def withRes (cfg : Cfg) (env : Env Sc) (d : NodeD) (sc : Sc) : Except Cls Sc × List String :=
  match withAttr cfg d.attrs with
  | some a => env.withAssign a sc
  | none => (.ok sc, [])

def refWith (cfg : Cfg) (env : Env Sc) (d : NodeD) (sc : Sc) (nc : NC) (k : Sc → Q) : Q :=
  match withRes cfg env d sc with
  | (.error c, lg) => { st := .err c, log := lg, nc := nc }
  | (.ok sc1, lg) =>
    let r := k sc1
    { r with log := lg ++ r.log }

/-- range-or-body phase of the specification -/
def refRB (cfg : Cfg) (env : Env Sc) (f depth : Nat) (nc : NC) (node : Node) (sc : Sc) : Q :=
  match rangeAttr cfg node.d.attrs with
  | none => refBody cfg env f depth nc node sc
  | some ra => refRange cfg env f depth nc node ra sc

def refEvalCond (env : Env Sc) (rb : NC → Q) (d : NodeD) (ca : CAttr) (nc : NC) (sc1 : Sc) : Q :=
  match env.evalStr ca sc1 with
  | (.error c, lg) => { st := .err c, log := lg, nc := nc }
  | (.ok v, lg) =>
    if v == "true" then
      let r := (rb (setNc nc d.id true)).buffered
      { r with log := lg ++ r.log }
    else { st := .ok, out := [""], log := lg, nc := setNc nc d.id false }

/-- condition phase of the specification for the condition attribute `ca` -/
def refCondA (env : Env Sc) (rb : NC → Q) (d : NodeD) (ca : CAttr) (isIf : Bool) (nc : NC) (sc1 : Sc) : Q :=
  match ca.value with
  | none => { st := .err .attrValueExpected, nc := nc }
  | some _ =>
    if isIf then refEvalCond env rb d ca nc sc1
    else
      match d.prevTag.bind nc with
      | none => { st := .err .unexpectedElse, nc := nc }
      | some false => refEvalCond env rb d ca nc sc1
      | some true => { st := .ok, out := [""], nc := setNc nc d.id true }

/-- condition phase of the specification; `rb nc'` is the range-or-body phase -/
def refCondP (cfg : Cfg) (env : Env Sc) (rb : NC → Q) (d : NodeD) (nc : NC) (sc1 : Sc) : Q :=
  match condAttr cfg d.attrs with
  | none => rb nc
  | some (ca, isIf) => refCondA env rb d ca isIf nc sc1

/-! ## the original functions in terms of the pieces -/

theorem exec_tag_eq (cfg : Cfg) (env : Env Sc) (f depth : Nat) (nc : NC) (fl : Fl) (node : Node) (sc : Sc)
    (h : node.d.kind = .tag) :
    exec cfg env (f+1) depth nc fl node sc =
      execTail cfg env f depth node
        (procAttrs cfg env f depth nc fl node node.d.attrs (ps0 cfg node.d (fl node.d.id) sc)) := by
  rw [exec.eq_2]; simp only [h]; rfl

theorem exec_leaf_eq (cfg : Cfg) (env : Env Sc) (f depth : Nat) (nc : NC) (fl : Fl) (node : Node) (sc : Sc)
    (h : node.d.kind ≠ .tag) :
    exec cfg env (f+1) depth nc fl node sc =
      (R.okR [leafOut node.d] nc fl).andThen fun nc fl =>
        (execKids cfg env f depth nc fl node.kids sc).andThen fun nc fl =>
          R.okR (endChunk node (leafNp node.d)) nc fl := by
  rw [exec.eq_2]
  cases hk : node.d.kind
  case tag => exact absurd hk h
  all_goals simp only [leafOut, leafNp, endChunk, hk]
  all_goals first | rfl | simp

theorem refNode_leaf_eq (cfg : Cfg) (env : Env Sc) (f depth : Nat) (nc : NC) (node : Node) (sc : Sc)
    (h : node.d.kind ≠ .tag) :
    refNode cfg env (f+1) depth nc node sc =
      (Q.okQ [leafOut node.d] nc).andThen fun nc =>
        (refKids cfg env f depth nc node.kids sc).andThen fun nc =>
          Q.okQ (endChunk node (leafNp node.d)) nc := by
  rw [refNode.eq_2]
  cases hk : node.d.kind
  case tag => exact absurd hk h
  all_goals simp only [leafOut, leafNp, endChunk, hk]
  all_goals first | rfl | simp

theorem refNode_tag_eq (cfg : Cfg) (env : Env Sc) (f depth : Nat) (nc : NC) (node : Node) (sc : Sc)
    (h : node.d.kind = .tag) :
    refNode cfg env (f+1) depth nc node sc =
      refWith cfg env node.d sc nc fun sc1 =>
        refCondP cfg env (fun nc' => refRB cfg env f depth nc' node sc1) node.d nc sc1 := by
  rw [refNode.eq_2]; simp only [h]
  unfold refWith withRes refCondP refCondA refEvalCond refRB
  rfl

theorem refBody_eq (cfg : Cfg) (env : Env Sc) (f depth : Nat) (nc : NC) (node : Node) (sc : Sc) :
    refBody cfg env (f+1) depth nc node sc =
      refTail cfg env f depth node (refAttrs cfg env f depth nc node.d node.d.attrs (ps0 cfg node.d 3 sc)) := by
  rw [refBody.eq_2]; rfl

theorem isCtl_with {cfg : Cfg} {a : CAttr} (h : classify cfg a = .with_) : isCtl cfg a = true := by simp [isCtl, h]
theorem isCtl_cond {cfg : Cfg} {a : CAttr} {b} (h : classify cfg a = .cond b) : isCtl cfg a = true := by simp [isCtl, h]
theorem isCtl_range {cfg : Cfg} {a : CAttr} (h : classify cfg a = .range) : isCtl cfg a = true := by simp [isCtl, h]

theorem procAttrs_with_skip (cfg : Cfg) (env : Env Sc) (f depth : Nat) (nc : NC) (fl : Fl) (node : Node)
    (a : CAttr) (rest : List CAttr) (ps : PS Sc) (h : classify cfg a = .with_) (hf : fl node.d.id ≠ 0) :
    procAttrs cfg env (f+1) depth nc fl node (a :: rest) ps = procAttrs cfg env f depth nc fl node rest ps := by
  rw [procAttrs.eq_3]; simp only [h]; rw [if_pos hf]

theorem procAttrs_with (cfg : Cfg) (env : Env Sc) (f depth : Nat) (nc : NC) (fl : Fl) (node : Node)
    (a : CAttr) (rest : List CAttr) (ps : PS Sc) (h : classify cfg a = .with_) (hf : fl node.d.id = 0) :
    procAttrs cfg env (f+1) depth nc fl node (a :: rest) ps =
      withStep env a ps nc fl fun ps' => procAttrs cfg env f depth nc fl node rest ps' := by
  rw [procAttrs.eq_3]; simp only [h]; rw [if_neg (fun h' => h' hf)]; rfl

theorem procAttrs_cond_skip (cfg : Cfg) (env : Env Sc) (f depth : Nat) (nc : NC) (fl : Fl) (node : Node)
    (a : CAttr) (rest : List CAttr) (ps : PS Sc) {b : Bool} (h : classify cfg a = .cond b) (hf : fl node.d.id &&& 1 ≠ 0) :
    procAttrs cfg env (f+1) depth nc fl node (a :: rest) ps = procAttrs cfg env f depth nc fl node rest ps := by
  rw [procAttrs.eq_3]; simp only [h]; rw [if_pos hf]

theorem procAttrs_cond (cfg : Cfg) (env : Env Sc) (f depth : Nat) (nc : NC) (fl : Fl) (node : Node)
    (a : CAttr) (rest : List CAttr) (ps : PS Sc) {b : Bool} (h : classify cfg a = .cond b) (hf : fl node.d.id &&& 1 = 0) :
    procAttrs cfg env (f+1) depth nc fl node (a :: rest) ps =
      condStep env (fun nc fl sc => exec cfg env f depth nc fl node sc) node.d a b ps nc fl := by
  rw [procAttrs.eq_3]; simp only [h]; rw [if_neg (fun h' => h' hf)]
  unfold condStep evalCondStep
  rfl

theorem procAttrs_range_skip (cfg : Cfg) (env : Env Sc) (f depth : Nat) (nc : NC) (fl : Fl) (node : Node)
    (a : CAttr) (rest : List CAttr) (ps : PS Sc) (h : classify cfg a = .range) (hf : fl node.d.id &&& 2 ≠ 0) :
    procAttrs cfg env (f+1) depth nc fl node (a :: rest) ps = procAttrs cfg env f depth nc fl node rest ps := by
  rw [procAttrs.eq_3]; simp only [h]; rw [if_pos hf]

theorem procAttrs_range (cfg : Cfg) (env : Env Sc) (f depth : Nat) (nc : NC) (fl : Fl) (node : Node)
    (a : CAttr) (rest : List CAttr) (ps : PS Sc) (h : classify cfg a = .range) (hf : fl node.d.id &&& 2 = 0) :
    procAttrs cfg env (f+1) depth nc fl node (a :: rest) ps =
      rangeStep env (fun nc fl its => execItems cfg env f depth nc fl node its true) node.d a ps nc fl := by
  rw [procAttrs.eq_3]; simp only [h]; rw [if_neg (fun h' => h' hf)]
  unfold rangeStep
  rfl

theorem procAttrs_body (cfg : Cfg) (env : Env Sc) (f depth : Nat) (nc : NC) (fl : Fl) (node : Node)
    (a : CAttr) (rest : List CAttr) (ps : PS Sc) (h : isCtl cfg a = false) :
    procAttrs cfg env (f+1) depth nc fl node (a :: rest) ps =
      (bodyStep cfg env (fun t sc => execFrag cfg env f depth nc fl t sc) node.d a (classify cfg a) ps nc fl).andThen
        fun ps nc fl => procAttrs cfg env f depth nc fl node rest ps := by
  rw [procAttrs.eq_3]
  cases hk : classify cfg a <;> simp only [isCtl, hk] at h ⊢ <;> first | rfl | simp at h

theorem refAttrs_skip (cfg : Cfg) (env : Env Sc) (f depth : Nat) (nc : NC) (d : NodeD)
    (a : CAttr) (rest : List CAttr) (ps : PS Sc) (h : isCtl cfg a = true) :
    refAttrs cfg env (f+1) depth nc d (a :: rest) ps = refAttrs cfg env f depth nc d rest ps := by
  rw [refAttrs.eq_3]; simp [h]

theorem refAttrs_body (cfg : Cfg) (env : Env Sc) (f depth : Nat) (nc : NC) (d : NodeD)
    (a : CAttr) (rest : List CAttr) (ps : PS Sc) (h : isCtl cfg a = false) :
    refAttrs cfg env (f+1) depth nc d (a :: rest) ps =
      (bodyStep cfg env (fun t sc => (refFrag cfg env f depth nc t sc).toR emptyFl) d a (classify cfg a) ps nc emptyFl).andThen
        fun ps nc _ => refAttrs cfg env f depth nc d rest ps := by
  rw [refAttrs.eq_3]; simp [h]

end RN
