import TplModel.Proofs.LoaderSafety
import TplModel.Proofs.CodeScanReject
/-! # Blank expression texts and blank `${…}` blocks (helper lemmas for `Props/C10blank.lean`)

* `EL.Blank cs`: `cs` consists of characters the lexer skips in default mode — white space (space, tab, CR, LF),
  closed `/* … */` comments and `// …` line comments.  `EL.lex_blank`: such a text lexes to the EMPTY token list
  (the fuel of `lexAll` is never exhausted), `EL.parseCode_blank`: and is rejected by `ParseCode`.
* `CS.block_reached`: after a well-formed prefix (`CS.WfPre`), a block `${code}` whose code has no braces and no
  string quotes either makes the scan fail, or its text `code` is one of the block texts of the scanned value —
  whatever follows the `}`.
* `CS.wfPreB`: a Boolean state machine deciding `CS.WfPre` (`CS.wfPre_iff_wfPreB`); `CS.plainLit`: the simple case.
Core-only. -/
set_option linter.unusedSimpArgs false
set_option linter.unusedVariables false

namespace EL

/-- the white space skipped by the lexer (`WS`, `TERMINATOR` of GoLexer.g4; `lexDefault` / `lexNL`) -/
def isWs (c : Char) : Bool := c = ' ' || c = '\t' || c = '\r' || c = '\n'

/-- CR / LF -/
def isNl (c : Char) : Bool := c = '\r' || c = '\n'

/-- text that produces no token in default mode: white space, closed `/* */` comments (the body does not contain
    `*/`: `commentEnd body = none`), `//` comments up to the end of the line / of the input -/
inductive Blank : List Char → Prop
  | nil : Blank []
  | ws (c : Char) (rest : List Char) : isWs c = true → Blank rest → Blank (c :: rest)
  | block (body rest : List Char) : commentEnd body = none → Blank rest →
      Blank ('/' :: '*' :: (body ++ '*' :: '/' :: rest))
  | lineEnd (body : List Char) : (∀ c ∈ body, isNl c = false) → Blank ('/' :: '/' :: body)
  | lineNl (body : List Char) (c : Char) (rest : List Char) : (∀ c ∈ body, isNl c = false) → isNl c = true →
      Blank rest → Blank ('/' :: '/' :: (body ++ c :: rest))

theorem isWs_of_isNl {c : Char} (h : isNl c = true) : isWs c = true := by
  simp only [isNl, isWs, Bool.or_eq_true, decide_eq_true_eq] at h ⊢
  rcases h with h | h <;> simp [h]

theorem Blank.tail {c : Char} {rest : List Char} (h : Blank (c :: rest)) (hc : isWs c = true) : Blank rest := by
  cases h with
  | ws _ _ _ h => exact h
  | block => exact absurd hc (by decide)
  | lineEnd => exact absurd hc (by decide)
  | lineNl => exact absurd hc (by decide)

/-- dropping a run of white space from a blank text leaves a blank text -/
theorem Blank.drop_run (p : Char → Bool) (hp : ∀ c, p c = true → isWs c = true) :
    ∀ {cs : List Char}, Blank cs → Blank (cs.drop (takeWhileN p cs))
  | [], h => by simpa [takeWhileN] using h
  | c :: rest, h => by
    unfold takeWhileN
    rw [List.takeWhile_cons]
    by_cases hc : p c = true
    · simp only [hc, if_true, List.length_cons, List.drop_succ_cons]
      exact Blank.drop_run p hp (h.tail (hp c hc))
    · simp only [hc, Bool.false_eq_true, if_false, List.length_nil, List.drop_zero]
      exact h

theorem takeWhileN_le (p : Char → Bool) (cs : List Char) : takeWhileN p cs ≤ cs.length := by
  unfold takeWhileN
  exact (List.takeWhile_sublist p).length_le

theorem takeWhileN_pos (p : Char → Bool) (c : Char) (rest : List Char) (h : p c = true) :
    1 ≤ takeWhileN p (c :: rest) := by
  unfold takeWhileN
  rw [List.takeWhile_cons]
  simp [h]

/-- `commentEnd` on a body without `*/` followed by `*/` -/
theorem commentEnd_append : ∀ (body rest : List Char), commentEnd body = none →
    commentEnd (body ++ '*' :: '/' :: rest) = some (body.length + 2)
  | [], rest, _ => by simp [commentEnd]
  | [c], rest, _ => by
    simp only [List.singleton_append, List.length_cons, List.length_nil]
    rw [commentEnd.eq_2]
    · simp [commentEnd]
    · intro r _ h; cases h
  | c :: d :: body, rest, h => by
    by_cases hcd : c = '*' ∧ d = '/'
    · obtain ⟨rfl, rfl⟩ := hcd; simp [commentEnd] at h
    · have hside : ∀ (l : List Char) (tail : List Char), c = '*' → d :: l = '/' :: tail → False := by
        intro l tail h1 h2; cases h2; exact hcd ⟨h1, rfl⟩
      have h' : commentEnd (d :: body) = none := by
        rw [commentEnd.eq_2 _ _ (hside body)] at h
        simpa using h
      have ih := commentEnd_append (d :: body) rest h'
      simp only [List.cons_append] at ih ⊢
      rw [commentEnd.eq_2 _ _ (hside _), ih]
      simp

theorem takeWhileN_all (p : Char → Bool) : ∀ (body : List Char), (∀ c ∈ body, p c = true) →
    takeWhileN p body = body.length
  | [], _ => rfl
  | c :: body, h => by
    have := takeWhileN_all p body (fun c hc => h c (List.mem_cons_of_mem _ hc))
    unfold takeWhileN at this ⊢
    rw [List.takeWhile_cons]
    simp [h c List.mem_cons_self, this]

theorem takeWhileN_stop (p : Char → Bool) : ∀ (body : List Char) (c : Char) (rest : List Char),
    (∀ c ∈ body, p c = true) → p c = false → takeWhileN p (body ++ c :: rest) = body.length
  | [], c, rest, _, hc => by unfold takeWhileN; rw [List.nil_append, List.takeWhile_cons]; simp [hc]
  | b :: body, c, rest, h, hc => by
    have := takeWhileN_stop p body c rest (fun c hc => h c (List.mem_cons_of_mem _ hc)) hc
    unfold takeWhileN at this ⊢
    rw [List.cons_append, List.takeWhile_cons]
    simp [h b List.mem_cons_self, this]

/-- one step of the lexer on a non-empty blank text: nothing is emitted, at least one character is consumed, the mode
    stays "default", and the rest is blank -/
theorem lexDefault_blank {cs : List Char} (h : Blank cs) (hne : cs ≠ []) :
    ∃ k, lexDefault cs = some (none, k, false) ∧ 1 ≤ k ∧ k ≤ cs.length ∧ Blank (cs.drop k) := by
  cases h with
  | nil => exact absurd rfl hne
  | ws c rest hc hr =>
    have hb : Blank (c :: rest) := .ws c rest hc hr
    by_cases h1 : (c = ' ' || c = '\t') = true
    · refine ⟨takeWhileN (fun c => c = ' ' || c = '\t') (c :: rest), ?_, takeWhileN_pos _ _ _ (by simpa using h1),
        takeWhileN_le _ _, hb.drop_run _ ?_⟩
      · simp only [lexDefault, h1, if_true]
      · intro d hd; simp only [Bool.or_eq_true, decide_eq_true_eq] at hd; rcases hd with hd | hd <;> simp [isWs, hd]
    · have h2 : (c = '\r' || c = '\n') = true := by
        simp only [isWs, Bool.or_eq_true, decide_eq_true_eq] at hc h1 ⊢
        rcases hc with ((hc | hc) | hc) | hc
        · exact absurd (Or.inl hc) h1
        · exact absurd (Or.inr hc) h1
        · exact Or.inl hc
        · exact Or.inr hc
      refine ⟨takeWhileN (fun c => c = '\r' || c = '\n') (c :: rest), ?_, takeWhileN_pos _ _ _ (by simpa using h2),
        takeWhileN_le _ _, hb.drop_run _ ?_⟩
      · simp only [lexDefault, h1, h2, if_true, Bool.false_eq_true, if_false]
      · intro d hd; simp only [Bool.or_eq_true, decide_eq_true_eq] at hd; rcases hd with hd | hd <;> simp [isWs, hd]
  | block body rest hb hr =>
    refine ⟨2 + (body.length + 2), ?_, by omega, by simp; omega, ?_⟩
    · simp [lexDefault, commentEnd_append body rest hb]
    · have : 2 + (body.length + 2) = (body ++ ['*', '/']).length + 2 := by simp; omega
      rw [this]
      simp only [List.drop_succ_cons]
      have e : body ++ '*' :: '/' :: rest = (body ++ ['*', '/']) ++ rest := by simp
      rw [e, List.drop_left]
      exact hr
  | lineEnd body hb =>
    have hall : ∀ c ∈ '/' :: '/' :: body, (fun c => c ≠ '\r' && c ≠ '\n') c = true := by
      intro c hc
      simp only [List.mem_cons] at hc
      rcases hc with rfl | rfl | hc
      · decide
      · decide
      · have := hb c hc; simp only [isNl, Bool.or_eq_false_iff, decide_eq_false_iff_not] at this
        simp [this.1, this.2]
    refine ⟨(('/' :: '/' :: body).length), ?_, by simp, Nat.le_refl _, by rw [List.drop_length]; exact .nil⟩
    simp only [lexDefault]
    rw [takeWhileN_all _ _ hall]
    simp
  | lineNl body c rest hb hc hr =>
    have hall : ∀ c ∈ '/' :: '/' :: body, (fun c => c ≠ '\r' && c ≠ '\n') c = true := by
      intro c hc
      simp only [List.mem_cons] at hc
      rcases hc with rfl | rfl | hc
      · decide
      · decide
      · have := hb c hc; simp only [isNl, Bool.or_eq_false_iff, decide_eq_false_iff_not] at this
        simp [this.1, this.2]
    have hstop : (fun c => c ≠ '\r' && c ≠ '\n') c = false := by
      simp only [isNl, Bool.or_eq_true, decide_eq_true_eq] at hc
      rcases hc with rfl | rfl <;> decide
    have e : '/' :: '/' :: (body ++ c :: rest) = ('/' :: '/' :: body) ++ c :: rest := by simp
    refine ⟨(('/' :: '/' :: body).length), ?_, by simp, by simp, ?_⟩
    · simp only [lexDefault]
      rw [e, takeWhileN_stop _ _ _ _ hall hstop]
      simp
    · rw [e, List.drop_left]
      exact .ws c rest (isWs_of_isNl hc) hr

/-- a blank text produces no token; the fuel is not exhausted -/
theorem lexAll_blank : ∀ (n : Nat) (cs : List Char), cs.length ≤ n → Blank cs → ∀ (f : Nat) (acc : List Tok),
    cs.length + 1 ≤ f → lexAll f false cs acc = .ok acc.reverse := by
  intro n
  induction n with
  | zero =>
    intro cs hn _ f acc hf
    have : cs = [] := List.eq_nil_of_length_eq_zero (by omega)
    subst this
    obtain ⟨f', rfl⟩ : ∃ f', f = f' + 1 := ⟨f - 1, by simp at hf; omega⟩
    simp [lexAll]
  | succ n ih =>
    intro cs hn hb f acc hf
    obtain ⟨f', rfl⟩ : ∃ f', f = f' + 1 := ⟨f - 1, by omega⟩
    cases cs with
    | nil => simp [lexAll]
    | cons c rest =>
      obtain ⟨k, hk, h1, h2, h3⟩ := lexDefault_blank hb (by simp)
      rw [lexAll]
      · simp only [Bool.false_eq_true, if_false, hk]
        apply ih _ _ h3
        all_goals (simp only [List.length_drop, List.length_cons] at *; omega)
      · intro h; cases h

/-- **a blank text lexes to the empty token list** -/
theorem lex_blank (s : String) (h : Blank s.toList) : lex s = .ok [] := by
  unfold lex
  simp only [Bool.and_false, Bool.false_eq_true, if_false]
  exact lexAll_blank _ _ (Nat.le_refl _) h _ [] (by omega)

/-- **a blank text is rejected by `ParseCode`**: there is no expression in it -/
theorem parseCode_blank (s : String) (h : Blank s.toList) : parseCode s = .reject := by
  unfold parseCode
  rw [lex_blank s h]
  rfl

end EL

namespace CS
open HS (Pos)

/-- `scanLiteral_skip` for an arbitrary property of the scanner's output: a well-formed prefix (`WfPre`: literal
    characters and complete simple blocks) leads from a literal state to a literal state -/
theorem scanLiteral_skipP {q : Char} (P : List CTok → Prop) (tail : List Char)
    (ht : ∀ f s start buf, tail.length + 1 ≤ f → s.firstCh = q → s.brace = 0 → P (scanLiteral f s start buf tail))
    {pre : List Char} (hp : WfPre q pre) :
    ∀ f s start buf, (pre ++ tail).length + 1 ≤ f → s.firstCh = q → s.brace = 0 →
      P (scanLiteral f s start buf (pre ++ tail)) := by
  induction hp with
  | nil => intro f s start buf hf hs hb; exact ht f s start buf hf hs hb
  | lit c pre hc hd _ ih =>
    intro f s start buf hf hs hb
    obtain ⟨f', rfl⟩ : ∃ f', f = f' + 1 := ⟨f - 1, by simp at hf; omega⟩
    simp only [List.cons_append, scanLiteral]
    have h1 : ((c = '"' || c = '\'') && decide (c = s.firstCh)) = false := by
      rw [hs]; simp [hc]
    rw [h1]
    simp only [Bool.false_eq_true, if_false, if_neg hd]
    apply ih
    · simp only [List.cons_append, List.length_cons] at hf; omega
    · exact hs
    · exact hb
  | dollar c pre hc _ ih =>
    intro f s start buf hf hs hb
    obtain ⟨f', rfl⟩ : ∃ f', f = f' + 1 := ⟨f - 1, by simp at hf; omega⟩
    simp only [List.cons_append, scanLiteral]
    have h1 : (('$' = '"' || '$' = '\'') && decide ('$' = s.firstCh)) = false := by simp
    rw [h1]
    simp only [Bool.false_eq_true, if_false, if_true]
    split
    · rename_i rest' heq
      simp only [List.cons.injEq] at heq
      exact absurd heq.1 hc
    · have := ih f' { s with pos := s.pos.advance '$' } start ('$' :: buf)
        (by simp only [List.cons_append, List.length_cons] at hf ⊢; omega) hs hb
      simpa using this
  | block code pre hsc _ ih =>
    intro f s start buf hf hs hb
    have hlen : (code ++ '}' :: (pre ++ tail)).length = code.length + 1 + (pre ++ tail).length := by simp; omega
    have hf' : 2 + (code.length + 1 + (pre ++ tail).length) + 1 ≤ f := by
      simp only [List.cons_append, List.append_assoc, List.length_cons, hlen] at hf; omega
    obtain ⟨f0, rfl⟩ : ∃ f0, f = (f0 + code.length + 1) + 1 := ⟨f - code.length - 2, by omega⟩
    simp only [List.cons_append, List.append_assoc, scanLiteral]
    have h1 : (('$' = '"' || '$' = '\'') && decide ('$' = s.firstCh)) = false := by simp
    rw [h1]
    simp only [Bool.false_eq_true, if_false, if_true]
    have key : ∀ (s1 : S) (p1 : Pos), s1.firstCh = q → s1.brace = 0 →
        P (scanCode (f0 + code.length + 1) s1 p1 [] (code ++ '}' :: (pre ++ tail))) := by
      intro s1 p1 hs1 hb1
      obtain ⟨s', p, e, e1, e2⟩ := scanCode_simple_block code hsc f0 s1 p1 [] (pre ++ tail) hb1
      rw [e]
      exact ih _ _ _ _ (by omega) (by rw [e1]; exact hs1) e2
    split
    · apply key
      · simp [S.emit]; exact hs
      · simp [S.emit]; exact hb
    · apply key
      · simp [S.emit]; exact hs
      · simp [S.emit]; exact hb

/-- the scan failed, or it produced a code-value token with the text `code` -/
def HasBlock (code : List Char) (ts : List CTok) : Prop :=
  ¬ Succ ts ∨ ∃ t ∈ ts, t.kind = .codeValue ∧ t.value = code

/-- a simple block `code}` read in state "block" at brace depth 0: its code-value token (text: what was buffered
    before, then `code`) is emitted and stays in the output, whatever follows -/
theorem scanCode_simple_emit : ∀ (code : List Char), SimpleCode code → ∀ (f : Nat) (s : S) (start : Pos) (buf cs : List Char),
    s.brace = 0 → (code ++ '}' :: cs).length + 1 ≤ f →
    HasBlock (buf.reverse ++ code) (scanCode f s start buf (code ++ '}' :: cs)) := by
  intro code
  induction code with
  | nil =>
    intro _ f s start buf cs hb hf
    obtain ⟨f', rfl⟩ : ∃ f', f = f' + 1 := ⟨f - 1, by simp at hf; omega⟩
    simp only [List.nil_append, List.length_cons] at hf
    simp only [List.nil_append, List.append_nil, scanCode]
    rw [if_neg (by decide), if_pos True.intro, if_pos hb]
    obtain ⟨new, hnew, _⟩ := (scan_main f').1
      (({ s with pos := s.pos.advance '}' }.emit ⟨.codeValue, start, s.pos, buf.reverse⟩).emit
        ⟨.codeEnd, s.pos, s.pos.advance '}', ['}']⟩) (s.pos.advance '}') [] cs (by omega)
    rw [hnew]
    refine Or.inr ⟨⟨.codeValue, start, s.pos, buf.reverse⟩, ?_, rfl, rfl⟩
    simp [S.emit]
  | cons c code ih =>
    intro hsc f s start buf cs hb hf
    obtain ⟨f', rfl⟩ : ∃ f', f = f' + 1 := ⟨f - 1, by simp at hf; omega⟩
    have hc := hsc c List.mem_cons_self
    have hsc' : SimpleCode code := fun c' h' => hsc c' (List.mem_cons_of_mem _ h')
    simp only [List.cons_append, scanCode]
    rw [if_neg hc.1, if_neg hc.2.1]
    have h3 : (c = '"' || c = '\'' || c = '`') = false := by simp [hc.2.2.1, hc.2.2.2.1, hc.2.2.2.2]
    rw [h3]
    simp only [Bool.false_eq_true, if_false]
    have := ih hsc' f' { s with pos := s.pos.advance c } start (c :: buf) cs hb
      (by simp only [List.cons_append, List.length_cons] at hf; omega)
    simpa using this

/-- from the literal state: `${code}` with simple code -/
theorem scanLiteral_block_emit (code post : List Char) (hc : SimpleCode code) (f : Nat) (s : S) (st : Pos) (buf : List Char)
    (hf : ('$' :: '{' :: (code ++ '}' :: post)).length + 1 ≤ f) (hb : s.brace = 0) :
    HasBlock code (scanLiteral f s st buf ('$' :: '{' :: (code ++ '}' :: post))) := by
  obtain ⟨f', rfl⟩ : ∃ f', f = f' + 1 := ⟨f - 1, by simp at hf; omega⟩
  simp only [scanLiteral]
  have h1 : (('$' = '"' || '$' = '\'') && decide ('$' = s.firstCh)) = false := by simp
  rw [h1]
  simp only [Bool.false_eq_true, if_false, if_true]
  simp only [List.length_cons] at hf
  split
  · have := scanCode_simple_emit code hc f'
      ({ s with pos := (s.pos.advance '$').advance '{' }.emit ⟨.codeStart, s.pos, (s.pos.advance '$').advance '{', "${".toList⟩)
      ((s.pos.advance '$').advance '{') [] post (by simp [S.emit]; exact hb) (by omega)
    simpa using this
  · have := scanCode_simple_emit code hc f'
      (({ s with pos := (s.pos.advance '$').advance '{' }.emit ⟨.literal, st, s.pos, buf.reverse⟩).emit
        ⟨.codeStart, s.pos, (s.pos.advance '$').advance '{', "${".toList⟩)
      ((s.pos.advance '$').advance '{') [] post (by simp [S.emit]; exact hb) (by omega)
    simpa using this

/-- **block_reached.**  A value `q pre ${code} post…` — `q` a quote, `pre` a well-formed prefix (literal text without
    `q`, `$` not followed by `{`, complete simple blocks), `code` without braces and string quotes, `post` ARBITRARY —
    either is not accepted by the code scanner, or `code` is the text of one of its code-value tokens. -/
theorem block_reached (start : Pos) (q : Char) (pre code post : List Char) (hq : isQuote q = true)
    (hp : WfPre q pre) (hc : SimpleCode code) :
    HasBlock code (scan start (q :: (pre ++ '$' :: '{' :: (code ++ '}' :: post)))) := by
  unfold scan
  have e : 3 * (q :: (pre ++ '$' :: '{' :: (code ++ '}' :: post))).length + 3 =
      (3 * (pre ++ '$' :: '{' :: (code ++ '}' :: post)).length + 5) + 1 := by simp; omega
  rw [e]
  simp only [scanQuot]
  have hq' : (q = '"' || q = '\'') = true := hq
  rw [if_pos hq']
  simp only [Bool.false_eq_true, if_false]
  refine scanLiteral_skipP (q := q) (HasBlock code) _ ?_ hp _ _ _ _ (by omega) (by simp [S.emit]) (by simp [S.emit])
  intro f s st buf hf hs hb
  exact scanLiteral_block_emit code post hc f s st buf hf hb

/-- plain literal text: no `$` and not the quote character -/
def plainLit (q : Char) (pre : List Char) : Bool := pre.all fun c => c ≠ q && c ≠ '$'

theorem wfPre_of_plainLit {q : Char} : ∀ {pre : List Char}, plainLit q pre = true → WfPre q pre
  | [], _ => .nil
  | c :: pre, h => by
    simp only [plainLit, List.all_cons, Bool.and_eq_true, bne_iff_ne, ne_eq, decide_eq_true_eq] at h
    exact .lit c pre (by simpa using h.1.1) (by simpa using h.1.2) (wfPre_of_plainLit (by simpa [plainLit] using h.2))

/-- states of the checker `wfPreB`: in literal text, just after a `$` in literal text, inside a simple block -/
inductive PreSt | lit | dollar | block
deriving DecidableEq, Repr

/-- a decidable criterion for `WfPre q pre` (sound: `wfPre_of_wfPreB`): literal characters other than `q`, a `$` only
    when a character other than `{` follows, and blocks `${code}` whose code has no `{`, no `}` and no string quote -/
def wfPreB (q : Char) : PreSt → List Char → Bool
  | .lit, [] => true
  | .dollar, [] => false
  | .block, [] => false
  | .lit, c :: rest => if c = q then false else if c = '$' then wfPreB q .dollar rest else wfPreB q .lit rest
  | .dollar, c :: rest =>
    if c = '{' then wfPreB q .block rest
    else if c = q then false else if c = '$' then wfPreB q .dollar rest else wfPreB q .lit rest
  | .block, c :: rest =>
    if c = '}' then wfPreB q .lit rest
    else if c = '{' || c = '"' || c = '\'' || c = '`' then false
    else wfPreB q .block rest

theorem wfPreB_sound (q : Char) : ∀ (cs : List Char),
    (wfPreB q .lit cs = true → WfPre q cs) ∧
    (wfPreB q .dollar cs = true → WfPre q ('$' :: cs)) ∧
    (wfPreB q .block cs = true → ∃ code pre, cs = code ++ '}' :: pre ∧ SimpleCode code ∧ WfPre q pre)
  | [] => ⟨fun _ => .nil, fun h => by simp [wfPreB] at h, fun h => by simp [wfPreB] at h⟩
  | c :: rest => by
    obtain ⟨ihL, ihD, ihB⟩ := wfPreB_sound q rest
    have hlit : (if c = q then false else if c = '$' then wfPreB q .dollar rest else wfPreB q .lit rest) = true →
        WfPre q (c :: rest) := by
      intro h
      split at h
      · cases h
      · rename_i hcq
        split at h
        · rename_i hcd; subst hcd; exact ihD h
        · rename_i hcd; exact .lit c rest hcq hcd (ihL h)
    refine ⟨fun h => hlit (by simpa [wfPreB] using h), ?_, ?_⟩
    · intro h
      rw [wfPreB] at h
      split at h
      · rename_i hc
        subst hc
        obtain ⟨code, pre, e, h1, h2⟩ := ihB h
        rw [e]
        exact .block code pre h1 h2
      · rename_i hc
        exact .dollar c rest hc (hlit h)
    · intro h
      rw [wfPreB] at h
      split at h
      · rename_i hc
        subst hc
        exact ⟨[], rest, rfl, (fun _ hm => by cases hm), ihL h⟩
      · rename_i hc
        split at h
        · cases h
        · rename_i hc2
          obtain ⟨code, pre, e, h1, h2⟩ := ihB h
          refine ⟨c :: code, pre, by rw [e]; rfl, ?_, h2⟩
          intro c' hm
          rcases List.mem_cons.mp hm with rfl | hm
          · simp only [Bool.or_eq_true, decide_eq_true_eq, not_or] at hc2
            exact ⟨hc2.1.1.1, hc, hc2.1.1.2, hc2.1.2, hc2.2⟩
          · exact h1 c' hm

theorem wfPre_of_wfPreB {q : Char} {pre : List Char} (h : wfPreB q .lit pre = true) : WfPre q pre :=
  (wfPreB_sound q pre).1 h

theorem wfPreB_block_simple (q : Char) (pre : List Char) : ∀ (code : List Char), SimpleCode code →
    wfPreB q .block (code ++ '}' :: pre) = wfPreB q .lit pre
  | [], _ => by simp [wfPreB]
  | c :: code, h => by
    have hc := h c List.mem_cons_self
    have ih := wfPreB_block_simple q pre code (fun c' h' => h c' (List.mem_cons_of_mem _ h'))
    simp [wfPreB, hc.1, hc.2.1, hc.2.2.1, hc.2.2.2.1, hc.2.2.2.2, ih]

/-- `wfPreB` is complete as well (for a quote character `q`; only `q ≠ '$'` is used) -/
theorem wfPreB_of_wfPre {q : Char} (hq : q ≠ '$') {pre : List Char} (h : WfPre q pre) : wfPreB q .lit pre = true := by
  induction h with
  | nil => rfl
  | lit c pre hc hd _ ih => simp [wfPreB, hc, hd, ih]
  | dollar c pre hc _ ih =>
    have : wfPreB q .lit ('$' :: c :: pre) = wfPreB q .lit (c :: pre) := by
      simp [wfPreB, hc, Ne.symm hq]
    rw [this]; exact ih
  | block code pre hsc _ ih =>
    have : wfPreB q .lit ('$' :: '{' :: (code ++ '}' :: pre)) = wfPreB q .lit pre := by
      simp [wfPreB, Ne.symm hq, wfPreB_block_simple q pre code hsc]
    rw [this]; exact ih

/-- **`WfPre` is decidable**: for a quote character `q`, `WfPre q pre ↔ wfPreB q .lit pre = true` -/
theorem wfPre_iff_wfPreB {q : Char} (hq : isQuote q = true) (pre : List Char) : WfPre q pre ↔ wfPreB q .lit pre = true :=
  ⟨wfPreB_of_wfPre (by intro e; rw [e] at hq; exact absurd hq (by decide)), wfPre_of_wfPreB⟩

end CS

namespace EN
open RN (CAttr Part)

/-- a directive attribute whose value is not accepted by the code scanner, or one of whose blocks is rejected by
    `ParseCode`, does not compile -/
theorem compileAttrS_not_ok_of_bad (cfg : Cfg) (a : HS.Attr) (v : List Char) (tbl : Tbl)
    (hdir : (String.ofList a.name).startsWith cfg.attrPrefix = true) (hv : attrValueOf cfg a = some v)
    (hbad : ¬ CS.Succ (CS.scan a.valueStart v) ∨ ∃ s ∈ blockTexts (CS.scan a.valueStart v), EL.parseCode s = .reject) :
    ∀ ca tbl', compileAttrS cfg a tbl ≠ (.ok ca, tbl') := by
  intro ca tbl' h
  obtain ⟨hs, es, hal, _, _⟩ := (compileAttrS_dir_ok_iff cfg a v tbl tbl' ca hdir hv).1 h
  rcases hbad with hn | ⟨s, hs', hr⟩
  · exact hn hs
  · obtain ⟨e, _, he⟩ := hal.mem_left hs'
    unfold Accepts at he; rw [hr] at he; cases he

/-- `CS.HasBlock` in terms of `blockTexts` -/
theorem hasBlock_blockTexts {code : List Char} {ts : List CS.CTok} (h : CS.HasBlock code ts) :
    ¬ CS.Succ ts ∨ String.ofList code ∈ blockTexts ts := by
  rcases h with h | ⟨t, ht, hk, hv⟩
  · exact Or.inl h
  · exact Or.inr (mem_blockTexts.mpr ⟨t, ht, hk, by rw [hv]⟩)

end EN
