import TplModel.Proofs.C10Proofs
/-! # Input-side rejection lemmas for the directive-value scanner `CS.scan`

The lemmas of `Props/C10.lean` about the end of input inside a block or a string (`eof_inside_*`) are stated for a
scanner state whose remaining input does not contain the closing quote at all.  A value that comes out of the HTML
scanner always ends with its opening quote, so at the level of the loader an unterminated `${` or an unterminated
string shows up differently: the closing quote of the value is swallowed by the block.  This file proves the forms
that apply to such values: after a well-formed prefix (`WfPre`: literal text and complete simple blocks),

* `${` followed by text without any `}` (`unterminated_block_fails`), and
* `${`, simple code, a string quote that does not occur again (`unterminated_string_fails`)

make `CS.scan` fail. -/
set_option linter.unusedSimpArgs false
set_option linter.unusedVariables false
namespace CS
open HS (Pos)

/-- the token list ends with the error marker -/
def Fails (ts : List CTok) : Prop := ts.getLast? = some errMark

theorem fails_fail (s : S) : Fails s.fail := by simp [Fails, S.fail]

theorem Fails.not_succ {ts : List CTok} (h : Fails ts) : ¬ Succ ts := fun hs => hs h

/-- code without braces and without string quotes -/
def SimpleCode (code : List Char) : Prop :=
  ∀ c ∈ code, c ≠ '{' ∧ c ≠ '}' ∧ c ≠ '"' ∧ c ≠ '\'' ∧ c ≠ '`'

instance (code : List Char) : Decidable (SimpleCode code) := by unfold SimpleCode; infer_instance

/-- inside `${ …`: if no `}` follows at all, the scan fails (whatever else follows — in particular the closing quote of
    the value, which is then read as the start of a string) -/
theorem scanCode_no_close : ∀ (f : Nat) (s : S) (start : Pos) (buf cs : List Char),
    cs.length + 1 ≤ f → '}' ∉ cs → Fails (scanCode f s start buf cs) := by
  intro f
  induction f with
  | zero => intro s start buf cs hf; omega
  | succ f ih =>
    intro s start buf cs hf hc
    cases cs with
    | nil => simp only [scanCode]; exact fails_fail s
    | cons c rest =>
      simp only [List.mem_cons, not_or, List.length_cons] at hc hf
      simp only [scanCode]
      split
      · exact ih _ _ _ _ (by omega) hc.2
      · split
        · rename_i h; exact absurd h.symm hc.1
        · split
          · split
            · rename_i str p2 rest' hs
              obtain ⟨k, _, hk, _⟩ := scanString_spec _ _ _ _ _ _ _ _ hs
              apply ih
              · have : rest.length = k.length + rest'.length := by rw [hk]; simp
                omega
              · intro hm; apply hc.2; rw [hk]; exact List.mem_append_right _ hm
            · exact fails_fail s
          · exact ih _ _ _ _ (by omega) hc.2

/-- inside `${ …`: simple code followed by a string quote that does not occur again ⇒ the scan fails -/
theorem scanCode_open_string (sq : Char) (hsq : sq = '"' ∨ sq = '\'' ∨ sq = '`') (rest : List Char) (hr : sq ∉ rest) :
    ∀ (code : List Char), SimpleCode code → ∀ (f : Nat) (s : S) (start : Pos) (buf : List Char),
    (code ++ sq :: rest).length + 1 ≤ f → Fails (scanCode f s start buf (code ++ sq :: rest)) := by
  intro code
  induction code with
  | nil =>
    intro _ f s start buf hf
    obtain ⟨f', rfl⟩ : ∃ f', f = f' + 1 := ⟨f - 1, by simp at hf; omega⟩
    simp only [List.nil_append, scanCode]
    have h1 : sq ≠ '{' := by rcases hsq with h | h | h <;> rw [h] <;> decide
    have h2 : sq ≠ '}' := by rcases hsq with h | h | h <;> rw [h] <;> decide
    rw [if_neg h1, if_neg h2]
    have h3 : (sq = '"' || sq = '\'' || sq = '`') = true := by
      rcases hsq with h | h | h <;> rw [h] <;> decide
    rw [if_pos h3, scanString_no_quote sq _ _ rest [] hr]
    exact fails_fail s
  | cons c code ih =>
    intro hsc f s start buf hf
    obtain ⟨f', rfl⟩ : ∃ f', f = f' + 1 := ⟨f - 1, by simp at hf; omega⟩
    have hc := hsc c List.mem_cons_self
    have hsc' : SimpleCode code := fun c' h' => hsc c' (List.mem_cons_of_mem _ h')
    simp only [List.cons_append, scanCode]
    rw [if_neg hc.1, if_neg hc.2.1]
    have h3 : (c = '"' || c = '\'' || c = '`') = false := by simp [hc.2.2.1, hc.2.2.2.1, hc.2.2.2.2]
    rw [h3]
    simp only [Bool.false_eq_true, if_false]
    apply ih hsc'
    simp only [List.cons_append, List.length_cons] at hf
    omega

/-- a complete simple block: the scanner is back in the literal state behind the `}` -/
theorem scanCode_simple_block : ∀ (code : List Char), SimpleCode code → ∀ (f : Nat) (s : S) (start : Pos) (buf cs : List Char),
    s.brace = 0 →
    ∃ s' p, scanCode (f + code.length + 1) s start buf (code ++ '}' :: cs) = scanLiteral f s' p [] cs ∧
      s'.firstCh = s.firstCh ∧ s'.brace = 0 := by
  intro code
  induction code with
  | nil =>
    intro _ f s start buf cs hb
    simp only [List.nil_append, List.length_nil, Nat.add_zero, scanCode]
    rw [if_pos True.intro, if_pos hb]
    exact ⟨_, _, rfl, rfl, hb⟩
  | cons c code ih =>
    intro hsc f s start buf cs hb
    have hc := hsc c List.mem_cons_self
    have hsc' : SimpleCode code := fun c' h' => hsc c' (List.mem_cons_of_mem _ h')
    have e : f + (c :: code).length + 1 = (f + code.length + 1) + 1 := by simp; omega
    rw [e]
    simp only [List.cons_append, scanCode]
    rw [if_neg hc.1, if_neg hc.2.1]
    have h3 : (c = '"' || c = '\'' || c = '`') = false := by simp [hc.2.2.1, hc.2.2.2.1, hc.2.2.2.2]
    rw [h3]
    simp only [Bool.false_eq_true, if_false]
    obtain ⟨s', p, h1, h2, h3'⟩ := ih hsc' f { s with pos := s.pos.advance c } start (c :: buf) cs hb
    exact ⟨s', p, h1, h2, h3'⟩

/-- a prefix of the text between the quotes after which the scanner is in the literal state again: literal characters
    (not the quote `q`, a `$` only when not followed by `{`) and complete simple blocks `${code}` -/
inductive WfPre (q : Char) : List Char → Prop
  | nil : WfPre q []
  | lit (c : Char) (pre : List Char) : c ≠ q → c ≠ '$' → WfPre q pre → WfPre q (c :: pre)
  | dollar (c : Char) (pre : List Char) : c ≠ '{' → WfPre q (c :: pre) → WfPre q ('$' :: c :: pre)
  | block (code pre : List Char) : SimpleCode code → WfPre q pre → WfPre q ('$' :: '{' :: (code ++ '}' :: pre))

/-- skipping a well-formed prefix: if the scan of `tail` fails from every literal state, so does the scan of `pre ++ tail` -/
theorem scanLiteral_skip {q : Char} (hq : isQuote q = true) (tail : List Char)
    (ht : ∀ f s start buf, tail.length + 1 ≤ f → s.firstCh = q → s.brace = 0 → Fails (scanLiteral f s start buf tail))
    {pre : List Char} (hp : WfPre q pre) :
    ∀ f s start buf, (pre ++ tail).length + 1 ≤ f → s.firstCh = q → s.brace = 0 →
      Fails (scanLiteral f s start buf (pre ++ tail)) := by
  induction hp with
  | nil => intro f s start buf hf hs hb; exact ht f s start buf hf hs hb
  | lit c pre hc hd _ ih =>
    intro f s start buf hf hs hb
    obtain ⟨f', rfl⟩ : ∃ f', f = f' + 1 := ⟨f - 1, by simp at hf; omega⟩
    simp only [List.cons_append, scanLiteral]
    have h1 : ((c = '"' || c = '\'') && decide (c = s.firstCh)) = false := by
      rw [hs]; simp [hc]
    rw [h1]
    simp only [Bool.false_eq_true, if_false, if_neg hd]
    apply ih
    · simp only [List.cons_append, List.length_cons] at hf; omega
    · exact hs
    · exact hb
  | dollar c pre hc _ ih =>
    intro f s start buf hf hs hb
    obtain ⟨f', rfl⟩ : ∃ f', f = f' + 1 := ⟨f - 1, by simp at hf; omega⟩
    simp only [List.cons_append, scanLiteral]
    have h1 : (('$' = '"' || '$' = '\'') && decide ('$' = s.firstCh)) = false := by simp
    rw [h1]
    simp only [Bool.false_eq_true, if_false, if_true]
    split
    · rename_i rest' heq
      simp only [List.cons.injEq] at heq
      exact absurd heq.1 hc
    · have := ih f' { s with pos := s.pos.advance '$' } start ('$' :: buf)
        (by simp only [List.cons_append, List.length_cons] at hf ⊢; omega) hs hb
      simpa using this
  | block code pre hsc _ ih =>
    intro f s start buf hf hs hb
    have hlen : (code ++ '}' :: (pre ++ tail)).length = code.length + 1 + (pre ++ tail).length := by simp; omega
    have hf' : 2 + (code.length + 1 + (pre ++ tail).length) + 1 ≤ f := by
      simp only [List.cons_append, List.append_assoc, List.length_cons, hlen] at hf; omega
    obtain ⟨f0, rfl⟩ : ∃ f0, f = (f0 + code.length + 1) + 1 := ⟨f - code.length - 2, by omega⟩
    simp only [List.cons_append, List.append_assoc, scanLiteral]
    have h1 : (('$' = '"' || '$' = '\'') && decide ('$' = s.firstCh)) = false := by simp
    rw [h1]
    simp only [Bool.false_eq_true, if_false, if_true]
    have key : ∀ (s1 : S) (p1 : Pos), s1.firstCh = q → s1.brace = 0 →
        Fails (scanCode (f0 + code.length + 1) s1 p1 [] (code ++ '}' :: (pre ++ tail))) := by
      intro s1 p1 hs1 hb1
      obtain ⟨s', p, e, e1, e2⟩ := scanCode_simple_block code hsc f0 s1 p1 [] (pre ++ tail) hb1
      rw [e]
      exact ih _ _ _ _ (by omega) (by rw [e1]; exact hs1) e2
    split
    · apply key
      · simp [S.emit]; exact hs
      · simp [S.emit]; exact hb
    · apply key
      · simp [S.emit]; exact hs
      · simp [S.emit]; exact hb

theorem scan_fails_of_literal_fails {q : Char} (hq : isQuote q = true) (start : Pos) (body : List Char)
    (h : ∀ f s st buf, body.length + 1 ≤ f → s.firstCh = q → s.brace = 0 → Fails (scanLiteral f s st buf body)) :
    ¬ Succ (scan start (q :: body)) := by
  apply Fails.not_succ
  unfold scan
  have e : 3 * (q :: body).length + 3 = (3 * body.length + 5) + 1 := by simp; omega
  rw [e]
  simp only [scanQuot]
  have hq' : (q = '"' || q = '\'') = true := hq
  rw [if_pos hq']
  simp only [Bool.false_eq_true, if_false]
  apply h
  · omega
  · simp [S.emit]
  · simp [S.emit]

/-- **an unterminated `${`**: after a well-formed prefix, `${` followed by text that contains no `}` (it may well
    contain the closing quote of the value) is not accepted -/
theorem unterminated_block_fails (start : Pos) (q : Char) (pre rest : List Char) (hq : isQuote q = true)
    (hp : WfPre q pre) (hr : '}' ∉ rest) : ¬ Succ (scan start (q :: (pre ++ '$' :: '{' :: rest))) := by
  apply scan_fails_of_literal_fails hq
  apply scanLiteral_skip hq _ _ hp
  intro f s st buf hf hs hb
  obtain ⟨f', rfl⟩ : ∃ f', f = f' + 1 := ⟨f - 1, by simp at hf; omega⟩
  simp only [scanLiteral]
  have h1 : (('$' = '"' || '$' = '\'') && decide ('$' = s.firstCh)) = false := by simp
  rw [h1]
  simp only [Bool.false_eq_true, if_false, if_true]
  simp only [List.length_cons] at hf
  split <;> exact scanCode_no_close _ _ _ _ _ (by omega) hr

/-- **an unterminated string inside a block**: after a well-formed prefix, `${`, simple code, and a string quote `sq`
    that does not occur again in the rest of the value -/
theorem unterminated_string_fails (start : Pos) (q sq : Char) (pre code rest : List Char) (hq : isQuote q = true)
    (hp : WfPre q pre) (hc : SimpleCode code) (hsq : sq = '"' ∨ sq = '\'' ∨ sq = '`') (hr : sq ∉ rest) :
    ¬ Succ (scan start (q :: (pre ++ '$' :: '{' :: (code ++ sq :: rest)))) := by
  apply scan_fails_of_literal_fails hq
  apply scanLiteral_skip hq _ _ hp
  intro f s st buf hf hs hb
  obtain ⟨f', rfl⟩ : ∃ f', f = f' + 1 := ⟨f - 1, by simp at hf; omega⟩
  simp only [scanLiteral]
  have h1 : (('$' = '"' || '$' = '\'') && decide ('$' = s.firstCh)) = false := by simp
  rw [h1]
  simp only [Bool.false_eq_true, if_false, if_true]
  simp only [List.length_cons] at hf
  split <;> exact scanCode_open_string sq hsq rest hr code hc _ _ _ _ (by omega)

end CS
