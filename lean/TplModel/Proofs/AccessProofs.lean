import TplModel.Exp.Eval
import TplModel.Spec.Walk
/-! # Helper lemmas for C13 (member, index and slice access)

* `fieldByName` (made total in `Exp/Eval.lean`) satisfies the defining equation of the former `partial def`
  and equals the independent selector resolution `Walk.resolve`;
* `parseDecInt (toString i)` for every integer `i`;
* unfolding equations of `getValue` per kind of operand;
* `EV.sliceOf`, `EV.indexName`: the pure functions computed by the `.slice` / `.index` cases of `EV.eval`
  on evaluated operands.  They are PROVED equal to the helper functions `eval` calls, `indexOp` and `sliceStep`,
  in `TplModel/Proofs/AccessEval.lean` (`indexOp_eq_indexName`, `sliceOf_eq_asSlice`, `sliceStep_pure`), and
  `TplModel/Props/C13eval.lean` restates C13 about `eval` itself (`eval_index`, `eval_slice`);
* facts about the specification functions of `Spec/Walk.lean` (`elem`, `mapEntry`, `segment`) that tie them
  to the usual list operations. -/
namespace EV
open Walk (Field)

/-! ## fieldByName -/

theorem direct_eq_find (fs : List Field) (n : String) :
    Walk.direct fs n = (fs.find? (fun f => f.1 = n)).map (fun f => (f.2.1, f.2.2.2)) := by
  induction fs with
  | nil => rfl
  | cons f rest ih =>
    obtain ⟨m, ex, emb, v⟩ := f
    by_cases h : m = n <;> simp [Walk.direct, h, ih]

mutual
theorem promotedField_eq : ∀ (fs : List Field) (n : String), promotedField fs n = Walk.promoted fs n
  | [], _ => by simp [promotedField, Walk.promoted]
  | (_, _, true, v) :: rest, n => by
    rw [promotedField, Walk.promoted, embeddedField_eq v n, promotedField_eq rest n]
    cases Walk.inEmbedded v n <;> rfl
  | (_, _, false, _) :: rest, n => by
    rw [promotedField, Walk.promoted, promotedField_eq rest n]
theorem embeddedField_eq : ∀ (v : Val) (n : String), embeddedField v n = Walk.inEmbedded v n
  | .struct _ fs, n => by
    rw [embeddedField, Walk.inEmbedded, promotedField_eq fs n, direct_eq_find]
    cases fs.find? (fun f => decide (f.1 = n)) <;> rfl
  | .nil, _ | .bool _, _ | .int _ _, _ | .f64 _, _ | .f32 _, _ | .str _, _ | .slice _ _ _, _
  | .array _ _, _ | .map _ _, _ | .ptr _ _ _, _ | .func _, _ | .meth _ _ _, _ => by
    simp [embeddedField, Walk.inEmbedded]
end

/-- the model's field lookup is Go's selector resolution -/
theorem fieldByName_eq_resolve (fs : List Field) (n : String) : fieldByName fs n = Walk.resolve fs n := by
  rw [fieldByName, Walk.resolve, promotedField_eq, direct_eq_find]
  cases fs.find? (fun f => decide (f.1 = n)) <;> rfl

theorem embeddedField_struct (ty : String) (fs : List Field) (n : String) :
    embeddedField (.struct ty fs) n = fieldByName fs n := by
  rw [embeddedField, fieldByName]

theorem promotedField_eq_findSome (fs : List Field) (n : String) :
    promotedField fs n = fs.findSome? (fun f => if f.2.2.1 then embeddedField f.2.2.2 n else none) := by
  induction fs with
  | nil => simp [promotedField]
  | cons f rest ih =>
    obtain ⟨m, ex, emb, v⟩ := f
    cases emb
    · rw [promotedField, ih]; simp
    · rw [promotedField, ih, List.findSome?_cons]
      simp only [if_true]
      cases embeddedField v n <;> rfl

/-- the body of the embedded-field search of the former `partial def fieldByName` -/
def promoteStep (rec_ : List Field → Option (Bool × Val)) (f : Field) : Option (Bool × Val) :=
  if f.2.2.1 then
    match f.2.2.2 with
    | .struct _ fs => rec_ fs
    | _ => none
  else none

/-- `fieldByName` satisfies, for every input, the recursive equation that the former `partial def` was
    written with (so the total definition computes "identical results") -/
theorem fieldByName_unfold (fs : List Field) (n : String) :
    fieldByName fs n =
      match fs.find? (fun f => f.1 = n) with
      | some f => some (f.2.1, f.2.2.2)
      | none => fs.findSome? (promoteStep (fun fs' => fieldByName fs' n)) := by
  rw [fieldByName, promotedField_eq_findSome]
  have : (fun (f : Field) => if f.2.2.1 then embeddedField f.2.2.2 n else none)
       = promoteStep (fun fs' => fieldByName fs' n) := by
    funext f
    obtain ⟨m, ex, emb, v⟩ := f
    cases emb
    · simp [promoteStep]
    · cases v <;> simp [promoteStep, embeddedField_struct] <;> simp [embeddedField]
  rw [this]
  cases fs.find? (fun f => decide (f.1 = n)) <;> rfl

/-! ## getValue, kind by kind -/

/-- what `getValue` does with the (dereferenced) operand once the method lookup has failed -/
def afterMethods (n : String) : Option Val → Look
  | none => .absent
  | some (.struct _ fs) =>
    match fieldByName fs n with
    | some (exported, x) => if exported then .found x else .failed
    | none => .absent
  | some (.map _ kvs) =>
    match kvs.find? (fun kv => kv.1 = n) with
    | some kv => .found kv.2
    | none => .absent
  | some (.slice _ xs _) | some (.array _ xs) =>
    match parseDecInt n with
    | none => .failed
    | some i =>
      let i := if i < 0 then i + xs.length else i
      if i < 0 then .failed else
      match xs[i.toNat]? with
      | some x => .found x
      | none => .failed
  | _ => .absent

theorem getValue_nil_eq (n : String) : getValue n .nil = .absent := rfl

theorem getValue_struct_eq (n ty : String) (fs : List Field) :
    getValue n (.struct ty fs) =
      if (methodsOf ty false).contains n then .found (.meth ty n (.struct ty fs))
      else afterMethods n (some (.struct ty fs)) := by
  by_cases h : (methodsOf ty false).contains n = true <;> simp only [getValue, h] <;> rfl

theorem getValue_ptr_eq (n ty : String) (id : Nat) (t : Option Val) :
    getValue n (.ptr ty id t) =
      if (methodsOf ty true).contains n then .found (.meth ty n (.ptr ty id t))
      else afterMethods n t := by
  by_cases h : (methodsOf ty true).contains n = true <;> simp only [getValue, h]
  · rfl
  · cases t with
    | none => rfl
    | some t => cases t <;> rfl

theorem getValue_map_eq (n ty : String) (kvs : List (String × Val)) :
    getValue n (.map ty kvs) = afterMethods n (some (.map ty kvs)) := rfl
theorem getValue_slice_eq (n ty : String) (xs : List Val) (c : Nat) :
    getValue n (.slice ty xs c) = afterMethods n (some (.slice ty xs c)) := rfl
theorem getValue_array_eq (n ty : String) (xs : List Val) :
    getValue n (.array ty xs) = afterMethods n (some (.array ty xs)) := rfl

/-- the operand is not a pointer, and no method of its type is called `n` -/
def NoMethod (n : String) : Val → Prop
  | .struct ty _ => n ∉ methodsOf ty false
  | .ptr _ _ _ => False
  | _ => True

instance (n : String) (v : Val) : Decidable (NoMethod n v) := by
  cases v <;> simp only [NoMethod] <;> exact inferInstance

/-- no method name of the harness types reads as a number -/
theorem method_not_numeric (ty : String) (b : Bool) (n : String) (h : n ∈ methodsOf ty b) :
    parseDecInt n = none := by
  unfold methodsOf at h
  split at h
  · cases b <;> simp at h <;>
      first
      | (rcases h with h | h | h | h <;> subst h <;> rfl)
      | (rcases h with h | h | h <;> subst h <;> rfl)
  · simp at h

theorem getValue_eq_afterMethods (n : String) (v : Val) (h : NoMethod n v) :
    getValue n v = afterMethods n (some v) := by
  cases v with
  | struct ty fs =>
    rw [getValue_struct_eq, if_neg]
    simpa [NoMethod] using h
  | ptr ty id t => exact absurd h (by simp [NoMethod])
  | _ => rfl

/-- the method set of `*T` contains the method set of `T` -/
theorem methodsOf_value_sub_ptr (ty n : String) (h : n ∈ methodsOf ty false) : n ∈ methodsOf ty true := by
  unfold methodsOf at *
  split at h
  · next hty =>
    simp only [Bool.false_eq_true, if_false] at h
    simp only [hty, if_true]
    simp only [List.mem_cons, List.mem_nil_iff, or_false] at h ⊢
    rcases h with h | h | h <;> simp [h]
  · simp at h

/-! ## parseDecInt inverts `toString` on exactly the int64 range -/

theorem foldl_eq_ofDigitChars (ds : List Char) (init : Nat) :
    ds.foldl (fun a c => a * 10 + (c.toNat - 48)) init = Nat.ofDigitChars 10 ds init := by
  induction ds generalizing init with
  | nil => rfl
  | cons d ds ih => simp only [List.foldl_cons, Nat.ofDigitChars_cons, ih]; rw [Nat.mul_comm]; rfl

theorem parseDecInt_digits (s : String) (ds : List Char) (h : s.toList = ds) (hne : ds ≠ [])
    (hall : ∀ c ∈ ds, c.isDigit = true) :
    parseDecInt s = if Nat.ofDigitChars 10 ds 0 > 9223372036854775807 then none
                    else some (Nat.ofDigitChars 10 ds 0 : Int) := by
  unfold parseDecInt
  simp only [h]
  cases ds with
  | nil => exact absurd rfl hne
  | cons d rest =>
    have hd : d.isDigit = true := hall d (by simp)
    have h1 : d ≠ '-' := by intro e; subst e; revert hd; decide
    have h2 : d ≠ '+' := by intro e; subst e; revert hd; decide
    have hall' : (d :: rest).all Char.isDigit = true := by
      rw [List.all_eq_true]; exact hall
    split
    · next r heq => simp at heq; exact absurd heq.1 h1
    · next r heq => simp at heq; exact absurd heq.1 h2
    · next r hx hy =>
      simp only [foldl_eq_ofDigitChars, hall']
      simp

theorem parseDecInt_neg (s : String) (ds : List Char) (h : s.toList = '-' :: ds) (hne : ds ≠ [])
    (hall : ∀ c ∈ ds, c.isDigit = true) :
    parseDecInt s = if Nat.ofDigitChars 10 ds 0 > 9223372036854775808 then none
                    else some (-(Nat.ofDigitChars 10 ds 0 : Int)) := by
  unfold parseDecInt
  have hall' : ds.all Char.isDigit = true := by
    rw [List.all_eq_true]; exact hall
  have hne' : ds.isEmpty = false := by cases ds <;> simp_all
  simp only [h, foldl_eq_ofDigitChars, hall', hne']
  simp

theorem toList_toString_ofNat (m : Nat) : (toString (Int.ofNat m)).toList = Nat.toDigits 10 m := by
  show (Nat.repr m).toList = _; exact Nat.toList_repr
theorem toList_toString_negSucc (m : Nat) :
    (toString (Int.negSucc m)).toList = '-' :: Nat.toDigits 10 (m + 1) := by
  show ("-" ++ Nat.repr (m+1)).toList = _
  rw [String.toList_append, Nat.toList_repr]; rfl

/-- `strconv.ParseInt(strconv.FormatInt(i, 10), 10, 64)`: the decimal rendering of EVERY integer is parsed
    back when it fits an int64, and rejected otherwise -/
theorem parseDecInt_toString_full (i : Int) :
    parseDecInt (toString i) =
      if -9223372036854775808 ≤ i ∧ i ≤ 9223372036854775807 then some i else none := by
  cases i with
  | ofNat m =>
    have hm : Int.ofNat m = (m : Int) := rfl
    rw [parseDecInt_digits _ _ (toList_toString_ofNat m) Nat.toDigits_ne_nil
      (fun c hc => Nat.isDigit_of_mem_toDigits (by decide) (by decide) hc)]
    simp only [Nat.ofDigitChars_ten_toDigits, hm]
    split <;> split <;> first | rfl | (exfalso; omega)
  | negSucc m =>
    rw [parseDecInt_neg _ _ (toList_toString_negSucc m) Nat.toDigits_ne_nil
      (fun c hc => Nat.isDigit_of_mem_toDigits (by decide) (by decide) hc)]
    simp only [Nat.ofDigitChars_ten_toDigits]
    split <;> split <;> first | rfl | (exfalso; omega) | (congr 1; omega)

/-- `i` is an int64 -/
def IsInt64 (i : Int) : Prop := -2 ^ 63 ≤ i ∧ i < 2 ^ 63

instance (i : Int) : Decidable (IsInt64 i) := by unfold IsInt64; exact inferInstance

theorem parseDecInt_toString (i : Int) (h : IsInt64 i) : parseDecInt (toString i) = some i := by
  rw [parseDecInt_toString_full, if_pos]
  unfold IsInt64 at h; omega

theorem parseDecInt_toString_none (i : Int) (h : ¬ IsInt64 i) : parseDecInt (toString i) = none := by
  rw [parseDecInt_toString_full, if_neg]
  unfold IsInt64 at h; omega

/-! ## the specification functions and the usual list operations -/

theorem elem_eq_getElem? (xs : List Val) (i : Int) :
    Walk.elem xs i = if 0 ≤ i then xs[i.toNat]? else none := by
  induction xs generalizing i with
  | nil => simp [Walk.elem]
  | cons x rest ih =>
    rw [Walk.elem]
    by_cases h0 : i = 0
    · simp [h0]
    · by_cases hn : i < 0
      · have : ¬ 0 ≤ i := by omega
        simp [h0, hn, this]
      · have hp : 0 ≤ i := by omega
        have hp' : 0 ≤ i - 1 := by omega
        have ht : i.toNat = (i - 1).toNat + 1 := by omega
        simp only [h0, hn, hp, if_false, if_true, ih, hp', ht, List.getElem?_cons_succ]

/-- `Walk.elem` is Go's `xs[i]`: defined exactly for `0 ≤ i < len(xs)` -/
theorem elem_eq_some_iff (xs : List Val) (i : Int) (v : Val) :
    Walk.elem xs i = some v ↔ ∃ h : 0 ≤ i ∧ i < xs.length, xs[i.toNat]'(by omega) = v := by
  rw [elem_eq_getElem?]
  constructor
  · intro h
    split at h
    · next hp =>
      obtain ⟨hlt, hv⟩ := List.getElem?_eq_some_iff.mp h
      exact ⟨⟨hp, by omega⟩, hv⟩
    · cases h
  · rintro ⟨⟨hp, hl⟩, hv⟩
    rw [if_pos hp]
    exact List.getElem?_eq_some_iff.mpr ⟨by omega, hv⟩

theorem elem_eq_none_iff (xs : List Val) (i : Int) :
    Walk.elem xs i = none ↔ (i < 0 ∨ (xs.length : Int) ≤ i) := by
  rw [elem_eq_getElem?]
  constructor
  · intro h
    split at h
    · next hp => rw [List.getElem?_eq_none_iff] at h; omega
    · omega
  · intro h
    split
    · rw [List.getElem?_eq_none_iff]; omega
    · rfl

theorem mapEntry_eq_find (kvs : List (String × Val)) (n : String) :
    Walk.mapEntry kvs n = (kvs.find? (fun kv => kv.1 = n)).map (·.2) := by
  induction kvs with
  | nil => rfl
  | cons kv rest ih =>
    obtain ⟨k, v⟩ := kv
    by_cases h : k = n <;> simp [Walk.mapEntry, h, ih]

/-- `Walk.mapEntry` returns the value of the FIRST binding of the key -/
theorem mapEntry_eq_some_iff (kvs : List (String × Val)) (n : String) (v : Val) :
    Walk.mapEntry kvs n = some v ↔
      ∃ pre post, kvs = pre ++ (n, v) :: post ∧ ∀ kv ∈ pre, kv.1 ≠ n := by
  induction kvs with
  | nil => simp [Walk.mapEntry]
  | cons kv rest ih =>
    obtain ⟨k, w⟩ := kv
    rw [Walk.mapEntry]
    by_cases h : k = n
    · subst h
      simp only [if_true, Option.some.injEq]
      constructor
      · rintro rfl; exact ⟨[], rest, rfl, by simp⟩
      · rintro ⟨pre, post, he, hpre⟩
        cases pre with
        | nil => simp at he; exact he.1
        | cons p pre' =>
          simp at he
          exact absurd (by rw [← he.1]) (hpre p (by simp))
    · simp only [h, if_false, ih]
      constructor
      · rintro ⟨pre, post, he, hpre⟩
        refine ⟨(k, w) :: pre, post, by simp [he], ?_⟩
        intro kv hkv
        rcases List.mem_cons.mp hkv with rfl | hm
        · exact h
        · exact hpre kv hm
      · rintro ⟨pre, post, he, hpre⟩
        cases pre with
        | nil => simp at he; exact absurd he.1.1 h
        | cons p pre' =>
          simp at he
          exact ⟨pre', post, he.2, fun kv hkv => hpre kv (by simp [hkv])⟩

theorem mapEntry_eq_none_iff (kvs : List (String × Val)) (n : String) :
    Walk.mapEntry kvs n = none ↔ ∀ kv ∈ kvs, kv.1 ≠ n := by
  induction kvs with
  | nil => simp [Walk.mapEntry]
  | cons kv rest ih =>
    obtain ⟨k, w⟩ := kv
    rw [Walk.mapEntry]
    by_cases h : k = n <;> simp [h, ih]

theorem segment_eq_drop_take (xs : List Val) (lo hi : Nat) :
    Walk.segment xs lo hi = (xs.drop lo).take (hi - lo) := by
  induction xs generalizing lo hi with
  | nil => cases hi <;> simp [Walk.segment]
  | cons x rest ih =>
    cases hi with
    | zero => simp [Walk.segment]
    | succ hi =>
      cases lo with
      | zero => simp [Walk.segment, ih]
      | succ lo => simp [Walk.segment, ih]

/-- `Walk.segment xs lo hi` is the list `xs[lo], …, xs[hi-1]` -/
theorem segment_getElem? (xs : List Val) (lo hi k : Nat) :
    (Walk.segment xs lo hi)[k]? = if lo + k < hi then xs[lo + k]? else none := by
  rw [segment_eq_drop_take, List.getElem?_take]
  split
  · next hk => rw [if_pos (by omega), List.getElem?_drop]
  · next hk => rw [if_neg (by omega)]

theorem segment_length (xs : List Val) (lo hi : Nat) (h : hi ≤ xs.length) :
    (Walk.segment xs lo hi).length = hi - lo := by
  rw [segment_eq_drop_take, List.length_take, List.length_drop]; omega

/-! ## index access on the element list -/

theorem afterMethods_elems (n : String) (v : Val) (xs : List Val) (h : Walk.elems v = some xs) :
    afterMethods n (some v) =
      match parseDecInt n with
      | none => .failed
      | some i =>
        match Walk.elemFromEnd xs i with
        | some x => .found x
        | none => .failed := by
  have key : ∀ ys : List Val,
      (match parseDecInt n with
        | none => Look.failed
        | some i =>
          let i := if i < 0 then i + ys.length else i
          if i < 0 then Look.failed else
          match ys[i.toNat]? with
          | some x => Look.found x
          | none => Look.failed) =
      (match parseDecInt n with
        | none => Look.failed
        | some i =>
          match Walk.elemFromEnd ys i with
          | some x => Look.found x
          | none => Look.failed) := by
    intro ys
    cases parseDecInt n with
    | none => rfl
    | some i =>
      simp only [Walk.elemFromEnd, elem_eq_getElem?]
      by_cases hi : i < 0
      · simp only [hi, if_true]
        rw [Int.add_comm]
        by_cases h2 : (ys.length : Int) + i < 0
        · have : ¬ 0 ≤ (ys.length : Int) + i := by omega
          simp only [h2, this, if_true, if_false]
        · have : 0 ≤ (ys.length : Int) + i := by omega
          simp only [h2, this, if_true, if_false]
      · have : 0 ≤ i := by omega
        simp only [hi, this, if_true, if_false]
  cases v with
  | slice ty ys c => simp only [Walk.elems, Option.some.injEq] at h; subst h; exact key ys
  | array ty ys => simp only [Walk.elems, Option.some.injEq] at h; subst h; exact key ys
  | _ => simp [Walk.elems] at h

theorem afterMethods_unsupported (n : String) (v : Val)
    (h1 : ∀ ty fs, v ≠ .struct ty fs) (h2 : ∀ ty kvs, v ≠ .map ty kvs)
    (h3 : ∀ ty xs c, v ≠ .slice ty xs c) (h4 : ∀ ty xs, v ≠ .array ty xs) :
    afterMethods n (some v) = .absent := by
  cases v with
  | struct ty fs => exact absurd rfl (h1 ty fs)
  | map ty kvs => exact absurd rfl (h2 ty kvs)
  | slice ty xs c => exact absurd rfl (h3 ty xs c)
  | array ty xs => exact absurd rfl (h4 ty xs)
  | _ => rfl

/-! ## found values are stored values -/

mutual
theorem promotedField_stored : ∀ (fs : List Field) (n : String) (r : Bool × Val),
    promotedField fs n = some r →
      ∃ m ex ty' fs', (m, ex, true, Val.struct ty' fs') ∈ fs ∧ Walk.Stored r.2 (.struct ty' fs')
  | [], _, _, h => by simp [promotedField] at h
  | (m, ex, true, v) :: rest, n, r, h => by
    rw [promotedField] at h
    cases he : embeddedField v n with
    | some r' =>
      rw [he] at h
      cases h
      have hs := embeddedField_stored v n r he
      cases v with
      | struct ty' fs' => exact ⟨m, ex, ty', fs', by simp, hs⟩
      | _ => simp [embeddedField] at he
    | none =>
      rw [he] at h
      obtain ⟨m', ex', ty', fs', hm, hs⟩ := promotedField_stored rest n r h
      exact ⟨m', ex', ty', fs', List.mem_cons_of_mem _ hm, hs⟩
  | (_, _, false, _) :: rest, n, r, h => by
    rw [promotedField] at h
    obtain ⟨m', ex', ty', fs', hm, hs⟩ := promotedField_stored rest n r h
    exact ⟨m', ex', ty', fs', List.mem_cons_of_mem _ hm, hs⟩
theorem embeddedField_stored : ∀ (v : Val) (n : String) (r : Bool × Val),
    embeddedField v n = some r → Walk.Stored r.2 v
  | .struct ty fs, n, r, h => by
    rw [embeddedField] at h
    cases hf : fs.find? (fun f => decide (f.1 = n)) with
    | some f =>
      rw [hf] at h
      cases h
      exact Walk.Stored.field f.1 f.2.1 f.2.2.1 (List.mem_of_find?_eq_some hf)
    | none =>
      rw [hf] at h
      obtain ⟨m', ex', ty', fs', hm, hs⟩ := promotedField_stored fs n r h
      exact Walk.Stored.promoted m' ex' ty' fs' hm hs
  | .nil, _, _, h | .bool _, _, _, h | .int _ _, _, _, h | .f64 _, _, _, h | .f32 _, _, _, h
  | .str _, _, _, h | .slice _ _ _, _, _, h | .array _ _, _, _, h | .map _ _, _, _, h
  | .ptr _ _ _, _, _, h | .func _, _, _, h | .meth _ _ _, _, _, h => by
    simp [embeddedField] at h
end

theorem fieldByName_stored (ty : String) (fs : List Field) (n : String) (r : Bool × Val)
    (h : fieldByName fs n = some r) : Walk.Stored r.2 (.struct ty fs) := by
  have := embeddedField_stored (.struct ty fs) n r (by rw [embeddedField_struct]; exact h)
  exact this

theorem afterMethods_stored (n : String) (v x : Val) (h : afterMethods n (some v) = .found x) :
    Walk.Stored x v := by
  cases v with
  | struct ty fs =>
    simp only [afterMethods] at h
    cases hf : fieldByName fs n with
    | none => rw [hf] at h; cases h
    | some r =>
      obtain ⟨ex, y⟩ := r
      rw [hf] at h
      cases ex
      · simp at h
      · simp only [if_true, Look.found.injEq] at h
        subst h
        exact fieldByName_stored ty fs n (true, y) hf
  | map ty kvs =>
    simp only [afterMethods] at h
    cases hf : kvs.find? (fun kv => decide (kv.1 = n)) with
    | none => rw [hf] at h; cases h
    | some kv =>
      rw [hf] at h
      simp only [Look.found.injEq] at h
      subst h
      exact Walk.Stored.entry kv.1 (List.mem_of_find?_eq_some hf)
  | slice ty xs c =>
    rw [afterMethods_elems n _ xs rfl] at h
    cases hp : parseDecInt n with
    | none => rw [hp] at h; cases h
    | some i =>
      rw [hp] at h
      simp only at h
      cases he : Walk.elemFromEnd xs i with
      | none => rw [he] at h; cases h
      | some y =>
        rw [he] at h
        simp only [Look.found.injEq] at h
        subst h
        obtain ⟨_, hv⟩ := (elem_eq_some_iff _ _ _).mp he
        exact Walk.Stored.elemSlice (hv ▸ List.getElem_mem _)
  | array ty xs =>
    rw [afterMethods_elems n _ xs rfl] at h
    cases hp : parseDecInt n with
    | none => rw [hp] at h; cases h
    | some i =>
      rw [hp] at h
      simp only at h
      cases he : Walk.elemFromEnd xs i with
      | none => rw [he] at h; cases h
      | some y =>
        rw [he] at h
        simp only [Look.found.injEq] at h
        subst h
        obtain ⟨_, hv⟩ := (elem_eq_some_iff _ _ _).mp he
        exact Walk.Stored.elemArray (hv ▸ List.getElem_mem _)
  | _ => simp [afterMethods] at h

/-! ## the pure functions computed by the `.index` and `.slice` cases of `eval` -/

/-- the member name the `.index` case of `eval` derives from the evaluated index: the decimal rendering of
    an integer of any kind, a string itself, nothing else (⇒ `setErr`); `EV.indexOp_eq_indexName`
    (Proofs/AccessEval.lean) proves that this is what `indexOp` computes -/
def indexName (iv : Val) : Option String :=
  match isInt iv with
  | some v => some (toString v)
  | none => match iv with
    | .str s => some s
    | _ => none

theorem indexName_int (iv : Val) (i : Int) (h : isInt iv = some i) : indexName iv = some (toString i) := by
  simp [indexName, h]
theorem indexName_str (s : String) : indexName (.str s) = some s := rfl

/-- outcome of the `.slice` case of `eval` once operand and bounds are evaluated (`none` = bound omitted):
    `ok v` is returned; `panic` = `goPanic` (reflect's Slice/Slice3 panics, `Evaluate` recovers and reports an
    error); `unsupported` = `unsupp` (outside the model); `notSliceable` = `setErr` -/
inductive SliceRes | ok (v : Val) | panic | unsupported | notSliceable

/-- the `.slice` case of `EV.eval` (`sliceStep`) on evaluated bounds, an omitted bound being `none`
    (`x.getD dflt` here is `evalOpt none dflt` there).  Not a mere copy: `EV.sliceStep_pure`
    (Proofs/AccessEval.lean) proves `sliceStep pv … = (sliceOf pv lo hi cap).toM`, and `C13.eval_slice`
    that a run of `eval` on `.slice` is the run of this outcome. -/
def sliceOf (pv : Val) (lo hi cap : Option Int) : SliceRes :=
  let asSlice : Option (String × List Val × Nat) := match pv with
    | .slice sty xs c => some (sty, xs, c)
    | .array aty xs => some ("[]" ++ String.ofList ((aty.toList.dropWhile (· ≠ ']')).drop 1), xs, xs.length)
    | _ => none
  match asSlice with
  | some (sty, xs, c) =>
    let s : Int := lo.getD 0
    let en : Int := hi.getD xs.length
    match cap with
    | none =>
      if 0 ≤ s ∧ s ≤ en ∧ en ≤ c then
        if en.toNat ≤ xs.length then .ok (.slice sty ((xs.drop s.toNat).take (en.toNat - s.toNat)) (c - s.toNat))
        else .unsupported
      else .panic
    | some m =>
      if 0 ≤ s ∧ s ≤ en ∧ en ≤ m ∧ m ≤ c then
        if en.toNat ≤ xs.length then .ok (.slice sty ((xs.drop s.toNat).take (en.toNat - s.toNat)) (m.toNat - s.toNat))
        else .unsupported
      else .panic
  | none => .notSliceable

/-- `sliceOf` in terms of the specification's vocabulary -/
theorem sliceOf_eq (v : Val) (lo hi mx : Option Int) :
    sliceOf v lo hi mx =
      match Walk.sliceable v with
      | none => .notSliceable
      | some (ty, xs, c) =>
        if Walk.InRange (lo.getD 0) (hi.getD xs.length) mx c then
          if hi.getD xs.length ≤ xs.length then
            .ok (.slice ty (Walk.segment xs (lo.getD 0).toNat (hi.getD xs.length).toNat)
                  ((mx.getD c).toNat - (lo.getD 0).toNat))
          else .unsupported
        else .panic := by
  have key : ∀ (ty : String) (xs : List Val) (c : Nat),
      (match mx with
        | none =>
          if 0 ≤ lo.getD 0 ∧ lo.getD 0 ≤ hi.getD xs.length ∧ hi.getD xs.length ≤ c then
            if (hi.getD xs.length).toNat ≤ xs.length then
              SliceRes.ok (.slice ty ((xs.drop (lo.getD 0).toNat).take ((hi.getD xs.length).toNat - (lo.getD 0).toNat))
                (c - (lo.getD 0).toNat))
            else .unsupported
          else .panic
        | some m =>
          if 0 ≤ lo.getD 0 ∧ lo.getD 0 ≤ hi.getD xs.length ∧ hi.getD xs.length ≤ m ∧ m ≤ c then
            if (hi.getD xs.length).toNat ≤ xs.length then
              SliceRes.ok (.slice ty ((xs.drop (lo.getD 0).toNat).take ((hi.getD xs.length).toNat - (lo.getD 0).toNat))
                (m.toNat - (lo.getD 0).toNat))
            else .unsupported
          else .panic) =
      if Walk.InRange (lo.getD 0) (hi.getD xs.length) mx c then
        if hi.getD xs.length ≤ xs.length then
          .ok (.slice ty (Walk.segment xs (lo.getD 0).toNat (hi.getD xs.length).toNat)
                ((mx.getD c).toNat - (lo.getD 0).toNat))
        else .unsupported
      else .panic := by
    intro ty xs c
    generalize lo.getD 0 = s
    generalize hi.getD (xs.length : Int) = en
    cases mx with
    | none =>
      simp only [Walk.InRange, Option.getD_none, Int.toNat_natCast, segment_eq_drop_take]
      by_cases hr : 0 ≤ s ∧ s ≤ en ∧ en ≤ c
      · have h1 : (en.toNat ≤ xs.length) ↔ (en ≤ xs.length) := by omega
        simp only [hr, and_self, if_true, h1]
      · simp only [hr, if_false]
    | some m =>
      simp only [Walk.InRange, Option.getD_some, segment_eq_drop_take]
      by_cases hr : 0 ≤ s ∧ s ≤ en ∧ en ≤ m ∧ m ≤ c
      · have h1 : (en.toNat ≤ xs.length) ↔ (en ≤ xs.length) := by omega
        simp only [hr, and_self, if_true, h1]
      · simp only [hr, if_false]
  cases v with
  | slice ty xs c => exact key ty xs c
  | array ty xs => exact key _ xs xs.length
  | _ => rfl

/-! ## `afterMethods` against the specification -/

theorem afterMethods_struct (n ty : String) (fs : List Field) :
    afterMethods n (some (.struct ty fs)) =
      match Walk.resolve fs n with
      | some (true, v) => .found v
      | some (false, _) => .failed
      | none => .absent := by
  simp only [afterMethods, fieldByName_eq_resolve]
  cases Walk.resolve fs n with
  | none => rfl
  | some r => obtain ⟨ex, y⟩ := r; cases ex <;> rfl

theorem afterMethods_map (n ty : String) (kvs : List (String × Val)) :
    afterMethods n (some (.map ty kvs)) =
      match Walk.mapEntry kvs n with
      | some v => .found v
      | none => .absent := by
  simp only [afterMethods, mapEntry_eq_find]
  cases kvs.find? (fun kv => decide (kv.1 = n)) <;> rfl

theorem afterMethods_found_iff (n : String) (t x : Val) :
    afterMethods n (some t) = .found x ↔
      Walk.member t n = some x ∨
      ∃ xs i, Walk.elems t = some xs ∧ parseDecInt n = some i ∧ Walk.elemFromEnd xs i = some x := by
  have idx : ∀ (t : Val) (xs : List Val), Walk.elems t = some xs → Walk.member t n = none →
      (afterMethods n (some t) = .found x ↔
        Walk.member t n = some x ∨
        ∃ ys i, Walk.elems t = some ys ∧ parseDecInt n = some i ∧ Walk.elemFromEnd ys i = some x) := by
    intro t xs he hm
    rw [afterMethods_elems n t xs he, hm]
    constructor
    · intro h
      cases hp : parseDecInt n with
      | none => rw [hp] at h; cases h
      | some i =>
        rw [hp] at h
        simp only at h
        cases hx : Walk.elemFromEnd xs i with
        | none => rw [hx] at h; cases h
        | some y =>
          rw [hx] at h
          simp only [Look.found.injEq] at h
          subst h
          exact Or.inr ⟨xs, i, he, rfl, hx⟩
    · rintro (h | ⟨ys, i, hys, hp, hx⟩)
      · cases h
      · rw [he] at hys
        cases hys
        rw [hp]
        simp only [hx]
  cases t with
  | struct ty fs =>
    rw [afterMethods_struct]
    simp only [Walk.member, Walk.structField, Walk.elems]
    cases Walk.resolve fs n with
    | none => simp
    | some r => obtain ⟨ex, y⟩ := r; cases ex <;> simp
  | map ty kvs =>
    rw [afterMethods_map]
    simp only [Walk.member, Walk.elems]
    cases Walk.mapEntry kvs n <;> simp
  | slice ty xs c => exact idx _ xs rfl rfl
  | array ty xs => exact idx _ xs rfl rfl
  | _ => simp [afterMethods, Walk.member, Walk.elems]

end EV
