import TplModel.Html.Scan
namespace HS

def vals (toks : List Token) : List Char := (toks.reverse.map (·.value)).flatten

@[simp] theorem vals_cons (t : Token) (ts : List Token) : vals (t :: ts) = vals ts ++ t.value := by
  simp [vals]

def pending : Mode → List Char
  | .init => []
  | .text l => l.buf.reverse
  | .tag l => l.buf.reverse

def WFtag (l : TagL) : Prop :=
  match l.st with
  | .tagStart => l.buf = [] ∧ l.tagName = [] ∧ l.comment = [] ∧ l.cdata = []
  | .tagName => l.buf.reverse = '<' :: l.tagName.reverse ∧ l.comment = [] ∧ l.cdata = []
  | .comment => l.buf.reverse = "<!--".toList ++ l.comment.reverse
  | .cdata => l.buf.reverse = "<![CDATA[".toList ++ l.cdata.reverse
  | _ => True

def WFtext (l : TextL) : Prop :=
  match l.raw with
  | none => True
  | some _ => ∃ rest, l.buf = l.tagBuf ++ rest

def WF : Mode → Prop
  | .init => True
  | .text l => WFtext l
  | .tag l => WFtag l

def Inv (s : S) (consumed : List Char) : Prop :=
  vals s.toks ++ pending s.mode = consumed ∧ WF s.mode

theorem take_suffix {l suf : List Char} (h : suf.isSuffixOf l = true) :
    l.take (l.length - suf.length) ++ suf = l := by
  have := List.isSuffixOf_iff_suffix.mp h
  exact List.suffix_iff_eq_append.mp this

theorem addAttr_ok {l l' : TagL} {a : Attr} (h : addAttr l a = .ok l') : l' = { l with attrs := a :: l.attrs } := by
  unfold addAttr at h
  split at h <;> simp_all

theorem stepAttrName_inv (s : S) (l : TagL) (c : Char) (p p' : Pos) (s' : S) (consumed : List Char)
    (hb : ∃ b, l.buf = c :: b ∧ vals s.toks ++ b.reverse = consumed)
    (hst : l.st = .attrName)
    (h : stepTag.stepAttrName s l c p p' = .ok s') : Inv s' (consumed ++ [c]) := by
  obtain ⟨b, hb1, hb2⟩ := hb
  subst hb2
  unfold stepTag.stepAttrName at h
  simp only at h
  repeat' split at h
  all_goals (try (simp only [Except.ok.injEq, reduceCtorEq] at h))
  all_goals (try subst h)
  all_goals (try (rename_i hadd; have := addAttr_ok hadd; subst this))
  all_goals (simp_all [Inv, pending, WF, WFtag, finishTag, S.emit])

macro "scan_tac" : tactic => `(tactic| (
  all_goals (try (simp only [Except.ok.injEq, reduceCtorEq] at *))
  all_goals (try subst_vars)
  all_goals (try (have hh := addAttr_ok ‹addAttr _ _ = Except.ok _›; subst hh))
  all_goals (simp_all [Inv, pending, WF, WFtag, finishTag, S.emit])))

theorem stepTag_inv (s : S) (l0 : TagL) (c : Char) (p p' : Pos) (s' : S) (consumed : List Char)
    (hv : vals s.toks ++ l0.buf.reverse = consumed) (hwf : WFtag l0)
    (h : stepTag s l0 c p p' = .ok s') : Inv s' (consumed ++ [c]) := by
  subst hv
  unfold stepTag at h
  simp only at h
  cases hst : l0.st <;> simp only [hst] at h
  case attrName =>
    exact stepAttrName_inv s _ c p p' s' _ ⟨l0.buf, rfl, rfl⟩ (by simp [hst]) h
  case space =>
    by_cases h1 : c = '>'
    · simp only [h1, if_true] at h; scan_tac
    · by_cases h2 : isSpace c = true
      · simp only [h1, h2, if_false] at h; simp at h; scan_tac
      · simp only [h1, h2, if_false] at h; simp at h
        exact stepAttrName_inv s _ c p p' s' _ ⟨l0.buf, rfl, rfl⟩ (by simp) h
  case tagStart =>
    simp only [WFtag, hst] at hwf
    repeat' split at h
    scan_tac
  case tagName =>
    simp only [WFtag, hst] at hwf
    repeat' split at h
    scan_tac
  case cdata =>
    simp only [WFtag, hst] at hwf
    repeat' split at h
    scan_tac
  case comment =>
    simp only [WFtag, hst] at hwf
    by_cases hend : "-->".toList.isSuffixOf (c :: l0.comment).reverse = true
    · have hts := take_suffix hend
      simp only [hend, if_true] at h
      repeat' split at h
      all_goals (try (simp only [Except.ok.injEq, reduceCtorEq] at h))
      all_goals (try subst h)
      all_goals (simp only [Inv, pending, WF, S.emit, vals_cons, List.append_assoc, hwf, and_true])
      all_goals (rw [show "-->".toList.length = 3 from rfl] at hts)
      all_goals (simp only [List.append_nil]; rw [hts]; simp)
    · simp only [hend] at h
      repeat' split at h
      scan_tac
  case attrValue =>
    repeat' split at h
    scan_tac

theorem newTagL_wf (p : Pos) : WFtag (newTagL p) := by simp [WFtag, newTagL]

theorem stepText_inv (s : S) (l : TextL) (c : Char) (p p' : Pos) (s' : S) (consumed : List Char)
    (hv : vals s.toks ++ l.buf.reverse = consumed) (hwf : WFtext l)
    (h : stepText s l c p p' = .ok s') : Inv s' (consumed ++ [c]) := by
  subst hv
  unfold stepText at h
  cases hraw : l.raw with
  | none =>
    simp only [hraw] at h
    split at h
    · refine stepTag_inv _ (newTagL p) c p p' s' _ ?_ (newTagL_wf p) h
      simp [S.emit, newTagL]
    · simp only [Except.ok.injEq] at h; subst h
      simp [Inv, pending, WF, WFtext, hraw]
  | some tn =>
    simp only [WFtext, hraw] at hwf
    obtain ⟨rest, hrest⟩ := hwf
    simp only [hraw] at h
    by_cases hc : c = '<'
    · subst hc
      simp only [if_true, Bool.not_true, Bool.false_eq_true, if_false] at h
      repeat' split at h
      all_goals (try (simp only [Except.ok.injEq, reduceCtorEq] at h))
      all_goals (try subst h)
      all_goals (simp_all [Inv, pending, WF, WFtext, S.emit])
    · simp only [hc, if_false] at h
      repeat' split at h
      all_goals (try (simp only [Except.ok.injEq, reduceCtorEq] at h))
      all_goals (try subst h)
      all_goals (simp_all [Inv, pending, WF, WFtext, S.emit])

theorem step_inv (cfg : Cfg) (s s' : S) (c : Char) (consumed : List Char)
    (hi : Inv s consumed) (h : step cfg s c = .ok s') : Inv s' (consumed ++ [c]) := by
  obtain ⟨hv, hwf⟩ := hi
  unfold step at h
  cases hm : s.mode with
  | init =>
    simp only [hm] at h
    simp only [hm, pending, List.append_nil] at hv
    split at h
    · exact stepTag_inv s _ c _ _ s' _ (by simpa [newTagL] using hv) (newTagL_wf _) h
    · refine stepText_inv s _ c _ _ s' _ (by simpa using hv) ?_ h
      simp only [WFtext]
      split <;> simp
  | text l =>
    simp only [hm] at h
    simp only [hm, pending, WF] at hv hwf
    exact stepText_inv s l c _ _ s' _ hv hwf h
  | tag l =>
    simp only [hm] at h
    simp only [hm, pending, WF] at hv hwf
    exact stepTag_inv s l c _ _ s' _ hv hwf h

theorem fold_inv (cfg : Cfg) (cs : List Char) (s s' : S) (consumed : List Char)
    (hi : Inv s consumed) (h : cs.foldlM (step cfg) s = .ok s') : Inv s' (consumed ++ cs) := by
  induction cs generalizing s consumed with
  | nil => simp [List.foldlM, pure, Except.pure] at h; subst h; simpa using hi
  | cons c cs ih =>
    simp only [List.foldlM, bind, Except.bind] at h
    cases hs : step cfg s c with
    | error e => simp [hs] at h
    | ok s1 =>
      simp only [hs] at h
      have := ih s1 (consumed ++ [c]) (step_inv cfg s s1 c consumed hi hs) h
      simpa using this

/-- C01, first clause: the token values produced by scanning concatenate back to the source, for every
    input and every configured list of raw-text elements. -/
theorem scan_concat (cfg : Cfg) (cs : List Char) (toks : List Token) (h : scan cfg cs = .ok toks) :
    (toks.map (·.value)).flatten = cs := by
  unfold scan at h
  simp only [bind, Except.bind] at h
  cases hf : cs.foldlM (step cfg) { mode := .init, pos := ⟨1,1⟩, toks := [] } with
  | error e => simp [hf] at h
  | ok s =>
    simp only [hf] at h
    have hinv := fold_inv cfg cs _ s [] (by simp [Inv, vals, pending, WF]) hf
    obtain ⟨hv, _⟩ := hinv
    unfold finish at h
    cases hm : s.mode with
    | init =>
      simp only [hm, Except.ok.injEq] at h; subst h
      simpa [hm, pending, vals] using hv
    | text l =>
      simp only [hm, Except.ok.injEq] at h; subst h
      simpa [hm, pending, vals, S.emit] using hv
    | tag l => simp [hm] at h

end HS
