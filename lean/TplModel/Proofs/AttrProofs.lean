import TplModel.Html.Attr
/-! Helper lemmas for `TplModel/Props/C04hdr.lean` and `TplModel/Props/C05sort.lean` (core only). -/
namespace AT

/-! ## trimming -/

theorem dropWhile_append_stop {α} {p : α → Bool} {c : α} (hc : p c = false) (a b : List α) :
    (a ++ c :: b).dropWhile p = a.dropWhile p ++ c :: b := by
  induction a with
  | nil => simp [List.dropWhile, hc]
  | cons x a ih =>
    cases hx : p x <;> simp [List.dropWhile, hx, ih]

theorem dropWhile_all {α} {p : α → Bool} {a : List α} (h : ∀ x ∈ a, p x = true) : a.dropWhile p = [] := by
  induction a with
  | nil => rfl
  | cons x a ih =>
    have hx : p x = true := h x (by simp)
    simp only [List.dropWhile, hx]
    exact ih (fun y hy => h y (by simp [hy]))

theorem dropWhile_idem {α} (p : α → Bool) (a : List α) : (a.dropWhile p).dropWhile p = a.dropWhile p := by
  induction a with
  | nil => rfl
  | cons x a ih =>
    cases hx : p x
    · simp [List.dropWhile, hx]
    · simpa [List.dropWhile, hx] using ih

theorem decomp {α} (p : α → Bool) (l : List α) :
    (∀ x ∈ l, p x = true) ∨ ∃ sp c r, l = sp ++ c :: r ∧ (∀ x ∈ sp, p x = true) ∧ p c = false := by
  induction l with
  | nil => left; simp
  | cons x l ih =>
    cases hx : p x
    · right; exact ⟨[], x, l, rfl, by simp, hx⟩
    · rcases ih with h | ⟨sp, c, r, rfl, hsp, hc⟩
      · left; intro y hy
        rcases List.mem_cons.1 hy with rfl | hy
        · exact hx
        · exact h y hy
      · right
        refine ⟨x :: sp, c, r, rfl, ?_, hc⟩
        intro y hy
        rcases List.mem_cons.1 hy with rfl | hy
        · exact hx
        · exact hsp y hy

theorem trimLeft_append_stop {c : Char} (hc : HS.isSpace c = false) (a b : List Char) :
    trimLeft (a ++ c :: b) = trimLeft a ++ c :: b := dropWhile_append_stop hc a b

theorem trimRight_append_stop {c : Char} (hc : HS.isSpace c = false) (a b : List Char) :
    trimRight (a ++ c :: b) = a ++ c :: trimRight b := by
  have h : (a ++ c :: b).reverse = b.reverse ++ c :: a.reverse := by simp
  unfold trimRight
  rw [h, trimLeft_append_stop hc]
  simp

theorem trimLeft_idem (a : List Char) : trimLeft (trimLeft a) = trimLeft a := dropWhile_idem _ a

theorem trimRight_idem (a : List Char) : trimRight (trimRight a) = trimRight a := by
  unfold trimRight
  rw [List.reverse_reverse, trimLeft_idem]

theorem trimLeft_all {a : List Char} (h : ∀ x ∈ a, HS.isSpace x = true) : trimLeft a = [] := dropWhile_all h

theorem trimRight_all {a : List Char} (h : ∀ x ∈ a, HS.isSpace x = true) : trimRight a = [] := by
  unfold trimRight
  rw [trimLeft_all (a := a.reverse) (by simpa using h)]
  rfl

theorem trimRight_nil : trimRight [] = [] := rfl

/-- trimming left and right commute -/
theorem trimLeft_trimRight (b : List Char) : trimLeft (trimRight b) = trimRight (trimLeft b) := by
  rcases decomp HS.isSpace b with h | ⟨sp, c, r, rfl, hsp, hc⟩
  · rw [trimRight_all h, trimLeft_all h]; rfl
  · rw [trimRight_append_stop hc, trimLeft_append_stop hc, trimLeft_append_stop hc, trimLeft_all hsp]
    exact (trimRight_append_stop hc [] r).symm

theorem trimSpace_trimLeft (a : List Char) : trimSpace (trimLeft a) = trimSpace a := by
  unfold trimSpace; rw [trimLeft_idem]

theorem trimSpace_trimRight (b : List Char) : trimSpace (trimRight b) = trimSpace b := by
  unfold trimSpace; rw [trimLeft_trimRight, trimRight_idem]

/-- `TrimSpace` is idempotent -/
theorem trimSpace_idem (a : List Char) : trimSpace (trimSpace a) = trimSpace a := by
  show trimSpace (trimRight (trimLeft a)) = _
  rw [trimSpace_trimRight, trimSpace_trimLeft]

/-- how the outer `TrimSpace` interacts with a non-space separator -/
theorem trimSpace_split {c : Char} (hc : HS.isSpace c = false) (a b : List Char) :
    trimSpace (a ++ c :: b) = trimLeft a ++ c :: trimRight b := by
  unfold trimSpace
  rw [trimLeft_append_stop hc, trimRight_append_stop hc]

theorem mem_of_mem_trimLeft {c : Char} {s : List Char} (h : c ∈ trimLeft s) : c ∈ s :=
  (List.dropWhile_sublist _).subset h

theorem mem_of_mem_trimRight {c : Char} {s : List Char} (h : c ∈ trimRight s) : c ∈ s := by
  unfold trimRight at h
  have := mem_of_mem_trimLeft (List.mem_reverse.1 h)
  exact List.mem_reverse.1 this

theorem mem_of_mem_trimSpace {c : Char} {s : List Char} (h : c ∈ trimSpace s) : c ∈ s :=
  mem_of_mem_trimLeft (mem_of_mem_trimRight h)

/-- a non-space character survives trimming -/
theorem mem_trimSpace_iff {c : Char} (hc : HS.isSpace c = false) (s : List Char) : c ∈ trimSpace s ↔ c ∈ s := by
  refine ⟨mem_of_mem_trimSpace, fun h => ?_⟩
  obtain ⟨a, b, rfl⟩ := List.append_of_mem h
  rw [trimSpace_split hc]; simp

/-- the trimmed string neither starts nor ends with a space -/
theorem trimLeft_head (s : List Char) (c : Char) (r : List Char) (h : trimLeft s = c :: r) : HS.isSpace c = false := by
  have hne : List.dropWhile HS.isSpace s ≠ [] := by
    intro h'; unfold trimLeft at h; rw [h'] at h; cases h
  have := List.head_dropWhile_not HS.isSpace hne
  unfold trimLeft at h
  simpa [h] using this

/-! ## `strings.Index` -/

theorem splitFirst_none {c : Char} {s : List Char} (h : c ∉ s) : splitFirst c s = none := by
  induction s with
  | nil => rfl
  | cons x s ih =>
    have hx : x ≠ c := fun e => h (by simp [e])
    have hs : c ∉ s := fun e => h (by simp [e])
    simp [splitFirst, hx, ih hs]

theorem splitFirst_append {c : Char} {a : List Char} (h : c ∉ a) (b : List Char) :
    splitFirst c (a ++ c :: b) = some (a, b) := by
  induction a with
  | nil => simp [splitFirst]
  | cons x a ih =>
    have hx : x ≠ c := fun e => h (by simp [e])
    have hs : c ∉ a := fun e => h (by simp [e])
    simp [splitFirst, hx, ih hs]

theorem splitFirst_some {c : Char} {s a b : List Char} (h : splitFirst c s = some (a, b)) :
    s = a ++ c :: b ∧ c ∉ a := by
  induction s generalizing a with
  | nil => simp [splitFirst] at h
  | cons x s ih =>
    unfold splitFirst at h
    by_cases hx : x = c
    · simp only [hx, if_true, Option.some.injEq, Prod.mk.injEq] at h
      obtain ⟨rfl, rfl⟩ := h
      simp [hx]
    · simp only [hx, if_false] at h
      cases hs : splitFirst c s with
      | none => simp [hs] at h
      | some ab =>
        obtain ⟨a', b'⟩ := ab
        simp only [hs, Option.some.injEq, Prod.mk.injEq] at h
        obtain ⟨rfl, rfl⟩ := h
        obtain ⟨rfl, hn⟩ := ih hs
        refine ⟨rfl, ?_⟩
        intro hm
        rcases List.mem_cons.1 hm with e | hm
        · exact hx e.symm
        · exact hn hm

theorem splitFirst_eq_none {c : Char} {s : List Char} (h : splitFirst c s = none) : c ∉ s := by
  intro hm
  obtain ⟨a, b, rfl⟩ := List.append_of_mem hm
  -- take the first occurrence
  induction a with
  | nil => simp [splitFirst] at h
  | cons x a ih =>
    unfold splitFirst at h
    by_cases hx : x = c
    · simp [hx] at h
    · simp only [List.cons_append, hx, if_false] at h
      cases hs : splitFirst c (a ++ c :: b) with
      | none => exact ih hs (by simp)
      | some ab => obtain ⟨a', b'⟩ := ab; simp [hs] at h

theorem colon_not_space : HS.isSpace ':' = false := by decide
theorem comma_not_space : HS.isSpace ',' = false := by decide

/-! ## stable insertion sort, generic part -/

section generic
variable {α : Type}

theorem insertBy_perm (lt : α → α → Bool) (x : α) (ys : List α) : (insertBy lt x ys).Perm (x :: ys) := by
  induction ys with
  | nil => exact List.Perm.refl _
  | cons y ys ih =>
    unfold insertBy
    cases h : lt y x
    · exact List.Perm.refl _
    · simp only [if_true]
      exact ((List.perm_cons y).2 ih).trans (List.Perm.swap x y ys)

theorem isort_perm (lt : α → α → Bool) (l : List α) : (isort lt l).Perm l := by
  induction l with
  | nil => exact List.Perm.refl _
  | cons x xs ih => exact (insertBy_perm lt x _).trans ((List.perm_cons x).2 ih)

theorem mem_isort {lt : α → α → Bool} {l : List α} {a : α} : a ∈ isort lt l ↔ a ∈ l := (isort_perm lt l).mem_iff

theorem insertBy_congr {lt lt' : α → α → Bool} {x : α} {ys : List α} (h : ∀ y ∈ ys, lt y x = lt' y x) :
    insertBy lt x ys = insertBy lt' x ys := by
  induction ys with
  | nil => rfl
  | cons y ys ih =>
    unfold insertBy
    rw [h y (by simp), ih (fun z hz => h z (by simp [hz]))]

/-- the sort only looks at the comparator on the elements of the list -/
theorem isort_congr {lt lt' : α → α → Bool} {l : List α} (h : ∀ a ∈ l, ∀ b ∈ l, lt a b = lt' a b) :
    isort lt l = isort lt' l := by
  induction l with
  | nil => rfl
  | cons x xs ih =>
    show insertBy lt x (isort lt xs) = insertBy lt' x (isort lt' xs)
    rw [ih (fun a ha b hb => h a (by simp [ha]) b (by simp [hb]))]
    exact insertBy_congr (fun y hy => h y (by simp [mem_isort.1 hy]) x (by simp))

theorem insertBy_map {β : Type} (f : α → β) (lt : β → β → Bool) (x : α) (ys : List α) :
    (insertBy (fun a b => lt (f a) (f b)) x ys).map f = insertBy lt (f x) (ys.map f) := by
  induction ys with
  | nil => rfl
  | cons y ys ih =>
    unfold insertBy
    cases h : lt (f y) (f x) <;> simp [h, ih]

theorem isort_map {β : Type} (f : α → β) (lt : β → β → Bool) (l : List α) :
    (isort (fun a b => lt (f a) (f b)) l).map f = isort lt (l.map f) := by
  induction l with
  | nil => rfl
  | cons x xs ih =>
    show (insertBy _ x (isort _ xs)).map f = insertBy lt (f x) (isort lt (xs.map f))
    rw [insertBy_map, ih]

/-- stability: a class that is never crossed by the comparator keeps its subsequence -/
theorem insertBy_filter {β : Type} [BEq β] [LawfulBEq β] (lt : α → α → Bool) (cls : α → β) (k : β) (x : α) (ys : List α)
    (h : ∀ y ∈ ys, lt y x = true → cls y ≠ cls x) :
    (insertBy lt x ys).filter (fun a => cls a == k) = (x :: ys).filter (fun a => cls a == k) := by
  induction ys with
  | nil => rfl
  | cons y ys ih =>
    unfold insertBy
    cases hl : lt y x
    · rfl
    · simp only [if_true]
      have hne := h y (by simp) hl
      have ih' := ih (fun z hz => h z (by simp [hz]))
      by_cases hy : cls y = k
      · have hx : cls x ≠ k := fun e => hne (hy.trans e.symm)
        simp only [List.filter_cons, hy, beq_self_eq_true, if_true] at ih' ⊢
        simp only [ih']
        simp [hx]
      · simp only [List.filter_cons, hy, beq_iff_eq, if_false] at ih' ⊢
        simp [ih']

theorem isort_filter {β : Type} [BEq β] [LawfulBEq β] (lt : α → α → Bool) (cls : α → β) (k : β) (l : List α)
    (h : ∀ a ∈ l, ∀ b ∈ l, lt a b = true → cls a ≠ cls b) :
    (isort lt l).filter (fun a => cls a == k) = l.filter (fun a => cls a == k) := by
  induction l with
  | nil => rfl
  | cons x xs ih =>
    show (insertBy lt x (isort lt xs)).filter _ = _
    rw [insertBy_filter lt cls k x _ (fun y hy => h y (by simp [mem_isort.1 hy]) x (by simp))]
    have ih' := ih (fun a ha b hb => h a (by simp [ha]) b (by simp [hb]))
    simp only [List.filter_cons, ih']

/-- comparator induced by an integer rank -/
def ltR (r : α → Int) (a b : α) : Bool := decide (r a < r b)

/-- sorted by rank -/
def SortedR (r : α → Int) (l : List α) : Prop := l.Pairwise (fun a b => r a ≤ r b)

theorem insertBy_sorted (r : α → Int) (x : α) (ys : List α) (h : SortedR r ys) :
    SortedR r (insertBy (ltR r) x ys) := by
  induction ys with
  | nil => simp [insertBy, SortedR]
  | cons y ys ih =>
    obtain ⟨hy, hys⟩ := List.pairwise_cons.1 h
    unfold insertBy
    by_cases hl : r y < r x
    · simp only [ltR, hl, decide_true, if_true]
      refine List.pairwise_cons.2 ⟨fun z hz => ?_, ih hys⟩
      rcases List.mem_cons.1 ((insertBy_perm _ x ys).mem_iff.1 hz) with rfl | hz
      · omega
      · exact hy z hz
    · simp only [ltR, hl, decide_false]
      refine List.pairwise_cons.2 ⟨fun z hz => ?_, h⟩
      rcases List.mem_cons.1 hz with rfl | hz
      · omega
      · have := hy z hz; omega

theorem isort_sorted (r : α → Int) (l : List α) : SortedR r (isort (ltR r) l) := by
  induction l with
  | nil => exact List.Pairwise.nil
  | cons x xs ih => exact insertBy_sorted r x _ ih

/-- a rank-sorted list is its low part followed by its high part, for every threshold -/
theorem sorted_split (r : α → Int) (t : Int) (m : List α) (h : SortedR r m) :
    m = m.filter (fun a => decide (r a < t)) ++ m.filter (fun a => decide (t ≤ r a)) := by
  induction m with
  | nil => rfl
  | cons a m ih =>
    obtain ⟨ha, hm⟩ := List.pairwise_cons.1 h
    by_cases hlt : r a < t
    · have hge : ¬ t ≤ r a := by omega
      simp only [List.filter_cons, hlt, hge, decide_true, decide_false, if_true, List.cons_append]
      exact congrArg _ (ih hm)
    · have hge : t ≤ r a := by omega
      have h1 : m.filter (fun a => decide (r a < t)) = [] := by
        apply List.filter_eq_nil_iff.2
        intro z hz; have := ha z hz; simp; omega
      have h2 : m.filter (fun a => decide (t ≤ r a)) = m := by
        apply List.filter_eq_self.2
        intro z hz; have := ha z hz; simp; omega
      simp [hlt, hge, h1, h2]

/-- the rank classes `k, k+1, …, k+n-1` of `m0`, concatenated -/
def classes (r : α → Int) (m0 : List α) : Nat → Int → List α
  | 0, _ => []
  | n + 1, k => m0.filter (fun a => r a == k) ++ classes r m0 n (k + 1)

/-- a rank-sorted list with ranks in `[k, k+n)` whose classes are those of `m0` IS the concatenation of the
    classes of `m0` -/
theorem sorted_classes (r : α → Int) (m0 : List α) : ∀ (n : Nat) (k : Int) (m : List α), SortedR r m →
    (∀ a ∈ m, k ≤ r a ∧ r a < k + n) →
    (∀ j, k ≤ j → j < k + n → m.filter (fun a => r a == j) = m0.filter (fun a => r a == j)) →
    m = classes r m0 n k := by
  intro n
  induction n with
  | zero =>
    intro k m _ hb _
    cases m with
    | nil => rfl
    | cons a m => have := hb a (by simp); omega
  | succ n ih =>
    intro k m hs hb hc
    have hsplit := sorted_split r (k + 1) m hs
    have h1 : m.filter (fun a => decide (r a < k + 1)) = m0.filter (fun a => r a == k) := by
      rw [← hc k (by omega) (by omega)]
      apply List.filter_congr
      intro a ha; have := hb a ha
      by_cases e : r a = k
      · simp [e]; omega
      · have : ¬ r a < k + 1 := by omega
        simp [e, this]
    have h2 : m.filter (fun a => decide (k + 1 ≤ r a)) = classes r m0 n (k + 1) := by
      apply ih (k + 1) _ (List.Pairwise.filter _ hs)
      · intro a ha
        obtain ⟨ham, hp⟩ := List.mem_filter.1 ha
        have := hb a ham
        have hp' : k + 1 ≤ r a := by simpa using hp
        constructor <;> omega
      · intro j hj1 hj2
        rw [← hc j (by omega) (by omega), List.filter_filter]
        apply List.filter_congr
        intro a _
        by_cases e : r a = j
        · simp [e]; omega
        · simp [e]
    rw [hsplit, h1, h2]; rfl

/-- two permutations of each other with at most one element are equal -/
theorem perm_short_eq {l1 l2 : List α} (hp : l1.Perm l2) (hl : l1.length ≤ 1) : l1 = l2 := by
  have hlen := hp.length_eq
  match l1, l2, hl, hlen, hp with
  | [], [], _, _, _ => rfl
  | [a], [b], _, _, hp => rw [List.singleton_perm_singleton.1 hp]
  | [], _ :: _, _, hlen, _ => simp at hlen
  | [_], [], _, hlen, _ => simp at hlen
  | [_], _ :: _ :: _, _, hlen, _ => simp at hlen
  | _ :: _ :: _, _, hl, _, _ => simp at hl

end generic

/-! ## the weight table (`Facts.attrWeights`, re-extracted on every run) -/

/-- single integer sort key: the weight for directives, `1` for plain attributes -/
def rank (pfx n : String) : Int := if hasPrefix pfx n then wlookup (strip pfx n) else 1

theorem lookup_mem {t : List (String × Int)} {k : String} {v : Int} (h : t.lookup k = some v) : (k, v) ∈ t := by
  induction t with
  | nil => simp at h
  | cons p t ih =>
    obtain ⟨a, b⟩ := p
    rw [List.lookup_cons] at h
    cases hk : k == a
    · rw [hk] at h; exact List.mem_cons_of_mem _ (ih h)
    · rw [hk] at h
      have : k = a := by simpa using hk
      simp only [Option.some.injEq] at h
      subst this; subst h; simp

theorem table_bounds : ∀ kv ∈ Facts.attrWeights, -4 ≤ kv.2 ∧ kv.2 ≤ 0 := by decide

theorem wlookup_bounds (k : String) : -4 ≤ wlookup k ∧ wlookup k ≤ 0 := by
  unfold wlookup
  cases h : Facts.attrWeights.lookup k with
  | none => simp
  | some v => exact table_bounds (k, v) (lookup_mem h)

theorem wlookup_of_not_key {n : String} (h : n ∉ weightKeys) : wlookup n = 0 := by
  unfold wlookup
  have : Facts.attrWeights.lookup n = none := by
    apply List.lookup_eq_none_iff.2
    intro p hp
    have : n ≠ p.1 := fun e => h (by unfold weightKeys; rw [e]; exact List.mem_map_of_mem hp)
    simpa using this
  rw [this]; rfl

theorem keys_sub_names : ∀ k ∈ weightKeys, k ∈ directiveNames := by decide
theorem names_sub_keys : ∀ k ∈ directiveNames, k ∈ weightKeys := by decide

/-- which names carry which weight -/
theorem wl_iff (s : String) :
    (wlookup s = -4 ↔ s = "with") ∧ (wlookup s = -3 ↔ s ∈ condNames) ∧ (wlookup s = -2 ↔ s = "range") ∧
    (wlookup s = -1 ↔ s = "remove") ∧ (wlookup s = 0 ↔ s ∉ directiveNames) := by
  by_cases h : s ∈ directiveNames
  · simp only [directiveNames, condNames, List.cons_append, List.nil_append, List.mem_cons, List.not_mem_nil,
      or_false] at h
    rcases h with rfl | rfl | rfl | rfl | rfl | rfl | rfl | rfl <;> decide
  · have hw : wlookup s = 0 := wlookup_of_not_key (fun hk => h (keys_sub_names s hk))
    rw [hw]
    simp only [directiveNames, condNames, List.cons_append, List.nil_append, List.mem_cons, List.not_mem_nil,
      or_false, not_or] at h ⊢
    obtain ⟨h1, h2, h3, h4, h5, h6, h7, h8⟩ := h
    simp [h1, h2, h3, h4, h5, h6, h7, h8]

theorem rank_bounds (pfx n : String) : -4 ≤ rank pfx n ∧ rank pfx n ≤ 1 := by
  unfold rank
  have := wlookup_bounds (strip pfx n)
  split <;> omega

/-- the six classes of the sort, by rank and by name -/
theorem rank_iff (pfx n : String) :
    (rank pfx n = -4 ↔ isDir pfx ["with"] n = true) ∧ (rank pfx n = -3 ↔ isDir pfx condNames n = true) ∧
    (rank pfx n = -2 ↔ isDir pfx ["range"] n = true) ∧ (rank pfx n = -1 ↔ isDir pfx ["remove"] n = true) ∧
    (rank pfx n = 0 ↔ isOtherDir pfx directiveNames n = true) ∧ (rank pfx n = 1 ↔ hasPrefix pfx n = false) := by
  unfold rank isDir isOtherDir
  cases hp : hasPrefix pfx n
  · simp
  · obtain ⟨h1, h2, h3, h4, h5⟩ := wl_iff (strip pfx n)
    have hb := wlookup_bounds (strip pfx n)
    simp only [if_true, Bool.true_and, List.contains_eq_mem, decide_eq_true_eq, List.mem_singleton,
      Bool.not_eq_true', decide_eq_false_iff_not]
    refine ⟨h1, h2, h3, h4, h5, ?_⟩
    constructor
    · intro h; omega
    · intro h; cases h

/-- `rank` is a function of `weight` … -/
theorem rank_of_weight (pfx n : String) :
    rank pfx n = if (weight pfx n).1 = 0 then (weight pfx n).2 else 1 := by
  unfold rank weight
  cases hasPrefix pfx n <;> simp

/-- … and the two determine each other (the table has no positive weight) -/
theorem weight_eq_iff_rank_eq (pfx x y : String) : weight pfx x = weight pfx y ↔ rank pfx x = rank pfx y := by
  constructor
  · intro h; rw [rank_of_weight, rank_of_weight, h]
  · unfold rank weight
    have hx := wlookup_bounds (strip pfx x)
    have hy := wlookup_bounds (strip pfx y)
    cases hasPrefix pfx x <;> cases hasPrefix pfx y <;> simp <;> omega

/-- the side condition on one name -/
def GoodName (pfx n : String) : Prop := hasPrefix pfx n = false → n ∉ weightKeys

/-- when the LEFT name satisfies the side condition the Go comparator IS comparison of ranks -/
theorem lt_eq_ltR {pfx x : String} (hx : GoodName pfx x) (y : String) :
    lt pfx x y = ltR (rank pfx) x y := by
  unfold lt pw mapKey rank ltR
  have bx := wlookup_bounds (strip pfx x)
  have b_y := wlookup_bounds (strip pfx y)
  cases hpx : hasPrefix pfx x <;> cases hpy : hasPrefix pfx y
  · simp [hpx, hpy]
  · have : wlookup x = 0 := wlookup_of_not_key (hx hpx)
    simp [hpx, hpy, this]; omega
  · simp [hpx, hpy]; omega
  · simp [hpx, hpy]

theorem sortedAttrs_eq_rank {pfx : String} {l : List String} (h : NoPlainDirectiveName pfx l) :
    sortedAttrs pfx l = isort (ltR (rank pfx)) l :=
  isort_congr (fun a ha b _ => lt_eq_ltR (h a ha) b)

theorem lt_irrefl (pfx x : String) : lt pfx x x = false := by
  unfold lt pw
  cases hasPrefix pfx x <;> simp

/-! ## the sorted list, explicitly -/

theorem ltR_ne {pfx a b : String} (h : ltR (rank pfx) a b = true) : weight pfx a ≠ weight pfx b := by
  intro e
  have := (weight_eq_iff_rank_eq pfx a b).1 e
  simp only [ltR, decide_eq_true_eq] at h
  omega

/-- stability in terms of ranks -/
theorem isortR_filter (pfx : String) (j : Int) (l : List String) :
    (isort (ltR (rank pfx)) l).filter (fun n => rank pfx n == j) = l.filter (fun n => rank pfx n == j) := by
  apply isort_filter
  intro a _ b _ h e
  simp only [ltR, decide_eq_true_eq] at h
  omega

/-- the rank-sorted list is the concatenation of the six rank classes of the input -/
theorem isortR_classes (pfx : String) (l : List String) :
    isort (ltR (rank pfx)) l = classes (rank pfx) l 6 (-4) := by
  apply sorted_classes (rank pfx) l 6 (-4) _ (isort_sorted _ l)
  · intro a _; have := rank_bounds pfx a; constructor <;> omega
  · intro j _ _; exact isortR_filter pfx j l

theorem rank_beq (pfx : String) :
    (fun n => rank pfx n == -4) = isDir pfx ["with"] ∧ (fun n => rank pfx n == -3) = isDir pfx condNames ∧
    (fun n => rank pfx n == -2) = isDir pfx ["range"] ∧ (fun n => rank pfx n == -1) = isDir pfx ["remove"] ∧
    (fun n => rank pfx n == 0) = isOtherDir pfx directiveNames ∧
    (fun n => rank pfx n == 1) = (fun n => !hasPrefix pfx n) := by
  refine ⟨?_, ?_, ?_, ?_, ?_, ?_⟩ <;> funext n <;> obtain ⟨h1, h2, h3, h4, h5, h6⟩ := rank_iff pfx n <;>
    rw [Bool.eq_iff_iff] <;> simp only [beq_iff_eq]
  · exact h1
  · exact h2
  · exact h3
  · exact h4
  · exact h5
  · simpa using h6

theorem weight_neg_iff (pfx n : String) : (weight pfx n).2 < 0 ↔ rank pfx n < 0 := by
  unfold weight rank
  cases hasPrefix pfx n <;> simp

theorem weight_eq_neg_iff (pfx n : String) (w : Int) (hw : w < 0) : weight pfx n = (0, w) ↔ rank pfx n = w := by
  unfold weight rank
  cases hasPrefix pfx n
  · simp; omega
  · simp

/-- the negative-weight part of the rank-sorted list is the concatenation of the four negative classes -/
theorem isortR_neg (pfx : String) (l : List String) :
    (isort (ltR (rank pfx)) l).filter (fun n => decide (rank pfx n < 0)) = classes (rank pfx) l 4 (-4) := by
  apply sorted_classes (rank pfx) l 4 (-4) _ (List.Pairwise.filter _ (isort_sorted _ l))
  · intro a ha
    have := rank_bounds pfx a
    have h2 : rank pfx a < 0 := by simpa using (List.mem_filter.1 ha).2
    constructor <;> omega
  · intro j _ hj
    rw [← isortR_filter pfx j l, List.filter_filter]
    apply List.filter_congr
    intro a _
    by_cases e : rank pfx a = j
    · simp [e]; omega
    · simp [e]

end AT
