import TplModel.Html.Scan
/-! # Round trip "print, then scan" — lemmas (property C17, first sentence)

Part 1   position-free view of the scanner: `absS` forgets all source positions of a scanner state (nothing else),
         `concS` re-inserts dummy positions; the *derived* machine `astep` is the real `HS.step` run on `concS a`
         and viewed through `absS`.  `step_abs`/`scan_abs`: positions never influence control flow, so
         `(HS.scan cfg cs).map (List.map forget) = ascan cfg cs`.  All further reasoning is on `astep`.
Part 2   one lemma per transition of the tag/text machine (`astep_…`), runs `arun`.
Part 3   runs over blanks and names; boundary states `Bnd` (end of an attribute, attribute possibly still pending),
         `arun_gap_next` / `arun_gap_end`.
Part 4   abstract tokens `Tok`, layouts `Lay`/`Gap`, printer `printL`/`print`, expected scanner output `emb`/`embL`.
Part 5-7 one attribute (`arun_attr_body`), the attribute list (`arun_attrs`, distinctness bookkeeping `distinctFrom`),
         a whole tag (`arun_tag`).
Part 8   comments and CDATA sections (`arun_comment_tok`, `arun_cdata_tok`, `no_early_end`).
Part 9   raw-text elements: declarative `hasClose`, `arun_raw_body` (text without closing tag), `arun_raw_close_tag`.
Part 10  token sequences: contexts `Ctx`, `wfSeq`, inter-token states `St`, the sequence lemma `arun_seq`,
         `ascan_printL`, transfer to the real scanner `scan_of_ascan`.
Part 11  `erase` (scanner token ↦ abstract token) and `erase_emb`.
Part 12  rejected inputs: unterminated tag, malformed comments, duplicate attributes. -/
set_option linter.unusedSimpArgs false
set_option linter.unusedVariables false
namespace HS
namespace RT

/-- an attribute without positions; `value` is the raw value including its quotes, as the scanner reports it -/
structure AAttr where
  name : List Char
  value : Option (List Char)
deriving DecidableEq, Repr

/-- a token without positions (kind, value = source text of the token, tag name and attributes in order) -/
structure ATok where
  kind : Kind
  value : List Char
  tag : Option (List Char × List AAttr)
deriving DecidableEq, Repr

def forgetAttr (a : HS.Attr) : AAttr := ⟨a.name, a.value⟩
def forgetTag (tg : HS.Tag) : List Char × List AAttr := (tg.name, tg.attrs.map forgetAttr)
/-- forget the positions of a token — and nothing else -/
def forget (t : Token) : ATok := ⟨t.kind, t.value, t.tag.map forgetTag⟩

structure ATagL where
  st : TagSt
  buf : List Char
  attrs : List AAttr
  tagName : List Char
  comment : List Char
  cdata : List Char
  attrName : List Char
  attrValue : List Char
deriving Repr

structure ATextL where
  buf : List Char
  raw : Option (List Char)
  tagBuf : List Char
  nameBuf : List Char
deriving Repr

inductive AMode
  | init
  | text (l : ATextL)
  | tag (l : ATagL)
deriving Repr

structure AS where
  mode : AMode
  toks : List ATok
deriving Repr

def absTagL (l : TagL) : ATagL :=
  ⟨l.st, l.buf, l.attrs.map forgetAttr, l.tagName, l.comment, l.cdata, l.attrName, l.attrValue⟩
def absTextL (l : TextL) : ATextL := ⟨l.buf, l.raw, l.tagBuf, l.nameBuf⟩
def absMode : Mode → AMode
  | .init => .init
  | .text l => .text (absTextL l)
  | .tag l => .tag (absTagL l)
def absS (s : S) : AS := ⟨absMode s.mode, s.toks.map forget⟩

def z : Pos := ⟨0, 0⟩
def concAttr (a : AAttr) : HS.Attr := ⟨a.name, z, z, a.value, z, z⟩
def concTag (tg : List Char × List AAttr) : HS.Tag := ⟨tg.1, tg.2.map concAttr⟩
def concTok (t : ATok) : Token := ⟨t.kind, t.value, z, z, t.tag.map concTag⟩
def concTagL (l : ATagL) : TagL :=
  { st := l.st, buf := l.buf, start := z, attrs := l.attrs.map concAttr, tagName := l.tagName, comment := l.comment,
    cdata := l.cdata, attrName := l.attrName, attrNameStart := z, attrNameEnd := z, attrValue := l.attrValue,
    attrValueStart := z, attrValueEnd := z }
def concTextL (l : ATextL) : TextL := ⟨l.buf, z, l.raw, z, l.tagBuf, l.nameBuf⟩
def concMode : AMode → Mode
  | .init => .init
  | .text l => .text (concTextL l)
  | .tag l => .tag (concTagL l)
def concS (a : AS) : S := ⟨concMode a.mode, z, a.toks.map concTok⟩

@[simp] theorem forget_concAttr (a : AAttr) : forgetAttr (concAttr a) = a := rfl
@[simp] theorem forgetAttr_comp : forgetAttr ∘ concAttr = id := by funext a; rfl
@[simp] theorem forget_concTok (t : ATok) : forget (concTok t) = t := by
  rcases t with ⟨k, v, _ | ⟨n, as⟩⟩ <;> simp [forget, concTok, concTag, forgetTag]
@[simp] theorem forget_comp : forget ∘ concTok = id := by funext a; simp
@[simp] theorem abs_concS (a : AS) : absS (concS a) = a := by
  rcases a with ⟨m, toks⟩
  cases m <;> simp [absS, concS, concMode, absMode, absTagL, concTagL, absTextL, concTextL]

/-- the derived position-free machine -/
def astep (cfg : Cfg) (a : AS) (c : Char) : Except Err AS := (step cfg (concS a) c).map absS
def afinish (a : AS) : Except Err (List ATok) := (finish (concS a)).map (List.map forget)
def arun (cfg : Cfg) (a : AS) (cs : List Char) : Except Err AS := cs.foldlM (astep cfg) a
def ainit : AS := ⟨.init, []⟩
def ascan (cfg : Cfg) (cs : List Char) : Except Err (List ATok) := do
  let a ← arun cfg ainit cs
  afinish a

/-! ### positions do not influence control flow -/

theorem addAttr_abs (l1 l2 : TagL) (a1 a2 : HS.Attr) (hl : absTagL l1 = absTagL l2) (ha : forgetAttr a1 = forgetAttr a2) :
    (addAttr l1 a1).map absTagL = (addAttr l2 a2).map absTagL := by
  have hn : a1.name = a2.name := congrArg AAttr.name ha
  have hat : l1.attrs.map forgetAttr = l2.attrs.map forgetAttr := congrArg ATagL.attrs hl
  have hany : l1.attrs.any (fun b => b.name == a1.name) = l2.attrs.any (fun b => b.name == a2.name) := by
    have e1 : l1.attrs.any (fun b => b.name == a1.name) = (l1.attrs.map forgetAttr).any (fun b => b.name == a1.name) := by
      simp [List.any_map, Function.comp_def, forgetAttr]
    have e2 : l2.attrs.any (fun b => b.name == a2.name) = (l2.attrs.map forgetAttr).any (fun b => b.name == a2.name) := by
      simp [List.any_map, Function.comp_def, forgetAttr]
    rw [e1, e2, hat, hn]
  unfold addAttr
  rw [hany]
  split
  · rfl
  · simp only [Except.map, absTagL, Except.ok.injEq, ATagL.mk.injEq, List.map_cons, List.cons.injEq] at hl ⊢
    simp [hl, ha]


theorem finishTag_abs (s1 s2 : S) (l1 l2 : TagL) (p q : Pos)
    (hs : s1.toks.map forget = s2.toks.map forget) (hl : absTagL l1 = absTagL l2) :
    absS (finishTag s1 l1 p) = absS (finishTag s2 l2 q) := by
  simp only [absTagL, ATagL.mk.injEq] at hl
  simp [absS, finishTag, S.emit, absMode, forget, forgetTag, hs, hl]

theorem contTag_abs (s1 s2 : S) (l1 l2 : TagL) (p q : Pos)
    (hs : s1.toks.map forget = s2.toks.map forget) (hl : absTagL l1 = absTagL l2) :
    absS { s1 with mode := .tag l1, pos := p } = absS { s2 with mode := .tag l2, pos := q } := by
  simp [absS, absMode, hs, hl]

theorem endCheck_abs (s1 s2 : S) (l1 l2 : TagL) (c : Char) (p q : Pos)
    (hs : s1.toks.map forget = s2.toks.map forget) (hl : absTagL l1 = absTagL l2) :
    (if c = '>' then Except.ok (finishTag s1 l1 p) else Except.ok { s1 with mode := .tag l1, pos := p }).map absS
    = (if c = '>' then (Except.ok (finishTag s2 l2 q) : Except Err S) else Except.ok { s2 with mode := .tag l2, pos := q }).map absS := by
  split
  · simp only [Except.map]; rw [finishTag_abs s1 s2 l1 l2 p q hs hl]
  · simp only [Except.map]; rw [contTag_abs s1 s2 l1 l2 p q hs hl]

theorem bind_addAttr_abs (l1 l2 : TagL) (a1 a2 : HS.Attr) (k1 k2 : TagL → Except Err S)
    (hl : absTagL l1 = absTagL l2) (ha : forgetAttr a1 = forgetAttr a2)
    (hk : ∀ m1 m2, absTagL m1 = absTagL m2 → (k1 m1).map absS = (k2 m2).map absS) :
    (match addAttr l1 a1 with | .error e => (Except.error e : Except Err S) | .ok l => k1 l).map absS
    = (match addAttr l2 a2 with | .error e => (Except.error e : Except Err S) | .ok l => k2 l).map absS := by
  have h := addAttr_abs l1 l2 a1 a2 hl ha
  cases h1 : addAttr l1 a1 <;> cases h2 : addAttr l2 a2 <;> simp only [h1, h2] at h ⊢
  · simp only [Except.map, Except.error.injEq] at h ⊢; exact h
  · simp [Except.map] at h
  · simp [Except.map] at h
  · simp only [Except.map, Except.ok.injEq] at h
    exact hk _ _ h

macro "ec_tac" hs:term : tactic => `(tactic| first
  | (apply endCheck_abs _ _ _ _ _ _ _ $hs)
  | (simp only [Except.map]; refine congrArg Except.ok (contTag_abs _ _ _ _ _ _ $hs ?_))
  | (simp only [Except.map]; refine congrArg Except.ok (finishTag_abs _ _ _ _ _ _ $hs ?_)))

theorem stepAttrName_abs (s1 s2 : S) (l1 l2 : TagL) (c : Char) (p p' q q' : Pos)
    (hs : s1.toks.map forget = s2.toks.map forget) (hl : absTagL l1 = absTagL l2) :
    (stepTag.stepAttrName s1 l1 c p p').map absS = (stepTag.stepAttrName s2 l2 c q q').map absS := by
  have hl' := hl
  simp only [absTagL, ATagL.mk.injEq] at hl'
  obtain ⟨h1, h2, h3, h4, h5, h6, h7, h8⟩ := hl'
  unfold stepTag.stepAttrName
  simp only [h7]
  by_cases hsp : isSpace c = true
  · simp only [hsp, if_true]
    ec_tac hs
    split <;> simp_all [absTagL]
  · simp only [hsp, Bool.false_eq_true, if_false]
    by_cases hgt : c = '>'
    · simp only [hgt, if_true]
      refine bind_addAttr_abs _ _ _ _ _ _ hl rfl ?_
      intro m1 m2 hm
      exact endCheck_abs _ _ _ _ '>' _ _ hs hm
    · simp only [hgt, if_false]
      by_cases heq : c = '='
      · have heq' : (c = '=') = True := eq_true heq
        simp only [heq', if_true]
        ec_tac hs
        simp_all [absTagL]
      · simp only [heq, if_false]
        split
        · refine bind_addAttr_abs _ _ _ _ _ _ hl rfl ?_
          intro m1 m2 hm
          ec_tac hs
          simp only [absTagL, ATagL.mk.injEq] at hm ⊢
          simp [hm]
        · ec_tac hs
          simp_all [absTagL]


theorem stepTag_abs (s1 s2 : S) (l1 l2 : TagL) (c : Char) (p p' q q' : Pos)
    (hs : s1.toks.map forget = s2.toks.map forget) (hl : absTagL l1 = absTagL l2) :
    (stepTag s1 l1 c p p').map absS = (stepTag s2 l2 c q q').map absS := by
  have hl' := hl
  simp only [absTagL, ATagL.mk.injEq] at hl'
  obtain ⟨h1, h2, h3, h4, h5, h6, h7, h8⟩ := hl'
  unfold stepTag
  simp only [h1]
  cases hst : l2.st <;> simp only []
  case attrName =>
    apply stepAttrName_abs _ _ _ _ _ _ _ _ _ hs
    simp_all [absTagL]
  case space =>
    by_cases hgt : c = '>'
    · simp only [hgt, if_true]
      ec_tac hs
      simp_all [absTagL]
    · simp only [hgt, if_false]
      by_cases hsp : isSpace c = true
      · simp only [hsp, Bool.not_true, Bool.false_eq_true, if_false]
        ec_tac hs
        simp_all [absTagL]
      · simp only [hsp, Bool.not_false, if_true]
        apply stepAttrName_abs _ _ _ _ _ _ _ _ _ hs
        simp_all [absTagL]
  case tagStart =>
    split
    · ec_tac hs
      simp_all [absTagL]
    · rfl
  case tagName =>
    simp only [h4]
    repeat' split
    all_goals ec_tac hs
    all_goals simp_all [absTagL]
  case cdata =>
    simp only [h6]
    split
    · simp [Except.map, absS, absMode, S.emit, forget, hs]
    · ec_tac hs
      simp_all [absTagL]
  case comment =>
    simp only [h5]
    repeat' split
    all_goals (try rfl)
    · simp [Except.map, absS, absMode, S.emit, forget, hs]
    · ec_tac hs
      simp_all [absTagL]
  case attrValue =>
    simp only [h8]
    by_cases hA : (l2.attrValue.isEmpty && decide (c ≠ '>')) = true
    · simp only [hA, if_true]
      split
      all_goals ec_tac hs
      all_goals simp_all [absTagL]
    · simp only [hA, Bool.false_eq_true, if_false]
      cases hg : l2.attrValue.getLast? with
      | none =>
        simp only [Bool.false_eq_true, if_false]
        by_cases hf : (isSpace c || decide (c = '>')) = true
        · simp only [hf, if_true]
          refine bind_addAttr_abs _ _ _ _ _ _ ?_ ?_ ?_
          · simp_all [absTagL]
          · simp_all [forgetAttr]
          · intro m1 m2 hm
            ec_tac hs
            simp only [absTagL, ATagL.mk.injEq] at hm ⊢
            simp [hm]
        · simp only [hf, Bool.false_eq_true, if_false]
          ec_tac hs
          simp_all [absTagL]
      | some ch =>
        simp only [Option.getD_some]
        cases hq : isQuote ch
        · simp only [Bool.false_eq_true, if_false]
          by_cases hf : (isSpace c || decide (c = '>')) = true
          · simp only [hf, if_true]
            refine bind_addAttr_abs _ _ _ _ _ _ ?_ ?_ ?_
            · simp_all [absTagL]
            · simp_all [forgetAttr]
            · intro m1 m2 hm
              ec_tac hs
              simp only [absTagL, ATagL.mk.injEq] at hm ⊢
              simp [hm]
          · simp only [hf, Bool.false_eq_true, if_false]
            ec_tac hs
            simp_all [absTagL]
        · simp only [if_true]
          by_cases hf : ch = c
          · simp only [hf, if_true]
            refine bind_addAttr_abs _ _ _ _ _ _ ?_ ?_ ?_
            · simp_all [absTagL]
            · simp_all [forgetAttr]
            · intro m1 m2 hm
              ec_tac hs
              simp only [absTagL, ATagL.mk.injEq] at hm ⊢
              simp [hm]
          · simp only [hf, Bool.false_eq_true, if_false]
            ec_tac hs
            simp_all [absTagL]


theorem newTagL_abs (p q : Pos) : absTagL (newTagL p) = absTagL (newTagL q) := rfl

theorem stepText_abs (s1 s2 : S) (l1 l2 : TextL) (c : Char) (p p' q q' : Pos)
    (hs : s1.toks.map forget = s2.toks.map forget) (hl : absTextL l1 = absTextL l2) :
    (stepText s1 l1 c p p').map absS = (stepText s2 l2 c q q').map absS := by
  have hl' := hl
  simp only [absTextL, ATextL.mk.injEq] at hl'
  obtain ⟨h1, h2, h3, h4⟩ := hl'
  unfold stepText
  simp only [h2]
  cases hraw : l2.raw with
  | none =>
    simp only []
    split
    · apply stepTag_abs _ _ _ _ _ _ _ _ _ _ (newTagL_abs p q)
      simp [S.emit, forget, hs, h1]
    · simp [Except.map, absS, absMode, absTextL, hs, h1, h2, h3, h4, hraw]
  | some tn =>
    simp only [h1, h3, h4]
    by_cases hc : c = '<'
    · simp only [hc, if_true, Bool.not_true, Bool.false_eq_true, if_false]
      repeat' split
      all_goals (try rfl)
      all_goals (try (simp_all [Except.map, absS, absMode, absTextL, S.emit, forget, forgetTag]; done))
      all_goals (try (simp_all [Except.map, absS, absMode, absTextL, S.emit, forget, forgetTag]; omega))
    · simp only [hc, if_false]
      repeat' split
      all_goals (try rfl)
      all_goals (try (simp_all [Except.map, absS, absMode, absTextL, S.emit, forget, forgetTag]; done))
      all_goals (try (simp_all [Except.map, absS, absMode, absTextL, S.emit, forget, forgetTag]; omega))


theorem rawTagOf_abs (cfg : Cfg) (t1 t2 : List Token) (h : t1.map forget = t2.map forget) :
    rawTagOf cfg t1 = rawTagOf cfg t2 := by
  cases t1 with
  | nil => cases t2 with
    | nil => rfl
    | cons b t2 => simp at h
  | cons a t1 => cases t2 with
    | nil => simp at h
    | cons b t2 =>
      rcases a with ⟨ka, va, sa, ea, ta⟩
      rcases b with ⟨kb, vb, sb, eb, tb⟩
      simp only [List.map_cons, List.cons.injEq, forget, ATok.mk.injEq] at h
      obtain ⟨⟨hk, _, ht⟩, _⟩ := h
      subst hk
      unfold rawTagOf
      cases ta <;> cases tb <;> simp only [Option.map_none, Option.map_some, reduceCtorEq, Option.some.injEq] at ht
      · rfl
      · simp only [forgetTag, Prod.mk.injEq] at ht
        cases ka <;> simp only [ht.1]

theorem step_abs (cfg : Cfg) (s : S) (c : Char) : (step cfg s c).map absS = astep cfg (absS s) c := by
  unfold astep step
  have hs : s.toks.map forget = (concS (absS s)).toks.map forget := by
    simp [concS, absS]
  cases hm : s.mode with
  | init =>
    have hr := rawTagOf_abs cfg s.toks _ hs
    simp only [concS, absS, hm, absMode, concMode] at hr ⊢
    rw [← hr]
    by_cases hc : (decide (c = '<') && (rawTagOf cfg s.toks).isNone) = true
    · simp only [hc, if_true]
      exact stepTag_abs _ _ _ _ _ _ _ _ _ hs (newTagL_abs _ _)
    · simp only [hc, Bool.false_eq_true, if_false]
      exact stepText_abs _ _ _ _ _ _ _ _ _ hs rfl
  | text l =>
    simp only [concS, absS, hm, absMode, concMode]
    refine stepText_abs _ _ _ _ _ _ _ _ _ hs ?_
    simp [absTextL, concTextL]
  | tag l =>
    simp only [concS, absS, hm, absMode, concMode]
    refine stepTag_abs _ _ _ _ _ _ _ _ _ hs ?_
    simp [absTagL, concTagL, Function.comp_def]

theorem finish_abs (s : S) : (finish s).map (List.map forget) = afinish (absS s) := by
  unfold afinish finish
  cases hm : s.mode <;> simp [concS, absS, hm, absMode, concMode, Except.map, S.emit, concTextL, absTextL] <;> simp [forget]

theorem run_abs (cfg : Cfg) (cs : List Char) (s : S) :
    (cs.foldlM (step cfg) s).map absS = arun cfg (absS s) cs := by
  induction cs generalizing s with
  | nil => simp [arun, List.foldlM, pure, Except.pure, Except.map]
  | cons c cs ih =>
    have h := step_abs cfg s c
    simp only [arun, List.foldlM, bind, Except.bind] at ih ⊢
    cases hs : step cfg s c with
    | error e => simp only [hs, Except.map] at h ⊢; rw [← h]
    | ok s1 => simp only [hs, Except.map] at h ⊢; rw [← h]; exact ih s1

/-- the real scanner, viewed without positions, is the derived machine -/
theorem scan_abs (cfg : Cfg) (cs : List Char) : (scan cfg cs).map (List.map forget) = ascan cfg cs := by
  unfold scan ascan
  have h := run_abs cfg cs { mode := .init, pos := ⟨1,1⟩, toks := [] }
  have hi : absS { mode := .init, pos := ⟨1,1⟩, toks := [] } = ainit := rfl
  rw [hi] at h
  simp only [bind, Except.bind]
  cases hr : cs.foldlM (step cfg) { mode := .init, pos := ⟨1,1⟩, toks := [] } with
  | error e => simp only [hr, Except.map] at h ⊢; rw [← h]
  | ok s1 => simp only [hr, Except.map] at h ⊢; rw [← h]; exact finish_abs s1

/-! ## Part 2: single steps of the position-free machine -/

/-- abstract version of `rawTagOf` -/
def arawTagOf (cfg : Cfg) (toks : List ATok) : Option (List Char) := rawTagOf cfg (toks.map concTok)

def isRawName (cfg : Cfg) (n : List Char) : Bool := cfg.textTags.any (fun t => lower t == lower n)

theorem arawTagOf_nil (cfg : Cfg) : arawTagOf cfg [] = none := rfl
theorem arawTagOf_tag (cfg : Cfg) (v n : List Char) (as : List AAttr) (toks : List ATok) :
    arawTagOf cfg (⟨.tag, v, some (n, as)⟩ :: toks) = if isRawName cfg n then some (lower n) else none := rfl
theorem arawTagOf_text (cfg : Cfg) (v : List Char) (tg) (toks : List ATok) :
    arawTagOf cfg (⟨.text, v, tg⟩ :: toks) = none := rfl
theorem arawTagOf_comment (cfg : Cfg) (v : List Char) (tg) (toks : List ATok) :
    arawTagOf cfg (⟨.comment, v, tg⟩ :: toks) = none := rfl
theorem arawTagOf_cdata (cfg : Cfg) (v : List Char) (tg) (toks : List ATok) :
    arawTagOf cfg (⟨.cdata, v, tg⟩ :: toks) = none := rfl

@[simp] theorem any_conc (as : List AAttr) (n : List Char) :
    (as.map concAttr).any (fun b => b.name == n) = as.any (fun b => b.name == n) := by
  simp [List.any_map, Function.comp_def, concAttr]

theorem astep_init_lt (cfg : Cfg) (toks : List ATok) (h : arawTagOf cfg toks = none) :
    astep cfg ⟨.init, toks⟩ '<' = .ok ⟨.tag ⟨.tagName, ['<'], [], [], [], [], [], []⟩, toks⟩ := by
  unfold arawTagOf at h
  simp [astep, step, concS, concMode, h, stepTag, newTagL, Except.map, absS, absMode, absTagL]

theorem astep_text_lt (cfg : Cfg) (toks : List ATok) (buf tb nb : List Char) :
    astep cfg ⟨.text ⟨buf, none, tb, nb⟩, toks⟩ '<' =
      .ok ⟨.tag ⟨.tagName, ['<'], [], [], [], [], [], []⟩, ⟨.text, buf.reverse, none⟩ :: toks⟩ := by
  simp [astep, step, concS, concMode, concTextL, stepText, stepTag, newTagL, Except.map, absS, absMode, absTagL, S.emit, forget]

theorem astep_tagName_gt (cfg : Cfg) (toks : List ATok) (buf as tn cm cd an av) :
    astep cfg ⟨.tag ⟨.tagName, buf, as, tn, cm, cd, an, av⟩, toks⟩ '>' =
      .ok ⟨.init, ⟨.tag, ('>' :: buf).reverse, some (tn.reverse, as.reverse)⟩ :: toks⟩ := by
  simp [astep, step, concS, concMode, concTagL, stepTag, Except.map, absS, absMode, finishTag, S.emit, forget, forgetTag]


macro "astep_simp" : tactic => `(tactic|
  simp [astep, step, concS, concMode, concTagL, concTextL, stepTag, stepTag.stepAttrName, stepText, newTagL, addAttr,
    Except.map, absS, absMode, absTagL, absTextL, finishTag, S.emit, forget, forgetTag, forgetAttr, concAttr, *])

theorem isSpace_gt : isSpace '>' = false := by decide
theorem isSpace_lt : isSpace '<' = false := by decide
theorem isSpace_eq : isSpace '=' = false := by decide
theorem isSpace_slash : isSpace '/' = false := by decide
theorem isSpace_blank' : isSpace ' ' = true := by decide

section TagSteps
variable (cfg : Cfg) (toks : List ATok) (buf : List Char) (as : List AAttr) (tn cm cd an av : List Char) (c : Char)

theorem astep_tagName_ch (hs : isSpace c = false) (hgt : c ≠ '>')
    (h1 : tn.reverse ++ [c] ≠ ['!','-','-']) (h2 : tn.reverse ++ [c] ≠ ['!','[','C','D','A','T','A','[']) :
    astep cfg ⟨.tag ⟨.tagName, buf, as, tn, cm, cd, an, av⟩, toks⟩ c =
      .ok ⟨.tag ⟨.tagName, c :: buf, as, c :: tn, cm, cd, an, av⟩, toks⟩ := by
  astep_simp

theorem astep_tagName_sp (hs : isSpace c = true) :
    astep cfg ⟨.tag ⟨.tagName, buf, as, tn, cm, cd, an, av⟩, toks⟩ c =
      .ok ⟨.tag ⟨.space, c :: buf, as, tn, cm, cd, an, av⟩, toks⟩ := by
  have hgt : c ≠ '>' := by intro h; subst h; simp [isSpace_gt] at hs
  astep_simp

theorem astep_space_gt :
    astep cfg ⟨.tag ⟨.space, buf, as, tn, cm, cd, an, av⟩, toks⟩ '>' =
      .ok ⟨.init, ⟨.tag, ('>' :: buf).reverse, some (tn.reverse, as.reverse)⟩ :: toks⟩ := by
  astep_simp

theorem astep_space_sp (hs : isSpace c = true) :
    astep cfg ⟨.tag ⟨.space, buf, as, tn, cm, cd, an, av⟩, toks⟩ c =
      .ok ⟨.tag ⟨.space, c :: buf, as, tn, cm, cd, an, av⟩, toks⟩ := by
  have hgt : c ≠ '>' := by intro h; subst h; simp [isSpace_gt] at hs
  astep_simp

theorem astep_space_ch (hs : isSpace c = false) (hgt : c ≠ '>') (heq : c ≠ '=') :
    astep cfg ⟨.tag ⟨.space, buf, as, tn, cm, cd, an, av⟩, toks⟩ c =
      .ok ⟨.tag ⟨.attrName, c :: buf, as, tn, cm, cd, [c], av⟩, toks⟩ := by
  astep_simp


/-- a character of an attribute name: no blank, not `>`, not `=` -/
def nameCh (c : Char) : Bool := !isSpace c && c != '>' && c != '='

theorem nameCh_iff {c : Char} : nameCh c = true ↔ isSpace c = false ∧ c ≠ '>' ∧ c ≠ '=' := by
  simp [nameCh, and_assoc]

/-- head of the (reversed) attribute-name buffer is not the recorded blank -/
def noBlankHead : List Char → Prop
  | ' ' :: _ => False
  | _ => True

theorem astep_attrName_ch (hs : isSpace c = false) (hgt : c ≠ '>') (heq : c ≠ '=') (hb : noBlankHead an) :
    astep cfg ⟨.tag ⟨.attrName, buf, as, tn, cm, cd, an, av⟩, toks⟩ c =
      .ok ⟨.tag ⟨.attrName, c :: buf, as, tn, cm, cd, c :: an, av⟩, toks⟩ := by
  unfold noBlankHead at hb
  split at hb
  · exact hb.elim
  · rename_i hne
    astep_simp

theorem astep_attrName_sp1 (hs : isSpace c = true) (hb : noBlankHead an) :
    astep cfg ⟨.tag ⟨.attrName, buf, as, tn, cm, cd, an, av⟩, toks⟩ c =
      .ok ⟨.tag ⟨.attrName, c :: buf, as, tn, cm, cd, ' ' :: an, av⟩, toks⟩ := by
  have hgt : c ≠ '>' := by intro h; subst h; simp [isSpace_gt] at hs
  unfold noBlankHead at hb
  split at hb
  · exact hb.elim
  · rename_i hne
    astep_simp

theorem astep_attrName_sp2 (hs : isSpace c = true) :
    astep cfg ⟨.tag ⟨.attrName, buf, as, tn, cm, cd, ' ' :: an, av⟩, toks⟩ c =
      .ok ⟨.tag ⟨.attrName, c :: buf, as, tn, cm, cd, ' ' :: an, av⟩, toks⟩ := by
  have hgt : c ≠ '>' := by intro h; subst h; simp [isSpace_gt] at hs
  astep_simp

theorem astep_attrName_eq :
    astep cfg ⟨.tag ⟨.attrName, buf, as, tn, cm, cd, an, av⟩, toks⟩ '=' =
      .ok ⟨.tag ⟨.attrValue, '=' :: buf, as, tn, cm, cd, an, []⟩, toks⟩ := by
  have := isSpace_eq
  astep_simp

/-- `>` directly after (the blanks after) a value-less attribute name: the attribute is added, the tag ends -/
theorem astep_attrName_gt (hd : as.any (fun b => b.name == (trimOneSpace an).reverse) = false) :
    astep cfg ⟨.tag ⟨.attrName, buf, as, tn, cm, cd, an, av⟩, toks⟩ '>' =
      .ok ⟨.init, ⟨.tag, ('>' :: buf).reverse,
        some (tn.reverse, (⟨(trimOneSpace an).reverse, none⟩ :: as).reverse)⟩ :: toks⟩ := by
  have := isSpace_gt
  have hd' : ¬ ∃ x, x ∈ as ∧ x.name = (trimOneSpace an).reverse := by simpa using hd
  astep_simp

theorem astep_attrName_gt_dup (hd : as.any (fun b => b.name == (trimOneSpace an).reverse) = true) :
    astep cfg ⟨.tag ⟨.attrName, buf, as, tn, cm, cd, an, av⟩, toks⟩ '>' = .error .dupAttr := by
  have := isSpace_gt
  have hd' : ∃ x, x ∈ as ∧ x.name = (trimOneSpace an).reverse := by simpa using hd
  astep_simp

/-- first character of the next attribute name after a value-less attribute and blanks -/
theorem astep_attrName_next (hs : isSpace c = false) (hgt : c ≠ '>') (heq : c ≠ '=')
    (hd : as.any (fun b => b.name == an.reverse) = false) :
    astep cfg ⟨.tag ⟨.attrName, buf, as, tn, cm, cd, ' ' :: an, av⟩, toks⟩ c =
      .ok ⟨.tag ⟨.attrName, c :: buf, ⟨an.reverse, none⟩ :: as, tn, cm, cd, [c], av⟩, toks⟩ := by
  have hd' : ¬ ∃ x, x ∈ as ∧ x.name = an.reverse := by simpa using hd
  astep_simp

theorem astep_attrName_next_dup (hs : isSpace c = false) (hgt : c ≠ '>') (heq : c ≠ '=')
    (hd : as.any (fun b => b.name == an.reverse) = true) :
    astep cfg ⟨.tag ⟨.attrName, buf, as, tn, cm, cd, ' ' :: an, av⟩, toks⟩ c = .error .dupAttr := by
  have hd' : ∃ x, x ∈ as ∧ x.name = an.reverse := by simpa using hd
  astep_simp


theorem astep_attrValue_skip (hs : isSpace c = true) :
    astep cfg ⟨.tag ⟨.attrValue, buf, as, tn, cm, cd, an, []⟩, toks⟩ c =
      .ok ⟨.tag ⟨.attrValue, c :: buf, as, tn, cm, cd, an, []⟩, toks⟩ := by
  have hgt : c ≠ '>' := by intro h; subst h; simp [isSpace_gt] at hs
  astep_simp

theorem astep_attrValue_first (hs : isSpace c = false) (hgt : c ≠ '>') :
    astep cfg ⟨.tag ⟨.attrValue, buf, as, tn, cm, cd, an, []⟩, toks⟩ c =
      .ok ⟨.tag ⟨.attrValue, c :: buf, as, tn, cm, cd, an, [c]⟩, toks⟩ := by
  astep_simp

/-- inside a quoted value -/
theorem astep_attrValue_q (q : Char) (hl : av.getLast? = some q) (hq : isQuote q = true) (hc : q ≠ c) :
    astep cfg ⟨.tag ⟨.attrValue, buf, as, tn, cm, cd, an, av⟩, toks⟩ c =
      .ok ⟨.tag ⟨.attrValue, c :: buf, as, tn, cm, cd, an, c :: av⟩, toks⟩ := by
  have hne : av ≠ [] := by intro h; simp [h] at hl
  astep_simp

/-- the closing quote -/
theorem astep_attrValue_qend (q : Char) (hl : av.getLast? = some q) (hq : isQuote q = true)
    (hd : as.any (fun b => b.name == (trimOneSpace an).reverse) = false) :
    astep cfg ⟨.tag ⟨.attrValue, buf, as, tn, cm, cd, an, av⟩, toks⟩ q =
      .ok ⟨.tag ⟨.space, q :: buf, ⟨(trimOneSpace an).reverse, some (q :: av).reverse⟩ :: as, tn, cm, cd, an, q :: av⟩, toks⟩ := by
  have hne : av ≠ [] := by intro h; simp [h] at hl
  have hgt : q ≠ '>' := by intro h; subst h; simp [isQuote] at hq
  have hd' : ¬ ∃ x, x ∈ as ∧ x.name = (trimOneSpace an).reverse := by simpa using hd
  astep_simp

theorem astep_attrValue_qend_dup (q : Char) (hl : av.getLast? = some q) (hq : isQuote q = true)
    (hd : as.any (fun b => b.name == (trimOneSpace an).reverse) = true) :
    astep cfg ⟨.tag ⟨.attrValue, buf, as, tn, cm, cd, an, av⟩, toks⟩ q = .error .dupAttr := by
  have hne : av ≠ [] := by intro h; simp [h] at hl
  have hd' : ∃ x, x ∈ as ∧ x.name = (trimOneSpace an).reverse := by simpa using hd
  astep_simp

/-- inside an unquoted value -/
theorem astep_attrValue_bare (f : Char) (hl : av.getLast? = some f) (hq : isQuote f = false)
    (hs : isSpace c = false) (hgt : c ≠ '>') :
    astep cfg ⟨.tag ⟨.attrValue, buf, as, tn, cm, cd, an, av⟩, toks⟩ c =
      .ok ⟨.tag ⟨.attrValue, c :: buf, as, tn, cm, cd, an, c :: av⟩, toks⟩ := by
  have hne : av ≠ [] := by intro h; simp [h] at hl
  astep_simp

/-- a blank ends an unquoted value -/
theorem astep_attrValue_bare_sp (f : Char) (hl : av.getLast? = some f) (hq : isQuote f = false)
    (hs : isSpace c = true)
    (hd : as.any (fun b => b.name == (trimOneSpace an).reverse) = false) :
    astep cfg ⟨.tag ⟨.attrValue, buf, as, tn, cm, cd, an, av⟩, toks⟩ c =
      .ok ⟨.tag ⟨.space, c :: buf, ⟨(trimOneSpace an).reverse, some av.reverse⟩ :: as, tn, cm, cd, an, av⟩, toks⟩ := by
  have hne : av ≠ [] := by intro h; simp [h] at hl
  have hgt : c ≠ '>' := by intro h; subst h; simp [isSpace_gt] at hs
  have hd' : ¬ ∃ x, x ∈ as ∧ x.name = (trimOneSpace an).reverse := by simpa using hd
  astep_simp

theorem astep_attrValue_bare_sp_dup (f : Char) (hl : av.getLast? = some f) (hq : isQuote f = false)
    (hs : isSpace c = true)
    (hd : as.any (fun b => b.name == (trimOneSpace an).reverse) = true) :
    astep cfg ⟨.tag ⟨.attrValue, buf, as, tn, cm, cd, an, av⟩, toks⟩ c = .error .dupAttr := by
  have hne : av ≠ [] := by intro h; simp [h] at hl
  have hd' : ∃ x, x ∈ as ∧ x.name = (trimOneSpace an).reverse := by simpa using hd
  astep_simp

/-- `>` ends an unquoted (possibly empty) value and the tag -/
theorem astep_attrValue_bare_gt (hl : ∀ f, av.getLast? = some f → isQuote f = false)
    (hd : as.any (fun b => b.name == (trimOneSpace an).reverse) = false) :
    astep cfg ⟨.tag ⟨.attrValue, buf, as, tn, cm, cd, an, av⟩, toks⟩ '>' =
      .ok ⟨.init, ⟨.tag, ('>' :: buf).reverse,
        some (tn.reverse, (⟨(trimOneSpace an).reverse, some av.reverse⟩ :: as).reverse)⟩ :: toks⟩ := by
  have hd' : ¬ ∃ x, x ∈ as ∧ x.name = (trimOneSpace an).reverse := by simpa using hd
  cases hg : av.getLast? with
  | none => astep_simp
  | some f => have := hl f hg; astep_simp

theorem astep_attrValue_bare_gt_dup (hl : ∀ f, av.getLast? = some f → isQuote f = false)
    (hd : as.any (fun b => b.name == (trimOneSpace an).reverse) = true) :
    astep cfg ⟨.tag ⟨.attrValue, buf, as, tn, cm, cd, an, av⟩, toks⟩ '>' = .error .dupAttr := by
  have hd' : ∃ x, x ∈ as ∧ x.name = (trimOneSpace an).reverse := by simpa using hd
  cases hg : av.getLast? with
  | none => astep_simp
  | some f => have := hl f hg; astep_simp


theorem astep_cdata_ch (h : ([']',']','>'] : List Char).isSuffixOf (cd.reverse ++ [c]) = false) :
    astep cfg ⟨.tag ⟨.cdata, buf, as, tn, cm, cd, an, av⟩, toks⟩ c =
      .ok ⟨.tag ⟨.cdata, c :: buf, as, tn, cm, c :: cd, an, av⟩, toks⟩ := by
  astep_simp

theorem astep_cdata_end (h : ([']',']','>'] : List Char).isSuffixOf (cd.reverse ++ [c]) = true) :
    astep cfg ⟨.tag ⟨.cdata, buf, as, tn, cm, cd, an, av⟩, toks⟩ c =
      .ok ⟨.init, ⟨.cdata, "<![CDATA[".toList ++ (cd.reverse ++ [c]), none⟩ :: toks⟩ := by
  astep_simp

/-- the scanner's substring test, as written in the model -/
def contains (pat text : List Char) : Bool := (List.range (text.length + 1)).any fun k => pat.isPrefixOf (text.drop k)

theorem astep_comment_ch (h : (['-','-','>'] : List Char).isSuffixOf (cm.reverse ++ [c]) = false)
    (h1 : (['>'] : List Char).isPrefixOf (cm.reverse ++ [c]) = false)
    (h2 : (['-','>'] : List Char).isPrefixOf (cm.reverse ++ [c]) = false) :
    astep cfg ⟨.tag ⟨.comment, buf, as, tn, cm, cd, an, av⟩, toks⟩ c =
      .ok ⟨.tag ⟨.comment, c :: buf, as, tn, c :: cm, cd, an, av⟩, toks⟩ := by
  astep_simp

theorem astep_comment_end (body : List Char) (h : cm.reverse ++ [c] = body ++ ['-','-','>'])
    (h1 : (['>'] : List Char).isPrefixOf body = false)
    (h2 : (['-','>'] : List Char).isPrefixOf body = false)
    (h3 : contains ['<','!','-','-'] body = false)
    (h4 : contains ['-','-','>'] body = false)
    (h5 : contains ['-','-','!','>'] body = false)
    (h6 : (['<','!','-'] : List Char).isSuffixOf body = false) :
    astep cfg ⟨.tag ⟨.comment, buf, as, tn, cm, cd, an, av⟩, toks⟩ c =
      .ok ⟨.init, ⟨.comment, "<!--".toList ++ body ++ "-->".toList, none⟩ :: toks⟩ := by
  unfold contains at h3 h4 h5
  astep_simp

end TagSteps


section TextSteps
variable (cfg : Cfg) (toks : List ATok) (buf tb nb tn : List Char) (c : Char)

theorem astep_init_text (raw : Option (List Char)) (hr : arawTagOf cfg toks = raw) (h : c ≠ '<' ∨ raw ≠ none) :
    astep cfg ⟨.init, toks⟩ c = astep cfg ⟨.text ⟨[], raw, [], []⟩, toks⟩ c := by
  unfold arawTagOf at hr
  subst hr
  have : (decide (c = '<') && (rawTagOf cfg (toks.map concTok)).isNone) = false := by
    rcases h with h | h
    · simp [h]
    · cases hh : rawTagOf cfg (toks.map concTok) <;> simp_all
  simp [astep, step, concS, concMode, concTextL, this, z]
  exact stepText_abs _ _ _ _ _ _ _ _ _ rfl rfl

theorem astep_text_ch (hc : c ≠ '<') :
    astep cfg ⟨.text ⟨buf, none, tb, nb⟩, toks⟩ c = .ok ⟨.text ⟨c :: buf, none, tb, nb⟩, toks⟩ := by
  astep_simp

theorem afinish_init : afinish ⟨.init, toks⟩ = .ok toks.reverse := by
  simp [afinish, finish, concS, concMode, Except.map]

theorem afinish_text (raw : Option (List Char)) :
    afinish ⟨.text ⟨buf, raw, tb, nb⟩, toks⟩ = .ok ((⟨.text, buf.reverse, none⟩ :: toks).reverse) := by
  simp [afinish, finish, concS, concMode, concTextL, Except.map, S.emit, forget]

theorem afinish_tag (l : ATagL) : afinish ⟨.tag l, toks⟩ = .error .eofInTag := by
  simp [afinish, finish, concS, concMode, Except.map]

def closeTagOf (tn : List Char) : List Char := '<' :: '/' :: (tn ++ ['>'])

theorem astep_raw_plain (hc : c ≠ '<') :
    astep cfg ⟨.text ⟨buf, some tn, [], nb⟩, toks⟩ c = .ok ⟨.text ⟨c :: buf, some tn, [], nb⟩, toks⟩ := by
  astep_simp

theorem astep_raw_lt :
    astep cfg ⟨.text ⟨buf, some tn, tb, nb⟩, toks⟩ '<' = .ok ⟨.text ⟨'<' :: buf, some tn, ['<'], ['<']⟩, toks⟩ := by
  have := isSpace_lt
  have hl : lower ['<'] = ['<'] := by decide
  astep_simp

theorem astep_raw_keep (hc : c ≠ '<') (hgt : c ≠ '>') (htb : tb ≠ [])
    (hp : (lower (if isSpace c then nb else c :: nb).reverse).isPrefixOf (closeTagOf tn) = true) :
    astep cfg ⟨.text ⟨buf, some tn, tb, nb⟩, toks⟩ c =
      .ok ⟨.text ⟨c :: buf, some tn, c :: tb, if isSpace c then nb else c :: nb⟩, toks⟩ := by
  unfold closeTagOf at hp
  astep_simp


theorem astep_raw_drop (hc : c ≠ '<') (htb : tb ≠ [])
    (hp : (lower (if isSpace c then nb else c :: nb).reverse).isPrefixOf (closeTagOf tn) = false) :
    astep cfg ⟨.text ⟨buf, some tn, tb, nb⟩, toks⟩ c = .ok ⟨.text ⟨c :: buf, some tn, [], []⟩, toks⟩ := by
  unfold closeTagOf at hp
  astep_simp

def bytes (cs : List Char) : Nat := (cs.map Char.utf8Size).sum

/-- the closing `>` of the raw-text element's end tag -/
theorem astep_raw_close (htb : tb ≠ [])
    (hp : (lower ('>' :: nb).reverse).isPrefixOf (closeTagOf tn) = true)
    (hk : bytes ('>' :: tb) ≤ bytes buf + 1) :
    astep cfg ⟨.text ⟨buf, some tn, tb, nb⟩, toks⟩ '>' =
      .ok ⟨.init, ⟨.tag, ('>' :: tb).reverse, some (((nb.reverse ++ ['>']).drop 1).dropLast, [])⟩ ::
        (if (buf.drop tb.length).isEmpty then toks else ⟨.text, (buf.drop tb.length).reverse, none⟩ :: toks)⟩ := by
  unfold closeTagOf at hp
  unfold bytes at hk
  have := isSpace_gt
  have hk' : ¬ ((List.map Char.utf8Size buf).sum + 1 < (List.map Char.utf8Size ('>' :: tb)).sum) := by omega
  simp only [List.reverse_cons, List.isPrefixOf_iff_prefix] at hp
  simp only [List.map_cons, List.sum_cons] at hk'
  clear hk
  by_cases hlen : buf.length ≤ tb.length
  · astep_simp
  · astep_simp

end TextSteps


/-! ### runs -/

theorem arun_nil (cfg : Cfg) (a : AS) : arun cfg a [] = .ok a := rfl

theorem arun_cons_ok {cfg : Cfg} {a a' : AS} {c : Char} (h : astep cfg a c = .ok a') (cs : List Char) :
    arun cfg a (c :: cs) = arun cfg a' cs := by
  simp [arun, List.foldlM, h, bind, Except.bind]

theorem arun_cons_err {cfg : Cfg} {a : AS} {c : Char} {e : Err} (h : astep cfg a c = .error e) (cs : List Char) :
    arun cfg a (c :: cs) = .error e := by
  simp [arun, List.foldlM, h, bind, Except.bind]

theorem arun_append_ok {cfg : Cfg} {a a' : AS} {xs : List Char} (h : arun cfg a xs = .ok a') (ys : List Char) :
    arun cfg a (xs ++ ys) = arun cfg a' ys := by
  induction xs generalizing a with
  | nil => simp [arun_nil] at h; subst h; rfl
  | cons c xs ih =>
    cases hs : astep cfg a c with
    | error e => rw [arun_cons_err hs] at h; cases h
    | ok a1 =>
      rw [arun_cons_ok hs] at h
      rw [List.cons_append, arun_cons_ok hs]
      exact ih h

theorem arun_append_err {cfg : Cfg} {a : AS} {xs : List Char} {e : Err} (h : arun cfg a xs = .error e) (ys : List Char) :
    arun cfg a (xs ++ ys) = .error e := by
  induction xs generalizing a with
  | nil => simp [arun_nil] at h
  | cons c xs ih =>
    cases hs : astep cfg a c with
    | error e' => rw [arun_cons_err hs] at h; rw [List.cons_append, arun_cons_err hs]; exact h
    | ok a1 =>
      rw [arun_cons_ok hs] at h
      rw [List.cons_append, arun_cons_ok hs]
      exact ih h


/-! ## Part 3: runs over the pieces of a printed tag -/

def blanks (g : List Char) : Bool := g.all isSpace

theorem blanks_cons {c : Char} {g : List Char} : blanks (c :: g) = true ↔ isSpace c = true ∧ blanks g = true := by
  simp [blanks]

section Runs
variable (cfg : Cfg) (toks : List ATok)

theorem arun_space_blanks (g buf : List Char) (as : List AAttr) (tn cm cd an av : List Char) (hg : blanks g = true) :
    arun cfg ⟨.tag ⟨.space, buf, as, tn, cm, cd, an, av⟩, toks⟩ g =
      .ok ⟨.tag ⟨.space, g.reverse ++ buf, as, tn, cm, cd, an, av⟩, toks⟩ := by
  induction g generalizing buf with
  | nil => rfl
  | cons c g ih =>
    obtain ⟨hc, hg'⟩ := blanks_cons.mp hg
    rw [arun_cons_ok (astep_space_sp cfg toks buf as tn cm cd an av c hc), ih _ hg']
    simp

theorem arun_attrValue_skip (g buf : List Char) (as : List AAttr) (tn cm cd an : List Char) (hg : blanks g = true) :
    arun cfg ⟨.tag ⟨.attrValue, buf, as, tn, cm, cd, an, []⟩, toks⟩ g =
      .ok ⟨.tag ⟨.attrValue, g.reverse ++ buf, as, tn, cm, cd, an, []⟩, toks⟩ := by
  induction g generalizing buf with
  | nil => rfl
  | cons c g ih =>
    obtain ⟨hc, hg'⟩ := blanks_cons.mp hg
    rw [arun_cons_ok (astep_attrValue_skip cfg toks buf as tn cm cd an c hc), ih _ hg']
    simp

/-- blanks after an attribute name: recorded as one blank -/
theorem arun_attrName_blanks2 (g buf : List Char) (as : List AAttr) (tn cm cd an av : List Char) (hg : blanks g = true) :
    arun cfg ⟨.tag ⟨.attrName, buf, as, tn, cm, cd, ' ' :: an, av⟩, toks⟩ g =
      .ok ⟨.tag ⟨.attrName, g.reverse ++ buf, as, tn, cm, cd, ' ' :: an, av⟩, toks⟩ := by
  induction g generalizing buf with
  | nil => rfl
  | cons c g ih =>
    obtain ⟨hc, hg'⟩ := blanks_cons.mp hg
    rw [arun_cons_ok (astep_attrName_sp2 cfg toks buf as tn cm cd an av c hc), ih _ hg']
    simp

theorem arun_attrName_blanks (g buf : List Char) (as : List AAttr) (tn cm cd an av : List Char) (hg : blanks g = true)
    (hne : g ≠ []) (hb : noBlankHead an) :
    arun cfg ⟨.tag ⟨.attrName, buf, as, tn, cm, cd, an, av⟩, toks⟩ g =
      .ok ⟨.tag ⟨.attrName, g.reverse ++ buf, as, tn, cm, cd, ' ' :: an, av⟩, toks⟩ := by
  cases g with
  | nil => exact (hne rfl).elim
  | cons c g =>
    obtain ⟨hc, hg'⟩ := blanks_cons.mp hg
    rw [arun_cons_ok (astep_attrName_sp1 cfg toks buf as tn cm cd an av c hc hb), arun_attrName_blanks2 _ _ _ _ _ _ _ _ _ _ hg']
    simp

/-- characters of a name (no blank, no `>`) -/
def tagCh (c : Char) : Bool := !isSpace c && c != '>'

theorem tagCh_iff {c : Char} : tagCh c = true ↔ isSpace c = false ∧ c ≠ '>' := by simp [tagCh]

/-- the tag name `tn ++ name` never passes through `!--` or `![CDATA[` -/
def NoSpecial (tn name : List Char) : Prop :=
  ∀ u v, name = u ++ v → u ≠ [] → tn ++ u ≠ ['!','-','-'] ∧ tn ++ u ≠ ['!','[','C','D','A','T','A','[']

theorem arun_tagName (name buf : List Char) (as : List AAttr) (tn cm cd an av : List Char)
    (hch : name.all tagCh = true) (hsp : NoSpecial tn.reverse name) :
    arun cfg ⟨.tag ⟨.tagName, buf, as, tn, cm, cd, an, av⟩, toks⟩ name =
      .ok ⟨.tag ⟨.tagName, name.reverse ++ buf, as, name.reverse ++ tn, cm, cd, an, av⟩, toks⟩ := by
  induction name generalizing buf tn with
  | nil => rfl
  | cons c name ih =>
    simp only [List.all_cons, Bool.and_eq_true] at hch
    obtain ⟨hc, hch'⟩ := hch
    obtain ⟨hs, hgt⟩ := tagCh_iff.mp hc
    have h1 := hsp [c] name rfl (by simp)
    rw [arun_cons_ok (astep_tagName_ch cfg toks buf as tn cm cd an av c hs hgt h1.1 h1.2), ih _ _ hch']
    · simp
    · intro u v huv hu
      have := hsp (c :: u) v (by simp [huv]) (by simp)
      simpa using this


theorem trimOneSpace_noBlankHead {an : List Char} (h : noBlankHead an) : trimOneSpace an = an := by
  unfold noBlankHead at h
  unfold trimOneSpace
  split at h
  · exact h.elim
  · rename_i hne
    split
    · rename_i r; exact (hne r rfl).elim
    · rfl

/-- tag-scanner states at the end of an attribute (or of the tag name);
    `pend` = the attribute that has been read but not yet added to the tag -/
def Bnd (l : ATagL) (pend : Option AAttr) : Prop :=
  match l.st with
  | .space => pend = none
  | .tagName => pend = none
  | .attrName => noBlankHead l.attrName ∧ pend = some ⟨l.attrName.reverse, none⟩
  | .attrValue => (∃ f, l.attrValue.getLast? = some f ∧ isQuote f = false) ∧
       pend = some ⟨(trimOneSpace l.attrName).reverse, some l.attrValue.reverse⟩
  | _ => False

def Fresh (l : ATagL) (pend : Option AAttr) : Prop :=
  ∀ p, pend = some p → l.attrs.any (fun b => b.name == p.name) = false

theorem arun_gap_next (l : ATagL) (pend : Option AAttr) (hb : Bnd l pend) (hf : Fresh l pend)
    (g : List Char) (hg : blanks g = true) (hne : g ≠ []) (c0 : Char) (hc0 : nameCh c0 = true) :
    ∃ av', arun cfg ⟨.tag l, toks⟩ (g ++ [c0]) =
      .ok ⟨.tag ⟨.attrName, c0 :: (g.reverse ++ l.buf), pend.toList ++ l.attrs, l.tagName, l.comment, l.cdata, [c0], av'⟩, toks⟩ := by
  obtain ⟨hs, hgt, heq⟩ := nameCh_iff.mp hc0
  rcases l with ⟨st, buf, as, tn, cm, cd, an, av⟩
  cases st <;> simp only [Bnd] at hb
  case space =>
    subst hb
    refine ⟨av, ?_⟩
    rw [arun_append_ok (arun_space_blanks cfg toks g buf as tn cm cd an av hg),
      arun_cons_ok (astep_space_ch cfg toks _ as tn cm cd an av c0 hs hgt heq)]
    rfl
  case tagName =>
    subst hb
    refine ⟨av, ?_⟩
    cases g with
    | nil => exact (hne rfl).elim
    | cons c g =>
      obtain ⟨hc, hg'⟩ := blanks_cons.mp hg
      rw [List.cons_append, arun_cons_ok (astep_tagName_sp cfg toks buf as tn cm cd an av c hc),
        arun_append_ok (arun_space_blanks cfg toks g _ as tn cm cd an av hg'),
        arun_cons_ok (astep_space_ch cfg toks _ as tn cm cd an av c0 hs hgt heq)]
      simp [arun_nil]
  case attrName =>
    obtain ⟨hnb, hp⟩ := hb
    subst hp
    have hfr := hf _ rfl
    refine ⟨av, ?_⟩
    rw [arun_append_ok (arun_attrName_blanks cfg toks g buf as tn cm cd an av hg hne hnb),
      arun_cons_ok (astep_attrName_next cfg toks _ as tn cm cd an av c0 hs hgt heq hfr)]
    rfl
  case attrValue =>
    obtain ⟨⟨f, hl, hq⟩, hp⟩ := hb
    subst hp
    have hfr := hf _ rfl
    refine ⟨av, ?_⟩
    cases g with
    | nil => exact (hne rfl).elim
    | cons c g =>
      obtain ⟨hc, hg'⟩ := blanks_cons.mp hg
      rw [List.cons_append, arun_cons_ok (astep_attrValue_bare_sp cfg toks buf as tn cm cd an av c f hl hq hc hfr),
        arun_append_ok (arun_space_blanks cfg toks g _ _ tn cm cd an av hg'),
        arun_cons_ok (astep_space_ch cfg toks _ _ tn cm cd an av c0 hs hgt heq)]
      simp [arun_nil]

theorem arun_gap_end (l : ATagL) (pend : Option AAttr) (hb : Bnd l pend) (hf : Fresh l pend)
    (g : List Char) (hg : blanks g = true) :
    arun cfg ⟨.tag l, toks⟩ (g ++ ['>']) =
      .ok ⟨.init, ⟨.tag, (l.buf.reverse ++ g) ++ ['>'],
        some (l.tagName.reverse, l.attrs.reverse ++ pend.toList)⟩ :: toks⟩ := by
  rcases l with ⟨st, buf, as, tn, cm, cd, an, av⟩
  cases st <;> simp only [Bnd] at hb
  case space =>
    subst hb
    rw [arun_append_ok (arun_space_blanks cfg toks g buf as tn cm cd an av hg),
      arun_cons_ok (astep_space_gt cfg toks _ as tn cm cd an av)]
    simp [arun_nil]
  case tagName =>
    subst hb
    cases g with
    | nil =>
      rw [List.nil_append, arun_cons_ok (astep_tagName_gt cfg toks buf as tn cm cd an av)]
      simp [arun_nil]
    | cons c g =>
      obtain ⟨hc, hg'⟩ := blanks_cons.mp hg
      rw [List.cons_append, arun_cons_ok (astep_tagName_sp cfg toks buf as tn cm cd an av c hc),
        arun_append_ok (arun_space_blanks cfg toks g _ as tn cm cd an av hg'),
        arun_cons_ok (astep_space_gt cfg toks _ as tn cm cd an av)]
      simp [arun_nil]
  case attrName =>
    obtain ⟨hnb, hp⟩ := hb
    subst hp
    have hfr := hf _ rfl
    cases g with
    | nil =>
      have ht := trimOneSpace_noBlankHead hnb
      rw [List.nil_append, arun_cons_ok (astep_attrName_gt cfg toks buf as tn cm cd an av (by rw [ht]; exact hfr))]
      simp [arun_nil, ht]
    | cons c g =>
      rw [arun_append_ok (arun_attrName_blanks cfg toks (c :: g) buf as tn cm cd an av hg (by simp) hnb),
        arun_cons_ok (astep_attrName_gt cfg toks _ as tn cm cd (' ' :: an) av (by simpa [trimOneSpace] using hfr))]
      simp [arun_nil, trimOneSpace]
  case attrValue =>
    obtain ⟨⟨f, hl, hq⟩, hp⟩ := hb
    subst hp
    have hfr := hf _ rfl
    cases g with
    | nil =>
      rw [List.nil_append, arun_cons_ok (astep_attrValue_bare_gt cfg toks buf as tn cm cd an av
        (by intro f' hf'; rw [hl] at hf'; cases hf'; exact hq) hfr)]
      simp [arun_nil]
    | cons c g =>
      obtain ⟨hc, hg'⟩ := blanks_cons.mp hg
      rw [List.cons_append, arun_cons_ok (astep_attrValue_bare_sp cfg toks buf as tn cm cd an av c f hl hq hc hfr),
        arun_append_ok (arun_space_blanks cfg toks g _ _ tn cm cd an av hg'),
        arun_cons_ok (astep_space_gt cfg toks _ _ tn cm cd an av)]
      simp [arun_nil]

/-- `name=` with an empty unquoted value, then blanks, then `>` -/
theorem arun_emptyval_end (buf : List Char) (as : List AAttr) (tn cm cd an : List Char)
    (hfr : as.any (fun b => b.name == (trimOneSpace an).reverse) = false) (g : List Char) (hg : blanks g = true) :
    arun cfg ⟨.tag ⟨.attrValue, buf, as, tn, cm, cd, an, []⟩, toks⟩ (g ++ ['>']) =
      .ok ⟨.init, ⟨.tag, (buf.reverse ++ g) ++ ['>'],
        some (tn.reverse, as.reverse ++ [⟨(trimOneSpace an).reverse, some []⟩])⟩ :: toks⟩ := by
  rw [arun_append_ok (arun_attrValue_skip cfg toks g buf as tn cm cd an hg),
    arun_cons_ok (astep_attrValue_bare_gt cfg toks _ as tn cm cd an [] (by simp) hfr)]
  simp [arun_nil]

end Runs


/-! ## Part 4: abstract token syntax, printer -/

inductive Quote | bare | sq | dq
deriving DecidableEq, Repr

def Quote.wrap : Quote → List Char → List Char
  | .bare, v => v
  | .sq, v => '\'' :: (v ++ ['\''])
  | .dq, v => '"' :: (v ++ ['"'])

/-- an attribute as written: name and optional value with its quote style -/
structure Attr where
  name : List Char
  value : Option (Quote × List Char)
deriving DecidableEq, Repr

inductive Tok
  | text (s : List Char)
  | comment (body : List Char)
  | cdata (body : List Char)
  | open (name : List Char) (attrs : List Attr) (selfClosing : Bool)
  | close (name : List Char)
deriving DecidableEq, Repr

/-- blanks around one attribute: `g1` before the name (non-empty), `g2` before `=`, `g3` after `=` -/
structure Gap where
  g1 : List Char
  g2 : List Char
  g3 : List Char
deriving Repr

def Gap.dflt : Gap := ⟨[' '], [], []⟩

/-- blanks of one tag: per attribute, before the `/` of a self-closing tag (non-empty), before `>` -/
structure Lay where
  attrs : List Gap
  slash : List Char
  fin : List Char
deriving Repr

def Lay.dflt : Lay := ⟨[], [' '], []⟩

def printValue : Option (Quote × List Char) → Gap → List Char
  | none, _ => []
  | some (q, v), g => g.g2 ++ '=' :: (g.g3 ++ q.wrap v)

def printAttr (a : Attr) (g : Gap) : List Char := g.g1 ++ a.name ++ printValue a.value g

def printAttrs : List Attr → List Gap → List Char
  | [], _ => []
  | a :: as, gs => printAttr a (gs.headD Gap.dflt) ++ printAttrs as gs.tail

def printTag (name : List Char) (attrs : List Attr) (sc : Bool) (lay : Lay) : List Char :=
  '<' :: (name ++ printAttrs attrs lay.attrs ++ (if sc then lay.slash ++ ['/'] else []) ++ lay.fin ++ ['>'])

def printTok : Tok → Lay → List Char
  | .text s, _ => s
  | .comment b, _ => ['<','!','-','-'] ++ b ++ ['-','-','>']
  | .cdata b, _ => ['<','!','[','C','D','A','T','A','['] ++ b ++ [']',']','>']
  | .open n as sc, lay => printTag n as sc lay
  | .close n, lay => printTag ('/' :: n) [] false lay

/-- printer with an explicit layout per token (missing entries: one blank where a blank is needed) -/
def printL : List Tok → List Lay → List Char
  | [], _ => []
  | t :: ts, ls => printTok t (ls.headD Lay.dflt) ++ printL ts ls.tail

/-- the canonical printer: single blanks -/
def print (ts : List Tok) : List Char := printL ts []

/-- what the scanner is expected to report for an attribute: the raw value keeps its quotes -/
def embAttr (a : Attr) : AAttr := ⟨a.name, a.value.map fun qv => qv.1.wrap qv.2⟩
def slashAttr : AAttr := ⟨['/'], none⟩

def embTag (name : List Char) (attrs : List Attr) (sc : Bool) : List Char × List AAttr :=
  (name, attrs.map embAttr ++ (if sc then [slashAttr] else []))

/-- what the scanner is expected to report for a token (without positions); `value` = the printed source -/
def emb (t : Tok) (lay : Lay) : ATok :=
  match t with
  | .text s => ⟨.text, s, none⟩
  | .comment _ => ⟨.comment, printTok t lay, none⟩
  | .cdata _ => ⟨.cdata, printTok t lay, none⟩
  | .open n as sc => ⟨.tag, printTok t lay, some (embTag n as sc)⟩
  | .close n => ⟨.tag, printTok t lay, some ('/' :: n, [])⟩

def embL : List Tok → List Lay → List ATok
  | [], _ => []
  | t :: ts, ls => emb t (ls.headD Lay.dflt) :: embL ts ls.tail

def gapOK (g : Gap) : Bool := blanks g.g1 && !g.g1.isEmpty && blanks g.g2 && blanks g.g3
def layOK (l : Lay) : Bool := l.attrs.all gapOK && blanks l.slash && !l.slash.isEmpty && blanks l.fin

theorem gapOK_dflt : gapOK Gap.dflt = true := by decide
theorem layOK_dflt : layOK Lay.dflt = true := by decide


/-! ## Part 5: one attribute -/

theorem noBlankHead_cons {c : Char} (an : List Char) (h : isSpace c = false) : noBlankHead (c :: an) := by
  unfold noBlankHead
  split
  · rename_i r heq
    simp only [List.cons.injEq] at heq
    rw [heq.1] at h
    simp [isSpace_blank'] at h
  · trivial

theorem getLast?_cons_ne {α} (c : α) {av : List α} {q : α} (h : av.getLast? = some q) : (c :: av).getLast? = some q := by
  cases av with
  | nil => simp at h
  | cons d av => simpa [List.getLast?_cons_cons] using h

section AttrRuns
variable (cfg : Cfg) (toks : List ATok)

theorem arun_attrName_chars (cs buf : List Char) (as : List AAttr) (tn cm cd an av : List Char)
    (hcs : cs.all nameCh = true) (hb : noBlankHead an) :
    arun cfg ⟨.tag ⟨.attrName, buf, as, tn, cm, cd, an, av⟩, toks⟩ cs =
      .ok ⟨.tag ⟨.attrName, cs.reverse ++ buf, as, tn, cm, cd, cs.reverse ++ an, av⟩, toks⟩ ∧
    noBlankHead (cs.reverse ++ an) := by
  induction cs generalizing buf an with
  | nil => exact ⟨rfl, hb⟩
  | cons c cs ih =>
    simp only [List.all_cons, Bool.and_eq_true] at hcs
    obtain ⟨hc, hcs'⟩ := hcs
    obtain ⟨hs, hgt, heq⟩ := nameCh_iff.mp hc
    have := ih (c :: buf) (c :: an) hcs' (noBlankHead_cons an hs)
    rw [arun_cons_ok (astep_attrName_ch cfg toks buf as tn cm cd an av c hs hgt heq hb)]
    simpa using this

theorem arun_quoted (q : Char) (hq : isQuote q = true) (v buf : List Char) (as : List AAttr) (tn cm cd an av : List Char)
    (hv : v.all (fun c => c != q) = true) (hl : av.getLast? = some q) :
    arun cfg ⟨.tag ⟨.attrValue, buf, as, tn, cm, cd, an, av⟩, toks⟩ v =
      .ok ⟨.tag ⟨.attrValue, v.reverse ++ buf, as, tn, cm, cd, an, v.reverse ++ av⟩, toks⟩ := by
  induction v generalizing buf av with
  | nil => rfl
  | cons c v ih =>
    simp only [List.all_cons, Bool.and_eq_true, bne_iff_ne, ne_eq] at hv
    obtain ⟨hc, hv'⟩ := hv
    rw [arun_cons_ok (astep_attrValue_q cfg toks buf as tn cm cd an av c q hl hq (fun h => hc h.symm)),
      ih (c :: buf) (c :: av) (by simpa using hv') (getLast?_cons_ne c hl)]
    simp

theorem arun_bare (f : Char) (hq : isQuote f = false) (v buf : List Char) (as : List AAttr) (tn cm cd an av : List Char)
    (hv : v.all tagCh = true) (hl : av.getLast? = some f) :
    arun cfg ⟨.tag ⟨.attrValue, buf, as, tn, cm, cd, an, av⟩, toks⟩ v =
      .ok ⟨.tag ⟨.attrValue, v.reverse ++ buf, as, tn, cm, cd, an, v.reverse ++ av⟩, toks⟩ := by
  induction v generalizing buf av with
  | nil => rfl
  | cons c v ih =>
    simp only [List.all_cons, Bool.and_eq_true] at hv
    obtain ⟨hc, hv'⟩ := hv
    obtain ⟨hs, hgt⟩ := tagCh_iff.mp hc
    rw [arun_cons_ok (astep_attrValue_bare cfg toks buf as tn cm cd an av c f hl hq hs hgt),
      ih (c :: buf) (c :: av) hv' (getLast?_cons_ne c hl)]
    simp


/-- optional blanks between an attribute name and `=` -/
theorem arun_attrName_g2 (g buf : List Char) (as : List AAttr) (tn cm cd an av : List Char) (hg : blanks g = true)
    (hb : noBlankHead an) :
    ∃ an', arun cfg ⟨.tag ⟨.attrName, buf, as, tn, cm, cd, an, av⟩, toks⟩ g =
      .ok ⟨.tag ⟨.attrName, g.reverse ++ buf, as, tn, cm, cd, an', av⟩, toks⟩ ∧ trimOneSpace an' = an := by
  cases g with
  | nil => exact ⟨an, rfl, trimOneSpace_noBlankHead hb⟩
  | cons c g => exact ⟨' ' :: an, arun_attrName_blanks cfg toks (c :: g) buf as tn cm cd an av hg (by simp) hb, rfl⟩

end AttrRuns

def valueOK : Option (Quote × List Char) → Bool
  | none => true
  | some (.bare, []) => false
  | some (.bare, f :: r) => tagCh f && !isQuote f && r.all tagCh
  | some (.sq, v) => v.all (fun c => c != '\'')
  | some (.dq, v) => v.all (fun c => c != '"')

/-- an attribute the scanner can represent: non-empty name without blank, `>`, `=`;
    quoted value without its own quote; unquoted value non-empty, without blank and `>`, not starting with a quote -/
def attrOK (a : Attr) : Bool := !a.name.isEmpty && a.name.all nameCh && valueOK a.value

theorem arun_attr_body (cfg : Cfg) (toks : List ATok) (a : Attr) (g : Gap) (c0 : Char) (rest : List Char)
    (hname : a.name = c0 :: rest) (hok : attrOK a = true) (hg2 : blanks g.g2 = true) (hg3 : blanks g.g3 = true)
    (buf : List Char) (as : List AAttr) (tn cm cd av0 : List Char)
    (hfr : as.any (fun b => b.name == a.name) = false) :
    ∃ l' pend', arun cfg ⟨.tag ⟨.attrName, buf, as, tn, cm, cd, [c0], av0⟩, toks⟩ (rest ++ printValue a.value g) = .ok ⟨.tag l', toks⟩ ∧
      Bnd l' pend' ∧ l'.buf = (rest ++ printValue a.value g).reverse ++ buf ∧ l'.tagName = tn ∧ l'.comment = cm ∧ l'.cdata = cd ∧
      pend'.toList ++ l'.attrs = embAttr a :: as := by
  rcases a with ⟨name, value⟩
  simp only at hname hfr
  subst hname
  simp only [attrOK, List.all_cons, Bool.and_eq_true] at hok
  obtain ⟨⟨_, hc0, hrest⟩, hval⟩ := hok
  have hs0 := (nameCh_iff.mp hc0).1
  obtain ⟨hrun, hnb⟩ := arun_attrName_chars cfg toks rest buf as tn cm cd [c0] av0 hrest (noBlankHead_cons [] hs0)
  have han : (rest.reverse ++ [c0]).reverse = c0 :: rest := by simp
  cases value with
  | none =>
    refine ⟨⟨.attrName, rest.reverse ++ buf, as, tn, cm, cd, rest.reverse ++ [c0], av0⟩, some ⟨c0 :: rest, none⟩, ?_, ?_, ?_, ?_, ?_, ?_, ?_⟩
    · simp only [printValue, List.append_nil]; exact hrun
    · simp only [Bnd]; exact ⟨hnb, by rw [han]⟩
    · simp [printValue]
    · rfl
    · rfl
    · rfl
    · simp [embAttr]
  | some qv =>
    obtain ⟨q, v⟩ := qv
    obtain ⟨an', hg2run, htrim⟩ := arun_attrName_g2 cfg toks g.g2 (rest.reverse ++ buf) as tn cm cd (rest.reverse ++ [c0]) av0 hg2 hnb
    have heq := astep_attrName_eq cfg toks (g.g2.reverse ++ (rest.reverse ++ buf)) as tn cm cd an' av0
    have hskip := arun_attrValue_skip cfg toks g.g3 ('=' :: (g.g2.reverse ++ (rest.reverse ++ buf))) as tn cm cd an' hg3
    have hpre : ∀ tail, arun cfg ⟨.tag ⟨.attrName, buf, as, tn, cm, cd, [c0], av0⟩, toks⟩ (rest ++ (g.g2 ++ '=' :: (g.g3 ++ tail))) =
        arun cfg ⟨.tag ⟨.attrValue, g.g3.reverse ++ ('=' :: (g.g2.reverse ++ (rest.reverse ++ buf))), as, tn, cm, cd, an', []⟩, toks⟩ tail := by
      intro tail
      rw [arun_append_ok hrun, arun_append_ok hg2run, arun_cons_ok heq, arun_append_ok hskip]
    have hfr' : as.any (fun b => b.name == (trimOneSpace an').reverse) = false := by rw [htrim, han]; exact hfr
    cases q with
    | bare =>
      cases v with
      | nil => simp [valueOK] at hval
      | cons f r =>
        simp only [valueOK, Bool.and_eq_true, Bool.not_eq_true'] at hval
        obtain ⟨⟨hf, hfq⟩, hr⟩ := hval
        obtain ⟨hfs, hfgt⟩ := tagCh_iff.mp hf
        refine ⟨⟨.attrValue, r.reverse ++ (f :: (g.g3.reverse ++ ('=' :: (g.g2.reverse ++ (rest.reverse ++ buf))))), as, tn, cm, cd, an', r.reverse ++ [f]⟩, some ⟨c0 :: rest, some (f :: r)⟩, ?_, ?_, ?_, ?_, ?_, ?_, ?_⟩
        · simp only [printValue, Quote.wrap]
          rw [hpre, arun_cons_ok (astep_attrValue_first cfg toks _ as tn cm cd an' f hfs hfgt),
            arun_bare cfg toks f hfq r _ as tn cm cd an' [f] hr rfl]
        · simp only [Bnd]
          refine ⟨⟨f, by simp, hfq⟩, ?_⟩
          rw [htrim, han]; simp
        · simp [printValue, Quote.wrap]
        · rfl
        · rfl
        · rfl
        · simp [embAttr, Quote.wrap]
    | sq =>
      simp only [valueOK] at hval
      have hq : isQuote '\'' = true := by decide
      refine ⟨⟨.space, '\'' :: (v.reverse ++ ('\'' :: (g.g3.reverse ++ ('=' :: (g.g2.reverse ++ (rest.reverse ++ buf)))))),
        ⟨(trimOneSpace an').reverse, some ('\'' :: (v.reverse ++ ['\''])).reverse⟩ :: as, tn, cm, cd, an', '\'' :: (v.reverse ++ ['\''])⟩, none, ?_, ?_, ?_, ?_, ?_, ?_, ?_⟩
      · simp only [printValue, Quote.wrap]
        rw [hpre, arun_cons_ok (astep_attrValue_first cfg toks _ as tn cm cd an' '\'' (by decide) (by decide)),
          arun_append_ok (arun_quoted cfg toks '\'' hq v _ as tn cm cd an' ['\''] hval rfl),
          arun_cons_ok (astep_attrValue_qend cfg toks _ as tn cm cd an' _ '\'' (by simp) hq hfr')]
        rfl
      · simp [Bnd]
      · simp [printValue, Quote.wrap]
      · rfl
      · rfl
      · rfl
      · simp [embAttr, Quote.wrap, htrim, han]
    | dq =>
      simp only [valueOK] at hval
      have hq : isQuote '"' = true := by decide
      refine ⟨⟨.space, '"' :: (v.reverse ++ ('"' :: (g.g3.reverse ++ ('=' :: (g.g2.reverse ++ (rest.reverse ++ buf)))))),
        ⟨(trimOneSpace an').reverse, some ('"' :: (v.reverse ++ ['"'])).reverse⟩ :: as, tn, cm, cd, an', '"' :: (v.reverse ++ ['"'])⟩, none, ?_, ?_, ?_, ?_, ?_, ?_, ?_⟩
      · simp only [printValue, Quote.wrap]
        rw [hpre, arun_cons_ok (astep_attrValue_first cfg toks _ as tn cm cd an' '"' (by decide) (by decide)),
          arun_append_ok (arun_quoted cfg toks '"' hq v _ as tn cm cd an' ['"'] hval rfl),
          arun_cons_ok (astep_attrValue_qend cfg toks _ as tn cm cd an' _ '"' (by simp) hq hfr')]
        rfl
      · simp [Bnd]
      · simp [printValue, Quote.wrap]
      · rfl
      · rfl
      · rfl
      · simp [embAttr, Quote.wrap, htrim, han]


/-! ## Part 6: the attribute list -/

/-- the names `ns` are pairwise distinct and do not occur in `seen` -/
def distinctFrom (seen : List (List Char)) : List (List Char) → Bool
  | [] => true
  | n :: ns => !seen.contains n && distinctFrom (n :: seen) ns

def anames (as : List AAttr) : List (List Char) := as.map (·.name)

theorem any_name_eq (as : List AAttr) (n : List Char) : as.any (fun b => b.name == n) = (anames as).contains n := by
  induction as with
  | nil => rfl
  | cons a as ih =>
    rw [List.any_cons, ih]
    simp only [anames, List.map_cons, List.contains_cons]
    rw [BEq.comm]

theorem distinct_fresh {l : ATagL} {pend : Option AAttr} {R : List (List Char)}
    (h : distinctFrom (anames l.attrs) (anames pend.toList ++ R) = true) : Fresh l pend := by
  intro p hp
  subst hp
  simp only [Option.toList_some, anames, List.map_cons, List.map_nil, List.cons_append, List.nil_append, distinctFrom,
    Bool.and_eq_true, Bool.not_eq_true'] at h
  rw [any_name_eq]; exact h.1

theorem distinct_commit {l : ATagL} {pend : Option AAttr} {R : List (List Char)}
    (h : distinctFrom (anames l.attrs) (anames pend.toList ++ R) = true) :
    distinctFrom (anames (pend.toList ++ l.attrs)) R = true := by
  cases pend with
  | none => simpa [anames] using h
  | some p =>
    simp only [Option.toList_some, anames, List.map_cons, List.map_nil, List.cons_append, List.nil_append, distinctFrom,
      Bool.and_eq_true] at h ⊢
    exact h.2

theorem distinct_pend {A1 A2 : List AAttr} {pend2 : Option AAttr} {x : AAttr} {R : List (List Char)}
    (hat : pend2.toList ++ A2 = x :: A1) (h : distinctFrom (anames A1) (x.name :: R) = true) :
    distinctFrom (anames A2) (anames pend2.toList ++ R) = true := by
  cases pend2 with
  | none =>
    simp only [Option.toList_none, List.nil_append] at hat
    subst hat
    simp only [distinctFrom, Bool.and_eq_true] at h
    simpa [anames] using h.2
  | some y =>
    simp only [Option.toList_some, List.cons_append, List.nil_append, List.cons.injEq] at hat
    obtain ⟨hy, hA⟩ := hat
    subst hy hA
    simpa [anames] using h

theorem headD_gapOK (gs : List Gap) (h : gs.all gapOK = true) : gapOK (gs.headD Gap.dflt) = true ∧ gs.tail.all gapOK = true := by
  cases gs with
  | nil => exact ⟨gapOK_dflt, rfl⟩
  | cons g gs => simpa using h

theorem arun_attrs (cfg : Cfg) (toks : List ATok) (as : List Attr) (gs : List Gap) (extra : List (List Char))
    (l : ATagL) (pend : Option AAttr) (hb : Bnd l pend)
    (hd : distinctFrom (anames l.attrs) (anames pend.toList ++ (as.map (·.name) ++ extra)) = true)
    (hok : as.all attrOK = true) (hgs : gs.all gapOK = true) :
    ∃ l' pend', arun cfg ⟨.tag l, toks⟩ (printAttrs as gs) = .ok ⟨.tag l', toks⟩ ∧ Bnd l' pend' ∧
      distinctFrom (anames l'.attrs) (anames pend'.toList ++ extra) = true ∧
      l'.buf = (printAttrs as gs).reverse ++ l.buf ∧ l'.tagName = l.tagName ∧ l'.comment = l.comment ∧ l'.cdata = l.cdata ∧
      l'.attrs.reverse ++ pend'.toList = l.attrs.reverse ++ pend.toList ++ as.map embAttr := by
  induction as generalizing gs l pend with
  | nil => exact ⟨l, pend, rfl, hb, by simpa using hd, by simp [printAttrs], rfl, rfl, rfl, by simp⟩
  | cons a as ih =>
    simp only [List.all_cons, Bool.and_eq_true] at hok
    obtain ⟨hoka, hokas⟩ := hok
    obtain ⟨hg, hgs'⟩ := headD_gapOK gs hgs
    generalize hgdef : gs.headD Gap.dflt = g at hg
    simp only [gapOK, Bool.and_eq_true, Bool.not_eq_true', List.isEmpty_eq_false_iff] at hg
    obtain ⟨⟨⟨hg1, hg1ne⟩, hg2⟩, hg3⟩ := hg
    have hoka' := hoka
    simp only [attrOK, Bool.and_eq_true, Bool.not_eq_true', List.isEmpty_eq_false_iff] at hoka'
    obtain ⟨⟨hnne, hnch⟩, _⟩ := hoka'
    cases hname : a.name with
    | nil => exact (hnne hname).elim
    | cons c0 rest =>
      rw [hname] at hnch
      simp only [List.all_cons, Bool.and_eq_true] at hnch
      have hf := distinct_fresh hd
      obtain ⟨av', h1⟩ := arun_gap_next cfg toks l pend hb hf g.g1 hg1 hg1ne c0 hnch.1
      have hd1 := distinct_commit hd
      simp only [List.map_cons, List.cons_append] at hd1
      have hfr : (pend.toList ++ l.attrs).any (fun b => b.name == a.name) = false := by
        rw [any_name_eq]
        simp only [distinctFrom, Bool.and_eq_true, Bool.not_eq_true'] at hd1
        exact hd1.1
      obtain ⟨l2, pend2, h2, hb2, hbuf2, htn2, hcm2, hcd2, hat2⟩ :=
        arun_attr_body cfg toks a g c0 rest hname hoka hg2 hg3 (c0 :: (g.g1.reverse ++ l.buf)) (pend.toList ++ l.attrs)
          l.tagName l.comment l.cdata av' hfr
      have hd2 := distinct_pend hat2 (by simpa [embAttr] using hd1)
      obtain ⟨l3, pend3, h3, hb3, hd3, hbuf3, htn3, hcm3, hcd3, hat3⟩ := ih gs.tail l2 pend2 hb2 hd2 hokas hgs'
      refine ⟨l3, pend3, ?_, hb3, hd3, ?_, by rw [htn3, htn2], by rw [hcm3, hcm2], by rw [hcd3, hcd2], ?_⟩
      · have : printAttrs (a :: as) gs = (g.g1 ++ [c0]) ++ ((rest ++ printValue a.value g) ++ printAttrs as gs.tail) := by
          subst hgdef
          simp [printAttrs, printAttr, hname]
        rw [this, arun_append_ok h1, arun_append_ok h2, h3]
      · rw [hbuf3, hbuf2]
        subst hgdef
        simp [printAttrs, printAttr, hname]
      · rw [hat3]
        have : l2.attrs.reverse ++ pend2.toList = (pend2.toList ++ l2.attrs).reverse := by
          cases pend2 <;> simp
        rw [this, hat2]
        cases pend <;> simp


/-! ## Part 7: a whole tag -/

def noSpecialB (name : List Char) : Bool :=
  !("!--".toList.isPrefixOf name) && !("![CDATA[".toList.isPrefixOf name)

theorem noSpecial_of (name : List Char) (h : noSpecialB name = true) : NoSpecial [].reverse name := by
  intro u v huv hu
  simp only [noSpecialB, Bool.and_eq_true, Bool.not_eq_true'] at h
  subst huv
  constructor
  · intro he
    simp only [List.reverse_nil, List.nil_append] at he
    subst he
    have := h.1
    simp at this
  · intro he
    simp only [List.reverse_nil, List.nil_append] at he
    subst he
    have := h.2
    simp at this

def tagOK (name : List Char) (attrs : List Attr) (sc : Bool) : Bool :=
  name.all tagCh && noSpecialB name && attrs.all attrOK &&
  distinctFrom [] (attrs.map (·.name) ++ (if sc then [['/']] else []))

theorem toList_reverse_opt {α} (o : Option α) : o.toList.reverse = o.toList := by cases o <;> rfl

theorem arun_tag (cfg : Cfg) (toks : List ATok) (name : List Char) (attrs : List Attr) (sc : Bool) (lay : Lay)
    (hok : tagOK name attrs sc = true) (hlay : layOK lay = true) :
    arun cfg ⟨.tag ⟨.tagName, ['<'], [], [], [], [], [], []⟩, toks⟩
        (name ++ printAttrs attrs lay.attrs ++ (if sc then lay.slash ++ ['/'] else []) ++ lay.fin ++ ['>']) =
      .ok ⟨.init, ⟨.tag, printTag name attrs sc lay, some (embTag name attrs sc)⟩ :: toks⟩ := by
  simp only [tagOK, Bool.and_eq_true] at hok
  obtain ⟨⟨⟨hch, hsp⟩, hattrs⟩, hdist⟩ := hok
  simp only [layOK, Bool.and_eq_true, Bool.not_eq_true', List.isEmpty_eq_false_iff] at hlay
  obtain ⟨⟨⟨hgs, hsl⟩, hslne⟩, hfin⟩ := hlay
  have h0 := arun_tagName cfg toks name ['<'] [] [] [] [] [] [] hch (noSpecial_of name hsp)
  obtain ⟨l1, pend1, h1, hb1, hd1, hbuf1, htn1, _, _, hat1⟩ :=
    arun_attrs cfg toks attrs lay.attrs (if sc then [['/']] else []) ⟨.tagName, name.reverse ++ ['<'], [], name.reverse ++ [], [], [], [], []⟩
      none (by simp [Bnd]) (by simpa [anames] using hdist) hattrs hgs
  simp only [List.append_nil, List.reverse_nil, Option.toList_none, List.nil_append] at hbuf1 htn1 hat1
  simp only [List.append_assoc]
  rw [arun_append_ok h0, arun_append_ok h1]
  cases sc with
  | false =>
    simp only [Bool.false_eq_true, if_false, List.nil_append, List.append_nil] at hd1 ⊢
    rw [arun_gap_end cfg toks l1 pend1 hb1 (distinct_fresh (R := []) (by simpa using hd1)) lay.fin hfin, hbuf1, htn1, hat1]
    simp [printTag, embTag]
  | true =>
    simp only [if_true] at hd1 ⊢
    obtain ⟨av', h2⟩ := arun_gap_next cfg toks l1 pend1 hb1 (distinct_fresh hd1) lay.slash hsl hslne '/' (by decide)
    have hd2 := distinct_commit hd1
    rw [arun_append_ok h2]
    rw [arun_gap_end cfg toks _ (some ⟨['/'], none⟩) (by simp [Bnd, noBlankHead]) (by
        intro p hp; cases hp
        simp only [distinctFrom, Bool.and_eq_true, Bool.not_eq_true'] at hd2
        rw [any_name_eq]; exact hd2.1) lay.fin hfin]
    simp only [hbuf1, htn1, List.reverse_append, toList_reverse_opt, hat1]
    simp [printTag, embTag, slashAttr]


/-! ## Part 8: comments and CDATA sections -/

theorem contains_of_append (pat x w : List Char) : contains pat (x ++ pat ++ w) = true := by
  simp only [contains, List.any_eq_true, List.mem_range]
  refine ⟨x.length, by simp; omega, ?_⟩
  simp [List.append_assoc, List.isPrefixOf_iff_prefix]

/-- a three-character terminator whose last character differs from the first two does not end a proper
    prefix of `b ++ terminator`, unless `b` contains it -/
theorem no_early_end (t1 t2 e : Char) (h1 : e ≠ t1) (h2 : e ≠ t2) (b u v : List Char)
    (hb : contains [t1, t2, e] b = false) (huv : u ++ v = b ++ [t1, t2, e]) (hv : v ≠ []) :
    ¬ [t1, t2, e] <:+ u := by
  intro ⟨x, hx⟩
  subst hx
  have hr := congrArg List.reverse huv
  simp only [List.reverse_append, List.reverse_cons, List.reverse_nil, List.nil_append, List.cons_append, List.append_assoc] at hr
  rcases hvr : v.reverse with _ | ⟨a, _ | ⟨b', _ | ⟨c, w⟩⟩⟩
  · exact hv (by simpa using hvr)
  · rw [hvr] at hr; simp at hr; exact h2 hr.2.1
  · rw [hvr] at hr; simp at hr; exact h1 hr.2.2.1
  · rw [hvr] at hr
    simp only [List.cons_append, List.cons.injEq] at hr
    obtain ⟨ha, hb', hc, hrest⟩ := hr
    have : b = x ++ [t1, t2, e] ++ w.reverse := by
      have := congrArg List.reverse hrest
      simp at this
      rw [← this]; simp
    rw [this, contains_of_append] at hb
    cases hb

theorem suf_false {a b : List Char} (h : ¬ a <:+ b) : a.isSuffixOf b = false := by
  rw [← Bool.not_eq_true, List.isSuffixOf_iff_suffix]; exact h
theorem pre_false {a b : List Char} (h : ¬ a <+: b) : a.isPrefixOf b = false := by
  rw [← Bool.not_eq_true, List.isPrefixOf_iff_prefix]; exact h
theorem pre_false' {a b : List Char} (h : a.isPrefixOf b = false) : ¬ a <+: b := by
  rw [← Bool.not_eq_true, List.isPrefixOf_iff_prefix] at h; exact h

section Bodies
variable (cfg : Cfg) (toks : List ATok)

theorem arun_cdata_body (r buf : List Char) (as : List AAttr) (tn cm cd an av : List Char) (hr : r ≠ [])
    (hno : ∀ u v, u ++ v = r → v ≠ [] → u ≠ [] → ¬ [']',']','>'] <:+ (cd.reverse ++ u))
    (hend : [']',']','>'] <:+ (cd.reverse ++ r)) :
    arun cfg ⟨.tag ⟨.cdata, buf, as, tn, cm, cd, an, av⟩, toks⟩ r =
      .ok ⟨.init, ⟨.cdata, "<![CDATA[".toList ++ (cd.reverse ++ r), none⟩ :: toks⟩ := by
  induction r generalizing buf cd with
  | nil => exact (hr rfl).elim
  | cons c r ih =>
    cases r with
    | nil =>
      rw [arun_cons_ok (astep_cdata_end cfg toks buf as tn cm cd an av c (by simpa [List.isSuffixOf_iff_suffix] using hend))]
      rfl
    | cons c' r' =>
      have h1 := hno [c] (c' :: r') rfl (by simp) (by simp)
      rw [arun_cons_ok (astep_cdata_ch cfg toks buf as tn cm cd an av c (suf_false h1))]
      rw [ih (c :: buf) (c :: cd) (by simp)]
      · simp
      · intro u v huv hv hu
        have := hno (c :: u) v (by simp [huv]) hv (by simp)
        simpa using this
      · simpa using hend

theorem arun_comment_body (body r buf : List Char) (as : List AAttr) (tn cm cd an av : List Char) (hr : r ≠ [])
    (hfull : cm.reverse ++ r = body ++ ['-','-','>'])
    (hno : ∀ u v, u ++ v = r → v ≠ [] → u ≠ [] → ¬ ['-','-','>'] <:+ (cm.reverse ++ u))
    (hp1 : ∀ u v, u ++ v = r → u ≠ [] → ¬ ['>'] <+: (cm.reverse ++ u))
    (hp2 : ∀ u v, u ++ v = r → u ≠ [] → ¬ ['-','>'] <+: (cm.reverse ++ u))
    (h1 : (['>'] : List Char).isPrefixOf body = false)
    (h2 : (['-','>'] : List Char).isPrefixOf body = false)
    (h3 : contains ['<','!','-','-'] body = false)
    (h4 : contains ['-','-','>'] body = false)
    (h5 : contains ['-','-','!','>'] body = false)
    (h6 : (['<','!','-'] : List Char).isSuffixOf body = false) :
    arun cfg ⟨.tag ⟨.comment, buf, as, tn, cm, cd, an, av⟩, toks⟩ r =
      .ok ⟨.init, ⟨.comment, "<!--".toList ++ body ++ "-->".toList, none⟩ :: toks⟩ := by
  induction r generalizing buf cm with
  | nil => exact (hr rfl).elim
  | cons c r ih =>
    cases r with
    | nil =>
      rw [arun_cons_ok (astep_comment_end cfg toks buf as tn cm cd an av c body hfull h1 h2 h3 h4 h5 h6)]
      rfl
    | cons c' r' =>
      have hn := hno [c] (c' :: r') rfl (by simp) (by simp)
      have hq1 := hp1 [c] (c' :: r') rfl (by simp)
      have hq2 := hp2 [c] (c' :: r') rfl (by simp)
      rw [arun_cons_ok (astep_comment_ch cfg toks buf as tn cm cd an av c
        (suf_false hn) (pre_false hq1) (pre_false hq2))]
      apply ih (c :: buf) (c :: cm) (by simp)
      · simpa using hfull
      · intro u v huv hv hu
        have := hno (c :: u) v (by simp [huv]) hv (by simp)
        simpa using this
      · intro u v huv hu
        have := hp1 (c :: u) v (by simp [huv]) (by simp)
        simpa using this
      · intro u v huv hu
        have := hp2 (c :: u) v (by simp [huv]) (by simp)
        simpa using this


theorem arun_cdata_open :
    arun cfg ⟨.tag ⟨.tagName, ['<'], [], [], [], [], [], []⟩, toks⟩ ['!','[','C','D','A','T','A','['] =
      .ok ⟨.tag ⟨.cdata, ['[','A','T','A','D','C','[','!','<'], [], ['[','A','T','A','D','C','[','!'], [], [], [], []⟩, toks⟩ := by
  simp [arun, List.foldlM, bind, Except.bind, astep, step, concS, concMode, concTagL, stepTag, Except.map, absS, absMode, absTagL,
    isSpace, pure, Except.pure]

theorem arun_comment_open :
    arun cfg ⟨.tag ⟨.tagName, ['<'], [], [], [], [], [], []⟩, toks⟩ ['!','-','-'] =
      .ok ⟨.tag ⟨.comment, ['-','-','!','<'], [], ['-','-','!'], [], [], [], []⟩, toks⟩ := by
  simp [arun, List.foldlM, bind, Except.bind, astep, step, concS, concMode, concTagL, stepTag, Except.map, absS, absMode, absTagL,
    isSpace, pure, Except.pure]


def cdataOK (b : List Char) : Bool := !contains [']',']','>'] b

theorem arun_cdata_tok (b : List Char) (hb : cdataOK b = true) :
    arun cfg ⟨.tag ⟨.tagName, ['<'], [], [], [], [], [], []⟩, toks⟩ (['!','[','C','D','A','T','A','['] ++ (b ++ [']',']','>'])) =
      .ok ⟨.init, ⟨.cdata, "<![CDATA[".toList ++ b ++ "]]>".toList, none⟩ :: toks⟩ := by
  simp only [cdataOK, Bool.not_eq_true'] at hb
  rw [arun_append_ok (arun_cdata_open cfg toks),
    arun_cdata_body cfg toks (b ++ [']',']','>']) _ [] _ [] [] [] [] (by simp)]
  · simp
  · intro u v huv hv hu
    simpa using no_early_end ']' ']' '>' (by decide) (by decide) b u v hb huv hv
  · simp

/-- comment text as the scanner (and the HTML standard) accepts it -/
def commentOK (b : List Char) : Bool :=
  !(['>'] : List Char).isPrefixOf b && !(['-','>'] : List Char).isPrefixOf b &&
  !contains ['<','!','-','-'] b && !contains ['-','-','>'] b && !contains ['-','-','!','>'] b &&
  !(['<','!','-'] : List Char).isSuffixOf b

theorem arun_comment_tok (b : List Char) (hb : commentOK b = true) :
    arun cfg ⟨.tag ⟨.tagName, ['<'], [], [], [], [], [], []⟩, toks⟩ (['!','-','-'] ++ (b ++ ['-','-','>'])) =
      .ok ⟨.init, ⟨.comment, "<!--".toList ++ b ++ "-->".toList, none⟩ :: toks⟩ := by
  simp only [commentOK, Bool.and_eq_true, Bool.not_eq_true'] at hb
  obtain ⟨⟨⟨⟨⟨h1, h2⟩, h3⟩, h4⟩, h5⟩, h6⟩ := hb
  have hf1 : ¬ ['>'] <+: b ++ ['-','-','>'] := by
    have := pre_false' h1
    cases b with
    | nil => simp
    | cons x b => simpa using this
  have hf2 : ¬ ['-','>'] <+: b ++ ['-','-','>'] := by
    have := pre_false' h2
    rcases b with _ | ⟨x, _ | ⟨y, b⟩⟩
    · simp
    · simp
    · simpa using this
  rw [arun_append_ok (arun_comment_open cfg toks),
    arun_comment_body cfg toks b (b ++ ['-','-','>']) _ [] _ [] [] [] [] (by simp) (by simp) ?_ ?_ ?_ h1 h2 h3 h4 h5 h6]
  · intro u v huv hv hu
    simpa using no_early_end '-' '-' '>' (by decide) (by decide) b u v h4 huv hv
  · intro u v huv hu hp
    simp only [List.reverse_nil, List.nil_append] at hp
    exact hf1 (huv ▸ hp.trans (List.prefix_append u v))
  · intro u v huv hu hp
    simp only [List.reverse_nil, List.nil_append] at hp
    exact hf2 (huv ▸ hp.trans (List.prefix_append u v))

end Bodies


/-! ## Part 9: raw-text elements -/

/-- lower-cased non-blank characters: what the scanner compares with the closing tag -/
def nfilt (cs : List Char) : List Char := lower (cs.filter (fun c => !isSpace c))

/-- `s` contains a closing tag `</tn>` as the scanner recognises it: a `<`, then — up to the next `<` — characters
    whose non-blank ones, lower-cased, start with `</tn>` -/
def hasClose (tn : List Char) : List Char → Bool
  | [] => false
  | c :: t => (c == '<' && (closeTagOf tn).isPrefixOf (nfilt ('<' :: t.takeWhile (· != '<')))) || hasClose tn t

theorem lower_append (a b : List Char) : lower (a ++ b) = lower a ++ lower b := by simp [lower]

theorem nfilt_cons (c : Char) (t : List Char) :
    nfilt (c :: t) = (if isSpace c then [] else [c.toLower]) ++ nfilt t := by
  unfold nfilt
  by_cases h : isSpace c = true <;> simp [h, lower, List.filter_cons]

theorem lower_push (c : Char) (nb : List Char) :
    lower (if isSpace c then nb else c :: nb).reverse = lower nb.reverse ++ (if isSpace c then [] else [c.toLower]) := by
  by_cases h : isSpace c = true <;> simp [h, lower]

theorem prefix_end {X C0 : List Char} {e : Char} (h : X ++ [e] <+: C0 ++ [e]) (he : e ∉ C0) : X ++ [e] = C0 ++ [e] := by
  obtain ⟨t, ht⟩ := h
  rcases List.eq_nil_or_concat t with rfl | ⟨t', a, rfl⟩
  · simpa using ht
  · exfalso
    rw [List.concat_eq_append, ← List.append_assoc] at ht
    have := List.append_inj_left' ht rfl
    apply he
    rw [← this]; simp

theorem arun_raw_body (cfg : Cfg) (toks : List ATok) (tn : List Char) (hgt : '>' ∉ tn) (s buf tb nb : List Char)
    (hinv : tb = [] ∨ ¬ closeTagOf tn <+: (lower nb.reverse ++ nfilt (s.takeWhile (· != '<'))))
    (hs : hasClose tn s = false) :
    ∃ tb' nb', arun cfg ⟨.text ⟨buf, some tn, tb, nb⟩, toks⟩ s = .ok ⟨.text ⟨s.reverse ++ buf, some tn, tb', nb'⟩, toks⟩ := by
  induction s generalizing buf tb nb with
  | nil => exact ⟨tb, nb, rfl⟩
  | cons c s ih =>
    simp only [hasClose, Bool.or_eq_false_iff, Bool.and_eq_false_iff] at hs
    obtain ⟨hs1, hs2⟩ := hs
    by_cases hc : c = '<'
    · subst hc
      have hnc : ¬ closeTagOf tn <+: (lower ['<'].reverse ++ nfilt (s.takeWhile (· != '<'))) := by
        rcases hs1 with h | h
        · simp at h
        · have := pre_false' h
          rw [nfilt_cons] at this
          simpa [isSpace_lt, lower] using this
      obtain ⟨tb', nb', h⟩ := ih ('<' :: buf) ['<'] ['<'] (Or.inr hnc) hs2
      exact ⟨tb', nb', by rw [arun_cons_ok (astep_raw_lt cfg toks buf tb nb tn), h]; simp⟩
    · by_cases htb : tb = []
      · subst htb
        obtain ⟨tb', nb', h⟩ := ih (c :: buf) [] nb (Or.inl rfl) hs2
        exact ⟨tb', nb', by rw [arun_cons_ok (astep_raw_plain cfg toks buf nb tn c hc), h]; simp⟩
      · have hinv' := hinv.resolve_left htb
        have htw : (c :: s).takeWhile (· != '<') = c :: s.takeWhile (· != '<') := by
          simp [List.takeWhile_cons, hc]
        rw [htw, nfilt_cons, ← List.append_assoc, ← lower_push] at hinv'
        by_cases hp : (lower (if isSpace c then nb else c :: nb).reverse).isPrefixOf (closeTagOf tn) = true
        · by_cases hcg : c = '>'
          · exfalso
            subst hcg
            apply hinv'
            rw [List.isPrefixOf_iff_prefix] at hp
            simp only [isSpace_gt, Bool.false_eq_true, if_false, List.reverse_cons, lower_append] at hp ⊢
            have hl : lower ['>'] = ['>'] := by decide
            rw [hl] at hp ⊢
            have hC : closeTagOf tn = ('<' :: '/' :: tn) ++ ['>'] := by simp [closeTagOf]
            rw [hC] at hp ⊢
            rw [prefix_end hp (by simp [hgt])]
            exact List.prefix_append _ _
          · obtain ⟨tb', nb', h⟩ := ih (c :: buf) (c :: tb) _ (Or.inr hinv') hs2
            exact ⟨tb', nb', by rw [arun_cons_ok (astep_raw_keep cfg toks buf tb nb tn c hc hcg htb hp), h]; simp⟩
        · obtain ⟨tb', nb', h⟩ := ih (c :: buf) [] [] (Or.inl rfl) hs2
          exact ⟨tb', nb', by rw [arun_cons_ok (astep_raw_drop cfg toks buf tb nb tn c hc htb (Bool.eq_false_iff.mpr hp)), h]; simp⟩


def rawNameCh (c : Char) : Bool := !isSpace c && c != '<' && c != '>'

theorem rawNameCh_iff {c : Char} : rawNameCh c = true ↔ isSpace c = false ∧ c ≠ '<' ∧ c ≠ '>' := by
  simp [rawNameCh, and_assoc]

theorem bytes_append (a b : List Char) : bytes (a ++ b) = bytes a + bytes b := by simp [bytes]
theorem bytes_cons (c : Char) (a : List Char) : bytes (c :: a) = c.utf8Size + bytes a := by simp [bytes]
theorem bytes_nil : bytes [] = 0 := rfl
theorem bytes_reverse (a : List Char) : bytes a.reverse = bytes a := by simp [bytes, List.sum_reverse]

section RawClose
variable (cfg : Cfg) (toks : List ATok) (tn : List Char)

theorem arun_raw_keep_chars (cs buf tb nb : List Char) (htb : tb ≠ []) (hcs : cs.all rawNameCh = true)
    (hp : lower (nb.reverse ++ cs) <+: closeTagOf tn) :
    arun cfg ⟨.text ⟨buf, some tn, tb, nb⟩, toks⟩ cs =
      .ok ⟨.text ⟨cs.reverse ++ buf, some tn, cs.reverse ++ tb, cs.reverse ++ nb⟩, toks⟩ := by
  induction cs generalizing buf tb nb with
  | nil => rfl
  | cons c cs ih =>
    simp only [List.all_cons, Bool.and_eq_true] at hcs
    obtain ⟨hc, hcs'⟩ := hcs
    obtain ⟨hsp, hlt, hgt⟩ := rawNameCh_iff.mp hc
    have hp1 : (lower (if isSpace c then nb else c :: nb).reverse).isPrefixOf (closeTagOf tn) = true := by
      rw [List.isPrefixOf_iff_prefix]
      simp only [hsp, Bool.false_eq_true, if_false, List.reverse_cons]
      refine List.IsPrefix.trans ?_ hp
      have e : nb.reverse ++ c :: cs = (nb.reverse ++ [c]) ++ cs := by simp
      rw [e, lower_append (nb.reverse ++ [c]) cs]
      exact List.prefix_append _ _
    have hstep := astep_raw_keep cfg toks buf tb nb tn c hlt hgt htb hp1
    simp only [hsp, Bool.false_eq_true, if_false] at hstep
    rw [arun_cons_ok hstep, ih (c :: buf) (c :: tb) (c :: nb) (by simp) hcs' (by simpa using hp)]
    simp

theorem arun_raw_keep_blanks (g buf tb nb : List Char) (htb : tb ≠ []) (hg : blanks g = true)
    (hp : lower nb.reverse <+: closeTagOf tn) :
    arun cfg ⟨.text ⟨buf, some tn, tb, nb⟩, toks⟩ g =
      .ok ⟨.text ⟨g.reverse ++ buf, some tn, g.reverse ++ tb, nb⟩, toks⟩ := by
  induction g generalizing buf tb with
  | nil => rfl
  | cons c g ih =>
    obtain ⟨hc, hg'⟩ := blanks_cons.mp hg
    have hlt : c ≠ '<' := by intro h; subst h; simp [isSpace_lt] at hc
    have hgt : c ≠ '>' := by intro h; subst h; simp [isSpace_gt] at hc
    have hstep := astep_raw_keep cfg toks buf tb nb tn c hlt hgt htb (by simpa [hc, List.isPrefixOf_iff_prefix] using hp)
    simp only [hc, if_true] at hstep
    rw [arun_cons_ok hstep, ih (c :: buf) (c :: tb) (by simp) hg']
    simp

/-- the end tag of a raw-text element: the pending text (if any) and the end tag are emitted -/
theorem arun_raw_close_tag (name g buf tb nb : List Char) (hname : lower name = tn) (hch : name.all rawNameCh = true)
    (hg : blanks g = true) :
    arun cfg ⟨.text ⟨buf, some tn, tb, nb⟩, toks⟩ ('<' :: '/' :: (name ++ g ++ ['>'])) =
      .ok ⟨.init, ⟨.tag, '<' :: '/' :: (name ++ g ++ ['>']), some ('/' :: name, [])⟩ ::
        (if buf.isEmpty then toks else ⟨.text, buf.reverse, none⟩ :: toks)⟩ := by
  have hC : closeTagOf tn = lower ('<' :: '/' :: name) ++ ['>'] := by
    rw [← hname]; simp [closeTagOf, lower]
  have h1 := arun_raw_keep_chars cfg toks tn ('/' :: name) ('<' :: buf) ['<'] ['<'] (by simp)
    (by simp only [List.all_cons, hch, Bool.and_true]; decide)
    (by rw [hC]; simp)
  have h2 := arun_raw_keep_blanks cfg toks tn g (('/' :: name).reverse ++ '<' :: buf) (('/' :: name).reverse ++ ['<'])
    (('/' :: name).reverse ++ ['<']) (by simp) hg (by rw [hC]; simp)
  have h3 := astep_raw_close cfg toks (g.reverse ++ (('/' :: name).reverse ++ '<' :: buf)) (g.reverse ++ (('/' :: name).reverse ++ ['<']))
    (('/' :: name).reverse ++ ['<']) tn (by simp)
    (by
      have e : ('>' :: (('/' :: name).reverse ++ ['<'])).reverse = ('<' :: '/' :: name) ++ ['>'] := by simp
      have hl : lower ['>'] = ['>'] := by decide
      rw [List.isPrefixOf_iff_prefix, e, lower_append, hC, hl]
      exact List.prefix_refl _)
    (by
      simp only [bytes_append, bytes_reverse, bytes_cons, bytes_nil]
      have : '>'.utf8Size = 1 := by decide
      omega)
  rw [arun_cons_ok (astep_raw_lt cfg toks buf tb nb tn)]
  rw [show '/' :: (name ++ g ++ ['>']) = ('/' :: name) ++ (g ++ ['>']) by simp]
  rw [arun_append_ok h1, arun_append_ok h2, arun_cons_ok h3, arun_nil]
  have hd : List.drop (g.reverse ++ (('/' :: name).reverse ++ ['<'])).length (g.reverse ++ (('/' :: name).reverse ++ '<' :: buf)) = buf := by
    have : g.reverse ++ (('/' :: name).reverse ++ '<' :: buf) = (g.reverse ++ (('/' :: name).reverse ++ ['<'])) ++ buf := by simp
    rw [this, List.drop_left]
  rw [hd]
  have hdl : ('/' :: (name ++ ['>'])).dropLast = '/' :: name := by
    rw [show '/' :: (name ++ ['>']) = ('/' :: name) ++ ['>'] from rfl, List.dropLast_concat]
  simp [hdl]

end RawClose


/-! ### facts about `Char.toLower` (ASCII only) -/
theorem toLower_val (c : Char) : c.toLower.val = if 65 ≤ c.val.toNat ∧ c.val.toNat ≤ 90 then c.val + 32 else c.val := by
  unfold Char.toLower
  split
  · rename_i h
    have h' : 65 ≤ c.val.toNat ∧ c.val.toNat ≤ 90 := by
      simpa [UInt32.le_iff_toNat_le, GE.ge] using h
    simp only [h', and_self, if_true]
    rfl
  · rename_i h
    have h' : ¬ (65 ≤ c.val.toNat ∧ c.val.toNat ≤ 90) := by
      simpa [UInt32.le_iff_toNat_le, GE.ge] using h
    simp only [h', if_false]

theorem toLower_toNat (c : Char) : c.toLower.toNat = if 65 ≤ c.toNat ∧ c.toNat ≤ 90 then c.toNat + 32 else c.toNat := by
  have h := congrArg UInt32.toNat (toLower_val c)
  show c.toLower.val.toNat = if 65 ≤ c.val.toNat ∧ c.val.toNat ≤ 90 then c.val.toNat + 32 else c.val.toNat
  split at h <;> rename_i hc
  · simp only [hc, and_self, if_true]
    rw [h, UInt32.toNat_add]
    have e : (32 : UInt32).toNat = 32 := rfl
    rw [e]
    omega
  · simp only [hc, if_false]; exact h

theorem char_eq_of_toNat {a b : Char} (h : a.toNat = b.toNat) : a = b := by
  apply Char.ext; apply UInt32.toNat_inj.mp; exact h

theorem toLower_idem (c : Char) : c.toLower.toLower = c.toLower := by
  apply char_eq_of_toNat
  rw [toLower_toNat c.toLower, toLower_toNat c]
  split <;> (try split) <;> omega

theorem toLower_eq_gt (c : Char) (h : c.toLower = '>') : c = '>' := by
  apply char_eq_of_toNat
  have := congrArg Char.toNat h
  rw [toLower_toNat] at this
  have e : '>'.toNat = 62 := by decide
  rw [e] at this ⊢
  split at this <;> omega


/-! ## Part 10: token sequences -/

theorem lower_idem (x : List Char) : lower (lower x) = lower x := by
  simp [lower, toLower_idem]

theorem gt_not_mem_lower (x : List Char) (h : x.all tagCh = true) : '>' ∉ lower x := by
  intro hm
  simp only [lower, List.mem_map] at hm
  obtain ⟨c, hc, hl⟩ := hm
  have := toLower_eq_gt c hl
  subst this
  have := List.all_eq_true.mp h _ hc
  simp [tagCh] at this

theorem arun_text_chars (cfg : Cfg) (toks : List ATok) (cs buf tb nb : List Char) (h : cs.all (· != '<') = true) :
    arun cfg ⟨.text ⟨buf, none, tb, nb⟩, toks⟩ cs = .ok ⟨.text ⟨cs.reverse ++ buf, none, tb, nb⟩, toks⟩ := by
  induction cs generalizing buf with
  | nil => rfl
  | cons c cs ih =>
    simp only [List.all_cons, Bool.and_eq_true, bne_iff_ne, ne_eq] at h
    rw [arun_cons_ok (astep_text_ch cfg toks buf tb nb c h.1), ih (c :: buf) (by simpa using h.2)]
    simp

theorem arun_init_text (cfg : Cfg) (toks : List ATok) (raw : Option (List Char)) (hr : arawTagOf cfg toks = raw)
    (c : Char) (cs : List Char) (h : c ≠ '<' ∨ raw ≠ none) :
    arun cfg ⟨.init, toks⟩ (c :: cs) = arun cfg ⟨.text ⟨[], raw, [], []⟩, toks⟩ (c :: cs) := by
  have := astep_init_text cfg toks c raw hr h
  simp only [arun, List.foldlM, this]

/-- where the scanner is between two tokens -/
inductive Ctx
  | normal                       -- ordinary content
  | afterText                    -- a text token is being collected (ordinary content)
  | raw (tn : List Char)         -- directly after the start tag of a raw-text element `tn`
  | rawText (tn : List Char)     -- inside the text of a raw-text element
deriving Repr

def rawAfter (cfg : Cfg) : Tok → Option (List Char)
  | .open n _ _ => if isRawName cfg n then some (lower n) else none
  | .close n => if isRawName cfg ('/' :: n) then some (lower ('/' :: n)) else none
  | _ => none

def ctxAfter (cfg : Cfg) (t : Tok) : Ctx :=
  match rawAfter cfg t with
  | some tn => .raw tn
  | none => .normal

/-- ordinary text: non-empty, without `<` -/
def textOK (s : List Char) : Bool := !s.isEmpty && s.all (· != '<')
/-- text of a raw-text element: non-empty, may contain `<` but no closing tag of the element -/
def rawTextOK (tn s : List Char) : Bool := !s.isEmpty && !hasClose tn s
/-- the end tag of the raw-text element `tn` (a lower-cased name) may be written in any letter case
    (`lower n = tn`); it is reported with the spelling `n` as written -/
def closeNameOK (tn n : List Char) : Bool := lower n == tn && n.all rawNameCh

/-- tokens that start with `<`, in ordinary content -/
def tokOK : Tok → Bool
  | .text _ => false
  | .comment b => commentOK b
  | .cdata b => cdataOK b
  | .open n as sc => tagOK n as sc
  | .close n => tagOK ('/' :: n) [] false

def wfSeq (cfg : Cfg) : Ctx → List Tok → Bool
  | _, [] => true
  | .normal, .text s :: rest => textOK s && wfSeq cfg .afterText rest
  | .afterText, .text _ :: _ => false
  | .normal, t :: rest => tokOK t && wfSeq cfg (ctxAfter cfg t) rest
  | .afterText, t :: rest => tokOK t && wfSeq cfg (ctxAfter cfg t) rest
  | .raw tn, .text s :: rest => rawTextOK tn s && wfSeq cfg (.rawText tn) rest
  | .raw tn, .close n :: rest => closeNameOK tn n && wfSeq cfg (ctxAfter cfg (.close n)) rest
  | .rawText tn, .close n :: rest => closeNameOK tn n && wfSeq cfg (ctxAfter cfg (.close n)) rest
  | .raw _, _ => false
  | .rawText _, _ => false

/-- the context in which the scanner is after the tokens `ts` (meaningful when `wfSeq cfg ctx ts`) -/
def endCtx (cfg : Cfg) : Ctx → List Tok → Ctx
  | c, [] => c
  | .normal, .text _ :: rest => endCtx cfg .afterText rest
  | .normal, t :: rest => endCtx cfg (ctxAfter cfg t) rest
  | .afterText, t :: rest => endCtx cfg (ctxAfter cfg t) rest
  | .raw tn, .text _ :: rest => endCtx cfg (.rawText tn) rest
  | .raw _, t :: rest => endCtx cfg (ctxAfter cfg t) rest
  | .rawText _, t :: rest => endCtx cfg (ctxAfter cfg t) rest

def laysOK (ls : List Lay) : Bool := ls.all layOK

theorem headD_layOK (ls : List Lay) (h : laysOK ls = true) : layOK (ls.headD Lay.dflt) = true ∧ laysOK ls.tail = true := by
  cases ls with
  | nil => exact ⟨layOK_dflt, rfl⟩
  | cons l ls => simpa [laysOK] using h

/-- scanner state `a` and tokens `pre` reported so far (in order), for each context -/
def St (cfg : Cfg) : Ctx → AS → List ATok → Prop
  | .normal, a, pre => ∃ toks, a = ⟨.init, toks⟩ ∧ arawTagOf cfg toks = none ∧ pre = toks.reverse
  | .afterText, a, pre => ∃ toks buf tb nb, a = ⟨.text ⟨buf, none, tb, nb⟩, toks⟩ ∧
      pre = toks.reverse ++ [⟨.text, buf.reverse, none⟩]
  | .raw tn, a, pre => ∃ toks, a = ⟨.init, toks⟩ ∧ arawTagOf cfg toks = some tn ∧ pre = toks.reverse ∧
      lower tn = tn ∧ '>' ∉ tn
  | .rawText tn, a, pre => ∃ toks buf tb nb, a = ⟨.text ⟨buf, some tn, tb, nb⟩, toks⟩ ∧ buf ≠ [] ∧
      pre = toks.reverse ++ [⟨.text, buf.reverse, none⟩] ∧ lower tn = tn ∧ '>' ∉ tn

def acont (cfg : Cfg) (a : AS) (cs : List Char) : Except Err (List ATok) := do
  let a' ← arun cfg a cs
  afinish a'

theorem acont_append_ok {cfg : Cfg} {a a' : AS} {xs : List Char} (h : arun cfg a xs = .ok a') (ys : List Char) :
    acont cfg a (xs ++ ys) = acont cfg a' ys := by
  simp only [acont, arun_append_ok h]


theorem lit_cmt : "!--".toList = ['!','-','-'] := by rfl
theorem lit_cd : "![CDATA[".toList = ['!','[','C','D','A','T','A','['] := by rfl
theorem lit_co : "<!--".toList = ['<','!','-','-'] := by rfl
theorem lit_cc : "-->".toList = ['-','-','>'] := by rfl
theorem lit_do : "<![CDATA[".toList = ['<','!','[','C','D','A','T','A','['] := by rfl
theorem lit_dc : "]]>".toList = [']',']','>'] := by rfl

theorem arun_comment_tok' (cfg : Cfg) (toks : List ATok) (b : List Char) (hb : commentOK b = true) :
    arun cfg ⟨.tag ⟨.tagName, ['<'], [], [], [], [], [], []⟩, toks⟩ (['!','-','-'] ++ (b ++ ['-','-','>'])) =
      .ok ⟨.init, ⟨.comment, ['<','!','-','-'] ++ b ++ ['-','-','>'], none⟩ :: toks⟩ := by
  have := arun_comment_tok cfg toks b hb
  rw [lit_co, lit_cc] at this
  exact this

theorem arun_cdata_tok' (cfg : Cfg) (toks : List ATok) (b : List Char) (hb : cdataOK b = true) :
    arun cfg ⟨.tag ⟨.tagName, ['<'], [], [], [], [], [], []⟩, toks⟩ (['!','[','C','D','A','T','A','['] ++ (b ++ [']',']','>'])) =
      .ok ⟨.init, ⟨.cdata, ['<','!','[','C','D','A','T','A','['] ++ b ++ [']',']','>'], none⟩ :: toks⟩ := by
  have := arun_cdata_tok cfg toks b hb
  rw [lit_do, lit_dc] at this
  exact this

def tag0 : ATagL := ⟨.tagName, ['<'], [], [], [], [], [], []⟩

/-- a token that starts with `<`, scanned from the state just after that `<` -/
theorem arun_taglike (cfg : Cfg) (t : Tok) (hok : tokOK t = true) (lay : Lay) (hlay : layOK lay = true) :
    ∃ body, printTok t lay = '<' :: body ∧
      ∀ toks, arun cfg ⟨.tag tag0, toks⟩ body = .ok ⟨.init, emb t lay :: toks⟩ := by
  cases t with
  | text s => simp [tokOK] at hok
  | comment b =>
    refine ⟨['!','-','-'] ++ (b ++ ['-','-','>']), by simp [printTok], fun toks => ?_⟩
    rw [tag0, arun_comment_tok' cfg toks b hok]; rfl
  | cdata b =>
    refine ⟨['!','[','C','D','A','T','A','['] ++ (b ++ [']',']','>']), by simp [printTok], fun toks => ?_⟩
    rw [tag0, arun_cdata_tok' cfg toks b hok]; rfl
  | «open» n as sc =>
    refine ⟨_, rfl, fun toks => ?_⟩
    rw [tag0, arun_tag cfg toks n as sc lay hok hlay]; rfl
  | close n =>
    refine ⟨_, rfl, fun toks => ?_⟩
    rw [tag0, arun_tag cfg toks ('/' :: n) [] false lay hok hlay]
    simp [emb, embTag, printTok]

theorem arawTagOf_emb (cfg : Cfg) (t : Tok) (hok : tokOK t = true) (lay : Lay) (toks : List ATok) :
    arawTagOf cfg (emb t lay :: toks) = rawAfter cfg t := by
  cases t <;> simp [tokOK] at hok <;> simp [emb, rawAfter, arawTagOf_tag, arawTagOf_comment, arawTagOf_cdata, embTag]

theorem rawAfter_props (cfg : Cfg) (t : Tok) (hok : tokOK t = true) (tn : List Char) (h : rawAfter cfg t = some tn) :
    lower tn = tn ∧ '>' ∉ tn := by
  cases t with
  | text s => simp [tokOK] at hok
  | comment b => simp [rawAfter] at h
  | cdata b => simp [rawAfter] at h
  | «open» n as sc =>
    simp only [rawAfter] at h
    split at h
    · cases h
      simp only [tokOK, tagOK, Bool.and_eq_true] at hok
      exact ⟨lower_idem n, gt_not_mem_lower n hok.1.1.1⟩
    · cases h
  | close n =>
    simp only [rawAfter] at h
    split at h
    · cases h
      simp only [tokOK, tagOK, Bool.and_eq_true] at hok
      exact ⟨lower_idem _, gt_not_mem_lower _ hok.1.1.1⟩
    · cases h

/-- after a `<`-token the scanner is between tokens again, in the context `ctxAfter` -/
theorem st_after (cfg : Cfg) (t : Tok) (hok : tokOK t = true) (lay : Lay) (toks : List ATok) :
    St cfg (ctxAfter cfg t) ⟨.init, emb t lay :: toks⟩ (toks.reverse ++ [emb t lay]) := by
  have h1 := arawTagOf_emb cfg t hok lay toks
  unfold ctxAfter
  cases hr : rawAfter cfg t with
  | none => exact ⟨_, rfl, by rw [h1, hr], by simp⟩
  | some tn =>
    obtain ⟨ha, hb⟩ := rawAfter_props cfg t hok tn hr
    exact ⟨_, rfl, by rw [h1, hr], by simp, ha, hb⟩


theorem step_taglike_normal (cfg : Cfg) (t : Tok) (hok : tokOK t = true) (lay : Lay) (hlay : layOK lay = true)
    (toks : List ATok) (hraw : arawTagOf cfg toks = none) :
    arun cfg ⟨.init, toks⟩ (printTok t lay) = .ok ⟨.init, emb t lay :: toks⟩ := by
  obtain ⟨body, hp, hrun⟩ := arun_taglike cfg t hok lay hlay
  rw [hp, arun_cons_ok (astep_init_lt cfg toks hraw)]
  exact hrun toks

theorem step_taglike_afterText (cfg : Cfg) (t : Tok) (hok : tokOK t = true) (lay : Lay) (hlay : layOK lay = true)
    (toks : List ATok) (buf tb nb : List Char) :
    arun cfg ⟨.text ⟨buf, none, tb, nb⟩, toks⟩ (printTok t lay) = .ok ⟨.init, emb t lay :: ⟨.text, buf.reverse, none⟩ :: toks⟩ := by
  obtain ⟨body, hp, hrun⟩ := arun_taglike cfg t hok lay hlay
  rw [hp, arun_cons_ok (astep_text_lt cfg toks buf tb nb)]
  exact hrun _

theorem tokOK_close_of (tn n : List Char) (h : closeNameOK tn n = true) : tokOK (.close n) = true ∧ lower n = tn := by
  simp only [closeNameOK, Bool.and_eq_true, beq_iff_eq] at h
  obtain ⟨hn, hch⟩ := h
  refine ⟨?_, hn⟩
  simp only [tokOK, tagOK, Bool.and_eq_true]
  refine ⟨⟨⟨?_, ?_⟩, rfl⟩, rfl⟩
  · simp only [List.all_cons, Bool.and_eq_true]
    refine ⟨by decide, ?_⟩
    rw [List.all_eq_true] at hch ⊢
    intro c hc
    have := rawNameCh_iff.mp (hch c hc)
    exact tagCh_iff.mpr ⟨this.1, this.2.2⟩
  · simp [noSpecialB, lit_cmt, lit_cd, List.isPrefixOf]

theorem printTok_close (n : List Char) (lay : Lay) : printTok (.close n) lay = '<' :: '/' :: (n ++ lay.fin ++ ['>']) := by
  simp [printTok, printTag, printAttrs]


theorem acont_nil (cfg : Cfg) (a : AS) : acont cfg a [] = afinish a := rfl

theorem st_afterText (cfg : Cfg) (toks : List ATok) (buf tb nb : List Char) :
    St cfg .afterText ⟨.text ⟨buf, none, tb, nb⟩, toks⟩ (toks.reverse ++ [⟨.text, buf.reverse, none⟩]) :=
  ⟨toks, buf, tb, nb, rfl, rfl⟩

theorem st_rawText (cfg : Cfg) (tn : List Char) (toks : List ATok) (buf tb nb : List Char) (hb : buf ≠ [])
    (hlow : lower tn = tn) (hgt : '>' ∉ tn) :
    St cfg (.rawText tn) ⟨.text ⟨buf, some tn, tb, nb⟩, toks⟩ (toks.reverse ++ [⟨.text, buf.reverse, none⟩]) :=
  ⟨toks, buf, tb, nb, rfl, hb, rfl, hlow, hgt⟩

theorem st_cast {cfg : Cfg} {ctx : Ctx} {a : AS} {p q : List ATok} (h : St cfg ctx a p) (e : p = q) : St cfg ctx a q := e ▸ h

macro "taglike_normal" ih:ident hst:ident hwf:ident hlay:ident hls:ident : tactic => `(tactic| (
  obtain ⟨toks, ha, hraw, hp⟩ := $hst
  subst ha hp
  simp only [wfSeq, Bool.and_eq_true] at $hwf:ident
  obtain ⟨a', h, hst'⟩ := $ih:ident _ _ _ _ (st_after _ _ ($hwf).1 _ toks) ($hwf).2 $hls
  exact ⟨a', by rw [arun_append_ok (step_taglike_normal _ _ ($hwf).1 _ $hlay _ hraw), h], st_cast hst' (by simp [endCtx])⟩))

macro "taglike_after" ih:ident hst:ident hwf:ident hlay:ident hls:ident : tactic => `(tactic| (
  obtain ⟨toks, buf, tb, nb, ha, hp⟩ := $hst
  subst ha hp
  simp only [wfSeq, Bool.and_eq_true] at $hwf:ident
  obtain ⟨a', h, hst'⟩ := $ih:ident _ _ _ _ (st_after _ _ ($hwf).1 _ _) ($hwf).2 $hls
  exact ⟨a', by rw [arun_append_ok (step_taglike_afterText _ _ ($hwf).1 _ $hlay toks buf tb nb), h], st_cast hst' (by simp [endCtx])⟩))

/-- the sequence lemma: from the inter-token state of context `ctx`, scanning the printed tokens leads to the
    inter-token state of context `endCtx cfg ctx ts`, having reported exactly the embedded tokens -/
theorem arun_seq (cfg : Cfg) (ts : List Tok) : ∀ (ctx : Ctx) (a : AS) (pre : List ATok) (ls : List Lay),
    St cfg ctx a pre → wfSeq cfg ctx ts = true → laysOK ls = true →
    ∃ a', arun cfg a (printL ts ls) = .ok a' ∧ St cfg (endCtx cfg ctx ts) a' (pre ++ embL ts ls) := by
  induction ts with
  | nil =>
    intro ctx a pre ls hst _ _
    exact ⟨a, rfl, by cases ctx <;> simpa [printL, embL, endCtx] using hst⟩
  | cons t ts ih =>
    intro ctx a pre ls hst hwf hls
    obtain ⟨hlay, hls'⟩ := headD_layOK ls hls
    simp only [printL, embL]
    generalize ls.headD Lay.dflt = lay at hlay
    cases ctx with
    | normal =>
      cases t with
      | text s =>
        obtain ⟨toks, rfl, hraw, rfl⟩ := hst
        simp only [wfSeq, textOK, Bool.and_eq_true, Bool.not_eq_true', List.isEmpty_eq_false_iff] at hwf
        obtain ⟨⟨hne, hlt⟩, hwf'⟩ := hwf
        cases s with
        | nil => exact (hne rfl).elim
        | cons c s =>
          have hc : c ≠ '<' := by simpa using (List.all_eq_true.mp hlt c (by simp))
          have hrun : arun cfg ⟨.init, toks⟩ (c :: s) = .ok ⟨.text ⟨(c :: s).reverse ++ [], none, [], []⟩, toks⟩ := by
            rw [arun_init_text cfg toks none hraw c s (Or.inl hc)]
            exact arun_text_chars cfg toks (c :: s) [] [] [] hlt
          simp only [printTok]
          obtain ⟨a', h, hst'⟩ := ih _ _ _ _ (st_afterText cfg toks _ _ _) hwf' hls'
          exact ⟨a', by rw [arun_append_ok hrun, h], st_cast hst' (by simp [emb, endCtx])⟩
      | comment b => taglike_normal ih hst hwf hlay hls'
      | cdata b => taglike_normal ih hst hwf hlay hls'
      | «open» n as sc => taglike_normal ih hst hwf hlay hls'
      | close n => taglike_normal ih hst hwf hlay hls'
    | afterText =>
      cases t with
      | text s => simp [wfSeq] at hwf
      | comment b => taglike_after ih hst hwf hlay hls'
      | cdata b => taglike_after ih hst hwf hlay hls'
      | «open» n as sc => taglike_after ih hst hwf hlay hls'
      | close n => taglike_after ih hst hwf hlay hls'
    | raw tn =>
      obtain ⟨toks, rfl, hraw, rfl, hlow, hgt⟩ := hst
      cases t with
      | text s =>
        simp only [wfSeq, rawTextOK, Bool.and_eq_true, Bool.not_eq_true', List.isEmpty_eq_false_iff] at hwf
        obtain ⟨⟨hne, hcl⟩, hwf'⟩ := hwf
        cases s with
        | nil => exact (hne rfl).elim
        | cons c s =>
          obtain ⟨tb', nb', hrun'⟩ := arun_raw_body cfg toks tn hgt (c :: s) [] [] [] (Or.inl rfl) hcl
          have hrun : arun cfg ⟨.init, toks⟩ (c :: s) = .ok ⟨.text ⟨(c :: s).reverse ++ [], some tn, tb', nb'⟩, toks⟩ := by
            rw [arun_init_text cfg toks (some tn) hraw c s (Or.inr (by simp))]
            exact hrun'
          simp only [printTok]
          obtain ⟨a', h, hst'⟩ := ih _ _ _ _ (st_rawText cfg tn toks ((c :: s).reverse ++ []) tb' nb' (by simp) hlow hgt) hwf' hls'
          exact ⟨a', by rw [arun_append_ok hrun, h], st_cast hst' (by simp [emb, endCtx])⟩
      | close n =>
        simp only [wfSeq, Bool.and_eq_true] at hwf
        obtain ⟨hcn, hwf'⟩ := hwf
        obtain ⟨hok, hn⟩ := tokOK_close_of tn n hcn
        simp only [closeNameOK, Bool.and_eq_true] at hcn
        have hrun : arun cfg ⟨.init, toks⟩ (printTok (.close n) lay) = .ok ⟨.init, emb (.close n) lay :: toks⟩ := by
          rw [printTok_close, arun_init_text cfg toks (some tn) hraw _ _ (Or.inr (by simp)),
            arun_raw_close_tag cfg toks tn n lay.fin [] [] [] hn hcn.2 (by
              simp only [layOK, Bool.and_eq_true] at hlay; exact hlay.2)]
          simp [emb, printTok_close, hn]
        obtain ⟨a', h, hst'⟩ := ih _ _ _ _ (st_after cfg _ hok lay toks) hwf' hls'
        exact ⟨a', by rw [arun_append_ok hrun, h], st_cast hst' (by simp [endCtx])⟩
      | comment b => simp [wfSeq] at hwf
      | cdata b => simp [wfSeq] at hwf
      | «open» n as sc => simp [wfSeq] at hwf
    | rawText tn =>
      obtain ⟨toks, buf, tb, nb, rfl, hbne, rfl, hlow, hgt⟩ := hst
      cases t with
      | close n =>
        simp only [wfSeq, Bool.and_eq_true] at hwf
        obtain ⟨hcn, hwf'⟩ := hwf
        obtain ⟨hok, hn⟩ := tokOK_close_of tn n hcn
        simp only [closeNameOK, Bool.and_eq_true] at hcn
        have hrun : arun cfg ⟨.text ⟨buf, some tn, tb, nb⟩, toks⟩ (printTok (.close n) lay) =
            .ok ⟨.init, emb (.close n) lay :: ⟨.text, buf.reverse, none⟩ :: toks⟩ := by
          rw [printTok_close,
            arun_raw_close_tag cfg toks tn n lay.fin buf tb nb hn hcn.2 (by
              simp only [layOK, Bool.and_eq_true] at hlay; exact hlay.2)]
          simp [emb, printTok_close, hn, hbne]
        obtain ⟨a', h, hst'⟩ := ih _ _ _ _ (st_after cfg _ hok lay _) hwf' hls'
        exact ⟨a', by rw [arun_append_ok hrun, h], st_cast hst' (by simp [endCtx])⟩
      | text s => simp [wfSeq] at hwf
      | comment b => simp [wfSeq] at hwf
      | cdata b => simp [wfSeq] at hwf
      | «open» n as sc => simp [wfSeq] at hwf

/-- finishing in an inter-token state reports the tokens collected so far -/
theorem afinish_st (cfg : Cfg) (ctx : Ctx) (a : AS) (pre : List ATok) (h : St cfg ctx a pre) : afinish a = .ok pre := by
  cases ctx with
  | normal => obtain ⟨toks, rfl, _, rfl⟩ := h; exact afinish_init toks
  | afterText => obtain ⟨toks, buf, tb, nb, rfl, rfl⟩ := h; rw [afinish_text]; simp
  | raw tn => obtain ⟨toks, rfl, _, rfl, _⟩ := h; exact afinish_init toks
  | rawText tn => obtain ⟨toks, buf, tb, nb, rfl, _, rfl, _⟩ := h; rw [afinish_text]; simp

theorem st_init (cfg : Cfg) : St cfg .normal ainit [] := ⟨[], rfl, rfl, rfl⟩

/-- the abstract round trip, arbitrary layout -/
theorem ascan_printL (cfg : Cfg) (ts : List Tok) (ls : List Lay) (hwf : wfSeq cfg .normal ts = true) (hls : laysOK ls = true) :
    ascan cfg (printL ts ls) = .ok (embL ts ls) := by
  obtain ⟨a', h, hst⟩ := arun_seq cfg ts .normal ainit [] ls (st_init cfg) hwf hls
  simp only [ascan, h, bind, Except.bind]
  simpa using afinish_st cfg _ a' _ hst

/-- transfer to the real scanner -/
theorem scan_of_ascan {cfg : Cfg} {cs : List Char} {r : List ATok} (h : ascan cfg cs = .ok r) :
    ∃ ts', scan cfg cs = .ok ts' ∧ ts'.map forget = r := by
  have := scan_abs cfg cs
  rw [h] at this
  cases hs : scan cfg cs with
  | error e => rw [hs] at this; cases this
  | ok ts' => rw [hs] at this; simp only [Except.map, Except.ok.injEq] at this; exact ⟨ts', rfl, this⟩

theorem scan_of_ascan_err {cfg : Cfg} {cs : List Char} {e : Err} (h : ascan cfg cs = .error e) : scan cfg cs = .error e := by
  have := scan_abs cfg cs
  rw [h] at this
  cases hs : scan cfg cs with
  | error e' => rw [hs] at this; simp only [Except.map, Except.error.injEq] at this; rw [this]
  | ok ts' => rw [hs] at this; cases this


/-! ## Part 11: reading the scanner's tokens back as abstract tokens (`erase`) -/

/-- quote style and content of a raw attribute value -/
def unquote (v : List Char) : Quote × List Char :=
  match v with
  | '"' :: r => (match r.reverse with | '"' :: m => (.dq, m.reverse) | _ => (.bare, v))
  | '\'' :: r => (match r.reverse with | '\'' :: m => (.sq, m.reverse) | _ => (.bare, v))
  | _ => (.bare, v)

def eraseAttr (a : AAttr) : Attr := ⟨a.name, a.value.map unquote⟩

/-- a trailing value-less attribute `/` is the self-closing mark -/
def splitSlash (as : List AAttr) : List AAttr × Bool :=
  match as.reverse with
  | a :: m => if a = slashAttr then (m.reverse, true) else (as, false)
  | [] => (as, false)

def eraseTag (n : List Char) (as : List AAttr) : Tok :=
  match n with
  | '/' :: m => .close m
  | _ => .open n ((splitSlash as).1.map eraseAttr) (splitSlash as).2

def eraseA (t : ATok) : Tok :=
  match t.kind with
  | .text => .text t.value
  | .comment => .comment ((t.value.drop 4).take (t.value.length - 7))
  | .cdata => .cdata ((t.value.drop 9).take (t.value.length - 12))
  | .tag => match t.tag with
    | some (n, as) => eraseTag n as
    | none => .text []

/-- forget the positions of a scanned token and read it as an abstract token -/
def erase (t : Token) : Tok := eraseA (forget t)

/-- the conditions that make the abstract syntax unambiguous: an open tag's name does not start with `/`
    (that is a close tag) and, unless self-closing, its last attribute is not the value-less `/` -/
def canon : Tok → Bool
  | .open n as sc => n.head? != some '/' && (sc || as.getLast? != some ⟨['/'], none⟩) && as.all attrOK
  | _ => true

theorem unquote_wrap (q : Quote) (v : List Char) (h : valueOK (some (q, v)) = true) : unquote (q.wrap v) = (q, v) := by
  cases q with
  | bare =>
    cases v with
    | nil => simp [valueOK] at h
    | cons f r =>
      simp only [valueOK, Bool.and_eq_true, Bool.not_eq_true'] at h
      have hq := h.1.2
      simp only [isQuote, Bool.or_eq_false_iff, decide_eq_false_iff_not] at hq
      simp only [Quote.wrap, unquote]
      split
      · rename_i heq; simp only [List.cons.injEq] at heq; exact (hq.1 heq.1).elim
      · rename_i heq; simp only [List.cons.injEq] at heq; exact (hq.2 heq.1).elim
      · rfl
  | sq => simp [Quote.wrap, unquote]
  | dq => simp [Quote.wrap, unquote]

theorem eraseAttr_emb (a : Attr) (h : attrOK a = true) : eraseAttr (embAttr a) = a := by
  rcases a with ⟨n, v⟩
  simp only [attrOK, Bool.and_eq_true] at h
  cases v with
  | none => rfl
  | some qv =>
    obtain ⟨q, v⟩ := qv
    simp [eraseAttr, embAttr, unquote_wrap q v h.2]

theorem map_eraseAttr_emb (as : List Attr) (h : as.all attrOK = true) : (as.map embAttr).map eraseAttr = as := by
  induction as with
  | nil => rfl
  | cons a as ih =>
    simp only [List.all_cons, Bool.and_eq_true] at h
    simp [eraseAttr_emb a h.1, ih h.2]

theorem embAttr_eq_slash (a : Attr) (h : embAttr a = slashAttr) : a = ⟨['/'], none⟩ := by
  rcases a with ⟨n, v⟩
  simp only [embAttr, slashAttr, AAttr.mk.injEq] at h
  cases v with
  | none => simp [h.1]
  | some qv => simp at h

theorem erase_emb (t : Tok) (lay : Lay) (h : canon t = true) : eraseA (emb t lay) = t := by
  cases t with
  | text s => rfl
  | comment b => simp [emb, eraseA, printTok]
  | cdata b => simp [emb, eraseA, printTok]
  | close n => simp [emb, eraseA, eraseTag]
  | «open» n as sc =>
    simp only [canon, Bool.and_eq_true, bne_iff_ne, ne_eq, Bool.or_eq_true] at h
    obtain ⟨⟨hn, hlast⟩, hattrs⟩ := h
    have hnn : ∀ m, n ≠ '/' :: m := by intro m hm; subst hm; simp at hn
    simp only [emb, eraseA, embTag]
    unfold eraseTag
    split
    · rename_i m; exact (hnn m rfl).elim
    · cases sc with
      | true =>
        have : splitSlash (as.map embAttr ++ [slashAttr]) = (as.map embAttr, true) := by
          simp [splitSlash]
        simp [this, map_eraseAttr_emb as hattrs]
      | false =>
        have : splitSlash (as.map embAttr) = (as.map embAttr, false) := by
          simp only [splitSlash]
          rcases List.eq_nil_or_concat as with rfl | ⟨as', a, rfl⟩
          · rfl
          · simp only [List.concat_eq_append, List.map_append, List.map_cons, List.map_nil, List.reverse_append,
              List.reverse_cons, List.reverse_nil, List.nil_append, List.cons_append]
            split
            · rename_i he
              have := embAttr_eq_slash a he
              subst this
              simp at hlast
            · rfl
        simp [this, map_eraseAttr_emb as hattrs]


theorem map_erase_embL (ts : List Tok) (ls : List Lay) (h : ts.all canon = true) : (embL ts ls).map eraseA = ts := by
  induction ts generalizing ls with
  | nil => rfl
  | cons t ts ih =>
    simp only [List.all_cons, Bool.and_eq_true] at h
    simp [embL, erase_emb t _ h.1, ih ls.tail h.2]

theorem embL_nil_lay (ts : List Tok) : embL ts [] = ts.map (fun t => emb t Lay.dflt) := by
  induction ts with
  | nil => rfl
  | cons t ts ih => simp [embL, ih]


/-! ## Part 12: rejected inputs -/

/-- the token sequence ends in ordinary content (not inside a raw-text element) -/
def isOrdinary : Ctx → Bool
  | .normal => true
  | .afterText => true
  | _ => false

def ordinaryEnd (cfg : Cfg) (ts : List Tok) : Bool := isOrdinary (endCtx cfg .normal ts)

theorem astep_comment_bad_start (cfg : Cfg) (toks : List ATok) (buf : List Char) (as : List AAttr) (tn cm cd an av : List Char) (c : Char)
    (h : (['-','-','>'] : List Char).isSuffixOf (cm.reverse ++ [c]) = false)
    (h1 : (['>'] : List Char).isPrefixOf (cm.reverse ++ [c]) = true ∨ (['-','>'] : List Char).isPrefixOf (cm.reverse ++ [c]) = true) :
    astep cfg ⟨.tag ⟨.comment, buf, as, tn, cm, cd, an, av⟩, toks⟩ c = .error .comment := by
  rcases h1 with h1 | h1 <;> astep_simp

/-- in ordinary content a `<` starts a tag -/
theorem st_lt (cfg : Cfg) (ctx : Ctx) (a : AS) (pre : List ATok) (h : St cfg ctx a pre)
    (hc : isOrdinary ctx = true) :
    ∃ toks', astep cfg a '<' = .ok ⟨.tag tag0, toks'⟩ := by
  cases ctx with
  | normal => obtain ⟨toks, rfl, hraw, _⟩ := h; exact ⟨toks, astep_init_lt cfg toks hraw⟩
  | afterText => obtain ⟨toks, buf, tb, nb, rfl, _⟩ := h; exact ⟨_, astep_text_lt cfg toks buf tb nb⟩
  | raw tn => simp [isOrdinary] at hc
  | rawText tn => simp [isOrdinary] at hc

/-- after a well-formed prefix that ends in ordinary content: the state after the `<` of the next tag -/
theorem arun_prefix_lt (cfg : Cfg) (ts : List Tok) (ls : List Lay) (hwf : wfSeq cfg .normal ts = true) (hls : laysOK ls = true)
    (hend : ordinaryEnd cfg ts = true) :
    ∃ toks', arun cfg ainit (printL ts ls ++ ['<']) = .ok ⟨.tag tag0, toks'⟩ := by
  obtain ⟨a', h, hst⟩ := arun_seq cfg ts .normal ainit [] ls (st_init cfg) hwf hls
  obtain ⟨toks', h2⟩ := st_lt cfg _ a' _ hst hend
  exact ⟨toks', by rw [arun_append_ok h, arun_cons_ok h2]; rfl⟩

theorem ascan_err_of {cfg : Cfg} {a : AS} {xs ys : List Char} {e : Err} (h1 : arun cfg ainit xs = .ok a)
    (h2 : arun cfg a ys = .error e) : ascan cfg (xs ++ ys) = .error e := by
  simp only [ascan, arun_append_ok h1, h2, bind, Except.bind]

/-- an unterminated tag is rejected: the input ends after the tag name and any number of complete attributes -/
theorem ascan_unterminated (cfg : Cfg) (ts : List Tok) (ls : List Lay) (hwf : wfSeq cfg .normal ts = true) (hls : laysOK ls = true)
    (hend : ordinaryEnd cfg ts = true) (name : List Char) (attrs : List Attr) (gs : List Gap)
    (hok : tagOK name attrs false = true) (hgs : gs.all gapOK = true) :
    ascan cfg (printL ts ls ++ '<' :: (name ++ printAttrs attrs gs)) = .error .eofInTag := by
  obtain ⟨toks', h0⟩ := arun_prefix_lt cfg ts ls hwf hls hend
  simp only [tagOK, Bool.and_eq_true] at hok
  obtain ⟨⟨⟨hch, hsp⟩, hattrs⟩, hdist⟩ := hok
  have h1 := arun_tagName cfg toks' name ['<'] [] [] [] [] [] [] hch (noSpecial_of name hsp)
  obtain ⟨l1, pend1, h2, _⟩ :=
    arun_attrs cfg toks' attrs gs [] ⟨.tagName, name.reverse ++ ['<'], [], name.reverse ++ [], [], [], [], []⟩
      none (by simp [Bnd]) (by simpa [anames] using hdist) hattrs hgs
  have : printL ts ls ++ '<' :: (name ++ printAttrs attrs gs) = (printL ts ls ++ ['<']) ++ (name ++ printAttrs attrs gs) := by simp
  rw [this]
  simp only [ascan, arun_append_ok h0, tag0, arun_append_ok h1, h2, bind, Except.bind, afinish_tag]

/-- a comment whose text starts with `>` or `->` is rejected (`<!-->`, `<!--->`), whatever follows -/
theorem ascan_malformed_comment_start (cfg : Cfg) (ts : List Tok) (ls : List Lay) (hwf : wfSeq cfg .normal ts = true)
    (hls : laysOK ls = true) (hend : ordinaryEnd cfg ts = true) (rest : List Char) :
    ascan cfg (printL ts ls ++ (['<','!','-','-','>'] ++ rest)) = .error .comment ∧
    ascan cfg (printL ts ls ++ (['<','!','-','-','-','>'] ++ rest)) = .error .comment := by
  obtain ⟨toks', h0⟩ := arun_prefix_lt cfg ts ls hwf hls hend
  have e1 : arun cfg ⟨.tag tag0, toks'⟩ (['!','-','-'] ++ ['>']) = .error .comment := by
    rw [tag0, arun_append_ok (arun_comment_open cfg toks')]
    exact arun_cons_err (astep_comment_bad_start cfg toks' _ _ _ [] _ _ _ '>' (by decide) (Or.inl (by decide))) []
  have e2 : arun cfg ⟨.tag tag0, toks'⟩ (['!','-','-'] ++ ['-','>']) = .error .comment := by
    rw [tag0, arun_append_ok (arun_comment_open cfg toks'),
      arun_cons_ok (astep_comment_ch cfg toks' _ _ _ [] _ _ _ '-' (by decide) (by decide) (by decide))]
    exact arun_cons_err (astep_comment_bad_start cfg toks' _ _ _ ['-'] _ _ _ '>' (by decide) (Or.inr (by decide))) []
  constructor
  · have : printL ts ls ++ (['<','!','-','-','>'] ++ rest) = (printL ts ls ++ ['<']) ++ (['!','-','-','>'] ++ rest) := by simp
    rw [this]
    exact ascan_err_of h0 (arun_append_err e1 rest)
  · have : printL ts ls ++ (['<','!','-','-','-','>'] ++ rest) = (printL ts ls ++ ['<']) ++ (['!','-','-','-','>'] ++ rest) := by simp
    rw [this]
    exact ascan_err_of h0 (arun_append_err e2 rest)


/-- a repeated attribute name is rejected when the attribute is completed (at its closing quote, or at the blank or `>`
    that ends it); here the attribute is followed by the end of the tag -/
theorem arun_attr_dup (cfg : Cfg) (toks : List ATok) (a : Attr) (g : Gap) (c0 : Char) (rest : List Char)
    (hname : a.name = c0 :: rest) (hok : attrOK a = true) (hg2 : blanks g.g2 = true) (hg3 : blanks g.g3 = true)
    (buf : List Char) (as : List AAttr) (tn cm cd av0 : List Char)
    (hdup : as.any (fun b => b.name == a.name) = true) (fin : List Char) (hfin : blanks fin = true) :
    arun cfg ⟨.tag ⟨.attrName, buf, as, tn, cm, cd, [c0], av0⟩, toks⟩ (rest ++ (printValue a.value g ++ (fin ++ ['>']))) = .error .dupAttr := by
  rcases a with ⟨name, value⟩
  simp only at hname hdup
  subst hname
  simp only [attrOK, List.all_cons, Bool.and_eq_true] at hok
  obtain ⟨⟨_, hc0, hrest⟩, hval⟩ := hok
  have hs0 := (nameCh_iff.mp hc0).1
  obtain ⟨hrun, hnb⟩ := arun_attrName_chars cfg toks rest buf as tn cm cd [c0] av0 hrest (noBlankHead_cons [] hs0)
  have han : (rest.reverse ++ [c0]).reverse = c0 :: rest := by simp
  cases value with
  | none =>
    simp only [printValue, List.nil_append]
    rw [arun_append_ok hrun]
    cases fin with
    | nil =>
      have ht := trimOneSpace_noBlankHead hnb
      exact arun_cons_err (astep_attrName_gt_dup cfg toks _ as tn cm cd _ av0 (by rw [ht, han]; exact hdup)) []
    | cons c fin =>
      rw [arun_append_ok (arun_attrName_blanks cfg toks (c :: fin) _ as tn cm cd _ av0 hfin (by simp) hnb)]
      exact arun_cons_err (astep_attrName_gt_dup cfg toks _ as tn cm cd _ av0 (by simpa [trimOneSpace, han] using hdup)) []
  | some qv =>
    obtain ⟨q, v⟩ := qv
    obtain ⟨an', hg2run, htrim⟩ := arun_attrName_g2 cfg toks g.g2 (rest.reverse ++ buf) as tn cm cd (rest.reverse ++ [c0]) av0 hg2 hnb
    have heq := astep_attrName_eq cfg toks (g.g2.reverse ++ (rest.reverse ++ buf)) as tn cm cd an' av0
    have hskip := arun_attrValue_skip cfg toks g.g3 ('=' :: (g.g2.reverse ++ (rest.reverse ++ buf))) as tn cm cd an' hg3
    have hpre : ∀ tail, arun cfg ⟨.tag ⟨.attrName, buf, as, tn, cm, cd, [c0], av0⟩, toks⟩ (rest ++ ((g.g2 ++ '=' :: (g.g3 ++ tail)))) =
        arun cfg ⟨.tag ⟨.attrValue, g.g3.reverse ++ ('=' :: (g.g2.reverse ++ (rest.reverse ++ buf))), as, tn, cm, cd, an', []⟩, toks⟩ tail := by
      intro tail
      rw [arun_append_ok hrun, arun_append_ok hg2run, arun_cons_ok heq, arun_append_ok hskip]
    have hdup' : as.any (fun b => b.name == (trimOneSpace an').reverse) = true := by rw [htrim, han]; exact hdup
    cases q with
    | bare =>
      cases v with
      | nil => simp [valueOK] at hval
      | cons f r =>
        simp only [valueOK, Bool.and_eq_true, Bool.not_eq_true'] at hval
        obtain ⟨⟨hf, hfq⟩, hr⟩ := hval
        obtain ⟨hfs, hfgt⟩ := tagCh_iff.mp hf
        have e : printValue (some (Quote.bare, f :: r)) g ++ (fin ++ ['>']) = g.g2 ++ '=' :: (g.g3 ++ (f :: (r ++ (fin ++ ['>'])))) := by
          simp [printValue, Quote.wrap]
        have hl : (r.reverse ++ [f]).getLast? = some f := by simp
        rw [e, hpre, arun_cons_ok (astep_attrValue_first cfg toks _ as tn cm cd an' f hfs hfgt),
          arun_append_ok (arun_bare cfg toks f hfq r _ as tn cm cd an' [f] hr rfl)]
        cases fin with
        | nil =>
          exact arun_cons_err (astep_attrValue_bare_gt_dup cfg toks _ as tn cm cd an' _
            (by intro f' hf'; rw [hl] at hf'; cases hf'; exact hfq) hdup') []
        | cons c fin =>
          obtain ⟨hc, _⟩ := blanks_cons.mp hfin
          exact arun_cons_err (astep_attrValue_bare_sp_dup cfg toks _ as tn cm cd an' _ c f hl hfq hc hdup') _
    | sq =>
      simp only [valueOK] at hval
      have hq : isQuote '\'' = true := by decide
      have e : printValue (some (Quote.sq, v)) g ++ (fin ++ ['>']) = g.g2 ++ '=' :: (g.g3 ++ ('\'' :: (v ++ ('\'' :: (fin ++ ['>']))))) := by
        simp [printValue, Quote.wrap]
      rw [e, hpre, arun_cons_ok (astep_attrValue_first cfg toks _ as tn cm cd an' '\'' (by decide) (by decide)),
        arun_append_ok (arun_quoted cfg toks '\'' hq v _ as tn cm cd an' ['\''] hval rfl)]
      exact arun_cons_err (astep_attrValue_qend_dup cfg toks _ as tn cm cd an' _ '\'' (by simp) hq hdup') _
    | dq =>
      simp only [valueOK] at hval
      have hq : isQuote '"' = true := by decide
      have e : printValue (some (Quote.dq, v)) g ++ (fin ++ ['>']) = g.g2 ++ '=' :: (g.g3 ++ ('"' :: (v ++ ('"' :: (fin ++ ['>']))))) := by
        simp [printValue, Quote.wrap]
      rw [e, hpre, arun_cons_ok (astep_attrValue_first cfg toks _ as tn cm cd an' '"' (by decide) (by decide)),
        arun_append_ok (arun_quoted cfg toks '"' hq v _ as tn cm cd an' ['"'] hval rfl)]
      exact arun_cons_err (astep_attrValue_qend_dup cfg toks _ as tn cm cd an' _ '"' (by simp) hq hdup') _


/-- a tag in which an attribute name is repeated is rejected -/
theorem ascan_dup_attr (cfg : Cfg) (ts : List Tok) (ls : List Lay) (hwf : wfSeq cfg .normal ts = true) (hls : laysOK ls = true)
    (hend : ordinaryEnd cfg ts = true) (name : List Char) (attrs : List Attr) (gs : List Gap)
    (hok : tagOK name attrs false = true) (hgs : gs.all gapOK = true)
    (a : Attr) (g : Gap) (ha : attrOK a = true) (hg : gapOK g = true)
    (hdup : (attrs.map (·.name)).contains a.name = true) (fin : List Char) (hfin : blanks fin = true) (rest : List Char) :
    ascan cfg (printL ts ls ++ '<' :: (name ++ printAttrs attrs gs ++ printAttr a g ++ fin ++ ['>'] ++ rest)) = .error .dupAttr := by
  obtain ⟨toks', h0⟩ := arun_prefix_lt cfg ts ls hwf hls hend
  simp only [tagOK, Bool.and_eq_true] at hok
  obtain ⟨⟨⟨hch, hsp⟩, hattrs⟩, hdist⟩ := hok
  have h1 := arun_tagName cfg toks' name ['<'] [] [] [] [] [] [] hch (noSpecial_of name hsp)
  obtain ⟨l1, pend1, h2, hb1, hd1, _, _, _, _, hat1⟩ :=
    arun_attrs cfg toks' attrs gs [] ⟨.tagName, name.reverse ++ ['<'], [], name.reverse ++ [], [], [], [], []⟩
      none (by simp [Bnd]) (by simpa [anames] using hdist) hattrs hgs
  simp only [gapOK, Bool.and_eq_true, Bool.not_eq_true', List.isEmpty_eq_false_iff] at hg
  obtain ⟨⟨⟨hg1, hg1ne⟩, hg2⟩, hg3⟩ := hg
  have ha' := ha
  simp only [attrOK, Bool.and_eq_true, Bool.not_eq_true', List.isEmpty_eq_false_iff] at ha'
  obtain ⟨⟨hnne, hnch⟩, _⟩ := ha'
  cases hname : a.name with
  | nil => exact (hnne hname).elim
  | cons c0 rest' =>
    rw [hname] at hnch
    simp only [List.all_cons, Bool.and_eq_true] at hnch
    obtain ⟨av', h3⟩ := arun_gap_next cfg toks' l1 pend1 hb1 (distinct_fresh (R := []) (by simpa using hd1)) g.g1 hg1 hg1ne c0 hnch.1
    have hany : (pend1.toList ++ l1.attrs).any (fun b => b.name == a.name) = true := by
      have hrev : (pend1.toList ++ l1.attrs) = (attrs.map embAttr).reverse := by
        simp only [List.reverse_nil, List.nil_append, Option.toList_none] at hat1
        rw [← hat1]; simp [toList_reverse_opt]
      rw [hrev, List.any_reverse, List.any_map]
      rw [List.contains_eq_any_beq, List.any_map] at hdup
      simpa [Function.comp_def, embAttr, BEq.comm] using hdup
    have h4 := arun_attr_dup cfg toks' a g c0 rest' hname ha hg2 hg3 (c0 :: (g.g1.reverse ++ l1.buf)) (pend1.toList ++ l1.attrs) l1.tagName l1.comment l1.cdata av' hany fin hfin
    have e : printL ts ls ++ '<' :: (name ++ printAttrs attrs gs ++ printAttr a g ++ fin ++ ['>'] ++ rest) =
        (printL ts ls ++ ['<']) ++ (name ++ (printAttrs attrs gs ++ ((g.g1 ++ [c0]) ++ ((rest' ++ (printValue a.value g ++ (fin ++ ['>']))) ++ rest)))) := by
      simp [printAttr, hname]
    rw [e]
    refine ascan_err_of h0 ?_
    rw [tag0, arun_append_ok h1, arun_append_ok h2, arun_append_ok h3]
    exact arun_append_err h4 rest


theorem astep_comment_end_bad (cfg : Cfg) (toks : List ATok) (buf : List Char) (as : List AAttr) (tn cm cd an av : List Char) (c : Char)
    (body : List Char) (h : cm.reverse ++ [c] = body ++ ['-','-','>'])
    (hbad : contains ['<','!','-','-'] body = true ∨ contains ['-','-','!','>'] body = true ∨
      (['<','!','-'] : List Char).isSuffixOf body = true) :
    astep cfg ⟨.tag ⟨.comment, buf, as, tn, cm, cd, an, av⟩, toks⟩ c = .error .comment := by
  unfold contains at hbad
  by_cases h1 : (['>'] : List Char).isPrefixOf body = true
  · astep_simp
  · by_cases h2 : (['-','>'] : List Char).isPrefixOf body = true
    · astep_simp
    · rcases hbad with hb | hb | hb <;> astep_simp

theorem arun_comment_body_bad (cfg : Cfg) (toks : List ATok) (body r buf : List Char) (as : List AAttr) (tn cm cd an av : List Char)
    (hr : r ≠ []) (hfull : cm.reverse ++ r = body ++ ['-','-','>'])
    (hno : ∀ u v, u ++ v = r → v ≠ [] → u ≠ [] → ¬ ['-','-','>'] <:+ (cm.reverse ++ u))
    (hp1 : ∀ u v, u ++ v = r → u ≠ [] → ¬ ['>'] <+: (cm.reverse ++ u))
    (hp2 : ∀ u v, u ++ v = r → u ≠ [] → ¬ ['-','>'] <+: (cm.reverse ++ u))
    (hbad : contains ['<','!','-','-'] body = true ∨ contains ['-','-','!','>'] body = true ∨
      (['<','!','-'] : List Char).isSuffixOf body = true) :
    arun cfg ⟨.tag ⟨.comment, buf, as, tn, cm, cd, an, av⟩, toks⟩ r = .error .comment := by
  induction r generalizing buf cm with
  | nil => exact (hr rfl).elim
  | cons c r ih =>
    cases r with
    | nil => exact arun_cons_err (astep_comment_end_bad cfg toks buf as tn cm cd an av c body hfull hbad) []
    | cons c' r' =>
      have hn := hno [c] (c' :: r') rfl (by simp) (by simp)
      have hq1 := hp1 [c] (c' :: r') rfl (by simp)
      have hq2 := hp2 [c] (c' :: r') rfl (by simp)
      rw [arun_cons_ok (astep_comment_ch cfg toks buf as tn cm cd an av c (suf_false hn) (pre_false hq1) (pre_false hq2))]
      apply ih (c :: buf) (c :: cm) (by simp)
      · simpa using hfull
      · intro u v huv hv hu
        have := hno (c :: u) v (by simp [huv]) hv (by simp)
        simpa using this
      · intro u v huv hu
        have := hp1 (c :: u) v (by simp [huv]) (by simp)
        simpa using this
      · intro u v huv hu
        have := hp2 (c :: u) v (by simp [huv]) (by simp)
        simpa using this

/-- a comment whose text contains `<!--` or `--!>` or ends with `<!-` is rejected at its closing `-->` -/
theorem ascan_malformed_comment_body (cfg : Cfg) (ts : List Tok) (ls : List Lay) (hwf : wfSeq cfg .normal ts = true)
    (hls : laysOK ls = true) (hend : ordinaryEnd cfg ts = true) (b rest : List Char)
    (h1 : (['>'] : List Char).isPrefixOf b = false) (h2 : (['-','>'] : List Char).isPrefixOf b = false)
    (h4 : contains ['-','-','>'] b = false)
    (hbad : contains ['<','!','-','-'] b = true ∨ contains ['-','-','!','>'] b = true ∨
      (['<','!','-'] : List Char).isSuffixOf b = true) :
    ascan cfg (printL ts ls ++ (['<','!','-','-'] ++ b ++ ['-','-','>'] ++ rest)) = .error .comment := by
  obtain ⟨toks', h0⟩ := arun_prefix_lt cfg ts ls hwf hls hend
  have hf1 : ¬ ['>'] <+: b ++ ['-','-','>'] := by
    have := pre_false' h1
    cases b with
    | nil => simp
    | cons x b => simpa using this
  have hf2 : ¬ ['-','>'] <+: b ++ ['-','-','>'] := by
    have := pre_false' h2
    rcases b with _ | ⟨x, _ | ⟨y, b⟩⟩
    · simp
    · simp
    · simpa using this
  have e : printL ts ls ++ (['<','!','-','-'] ++ b ++ ['-','-','>'] ++ rest) =
      (printL ts ls ++ ['<']) ++ (['!','-','-'] ++ ((b ++ ['-','-','>']) ++ rest)) := by simp
  rw [e]
  refine ascan_err_of h0 ?_
  rw [tag0, arun_append_ok (arun_comment_open cfg toks')]
  refine arun_append_err (arun_comment_body_bad cfg toks' b (b ++ ['-','-','>']) _ [] _ [] [] [] [] (by simp) (by simp) ?_ ?_ ?_ hbad) rest
  · intro u v huv hv hu
    simpa using no_early_end '-' '-' '>' (by decide) (by decide) b u v h4 huv hv
  · intro u v huv hu hp
    simp only [List.reverse_nil, List.nil_append] at hp
    exact hf1 (huv ▸ hp.trans (List.prefix_append u v))
  · intro u v huv hu hp
    simp only [List.reverse_nil, List.nil_append] at hp
    exact hf2 (huv ▸ hp.trans (List.prefix_append u v))


end RT
end HS
