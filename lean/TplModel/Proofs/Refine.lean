import TplModel.Proofs.RenderMono
namespace R

mutual
def ids : Node → List NodeId
  | .text _ => []
  | .elem i kids => i.id :: idsL kids
def idsL : List Node → List NodeId
  | [] => []
  | k :: ks => ids k ++ idsL ks
end

mutual
def Uniq : Node → Prop
  | .text _ => True
  | .elem i kids => i.id ∉ idsL kids ∧ UniqL kids
def UniqL : List Node → Prop
  | [] => True
  | k :: ks => Uniq k ∧ UniqL ks
end

def ClearOn (fl : Fl) (S : List NodeId) : Prop := ∀ j ∈ S, fl.cond j = false ∧ fl.range j = false

def forget : Res (String × Fl × NC) → Res (String × NC)
  | .ok (o, _, nc) => .ok (o, nc)
  | .err c => .err c
  | .fuel => .fuel

def KeepsFl (fl : Fl) : Res (String × Fl × NC) → Prop
  | .ok (_, fl', _) => fl' = fl
  | _ => True

theorem Fl.ext' {a b : Fl} (h1 : a.cond = b.cond) (h2 : a.range = b.range) : a = b := by
  cases a; cases b; simp_all

theorem setCond_cancel (fl : Fl) (i : NodeId) (h : fl.cond i = false) :
    (fl.setCond i true).setCond i false = fl := by
  apply Fl.ext'
  · funext j; by_cases hj : j = i <;> simp [Fl.setCond, hj, h]
  · simp [Fl.setCond]

theorem setRange_cancel (fl : Fl) (i : NodeId) (h : fl.range i = false) :
    (fl.setRange i true).setRange i false = fl := by
  apply Fl.ext'
  · simp [Fl.setRange]
  · funext j; by_cases hj : j = i <;> simp [Fl.setRange, hj, h]

theorem clearOn_setCond {fl : Fl} {S : List NodeId} {i : NodeId} (b : Bool) (h : ClearOn fl S) (hi : i ∉ S) :
    ClearOn (fl.setCond i b) S := by
  intro j hj
  have hne : j ≠ i := fun e => hi (e ▸ hj)
  simp [Fl.setCond, hne, h j hj]

theorem clearOn_setRange {fl : Fl} {S : List NodeId} {i : NodeId} (b : Bool) (h : ClearOn fl S) (hi : i ∉ S) :
    ClearOn (fl.setRange i b) S := by
  intro j hj
  have hne : j ≠ i := fun e => hi (e ▸ hj)
  simp [Fl.setRange, hne, h j hj]

/-- what the faithful exec of an element refines, depending on the flags of that element -/
def Spec (env : Env) (fl : Fl) (nc : NC) (prev : Option NodeId) (i : Info) (kids : List Node) (sc : Scope)
    (r : Res (String × NC)) : Prop :=
  if fl.range i.id then ∃ g, refBody env g nc i kids sc = r
  else if fl.cond i.id then ∃ g, refRange env g nc i kids sc = r
  else ∃ g, refNode env g nc prev (.elem i kids) sc = r

def ModeOK (fl : Fl) (i : Info) : Prop :=
  (fl.cond i.id = true → i.cond.isSome) ∧ (fl.range i.id = true → i.range.isSome ∧ (i.cond.isSome → fl.cond i.id = true))

def RefinesAt (env : Env) (f : Nat) : Prop :=
  (∀ fl nc prev i kids sc, Uniq (.elem i kids) → ClearOn fl (idsL kids) → ModeOK fl i →
      exec env f fl nc prev (.elem i kids) sc ≠ .fuel →
      Spec env fl nc prev i kids sc (forget (exec env f fl nc prev (.elem i kids) sc)) ∧
      KeepsFl fl (exec env f fl nc prev (.elem i kids) sc)) ∧
  (∀ fl nc prev i kids x sc vs, Uniq (.elem i kids) → ClearOn fl (idsL kids) → ModeOK fl i → fl.range i.id = true →
      execItems env f fl nc prev (.elem i kids) x sc vs ≠ .fuel →
      (∃ g, refItems env g nc i kids x sc vs = forget (execItems env f fl nc prev (.elem i kids) x sc vs)) ∧
      KeepsFl fl (execItems env f fl nc prev (.elem i kids) x sc vs)) ∧
  (∀ fl nc prev ks sc, UniqL ks → ClearOn fl (idsL ks) →
      execKids env f fl nc prev ks sc ≠ .fuel →
      (∃ g, refKids env g nc prev ks sc = forget (execKids env f fl nc prev ks sc)) ∧
      KeepsFl fl (execKids env f fl nc prev ks sc))

end R

namespace R

theorem liftN (env : Env) {g nc prev n sc r} (g' : Nat) (h : refNode env g nc prev n sc = r) (hr : r ≠ .fuel) (hg : g ≤ g') :
    refNode env g' nc prev n sc = r := by
  rw [← h]; exact (mono env g).1 g' nc prev n sc hg (by rw [h]; exact hr)
theorem liftK (env : Env) {g nc prev ks sc r} (g' : Nat) (h : refKids env g nc prev ks sc = r) (hr : r ≠ .fuel) (hg : g ≤ g') :
    refKids env g' nc prev ks sc = r := by
  rw [← h]; exact (mono env g).2.2.2.2 g' nc prev ks sc hg (by rw [h]; exact hr)
theorem liftB (env : Env) {g nc i kids sc r} (g' : Nat) (h : refBody env g nc i kids sc = r) (hr : r ≠ .fuel) (hg : g ≤ g') :
    refBody env g' nc i kids sc = r := by
  rw [← h]; exact (mono env g).2.2.2.1 g' nc i kids sc hg (by rw [h]; exact hr)
theorem liftI (env : Env) {g nc i kids x sc vs r} (g' : Nat) (h : refItems env g nc i kids x sc vs = r) (hr : r ≠ .fuel) (hg : g ≤ g') :
    refItems env g' nc i kids x sc vs = r := by
  rw [← h]; exact (mono env g).2.2.1 g' nc i kids x sc vs hg (by rw [h]; exact hr)

theorem clearOn_app_left {fl : Fl} {A B : List NodeId} (h : ClearOn fl (A ++ B)) : ClearOn fl A :=
  fun j hj => h j (List.mem_append_left _ hj)
theorem clearOn_app_right {fl : Fl} {A B : List NodeId} (h : ClearOn fl (A ++ B)) : ClearOn fl B :=
  fun j hj => h j (List.mem_append_right _ hj)

theorem refines_kids (env : Env) (f : Nat) (ih : RefinesAt env f) :
    ∀ fl nc prev ks sc, UniqL ks → ClearOn fl (idsL ks) →
      execKids env (f+1) fl nc prev ks sc ≠ .fuel →
      (∃ g, refKids env g nc prev ks sc = forget (execKids env (f+1) fl nc prev ks sc)) ∧
      KeepsFl fl (execKids env (f+1) fl nc prev ks sc) := by
  obtain ⟨ihA, _, ihC⟩ := ih
  intro fl nc prev ks sc hu hc hne
  cases ks with
  | nil => exact ⟨⟨1, by simp [refKids, execKids, forget]⟩, by simp [execKids, KeepsFl]⟩
  | cons k ks =>
    simp only [UniqL] at hu
    simp only [idsL] at hc
    simp only [execKids] at hne ⊢
    -- first child
    have hk : exec env f fl nc prev k sc ≠ .fuel →
        (∃ g, refNode env g nc prev k sc = forget (exec env f fl nc prev k sc)) ∧ KeepsFl fl (exec env f fl nc prev k sc) := by
      intro hne1
      cases k with
      | text s =>
        cases f with
        | zero => simp [exec] at hne1
        | succ f => exact ⟨⟨1, by simp [refNode, exec, forget]⟩, by simp [exec, KeepsFl]⟩
      | elem i kids =>
        have hcl : ClearOn fl (ids (.elem i kids)) := clearOn_app_left hc
        simp only [ids] at hcl
        have hi := hcl i.id (by simp)
        have := ihA fl nc prev i kids sc hu.1 (fun j hj => hcl j (by simp [hj])) (by simp [ModeOK, hi]) hne1
        simpa [Spec, hi] using this
    cases h1 : exec env f fl nc prev k sc with
    | fuel => simp [h1] at hne
    | err c =>
      obtain ⟨⟨g, hg⟩, _⟩ := hk (by simp [h1])
      refine ⟨⟨g+1, ?_⟩, by simp [KeepsFl]⟩
      simp [refKids, hg, h1, forget]
    | ok r =>
      obtain ⟨o1, fl1, nc1⟩ := r
      obtain ⟨⟨g, hg⟩, hkeep⟩ := hk (by simp [h1])
      simp only [h1, KeepsFl] at hkeep
      subst hkeep
      simp only [h1] at hne ⊢
      have hne2 : execKids env f fl1 nc1 (nextPrev k prev) ks sc ≠ .fuel := by
        intro h; simp [h] at hne
      obtain ⟨⟨g2, hg2⟩, hkeep2⟩ := ihC fl1 nc1 (nextPrev k prev) ks sc hu.2 (clearOn_app_right hc) hne2
      simp only [h1, forget] at hg
      cases h2 : execKids env f fl1 nc1 (nextPrev k prev) ks sc with
      | fuel => exact absurd h2 hne2
      | err c =>
        simp only [h2, forget] at hg2
        refine ⟨⟨max g g2 + 1, ?_⟩, by simp [KeepsFl]⟩
        simp [refKids, forget, liftN env (max g g2) hg (by simp) (by omega), liftK env (max g g2) hg2 (by simp) (by omega)]
      | ok r2 =>
        obtain ⟨o2, fl2, nc2⟩ := r2
        simp only [h2, forget, KeepsFl] at hg2 hkeep2
        refine ⟨⟨max g g2 + 1, ?_⟩, by simpa [KeepsFl] using hkeep2⟩
        simp [refKids, forget, liftN env (max g g2) hg (by simp) (by omega), liftK env (max g g2) hg2 (by simp) (by omega)]

end R

namespace R

theorem liftR (env : Env) {g nc i kids sc r} (g' : Nat) (h : refRange env g nc i kids sc = r) (hr : r ≠ .fuel) (hg : g ≤ g') :
    refRange env g' nc i kids sc = r := by
  rw [← h]; exact (mono env g).2.1 g' nc i kids sc hg (by rw [h]; exact hr)

/-- a callee refines `spec` : finishes ⇒ some fuel of the spec gives the forgotten result, flags kept -/
def Ref1 (run : R3) (fl : Fl) (spec : Nat → Res (String × NC)) : Prop :=
  run ≠ .fuel → (∃ g, spec g = forget run) ∧ KeepsFl fl run

theorem body_phase (env : Env) (i : Info) (kids : List Node) (fl : Fl) (nc : NC) (sc : Scope) (run : R3)
    (h : Ref1 run fl (fun g => refKids env g nc none kids sc)) :
    Ref1 (wrapBody i run) fl (fun g => refBody env g nc i kids sc) := by
  intro hne
  cases hr : run with
  | fuel => simp [hr, wrapBody] at hne
  | err c =>
    obtain ⟨⟨g, hg⟩, _⟩ := h (by simp [hr])
    exact ⟨⟨g+1, by simp [refBody, hg, hr, forget, wrapBody]⟩, by simp [wrapBody, KeepsFl]⟩
  | ok r =>
    obtain ⟨o, fl', nc'⟩ := r
    obtain ⟨⟨g, hg⟩, hk⟩ := h (by simp [hr])
    exact ⟨⟨g+1, by simp [refBody, hg, hr, forget, wrapBody]⟩, by simpa [wrapBody, KeepsFl, hr] using hk⟩

theorem range_phase (env : Env) (items : Fl → NC → String → Scope → List Val → R3) (kidsF : Fl → NC → Scope → R3)
    (fl : Fl) (nc : NC) (i : Info) (kids : List Node) (sc : Scope)
    (hfr : fl.range i.id = false)
    (hK : Ref1 (kidsF fl nc sc) fl (fun g => refKids env g nc none kids sc))
    (hI : ∀ x c xs, i.range = some (x, c) → Ref1 (items (fl.setRange i.id true) nc x sc xs) (fl.setRange i.id true)
            (fun g => refItems env g nc i kids x sc xs)) :
    Ref1 (rangePhase env items kidsF fl nc i sc) fl (fun g => refRange env g nc i kids sc) := by
  intro hne
  unfold rangePhase at hne ⊢
  cases hr : i.range with
  | none =>
    simp only [hr] at hne ⊢
    obtain ⟨⟨g, hg⟩, hk⟩ := body_phase env i kids fl nc sc _ hK hne
    exact ⟨⟨g+1, by simp [refRange, hr, hg]⟩, hk⟩
  | some xc =>
    obtain ⟨x, c⟩ := xc
    simp only [hr, hfr] at hne ⊢
    cases hl : env.evalL c sc with
    | fuel => simp [hl] at hne
    | err e => exact ⟨⟨1, by simp [refRange, hr, hl, forget]⟩, by simp [KeepsFl]⟩
    | ok xs =>
      simp only [hl] at hne ⊢
      cases hrun : items (fl.setRange i.id true) nc x sc xs with
      | fuel => simp [hrun, unsetRange] at hne
      | err e =>
        obtain ⟨⟨g, hg⟩, _⟩ := hI x c xs hr (by simp [hrun])
        exact ⟨⟨g+1, by simp [refRange, hr, hl, hg, hrun, forget, unsetRange]⟩, by simp [unsetRange, KeepsFl]⟩
      | ok r =>
        obtain ⟨o, fl', nc'⟩ := r
        obtain ⟨⟨g, hg⟩, hk⟩ := hI x c xs hr (by simp [hrun])
        simp only [hrun, KeepsFl] at hk
        refine ⟨⟨g+1, by simp [refRange, hr, hl, hg, hrun, forget, unsetRange]⟩, ?_⟩
        simp only [unsetRange, KeepsFl, hk]
        exact setRange_cancel fl i.id hfr

end R

namespace R

/-- Ref1 against a *function* spec that is not fuel-indexed at the top: existential over an inner fuel -/
theorem cond_phase (env : Env) (reexec : Fl → NC → Scope → R3) (rest : Fl → NC → Scope → R3)
    (fl : Fl) (nc : NC) (prev : Option NodeId) (i : Info) (kids : List Node) (sc : Scope)
    (hfc : fl.cond i.id = false)
    (hRe : i.cond.isSome → ∀ nc', Ref1 (reexec (fl.setCond i.id true) nc' sc) (fl.setCond i.id true) (fun g => refRange env g nc' i kids sc))
    (hRest : i.cond = none → Ref1 (rest fl nc sc) fl (fun g => refRange env g nc i kids sc)) :
    Ref1 (condPhase env reexec rest fl nc prev i sc) fl
      (fun g => refCondPhase env (fun nc sc => refRange env g nc i kids sc) nc prev i sc) := by
  intro hne
  unfold condPhase at hne ⊢
  cases hc : i.cond with
  | none =>
    simp only [hc] at hne ⊢
    obtain ⟨⟨g, hg⟩, hk⟩ := hRest hc hne
    exact ⟨⟨g, by simp [refCondPhase, hc, hg]⟩, hk⟩
  | some kc =>
    obtain ⟨k, c⟩ := kc
    simp only [hc, hfc] at hne ⊢
    -- the evaluated branch
    have hEval : unsetCond i (evalCond env reexec (fl.setCond i.id true) nc i c sc) ≠ .fuel →
        (∃ g, refEvalCond env (fun nc sc => refRange env g nc i kids sc) nc i c sc =
            forget (unsetCond i (evalCond env reexec (fl.setCond i.id true) nc i c sc))) ∧
        KeepsFl fl (unsetCond i (evalCond env reexec (fl.setCond i.id true) nc i c sc)) := by
      intro hne'
      unfold evalCond at hne' ⊢
      unfold refEvalCond
      cases hb : env.evalB c sc with
      | fuel => simp [hb, unsetCond] at hne'
      | err e => exact ⟨⟨0, by simp [unsetCond, forget]⟩, by simp [unsetCond, KeepsFl]⟩
      | ok b =>
        cases b with
        | false =>
          refine ⟨⟨0, by simp [unsetCond, forget]⟩, ?_⟩
          simp only [unsetCond, KeepsFl]
          exact setCond_cancel fl i.id hfc
        | true =>
          simp only [hb] at hne' ⊢
          simp only [if_true] at hne' ⊢
          cases hrun : reexec (fl.setCond i.id true) (setNc nc i.id true) sc with
          | fuel => simp [hrun, unsetCond] at hne'
          | err e =>
            obtain ⟨⟨g, hg⟩, _⟩ := hRe (by simp [hc]) (setNc nc i.id true) (by simp [hrun])
            exact ⟨⟨g, by simp [hg, hrun, forget, unsetCond]⟩, by simp [unsetCond, KeepsFl]⟩
          | ok r =>
            obtain ⟨o, fl', nc'⟩ := r
            obtain ⟨⟨g, hg⟩, hk⟩ := hRe (by simp [hc]) (setNc nc i.id true) (by simp [hrun])
            simp only [hrun, KeepsFl] at hk
            refine ⟨⟨g, by simp [hg, hrun, forget, unsetCond]⟩, ?_⟩
            simp only [unsetCond, KeepsFl, hk]
            exact setCond_cancel fl i.id hfc
    cases k with
    | if_ =>
      simp only at hne ⊢
      obtain ⟨⟨g, hg⟩, hk⟩ := hEval hne
      exact ⟨⟨g, by simp [refCondPhase, hc, hg]⟩, hk⟩
    | elif =>
      simp only at hne ⊢
      cases hp : prev.bind nc with
      | none => exact ⟨⟨0, by simp [refCondPhase, hc, hp, unsetCond, forget]⟩, by simp [unsetCond, KeepsFl]⟩
      | some b =>
        cases b with
        | true =>
          refine ⟨⟨0, by simp [refCondPhase, hc, hp, unsetCond, forget]⟩, ?_⟩
          simp only [unsetCond, KeepsFl]
          exact setCond_cancel fl i.id hfc
        | false =>
          simp only [hp] at hne ⊢
          obtain ⟨⟨g, hg⟩, hk⟩ := hEval hne
          exact ⟨⟨g, by simp [refCondPhase, hc, hp, hg]⟩, hk⟩

end R

namespace R

theorem refines_items (env : Env) (f : Nat) (ih : RefinesAt env f) :
    ∀ fl nc prev i kids x sc vs, Uniq (.elem i kids) → ClearOn fl (idsL kids) → ModeOK fl i → fl.range i.id = true →
      execItems env (f+1) fl nc prev (.elem i kids) x sc vs ≠ .fuel →
      (∃ g, refItems env g nc i kids x sc vs = forget (execItems env (f+1) fl nc prev (.elem i kids) x sc vs)) ∧
      KeepsFl fl (execItems env (f+1) fl nc prev (.elem i kids) x sc vs) := by
  obtain ⟨ihA, ihB, _⟩ := ih
  intro fl nc prev i kids x sc vs hu hc hm hr hne
  cases vs with
  | nil => exact ⟨⟨1, by simp [refItems, execItems, forget]⟩, by simp [execItems, KeepsFl]⟩
  | cons v vs =>
    simp only [execItems] at hne ⊢
    have hk : exec env f fl nc prev (.elem i kids) ((x, v) :: sc) ≠ .fuel →
        (∃ g, refBody env g nc i kids ((x, v) :: sc) = forget (exec env f fl nc prev (.elem i kids) ((x, v) :: sc))) ∧
        KeepsFl fl (exec env f fl nc prev (.elem i kids) ((x, v) :: sc)) := by
      intro hne1
      have := ihA fl nc prev i kids ((x, v) :: sc) hu hc hm hne1
      simpa [Spec, hr] using this
    cases h1 : exec env f fl nc prev (.elem i kids) ((x, v) :: sc) with
    | fuel => simp [h1] at hne
    | err c =>
      obtain ⟨⟨g, hg⟩, _⟩ := hk (by simp [h1])
      refine ⟨⟨g+1, ?_⟩, by simp [KeepsFl]⟩
      simp [refItems, hg, h1, forget]
    | ok r =>
      obtain ⟨o1, fl1, nc1⟩ := r
      obtain ⟨⟨g, hg⟩, hkeep⟩ := hk (by simp [h1])
      simp only [h1, KeepsFl] at hkeep
      subst hkeep
      simp only [h1] at hne ⊢
      have hne2 : execItems env f fl1 nc1 prev (.elem i kids) x sc vs ≠ .fuel := by
        intro h; simp [h] at hne
      obtain ⟨⟨g2, hg2⟩, hkeep2⟩ := ihB fl1 nc1 prev i kids x sc vs hu hc hm hr hne2
      simp only [h1, forget] at hg
      cases h2 : execItems env f fl1 nc1 prev (.elem i kids) x sc vs with
      | fuel => exact absurd h2 hne2
      | err c =>
        simp only [h2, forget] at hg2
        refine ⟨⟨max g g2 + 1, ?_⟩, by simp [KeepsFl]⟩
        simp [refItems, forget, liftB env (max g g2) hg (by simp) (by omega), liftI env (max g g2) hg2 (by simp) (by omega)]
      | ok r2 =>
        obtain ⟨o2, fl2, nc2⟩ := r2
        simp only [h2, forget, KeepsFl] at hg2 hkeep2
        refine ⟨⟨max g g2 + 1, ?_⟩, by simpa [KeepsFl] using hkeep2⟩
        simp [refItems, forget, liftB env (max g g2) hg (by simp) (by omega), liftI env (max g g2) hg2 (by simp) (by omega)]

theorem refines_elem (env : Env) (f : Nat) (ih : RefinesAt env f) :
    ∀ fl nc prev i kids sc, Uniq (.elem i kids) → ClearOn fl (idsL kids) → ModeOK fl i →
      exec env (f+1) fl nc prev (.elem i kids) sc ≠ .fuel →
      Spec env fl nc prev i kids sc (forget (exec env (f+1) fl nc prev (.elem i kids) sc)) ∧
      KeepsFl fl (exec env (f+1) fl nc prev (.elem i kids) sc) := by
  obtain ⟨ihA, ihB, ihC⟩ := ih
  intro fl nc prev i kids sc hu hc hm hne
  have hu' := hu
  simp only [Uniq] at hu'
  obtain ⟨hnotin, huk⟩ := hu'
  -- kids phase, for any flags that are clear on the kids
  have hKids : ∀ fl' nc' sc', ClearOn fl' (idsL kids) →
      Ref1 (execKids env f fl' nc' none kids sc') fl' (fun g => refKids env g nc' none kids sc') :=
    fun fl' nc' sc' hcl hne' => ihC fl' nc' none kids sc' huk hcl hne'
  simp only [exec] at hne ⊢
  by_cases hR : fl.range i.id = true
  · -- re-executed by range: only the body is left
    have hw : withPhase env fl i sc = .ok sc := by simp [withPhase, hR]
    simp only [hw] at hne ⊢
    have hcp : ∀ (re rest : Fl → NC → Scope → R3), condPhase env re rest fl nc prev i sc = rest fl nc sc := by
      intro re rest
      unfold condPhase
      cases hcnd : i.cond with
      | none => simp
      | some kc =>
        have : fl.cond i.id = true := (hm.2 hR).2 (by simp [hcnd])
        simp [this]
    rw [hcp] at hne ⊢
    have hrp : ∀ (items : Fl → NC → String → Scope → List Val → R3) (kf : Fl → NC → Scope → R3),
        rangePhase env items kf fl nc i sc = wrapBody i (kf fl nc sc) := by
      intro items kf
      unfold rangePhase
      cases hrg : i.range with
      | none => simp
      | some xc => simp [hR]
    rw [hrp] at hne ⊢
    have := body_phase env i kids fl nc sc _ (hKids fl nc sc hc) hne
    simpa [Spec, hR] using this
  · have hR' : fl.range i.id = false := by simpa using hR
    -- range phase (needed in both remaining modes)
    have hRange : ∀ nc' sc', (i.cond.isSome → fl.cond i.id = true) →
        Ref1 (rangePhase env (fun fl nc x sc xs => execItems env f fl nc prev (.elem i kids) x sc xs)
                (fun fl nc sc => execKids env f fl nc none kids sc) fl nc' i sc') fl
             (fun g => refRange env g nc' i kids sc') := by
      intro nc' sc' hcm
      apply range_phase env _ _ fl nc' i kids sc' hR' (hKids fl nc' sc' hc)
      intro x c xs hrg hne'
      have hrs : i.range.isSome := by simp [hrg]
      exact ihB (fl.setRange i.id true) nc' prev i kids x sc' xs hu
        (clearOn_setRange true hc hnotin)
        ⟨by simpa [Fl.setRange] using hm.1, by intro _; exact ⟨hrs, by simpa [Fl.setRange] using hcm⟩⟩
        (by simp [Fl.setRange]) hne'
    by_cases hC : fl.cond i.id = true
    · -- re-executed by cond: range phase onwards
      have hw : withPhase env fl i sc = .ok sc := by simp [withPhase, hC]
      simp only [hw] at hne ⊢
      have hcp : ∀ (re rest : Fl → NC → Scope → R3), condPhase env re rest fl nc prev i sc = rest fl nc sc := by
        intro re rest
        unfold condPhase
        cases hcnd : i.cond with
        | none => simp
        | some kc => simp [hC]
      rw [hcp] at hne ⊢
      have := hRange nc sc (fun _ => hC) hne
      simpa [Spec, hR', hC] using this
    · have hC' : fl.cond i.id = false := by simpa using hC
      -- fresh
      have hw : withPhase env fl i sc = applyWith env i.withB sc := by simp [withPhase, hC', hR']
      simp only [hw] at hne ⊢
      cases hwr : applyWith env i.withB sc with
      | fuel => simp [hwr] at hne
      | err c =>
        refine ⟨?_, by simp [KeepsFl]⟩
        simp only [Spec, hR', hC']
        exact ⟨1, by simp [refNode, hwr, forget]⟩
      | ok sc1 =>
        simp only [hwr] at hne ⊢
        have hcond := cond_phase env
          (fun fl nc sc => exec env f fl nc prev (.elem i kids) sc)
          (fun fl nc sc => rangePhase env (fun fl nc x sc xs => execItems env f fl nc prev (.elem i kids) x sc xs)
                (fun fl nc sc => execKids env f fl nc none kids sc) fl nc i sc)
          fl nc prev i kids sc1 hC'
          (by
            intro hcs nc' hne'
            have := ihA (fl.setCond i.id true) nc' prev i kids sc1 hu (clearOn_setCond true hc hnotin)
              ⟨fun _ => hcs, by intro h; simp [Fl.setCond, hR'] at h⟩ hne'
            simpa [Spec, Fl.setCond, hR'] using this)
          (by
            intro hcn
            exact hRange nc sc1 (by simp [hcn]))
        obtain ⟨⟨g, hg⟩, hk⟩ := hcond hne
        refine ⟨?_, hk⟩
        simp only [Spec, hR', hC']
        exact ⟨g+1, by simp [refNode, hwr, hg]⟩

end R

namespace R

theorem refines (env : Env) : ∀ f, RefinesAt env f := by
  intro f
  induction f with
  | zero =>
    refine ⟨?_, ?_, ?_⟩ <;> intros <;> simp_all [exec, execItems, execKids]
  | succ f ih =>
    exact ⟨refines_elem env f ih, refines_items env f ih, refines_kids env f ih⟩

/-- Top-level corollary: a finished faithful execution of a whole document with clear flags equals
    the reference renderer's result (output, error class, recorded conditions) and leaves the flags clear. -/
theorem exec_refines_ref (env : Env) (f : Nat) (fl : Fl) (nc : NC) (ks : List Node) (sc : Scope)
    (hu : UniqL ks) (hc : ClearOn fl (idsL ks)) (hne : execKids env f fl nc none ks sc ≠ .fuel) :
    (∃ g, refKids env g nc none ks sc = forget (execKids env f fl nc none ks sc)) ∧
    KeepsFl fl (execKids env f fl nc none ks sc) :=
  (refines env f).2.2 fl nc none ks sc hu hc hne

end R
