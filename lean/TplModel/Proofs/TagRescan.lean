import TplModel.Proofs.TagReprint
import TplModel.Proofs.ScanRoundTrip
/-! # Scanning the re-printed form of a tag gives the same tag

Simulation of the tag sub-machine on the source text of a tag (machine 1) by the tag sub-machine on the SQUEEZED text
(machine 2): after every character of the source, machine 2 — having read what `squeeze` has written so far — is in a
state that carries the same tag name and the same attributes (names and values); it may lag behind by one blank
(`Sim`).  Consequence (`tag_rescan_squeeze`): for every tag token `t` of a successful scan that is not the closing tag of a
raw-text element, scanning `squeeze t.value` (= the re-printed tag) succeeds and yields exactly one tag token with the
same name and the same attribute names and values.  The closing tag of a raw-text element is re-printed as `</w>`
(`w` without blanks and `>`), which the ordinary tag machine reads as one tag named `/w` (`scan_close_alone`, from the
C17 round trip).  Together (`tag_rescan`): for EVERY tag token, scanning the re-printed tag alone gives the same tag.
Core-only. -/
namespace HS
set_option linter.unusedSimpArgs false

/-- name and value of an attribute (positions dropped) -/
def akey (a : Attr) : List Char × Option (List Char) := (a.name, a.value)

/-- same attribute names and values, in the same order -/
def AEq (as bs : List Attr) : Prop := as.map akey = bs.map akey

theorem AEq.refl (as : List Attr) : AEq as as := rfl
theorem AEq.symm {as bs : List Attr} (h : AEq as bs) : AEq bs as := Eq.symm h
theorem AEq.cons {a b : Attr} {as bs : List Attr} (h1 : a.name = b.name) (h2 : a.value = b.value) (h : AEq as bs) :
    AEq (a :: as) (b :: bs) := by
  simp only [AEq, List.map_cons, akey, h1, h2, List.cons.injEq, true_and]; exact h
theorem AEq.snoc {a b : Attr} {as bs : List Attr} (h : AEq as bs) (h1 : a.name = b.name) (h2 : a.value = b.value) :
    AEq (as ++ [a]) (bs ++ [b]) := by
  simp only [AEq, List.map_append, List.map_cons, List.map_nil, akey, h1, h2]; rw [h]
theorem AEq.reverse {as bs : List Attr} (h : AEq as bs) : AEq as.reverse bs.reverse := by
  simp only [AEq, List.map_reverse]; rw [h]

theorem AEq.any_name {as bs : List Attr} (h : AEq as bs) (n : List Char) :
    as.any (fun b => b.name == n) = bs.any (fun b => b.name == n) := by
  have e : ∀ xs : List Attr, xs.any (fun b => b.name == n) = (xs.map akey).any (fun k => k.1 == n) := by
    intro xs; rw [List.any_map]; rfl
  rw [e as, e bs, h]

theorem AEq.print_eq {as bs : List Attr} (h : AEq as bs) : attrsPrint as = attrsPrint bs := by
  have e : ∀ xs : List Attr, attrsPrint xs =
      ((xs.map akey).map (fun k => ' ' :: k.1 ++ (match k.2 with | some v => '=' :: v | none => []))).flatten := by
    intro xs; simp only [HS.attrsPrint, List.map_map]; rfl
  rw [e as, e bs, h]

/-- same tag name, same attribute names and values -/
def TagEq (t t' : Token) : Prop :=
  ∃ tg tg', t.tag = some tg ∧ t'.tag = some tg' ∧ tg'.name = tg.name ∧ AEq tg'.attrs tg.attrs

theorem TagEq.print_eq {t t' : Token} (h : TagEq t t') :
    ∃ tg tg', t.tag = some tg ∧ t'.tag = some tg' ∧ tagPrint tg' = tagPrint tg := by
  obtain ⟨tg, tg', h1, h2, h3, h4⟩ := h
  exact ⟨tg, tg', h1, h2, by simp [HS.tagPrint, h3, h4.print_eq]⟩

/-- the result is a state with property `Q` -/
def OkAnd (r : Except Err S) (Q : S → Prop) : Prop :=
  match r with
  | .ok s => Q s
  | .error _ => False

@[simp] theorem okAnd_ok (s : S) (Q : S → Prop) : OkAnd (.ok s) Q ↔ Q s := Iff.rfl
@[simp] theorem okAnd_error (e : Err) (Q : S → Prop) : OkAnd (.error e) Q ↔ False := Iff.rfl

theorem okAnd_iff (r : Except Err S) (Q : S → Prop) : OkAnd r Q ↔ ∃ s, r = .ok s ∧ Q s := by
  cases r with
  | ok s => simp
  | error e => simp

/-- machine 2 lags behind machine 1 by at most one blank -/
def Sim (l1 l2 : TagL) : Prop :=
  l2.tagName = l1.tagName ∧
  match l1.st with
  | .tagName => l2.st = .tagName ∧ l1.attrs = [] ∧ l2.attrs = []
  | .space =>
      (l2.st = .tagName ∧ l1.attrs = [] ∧ l2.attrs = []) ∨
      (l2.st = .space ∧ AEq l1.attrs l2.attrs) ∨
      (l2.st = .attrValue ∧ ∃ a as ch, l1.attrs = a :: as ∧ AEq as l2.attrs ∧
          as.any (fun b => b.name == a.name) = false ∧
          a.name = (trimOneSpace l2.attrName).reverse ∧ a.value = some l2.attrValue.reverse ∧
          l2.attrValue.getLast? = some ch ∧ isQuote ch = false)
  | .attrName => l2.st = .attrName ∧ AEq l1.attrs l2.attrs ∧
      (l2.attrName = l1.attrName ∨ (l1.attrName = ' ' :: l2.attrName ∧ ∀ r, l2.attrName = ' ' :: r → False))
  | .attrValue => l2.st = .attrValue ∧ AEq l1.attrs l2.attrs ∧
      trimOneSpace l2.attrName = trimOneSpace l1.attrName ∧ l2.attrValue = l1.attrValue
  | _ => True

theorem sigma_attrName_cases (n : List Char) :
    (match n with | ' ' :: _ => Sq.agap | _ => Sq.aname) = Sq.agap ∨
    (match n with | ' ' :: _ => Sq.agap | _ => Sq.aname) = Sq.aname := by
  split <;> simp

theorem sigma_attrName (l : TagL) (hst : l.st = .attrName) :
    ((∃ r, l.attrName = ' ' :: r) ∧ sigma l = .agap) ∨ ((∀ r, l.attrName = ' ' :: r → False) ∧ sigma l = .aname) := by
  unfold sigma
  simp only [hst]
  split
  · rename_i r hr; exact Or.inl ⟨⟨r, hr⟩, rfl⟩
  · rename_i hno; exact Or.inr ⟨fun r hr => hno r hr, rfl⟩

theorem addAttr_nodup' {l l' : TagL} {a : Attr} (h : addAttr l a = .ok l') :
    l.attrs.any (fun b => b.name == a.name) = false := by
  unfold addAttr at h
  split at h
  · cases h
  · rename_i hn; simpa using hn

/-- machine 2: the scanner itself -/
def run2 (cfg : Cfg) (s : S) (cs : List Char) : Except Err S := cs.foldlM (step cfg) s

@[simp] theorem run2_nil (cfg : Cfg) (s : S) : run2 cfg s [] = .ok s := rfl
theorem run2_cons (cfg : Cfg) (s : S) (c : Char) (cs : List Char) :
    run2 cfg s (c :: cs) = (match step cfg s c with | .ok s' => run2 cfg s' cs | .error e => .error e) := by
  simp only [run2, List.foldlM, bind, Except.bind]
  cases step cfg s c <;> rfl
theorem run2_append (cfg : Cfg) (s : S) (cs ds : List Char) :
    run2 cfg s (cs ++ ds) = (match run2 cfg s cs with | .ok s' => run2 cfg s' ds | .error e => .error e) := by
  induction cs generalizing s with
  | nil => rfl
  | cons c cs ih =>
    simp only [List.cons_append, run2_cons]
    cases step cfg s c with
    | ok s' => exact ih s'
    | error e => rfl

theorem step_tag (cfg : Cfg) (s : S) (l : TagL) (c : Char) (hm : s.mode = .tag l) :
    step cfg s c = stepTag s l c s.pos (s.pos.advance c) := by
  unfold step; simp only [hm]

def GTag (cfg : Cfg) (s2 : S) (e : List Char) (l1' : TagL) : Prop :=
  (l1'.st ≠ .comment ∧ l1'.st ≠ .cdata) →
    OkAnd (run2 cfg s2 e) (fun s2' => ∃ l2', s2'.mode = .tag l2' ∧ s2'.toks = s2.toks ∧ Sim l1' l2')

def GFin (cfg : Cfg) (s2 : S) (e : List Char) (lf : TagL) : Prop :=
  OkAnd (run2 cfg s2 e) (fun s2' => ∃ t', s2'.mode = .init ∧ s2'.toks = t' :: s2.toks ∧ t'.kind = .tag ∧
    ∃ tg', t'.tag = some tg' ∧ tg'.name = lf.tagName.reverse ∧ AEq tg'.attrs lf.attrs.reverse)

def G (cfg : Cfg) (s2 : S) (e : List Char) (s1 s1' : S) : Prop :=
  (∀ l1', s1'.mode = .tag l1' → GTag cfg s2 e l1') ∧
  (s1'.mode = .init → ∃ lf q, s1' = finishTag s1 lf q ∧ GFin cfg s2 e lf)

theorem g_endCheck {cfg : Cfg} {s2 : S} {e : List Char} {s1 s1' : S} {l : TagL} {c : Char} {p' : Pos}
    (h : (if c = '>' then Except.ok (finishTag s1 l p') else Except.ok { mode := Mode.tag l, pos := p', toks := s1.toks })
        = (Except.ok s1' : Except Err S))
    (hl : c ≠ '>' → GTag cfg s2 e l) (hf : c = '>' → GFin cfg s2 e l) : G cfg s2 e s1 s1' := by
  split at h <;> (simp only [Except.ok.injEq] at h; subst h)
  · rename_i hc
    exact ⟨by simp [finishTag, S.emit], fun _ => ⟨l, p', rfl, hf hc⟩⟩
  · rename_i hc
    refine ⟨?_, by simp⟩
    intro l' hl'
    simp only [Mode.tag.injEq] at hl'; subst hl'; exact hl hc

theorem g_cont {cfg : Cfg} {s2 : S} {e : List Char} {s1 : S} {l : TagL} {p' : Pos}
    (hl : GTag cfg s2 e l) : G cfg s2 e s1 { mode := .tag l, pos := p', toks := s1.toks } := by
  refine ⟨?_, by simp⟩
  intro l' hl'
  simp only [Mode.tag.injEq] at hl'; subst hl'; exact hl

theorem g_finish {cfg : Cfg} {s2 : S} {e : List Char} {s1 : S} {l : TagL} {p' : Pos}
    (hf : GFin cfg s2 e l) : G cfg s2 e s1 (finishTag s1 l p') :=
  ⟨by simp [finishTag, S.emit], fun _ => ⟨l, p', rfl, hf⟩⟩

theorem addAttr_of_nodup (l : TagL) (a : Attr) (h : ∀ x ∈ l.attrs, ¬ x.name = a.name) :
    addAttr l a = .ok { l with attrs := a :: l.attrs } := by
  unfold addAttr
  rw [if_neg]
  simpa using h

macro "m2_simp" : tactic => `(tactic| simp_all [GTag, GFin, run2_cons, step_tag, stepTag, stepTag.stepAttrName, Sim, finishTag, S.emit, addAttr_of_nodup, sigma, sqStep, AEq.refl])

theorem sim_core (cfg : Cfg) (s1 : S) (l1 : TagL) (c : Char) (p p' : Pos) (s1' : S)
    (h : stepTag s1 l1 c p p' = .ok s1')
    (s2 : S) (l2 : TagL) (hm : s2.mode = .tag l2) (hs : Sim l1 l2)
    (hne : l1.st ≠ .tagStart ∧ l1.st ≠ .comment ∧ l1.st ≠ .cdata) :
    G cfg s2 (sqStep (sigma l1) c).2 s1 s1' := by
  unfold stepTag at h
  simp only at h
  cases hst : l1.st <;> simp only [hst] at h
  case tagStart => simp [hst] at hne
  case comment => simp [hst] at hne
  case cdata => simp [hst] at hne
  case tagName =>
    obtain ⟨hn, h2st, ha1, ha2⟩ : l2.tagName = l1.tagName ∧ l2.st = .tagName ∧ l1.attrs = [] ∧ l2.attrs = [] := by
      simpa [Sim, hst] using hs
    by_cases h1 : c = '>'
    · rw [if_pos h1] at h
      refine g_endCheck h (fun hc => absurd h1 hc) (fun _ => ?_)
      subst h1
      m2_simp
    · rw [if_neg h1] at h
      by_cases h2 : isSpace c = true
      · rw [if_pos h2] at h
        refine g_endCheck h (fun _ => ?_) (fun hc => absurd hc h1)
        m2_simp
      · rw [if_neg h2] at h
        generalize hk1 : "!--".toList = k1 at h
        generalize hk2 : "![CDATA[".toList = k2 at h
        refine g_endCheck h (fun _ => ?_) (fun hc => absurd hc h1)
        split
        · intro hh; simp at hh
        · split
          · intro hh; simp at hh
          · subst hk1 hk2
            m2_simp
  case space =>
    have hs' := hs
    simp only [Sim, hst] at hs'
    have hb : isSpace ' ' = true := by decide
    have hb1 : ¬ (' ' : Char) = '>' := by decide
    by_cases h1 : c = '>'
    · rw [if_pos h1] at h
      refine g_endCheck h (fun hc => absurd h1 hc) (fun _ => ?_)
      subst h1
      obtain ⟨hn, ⟨h2st, ha1, ha2⟩ | ⟨h2st, hae⟩ | ⟨h2st, a, as, ch, ha1, hae, hany, hnm, hvl, hgl, hq⟩⟩ := hs'
      · m2_simp
      · m2_simp
        exact (AEq.symm hae).reverse
      · have hany2 := (hae.any_name a.name).symm.trans hany
        m2_simp
        exact AEq.snoc (AEq.symm hae).reverse hnm.symm hvl.symm
    · rw [if_neg h1] at h
      by_cases h2 : isSpace c = true
      · simp only [h2, Bool.not_true, Bool.false_eq_true, if_false] at h
        refine g_endCheck h (fun _ => ?_) (fun hc => absurd hc h1)
        obtain ⟨hn, ⟨h2st, ha1, ha2⟩ | ⟨h2st, hae⟩ | ⟨h2st, a, as, ch, ha1, hae, hany, hnm, hvl, hgl, hq⟩⟩ := hs'
        · m2_simp
        · m2_simp
        · m2_simp
      · simp only [h2, Bool.not_false, if_true] at h
        unfold stepTag.stepAttrName at h
        simp only at h
        rw [if_neg h2, if_neg h1] at h
        by_cases heq : c = '='
        · rw [if_pos heq] at h
          refine g_endCheck h (fun _ => ?_) (fun hc => absurd hc h1)
          subst heq
          obtain ⟨hn, ⟨h2st, ha1, ha2⟩ | ⟨h2st, hae⟩ | ⟨h2st, a, as, ch, ha1, hae, hany, hnm, hvl, hgl, hq⟩⟩ := hs'
          · m2_simp
          · m2_simp
          · have hany2 := (hae.any_name a.name).symm.trans hany
            have hne2 : l2.attrValue ≠ [] := by intro hh; rw [hh] at hgl; cases hgl
            m2_simp
            exact AEq.cons hnm hvl hae
        · rw [if_neg heq] at h
          refine g_endCheck h (fun _ => ?_) (fun hc => absurd hc h1)
          obtain ⟨hn, ⟨h2st, ha1, ha2⟩ | ⟨h2st, hae⟩ | ⟨h2st, a, as, ch, ha1, hae, hany, hnm, hvl, hgl, hq⟩⟩ := hs'
          · m2_simp
          · m2_simp
          · have hany2 := (hae.any_name a.name).symm.trans hany
            have hne2 : l2.attrValue ≠ [] := by intro hh; rw [hh] at hgl; cases hgl
            m2_simp
            exact AEq.cons hnm hvl hae
  case attrName =>
    have hs' := hs
    simp only [Sim, hst] at hs'
    obtain ⟨hn, h2st, hae, hnm⟩ := hs'
    have hb : isSpace ' ' = true := by decide
    have hb1 : ¬ (' ' : Char) = '>' := by decide
    have hb2 : ¬ (' ' : Char) = '=' := by decide
    unfold stepTag.stepAttrName at h
    simp only at h
    by_cases hsp : isSpace c = true
    · have hc1 := isSpace_ne_gt hsp
      have hc2 := isSpace_ne_eq hsp
      simp only [hsp, if_true] at h
      have hem : (sqStep (sigma l1) c).2 = [] := by
        rcases sigma_attrName l1 hst with ⟨_, hσ⟩ | ⟨_, hσ⟩ <;> rw [hσ] <;> simp [sqStep, hsp, hc1]
      rw [hem]
      refine g_endCheck h (fun _ => ?_) (fun hc => absurd hc hc1)
      split
      · rename_i r hr
        rcases hnm with hnm | ⟨hnm, hno⟩
        · m2_simp
        · m2_simp
      · rename_i hno
        rcases hnm with hnm | ⟨hnm, hno2⟩
        · m2_simp
        · exact absurd hnm (hno _)
    · have hc3 := not_space_ne_blank hsp
      rw [if_neg hsp] at h
      have htrim : trimOneSpace l2.attrName = trimOneSpace l1.attrName := by
        rcases hnm with hnm | ⟨hnm, hno⟩
        · rw [hnm]
        · rw [hnm, trim_blank, trim_nohead _ hno]
      by_cases hgt : c = '>'
      · rw [if_pos hgt] at h
        split at h
        · cases h
        · rename_i l3 hadd
          have hany := addAttr_nodup' hadd
          have := addAttr_ok hadd; subst this
          refine g_endCheck h (fun hc => absurd hgt hc) (fun _ => ?_)
          subst hgt
          have hany2 := (hae.any_name _).symm.trans hany
          have hem : (sqStep (sigma l1) '>').2 = ['>'] := by
            rcases sigma_attrName l1 hst with ⟨_, hσ⟩ | ⟨_, hσ⟩ <;> rw [hσ] <;> rfl
          rw [hem]
          m2_simp
          exact AEq.snoc (AEq.symm hae).reverse rfl rfl
      · rw [if_neg hgt] at h
        by_cases heq : c = '='
        · rw [if_pos heq] at h
          refine g_endCheck h (fun _ => ?_) (fun hc => absurd hc hgt)
          subst heq
          have hem : (sqStep (sigma l1) '=').2 = ['='] := by
            rcases sigma_attrName l1 hst with ⟨_, hσ⟩ | ⟨_, hσ⟩ <;> rw [hσ] <;> rfl
          rw [hem]
          m2_simp
        · rw [if_neg heq] at h
          rcases sigma_attrName l1 hst with ⟨⟨r, hr⟩, hσ⟩ | ⟨hno, hσ⟩
          · -- a new attribute begins: the previous one (valueless) is complete
            have hem : (sqStep (sigma l1) c).2 = [' ', c] := by rw [hσ]; simp [sqStep, hsp, hgt, heq]
            rw [hem]
            simp only [hr] at h
            split at h
            · cases h
            · rename_i l3 hadd
              have hany := addAttr_nodup' hadd
              have := addAttr_ok hadd; subst this
              have hany2 := (hae.any_name _).symm.trans hany
              refine g_endCheck h (fun _ => ?_) (fun hc => absurd hc hgt)
              rcases hnm with hnm | ⟨hnm, hno⟩
              · m2_simp
                exact AEq.cons rfl rfl hae
              · m2_simp
                exact AEq.cons rfl rfl hae
          · have hem : (sqStep (sigma l1) c).2 = [c] := by rw [hσ]; simp [sqStep, hsp, hgt, heq]
            rw [hem]
            have hnm' : l2.attrName = l1.attrName := by
              rcases hnm with hnm | ⟨hnm, _⟩
              · exact hnm
              · exact absurd hnm (hno _)
            split at h
            · rename_i r hr; exact absurd hr (hno r)
            · refine g_endCheck h (fun _ => ?_) (fun hc => absurd hc hgt)
              m2_simp
  case attrValue =>
    have hs' := hs
    simp only [Sim, hst] at hs'
    obtain ⟨hn, h2st, hae, htrim, hval⟩ := hs'
    cases hv : l1.attrValue.getLast? with
    | none =>
      have hnil : l1.attrValue = [] := List.getLast?_eq_none_iff.mp hv
      have hσ : sigma l1 = .eq := by simp [sigma, hst, hv]
      rw [hσ]
      by_cases h1 : c = '>'
      · subst h1
        simp [hnil] at h
        split at h
        · cases h
        · rename_i l3 hadd
          have hany := addAttr_nodup' hadd
          have := addAttr_ok hadd; subst this
          have hany2 := (hae.any_name _).symm.trans hany
          simp only [Except.ok.injEq] at h; subst h
          refine g_finish ?_
          m2_simp
          exact AEq.snoc (AEq.symm hae).reverse rfl rfl
      · simp only [hnil, List.isEmpty_nil, ne_eq, h1, not_false_eq_true, decide_true, Bool.and_true, if_true] at h
        split at h
        · rename_i hsp
          simp only [Except.ok.injEq] at h; subst h
          refine g_cont ?_
          m2_simp
        · rename_i hsp
          simp only [Except.ok.injEq] at h; subst h
          refine g_cont ?_
          by_cases hq : isQuote c = true <;> m2_simp
    | some ch =>
      have hne : l1.attrValue ≠ [] := by intro hh; rw [hh] at hv; cases hv
      have hemp : l1.attrValue.isEmpty = false := by cases hx : l1.attrValue <;> simp_all
      have hgl : (c :: l1.attrValue).getLast? = some ch := by rw [getLast?_cons_ne c _ hne, hv]
      have hv2 : l2.attrValue.getLast? = some ch := by rw [hval, hv]
      have hemp2 : l2.attrValue.isEmpty = false := by rw [hval, hemp]
      by_cases hq : isQuote ch = true
      · have hσ : sigma l1 = .quoted ch := by simp [sigma, hst, hv, hq]
        rw [hσ]
        by_cases hc : ch = c
        · subst hc
          have hgt : ch ≠ '>' := by intro hh; subst hh; revert hq; decide
          simp [hemp, hv, hq] at h
          split at h
          · cases h
          · rename_i l3 hadd
            have hany := addAttr_nodup' hadd
            have := addAttr_ok hadd; subst this
            have hany2 := (hae.any_name _).symm.trans hany
            refine g_endCheck h (fun _ => ?_) (fun hc => absurd hc hgt)
            m2_simp
            exact AEq.cons rfl rfl hae
        · have hc' : ¬ c = ch := fun hh => hc hh.symm
          simp [hemp, hv, hq, hc] at h
          subst h
          refine g_cont ?_
          m2_simp
      · have hq' : isQuote ch = false := by simpa using hq
        have hσ : sigma l1 = .bare := by simp [sigma, hst, hv, hq']
        rw [hσ]
        by_cases hsp : isSpace c = true
        · -- the value ends at a blank: machine 2 has not seen it yet
          have hc1 := isSpace_ne_gt hsp
          simp [hemp, hv, hq, hsp] at h
          split at h
          · cases h
          · rename_i l3 hadd
            have hany := addAttr_nodup' hadd
            have := addAttr_ok hadd; subst this
            refine g_endCheck h (fun _ => ?_) (fun hc => absurd hc hc1)
            intro _
            simp only [sqStep, hc1, hsp, if_false, if_true, run2_nil, okAnd_ok]
            refine ⟨l2, hm, by first | rfl | trivial, hn, ?_⟩
            simp only
            right; right
            exact ⟨h2st, _, _, ch, rfl, hae, by simpa using hany, by simp [htrim], by simp [hval], hv2, hq'⟩
        · by_cases h1 : c = '>'
          · subst h1
            simp [hemp, hv, hq] at h
            split at h
            · cases h
            · rename_i l3 hadd
              have hany := addAttr_nodup' hadd
              have := addAttr_ok hadd; subst this
              have hany2 := (hae.any_name _).symm.trans hany
              simp only [Except.ok.injEq] at h; subst h
              refine g_finish ?_
              m2_simp
              exact AEq.snoc (AEq.symm hae).reverse rfl rfl
          · have hsp' : isSpace c = false := by simpa using hsp
            simp [hemp, hv, hq, hsp', h1] at h
            subst h
            refine g_cont ?_
            m2_simp
theorem stepAttrName_shape (s : S) (l : TagL) (c : Char) (p p' : Pos) (s' : S) (b : List Char) (hb : l.buf = c :: b)
    (hst : l.st = .attrName)
    (h : stepTag.stepAttrName s l c p p' = .ok s') :
    (∀ l', s'.mode = .tag l' → s'.toks = s.toks ∧ l'.buf = c :: b ∧ l'.st ≠ .comment ∧ l'.st ≠ .cdata ∧ l'.st ≠ .tagStart) ∧
    (s'.mode = .init → ∃ t, s'.toks = t :: s.toks ∧ (t.kind = .tag → t.value = (c :: b).reverse)) ∧
    (∀ x, s'.mode ≠ .text x) := by
  unfold stepTag.stepAttrName at h
  simp only at h
  repeat' split at h
  all_goals (try (simp only [Except.ok.injEq, reduceCtorEq] at h))
  all_goals (try subst h)
  all_goals (try (rename_i hadd; have := addAttr_ok hadd; subst this))
  all_goals (simp_all [finishTag, S.emit])

theorem stepTag_shape (s : S) (l : TagL) (c : Char) (p p' : Pos) (s' : S)
    (h : stepTag s l c p p' = .ok s') :
    (∀ l', s'.mode = .tag l' → s'.toks = s.toks ∧ l'.buf = c :: l.buf ∧ l'.st ≠ .tagStart ∧
        ((l.st = .comment ∨ l.st = .cdata) → l'.st = l.st)) ∧
    (s'.mode = .init → ∃ t, s'.toks = t :: s.toks ∧ ((l.st = .comment ∨ l.st = .cdata) → t.kind ≠ .tag) ∧
        (t.kind = .tag → t.value = (c :: l.buf).reverse)) ∧
    (∀ x, s'.mode ≠ .text x) := by
  unfold stepTag at h
  simp only at h
  cases hst : l.st <;> simp only [hst] at h
  case attrName =>
    have := stepAttrName_shape s _ c p p' s' l.buf rfl rfl h
    simp_all
  case space =>
    by_cases h1 : c = '>'
    · simp only [h1, if_true] at h; simp only [Except.ok.injEq] at h; subst h; simp [finishTag, S.emit, h1]
    · by_cases h2 : isSpace c = true
      · simp only [h1, h2, if_false] at h; simp at h; subst h; simp
      · simp only [h1, h2, if_false] at h; simp at h
        have := stepAttrName_shape s _ c p p' s' l.buf rfl rfl h
        simp_all
  case tagStart =>
    repeat' split at h
    all_goals (try (simp only [Except.ok.injEq, reduceCtorEq] at h))
    all_goals (try subst h)
    all_goals (simp_all [finishTag, S.emit])
  case tagName =>
    generalize "!--".toList = k1 at h
    generalize "![CDATA[".toList = k2 at h
    repeat' split at h
    all_goals (try (simp only [Except.ok.injEq, reduceCtorEq] at h))
    all_goals (try subst h)
    all_goals (simp_all [finishTag, S.emit])
    all_goals (repeat' split)
    all_goals simp
  case cdata =>
    repeat' split at h
    all_goals (try (simp only [Except.ok.injEq, reduceCtorEq] at h))
    all_goals (try subst h)
    all_goals (simp_all [finishTag, S.emit])
  case comment =>
    generalize "-->".toList = k1 at h
    generalize "->".toList = k2 at h
    generalize ">".toList = k3 at h
    generalize "<!--".toList = k4 at h
    generalize "--!>".toList = k5 at h
    generalize "<!-".toList = k6 at h
    repeat' split at h
    all_goals (try (simp only [Except.ok.injEq, reduceCtorEq] at h))
    all_goals (try subst h)
    all_goals (simp_all [finishTag, S.emit])
  case attrValue =>
    repeat' split at h
    all_goals (try (simp only [Except.ok.injEq, reduceCtorEq] at h))
    all_goals (try subst h)
    all_goals (try (have hh := addAttr_ok ‹addAttr _ _ = Except.ok _›; subst hh))
    all_goals (simp_all [finishTag, S.emit])

/-- the initial state of the scanner -/
def init2 : S := { mode := .init, pos := ⟨1, 1⟩, toks := [] }

theorem scan_eq_run2 (cfg : Cfg) (cs : List Char) :
    scan cfg cs = (match run2 cfg init2 cs with | .ok s => finish s | .error e => .error e) := by
  unfold scan run2 init2
  simp only [bind, Except.bind]
  cases List.foldlM (step cfg) { mode := Mode.init, pos := ⟨1, 1⟩, toks := [] } cs <;> rfl

/-- scanning the squeezed text of `t` alone yields exactly one tag token, with the name and the attributes of `t` -/
def Rescan (cfg : Cfg) (t : Token) : Prop :=
  ∃ t', scan cfg (squeeze t.value) = .ok [t'] ∧ t'.kind = .tag ∧ TagEq t t'

/-- machine 2 has read the squeezed form of what machine 1 has read, and is in a similar state -/
def SimL (cfg : Cfg) (l : TagL) : Prop :=
  (l.st ≠ .comment ∧ l.st ≠ .cdata) →
    (l.st = .tagStart → l.buf = []) ∧
    (l.st ≠ .tagStart → ∃ s2 l2, run2 cfg init2 (sqFrom .start l.buf.reverse) = .ok s2 ∧ s2.mode = .tag l2 ∧
        s2.toks = [] ∧ Sim l l2)

theorem simL_new (cfg : Cfg) (p : Pos) : SimL cfg (newTagL p) := by
  intro _; simp [newTagL]

theorem stepTag_rescan (cfg : Cfg) (s : S) (l0 : TagL) (c : Char) (p p' : Pos) (s' : S)
    (hK : SqL l0) (hS : SimL cfg l0) (h : stepTag s l0 c p p' = .ok s') :
    (∀ l', s'.mode = .tag l' → SimL cfg l') ∧
    (s'.mode = .init → ∃ t, s'.toks = t :: s.toks ∧ (t.kind = .tag → Rescan cfg t)) := by
  obtain ⟨sh1, sh2, _⟩ := stepTag_shape s l0 c p p' s' h
  by_cases hcc : l0.st = .comment ∨ l0.st = .cdata
  · refine ⟨?_, ?_⟩
    · intro l' hl' hne
      have := (sh1 l' hl').2.2.2 hcc
      rcases hcc with hcc | hcc <;> simp_all
    · intro hi
      obtain ⟨t, ht, hk, _⟩ := sh2 hi
      exact ⟨t, ht, fun hk' => absurd hk' (hk hcc)⟩
  · have hne : l0.st ≠ .comment ∧ l0.st ≠ .cdata := by
      constructor <;> intro hh <;> simp [hh] at hcc
    obtain ⟨hk1, hk2, hk3, hk4, hk5⟩ := hK hne
    obtain ⟨hs1, hs2⟩ := hS hne
    by_cases hts : l0.st = .tagStart
    · have hbuf := hs1 hts
      have htn := hk3 hts
      have hat := hk4 (Or.inl hts)
      unfold stepTag at h
      simp only [hts] at h
      split at h
      · rename_i hc
        subst hc
        have hne' : ¬ ('<' : Char) = '>' := by decide
        simp only [if_neg hne', Except.ok.injEq] at h
        subst h
        refine ⟨?_, by simp⟩
        intro l' hl'
        simp only [Mode.tag.injEq] at hl'; subst hl'
        intro _
        refine ⟨by simp, fun _ => ?_⟩
        simp [hbuf, sqFrom, sqStep, run2_cons, step, init2, rawTagOf, stepTag, newTagL, Sim, htn, hat]
      · cases h
    · obtain ⟨s2, l2, hr, hm, htk, hsim⟩ := hs2 hts
      have hG := sim_core cfg s l0 c p p' s' h s2 l2 hm hsim ⟨hts, hne.1, hne.2⟩
      have hrun : ∀ b, b = c :: l0.buf → run2 cfg init2 (sqFrom .start b.reverse) =
          run2 cfg s2 (sqStep (sigma l0) c).2 := by
        intro b hb
        rw [hb, List.reverse_cons, sqFrom_snoc, run2_append, hr, hk1]
      refine ⟨?_, ?_⟩
      · intro l' hl' hne'
        obtain ⟨_, hb, hnts, _⟩ := sh1 l' hl'
        refine ⟨fun hh => absurd hh hnts, fun _ => ?_⟩
        have := hG.1 l' hl' hne'
        rw [okAnd_iff] at this
        obtain ⟨s2', hr2, l2', hm2, htk2, hsim2⟩ := this
        exact ⟨s2', l2', by rw [hrun _ hb, hr2], hm2, by rw [htk2, htk], hsim2⟩
      · intro hi
        obtain ⟨lf, q, hfin, hgf⟩ := hG.2 hi
        obtain ⟨t, ht, _, hval⟩ := sh2 hi
        refine ⟨t, ht, fun hk => ?_⟩
        have hv := hval hk
        have ht' : t = (⟨.tag, lf.buf.reverse, lf.start, q, some ⟨lf.tagName.reverse, lf.attrs.reverse⟩⟩ : Token) := by
          rw [hfin] at ht
          simp only [finishTag, S.emit, List.cons.injEq] at ht
          exact ht.1.symm
        unfold GFin at hgf
        rw [okAnd_iff] at hgf
        obtain ⟨s2', hr2, t', hm2, htk2, hk2', tg', htg', hnm', hae'⟩ := hgf
        refine ⟨t', ?_, hk2', ⟨_, tg', by rw [ht'], htg', hnm', hae'⟩⟩
        rw [scan_eq_run2, squeeze, hv, hrun _ rfl, hr2]
        simp [finish, hm2, htk2, htk]

/-- in raw-text mode the only tag token ever emitted is the closing tag of the raw-text element -/
theorem stepText_raw_toks (cfg : Cfg) (s : S) (l : TextL) (c : Char) (p p' : Pos) (s' : S)
    (hT : TxL cfg l) (n : List Char) (hraw : l.raw = some n)
    (h : stepText s l c p p' = .ok s') :
    ∀ t ∈ s'.toks, t ∈ s.toks ∨ (t.kind = .tag → RawClose cfg t) := by
  obtain ⟨hrn, hgn, hnb, hgt, hlt⟩ := hT n hraw
  unfold stepText at h
  simp only [hraw] at h
  by_cases hc : c = '>'
  · subst hc
    have hsp : isSpace '>' = false := by decide
    have hne : ¬ ('>' : Char) = '<' := by decide
    simp only [if_neg hne, hsp, Bool.false_eq_true, if_false, if_true] at h
    split at h
    · simp only [Except.ok.injEq] at h; subst h
      intro t ht; exact Or.inl ht
    · rename_i hcl
      split at h
      · rename_i hpre
        split at h
        · cases h
        · simp only [Except.ok.injEq] at h; subst h
          have hrc := rawClose_mk cfg l n hrn hgn hnb hgt hlt (by simpa using hcl) hpre
          intro t ht
          split at ht
          · simp only [S.emit, List.mem_cons] at ht
            rcases ht with rfl | ht
            · exact Or.inr (fun _ => hrc _ _)
            · exact Or.inl ht
          · simp only [S.emit, List.mem_cons] at ht
            rcases ht with rfl | rfl | ht
            · exact Or.inr (fun _ => hrc _ _)
            · exact Or.inr (fun hk => by simp at hk)
            · exact Or.inl ht
      · simp only [Except.ok.injEq] at h; subst h
        intro t ht; exact Or.inl ht
  · simp only [hc, if_false] at h
    repeat' split at h
    all_goals (try (simp only [Except.ok.injEq, reduceCtorEq] at h))
    all_goals (try subst h)
    all_goals (intro t ht; exact Or.inl ht)
/-- what the second invariant says about one emitted token -/
def TokRe (cfg : Cfg) (t : Token) : Prop := t.kind = .tag → Rescan cfg t ∨ RawClose cfg t

def RInv (cfg : Cfg) (s : S) : Prop :=
  SqInv cfg s ∧ (∀ t ∈ s.toks, TokRe cfg t) ∧ (∀ l, s.mode = .tag l → SimL cfg l)

theorem rinv_stepTag (cfg : Cfg) (s : S) (l0 : TagL) (c : Char) (p p' : Pos) (s' : S)
    (htoks : ∀ t ∈ s.toks, TokSq cfg t) (hre : ∀ t ∈ s.toks, TokRe cfg t)
    (hK : SqL l0) (hS : SimL cfg l0) (h : stepTag s l0 c p p' = .ok s') : RInv cfg s' := by
  have h1 := sqInv_of_sqS (stepTag_sq (TokSq cfg) (tokSq_reprinted cfg) (tokSq_notag cfg) s l0 c p p' s' hK htoks h)
  obtain ⟨h2, h3⟩ := stepTag_rescan cfg s l0 c p p' s' hK hS h
  obtain ⟨sh1, sh2, sh3⟩ := stepTag_shape s l0 c p p' s' h
  refine ⟨h1, ?_, h2⟩
  cases hm : s'.mode with
  | init =>
    obtain ⟨t, ht, hr⟩ := h3 hm
    intro t' ht'
    rw [ht] at ht'
    simp only [List.mem_cons] at ht'
    rcases ht' with rfl | ht'
    · exact fun hk => Or.inl (hr hk)
    · exact hre t' ht'
  | text x => exact absurd hm (sh3 x)
  | tag l' =>
    -- no token was emitted
    rw [(sh1 l' hm).1]; exact hre


theorem tokRe_notag (cfg : Cfg) (t : Token) (hk : t.kind ≠ .tag) : TokRe cfg t := fun h => absurd h hk

theorem rinv_stepText (cfg : Cfg) (s : S) (l : TextL) (c : Char) (p p' : Pos) (s' : S)
    (htoks : ∀ t ∈ s.toks, TokSq cfg t) (hre : ∀ t ∈ s.toks, TokRe cfg t) (hT : TxL cfg l)
    (h : stepText s l c p p' = .ok s') : RInv cfg s' := by
  cases hraw : l.raw with
  | none =>
    have h0 := h
    unfold stepText at h
    simp only [hraw] at h
    split at h
    · refine rinv_stepTag cfg _ (newTagL p) c p p' s' ?_ ?_ (sqL_new p) (simL_new cfg p) h
      · intro t ht
        simp only [S.emit, List.mem_cons] at ht
        rcases ht with rfl | ht
        · exact tokSq_notag cfg _ (by simp) rfl
        · exact htoks t ht
      · intro t ht
        simp only [S.emit, List.mem_cons] at ht
        rcases ht with rfl | ht
        · exact tokRe_notag cfg _ (by simp)
        · exact hre t ht
    · have h1 := stepText_sq cfg s l c p p' s' htoks hT h0
      simp only [Except.ok.injEq] at h; subst h
      exact ⟨h1, hre, by simp⟩
  | some n =>
    have h1 := stepText_sq cfg s l c p p' s' htoks hT h
    have h2 := stepText_raw_toks cfg s l c p p' s' hT n hraw h
    refine ⟨h1, ?_, ?_⟩
    · intro t ht
      rcases h2 t ht with h3 | h3
      · exact hre t h3
      · exact fun hk => Or.inr (h3 hk)
    · -- raw-text mode never enters a tag
      intro l' hl'
      exfalso
      unfold stepText at h
      simp only [hraw] at h
      repeat' split at h
      all_goals (try (simp only [Except.ok.injEq, reduceCtorEq] at h))
      all_goals (try subst h)
      all_goals (revert hl'; try split)
      all_goals simp [S.emit]

theorem rinv_step (cfg : Cfg) (s s' : S) (c : Char) (hi : RInv cfg s) (h : step cfg s c = .ok s') : RInv cfg s' := by
  obtain ⟨⟨htoks, htag, htext⟩, hre, hsim⟩ := hi
  unfold step at h
  cases hm : s.mode with
  | init =>
    simp only [hm] at h
    split at h
    · exact rinv_stepTag cfg s _ c _ _ s' htoks hre (sqL_new _) (simL_new cfg _) h
    · refine rinv_stepText cfg s _ c _ _ s' htoks hre ?_ h
      intro n hn
      obtain ⟨h1, h2⟩ := rawTagOf_spec cfg s.toks n htoks hn
      exact ⟨h1, h2, by simp, by simp, by simp⟩
  | text l =>
    simp only [hm] at h
    exact rinv_stepText cfg s l c _ _ s' htoks hre (htext l hm) h
  | tag l =>
    simp only [hm] at h
    exact rinv_stepTag cfg s l c _ _ s' htoks hre (htag l hm) (hsim l hm) h

theorem rinv_fold (cfg : Cfg) (cs : List Char) (s s' : S) (hi : RInv cfg s)
    (h : cs.foldlM (step cfg) s = .ok s') : RInv cfg s' := by
  induction cs generalizing s with
  | nil => simp [List.foldlM, pure, Except.pure] at h; subst h; exact hi
  | cons c cs ih =>
    simp only [List.foldlM, bind, Except.bind] at h
    cases hs : step cfg s c with
    | error e => simp [hs] at h
    | ok s1 =>
      simp only [hs] at h
      exact ih s1 (rinv_step cfg s s1 c hi hs) h

/-- **Scanning the re-printed form of a tag gives the same tag.**  Every tag token `t` of a successful scan is the
    closing tag of a raw-text element, or: scanning `squeeze t.value` on its own succeeds and yields exactly ONE token,
    a tag token with the same tag name and the same attribute names and values in the same order. -/
theorem tag_rescan_squeeze (cfg : Cfg) (cs : List Char) (toks : List Token) (h : scan cfg cs = .ok toks) :
    ∀ t ∈ toks, t.kind = .tag → Rescan cfg t ∨ RawClose cfg t := by
  unfold scan at h
  simp only [bind, Except.bind] at h
  cases hf : cs.foldlM (step cfg) { mode := .init, pos := ⟨1,1⟩, toks := [] } with
  | error e => simp [hf] at h
  | ok s =>
    simp only [hf] at h
    have hinv := rinv_fold cfg cs _ s ⟨⟨by simp, by simp, by simp⟩, by simp, by simp⟩ hf
    unfold finish at h
    cases hm : s.mode with
    | init =>
      simp only [hm, Except.ok.injEq] at h; subst h
      intro t ht; exact hinv.2.1 t (by simpa using ht)
    | text l =>
      simp only [hm, Except.ok.injEq] at h; subst h
      intro t ht
      simp only [S.emit, List.reverse_cons, List.mem_append, List.mem_reverse, List.mem_singleton] at ht
      rcases ht with ht | rfl
      · exact hinv.2.1 t ht
      · exact fun hk => by simp at hk
    | tag l => simp [hm] at h

/-- `</w>` alone (no blank, no `>` in `w`) is scanned by the ordinary tag machine as one tag named `/w` -/
theorem scan_close_alone (cfg : Cfg) (w : List Char) (hw : ∀ c ∈ w, isSpace c = false) (hgt : '>' ∉ w) :
    ∃ t', scan cfg ('<' :: '/' :: w ++ ['>']) = .ok [t'] ∧ t'.kind = .tag ∧ t'.value = '<' :: '/' :: w ++ ['>'] ∧
      t'.tag = some ⟨'/' :: w, []⟩ := by
  have hok : RT.wfSeq cfg .normal [RT.Tok.close w] = true := by
    simp only [RT.wfSeq, RT.tokOK, RT.tagOK, Bool.and_eq_true, Bool.and_true]
    refine ⟨⟨⟨?_, ?_⟩, rfl⟩, rfl⟩
    · simp only [List.all_cons, Bool.and_eq_true]
      refine ⟨by decide, ?_⟩
      rw [List.all_eq_true]
      intro c hc
      exact RT.tagCh_iff.mpr ⟨hw c hc, fun hh => hgt (hh ▸ hc)⟩
    · simp [RT.noSpecialB, RT.lit_cmt, RT.lit_cd, List.isPrefixOf]
  obtain ⟨ts', h1, h2⟩ := RT.scan_of_ascan (RT.ascan_printL cfg [RT.Tok.close w] [] hok rfl)
  have hp : RT.printL [RT.Tok.close w] [] = '<' :: '/' :: w ++ ['>'] := by
    simp [RT.printL, RT.printTok, RT.printTag, RT.printAttrs, RT.Lay.dflt]
  rw [hp] at h1
  have hlen : ts'.length = 1 := by simpa [RT.embL] using congrArg List.length h2
  cases ts' with
  | nil => simp at hlen
  | cons t' rest =>
    cases rest with
    | cons _ _ => simp at hlen
    | nil =>
      simp only [List.map_cons, List.map_nil, RT.embL, List.cons.injEq, and_true] at h2
      have hk : t'.kind = .tag := congrArg RT.ATok.kind h2
      have htg : t'.tag.map RT.forgetTag = some ('/' :: w, []) := congrArg RT.ATok.tag h2
      refine ⟨t', h1, hk, ?_, ?_⟩
      · have := scan_concat cfg _ _ h1
        simpa using this
      · cases htag : t'.tag with
        | none => rw [htag] at htg; cases htg
        | some tg =>
          rw [htag] at htg
          simp only [Option.map_some, RT.forgetTag, Option.some.injEq, Prod.mk.injEq, List.map_eq_nil_iff] at htg
          cases tg
          simp_all

/-- scanning the re-printed form of `t` alone yields exactly one tag token, whose text is the re-printed form and which
    has the name and the attributes of `t` -/
def RescanP (cfg : Cfg) (t : Token) : Prop :=
  ∃ tg t', t.tag = some tg ∧ scan cfg (tagPrint tg) = .ok [t'] ∧ t'.kind = .tag ∧ t'.value = tagPrint tg ∧ TagEq t t'

/-- **Scanning the re-printed form of a tag gives the same tag — for EVERY tag token** of a successful scan (any
    configuration, any source, including the closing tags of raw-text elements in any spelling): scanning `tagPrint tg`
    on its own succeeds and yields exactly ONE token, a tag token whose text is `tagPrint tg`, with the same tag name and
    the same attribute names and values in the same order. -/
theorem tag_rescan (cfg : Cfg) (cs : List Char) (toks : List Token) (h : scan cfg cs = .ok toks) :
    ∀ t ∈ toks, t.kind = .tag → RescanP cfg t := by
  intro t ht hk
  have raw : RawClose cfg t → RescanP cfg t := by
    intro hr
    obtain ⟨w, htag, _, hw, hgt⟩ := rawClose_name hr
    obtain ⟨t', h1, h2, h3, h4⟩ := scan_close_alone cfg w hw hgt
    exact ⟨_, t', htag, by simpa [tagPrint] using h1, h2, by simpa [tagPrint] using h3, ⟨_, _, htag, h4, rfl, rfl⟩⟩
  rcases tag_rescan_squeeze cfg cs toks h t ht hk with ⟨t', hs, hk', heq⟩ | hr
  · obtain ⟨tg, htg, _, hsq | ⟨hr, _⟩⟩ := tag_reprint cfg cs toks h t ht hk
    · refine ⟨tg, t', htg, by rw [hsq]; exact hs, hk', ?_, heq⟩
      have := scan_concat cfg _ _ hs
      rw [hsq]; simpa using this
    · exact raw hr
  · exact raw hr

/-! ## non-vacuity -/

/-- `tag_rescan` on a concrete tag: scanning the squeezed text gives one tag token that prints as the squeezed text -/
example : (match scan ⟨[]⟩ "<a  b = 'x y'c  d=e >".toList with
    | .ok [t] =>
        (match scan ⟨[]⟩ (squeeze t.value), t.tag with
          | .ok [t'], some tg => (match t'.tag with
              | some tg' => tagPrint tg' == tagPrint tg && t'.value == "<a b='x y' c d=e>".toList
              | none => false)
          | _, _ => false)
    | _ => false) = true := by decide +kernel

/-- `tag_rescan` for the closing tag of a raw-text element: `</SCRIPT >` (third token) is re-printed `</SCRIPT>`, and
    scanning that alone gives one tag named `/SCRIPT` -/
example : (match scan ⟨["script".toList]⟩ "<script>x</SCRIPT >".toList with
    | .ok [_, _, t] =>
        (match t.tag with
          | some tg => (match scan ⟨["script".toList]⟩ (tagPrint tg) with
              | .ok [t'] => (match t'.tag with
                  | some tg' => tg'.name == "/SCRIPT".toList && tg.name == "/SCRIPT".toList &&
                      t'.value == "</SCRIPT>".toList
                  | none => false)
              | _ => false)
          | none => false)
    | _ => false) = true := by decide +kernel

end HS
