import TplModel.Exp.Parse
import TplModel.Html.CodeScan
/-! # Lemmas for C10 (expressions, `${…}` blocks and directive values are consumed whole or rejected)

Part A (`EL`): the expression parser only hands back a suffix of its input, never steps over a `.lexerr` token,
and is monotone in its fuel.  Part B (`CS`): the directive-value scanner either fails (output ends with
`errMark`) or produces opening quote, literals / closed `${ … }` blocks, closing quote; the fuel of `CS.scan`
is never exhausted.  Core-only. -/

/-! ## Part A — parser -/
namespace EL

deriving instance DecidableEq for LexRes

def ParseRes.isAccept : ParseRes → Bool | .accept _ => true | _ => false
def ParseRes.isReject : ParseRes → Bool | .reject => true | _ => false

/-- `rest` is what is left of `ts` after a run of tokens none of which is `.lexerr` -/
def Cons (ts rest : List Tok) : Prop := ∃ c, ts = c ++ rest ∧ Tok.lexerr ∉ c

theorem Cons.refl (ts : List Tok) : Cons ts ts := ⟨[], rfl, by simp⟩
theorem Cons.trans {a b c : List Tok} (h1 : Cons a b) (h2 : Cons b c) : Cons a c := by
  obtain ⟨x, rfl, hx⟩ := h1; obtain ⟨y, rfl, hy⟩ := h2
  exact ⟨x ++ y, by simp, by simp [hx, hy]⟩
theorem Cons.cons {t : Tok} {a b : List Tok} (ht : t ≠ .lexerr) (h : Cons a b) : Cons (t :: a) b := by
  obtain ⟨x, rfl, hx⟩ := h
  exact ⟨t :: x, rfl, by simp [hx, Ne.symm ht]⟩
theorem Cons.cons' {t : Tok} {a b c : List Tok} (h1 : Cons a (t :: b)) (ht : t ≠ .lexerr) (h : Cons b c) : Cons a c :=
  h1.trans (h.cons ht)

theorem consumed_all (f : Nat) :
    (∀ p ts e r, expr f p ts = some (e, r) → Cons ts r) ∧
    (∀ p l ts e r, loop f p l ts = some (e, r) → Cons ts r) ∧
    (∀ ts e r, primary f ts = some (e, r) → Cons ts r) ∧
    (∀ l ts e r, suffix f l ts = some (e, r) → Cons ts r) ∧
    (∀ ts acc as b r, args f ts acc = some (as, b, r) → Cons ts r) := by
  induction f with
  | zero => simp [expr, loop, primary, suffix, args]
  | succ f ih =>
    obtain ⟨ihE, ihL, ihP, ihS, ihA⟩ := ih
    refine ⟨?_, ?_, ?_, ?_, ?_⟩
    · intro p ts e r h
      unfold expr at h
      split at h
      · split at h
        · split at h
          · rename_i h1
            exact ((ihE _ _ _ _ h1).trans (ihL _ _ _ _ _ h)).cons (by simp)
          · simp at h
        · split at h
          · rename_i h1
            exact (ihP _ _ _ h1).trans (ihL _ _ _ _ _ h)
          · simp at h
      · split at h
        · rename_i h1
          exact (ihP _ _ _ h1).trans (ihL _ _ _ _ _ h)
        · simp at h
    · intro p l ts e r h
      unfold loop at h
      split at h
      · split at h
        · split at h
          · rename_i h1
            split at h
            · rename_i h2
              have a1 := ihE _ _ _ _ h1
              have a2 := ihE _ _ _ _ h2
              have a3 := ihL _ _ _ _ _ h
              exact ((a1.cons' (by simp) a2).trans a3).cons (by simp)
            · simp at h
          · simp at h
        · simp at h; rw [← h.2]; exact Cons.refl _
      · split at h
        · split at h
          · split at h
            · rename_i h1
              exact ((ihE _ _ _ _ h1).trans (ihL _ _ _ _ _ h)).cons (by simp)
            · simp at h
          · simp at h; rw [← h.2]; exact Cons.refl _
        · simp at h; rw [← h.2]; exact Cons.refl _
      · simp at h; rw [← h.2]; exact Cons.refl _
    · intro ts e r h
      unfold primary at h
      split at h
      any_goals exact (ihS _ _ _ _ h).cons (by simp)
      · split at h
        · rename_i h1
          exact ((ihE _ _ _ _ h1).cons' (by simp) (ihS _ _ _ _ h)).cons (by simp)
        · simp at h
      · simp at h
    · intro l ts e r h
      unfold suffix at h
      split at h
      · exact ((ihS _ _ _ _ h).cons (by simp)).cons (by simp)
      · exact ((ihS _ _ _ _ h).cons (by simp)).cons (by simp)
      · simp at h
      · simp at h
      · rename_i rest
        simp only at h
        split at h
        · simp at h
        · rename_i lo r1 hlo
          have c1 : Cons rest r1 := by
            split at hlo
            · simp at hlo; rw [← hlo.2]; exact Cons.refl _
            · split at hlo
              · rename_i h1; simp at hlo; rw [← hlo.2]; exact ihE _ _ _ _ h1
              · simp at hlo
          split at h
          · split at h
            · exact (c1.cons' (by simp) (ihS _ _ _ _ h)).cons (by simp)
            · simp at h
          · split at h
            · exact (c1.cons' (by simp) ((ihS _ _ _ _ h).cons (by simp))).cons (by simp)
            · split at h
              · rename_i h2
                exact (c1.cons' (by simp) ((ihE _ _ _ _ h2).cons' (by simp) (ihS _ _ _ _ h))).cons (by simp)
              · rename_i h2
                split at h
                · rename_i h3
                  exact (c1.cons' (by simp) ((ihE _ _ _ _ h2).cons' (by simp)
                    ((ihE _ _ _ _ h3).cons' (by simp) (ihS _ _ _ _ h)))).cons (by simp)
                · simp at h
              · simp at h
          · simp at h
      · exact ((ihS _ _ _ _ h).cons (by simp)).cons (by simp)
      · split at h
        · rename_i h1
          exact ((ihA _ _ _ _ _ h1).trans (ihS _ _ _ _ h)).cons (by simp)
        · simp at h
      · simp at h; rw [← h.2]; exact Cons.refl _
    · intro ts acc as b r h
      unfold args at h
      split at h
      · simp at h
      · rename_i h1
        have a1 := ihE _ _ _ _ h1
        simp only at h
        split at h
        · simp at h; rw [← h.2.2]; exact a1.cons' (by simp) (Cons.refl _)
        · simp at h; rw [← h.2.2]; exact a1.cons' (by simp) ((Cons.refl _).cons (by simp))
        · simp at h; rw [← h.2.2]; exact a1.cons' (by simp) (((Cons.refl _).cons (by simp)).cons (by simp))
        · simp at h; rw [← h.2.2]; exact a1.cons' (by simp) ((Cons.refl _).cons (by simp))
        · exact a1.cons' (by simp) (ihA _ _ _ _ _ h)
        · simp at h

theorem expr_consumed {f p : Nat} {ts r : List Tok} {e : E} (h : expr f p ts = some (e, r)) : Cons ts r :=
  (consumed_all f).1 p ts e r h

/-! ### fuel monotonicity -/

local macro "blk2" ihE:ident ihS:ident : tactic => `(tactic| (
  split
  · exact $ihS _ _ _
  · split
    · rename_i h2; rw [$ihE _ _ _ h2]; exact $ihS _ _ _
    · rename_i h2; rw [$ihE _ _ _ h2]; simp only
      split
      · rename_i h3; rw [$ihE _ _ _ h3]; exact $ihS _ _ _
      · simp
    · simp))

theorem mono_step (f : Nat) :
    (∀ p ts x, expr f p ts = some x → expr (f+1) p ts = some x) ∧
    (∀ p l ts x, loop f p l ts = some x → loop (f+1) p l ts = some x) ∧
    (∀ ts x, primary f ts = some x → primary (f+1) ts = some x) ∧
    (∀ l ts x, suffix f l ts = some x → suffix (f+1) l ts = some x) ∧
    (∀ ts acc x, args f ts acc = some x → args (f+1) ts acc = some x) := by
  induction f with
  | zero => simp [expr, loop, primary, suffix, args]
  | succ f ih =>
    obtain ⟨ihE, ihL, ihP, ihS, ihA⟩ := ih
    refine ⟨?_, ?_, ?_, ?_, ?_⟩
    · intro p ts x
      rw [expr.eq_def (f+1+1)]
      simp only
      rw [expr.eq_def (f+1)]
      simp only
      split
      · split
        · split
          · rename_i h1; rw [ihE _ _ _ h1]; exact ihL _ _ _ _
          · simp
        · split
          · rename_i h1; rw [ihP _ _ h1]; exact ihL _ _ _ _
          · simp
      · split
        · rename_i h1; rw [ihP _ _ h1]; exact ihL _ _ _ _
        · simp
    · intro p l ts x
      rw [loop.eq_def (f+1+1)]
      simp only
      rw [loop.eq_def (f+1)]
      simp only
      split
      · split
        · split
          · rename_i h1; rw [ihE _ _ _ h1]; simp only
            split
            · rename_i h2; rw [ihE _ _ _ h2]; exact ihL _ _ _ _
            · simp
          · simp
        · simp
      · split
        · split
          · split
            · rename_i h1; rw [ihE _ _ _ h1]; exact ihL _ _ _ _
            · simp
          · simp
        · simp
      · simp
    · intro ts x
      rw [primary.eq_def (f+1+1)]
      simp only
      rw [primary.eq_def (f+1)]
      simp only
      split
      any_goals exact ihS _ _ _
      · split
        · rename_i h1; rw [ihE _ _ _ h1]; exact ihS _ _ _
        · simp
      · simp
    · intro l ts x
      rw [suffix.eq_def (f+1+1)]
      simp only
      rw [suffix.eq_def (f+1)]
      simp only
      split
      · exact ihS _ _ _
      · exact ihS _ _ _
      · simp
      · simp
      · split
        · simp
        · rename_i heq; revert heq
          split
          · intro heq; cases heq; simp only
            blk2 ihE ihS
          · split
            · rename_i h1; rw [ihE _ _ _ h1]; intro heq; cases heq; simp only
              split
              · exact ihS _ _ _
              · blk2 ihE ihS
              · simp
            · simp
      · exact ihS _ _ _
      · split
        · rename_i h1; rw [ihA _ _ _ h1]; exact ihS _ _ _
        · simp
      · simp
    · intro ts acc x
      rw [args.eq_def (f+1+1)]
      simp only
      rw [args.eq_def (f+1)]
      simp only
      split
      · simp
      · rename_i h1; rw [ihE _ _ _ h1]; simp only
        split
        any_goals simp
        exact ihA _ _ _

theorem expr_mono {f g p : Nat} {ts : List Tok} {x : E × List Tok} (h : expr f p ts = some x) (hfg : f ≤ g) :
    expr g p ts = some x := by
  induction hfg with
  | refl => exact h
  | step _ ih => exact (mono_step _).1 _ _ _ ih

end EL

/-! ## Part B — directive-value scanner -/
namespace CS
open HS (Pos)

deriving instance DecidableEq for CTok

def isQuote (c : Char) : Bool := c = '"' || c = '\''
/-- the runes accounted for by a token list -/
def concat (ts : List CTok) : List Char := ts.flatMap (·.value)
/-- a scan succeeded: it does not end with the error marker -/
def Succ (ts : List CTok) : Prop := ts.getLast? ≠ some errMark
instance (ts : List CTok) : Decidable (Succ ts) := by unfold Succ; infer_instance
/-- a (partial) output that ends with the error marker -/
def IsFail (ts : List CTok) : Prop := ∃ pre, ts = pre ++ [errMark]

theorem IsFail.not_succ {pre ts : List CTok} (h : IsFail ts) : ¬ Succ (pre ++ ts) := by
  obtain ⟨p, rfl⟩ := h
  simp [Succ, ← List.append_assoc]
theorem IsFail.append {ts : List CTok} (pre : List CTok) (h : IsFail ts) : IsFail (pre ++ ts) := by
  obtain ⟨p, rfl⟩ := h
  exact ⟨pre ++ p, by simp⟩
theorem IsFail.last {ts : List CTok} (h : IsFail ts) : ts.getLast? = some errMark := by
  obtain ⟨p, rfl⟩ := h; simp

@[simp] theorem concat_nil : concat [] = [] := rfl
@[simp] theorem concat_cons (t : CTok) (ts : List CTok) : concat (t :: ts) = t.value ++ concat ts := rfl
@[simp] theorem concat_append (a b : List CTok) : concat (a ++ b) = concat a ++ concat b := by
  simp [concat]

/-- what follows the opening quote `q`: literals and closed `${ … }` blocks, then the closing quote `q`
    (and possibly one more quote, see `close2`) -/
inductive Tail (q : Char) : List CTok → Prop
  | close (p1 p2 : Pos) : Tail q [⟨.begEnd, p1, p2, [q]⟩]
  | close2 (p1 p2 p3 p4 : Pos) (q' : Char) : isQuote q' = true →
      Tail q [⟨.begEnd, p1, p2, [q]⟩, ⟨.begEnd, p3, p4, [q']⟩]
  | lit (p1 p2 : Pos) (v : List Char) (rest : List CTok) : v ≠ [] → Tail q rest →
      Tail q (⟨.literal, p1, p2, v⟩ :: rest)
  | block (p1 p2 p3 p4 p5 p6 : Pos) (code : List Char) (rest : List CTok) : Tail q rest →
      Tail q (⟨.codeStart, p1, p2, "${".toList⟩ :: ⟨.codeValue, p3, p4, code⟩ :: ⟨.codeEnd, p5, p6, ['}']⟩ :: rest)

theorem scanString_spec (q : Char) : ∀ (f : Nat) (p : Pos) (cs acc : List Char) (str : List Char) (p' : Pos) (rest : List Char),
    scanString q f p cs acc = some (str, p', rest) → ∃ k, str = acc.reverse ++ k ∧ cs = k ++ rest ∧ k ≠ [] := by
  intro f
  induction f with
  | zero => intro p cs acc str p' rest h; simp [scanString] at h
  | succ f ih =>
    intro p cs acc str p' rest h
    cases cs with
    | nil => simp [scanString] at h
    | cons c cs =>
      simp only [scanString] at h
      split at h
      · split at h
        · simp at h; exact ⟨[c], by simp [← h.1], by simp [h.2.2], by simp⟩
        · obtain ⟨k, h1, h2, _⟩ := ih _ _ _ _ _ _ h
          exact ⟨c :: k, by simp [h1], by simp [h2], by simp⟩
      · split at h
        · split at h
          · simp at h
          · rename_i d rest'
            obtain ⟨k, h1, h2, _⟩ := ih _ _ _ _ _ _ h
            exact ⟨c :: d :: k, by simp [h1], by simp [h2], by simp⟩
        · split at h
          · simp at h; exact ⟨[c], by simp [← h.1], by simp [h.2.2], by simp⟩
          · obtain ⟨k, h1, h2, _⟩ := ih _ _ _ _ _ _ h
            exact ⟨c :: k, by simp [h1], by simp [h2], by simp⟩

theorem scanQuot_closing (f : Nat) (s : S) (cs : List Char) :
    scanQuot (f+1) s true cs =
      match cs with
      | [] => s.toks.reverse
      | c :: _ => if c = '"' || c = '\'' then s.toks.reverse ++ [⟨.begEnd, s.pos, s.pos.advance c, [c]⟩] else s.fail := by
  cases cs with
  | nil => simp [scanQuot]
  | cons c cs => simp only [scanQuot]; split <;> simp [S.emit]
def LitPost (q : Char) (input : List Char) (new : List CTok) : Prop :=
  IsFail new ∨ ∃ rest, Tail q new ∧ input = concat new ++ rest
def CodePost (q : Char) (input : List Char) (new : List CTok) : Prop :=
  IsFail new ∨ ∃ rest p1 p2 p3 p4 code tl,
    new = ⟨.codeValue, p1, p2, code⟩ :: ⟨.codeEnd, p3, p4, ['}']⟩ :: tl ∧ Tail q tl ∧
    input = code ++ '}' :: (concat tl ++ rest)

theorem IsFail.cons {ts : List CTok} (t : CTok) (h : IsFail ts) : IsFail (t :: ts) := h.append [t]

theorem CodePost.block {q input new} (p1 p2 : Pos) (h : CodePost q input new) :
    LitPost q ('$' :: '{' :: input) (⟨.codeStart, p1, p2, "${".toList⟩ :: new) := by
  rcases h with h | ⟨rest, a, b, c, d, code, tl, rfl, ht, rfl⟩
  · exact Or.inl (h.cons _)
  · exact Or.inr ⟨rest, Tail.block _ _ _ _ _ _ _ _ ht, by simp⟩

theorem LitPost.lit {q input new} (p1 p2 : Pos) (v : List Char) (hv : v ≠ []) (h : LitPost q input new) :
    LitPost q (v ++ input) (⟨.literal, p1, p2, v⟩ :: new) := by
  rcases h with h | ⟨rest, ht, rfl⟩
  · exact Or.inl (h.cons _)
  · exact Or.inr ⟨rest, Tail.lit _ _ _ _ hv ht, by simp⟩

theorem LitPost.code {q input new} (p1 p2 p3 p4 : Pos) (code : List Char) (h : LitPost q input new) :
    CodePost q (code ++ '}' :: input) (⟨.codeValue, p1, p2, code⟩ :: ⟨.codeEnd, p3, p4, ['}']⟩ :: new) := by
  rcases h with h | ⟨rest, ht, rfl⟩
  · exact Or.inl ((h.cons _).cons _)
  · exact Or.inr ⟨rest, _, _, _, _, _, _, rfl, ht, rfl⟩

theorem scan_main (f : Nat) :
    (∀ s start buf cs, cs.length + 1 ≤ f →
      ∃ new, scanLiteral f s start buf cs = s.toks.reverse ++ new ∧ LitPost s.firstCh (buf.reverse ++ cs) new) ∧
    (∀ s start buf cs, cs.length + 1 ≤ f →
      ∃ new, scanCode f s start buf cs = s.toks.reverse ++ new ∧ CodePost s.firstCh (buf.reverse ++ cs) new) := by
  induction f with
  | zero => constructor <;> (intros; omega)
  | succ f ih =>
    obtain ⟨ihL, ihC⟩ := ih
    constructor
    · intro s start buf cs hf
      cases cs with
      | nil => exact ⟨[errMark], by simp [scanLiteral, S.fail], Or.inl ⟨[], rfl⟩⟩
      | cons c rest =>
        simp only [List.length_cons] at hf
        simp only [scanLiteral]
        split
        · -- closing quote
          rename_i hq
          simp at hq
          obtain ⟨hq1, hq2⟩ := hq
          cases f with
          | zero => omega
          | succ f' =>
          split
          · rename_i hb
            simp at hb; subst hb
            rw [scanQuot_closing]
            subst hq2
            cases rest with
            | nil =>
              exact ⟨[⟨.begEnd, start, s.pos.advance s.firstCh, [s.firstCh]⟩], by simp [S.emit],
                Or.inr ⟨[], Tail.close _ _, by simp⟩⟩
            | cons c' r =>
              simp only
              split
              · rename_i hc'
                exact ⟨[⟨.begEnd, start, s.pos.advance s.firstCh, [s.firstCh]⟩,
                    ⟨.begEnd, s.pos.advance s.firstCh, (s.pos.advance s.firstCh).advance c', [c']⟩], by simp [S.emit],
                  Or.inr ⟨r, Tail.close2 _ _ _ _ _ hc', by simp⟩⟩
              · exact ⟨[⟨.begEnd, start, s.pos.advance s.firstCh, [s.firstCh]⟩, errMark], by simp [S.emit, S.fail],
                  Or.inl ⟨[_], rfl⟩⟩
          · rename_i hb
            rw [scanQuot_closing]
            have hcq : (decide (c = '"') || decide (c = '\'')) = true := by simpa using hq1
            simp only [hcq, if_true]
            refine ⟨[⟨.literal, start, s.pos, buf.reverse⟩, ⟨.begEnd, s.pos, s.pos.advance c, [c]⟩], by simp [S.emit],
              Or.inr ⟨rest, ?_, by simp⟩⟩
            subst hq2
            exact Tail.lit _ _ _ _ (by simpa using hb) (Tail.close _ _)
        · split
          · -- '$'
            rename_i hd
            split
            · -- "${"
              rename_i rest'
              simp only [List.length_cons] at hf
              split
              · rename_i hb
                simp at hb; subst hb
                obtain ⟨new, h1, h2⟩ := ihC ({ s with pos := (s.pos.advance c).advance '{' }.emit
                  ⟨.codeStart, s.pos, (s.pos.advance c).advance '{', "${".toList⟩) ((s.pos.advance c).advance '{') [] rest' (by omega)
                refine ⟨⟨.codeStart, s.pos, (s.pos.advance c).advance '{', "${".toList⟩ :: new, by rw [h1]; simp [S.emit], ?_⟩
                subst hd
                simpa [S.emit] using h2.block _ _
              · rename_i hb
                obtain ⟨new, h1, h2⟩ := ihC (({ s with pos := (s.pos.advance c).advance '{' }.emit
                  ⟨.literal, start, s.pos, buf.reverse⟩).emit
                  ⟨.codeStart, s.pos, (s.pos.advance c).advance '{', "${".toList⟩) ((s.pos.advance c).advance '{') [] rest' (by omega)
                refine ⟨⟨.literal, start, s.pos, buf.reverse⟩ :: ⟨.codeStart, s.pos, (s.pos.advance c).advance '{', "${".toList⟩ :: new,
                  by rw [h1]; simp [S.emit], ?_⟩
                subst hd
                simpa [S.emit] using (h2.block _ _).lit _ _ buf.reverse (by simpa using hb)
            · obtain ⟨new, h1, h2⟩ := ihL { s with pos := s.pos.advance c } start (c :: buf) rest (by omega)
              exact ⟨new, h1, by simpa using h2⟩
          · obtain ⟨new, h1, h2⟩ := ihL { s with pos := s.pos.advance c } start (c :: buf) rest (by omega)
            exact ⟨new, h1, by simpa using h2⟩
    · intro s start buf cs hf
      cases cs with
      | nil => exact ⟨[errMark], by simp [scanCode, S.fail], Or.inl ⟨[], rfl⟩⟩
      | cons c rest =>
        simp only [List.length_cons] at hf
        simp only [scanCode]
        split
        · obtain ⟨new, h1, h2⟩ := ihC { s with pos := s.pos.advance c, brace := s.brace + 1 } start (c :: buf) rest (by omega)
          exact ⟨new, h1, by simpa using h2⟩
        · split
          · rename_i hc
            split
            · obtain ⟨new, h1, h2⟩ := ihL (({ s with pos := s.pos.advance c }.emit ⟨.codeValue, start, s.pos, buf.reverse⟩).emit
                ⟨.codeEnd, s.pos, s.pos.advance c, ['}']⟩) (s.pos.advance c) [] rest (by omega)
              refine ⟨⟨.codeValue, start, s.pos, buf.reverse⟩ :: ⟨.codeEnd, s.pos, s.pos.advance c, ['}']⟩ :: new,
                by rw [h1]; simp [S.emit], ?_⟩
              subst hc
              simpa [S.emit] using h2.code _ _ _ _ buf.reverse
            · obtain ⟨new, h1, h2⟩ := ihC { s with pos := s.pos.advance c, brace := s.brace - 1 } start (c :: buf) rest (by omega)
              exact ⟨new, h1, by simpa using h2⟩
          · split
            · split
              · rename_i str p2 rest' hs
                obtain ⟨k, hk1, hk2, _⟩ := scanString_spec _ _ _ _ _ _ _ _ hs
                obtain ⟨new, h1, h2⟩ := ihC { s with pos := p2 } start (str.reverse ++ c :: buf) rest'
                  (by rw [hk2] at hf; simp at hf; omega)
                exact ⟨new, h1, by rw [hk2]; simp at hk1; subst hk1; simpa using h2⟩
              · exact ⟨[errMark], by simp [S.fail], Or.inl ⟨[], rfl⟩⟩
            · obtain ⟨new, h1, h2⟩ := ihC { s with pos := s.pos.advance c } start (c :: buf) rest (by omega)
              exact ⟨new, h1, by simpa using h2⟩
theorem fuel_indep (f : Nat) :
    (∀ g s start buf cs, cs.length + 1 ≤ f → cs.length + 1 ≤ g →
      scanLiteral f s start buf cs = scanLiteral g s start buf cs) ∧
    (∀ g s start buf cs, cs.length + 1 ≤ f → cs.length + 1 ≤ g →
      scanCode f s start buf cs = scanCode g s start buf cs) := by
  induction f with
  | zero => constructor <;> (intros; omega)
  | succ f ih =>
    obtain ⟨ihL, ihC⟩ := ih
    constructor
    · intro g s start buf cs hf hg
      cases g with
      | zero => omega
      | succ g =>
      cases cs with
      | nil => simp [scanLiteral]
      | cons c rest =>
        simp only [List.length_cons] at hf hg
        simp only [scanLiteral]
        split
        · cases f with
          | zero => omega
          | succ f =>
          cases g with
          | zero => omega
          | succ g => simp only [scanQuot_closing]
        · split
          · split
            · simp only [List.length_cons] at hf hg
              split <;> exact ihC _ _ _ _ _ (by omega) (by omega)
            · exact ihL _ _ _ _ _ (by omega) (by omega)
          · exact ihL _ _ _ _ _ (by omega) (by omega)
    · intro g s start buf cs hf hg
      cases g with
      | zero => omega
      | succ g =>
      cases cs with
      | nil => simp [scanCode]
      | cons c rest =>
        simp only [List.length_cons] at hf hg
        simp only [scanCode]
        split
        · exact ihC _ _ _ _ _ (by omega) (by omega)
        · split
          · split
            · exact ihL _ _ _ _ _ (by omega) (by omega)
            · exact ihC _ _ _ _ _ (by omega) (by omega)
          · split
            · split
              · rename_i str p2 rest' hs
                obtain ⟨k, hk1, hk2, _⟩ := scanString_spec _ _ _ _ _ _ _ _ hs
                have : rest'.length ≤ rest.length := by rw [hk2]; simp
                exact ihC _ _ _ _ _ (by omega) (by omega)
              · rfl
            · exact ihC _ _ _ _ _ (by omega) (by omega)

theorem scanString_fuel_indep (q : Char) : ∀ (f g : Nat) (p : Pos) (cs acc : List Char),
    cs.length + 1 ≤ f → cs.length + 1 ≤ g → scanString q f p cs acc = scanString q g p cs acc := by
  intro f
  induction f with
  | zero => intros; omega
  | succ f ih =>
    intro g p cs acc hf hg
    cases g with
    | zero => omega
    | succ g =>
    cases cs with
    | nil => simp [scanString]
    | cons c rest =>
      simp only [List.length_cons] at hf hg
      simp only [scanString]
      split
      · split
        · rfl
        · exact ih _ _ _ _ (by omega) (by omega)
      · split
        · split
          · rfl
          · simp only [List.length_cons] at hf hg
            exact ih _ _ _ _ (by omega) (by omega)
        · split
          · rfl
          · exact ih _ _ _ _ (by omega) (by omega)

theorem scanString_no_quote (q : Char) : ∀ (f : Nat) (p : Pos) (cs acc : List Char),
    q ∉ cs → scanString q f p cs acc = none := by
  intro f
  induction f with
  | zero => intros; simp [scanString]
  | succ f ih =>
    intro p cs acc hq
    cases cs with
    | nil => simp [scanString]
    | cons c rest =>
      simp only [List.mem_cons, not_or] at hq
      simp only [scanString]
      split
      · rename_i hb
        subst hb
        rw [if_neg (Ne.symm hq.1)]
        exact ih _ _ _ hq.2
      · split
        · split
          · rfl
          · rename_i d rest'
            simp only [List.mem_cons, not_or] at hq
            exact ih _ _ _ hq.2.2
        · rw [if_neg (Ne.symm hq.1)]
          exact ih _ _ _ hq.2

/-- every `${` token is immediately followed by a code-value and a `}` token -/
def followedByValueEnd : List CTok → Bool
  | a :: b :: _ => a.kind == .codeValue && b.kind == .codeEnd
  | _ => false
def blocksClosed : List CTok → Bool
  | [] => true
  | t :: rest => (t.kind != .codeStart || followedByValueEnd rest) && blocksClosed rest

theorem Tail.blocksClosed {q : Char} {ts : List CTok} (h : Tail q ts) : blocksClosed ts = true := by
  induction h with
  | close => rfl
  | close2 => rfl
  | lit _ _ _ _ _ _ ih => simpa [CS.blocksClosed] using ih
  | block _ _ _ _ _ _ _ _ _ ih => simpa [CS.blocksClosed, followedByValueEnd] using ih

theorem Tail.mem {q : Char} {ts : List CTok} (h : Tail q ts) : q ∈ concat ts := by
  induction h with
  | close => simp
  | close2 => simp
  | lit _ _ _ _ _ _ ih => simp [ih]
  | block _ _ _ _ _ _ _ _ _ ih => simp [ih]

/-- how a successful scan ends -/
theorem Tail.last {q : Char} {ts : List CTok} (h : Tail q ts) :
    (∃ m p1 p2, concat ts = m ++ [q] ∧ ts.getLast? = some ⟨.begEnd, p1, p2, [q]⟩) ∨
    (∃ m q' p1 p2, isQuote q' = true ∧ concat ts = m ++ [q, q'] ∧ ts.getLast? = some ⟨.begEnd, p1, p2, [q']⟩) := by
  induction h with
  | close p1 p2 => exact Or.inl ⟨[], p1, p2, rfl, rfl⟩
  | close2 p1 p2 p3 p4 q' hq' => exact Or.inr ⟨[], q', p3, p4, hq', rfl, rfl⟩
  | lit p1 p2 v rest hv ht ih =>
    have hne : rest ≠ [] := by cases ht <;> simp
    rcases ih with ⟨m, a, b, h1, h2⟩ | ⟨m, q', a, b, hq', h1, h2⟩
    · exact Or.inl ⟨v ++ m, a, b, by simp [h1], by rw [List.getLast?_cons_of_ne_nil hne]; exact h2⟩
    · exact Or.inr ⟨v ++ m, q', a, b, hq', by simp [h1], by rw [List.getLast?_cons_of_ne_nil hne]; exact h2⟩
  | block p1 p2 p3 p4 p5 p6 code rest ht ih =>
    have hne : rest ≠ [] := by cases ht <;> simp
    rcases ih with ⟨m, a, b, h1, h2⟩ | ⟨m, q', a, b, hq', h1, h2⟩
    · exact Or.inl ⟨"${".toList ++ code ++ '}' :: m, a, b, by simp [h1], by simp [List.getLast?_cons_of_ne_nil, hne, h2]⟩
    · exact Or.inr ⟨"${".toList ++ code ++ '}' :: m, q', a, b, hq', by simp [h1], by simp [List.getLast?_cons_of_ne_nil, hne, h2]⟩

/-- the shape of every successful scan -/
theorem scan_shape (start : Pos) (v : List Char) (h : Succ (scan start v)) :
    ∃ q p new rest, isQuote q = true ∧ scan start v = ⟨.begEnd, start, p, [q]⟩ :: new ∧ Tail q new ∧
      v = q :: (concat new ++ rest) := by
  unfold scan at h ⊢
  cases v with
  | nil => exact absurd h (by simp [scanQuot, S.fail, Succ])
  | cons c rest =>
    have e : 3 * (c :: rest).length + 3 = (3 * rest.length + 5) + 1 := by simp; omega
    rw [e] at h ⊢
    simp only [scanQuot] at h ⊢
    split at h
    · rename_i hc
      rw [if_pos hc]
      simp only [Bool.false_eq_true, if_false] at h ⊢
      obtain ⟨new, h1, h2⟩ := (scan_main (3 * rest.length + 5)).1
        ({ pos := start.advance c, firstCh := c, brace := 0, toks := [] : S }.emit ⟨.begEnd, start, start.advance c, [c]⟩)
        (start.advance c) [] rest (by omega)
      rw [h1] at h ⊢
      rcases h2 with h2 | ⟨r, ht, hr⟩
      · exact absurd h h2.not_succ
      · exact ⟨c, start.advance c, new, r, hc, by simp [S.emit], ht, by simpa using hr⟩
    · exact absurd h (by simp [S.fail, Succ])

end CS
