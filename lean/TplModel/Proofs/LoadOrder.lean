import TplModel.Proofs.LoaderProofs
import TplModel.Proofs.RenderRel
/-! # Load-order independence of the manager registry (helper lemmas for `TplModel/Props/C07order.lean`)

1. the evaluation callbacks of `EN.envOf` agree on attributes that are equal up to renumbering of expression-table
   indices (`attrEvaluate_rel`, `withAssign_rel`, `rangeItems_rel`), hence `envOf_rel`;
2. the loader commutes with renumbering (`compileToks_shift`, `assemble_map`, `annotate_map`, `collect_map`), which gives
   an exact description of `addFile` (`addFile_ok_iff`);
3. from that: `addFile` respects `MgrEq`, and two `addFile`s commute up to `MgrEq`. -/
namespace EN
open EV (Val FnSpec)
open RN (CAttr Part NodeD Node NK Cls All2 OptRel TreeRel TreeRelL TplRel PBij DRel TplRel.flip TplRel.comp TplRel.mono)

/-! ## 1. evaluation callbacks -/

/-- `code k` (table `T`) and `code k'` (table `T'`) denote the same compiled expression -/
def CodeRel (T T' : Tbl) (k k' : Nat) : Prop := ∃ e, T[k]? = some e ∧ T'[k']? = some e

/-- the weaker relation that the evaluation callbacks need: both indices read the same expression -/
def CodeEq (T T' : Tbl) (k k' : Nat) : Prop := T[k]! = T'[k']!

theorem CodeRel.codeEq {T T' : Tbl} {k k' : Nat} (h : CodeRel T T' k k') : CodeEq T T' k k' := by
  obtain ⟨e, h1, h2⟩ := h
  simp [CodeEq, getElem!_def, h1, h2]

theorem CodeEq.get! {T T' : Tbl} {k k' : Nat} (h : CodeEq T T' k k') : T[k]! = T'[k']! := h

theorem evalExpr_fns {cx cx' : Ctx} (h : cx.fns = cx'.fns) (sc : List Val) (e : EL.E) : evalExpr cx sc e = evalExpr cx' sc e := by
  unfold evalExpr; rw [h]

def StepRel {σ σ' : Type} (S : σ → σ' → Prop) : ForInStep σ → ForInStep σ' → Prop
  | .yield a, .yield b => S a b
  | .done a, .done b => S a b
  | _, _ => False

theorem StepRel.rfl' {σ : Type} : ∀ (x : ForInStep σ), StepRel Eq x x
  | .yield _ => rfl
  | .done _ => rfl

theorem StepRel.yield {σ σ' : Type} {S : σ → σ' → Prop} {a : σ} {b : σ'} (h : S a b) :
    StepRel S (pure (ForInStep.yield a) : Id _).run (pure (ForInStep.yield b) : Id _).run := h
theorem StepRel.done {σ σ' : Type} {S : σ → σ' → Prop} {a : σ} {b : σ'} (h : S a b) :
    StepRel S (pure (ForInStep.done a) : Id _).run (pure (ForInStep.done b) : Id _).run := h

/-- two `for` loops (in `Id`) over element-wise related lists whose bodies preserve a relation on the loop state -/
theorem forIn_rel {α α' σ σ' : Type} {R : α → α' → Prop} {S : σ → σ' → Prop}
    (f : α → σ → Id (ForInStep σ)) (f' : α' → σ' → Id (ForInStep σ'))
    (hf : ∀ x x' s s', R x x' → S s s' → StepRel S (f x s).run (f' x' s').run) :
    ∀ {l : List α} {l' : List α'}, All2 R l l' → ∀ s s', S s s' → S (forIn l s f).run (forIn l' s' f').run
  | [], [], _, s, s', hs => by simpa using hs
  | [], _ :: _, h, _, _, _ => h.elim
  | _ :: _, [], h, _, _, _ => h.elim
  | a :: as, b :: bs, h, s, s', hs => by
    have h1 := hf a b s s' h.1 hs
    simp only [List.forIn_cons, Id.run_bind]
    cases hx : (f a s).run <;> cases hy : (f' b s').run <;> simp only [hx, hy, StepRel] at h1 ⊢
    · simpa using h1
    · exact forIn_rel f f' hf h.2 _ _ h1

theorem attrEvaluate_rel {cx cx' : Ctx} (hf : cx.fns = cx'.fns) {a a' : CAttr}
    (h : RN.AttrRel (CodeEq cx.exprs cx'.exprs) a a') (sc : List Val) :
    attrEvaluate cx a sc = attrEvaluate cx' a' sc := by
  unfold attrEvaluate
  rw [← h.value]
  cases a.value with
  | none => rfl
  | some v =>
    have he : a.parts.isEmpty = a'.parts.isEmpty := by
      have := All2.length_eq h.parts
      cases hp : a.parts <;> cases hp' : a'.parts <;> simp [hp, hp'] at this ⊢
    simp only [← he]
    cases a.parts.isEmpty
    · simp only [Bool.false_eq_true, if_false]
      congr 2
      refine forIn_rel (S := Eq) _ _ ?_ h.parts _ _ rfl
      intro p p' s s' hp hs
      subst hs
      cases p <;> cases p' <;> simp only [RN.PartRel] at hp
      · subst hp; exact StepRel.rfl' _
      · rename_i k k'
        simp only [hp.get!, evalExpr_fns hf]
        exact StepRel.rfl' _
      · exact StepRel.rfl' _
    · rfl
theorem forIn_bind_rel {α α' σ σ' β : Type} {R : α → α' → Prop} (S : σ → σ' → Prop)
    {f : α → σ → Id (ForInStep σ)} {f' : α' → σ' → Id (ForInStep σ')} {K : σ → Id β} {K' : σ' → Id β}
    {l : List α} {l' : List α'} (hl : All2 R l l') {s : σ} {s' : σ'} (hs : S s s')
    (hf : ∀ x x' s s', R x x' → S s s' → StepRel S (f x s).run (f' x' s').run)
    (hK : ∀ t t', S t t' → (K t).run = (K' t').run) :
    (forIn l s f >>= K).run = (forIn l' s' f' >>= K').run := by
  simp only [Id.run_bind]
  exact hK _ _ (forIn_rel f f' hf hl s s' hs)

theorem All2.snoc {α β : Type} {R : α → β → Prop} {a : α} {b : β} (hab : R a b) :
    ∀ {l : List α} {l' : List β}, All2 R l l' → All2 R (l ++ [a]) (l' ++ [b])
  | [], [], _ => ⟨hab, trivial⟩
  | [], _ :: _, h => h.elim
  | _ :: _, [], h => h.elim
  | _ :: _, _ :: _, h => ⟨h.1, All2.snoc hab h.2⟩

theorem All2.zip_left {α β γ : Type} {R : β → γ → Prop} :
    ∀ (ns : List α) {l : List β} {l' : List γ}, All2 R l l' →
      All2 (fun x x' => x.1 = x'.1 ∧ R x.2 x'.2) (ns.zip l) (ns.zip l')
  | [], _, _, _ => by simp [All2]
  | _ :: _, [], [], _ => by simp [All2]
  | _ :: _, [], _ :: _, h => h.elim
  | _ :: _, _ :: _, [], h => h.elim
  | _ :: ns, _ :: _, _ :: _, h => ⟨⟨rfl, h.1⟩, All2.zip_left ns h.2⟩

/-- loop state of the first loop of `withAssign`: (early result, names, codes) -/
def WaRel (C : Nat → Nat → Prop) {ρ : Type} (s s' : Option ρ × List String × List Nat) : Prop :=
  s.1 = s'.1 ∧ s.2.1 = s'.2.1 ∧ All2 C s.2.2 s'.2.2

theorem withAssign_rel {cx cx' : Ctx} (hf : cx.fns = cx'.fns) {a a' : CAttr}
    (h : RN.AttrRel (CodeEq cx.exprs cx'.exprs) a a') (sc : List Val) :
    withAssign cx a sc = withAssign cx' a' sc := by
  unfold withAssign
  rw [← h.value]
  cases a.value with
  | none => rfl
  | some v =>
    simp only
    refine forIn_bind_rel (WaRel (CodeEq cx.exprs cx'.exprs)) h.parts ⟨rfl, rfl, trivial⟩ ?_ ?_
    · rintro p p' ⟨r, names, codes⟩ ⟨r', names', codes'⟩ hp ⟨h1, h2, h3⟩
      simp only at h1 h2 h3
      subst h1 h2
      have hlen := All2.length_eq h3
      cases p <;> cases p' <;> simp only [RN.PartRel] at hp
      · subst hp
        rename_i s
        simp only [hlen]
        generalize RN.trimSpace s = ts
        generalize RN.trimSpace (RN.trimSuffixS ts ":=") = u
        generalize (ts == "") = b1
        generalize (!ts.endsWith ":=") = b3
        generalize (!u.startsWith ";") = b5
        generalize RN.trimSpace (RN.trimPrefixS u ";") = w
        cases b1
        · simp only [Bool.false_eq_true, if_false]
          by_cases c2 : codes'.length > names.length
          · rw [if_pos c2, if_pos c2]; exact StepRel.done ⟨rfl, rfl, h3⟩
          rw [if_neg c2, if_neg c2]
          cases b3
          · simp only [Bool.false_eq_true, if_false]
            by_cases c4 : names.length > 0
            · rw [if_pos c4, if_pos c4]
              cases b5
              · exact StepRel.yield ⟨rfl, rfl, h3⟩
              · exact StepRel.done ⟨rfl, rfl, h3⟩
            · rw [if_neg c4, if_neg c4]; exact StepRel.yield ⟨rfl, rfl, h3⟩
          · exact StepRel.done ⟨rfl, rfl, h3⟩
        · exact StepRel.yield ⟨rfl, rfl, h3⟩
      · simp only [hlen]
        by_cases c1 : (names.length != codes'.length + 1) = true
        · rw [if_pos c1, if_pos c1]; exact StepRel.done ⟨rfl, rfl, h3⟩
        · rw [if_neg c1, if_neg c1]; exact StepRel.yield ⟨rfl, rfl, All2.snoc hp h3⟩
      · exact StepRel.yield ⟨rfl, rfl, h3⟩
    · rintro ⟨r, names, codes⟩ ⟨r', names', codes'⟩ ⟨h1, h2, h3⟩
      simp only at h1 h2 h3
      subst h1 h2
      have hlen := All2.length_eq h3
      cases r with
      | some r => rfl
      | none =>
        simp only [hlen]
        split
        · rfl
        · split
          · rfl
          · refine forIn_bind_rel Eq (All2.zip_left names h3) rfl ?_ ?_
            · rintro ⟨n, k⟩ ⟨n', k'⟩ s s' ⟨hn, hk⟩ hs
              simp only at hn hk
              subst hn hs
              simp only [hk.get!, evalExpr_fns hf]
              exact StepRel.rfl' _
            · rintro t t' rfl; rfl

theorem rangeItems_rel {cx cx' : Ctx} (hf : cx.fns = cx'.fns) {C : Nat → Nat → Prop} {a a' : CAttr}
    (h : RN.AttrRel C a a') (sc : List Val) : rangeItems cx a sc = rangeItems cx' a' sc := by
  unfold rangeItems
  rw [← h.value]
  simp only [evalExpr_fns hf]

/-! ## 2. renumbering maps and the loader -/

def mapPart (f : Nat → Nat) : Part → Part
  | .code k => .code (f k)
  | .lit s => .lit s
  | .other => .other

def mapAttr (f : Nat → Nat) (a : CAttr) : CAttr := { a with parts := a.parts.map (mapPart f) }

def mapD (f g : Nat → Nat) (d : NodeD) : NodeD :=
  { d with id := g d.id, attrs := d.attrs.map (mapAttr f), prevTag := d.prevTag.map g }

mutual
/-- renumber expression indices by `f` and node ids by `g` -/
def mapNode (f g : Nat → Nat) : Node → Node
  | .mk d kids e => .mk (mapD f g d) (mapNodeL f g kids) e
def mapNodeL (f g : Nat → Nat) : List Node → List Node
  | [] => []
  | k :: ks => mapNode f g k :: mapNodeL f g ks
end

theorem mapNodeL_eq (f g : Nat → Nat) : ∀ ks, mapNodeL f g ks = ks.map (mapNode f g)
  | [] => rfl
  | k :: ks => by simp [mapNodeL, mapNodeL_eq f g ks]

theorem mapNode_mk (f g : Nat → Nat) (d : NodeD) (kids : List Node) (e : Option String) :
    mapNode f g (.mk d kids e) = .mk (mapD f g d) (kids.map (mapNode f g)) e := by
  rw [mapNode, mapNodeL_eq]

theorem mapNode_d (f g : Nat → Nat) (n : Node) : (mapNode f g n).d = mapD f g n.d := by cases n; rw [mapNode_mk]; rfl
theorem mapNode_kids (f g : Nat → Nat) (n : Node) : (mapNode f g n).kids = n.kids.map (mapNode f g) := by
  cases n; rw [mapNode_mk]; rfl

def mapItem (f g : Nat → Nat) (it : Item) : Item := ⟨mapD f g it.d, it.act⟩

/-- node ids of file `i`: the root keeps id 0, every token id is shifted -/
def gId (c : Nat) (x : Nat) : Nat := if x = 0 then 0 else x + c

theorem gId_pos {c x : Nat} (h : 1 ≤ x) : gId c x = x + c := by
  unfold gId; rw [if_neg (by omega)]

theorem gId_inj (c : Nat) {x y : Nat} (h : gId c x = gId c y) : x = y := by
  unfold gId at h
  split at h <;> split at h <;> omega

/-- result of a loader phase started on the table `T ++ T0`, in terms of the same phase started on `T0` -/
def shiftRes {α : Type} (h : α → α) (T : Tbl) (r : LoadRes α × Tbl) : LoadRes α × Tbl := (r.1.map h, T ++ r.2)

theorem shiftRes_mapRes {α β : Type} {h : α → α} {h' : β → β} {f f' : α → β} (T : Tbl) (r : LoadRes α × Tbl)
    (hc : ∀ a, f (h a) = h' (f' a)) : mapRes f (shiftRes h T r) = shiftRes h' T (mapRes f' r) := by
  obtain ⟨r, t⟩ := r
  cases r <;> simp [mapRes, shiftRes, LoadRes.map, hc]

theorem shiftRes_bindRes {α β : Type} (h : α → α) (h' : β → β) (T : Tbl) (r : LoadRes α × Tbl)
    (k k' : α → Tbl → LoadRes β × Tbl) (hk : ∀ a t, k (h a) (T ++ t) = shiftRes h' T (k' a t)) :
    bindRes (shiftRes h T r) k = shiftRes h' T (bindRes r k') := by
  obtain ⟨r, t⟩ := r
  cases r <;> simp [bindRes, shiftRes, LoadRes.map, hk]

theorem compileParts_shift (T : Tbl) : ∀ (ts : List CS.CTok) (T0 : Tbl),
    compileParts ts (T ++ T0) = shiftRes (List.map (mapPart (T.size + ·))) T (compileParts ts T0)
  | [], T0 => by simp [compileParts, shiftRes, LoadRes.map]
  | t :: ts, T0 => by
    rw [compileParts, compileParts]
    cases t.kind
    case literal =>
      simp only [consPart]
      rw [compileParts_shift T ts T0]
      exact shiftRes_mapRes _ _ (fun a => by simp [mapPart])
    case codeValue =>
      simp only
      cases EL.parseCode (String.ofList t.value)
      case accept e =>
        simp only [consPart]
        rw [Array.push_append, compileParts_shift T ts (T0.push e)]
        exact shiftRes_mapRes _ _ (fun a => by simp [mapPart])
      case reject => simp [shiftRes, LoadRes.map]
      case unsupported => simp [shiftRes, LoadRes.map]
    all_goals
      simp only [consPart]
      rw [compileParts_shift T ts T0]
      exact shiftRes_mapRes _ _ (fun a => by simp [mapPart])

theorem compileAttrS_shift (cfg : Cfg) (a : HS.Attr) (T T0 : Tbl) :
    compileAttrS cfg a (T ++ T0) = shiftRes (mapAttr (T.size + ·)) T (compileAttrS cfg a T0) := by
  unfold compileAttrS
  cases attrValueOf cfg a with
  | none => simp [shiftRes, LoadRes.map, mapAttr]
  | some v =>
    simp only
    split
    · simp [shiftRes, LoadRes.map, mapAttr]
    · split
      · simp [shiftRes, LoadRes.map]
      · unfold mkDirective
        rw [compileParts_shift]
        exact shiftRes_mapRes _ _ (fun ps => by simp [mapAttr])

theorem compileAttrsS_shift (cfg : Cfg) (T : Tbl) : ∀ (as : List HS.Attr) (T0 : Tbl),
    compileAttrsS cfg as (T ++ T0) = shiftRes (List.map (mapAttr (T.size + ·))) T (compileAttrsS cfg as T0)
  | [], T0 => by simp [compileAttrsS, shiftRes, LoadRes.map]
  | a :: as, T0 => by
    rw [compileAttrsS, compileAttrsS, compileAttrS_shift]
    refine shiftRes_bindRes _ _ _ _ _ _ (fun c t => ?_)
    rw [compileAttrsS_shift cfg T as t]
    exact shiftRes_mapRes _ _ (fun l => by simp)

theorem weight_mapAttr (cfg : Cfg) (f : Nat → Nat) (a : CAttr) : weight cfg (mapAttr f a) = weight cfg a := rfl

theorem insertA_map (cfg : Cfg) (f : Nat → Nat) (a : CAttr) : ∀ l : List CAttr,
    insertA cfg (mapAttr f a) (l.map (mapAttr f)) = (insertA cfg a l).map (mapAttr f)
  | [] => rfl
  | b :: bs => by
    simp only [List.map_cons, insertA]
    have : ltW cfg (mapAttr f a) (mapAttr f b) = ltW cfg a b := rfl
    rw [this]
    split
    · simp
    · simp [insertA_map cfg f a bs]

theorem foldl_insertA_map (cfg : Cfg) (f : Nat → Nat) : ∀ (l acc : List CAttr),
    (l.map (mapAttr f)).foldl (fun acc a => insertA cfg a acc) (acc.map (mapAttr f)) =
      (l.foldl (fun acc a => insertA cfg a acc) acc).map (mapAttr f)
  | [], acc => rfl
  | a :: l, acc => by
    simp only [List.map_cons, List.foldl_cons]
    rw [insertA_map, foldl_insertA_map cfg f l]

theorem sortedAttrs_map (cfg : Cfg) (f : Nat → Nat) (l : List CAttr) :
    sortedAttrs cfg (l.map (mapAttr f)) = (sortedAttrs cfg l).map (mapAttr f) := by
  unfold sortedAttrs
  exact foldl_insertA_map cfg f l []

theorem isSelfClose_map (f : Nat → Nat) (name : String) (attrs : List CAttr) :
    isSelfClose name (attrs.map (mapAttr f)) = isSelfClose name attrs := by
  unfold isSelfClose
  rw [List.getLast?_map]
  cases attrs.getLast? <;> rfl

theorem tagItem_map (cfg : Cfg) (f g : Nat → Nat) (id : Nat) (value name : String) (attrs : List CAttr) :
    tagItem cfg (g id) value name (attrs.map (mapAttr f)) = mapItem f g (tagItem cfg id value name attrs) := by
  simp only [tagItem, isSelfClose_map, sortedAttrs_map, mapItem, mapD, Option.map_none]

theorem compileTok_shift (cfg : Cfg) (c id : Nat) (hid : 1 ≤ id) (t : HS.Token) (T T0 : Tbl) :
    compileTok cfg (id + c) t (T ++ T0) = shiftRes (mapItem (T.size + ·) (gId c)) T (compileTok cfg id t T0) := by
  unfold compileTok
  have hg : id + c = gId c id := (gId_pos hid).symm
  cases hk : t.kind <;> cases ht : t.tag <;> simp only
  case tag.some tg =>
    rw [compileAttrsS_shift]
    refine shiftRes_mapRes _ _ (fun l => ?_)
    rw [hg, tagItem_map]
  case tag.none => simp [shiftRes, LoadRes.map]
  all_goals simp [shiftRes, LoadRes.map, mapItem, mapD, hg]

theorem compileToks_shift (cfg : Cfg) (c : Nat) (T : Tbl) : ∀ (toks : List HS.Token) (id : Nat) (_ : 1 ≤ id) (T0 : Tbl),
    compileToks cfg (id + c) toks (T ++ T0) =
      shiftRes (List.map (mapItem (T.size + ·) (gId c))) T (compileToks cfg id toks T0)
  | [], _, _, T0 => by simp [compileToks, shiftRes, LoadRes.map]
  | t :: ts, id, hid, T0 => by
    rw [compileToks, compileToks, compileTok_shift cfg c id hid]
    refine shiftRes_bindRes _ _ _ _ _ _ (fun it tb => ?_)
    rw [show id + c + 1 = (id + 1) + c by omega, compileToks_shift cfg c T ts (id + 1) (by omega) tb]
    exact shiftRes_mapRes _ _ (fun l => by simp)

/-! ### tree building and annotation commute with renumbering -/

def mapFrame (f g : Nat → Nat) (fr : Frame) : Frame := ⟨mapD f g fr.d, fr.before.map (mapNode f g)⟩
def mapBS (f g : Nat → Nat) (bs : BS) : BS := ⟨bs.stack.map (mapFrame f g), bs.cur.map (mapNode f g)⟩

theorem stepItem_map (f g : Nat → Nat) (bs : BS) (it : Item) :
    stepItem (mapBS f g bs) (mapItem f g it) = mapBS f g (stepItem bs it) := by
  obtain ⟨stack, cur⟩ := bs
  obtain ⟨d, act⟩ := it
  cases act
  case leaf => simp [stepItem, mapBS, mapItem, mapNode_mk]
  case open_ => simp [stepItem, mapBS, mapItem, mapFrame]
  case close =>
    cases stack with
    | nil => simp [stepItem, mapBS, mapItem, mapNode_mk]
    | cons fr rest => simp [stepItem, mapBS, mapItem, mapNode_mk, mapFrame, mapD]

theorem foldl_stepItem_map (f g : Nat → Nat) : ∀ (items : List Item) (bs : BS),
    (items.map (mapItem f g)).foldl stepItem (mapBS f g bs) = mapBS f g (items.foldl stepItem bs)
  | [], _ => rfl
  | it :: items, bs => by
    simp only [List.map_cons, List.foldl_cons, stepItem_map]
    exact foldl_stepItem_map f g items _

theorem closeAll_map (f g : Nat → Nat) : ∀ (stack : List Frame) (cur : List Node),
    closeAll (stack.map (mapFrame f g)) (cur.map (mapNode f g)) = (closeAll stack cur).map (mapNode f g)
  | [], _ => rfl
  | fr :: rest, cur => by
    simp only [List.map_cons, closeAll]
    have := closeAll_map f g rest (.mk fr.d cur.reverse none :: fr.before)
    simp only [List.map_cons, mapNode_mk, List.map_reverse] at this
    exact this

theorem mapD_rootD (f g : Nat → Nat) (hg : g 0 = 0) : mapD f g rootD = rootD := by
  simp [mapD, rootD, hg]

theorem assemble_map (f g : Nat → Nat) (hg : g 0 = 0) (items : List Item) :
    assemble (items.map (mapItem f g)) = mapNode f g (assemble items) := by
  unfold assemble
  have h := foldl_stepItem_map f g items ⟨[], []⟩
  have e : mapBS f g ⟨[], []⟩ = ⟨[], []⟩ := rfl
  rw [e] at h
  simp only [h, mapNode_mk, mapD_rootD f g hg, mapBS, closeAll_map, List.map_reverse]

theorem isBlankText_map (f g : Nat → Nat) (n : Node) : RN.isBlankText (mapNode f g n) = RN.isBlankText n := by
  simp only [RN.isBlankText, mapNode_d, mapD]
theorem isTagNode_map (f g : Nat → Nat) (n : Node) : RN.isTagNode (mapNode f g n) = RN.isTagNode n := by
  simp only [RN.isTagNode, mapNode_d, mapD]

theorem nextBlankOf_map (f g : Nat → Nat) : ∀ ks : List Node, nextBlankOf (mapNodeL f g ks) = nextBlankOf ks
  | [] => rfl
  | k :: ks => by simp only [mapNodeL, nextBlankOf, isBlankText_map, mapNode_d, mapD]

theorem setSib_map (f g : Nat → Nat) (k : Node) (prev : Option Nat) (nb : Option String) :
    setSib (mapNode f g k) (prev.map g) nb = mapNode f g (setSib k prev nb) := by
  cases k with
  | mk d kids e => simp only [setSib, mapNode, RN.Node.d, RN.Node.kids, RN.Node.endVal, mapD]

theorem nextPrev_map (f g : Nat → Nat) (k : Node) (prev : Option Nat) :
    nextPrev (mapNode f g k) (prev.map g) = (nextPrev k prev).map g := by
  unfold nextPrev
  rw [isTagNode_map]
  split
  · simp [mapNode_d, mapD]
  · rfl

mutual
theorem annotate_mapNode (f g : Nat → Nat) : ∀ n : Node, annotate (mapNode f g n) = mapNode f g (annotate n)
  | .mk d kids e => by
    have := annotateL_mapNode f g none kids
    simp only [Option.map_none] at this
    simp only [mapNode, annotate, this]
theorem annotateL_mapNode (f g : Nat → Nat) : ∀ (prev : Option Nat) (ks : List Node),
    annotateL (prev.map g) (mapNodeL f g ks) = mapNodeL f g (annotateL prev ks)
  | _, [] => rfl
  | prev, k :: ks => by
    simp only [mapNodeL, annotateL, annotate_mapNode f g k, nextBlankOf_map, setSib_map, nextPrev_map,
      annotateL_mapNode f g (nextPrev k prev) ks]
end

theorem buildTreeS_shift (cfg : Cfg) (i : Nat) (toks : List HS.Token) (T : Tbl) :
    buildTreeS cfg i toks T = shiftRes (mapNode (T.size + ·) (gId (i * 100000))) T (buildTreeS cfg 0 toks #[]) := by
  unfold buildTreeS firstId
  have h := compileToks_shift cfg (i * 100000) T toks 1 (Nat.le_refl 1) #[]
  rw [Array.append_empty, Nat.add_comm] at h
  rw [Nat.zero_mul, Nat.zero_add, h]
  exact shiftRes_mapRes _ _ (fun items => assemble_map _ _ rfl items)

/-! ### `addDefined` = collect the definitions, then check that the names are fresh -/

/-- sequencing of two collections: the first failure decides -/
def LoadRes.app {α : Type} (r1 r2 : LoadRes (List α)) : LoadRes (List α) :=
  match r1 with
  | .ok l => r2.map (l ++ ·)
  | .err => .err | .panic => .panic | .unsupported => .unsupported

theorem LoadRes.app_ok {α : Type} {r1 r2 : LoadRes (List α)} {l : List α} :
    r1.app r2 = .ok l ↔ ∃ l1 l2, r1 = .ok l1 ∧ r2 = .ok l2 ∧ l = l1 ++ l2 := by
  cases r1 <;> cases r2 <;> simp [LoadRes.app, LoadRes.map, eq_comm]

theorem LoadRes.map_app {α β : Type} (h : α → β) (r1 r2 : LoadRes (List α)) :
    (r1.app r2).map (List.map h) = (r1.map (List.map h)).app (r2.map (List.map h)) := by
  cases r1 <;> cases r2 <;> simp [LoadRes.app, LoadRes.map]

/-- the `define` of one node, without the duplicate check -/
def defOf (cfg : Cfg) (cx : Ctx) (d : NodeD) (kids : List Node) : LoadRes (List (String × Node)) :=
  if d.kind == .tag then
    match d.attrs.find? (fun a => a.name == cfg.attrPrefix ++ "define") with
    | none => .ok []
    | some a =>
      match attrEvaluate cx a [emptyMap] with
      | (.error _, _) => .err
      | (.ok nameS, lg) => if lg.contains unsupportedEv then .unsupported else .ok [(nameS, fragRoot kids)]
  else .ok []

mutual
/-- all definitions of a tree in pre-order, without the duplicate check -/
def collect (cfg : Cfg) (cx : Ctx) : Node → LoadRes (List (String × Node))
  | .mk d kids _ => (defOf cfg cx d kids).app (collectL cfg cx kids)
def collectL (cfg : Cfg) (cx : Ctx) : List Node → LoadRes (List (String × Node))
  | [] => .ok []
  | k :: ks => (collect cfg cx k).app (collectL cfg cx ks)
end

/-- the names `xs` can be registered one after the other on top of `base` -/
def Fresh (base : List String) : List String → Prop
  | [] => True
  | x :: xs => x ∉ base ∧ Fresh (base ++ [x]) xs

theorem Fresh_append (xs : List String) : ∀ (base ys : List String),
    Fresh base (xs ++ ys) ↔ Fresh base xs ∧ Fresh (base ++ xs) ys := by
  induction xs with
  | nil => intro base ys; simp [Fresh]
  | cons x xs ih => intro base ys; simp [Fresh, ih, and_assoc]

theorem Fresh_iff (xs : List String) : ∀ base : List String, Fresh base xs ↔ xs.Nodup ∧ ∀ x ∈ xs, x ∉ base := by
  induction xs with
  | nil => intro base; simp [Fresh]
  | cons x xs ih =>
    intro base
    rw [Fresh, ih, List.nodup_cons]
    constructor
    · rintro ⟨h1, h2, h3⟩
      refine ⟨⟨fun hx => h3 x hx (List.mem_append_right _ (List.mem_singleton.mpr rfl)), h2⟩, ?_⟩
      intro y hy
      rcases List.mem_cons.mp hy with rfl | hy
      · exact h1
      · exact fun hb => h3 y hy (List.mem_append_left _ hb)
    · rintro ⟨⟨h1, h2⟩, h3⟩
      refine ⟨h3 x (List.mem_cons_self), h2, fun y hy hb => ?_⟩
      rcases List.mem_append.mp hb with hb | hb
      · exact h3 y (List.mem_cons_of_mem _ hy) hb
      · rw [List.mem_singleton] at hb
        exact h1 (hb ▸ hy)

abbrev names (tpls : List (String × Node)) : List String := tpls.map (·.1)

theorem any_name (tpls : List (String × Node)) (n : String) : tpls.any (·.1 == n) = true ↔ n ∈ names tpls := by
  rw [List.any_eq_true, List.mem_map]
  constructor
  · rintro ⟨x, hx, he⟩; exact ⟨x, hx, by simpa using he⟩
  · rintro ⟨x, hx, he⟩; exact ⟨x, hx, by simpa using he⟩

theorem defineHere_iff (cfg : Cfg) (cx : Ctx) (d : NodeD) (kids : List Node) (tpls r : List (String × Node)) :
    defineHere cfg cx d kids tpls = .ok r ↔
      ∃ new, defOf cfg cx d kids = .ok new ∧ Fresh (names tpls) (names new) ∧ r = tpls ++ new := by
  have triv : (LoadRes.ok tpls = .ok r) ↔
      ∃ new, (LoadRes.ok [] : LoadRes (List (String × Node))) = .ok new ∧ Fresh (names tpls) (names new) ∧ r = tpls ++ new := by
    constructor
    · intro h; cases h; exact ⟨[], rfl, trivial, by simp⟩
    · rintro ⟨new, h1, _, rfl⟩; cases h1; simp
  unfold defineHere defOf
  cases hk : (d.kind == .tag)
  · simpa using triv
  · simp only [if_true]
    cases hf : d.attrs.find? (fun a => a.name == cfg.attrPrefix ++ "define") with
    | none => simpa using triv
    | some a =>
      simp only
      rcases hev : attrEvaluate cx a [emptyMap] with ⟨c | nameS, lg⟩
      · simp
      · simp only
        by_cases hu : lg.contains unsupportedEv = true
        · rw [if_pos hu, if_pos hu]
          constructor
          · intro h; cases h
          · rintro ⟨new, h1, _⟩; cases h1
        · rw [if_neg hu, if_neg hu]
          by_cases hn : tpls.any (·.1 == nameS) = true
          · rw [if_pos hn]
            have := (any_name tpls nameS).mp hn
            constructor
            · intro h; cases h
            · rintro ⟨new, h1, h2, _⟩
              cases h1
              exact absurd this h2.1
          · rw [if_neg hn]
            have : nameS ∉ names tpls := fun h => hn ((any_name tpls nameS).mpr h)
            constructor
            · intro h; cases h; exact ⟨_, rfl, ⟨this, trivial⟩, rfl⟩
            · rintro ⟨new, h1, _, rfl⟩; cases h1; rfl

theorem addDefined_iff (cfg : Cfg) (cx : Ctx) : ∀ (n : Node) (tpls r : List (String × Node)),
    addDefined cfg cx n tpls = .ok r ↔
      ∃ new, collect cfg cx n = .ok new ∧ Fresh (names tpls) (names new) ∧ r = tpls ++ new := by
  refine RN.Spec.Node.induct (PL := fun ks => ∀ (tpls r : List (String × Node)),
    addDefinedL cfg cx ks tpls = .ok r ↔
      ∃ new, collectL cfg cx ks = .ok new ∧ Fresh (names tpls) (names new) ∧ r = tpls ++ new) ?_ ?_ ?_
  · intro d kids e ih tpls r
    rw [addDefined, collect]
    constructor
    · intro h
      cases hd : defineHere cfg cx d kids tpls with
      | ok t =>
        simp only [hd] at h
        obtain ⟨new1, h1, h2, rfl⟩ := (defineHere_iff cfg cx d kids tpls t).mp hd
        obtain ⟨new2, h3, h4, rfl⟩ := (ih _ r).mp h
        refine ⟨new1 ++ new2, LoadRes.app_ok.mpr ⟨_, _, h1, h3, rfl⟩, ?_, by simp⟩
        simp only [names, List.map_append] at h4 ⊢
        exact (Fresh_append _ _ _).mpr ⟨h2, h4⟩
      | err => simp [hd] at h
      | panic => simp [hd] at h
      | unsupported => simp [hd] at h
    · rintro ⟨new, h1, h2, rfl⟩
      obtain ⟨new1, new2, h3, h4, rfl⟩ := LoadRes.app_ok.mp h1
      simp only [names, List.map_append] at h2
      obtain ⟨h5, h6⟩ := (Fresh_append _ _ _).mp h2
      have hd := (defineHere_iff cfg cx d kids tpls (tpls ++ new1)).mpr ⟨new1, h3, h5, rfl⟩
      simp only [hd]
      exact (ih _ _).mpr ⟨new2, h4, by simpa [names] using h6, by simp⟩
  · intro tpls r
    simp [addDefinedL, collectL, Fresh, eq_comm]
  · intro k ks ih1 ih2 tpls r
    rw [addDefinedL, collectL]
    constructor
    · intro h
      cases hd : addDefined cfg cx k tpls with
      | ok t =>
        simp only [hd] at h
        obtain ⟨new1, h1, h2, rfl⟩ := (ih1 tpls t).mp hd
        obtain ⟨new2, h3, h4, rfl⟩ := (ih2 _ r).mp h
        refine ⟨new1 ++ new2, LoadRes.app_ok.mpr ⟨_, _, h1, h3, rfl⟩, ?_, by simp⟩
        simp only [names, List.map_append] at h4 ⊢
        exact (Fresh_append _ _ _).mpr ⟨h2, h4⟩
      | err => simp [hd] at h
      | panic => simp [hd] at h
      | unsupported => simp [hd] at h
    · rintro ⟨new, h1, h2, rfl⟩
      obtain ⟨new1, new2, h3, h4, rfl⟩ := LoadRes.app_ok.mp h1
      simp only [names, List.map_append] at h2
      obtain ⟨h5, h6⟩ := (Fresh_append _ _ _).mp h2
      have hd := (ih1 tpls (tpls ++ new1)).mpr ⟨new1, h3, h5, rfl⟩
      simp only [hd]
      exact (ih2 _ _).mpr ⟨new2, h4, by simpa [names] using h6, by simp⟩

/-! ### collecting commutes with renumbering -/

def mapEntry (f g : Nat → Nat) (p : String × Node) : String × Node := (p.1, mapNode f g p.2)

theorem trimBlankKids_map (f g : Nat → Nat) (kids : List Node) :
    trimBlankKids (kids.map (mapNode f g)) = (trimBlankKids kids).map (mapNode f g) := by
  unfold trimBlankKids
  simp only [List.zipIdx_map, List.filter_map, List.length_map, List.map_map]
  congr 1
  congr 1
  funext ⟨k, i⟩
  simp [isBlankText_map]

theorem fragRoot_map (f g : Nat → Nat) (hg : g 0 = 0) (kids : List Node) :
    fragRoot (kids.map (mapNode f g)) = mapNode f g (fragRoot kids) := by
  simp only [fragRoot, mapNode_mk, trimBlankKids_map, mapD_rootD f g hg]

theorem defOf_map (cfg : Cfg) (cx cx' : Ctx) (f g : Nat → Nat) (hg : g 0 = 0)
    (hev : ∀ a sc, attrEvaluate cx' (mapAttr f a) sc = attrEvaluate cx a sc) (d : NodeD) (kids : List Node) :
    defOf cfg cx' (mapD f g d) (kids.map (mapNode f g)) = (defOf cfg cx d kids).map (List.map (mapEntry f g)) := by
  unfold defOf
  have e1 : (mapD f g d).kind = d.kind := rfl
  have e2 : (mapD f g d).attrs = d.attrs.map (mapAttr f) := rfl
  rw [e1, e2, List.find?_map]
  have e3 : ((fun a : CAttr => a.name == cfg.attrPrefix ++ "define") ∘ mapAttr f) =
      (fun a : CAttr => a.name == cfg.attrPrefix ++ "define") := rfl
  rw [e3]
  cases (d.kind == .tag)
  · simp [LoadRes.map]
  · simp only [if_true]
    cases d.attrs.find? (fun a => a.name == cfg.attrPrefix ++ "define") with
    | none => simp [LoadRes.map]
    | some a =>
      simp only [Option.map_some, hev]
      rcases attrEvaluate cx a [emptyMap] with ⟨c | nameS, lg⟩
      · simp [LoadRes.map]
      · simp only
        split
        · simp [LoadRes.map]
        · simp [LoadRes.map, mapEntry, fragRoot_map f g hg]

theorem collect_map (cfg : Cfg) (cx cx' : Ctx) (f g : Nat → Nat) (hg : g 0 = 0)
    (hev : ∀ a sc, attrEvaluate cx' (mapAttr f a) sc = attrEvaluate cx a sc) : ∀ n : Node,
    collect cfg cx' (mapNode f g n) = (collect cfg cx n).map (List.map (mapEntry f g)) := by
  refine RN.Spec.Node.induct (PL := fun ks =>
    collectL cfg cx' (ks.map (mapNode f g)) = (collectL cfg cx ks).map (List.map (mapEntry f g))) ?_ ?_ ?_
  · intro d kids e ih
    rw [mapNode_mk, collect, collect, defOf_map cfg cx cx' f g hg hev, ih, LoadRes.map_app]
  · simp [collectL, LoadRes.map]
  · intro k ks ih1 ih2
    rw [List.map_cons, collectL, collectL, ih1, ih2, LoadRes.map_app]

/-! ### `addFile`, exactly -/

/-- what a file contributes to a manager, computed on the empty expression table with file index 0: the entries
    (the file root first, then its fragments in document order) and the compiled expressions -/
def canonOf (cfg : Cfg) (fns : List (String × FnSpec)) (name : String) (r : LoadRes Node × Tbl) :
    LoadRes (List (String × Node) × Tbl) :=
  match r.1 with
  | .ok root0 => (collect cfg ⟨r.2, fns⟩ (annotate root0)).map fun new => ((name, annotate root0) :: new, r.2)
  | .err => .err | .panic => .panic | .unsupported => .unsupported

def canon (cfg : Cfg) (fns : List (String × FnSpec)) (name src : String) : LoadRes (List (String × Node) × Tbl) :=
  match HS.scan (scanCfg cfg) src.toList with
  | .error (.panic _) => .panic
  | .error _ => .err
  | .ok toks => canonOf cfg fns name (buildTreeS cfg 0 toks #[])

/-- the manager after a file with canonical contribution `(ents, E)` was added as file number `i` -/
def extend (fns : List (String × FnSpec)) (m : Mgr) (i : Nat) (name : String) (ents : List (String × Node)) (E : Tbl) : Mgr :=
  { m with templates := m.templates ++ ents.map (mapEntry (m.cx.exprs.size + ·) (gId (i * 100000))),
           files := m.files ++ [name], cx := { exprs := m.cx.exprs ++ E, fns := fns } }

theorem getElem!_append_shift (T E : Tbl) (k : Nat) : (T ++ E)[T.size + k]! = E[k]! := by
  simp only [getElem!_def]
  rw [Array.getElem?_append_right (by omega)]; simp

theorem mapParts_rel (T E : Tbl) : ∀ ps : List Part,
    All2 (RN.PartRel (CodeEq (T ++ E) E)) (ps.map (mapPart (T.size + ·))) ps
  | [] => trivial
  | .lit _ :: ps => ⟨rfl, mapParts_rel T E ps⟩
  | .other :: ps => ⟨trivial, mapParts_rel T E ps⟩
  | .code k :: ps => ⟨getElem!_append_shift T E k, mapParts_rel T E ps⟩

theorem attrEvaluate_shift (fns : List (String × FnSpec)) (T E : Tbl) (a : CAttr) (sc : List Val) :
    attrEvaluate ⟨T ++ E, fns⟩ (mapAttr (T.size + ·) a) sc = attrEvaluate ⟨E, fns⟩ a sc :=
  attrEvaluate_rel (cx := ⟨T ++ E, fns⟩) (cx' := ⟨E, fns⟩) (a := mapAttr (T.size + ·) a) (a' := a) rfl
    ⟨rfl, rfl, mapParts_rel T E a.parts⟩ sc

theorem LoadRes.map_ok {α β : Type} {f : α → β} {r : LoadRes α} {b : β} : r.map f = .ok b ↔ ∃ a, r = .ok a ∧ b = f a := by
  cases r <;> simp [LoadRes.map, eq_comm]

/-- **addFile, exactly**: it succeeds iff the file compiles on its own and its names (file name first, then the
    fragment names in document order) are fresh; the result is the old manager extended by the renumbered
    canonical contribution. -/
theorem addFile_ok_iff (cfg : Cfg) (fns : List (String × FnSpec)) (i : Nat) (name src : String) (m m1 : Mgr) :
    addFile cfg fns i name src m = .ok m1 ↔
      ∃ ents E, canon cfg fns name src = .ok (ents, E) ∧ Fresh (names m.templates) (names ents) ∧
        m1 = extend fns m i name ents E := by
  unfold addFile canon
  by_cases hany : m.templates.any (·.1 == name) = true
  · rw [if_pos hany]
    have hmem := (any_name _ _).mp hany
    constructor
    · intro h; cases h
    · rintro ⟨ents, E, h1, h2, _⟩
      exfalso
      cases hs : HS.scan (scanCfg cfg) src.toList with
      | error e => cases e <;> simp [hs] at h1
      | ok toks =>
        simp only [hs, canonOf] at h1
        split at h1
        · obtain ⟨new, _, h3⟩ := LoadRes.map_ok.mp h1
          cases h3
          exact h2.1 hmem
        all_goals cases h1
  · rw [if_neg hany]
    have hmem : name ∉ names m.templates := fun h => hany ((any_name _ _).mpr h)
    cases hs : HS.scan (scanCfg cfg) src.toList with
    | error e =>
      cases e <;> simp
    | ok toks =>
      simp only
      rw [buildTreeS_shift]
      rcases hb : buildTreeS cfg 0 toks #[] with ⟨r0, E⟩
      cases r0 with
      | ok root0 =>
        simp only [registerFile, shiftRes, LoadRes.map, canonOf]
        rw [annotate_mapNode]
        constructor
        · intro h
          unfold withTemplates at h
          split at h
          · rename_i tpls hadd
            cases h
            obtain ⟨new, h1, h2, rfl⟩ := (addDefined_iff cfg _ _ _ _).mp hadd
            rw [collect_map cfg ⟨E, fns⟩ _ _ _ rfl (attrEvaluate_shift fns m.cx.exprs E)] at h1
            obtain ⟨new0, h3, rfl⟩ := LoadRes.map_ok.mp h1
            refine ⟨_, E, LoadRes.map_ok.mpr ⟨new0, h3, rfl⟩, ?_, ?_⟩
            · refine ⟨hmem, ?_⟩
              simpa [names, mapEntry, Function.comp_def] using h2
            · simp [extend, mapEntry]
          all_goals cases h
        · rintro ⟨ents, E', h1, h2, rfl⟩
          obtain ⟨new0, h3, h4⟩ := LoadRes.map_ok.mp h1
          cases h4
          have hadd := (addDefined_iff cfg ⟨m.cx.exprs ++ E, fns⟩
            (mapNode (m.cx.exprs.size + ·) (gId (i * 100000)) (annotate root0))
            (m.templates ++ [(name, mapNode (m.cx.exprs.size + ·) (gId (i * 100000)) (annotate root0))])
            (m.templates ++ [(name, mapNode (m.cx.exprs.size + ·) (gId (i * 100000)) (annotate root0))] ++
              new0.map (mapEntry (m.cx.exprs.size + ·) (gId (i * 100000))))).mpr
            ⟨_, by rw [collect_map cfg ⟨E, fns⟩ _ _ _ rfl (attrEvaluate_shift fns m.cx.exprs E), h3]; rfl,
              by simpa [names, mapEntry, Function.comp_def] using h2.2, rfl⟩
          rw [hadd]
          simp [withTemplates, extend, mapEntry]
      | err => simp [registerFile, shiftRes, LoadRes.map, canonOf]
      | panic => simp [registerFile, shiftRes, LoadRes.map, canonOf]
      | unsupported => simp [registerFile, shiftRes, LoadRes.map, canonOf]

/-! ### every expression index the loader produces is inside the table it returns -/

def AttrCodesLt (N : Nat) (a : CAttr) : Prop := ∀ k, Part.code k ∈ a.parts → k < N
def CodesLt (N : Nat) (d : NodeD) : Prop := ∀ a ∈ d.attrs, AttrCodesLt N a
/-- all `code k` of the tree have `k < N` -/
def TreeCodesLt (N : Nat) (t : Node) : Prop := AllD (CodesLt N) (flatD t)

theorem compileParts_codes : ∀ (ts : List CS.CTok) (T0 T1 : Tbl) (ps : List Part),
    compileParts ts T0 = (.ok ps, T1) → T0.size ≤ T1.size ∧ ∀ k, Part.code k ∈ ps → k < T1.size
  | [], T0, T1, ps, h => by
    simp only [compileParts, Prod.mk.injEq, LoadRes.ok.injEq] at h
    obtain ⟨rfl, rfl⟩ := h
    exact ⟨Nat.le_refl _, fun k hk => by cases hk⟩
  | t :: ts, T0, T1, ps, h => by
    rw [compileParts] at h
    cases hk : t.kind
    case literal =>
      simp only [hk, consPart] at h
      obtain ⟨ps', h1, rfl⟩ := mapRes_ok h
      obtain ⟨h2, h3⟩ := compileParts_codes ts T0 T1 ps' h1
      exact ⟨h2, fun k hk => h3 k (by simpa using hk)⟩
    case codeValue =>
      simp only [hk] at h
      cases hp : EL.parseCode (String.ofList t.value)
      case accept e =>
        simp only [hp, consPart] at h
        obtain ⟨ps', h1, rfl⟩ := mapRes_ok h
        obtain ⟨h2, h3⟩ := compileParts_codes ts (T0.push e) T1 ps' h1
        rw [Array.size_push] at h2
        refine ⟨by omega, fun k hk => ?_⟩
        rcases List.mem_cons.mp hk with hk | hk
        · cases hk; omega
        · exact h3 k hk
      case reject => simp [hp] at h
      case unsupported => simp [hp] at h
    all_goals
      simp only [hk, consPart] at h
      obtain ⟨ps', h1, rfl⟩ := mapRes_ok h
      obtain ⟨h2, h3⟩ := compileParts_codes ts T0 T1 ps' h1
      exact ⟨h2, fun k hk => h3 k (by simpa using hk)⟩

theorem compileAttrS_codes (cfg : Cfg) (a : HS.Attr) (T0 T1 : Tbl) (c : CAttr)
    (h : compileAttrS cfg a T0 = (.ok c, T1)) : T0.size ≤ T1.size ∧ AttrCodesLt T1.size c := by
  unfold compileAttrS at h
  cases hv : attrValueOf cfg a with
  | none =>
    simp only [hv, Prod.mk.injEq, LoadRes.ok.injEq] at h
    obtain ⟨rfl, rfl⟩ := h
    exact ⟨Nat.le_refl _, fun k hk => by cases hk⟩
  | some v =>
    simp only [hv] at h
    split at h
    · simp only [Prod.mk.injEq, LoadRes.ok.injEq] at h
      obtain ⟨rfl, rfl⟩ := h
      exact ⟨Nat.le_refl _, fun k hk => by cases hk⟩
    · split at h
      · cases h
      · unfold mkDirective at h
        obtain ⟨ps, h1, rfl⟩ := mapRes_ok h
        exact compileParts_codes _ _ _ _ h1

theorem AttrCodesLt.mono {N N' : Nat} (h : N ≤ N') {a : CAttr} (ha : AttrCodesLt N a) : AttrCodesLt N' a :=
  fun k hk => Nat.lt_of_lt_of_le (ha k hk) h

theorem compileAttrsS_codes (cfg : Cfg) : ∀ (as : List HS.Attr) (T0 T1 : Tbl) (cs : List CAttr),
    compileAttrsS cfg as T0 = (.ok cs, T1) → T0.size ≤ T1.size ∧ ∀ c ∈ cs, AttrCodesLt T1.size c
  | [], T0, T1, cs, h => by
    simp only [compileAttrsS, Prod.mk.injEq, LoadRes.ok.injEq] at h
    obtain ⟨rfl, rfl⟩ := h
    exact ⟨Nat.le_refl _, fun c hc => by cases hc⟩
  | a :: as, T0, T1, cs, h => by
    rw [compileAttrsS] at h
    obtain ⟨c, Tm, h1, h2⟩ := bindRes_ok h
    obtain ⟨cs', h3, rfl⟩ := mapRes_ok h2
    obtain ⟨h4, h5⟩ := compileAttrS_codes cfg a T0 Tm c h1
    obtain ⟨h6, h7⟩ := compileAttrsS_codes cfg as Tm T1 cs' h3
    refine ⟨Nat.le_trans h4 h6, fun c' hc' => ?_⟩
    rcases List.mem_cons.mp hc' with rfl | hc'
    · exact h5.mono h6
    · exact h7 c' hc'

theorem compileTok_codes (cfg : Cfg) (id : Nat) (t : HS.Token) (T0 T1 : Tbl) (it : Item)
    (h : compileTok cfg id t T0 = (.ok it, T1)) : T0.size ≤ T1.size ∧ CodesLt T1.size it.d := by
  unfold compileTok at h
  split at h
  · obtain ⟨cs, h1, rfl⟩ := mapRes_ok h
    obtain ⟨h2, h3⟩ := compileAttrsS_codes cfg _ T0 T1 cs h1
    refine ⟨h2, fun a ha => ?_⟩
    simp only [tagItem] at ha
    exact h3 a ((sortedAttrs_perm cfg cs).mem_iff.mp ha)
  · cases h
  · simp only [Prod.mk.injEq, LoadRes.ok.injEq] at h
    obtain ⟨rfl, rfl⟩ := h
    exact ⟨Nat.le_refl _, fun a ha => by cases ha⟩

theorem CodesLt.mono {N N' : Nat} (h : N ≤ N') {d : NodeD} (hd : CodesLt N d) : CodesLt N' d :=
  fun a ha => (hd a ha).mono h

theorem compileToks_codes (cfg : Cfg) : ∀ (toks : List HS.Token) (id : Nat) (T0 T1 : Tbl) (items : List Item),
    compileToks cfg id toks T0 = (.ok items, T1) → T0.size ≤ T1.size ∧ ∀ it ∈ items, CodesLt T1.size it.d
  | [], _, T0, T1, items, h => by
    simp only [compileToks, Prod.mk.injEq, LoadRes.ok.injEq] at h
    obtain ⟨rfl, rfl⟩ := h
    exact ⟨Nat.le_refl _, fun c hc => by cases hc⟩
  | t :: ts, id, T0, T1, items, h => by
    rw [compileToks] at h
    obtain ⟨it, Tm, h1, h2⟩ := bindRes_ok h
    obtain ⟨its, h3, rfl⟩ := mapRes_ok h2
    obtain ⟨h4, h5⟩ := compileTok_codes cfg id t T0 Tm it h1
    obtain ⟨h6, h7⟩ := compileToks_codes cfg ts (id + 1) Tm T1 its h3
    refine ⟨Nat.le_trans h4 h6, fun it' hit' => ?_⟩
    rcases List.mem_cons.mp hit' with rfl | hit'
    · exact h5.mono h6
    · exact h7 it' hit'

theorem buildTreeS_codes {cfg : Cfg} {i : Nat} {toks : List HS.Token} {T0 T1 : Tbl} {root : Node}
    (h : buildTreeS cfg i toks T0 = (.ok root, T1)) : TreeCodesLt T1.size (annotate root) := by
  unfold buildTreeS at h
  obtain ⟨items, h1, rfl⟩ := mapRes_ok h
  obtain ⟨_, h2⟩ := compileToks_codes cfg toks _ T0 T1 items h1
  unfold TreeCodesLt
  rw [annotate_allD (CodesLt T1.size) (fun d => Iff.rfl), assemble_flat]
  intro d hd
  rcases List.mem_cons.mp hd with hd | hd
  · cases hd; intro a ha; cases ha
  · obtain ⟨it, hit, hr⟩ := (emits_aligned items ⟨[], []⟩).mem_right hd
    rcases hr with hr | ⟨_, hr⟩
    · cases hr; exact h2 it hit
    · cases hr

theorem collect_frag (cfg : Cfg) (cx : Ctx) : ∀ (n : Node) (new : List (String × Node)),
    collect cfg cx n = .ok new → ∀ p ∈ new, IsFragOf (flatD n) p.2 := by
  refine RN.Spec.Node.induct (PL := fun ks => ∀ (new : List (String × Node)),
    collectL cfg cx ks = .ok new → ∀ p ∈ new, IsFragOf (flatDL ks) p.2) ?_ ?_ ?_
  · intro d kids e ih new h p hp
    rw [collect] at h
    obtain ⟨l1, l2, h1, h2, rfl⟩ := LoadRes.app_ok.mp h
    rcases List.mem_append.mp hp with hp | hp
    · have : p.2 = fragRoot kids := by
        unfold defOf at h1
        split at h1
        · split at h1
          · cases h1; cases hp
          · split at h1
            · cases h1
            · split at h1
              · cases h1
              · cases h1; simp only [List.mem_singleton] at hp; rw [hp]
        · cases h1; cases hp
      exact ⟨_, this, (flatDL_sublist (trimBlankKids_sublist kids)).trans (flatDL_kids_sublist d kids e)⟩
    · obtain ⟨ks, h3, h4⟩ := ih l2 h2 p hp
      exact ⟨ks, h3, h4.trans (flatDL_kids_sublist d kids e)⟩
  · intro new h p hp
    simp only [collectL, LoadRes.ok.injEq] at h
    subst h; cases hp
  · intro k ks ih1 ih2 new h p hp
    rw [collectL] at h
    obtain ⟨l1, l2, h1, h2, rfl⟩ := LoadRes.app_ok.mp h
    rcases List.mem_append.mp hp with hp | hp
    · obtain ⟨ks', h3, h4⟩ := ih1 l1 h1 p hp
      exact ⟨ks', h3, by simp only [flatDL]; exact h4.trans (List.sublist_append_left _ _)⟩
    · obtain ⟨ks', h3, h4⟩ := ih2 l2 h2 p hp
      exact ⟨ks', h3, by simp only [flatDL]; exact h4.trans (List.sublist_append_right _ _)⟩

theorem frag_codes {N : Nat} {n t : Node} (hn : TreeCodesLt N n) (h : IsFragOf (flatD n) t) : TreeCodesLt N t := by
  obtain ⟨ks, rfl, hs⟩ := h
  unfold TreeCodesLt
  rw [allD_node]
  exact ⟨fun a ha => (by cases ha), AllD.sublist hn hs⟩

/-- every tree of a canonical contribution only refers to expressions of that contribution -/
theorem canon_codes {cfg : Cfg} {fns : List (String × FnSpec)} {name src : String} {ents : List (String × Node)} {E : Tbl}
    (h : canon cfg fns name src = .ok (ents, E)) : ∀ p ∈ ents, TreeCodesLt E.size p.2 := by
  unfold canon at h
  split at h
  · cases h
  · cases h
  · rename_i toks _
    unfold canonOf at h
    rcases hb : buildTreeS cfg 0 toks #[] with ⟨r0, E'⟩
    rw [hb] at h
    cases r0 with
    | ok root0 =>
      simp only at h
      obtain ⟨new, h1, h2⟩ := LoadRes.map_ok.mp h
      cases h2
      have hroot := buildTreeS_codes hb
      intro p hp
      rcases List.mem_cons.mp hp with rfl | hp
      · exact hroot
      · exact frag_codes hroot (collect_frag cfg _ _ _ h1 p hp)
    | err => cases h
    | panic => cases h
    | unsupported => cases h

/-! ## 3. two renumberings of the same tree are related -/

/-- ids related through two renumberings of the same id -/
def IdRel (g g' : Nat → Nat) (x y : Nat) : Prop := ∃ t, x = g t ∧ y = g' t

theorem IdRel.pbij {g g' : Nat → Nat} (hg : ∀ x y, g x = g y → x = y) (hg' : ∀ x y, g' x = g' y → x = y) :
    PBij (IdRel g g') where
  fn := by
    rintro x y y' ⟨t, rfl, rfl⟩ ⟨t', h, rfl⟩
    rw [hg _ _ h]
  inj := by
    rintro x x' y ⟨t, rfl, rfl⟩ ⟨t', rfl, h⟩
    rw [hg' _ _ h]

theorem mapParts_rel2 {C : Nat → Nat → Prop} {f f' : Nat → Nat} {N : Nat} (hC : ∀ k, k < N → C (f k) (f' k)) :
    ∀ ps : List Part, (∀ k, Part.code k ∈ ps → k < N) → All2 (RN.PartRel C) (ps.map (mapPart f)) (ps.map (mapPart f'))
  | [], _ => trivial
  | .lit _ :: ps, h => ⟨rfl, mapParts_rel2 hC ps fun k hk => h k (List.mem_cons_of_mem _ hk)⟩
  | .other :: ps, h => ⟨trivial, mapParts_rel2 hC ps fun k hk => h k (List.mem_cons_of_mem _ hk)⟩
  | .code k :: ps, h => ⟨hC k (h k List.mem_cons_self), mapParts_rel2 hC ps fun k hk => h k (List.mem_cons_of_mem _ hk)⟩

theorem mapAttrs_rel {C : Nat → Nat → Prop} {f f' : Nat → Nat} {N : Nat} (hC : ∀ k, k < N → C (f k) (f' k)) :
    ∀ l : List CAttr, (∀ a ∈ l, AttrCodesLt N a) → All2 (RN.AttrRel C) (l.map (mapAttr f)) (l.map (mapAttr f'))
  | [], _ => trivial
  | a :: l, h => ⟨⟨rfl, rfl, mapParts_rel2 hC a.parts (h a List.mem_cons_self)⟩,
      mapAttrs_rel hC l fun b hb => h b (List.mem_cons_of_mem _ hb)⟩

theorem mapD_rel {C : Nat → Nat → Prop} {f f' g g' : Nat → Nat} {N : Nat} (hC : ∀ k, k < N → C (f k) (f' k))
    {d : NodeD} (hd : CodesLt N d) : DRel C (IdRel g g') (mapD f g d) (mapD f' g' d) where
  id := ⟨d.id, rfl, rfl⟩
  kind := rfl
  value := rfl
  tagName := rfl
  attrs := mapAttrs_rel hC d.attrs hd
  prevTag := by
    show OptRel _ (d.prevTag.map g) (d.prevTag.map g')
    cases d.prevTag
    · trivial
    · exact ⟨_, rfl, rfl⟩
  nextBlank := rfl

theorem mapNode_rel {C : Nat → Nat → Prop} {f f' g g' : Nat → Nat} {N : Nat} (hC : ∀ k, k < N → C (f k) (f' k)) :
    ∀ n : Node, TreeCodesLt N n → TreeRel C (IdRel g g') (mapNode f g n) (mapNode f' g' n) := by
  refine RN.Spec.Node.induct (PL := fun ks => AllD (CodesLt N) (flatDL ks) →
    TreeRelL C (IdRel g g') (mapNodeL f g ks) (mapNodeL f' g' ks)) ?_ ?_ ?_
  · intro d kids e ih h
    obtain ⟨h1, h2⟩ := allD_node.mp h
    simp only [mapNode, TreeRel]
    exact ⟨mapD_rel hC h1, ih h2, trivial⟩
  · intro _; simp only [mapNodeL, TreeRelL]
  · intro k ks ih1 ih2 h
    obtain ⟨h1, h2⟩ := allD_cons.mp h
    simp only [mapNodeL, TreeRelL]
    exact ⟨ih1 h1, ih2 h2⟩

/-- two renumberings of a tree whose indices are below `N` -/
theorem mapNode_tplRel {C : Nat → Nat → Prop} {o o' c c' N : Nat} (hC : ∀ k, k < N → C (o + k) (o' + k))
    {n : Node} (hn : TreeCodesLt N n) :
    TplRel C (mapNode (o + ·) (gId c) n) (mapNode (o' + ·) (gId c') n) :=
  ⟨_, IdRel.pbij (fun _ _ => gId_inj c) (fun _ _ => gId_inj c'), mapNode_rel hC n hn⟩

/-! ## 4. managers equal up to renumbering -/

def lookupL (tpls : List (String × Node)) (nm : String) : Option Node := (tpls.find? (·.1 == nm)).map (·.2)
/-- what a name resolves to -/
def lookup (m : Mgr) (nm : String) : Option Node := lookupL m.templates nm

theorem envOf_tpl (m : Mgr) (nm : String) : (envOf m).tpl nm = lookup m nm := rfl

theorem lookupL_append (a b : List (String × Node)) (nm : String) : lookupL (a ++ b) nm = (lookupL a nm).or (lookupL b nm) := by
  unfold lookupL
  rw [List.find?_append]
  cases List.find? (·.1 == nm) a <;> simp

theorem lookupL_map (f g : Nat → Nat) (ents : List (String × Node)) (nm : String) :
    lookupL (ents.map (mapEntry f g)) nm = (lookupL ents nm).map (mapNode f g) := by
  unfold lookupL
  rw [List.find?_map]
  have : ((fun p : String × Node => p.1 == nm) ∘ mapEntry f g) = (fun p : String × Node => p.1 == nm) := rfl
  rw [this]
  cases List.find? (·.1 == nm) ents <;> simp [mapEntry]

theorem lookupL_isSome (tpls : List (String × Node)) (nm : String) : (lookupL tpls nm).isSome = true ↔ nm ∈ names tpls := by
  unfold lookupL
  rw [Option.isSome_map, List.find?_isSome, ← any_name, List.any_eq_true]

theorem lookupL_none (tpls : List (String × Node)) (nm : String) : lookupL tpls nm = none ↔ nm ∉ names tpls := by
  rw [← lookupL_isSome]
  cases lookupL tpls nm <;> simp

theorem lookupL_mem {tpls : List (String × Node)} {nm : String} {t : Node} (h : lookupL tpls nm = some t) :
    (nm, t) ∈ tpls := by
  unfold lookupL at h
  obtain ⟨p, hp, rfl⟩ := Option.map_eq_some_iff.mp h
  have h1 := List.mem_of_find?_eq_some hp
  have h2 := List.find?_some hp
  simp only [beq_iff_eq] at h2
  subst h2
  exact h1

theorem lookup_extend (fns : List (String × FnSpec)) (m : Mgr) (i : Nat) (name : String) (ents : List (String × Node)) (E : Tbl)
    (nm : String) :
    lookup (extend fns m i name ents E) nm =
      (lookup m nm).or ((lookupL ents nm).map (mapNode (m.cx.exprs.size + ·) (gId (i * 100000)))) := by
  unfold lookup extend
  simp only [lookupL_append, lookupL_map]

/-- **MgrEq**: the same configuration and functions, the same file names, and every name resolves in both managers
    — or in neither — to trees that are equal up to renumbering of expression indices and node ids -/
structure MgrEq (m m' : Mgr) : Prop where
  cfg : m.cfg = m'.cfg
  fns : m.cx.fns = m'.cx.fns
  files : m.files.Perm m'.files
  look : ∀ nm, OptRel (TplRel (CodeRel m.cx.exprs m'.cx.exprs)) (lookup m nm) (lookup m' nm)

theorem CodeRel.flip {T T' : Tbl} {k k' : Nat} (h : CodeRel T T' k k') : CodeRel T' T k' k := by
  obtain ⟨e, h1, h2⟩ := h; exact ⟨e, h2, h1⟩

theorem CodeRel.comp {T T' T'' : Tbl} {k k'' : Nat} (h : RN.compR (CodeRel T T') (CodeRel T' T'') k k'') : CodeRel T T'' k k'' := by
  obtain ⟨k', ⟨e, h1, h2⟩, ⟨e', h3, h4⟩⟩ := h
  rw [h2] at h3
  cases h3
  exact ⟨e, h1, h4⟩

theorem CodeRel.append {T T' : Tbl} (X Y : Tbl) {k k' : Nat} (h : CodeRel T T' k k') : CodeRel (T ++ X) (T' ++ Y) k k' := by
  obtain ⟨e, h1, h2⟩ := h
  have b1 := (Array.getElem?_eq_some_iff.mp h1).1
  have b2 := (Array.getElem?_eq_some_iff.mp h2).1
  exact ⟨e, by rw [Array.getElem?_append_left b1]; exact h1, by rw [Array.getElem?_append_left b2]; exact h2⟩

theorem MgrEq.symm {m m' : Mgr} (h : MgrEq m m') : MgrEq m' m where
  cfg := h.cfg.symm
  fns := h.fns.symm
  files := h.files.symm
  look := fun nm => ((h.look nm).flip).imp fun _ _ ht => (TplRel.flip ht).mono fun _ _ hc => CodeRel.flip hc

theorem MgrEq.trans {m m' m'' : Mgr} (h : MgrEq m m') (h' : MgrEq m' m'') : MgrEq m m'' where
  cfg := h.cfg.trans h'.cfg
  fns := h.fns.trans h'.fns
  files := h.files.trans h'.files
  look := fun nm => ((h.look nm).comp (h'.look nm)).imp fun _ _ ⟨_, h1, h2⟩ => (h1.comp h2).mono fun _ _ hc => CodeRel.comp hc

theorem MgrEq.mem_iff {m m' : Mgr} (h : MgrEq m m') (nm : String) : nm ∈ names m.templates ↔ nm ∈ names m'.templates := by
  rw [← lookupL_isSome, ← lookupL_isSome]
  have := OptRel.isSome (h.look nm)
  unfold lookup at this
  rw [this]

/-- the evaluation interfaces of equal managers are related -/
theorem envOf_rel {m m' : Mgr} (h : MgrEq m m') : RN.EnvRel (CodeRel m.cx.exprs m'.cx.exprs) (envOf m) (envOf m') where
  evalStr := fun _ _ sc ha => attrEvaluate_rel h.fns (ha.mono fun _ _ hc => hc.codeEq) sc
  withAssign := fun _ _ sc ha => withAssign_rel h.fns (ha.mono fun _ _ hc => hc.codeEq) sc
  rangeItems := fun _ _ sc ha => rangeItems_rel h.fns ha sc
  tpl := h.look

end EN
