import TplModel.Html.Render
/-! # Lemmas about the structural specification `RN.ref…` (Render.lean)

Everything here is derived from the specification alone (no reference to the faithful model `exec…`).
Sections: (1) algebra of `Q.andThen`/`buffered`; (2) named phases of `refNode` on a tag (`withPhase`, `condPhase`,
`refRest`); (3) fuel monotonicity; (4) fuel-free folds `kidsRun`/`itemsRun`/`attrsRun` and the bridges from
`refKids`/`refItems`/`refAttrs`; (5) closed form of the attribute loop; (6) frame lemma for `nc`;
(7) dependence on `nc`; (8) monotonicity in the environment (prefix property). -/
namespace RN.Spec
variable {Sc : Type}

/-! ## 1. algebra of results -/

theorem Q.ext' {a b : Q} (h1 : a.st = b.st) (h2 : a.out = b.out) (h3 : a.log = b.log) (h4 : a.nc = b.nc) : a = b := by
  cases a; cases b; simp_all

@[simp] theorem Q.okQ_st (o : List String) (nc : NC) : (Q.okQ o nc).st = .ok := rfl
@[simp] theorem Q.okQ_out (o : List String) (nc : NC) : (Q.okQ o nc).out = o := rfl
@[simp] theorem Q.okQ_log (o : List String) (nc : NC) : (Q.okQ o nc).log = [] := rfl
@[simp] theorem Q.okQ_nc (o : List String) (nc : NC) : (Q.okQ o nc).nc = nc := rfl

theorem Q.andThen_ok {r : Q} (k : NC → Q) (h : r.st = .ok) :
    r.andThen k = { st := (k r.nc).st, out := r.out ++ (k r.nc).out, log := r.log ++ (k r.nc).log, nc := (k r.nc).nc } := by
  simp [Q.andThen, h]

theorem Q.andThen_not_ok {r : Q} (k : NC → Q) (h : r.st ≠ .ok) : r.andThen k = r := by
  unfold Q.andThen; split
  · contradiction
  · rfl

@[simp] theorem Q.okQ_andThen (o : List String) (nc : NC) (k : NC → Q) :
    (Q.okQ o nc).andThen k = { st := (k nc).st, out := o ++ (k nc).out, log := (k nc).log, nc := (k nc).nc } := by
  simp [Q.andThen, Q.okQ]

theorem Q.andThen_st_ok {r : Q} {k : NC → Q} (h : (r.andThen k).st = .ok) : r.st = .ok ∧ (k r.nc).st = .ok := by
  by_cases hr : r.st = .ok
  · rw [Q.andThen_ok k hr] at h; exact ⟨hr, h⟩
  · rw [Q.andThen_not_ok k hr] at h; exact absurd h hr

theorem Q.andThen_ne_fuel {r : Q} {k : NC → Q} (h : (r.andThen k).st ≠ .fuel) :
    r.st ≠ .fuel ∧ (r.st = .ok → (k r.nc).st ≠ .fuel) := by
  by_cases hr : r.st = .ok
  · rw [Q.andThen_ok k hr] at h; exact ⟨by rw [hr]; simp, fun _ => h⟩
  · rw [Q.andThen_not_ok k hr] at h; exact ⟨h, fun h' => absurd h' hr⟩

/-- congruence used by all "st ≠ fuel ⇒ equal" arguments -/
theorem Q.andThen_congr_nf {r r' : Q} {k k' : NC → Q} (h : (r.andThen k).st ≠ .fuel)
    (hr : r.st ≠ .fuel → r' = r) (hk : r.st = .ok → (k r.nc).st ≠ .fuel → k' r.nc = k r.nc) :
    r'.andThen k' = r.andThen k := by
  obtain ⟨h1, h2⟩ := Q.andThen_ne_fuel h
  rw [hr h1]
  by_cases ho : r.st = .ok
  · rw [Q.andThen_ok k ho, Q.andThen_ok k' ho, hk ho (h2 ho)]
  · rw [Q.andThen_not_ok k ho, Q.andThen_not_ok k' ho]

@[simp] theorem Q.buffered_st (r : Q) : r.buffered.st = r.st := by
  unfold Q.buffered; split <;> simp_all
@[simp] theorem Q.buffered_log (r : Q) : r.buffered.log = r.log := by
  unfold Q.buffered; split <;> rfl
@[simp] theorem Q.buffered_nc (r : Q) : r.buffered.nc = r.nc := by
  unfold Q.buffered; split <;> rfl
theorem Q.buffered_out_ok {r : Q} (h : r.st = .ok) : r.buffered.out = [String.join r.out] := by
  simp [Q.buffered, h]
theorem Q.buffered_out_not_ok {r : Q} (h : r.st ≠ .ok) : r.buffered.out = [] := by
  unfold Q.buffered; split
  · contradiction
  · rfl

/-- prepend events (named `addLogS` and placed in `RN.Q` so that `q.addLogS lg` can be written) -/
def _root_.RN.Q.addLogS (lg : List String) (q : Q) : Q := { q with log := lg ++ q.log }
@[simp] theorem Q.addLogS_st (lg) (q : Q) : (q.addLogS lg).st = q.st := rfl
@[simp] theorem Q.addLogS_out (lg) (q : Q) : (q.addLogS lg).out = q.out := rfl
@[simp] theorem Q.addLogS_log (lg) (q : Q) : (q.addLogS lg).log = lg ++ q.log := rfl
@[simp] theorem Q.addLogS_nc (lg) (q : Q) : (q.addLogS lg).nc = q.nc := rfl

@[simp] theorem Q.toR_st (q : Q) (fl : Fl) : (q.toR fl).st = q.st := rfl
@[simp] theorem Q.toR_log (q : Q) (fl : Fl) : (q.toR fl).log = q.log := rfl
@[simp] theorem Q.toR_text (q : Q) (fl : Fl) : (q.toR fl).text = String.join q.out := rfl

theorem PR.andThen_ok {r : PR Sc} (k : PS Sc → NC → Fl → PR Sc) (h : r.st = .ok) :
    r.andThen k = { k r.ps r.nc r.fl with log := r.log ++ (k r.ps r.nc r.fl).log } := by
  simp [PR.andThen, h]
theorem PR.andThen_not_ok {r : PR Sc} (k : PS Sc → NC → Fl → PR Sc) (h : r.st ≠ .ok) : r.andThen k = r := by
  unfold PR.andThen; split
  · contradiction
  · rfl
theorem PR.andThen_ne_fuel {r : PR Sc} {k : PS Sc → NC → Fl → PR Sc} (h : (r.andThen k).st ≠ .fuel) :
    r.st ≠ .fuel ∧ (r.st = .ok → (k r.ps r.nc r.fl).st ≠ .fuel) := by
  by_cases hr : r.st = .ok
  · rw [PR.andThen_ok k hr] at h; exact ⟨by rw [hr]; simp, fun _ => h⟩
  · rw [PR.andThen_not_ok k hr] at h; exact ⟨h, fun h' => absurd h' hr⟩
theorem PR.andThen_congr_nf {r r' : PR Sc} {k k' : PS Sc → NC → Fl → PR Sc} (h : (r.andThen k).st ≠ .fuel)
    (hr : r.st ≠ .fuel → r' = r) (hk : r.st = .ok → (k r.ps r.nc r.fl).st ≠ .fuel → k' r.ps r.nc r.fl = k r.ps r.nc r.fl) :
    r'.andThen k' = r.andThen k := by
  obtain ⟨h1, h2⟩ := PR.andThen_ne_fuel h
  rw [hr h1]
  by_cases ho : r.st = .ok
  · rw [PR.andThen_ok k ho, PR.andThen_ok k' ho, hk ho (h2 ho)]
  · rw [PR.andThen_not_ok k ho, PR.andThen_not_ok k' ho]

/-! ## 2. the phases of `refNode` on a tag, named -/

/-- 1. with: the scope of everything that follows on the element, and the events of the assignment -/
def withPhase (cfg : Cfg) (env : Env Sc) (d : NodeD) (sc : Sc) : Except Cls Sc × List String :=
  match withAttr cfg d.attrs with
  | some a => env.withAssign a sc
  | none => (.ok sc, [])

/-- 3./4. what a selected (or unconditional) element renders: the range loop, or the body -/
def refRest (cfg : Cfg) (env : Env Sc) (f depth : Nat) (nc : NC) (node : Node) (sc1 : Sc) : Q :=
  match rangeAttr cfg node.d.attrs with
  | none => refBody cfg env f depth nc node sc1
  | some ra => refRange cfg env f depth nc node ra sc1

/-- evaluation of the condition `ca` of element `id` -/
def evalCondQ (env : Env Sc) (rest : NC → Q) (nc : NC) (id : Nat) (ca : CAttr) (sc1 : Sc) : Q :=
  match env.evalStr ca sc1 with
  | (.error c, lg) => { st := .err c, log := lg, nc := nc }
  | (.ok v, lg) =>
    if v == "true" then ((rest (setNc nc id true)).buffered).addLogS lg
    else { st := .ok, out := [""], log := lg, nc := setNc nc id false }

/-- 2. condition -/
def condPhase (cfg : Cfg) (env : Env Sc) (d : NodeD) (nc : NC) (rest : NC → Q) (sc1 : Sc) : Q :=
  match condAttr cfg d.attrs with
  | none => rest nc
  | some (ca, isIf) =>
    match ca.value with
    | none => { st := .err .attrValueExpected, nc := nc }
    | some _ =>
      if isIf then evalCondQ env rest nc d.id ca sc1
      else
        match d.prevTag.bind nc with
        | none => { st := .err .unexpectedElse, nc := nc }
        | some false => evalCondQ env rest nc d.id ca sc1
        | some true => { st := .ok, out := [""], nc := setNc nc d.id true }

def tagPhases (cfg : Cfg) (env : Env Sc) (d : NodeD) (nc : NC) (rest : NC → Sc → Q) (sc : Sc) : Q :=
  match withPhase cfg env d sc with
  | (.error c, lg) => { st := .err c, log := lg, nc := nc }
  | (.ok sc1, lg) => (condPhase cfg env d nc (fun nc => rest nc sc1) sc1).addLogS lg

local macro "tag_inner" : tactic => `(tactic| (
    simp only [condPhase, refRest, evalCondQ]
    cases hc : condAttr _ _ with
    | none => simp only []; cases rangeAttr _ _ <;> rfl
    | some p =>
      obtain ⟨ca, isIf⟩ := p
      simp only []
      cases hv : ca.value with
      | none => rfl
      | some v0 =>
        simp only []
        cases isIf <;> simp only [Bool.false_eq_true, if_false, if_true]
        · cases Option.bind _ _ with
          | none => rfl
          | some b =>
            cases b
            · simp only []
              cases hE2 : Env.evalStr _ _ _ with
              | mk e2 lg2 =>
                cases e2 <;> simp only []
                · rfl
                · split <;> rfl
            · rfl
        · cases hE2 : Env.evalStr _ _ _ with
          | mk e2 lg2 =>
            cases e2 <;> simp only []
            · rfl
            · split <;> rfl))

theorem refNode_tag (cfg : Cfg) (env : Env Sc) (f depth : Nat) (nc : NC) (node : Node) (sc : Sc)
    (hk : node.d.kind = .tag) :
    refNode cfg env (f+1) depth nc node sc =
      tagPhases cfg env node.d nc (fun nc sc1 => refRest cfg env f depth nc node sc1) sc := by
  rw [refNode]; simp only [hk, tagPhases, withPhase]
  cases hW : withAttr cfg node.d.attrs with
  | none => 
    simp only []
    tag_inner
  | some a =>
    simp only []
    cases hE : env.withAssign a sc with
    | mk e lg =>
      cases e <;> simp only [] <;> first | rfl | tag_inner

/-- the chunk a non-tag node starts with -/
def headChunk (d : NodeD) : String :=
  match d.kind with
  | .comment => if isHiddenComment d.value then "" else d.value
  | .root => ""
  | _ => d.value

def endChunks (endVal : Option String) (hide : Bool) : List String :=
  match endVal with | some e => if hide then [] else [e] | none => []

theorem refNode_nontag (cfg : Cfg) (env : Env Sc) (f depth : Nat) (nc : NC) (node : Node) (sc : Sc)
    (hk : node.d.kind ≠ .tag) :
    refNode cfg env (f+1) depth nc node sc =
      (Q.okQ [headChunk node.d] nc).andThen fun nc =>
        (refKids cfg env f depth nc node.kids sc).andThen fun nc =>
          Q.okQ (endChunks node.endVal (node.d.kind == .comment && isHiddenComment node.d.value)) nc := by
  rw [refNode]
  cases hk' : node.d.kind <;> simp only [headChunk, endChunks, hk'] <;> first | exact absurd hk' hk | skip
  all_goals (cases node.endVal <;> simp)

/-! ## 3. fuel monotonicity of the specification -/

theorem evalCondQ_congr_nf (env : Env Sc) {rest rest' : NC → Q} {nc : NC} {id : Nat} {ca : CAttr} {sc1 : Sc}
    (h : (evalCondQ env rest nc id ca sc1).st ≠ .fuel)
    (hr : ∀ nc', (rest nc').st ≠ .fuel → rest' nc' = rest nc') :
    evalCondQ env rest' nc id ca sc1 = evalCondQ env rest nc id ca sc1 := by
  unfold evalCondQ at h ⊢
  cases hE : env.evalStr ca sc1 with
  | mk e lg =>
    cases e with
    | error c => rfl
    | ok v =>
      simp only [hE] at h ⊢
      split
      · rename_i hv; simp only [hv, if_true, Q.addLogS_st, Q.buffered_st] at h; rw [hr _ h]
      · rfl

theorem condPhase_congr_nf (cfg : Cfg) (env : Env Sc) {d : NodeD} {rest rest' : NC → Q} {nc : NC} {sc1 : Sc}
    (h : (condPhase cfg env d nc rest sc1).st ≠ .fuel)
    (hr : ∀ nc', (rest nc').st ≠ .fuel → rest' nc' = rest nc') :
    condPhase cfg env d nc rest' sc1 = condPhase cfg env d nc rest sc1 := by
  unfold condPhase at h ⊢
  cases hc : condAttr cfg d.attrs with
  | none => simp only [hc] at h ⊢; exact hr _ h
  | some p =>
    obtain ⟨ca, isIf⟩ := p
    simp only [hc] at h ⊢
    cases hv : ca.value with
    | none => rfl
    | some v0 =>
      simp only [hv] at h ⊢
      cases isIf
      · simp only [Bool.false_eq_true, if_false] at h ⊢
        cases hp : d.prevTag.bind nc with
        | none => rfl
        | some b =>
          cases b
          · simp only [hp] at h ⊢; exact evalCondQ_congr_nf env h hr
          · rfl
      · simp only [if_true] at h ⊢; exact evalCondQ_congr_nf env h hr

theorem tagPhases_congr_nf (cfg : Cfg) (env : Env Sc) {d : NodeD} {rest rest' : NC → Sc → Q} {nc : NC} {sc : Sc}
    (h : (tagPhases cfg env d nc rest sc).st ≠ .fuel)
    (hr : ∀ nc' sc', (rest nc' sc').st ≠ .fuel → rest' nc' sc' = rest nc' sc') :
    tagPhases cfg env d nc rest' sc = tagPhases cfg env d nc rest sc := by
  unfold tagPhases at h ⊢
  cases hw : withPhase cfg env d sc with
  | mk e lg =>
    cases e with
    | error c => rfl
    | ok sc1 =>
      simp only [hw, Q.addLogS_st] at h ⊢
      rw [condPhase_congr_nf cfg env h (fun nc' hn => hr nc' sc1 hn)]

theorem bodyStep_congr_nf (cfg : Cfg) (env : Env Sc) {frag frag' : Node → Sc → R} {d : NodeD} {a : CAttr} {k : AK}
    {ps : PS Sc} {nc : NC} {fl : Fl}
    (h : (bodyStep cfg env frag d a k ps nc fl).st ≠ .fuel)
    (hf : ∀ t sc, (frag t sc).st ≠ .fuel → frag' t sc = frag t sc) :
    bodyStep cfg env frag' d a k ps nc fl = bodyStep cfg env frag d a k ps nc fl := by
  cases k <;> try rfl
  all_goals (
    simp only [bodyStep] at h ⊢
    cases hE : env.evalStr a ps.data with
    | mk e lg =>
      cases e with
      | error c => rfl
      | ok name =>
        simp only [hE] at h ⊢
        cases hT : env.tpl name with
        | none => rfl
        | some t =>
          simp only [hT] at h ⊢
          have : (frag t ps.data).st ≠ .fuel := by
            intro hfu; apply h; rw [hfu]
          rw [hf _ _ this])

structure MonoAt (cfg : Cfg) (env : Env Sc) (f : Nat) : Prop where
  node : ∀ g depth nc node sc, f ≤ g → (refNode cfg env f depth nc node sc).st ≠ .fuel →
    refNode cfg env g depth nc node sc = refNode cfg env f depth nc node sc
  kids : ∀ g depth nc ks sc, f ≤ g → (refKids cfg env f depth nc ks sc).st ≠ .fuel →
    refKids cfg env g depth nc ks sc = refKids cfg env f depth nc ks sc
  range : ∀ g depth nc node ra sc, f ≤ g → (refRange cfg env f depth nc node ra sc).st ≠ .fuel →
    refRange cfg env g depth nc node ra sc = refRange cfg env f depth nc node ra sc
  items : ∀ g depth nc node its first, f ≤ g → (refItems cfg env f depth nc node its first).st ≠ .fuel →
    refItems cfg env g depth nc node its first = refItems cfg env f depth nc node its first
  body : ∀ g depth nc node sc, f ≤ g → (refBody cfg env f depth nc node sc).st ≠ .fuel →
    refBody cfg env g depth nc node sc = refBody cfg env f depth nc node sc
  attrs : ∀ g depth nc d as ps, f ≤ g → (refAttrs cfg env f depth nc d as ps).st ≠ .fuel →
    refAttrs cfg env g depth nc d as ps = refAttrs cfg env f depth nc d as ps
  frag : ∀ g depth nc t sc, f ≤ g → (refFrag cfg env f depth nc t sc).st ≠ .fuel →
    refFrag cfg env g depth nc t sc = refFrag cfg env f depth nc t sc
  child : ∀ g depth nc node mode sc, f ≤ g → (refChild cfg env f depth nc node mode sc).st ≠ .fuel →
    refChild cfg env g depth nc node mode sc = refChild cfg env f depth nc node mode sc

theorem succ_of_le {f g : Nat} (h : f + 1 ≤ g) : ∃ g', g = g' + 1 ∧ f ≤ g' := ⟨g - 1, by omega, by omega⟩

theorem mono (cfg : Cfg) (env : Env Sc) : ∀ f, MonoAt cfg env f := by
  intro f
  induction f with
  | zero =>
    constructor <;> intros <;> rename_i h <;> first
      | (exfalso; apply h; simp [refNode, refKids, refRange, refItems, refBody, refAttrs, refFrag, refChild])
  | succ f ih =>
    constructor
    · -- node
      intro g depth nc node sc hg h
      obtain ⟨g', rfl, hg'⟩ := succ_of_le hg
      by_cases hk : node.d.kind = .tag
      · rw [refNode_tag _ _ _ _ _ _ _ hk] at h ⊢
        rw [refNode_tag _ _ _ _ _ _ _ hk]
        refine tagPhases_congr_nf cfg env h ?_
        intro nc' sc' hn
        unfold refRest at hn ⊢
        cases hr : rangeAttr cfg node.d.attrs with
        | none => simp only [hr] at hn ⊢; exact ih.body _ _ _ _ _ hg' hn
        | some ra => simp only [hr] at hn ⊢; exact ih.range _ _ _ _ _ _ hg' hn
      · rw [refNode_nontag _ _ _ _ _ _ _ hk] at h ⊢
        rw [refNode_nontag _ _ _ _ _ _ _ hk]
        refine Q.andThen_congr_nf h (fun _ => rfl) ?_
        intro _ h2
        refine Q.andThen_congr_nf h2 (fun h3 => ih.kids _ _ _ _ _ hg' h3) (fun _ _ => rfl)
    · -- kids
      intro g depth nc ks sc hg h
      obtain ⟨g', rfl, hg'⟩ := succ_of_le hg
      cases ks with
      | nil => simp only [refKids]
      | cons k ks =>
        rw [refKids] at h ⊢; rw [refKids]
        exact Q.andThen_congr_nf h (fun h1 => ih.node _ _ _ _ _ hg' h1) (fun _ h2 => ih.kids _ _ _ _ _ hg' h2)
    · -- range
      intro g depth nc node ra sc hg h
      obtain ⟨g', rfl, hg'⟩ := succ_of_le hg
      rw [refRange] at h ⊢; rw [refRange]
      cases hv : ra.value with
      | none => rfl
      | some v =>
        simp only [hv] at h ⊢
        cases hE : env.rangeItems ra sc with
        | mk e lg =>
          cases e with
          | error c => rfl
          | ok its =>
            simp only [hE, Q.buffered_st] at h ⊢
            rw [ih.items _ _ _ _ _ _ hg' h]
    · -- items
      intro g depth nc node its first hg h
      obtain ⟨g', rfl, hg'⟩ := succ_of_le hg
      cases its with
      | nil => simp only [refItems]
      | cons sc rest =>
        rw [refItems] at h ⊢; rw [refItems]
        refine Q.andThen_congr_nf h ?_ (fun _ h2 => ih.items _ _ _ _ _ _ hg' h2)
        intro h1
        exact Q.andThen_congr_nf h1 (fun _ => rfl) (fun _ h3 => ih.body _ _ _ _ _ hg' h3)
    · -- body
      intro g depth nc node sc hg h
      obtain ⟨g', rfl, hg'⟩ := succ_of_le hg
      rw [refBody] at h ⊢; rw [refBody]
      simp only [] at h ⊢
      have hA : (refAttrs cfg env f depth nc node.d node.d.attrs
          { data := sc, noPrint := (initOpt cfg node.d 3).1, child := (initOpt cfg node.d 3).2,
            tagBuf := if (initOpt cfg node.d 3).1 = true then "" else "<" ++ node.d.tagName }).st ≠ .fuel := by
        intro hfu; apply h; simp only [hfu]
      rw [ih.attrs _ _ _ _ _ _ hg' hA]
      split
      · rename_i hok
        simp only [hok] at h
        refine Q.andThen_congr_nf h ?_ (fun _ _ => rfl)
        intro h1
        exact Q.andThen_congr_nf h1 (fun _ => rfl) (fun _ h3 => ih.child _ _ _ _ _ _ hg' h3)
      · rfl
    · -- attrs
      intro g depth nc d as ps hg h
      obtain ⟨g', rfl, hg'⟩ := succ_of_le hg
      cases as with
      | nil => simp only [refAttrs]
      | cons a rest =>
        rw [refAttrs] at h ⊢; rw [refAttrs]
        split
        · rename_i hc; simp only [hc, if_true] at h; exact ih.attrs _ _ _ _ _ _ hg' h
        · rename_i hc; simp only [hc] at h
          refine PR.andThen_congr_nf h ?_ (fun _ h2 => ih.attrs _ _ _ _ _ _ hg' h2)
          intro h1
          refine bodyStep_congr_nf cfg env h1 ?_
          intro t sc' ht
          simp only [Q.toR_st] at ht
          rw [ih.frag _ _ _ _ _ hg' ht]
    · -- frag
      intro g depth nc t sc hg h
      obtain ⟨g', rfl, hg'⟩ := succ_of_le hg
      rw [refFrag] at h ⊢; rw [refFrag]
      split
      · rfl
      · rename_i hd; simp only [hd, if_false, Q.buffered_st] at h
        rw [ih.node _ _ _ _ _ hg' h]
    · -- child
      intro g depth nc node mode sc hg h
      obtain ⟨g', rfl, hg'⟩ := succ_of_le hg
      cases mode with
      | unset => rw [refChild] at h ⊢; rw [refChild]; exact ih.kids _ _ _ _ _ hg' h
      | nop => simp only [refChild]
      | textLike a isText => simp only [refChild]
      | abf =>
        rw [refChild] at h ⊢; rw [refChild]
        simp only [] at h ⊢
        refine Q.andThen_congr_nf h ?_ ?_
        · intro h1
          cases hb : (abfParts node.kids).1 with
          | none => rfl
          | some k => simp only [hb] at h1 ⊢; exact ih.node _ _ _ _ _ hg' h1
        · intro _ h2
          refine Q.andThen_congr_nf h2 ?_ ?_
          · intro h3
            cases hb : (abfParts node.kids).2.1 with
            | none => rfl
            | some k => simp only [hb] at h3 ⊢; exact ih.node _ _ _ _ _ hg' h3
          · intro _ h4
            cases hb : (abfParts node.kids).2.2 with
            | none => rfl
            | some k => simp only [hb] at h4 ⊢; exact ih.node _ _ _ _ _ hg' h4

theorem refNode_mono (cfg : Cfg) (env : Env Sc) {f g depth nc node sc} (hg : f ≤ g)
    (h : (refNode cfg env f depth nc node sc).st ≠ .fuel) :
    refNode cfg env g depth nc node sc = refNode cfg env f depth nc node sc := (mono cfg env f).node _ _ _ _ _ hg h
theorem refKids_mono (cfg : Cfg) (env : Env Sc) {f g depth nc ks sc} (hg : f ≤ g)
    (h : (refKids cfg env f depth nc ks sc).st ≠ .fuel) :
    refKids cfg env g depth nc ks sc = refKids cfg env f depth nc ks sc := (mono cfg env f).kids _ _ _ _ _ hg h
theorem refRange_mono (cfg : Cfg) (env : Env Sc) {f g depth nc node ra sc} (hg : f ≤ g)
    (h : (refRange cfg env f depth nc node ra sc).st ≠ .fuel) :
    refRange cfg env g depth nc node ra sc = refRange cfg env f depth nc node ra sc := (mono cfg env f).range _ _ _ _ _ _ hg h
theorem refItems_mono (cfg : Cfg) (env : Env Sc) {f g depth nc node its first} (hg : f ≤ g)
    (h : (refItems cfg env f depth nc node its first).st ≠ .fuel) :
    refItems cfg env g depth nc node its first = refItems cfg env f depth nc node its first :=
  (mono cfg env f).items _ _ _ _ _ _ hg h
theorem refBody_mono (cfg : Cfg) (env : Env Sc) {f g depth nc node sc} (hg : f ≤ g)
    (h : (refBody cfg env f depth nc node sc).st ≠ .fuel) :
    refBody cfg env g depth nc node sc = refBody cfg env f depth nc node sc := (mono cfg env f).body _ _ _ _ _ hg h
theorem refAttrs_mono (cfg : Cfg) (env : Env Sc) {f g depth nc d as ps} (hg : f ≤ g)
    (h : (refAttrs cfg env f depth nc d as ps).st ≠ .fuel) :
    refAttrs cfg env g depth nc d as ps = refAttrs cfg env f depth nc d as ps := (mono cfg env f).attrs _ _ _ _ _ _ hg h
theorem refFrag_mono (cfg : Cfg) (env : Env Sc) {f g depth nc t sc} (hg : f ≤ g)
    (h : (refFrag cfg env f depth nc t sc).st ≠ .fuel) :
    refFrag cfg env g depth nc t sc = refFrag cfg env f depth nc t sc := (mono cfg env f).frag _ _ _ _ _ hg h
theorem refChild_mono (cfg : Cfg) (env : Env Sc) {f g depth nc node mode sc} (hg : f ≤ g)
    (h : (refChild cfg env f depth nc node mode sc).st ≠ .fuel) :
    refChild cfg env g depth nc node mode sc = refChild cfg env f depth nc node mode sc :=
  (mono cfg env f).child _ _ _ _ _ _ hg h
theorem refRest_mono (cfg : Cfg) (env : Env Sc) {f g depth nc node sc} (hg : f ≤ g)
    (h : (refRest cfg env f depth nc node sc).st ≠ .fuel) :
    refRest cfg env g depth nc node sc = refRest cfg env f depth nc node sc := by
  unfold refRest at h ⊢
  cases hr : rangeAttr cfg node.d.attrs with
  | none => simp only [hr] at h ⊢; exact refBody_mono cfg env hg h
  | some ra => simp only [hr] at h ⊢; exact refRange_mono cfg env hg h
theorem refExecute_mono (cfg : Cfg) (env : Env Sc) {f g root sc} (hg : f ≤ g)
    (h : (refExecute cfg env f root sc).st ≠ .fuel) :
    refExecute cfg env g root sc = refExecute cfg env f root sc := refNode_mono cfg env hg h

/-! ## 4. fuel-free folds and same-fuel unfolding equations

Every `ref…` function at fuel `f`, when its result is not `fuel`, equals a fuel-free combinator applied to the
callee functions *at the same fuel* `f`. All user-level theorems are stated through these equations. -/

def kidsRun (nodeF : NC → Node → Q) : NC → List Node → Q
  | nc, [] => Q.okQ [] nc
  | nc, k :: ks => (nodeF nc k).andThen fun nc => kidsRun nodeF nc ks

def sepChunks (nb : Option String) (first : Bool) : List String :=
  if first then [] else (match nb with | some b => [b] | none => [])

def itemsRun (bodyF : NC → Sc → Q) (nb : Option String) : NC → List Sc → Bool → Q
  | nc, [], _ => Q.okQ [] nc
  | nc, sc :: rest, first =>
    ((Q.okQ (sepChunks nb first) nc).andThen fun nc => bodyF nc sc).andThen fun nc => itemsRun bodyF nb nc rest false

def rangeRun (env : Env Sc) (bodyF : NC → Sc → Q) (nb : Option String) (nc : NC) (ra : CAttr) (sc : Sc) : Q :=
  match ra.value with
  | none => { st := .err .attrValueExpected, nc := nc }
  | some _ =>
    match env.rangeItems ra sc with
    | (.error c, lg) => { st := .err c, log := lg, nc := nc }
    | (.ok items, lg) => ((itemsRun bodyF nb nc items true).buffered).addLogS lg

def attrsRun (cfg : Cfg) (env : Env Sc) (frag : Node → Sc → R) (d : NodeD) (nc : NC) : List CAttr → PS Sc → PR Sc
  | [], ps => { st := .ok, ps := ps, nc := nc, fl := emptyFl }
  | a :: rest, ps =>
    if isCtl cfg a then attrsRun cfg env frag d nc rest ps
    else (bodyStep cfg env frag d a (classify cfg a) ps nc emptyFl).andThen fun ps _ _ => attrsRun cfg env frag d nc rest ps

def startPS (cfg : Cfg) (d : NodeD) (sc : Sc) : PS Sc :=
  { data := sc, noPrint := (initOpt cfg d 3).1, child := (initOpt cfg d 3).2,
    tagBuf := if (initOpt cfg d 3).1 then "" else "<" ++ d.tagName }

def bodyRun (node : Node) (pr : PR Sc) (childF : NC → ChildMode → Sc → Q) : Q :=
  match pr.st with
  | .ok =>
    (({ st := .ok, out := [(finishTag pr.ps).tokenBuf], log := pr.log, nc := pr.nc } : Q).andThen fun nc =>
      childF nc (finishTag pr.ps).child (finishTag pr.ps).data).andThen fun nc =>
        Q.okQ (endChunks node.endVal (finishTag pr.ps).noPrint) nc
  | st => { st := st, log := pr.log, nc := pr.nc }

def optRun (nodeF : NC → Node → Q) (n : Option Node) (nc : NC) : Q :=
  match n with | some k => nodeF nc k | none => Q.okQ [] nc

def childRun (env : Env Sc) (kidsF : NC → List Node → Q) (nodeF : NC → Node → Q) (node : Node) (nc : NC)
    (mode : ChildMode) (sc : Sc) : Q :=
  match mode with
  | .unset => kidsF nc node.kids
  | .nop => Q.okQ [] nc
  | .textLike a isText =>
    match env.evalStr a sc with
    | (.error c, lg) => { st := .err c, log := lg, nc := nc }
    | (.ok v, lg) => { st := .ok, out := [if isText then escapeHtml v else v], log := lg, nc := nc }
  | .abf =>
    (optRun nodeF (abfParts node.kids).1 nc).andThen fun nc =>
      (optRun nodeF (abfParts node.kids).2.1 nc).andThen fun nc => optRun nodeF (abfParts node.kids).2.2 nc

def fragRun (cfg : Cfg) (nodeF : Nat → NC → Node → Q) (depth : Nat) (nc : NC) (t : Node) : Q :=
  if depth + 1 > cfg.maxDepth then { st := .err .tooDeep, nc := nc }
  else { (nodeF (depth + 1) emptyNc t).buffered with nc := nc }

theorem kidsRun_congr_nf {F F' : NC → Node → Q} {nc : NC} {ks : List Node}
    (h : (kidsRun F nc ks).st ≠ .fuel) (hF : ∀ nc k, (F nc k).st ≠ .fuel → F' nc k = F nc k) :
    kidsRun F' nc ks = kidsRun F nc ks := by
  induction ks generalizing nc with
  | nil => rfl
  | cons k ks ih =>
    simp only [kidsRun] at h ⊢
    exact Q.andThen_congr_nf h (hF _ _) (fun _ h2 => ih h2)

theorem itemsRun_congr_nf {F F' : NC → Sc → Q} {nb : Option String} {nc : NC} {its : List Sc} {first : Bool}
    (h : (itemsRun F nb nc its first).st ≠ .fuel) (hF : ∀ nc sc, (F nc sc).st ≠ .fuel → F' nc sc = F nc sc) :
    itemsRun F' nb nc its first = itemsRun F nb nc its first := by
  induction its generalizing nc first with
  | nil => rfl
  | cons sc rest ih =>
    simp only [itemsRun] at h ⊢
    refine Q.andThen_congr_nf h ?_ (fun _ h2 => ih h2)
    intro h1
    exact Q.andThen_congr_nf h1 (fun _ => rfl) (fun _ h3 => hF _ _ h3)

theorem bodyStep_nc (cfg : Cfg) (env : Env Sc) (frag : Node → Sc → R) (d : NodeD) (a : CAttr) (k : AK) (ps : PS Sc)
    (nc : NC) (fl : Fl) : (bodyStep cfg env frag d a k ps nc fl).nc = nc := by
  cases k <;> simp only [bodyStep] <;> (try rfl)
  any_goals (cases ps.child <;> rfl)
  any_goals (split <;> rfl)
  all_goals (
    cases env.evalStr a ps.data with
    | mk e lg =>
      cases e with
      | error c => rfl
      | ok name =>
        simp only []
        first
        | rfl
        | (cases env.tpl name with
           | none => rfl
           | some t => simp only []; split <;> rfl))

theorem attrsRun_congr_nf (cfg : Cfg) (env : Env Sc) {F F' : Node → Sc → R} {d : NodeD} {nc : NC} {as : List CAttr}
    {ps : PS Sc} (h : (attrsRun cfg env F d nc as ps).st ≠ .fuel)
    (hF : ∀ t sc, (F t sc).st ≠ .fuel → F' t sc = F t sc) :
    attrsRun cfg env F' d nc as ps = attrsRun cfg env F d nc as ps := by
  induction as generalizing ps with
  | nil => rfl
  | cons a rest ih =>
    simp only [attrsRun] at h ⊢
    split
    · rename_i hc; simp only [hc, if_true] at h; exact ih h
    · rename_i hc; simp only [hc] at h
      exact PR.andThen_congr_nf h (fun h1 => bodyStep_congr_nf cfg env h1 hF) (fun _ h2 => ih h2)

theorem st_zero_node (cfg : Cfg) (env : Env Sc) (depth nc node sc) : (refNode cfg env 0 depth nc node sc).st = .fuel := by
  simp [refNode]

/-- U1 -/
theorem refKids_unf (cfg : Cfg) (env : Env Sc) : ∀ (f depth : Nat) (nc : NC) (ks : List Node) (sc : Sc),
    (refKids cfg env f depth nc ks sc).st ≠ .fuel →
    refKids cfg env f depth nc ks sc = kidsRun (fun nc k => refNode cfg env f depth nc k sc) nc ks := by
  intro f
  induction f with
  | zero => intro depth nc ks sc h; exact absurd (by simp [refKids]) h
  | succ f ih =>
    intro depth nc ks sc h
    cases ks with
    | nil => simp only [refKids, kidsRun]
    | cons k ks =>
      rw [refKids] at h ⊢
      have e1 : ((refNode cfg env f depth nc k sc).andThen fun nc => refKids cfg env f depth nc ks sc) =
          kidsRun (fun nc k => refNode cfg env f depth nc k sc) nc (k :: ks) := by
        simp only [kidsRun]
        exact (Q.andThen_congr_nf h (fun _ => rfl) (fun _ h2 => (ih _ _ _ _ h2).symm)).symm
      rw [e1] at h ⊢
      exact (kidsRun_congr_nf h (fun nc k hk => refNode_mono cfg env (Nat.le_succ f) hk)).symm

/-- U2 (tag) -/
theorem refNode_unf_tag (cfg : Cfg) (env : Env Sc) (f depth : Nat) (nc : NC) (node : Node) (sc : Sc)
    (hk : node.d.kind = .tag) (h : (refNode cfg env f depth nc node sc).st ≠ .fuel) :
    refNode cfg env f depth nc node sc =
      tagPhases cfg env node.d nc (fun nc sc1 => refRest cfg env f depth nc node sc1) sc := by
  cases f with
  | zero => exact absurd (st_zero_node ..) h
  | succ f =>
    rw [refNode_tag _ _ _ _ _ _ _ hk] at h ⊢
    exact (tagPhases_congr_nf cfg env h (fun nc' sc' hn => refRest_mono cfg env (Nat.le_succ f) hn)).symm

/-- U2 (text, comment, cdata, root) -/
theorem refNode_unf_nontag (cfg : Cfg) (env : Env Sc) (f depth : Nat) (nc : NC) (node : Node) (sc : Sc)
    (hk : node.d.kind ≠ .tag) (h : (refNode cfg env f depth nc node sc).st ≠ .fuel) :
    refNode cfg env f depth nc node sc =
      (Q.okQ [headChunk node.d] nc).andThen fun nc =>
        (refKids cfg env f depth nc node.kids sc).andThen fun nc =>
          Q.okQ (endChunks node.endVal (node.d.kind == .comment && isHiddenComment node.d.value)) nc := by
  cases f with
  | zero => exact absurd (st_zero_node ..) h
  | succ f =>
    rw [refNode_nontag _ _ _ _ _ _ _ hk] at h ⊢
    refine (Q.andThen_congr_nf h (fun _ => rfl) ?_).symm
    intro _ h2
    exact Q.andThen_congr_nf h2 (fun h3 => refKids_mono cfg env (Nat.le_succ f) h3) (fun _ _ => rfl)

theorem refItems_cons (cfg : Cfg) (env : Env Sc) (f depth : Nat) (nc : NC) (node : Node) (sc : Sc) (rest : List Sc)
    (first : Bool) :
    refItems cfg env (f+1) depth nc node (sc :: rest) first =
      ((Q.okQ (sepChunks node.d.nextBlank first) nc).andThen fun nc => refBody cfg env f depth nc node sc).andThen
        fun nc => refItems cfg env f depth nc node rest false := by
  rw [refItems]; rfl

/-- U3a -/
theorem refItems_unf (cfg : Cfg) (env : Env Sc) : ∀ (f depth : Nat) (nc : NC) (node : Node) (its : List Sc) (first : Bool),
    (refItems cfg env f depth nc node its first).st ≠ .fuel →
    refItems cfg env f depth nc node its first =
      itemsRun (fun nc sc => refBody cfg env f depth nc node sc) node.d.nextBlank nc its first := by
  intro f
  induction f with
  | zero => intro depth nc node its first h; exact absurd (by simp [refItems]) h
  | succ f ih =>
    intro depth nc node its first h
    cases its with
    | nil => simp only [refItems, itemsRun]
    | cons sc rest =>
      rw [refItems_cons] at h ⊢
      have e1 : (((Q.okQ (sepChunks node.d.nextBlank first) nc).andThen fun nc => refBody cfg env f depth nc node sc).andThen
            fun nc => refItems cfg env f depth nc node rest false) =
          itemsRun (fun nc sc => refBody cfg env f depth nc node sc) node.d.nextBlank nc (sc :: rest) first := by
        simp only [itemsRun]
        exact (Q.andThen_congr_nf h (fun _ => rfl) (fun _ h2 => (ih _ _ _ _ _ h2).symm)).symm
      rw [e1] at h ⊢
      exact (itemsRun_congr_nf h (fun nc sc hk => refBody_mono cfg env (Nat.le_succ f) hk)).symm

/-- U3 -/
theorem refRange_unf (cfg : Cfg) (env : Env Sc) (f depth : Nat) (nc : NC) (node : Node) (ra : CAttr) (sc : Sc)
    (h : (refRange cfg env f depth nc node ra sc).st ≠ .fuel) :
    refRange cfg env f depth nc node ra sc =
      rangeRun env (fun nc sc => refBody cfg env f depth nc node sc) node.d.nextBlank nc ra sc := by
  cases f with
  | zero => exact absurd (by simp [refRange]) h
  | succ f =>
    rw [refRange] at h ⊢
    unfold rangeRun
    cases hv : ra.value with
    | none => rfl
    | some v =>
      simp only [hv] at h ⊢
      cases hE : env.rangeItems ra sc with
      | mk e lg =>
        cases e with
        | error c => rfl
        | ok its =>
          simp only [hE, Q.buffered_st] at h ⊢
          have e := refItems_unf cfg env _ _ _ _ _ _ h
          rw [e] at h ⊢
          rw [itemsRun_congr_nf h (fun nc sc hk => refBody_mono cfg env (Nat.le_succ f) hk)]
          exact Q.ext' (by simp) rfl rfl rfl

/-- U4a -/
theorem refAttrs_unf (cfg : Cfg) (env : Env Sc) : ∀ (f depth : Nat) (nc : NC) (d : NodeD) (as : List CAttr) (ps : PS Sc),
    (refAttrs cfg env f depth nc d as ps).st ≠ .fuel →
    refAttrs cfg env f depth nc d as ps =
      attrsRun cfg env (fun t sc => (refFrag cfg env f depth nc t sc).toR emptyFl) d nc as ps := by
  intro f
  induction f with
  | zero => intro depth nc d as ps h; exact absurd (by simp [refAttrs]) h
  | succ f ih =>
    intro depth nc d as ps h
    have key : refAttrs cfg env (f+1) depth nc d as ps =
        attrsRun cfg env (fun t sc => (refFrag cfg env f depth nc t sc).toR emptyFl) d nc as ps := by
      cases as with
      | nil => simp only [refAttrs, attrsRun]
      | cons a rest =>
        rw [refAttrs] at h ⊢
        simp only [attrsRun]
        split
        · rename_i hc; simp only [hc, if_true] at h
          exact ih _ _ _ _ _ h
        · rename_i hc; simp only [hc, Bool.false_eq_true, if_false] at h
          refine (PR.andThen_congr_nf h (fun _ => rfl) ?_).symm
          intro _ h2
          rw [bodyStep_nc] at h2 ⊢
          exact (ih _ _ _ _ _ h2).symm
    rw [key] at h ⊢
    refine (attrsRun_congr_nf cfg env h ?_).symm
    intro t sc' ht
    simp only [Q.toR_st] at ht
    rw [refFrag_mono cfg env (Nat.le_succ f) ht]

/-- U4 -/
theorem refBody_unf (cfg : Cfg) (env : Env Sc) (f depth : Nat) (nc : NC) (node : Node) (sc : Sc)
    (h : (refBody cfg env f depth nc node sc).st ≠ .fuel) :
    refBody cfg env f depth nc node sc =
      bodyRun node
        (attrsRun cfg env (fun t sc => (refFrag cfg env f depth nc t sc).toR emptyFl) node.d nc node.d.attrs
          (startPS cfg node.d sc))
        (fun nc mode sc => refChild cfg env f depth nc node mode sc) := by
  cases f with
  | zero => exact absurd (by simp [refBody]) h
  | succ f =>
    have e0 : refBody cfg env (f+1) depth nc node sc =
        bodyRun node (refAttrs cfg env f depth nc node.d node.d.attrs (startPS cfg node.d sc))
          (fun nc mode sc => refChild cfg env f depth nc node mode sc) := by
      rw [refBody]; rfl
    rw [e0] at h ⊢
    have hA : (refAttrs cfg env f depth nc node.d node.d.attrs (startPS cfg node.d sc)).st ≠ .fuel := by
      intro hfu; apply h; unfold bodyRun; simp only [hfu]
    have e1 := refAttrs_unf cfg env _ _ _ _ _ _ hA
    rw [← refAttrs_mono cfg env (Nat.le_succ f) hA] at e1
    have hA' := hA
    rw [← refAttrs_mono cfg env (Nat.le_succ f) hA] at hA'
    rw [← refAttrs_unf cfg env _ _ _ _ _ _ hA', refAttrs_mono cfg env (Nat.le_succ f) hA]
    unfold bodyRun at h ⊢
    split
    · rename_i hok
      simp only [hok] at h
      refine (Q.andThen_congr_nf h ?_ (fun _ _ => rfl)).symm
      intro h1
      exact Q.andThen_congr_nf h1 (fun _ => rfl) (fun _ h3 => refChild_mono cfg env (Nat.le_succ f) h3)
    · rfl

theorem refChild_succ (cfg : Cfg) (env : Env Sc) (f depth : Nat) (nc : NC) (node : Node) (mode : ChildMode) (sc : Sc) :
    refChild cfg env (f+1) depth nc node mode sc =
      childRun env (fun nc ks => refKids cfg env f depth nc ks sc) (fun nc k => refNode cfg env f depth nc k sc)
        node nc mode sc := by
  cases mode <;> (rw [refChild]; rfl)

/-- U5 -/
theorem refChild_unf (cfg : Cfg) (env : Env Sc) (f depth : Nat) (nc : NC) (node : Node) (mode : ChildMode) (sc : Sc)
    (h : (refChild cfg env f depth nc node mode sc).st ≠ .fuel) :
    refChild cfg env f depth nc node mode sc =
      childRun env (fun nc ks => refKids cfg env f depth nc ks sc) (fun nc k => refNode cfg env f depth nc k sc)
        node nc mode sc := by
  cases f with
  | zero => exact absurd (by simp [refChild]) h
  | succ f =>
    rw [refChild_succ] at h ⊢
    have hN : ∀ (o : Option Node) (nc : NC), (optRun (fun nc k => refNode cfg env f depth nc k sc) o nc).st ≠ .fuel →
        optRun (fun nc k => refNode cfg env (f+1) depth nc k sc) o nc =
          optRun (fun nc k => refNode cfg env f depth nc k sc) o nc := by
      intro o nc ho
      cases o with
      | none => rfl
      | some k => exact refNode_mono cfg env (Nat.le_succ f) ho
    cases mode with
    | unset => exact (refKids_mono cfg env (Nat.le_succ f) h).symm
    | nop => rfl
    | textLike a isText => rfl
    | abf =>
      simp only [childRun] at h ⊢
      refine (Q.andThen_congr_nf h (hN _ _) ?_).symm
      intro _ h2
      exact Q.andThen_congr_nf h2 (hN _ _) (fun _ h4 => hN _ _ h4)

/-- U6 -/
theorem refFrag_unf (cfg : Cfg) (env : Env Sc) (f depth : Nat) (nc : NC) (t : Node) (sc : Sc)
    (h : (refFrag cfg env f depth nc t sc).st ≠ .fuel) :
    refFrag cfg env f depth nc t sc = fragRun cfg (fun dp nc t => refNode cfg env f dp nc t sc) depth nc t := by
  cases f with
  | zero => exact absurd (by simp [refFrag]) h
  | succ f =>
    rw [refFrag] at h ⊢
    unfold fragRun
    split
    · rfl
    · rename_i hd; simp only [hd, if_false, Q.buffered_st] at h
      simp only [refNode_mono cfg env (Nat.le_succ f) h]

/-! ## C01: trees without directives -/

def plainAttrs (cfg : Cfg) (attrs : List CAttr) : Bool := attrs.all fun a => !a.name.startsWith cfg.attrPrefix

mutual
def plainB (cfg : Cfg) : Node → Bool
  | .mk d kids _ =>
    (match d.kind with
      | .tag => plainAttrs cfg d.attrs && !(trimSlash (lowerS d.tagName) == cfg.tagPrefix ++ "block")
      | .comment => !isHiddenComment d.value
      | _ => true) && plainL cfg kids
def plainL (cfg : Cfg) : List Node → Bool
  | [] => true
  | k :: ks => plainB cfg k && plainL cfg ks
end

/-- no directive attribute, no block tag, no hidden comment, anywhere in the tree -/
def Plain (cfg : Cfg) (n : Node) : Prop := plainB cfg n = true

def printAttr (a : CAttr) : String := " " ++ a.name ++ (match a.value with | some v => "=" ++ v | none => "")

mutual
/-- the source re-assembled from the tokens of the tree -/
def printNode : Node → String
  | .mk d kids e =>
    (match d.kind with
      | .tag => "<" ++ d.tagName ++ String.join (d.attrs.map printAttr) ++ ">"
      | .root => ""
      | _ => d.value) ++ printKids kids ++ e.getD ""
def printKids : List Node → String
  | [] => ""
  | k :: ks => printNode k ++ printKids ks
end

theorem Node.induct {P : Node → Prop} {PL : List Node → Prop} (h1 : ∀ d kids e, PL kids → P (.mk d kids e))
    (h2 : PL []) (h3 : ∀ k ks, P k → PL ks → PL (k :: ks)) : ∀ n, P n :=
  fun n => Node.rec (motive_1 := P) (motive_2 := PL) h1 h2 h3 n

theorem Node.inductL {P : Node → Prop} {PL : List Node → Prop} (h1 : ∀ d kids e, PL kids → P (.mk d kids e))
    (h2 : PL []) (h3 : ∀ k ks, P k → PL ks → PL (k :: ks)) : ∀ ks, PL ks :=
  fun n => Node.rec_1 (motive_1 := P) (motive_2 := PL) h1 h2 h3 n

theorem startsWith_prefix_append (p x : String) : (p ++ x).startsWith p = true := by
  rw [String.startsWith_string_iff, String.toList_append]; exact List.prefix_append _ _

theorem classify_plain {cfg : Cfg} {a : CAttr} (h : a.name.startsWith cfg.attrPrefix = false) : classify cfg a = .plain := by
  simp [classify, h]

theorem isCtl_plain {cfg : Cfg} {a : CAttr} (h : classify cfg a = .plain) : isCtl cfg a = false := by
  simp [isCtl, h]

theorem bodyStep_plain_print (cfg : Cfg) (env : Env Sc) (frag : Node → Sc → R) (d : NodeD) (a : CAttr) (ps : PS Sc)
    (nc : NC) (fl : Fl) (hno : d.attrs.any (fun b => b.name == cfg.attrPrefix ++ a.name) = false)
    (hnp : ps.noPrint = false) :
    bodyStep cfg env frag d a .plain ps nc fl =
      { st := .ok, ps := { ps with tagBuf := ps.tagBuf ++ printAttr a }, log := [], nc := nc, fl := fl } := by
  simp only [bodyStep, hno, hnp, printAttr]
  cases a.value <;> simp [String.append_assoc]

theorem attrsRun_plain (cfg : Cfg) (env : Env Sc) (frag : Node → Sc → R) (d : NodeD) (nc : NC) :
    ∀ (as : List CAttr) (ps : PS Sc),
    (∀ a ∈ as, classify cfg a = .plain ∧ d.attrs.any (fun b => b.name == cfg.attrPrefix ++ a.name) = false) →
    ps.noPrint = false →
    attrsRun cfg env frag d nc as ps =
      { st := .ok, ps := { ps with tagBuf := ps.tagBuf ++ String.join (as.map printAttr) }, log := [], nc := nc,
        fl := emptyFl } := by
  intro as
  induction as with
  | nil => intro ps _ _; simp [attrsRun]
  | cons a rest ih =>
    intro ps hall hnp
    obtain ⟨hp, hno⟩ := hall a (by simp)
    simp only [attrsRun, isCtl_plain hp, hp, Bool.false_eq_true, if_false]
    rw [bodyStep_plain_print cfg env frag d a ps nc emptyFl hno hnp, PR.andThen_ok _ rfl]
    simp only []
    rw [ih { ps with tagBuf := ps.tagBuf ++ printAttr a } (fun b hb => hall b (by simp [hb])) hnp]
    simp [String.join_cons, String.append_assoc]

theorem Q.addLogS_nil (q : Q) : q.addLogS [] = q := by cases q; simp [Q.addLogS]

/-- an element without with / condition / range is its body -/
theorem refNode_noctl (cfg : Cfg) (env : Env Sc) (f depth : Nat) (nc : NC) (node : Node) (sc : Sc)
    (hk : node.d.kind = .tag) (hw : withAttr cfg node.d.attrs = none) (hc : condAttr cfg node.d.attrs = none)
    (hr : rangeAttr cfg node.d.attrs = none) (h : (refNode cfg env f depth nc node sc).st ≠ .fuel) :
    refNode cfg env f depth nc node sc = refBody cfg env f depth nc node sc := by
  rw [refNode_unf_tag cfg env f depth nc node sc hk h]
  simp only [tagPhases, withPhase, hw, condPhase, hc, refRest, hr, Q.addLogS_nil]

theorem plainAttrs_classify {cfg : Cfg} {attrs : List CAttr} (h : plainAttrs cfg attrs = true) :
    ∀ a ∈ attrs, classify cfg a = .plain := by
  intro a ha
  simp only [plainAttrs, List.all_eq_true] at h
  have := h a ha
  exact classify_plain (by simpa using this)

theorem plain_withAttr {cfg : Cfg} {attrs : List CAttr} (h : ∀ a ∈ attrs, classify cfg a = .plain) :
    withAttr cfg attrs = none := by
  simp only [withAttr, List.find?_eq_none]; intro a ha; simp [h a ha]
theorem plain_rangeAttr {cfg : Cfg} {attrs : List CAttr} (h : ∀ a ∈ attrs, classify cfg a = .plain) :
    rangeAttr cfg attrs = none := by
  simp only [rangeAttr, List.find?_eq_none]; intro a ha; simp [h a ha]
theorem plain_condAttr {cfg : Cfg} {attrs : List CAttr} (h : ∀ a ∈ attrs, classify cfg a = .plain) :
    condAttr cfg attrs = none := by
  simp only [condAttr, List.findSome?_eq_none_iff]; intro a ha; simp [h a ha]
theorem plain_hasKind {cfg : Cfg} {attrs : List CAttr} (h : ∀ a ∈ attrs, classify cfg a = .plain) (p : AK → Bool)
    (hp : p .plain = false) : hasKind cfg attrs p = false := by
  simp only [hasKind, List.any_eq_false]; intro a ha; simp [h a ha, hp]

theorem plain_initOpt {cfg : Cfg} {d : NodeD} (h : ∀ a ∈ d.attrs, classify cfg a = .plain)
    (hb : (trimSlash (lowerS d.tagName) == cfg.tagPrefix ++ "block") = false) (fl : Nat) :
    initOpt cfg d fl = (false, .unset) := by
  have h1 : hasKind cfg d.attrs isCondK = false := plain_hasKind h _ rfl
  simp [initOpt, hasCond, hasRange, plain_hasKind h, h1, hb]

/-- result of rendering plain markup: success, the text, no evaluation event, conditions untouched -/
def PlainRes (q : Q) (nc : NC) (s : String) : Prop := q.st = .ok ∧ String.join q.out = s ∧ q.log = [] ∧ q.nc = nc

theorem PlainRes.andThen {r : Q} {k : NC → Q} {nc : NC} {s1 s2 : String} (h1 : PlainRes r nc s1)
    (h2 : PlainRes (k nc) nc s2) : PlainRes (r.andThen k) nc (s1 ++ s2) := by
  obtain ⟨a1, a2, a3, a4⟩ := h1
  rw [Q.andThen_ok _ a1, a4]
  obtain ⟨b1, b2, b3, b4⟩ := h2
  exact ⟨b1, by simp [String.join_append, a2, b2], by simp [a3, b3], b4⟩

theorem PlainRes.okQ (o : List String) (nc : NC) : PlainRes (Q.okQ o nc) nc (String.join o) := ⟨rfl, rfl, rfl, rfl⟩

theorem PlainRes.one (x : String) (nc : NC) : PlainRes { st := .ok, out := [x], nc := nc } nc x :=
  ⟨rfl, by simp, rfl, rfl⟩

theorem PlainRes.cast {q : Q} {nc : NC} {s s' : String} (h : PlainRes q nc s) (e : s = s') : PlainRes q nc s' := e ▸ h

theorem plain_override_free {cfg : Cfg} {attrs : List CAttr} (h : plainAttrs cfg attrs = true) (x : String) :
    attrs.any (fun b => b.name == cfg.attrPrefix ++ x) = false := by
  simp only [List.any_eq_false, beq_iff_eq]
  intro b hb heq
  simp only [plainAttrs, List.all_eq_true] at h
  have := h b hb
  rw [heq, startsWith_prefix_append] at this
  simp at this

theorem plain_all (cfg : Cfg) (env : Env Sc) (f depth : Nat) (sc : Sc) :
    (∀ node : Node, ∀ nc, Plain cfg node → (refNode cfg env f depth nc node sc).st ≠ .fuel →
      PlainRes (refNode cfg env f depth nc node sc) nc (printNode node)) := by
  refine Node.induct (PL := fun ks => ∀ nc, plainL cfg ks = true →
      (kidsRun (fun nc k => refNode cfg env f depth nc k sc) nc ks).st ≠ .fuel →
      PlainRes (kidsRun (fun nc k => refNode cfg env f depth nc k sc) nc ks) nc (printKids ks)) ?_ ?_ ?_
  · intro d kids e ihk nc hp h
    simp only [Plain, plainB, Bool.and_eq_true] at hp
    obtain ⟨hp1, hpk⟩ := hp
    have ihk' : ∀ nc, (refKids cfg env f depth nc kids sc).st ≠ .fuel →
        PlainRes (refKids cfg env f depth nc kids sc) nc (printKids kids) := by
      intro nc hh
      have e := refKids_unf cfg env f depth nc kids sc hh
      rw [e] at hh ⊢
      exact ihk nc hpk hh
    by_cases hk : d.kind = .tag
    · simp only [hk, Bool.and_eq_true, Bool.not_eq_true'] at hp1
      obtain ⟨hpa, hnb⟩ := hp1
      have hcl := plainAttrs_classify hpa
      have e1 := refNode_noctl cfg env f depth nc (.mk d kids e) sc hk (plain_withAttr hcl) (plain_condAttr hcl)
        (plain_rangeAttr hcl) h
      rw [e1] at h ⊢
      have e2 := refBody_unf cfg env f depth nc (.mk d kids e) sc h
      rw [e2] at h ⊢
      simp only [Node.d] at h ⊢
      have hps : startPS cfg d sc = { data := sc, noPrint := false, child := .unset, tagBuf := "<" ++ d.tagName } := by
        simp [startPS, plain_initOpt hcl hnb]
      rw [hps] at h ⊢
      rw [attrsRun_plain cfg env _ d nc d.attrs _
        (fun a ha => ⟨hcl a ha, plain_override_free hpa a.name⟩) rfl] at h ⊢
      simp only [bodyRun, finishTag, Bool.false_eq_true, if_false] at h ⊢
      obtain ⟨h1, _⟩ := Q.andThen_ne_fuel h
      have h2 := (Q.andThen_ne_fuel h1).2 rfl
      simp only [] at h2
      have e3 := refChild_unf cfg env f depth nc (.mk d kids e) .unset sc h2
      rw [e3] at h2
      simp only [childRun, Node.kids] at h2
      have hB : PlainRes (refChild cfg env f depth nc (Node.mk d kids e) ChildMode.unset sc) nc (printKids kids) := by
        rw [e3]; exact ihk' nc h2
      refine (((PlainRes.one _ nc).andThen hB).andThen (PlainRes.okQ _ nc)).cast ?_
      simp only [printNode, hk, Node.endVal, endChunks]
      cases e <;> simp [String.append_assoc]
    · have e1 := refNode_unf_nontag cfg env f depth nc (.mk d kids e) sc hk h
      rw [e1] at h ⊢
      simp only [Node.d, Node.kids, Node.endVal] at h ⊢
      have h2 := (Q.andThen_ne_fuel ((Q.andThen_ne_fuel h).2 rfl)).1
      simp only [Q.okQ_nc] at h2
      refine ((PlainRes.okQ _ nc).andThen ((ihk' nc h2).andThen (PlainRes.okQ _ nc))).cast ?_
      cases hk' : d.kind
      · simp [printNode, hk', headChunk, endChunks]; cases e <;> simp
      · exact absurd hk' hk
      · simp [printNode, hk', headChunk, endChunks]; cases e <;> simp [String.append_assoc]
      · simp only [hk', Bool.not_eq_true'] at hp1
        simp [printNode, hk', headChunk, endChunks, hp1]; cases e <;> simp [String.append_assoc]
      · simp [printNode, hk', headChunk, endChunks]; cases e <;> simp [String.append_assoc]
  · intro nc _ _
    exact PlainRes.okQ [] nc
  · intro k ks ihn ihk nc hp h
    simp only [plainL, Bool.and_eq_true] at hp
    simp only [kidsRun] at h ⊢
    obtain ⟨h1, h2⟩ := Q.andThen_ne_fuel h
    have hN := ihn nc hp.1 h1
    have h3 := h2 hN.1
    rw [hN.2.2.2] at h3
    exact (hN.andThen (ihk nc hp.2 h3)).cast (by simp [printKids])

/-! ## C03: one element of a conditional chain -/

/-- the element `id` given the satisfied-so-far flag of its chain (`none` = there is no chain) -/
def chainStep (env : Env Sc) (rest : NC → Q) (nc : NC) (id : Nat) (ca : CAttr) (sc1 : Sc) : Option Bool → Q
  | none => { st := .err .unexpectedElse, nc := nc }
  | some true => { st := .ok, out := [""], nc := setNc nc id true }
  | some false => evalCondQ env rest nc id ca sc1

/-- satisfied-so-far as the element sees it: an `if` starts a new chain, the others read the record of the previous
    sibling tag -/
def satBefore (isIf : Bool) (d : NodeD) (nc : NC) : Option Bool := if isIf then some false else d.prevTag.bind nc

theorem condPhase_cond (cfg : Cfg) (env : Env Sc) {d : NodeD} {nc : NC} {rest : NC → Q} {sc1 : Sc} {ca : CAttr} {isIf : Bool}
    {v : String} (hc : condAttr cfg d.attrs = some (ca, isIf)) (hv : ca.value = some v) :
    condPhase cfg env d nc rest sc1 = chainStep env rest nc d.id ca sc1 (satBefore isIf d nc) := by
  simp only [condPhase, hc, hv, satBefore]
  cases isIf
  · simp only [Bool.false_eq_true, if_false]
    cases d.prevTag.bind nc with
    | none => rfl
    | some b => cases b <;> rfl
  · rfl

theorem tagPhases_cond (cfg : Cfg) (env : Env Sc) {d : NodeD} {nc : NC} {rest : NC → Sc → Q} {sc sc1 : Sc} {lg : List String}
    {ca : CAttr} {isIf : Bool} {v : String} (hw : withPhase cfg env d sc = (.ok sc1, lg))
    (hc : condAttr cfg d.attrs = some (ca, isIf)) (hv : ca.value = some v) :
    tagPhases cfg env d nc rest sc =
      (chainStep env (fun nc => rest nc sc1) nc d.id ca sc1 (satBefore isIf d nc)).addLogS lg := by
  simp only [tagPhases, hw, condPhase_cond cfg env hc hv]

theorem tagPhases_nocond (cfg : Cfg) (env : Env Sc) {d : NodeD} {nc : NC} {rest : NC → Sc → Q} {sc sc1 : Sc} {lg : List String}
    (hw : withPhase cfg env d sc = (.ok sc1, lg)) (hc : condAttr cfg d.attrs = none) :
    tagPhases cfg env d nc rest sc = (rest nc sc1).addLogS lg := by
  simp only [tagPhases, hw, condPhase, hc]

theorem tagPhases_with_error (cfg : Cfg) (env : Env Sc) {d : NodeD} {nc : NC} {rest : NC → Sc → Q} {sc : Sc} {lg : List String}
    {c : Cls} (hw : withPhase cfg env d sc = (.error c, lg)) :
    tagPhases cfg env d nc rest sc = { st := .err c, log := lg, nc := nc } := by
  simp only [tagPhases, hw]

/-! ## C04: the range loop -/

/-- the results of the item bodies, each started with the conditions left by the previous one -/
def threadBodies (bodyF : NC → Sc → Q) : NC → List Sc → List Q
  | _, [] => []
  | nc, sc :: rest => bodyF nc sc :: threadBodies bodyF (bodyF nc sc).nc rest

def lastNc (nc : NC) : List Q → NC
  | [] => nc
  | r :: rs => lastNc r.nc rs

/-- text of the loop: the bodies, separated (not preceded, not followed) by the blank text that follows the element -/
def joinItems (nb : Option String) : Bool → List Q → String
  | _, [] => ""
  | first, r :: rs => (if first then "" else nb.getD "") ++ String.join r.out ++ joinItems nb false rs

theorem join_sepChunks (nb : Option String) (first : Bool) :
    String.join (sepChunks nb first) = (if first then "" else nb.getD "") := by
  cases first <;> cases nb <;> simp [sepChunks]

theorem itemsRun_ok (bodyF : NC → Sc → Q) (nb : Option String) :
    ∀ (its : List Sc) (nc : NC) (first : Bool), (∀ r ∈ threadBodies bodyF nc its, r.st = .ok) →
      (itemsRun bodyF nb nc its first).st = .ok ∧
      String.join (itemsRun bodyF nb nc its first).out = joinItems nb first (threadBodies bodyF nc its) ∧
      (itemsRun bodyF nb nc its first).log = (threadBodies bodyF nc its).flatMap (·.log) ∧
      (itemsRun bodyF nb nc its first).nc = lastNc nc (threadBodies bodyF nc its) := by
  intro its
  induction its with
  | nil => intro nc first _; simp [itemsRun, threadBodies, joinItems, lastNc]
  | cons sc rest ih =>
    intro nc first hall
    simp only [threadBodies, List.mem_cons, forall_eq_or_imp] at hall
    obtain ⟨h1, h2⟩ := hall
    obtain ⟨i1, i2, i3, i4⟩ := ih (bodyF nc sc).nc false h2
    simp only [itemsRun, Q.okQ_andThen]
    rw [Q.andThen_ok]; rotate_left; exact h1
    simp only []
    refine ⟨i1, ?_, ?_, i4⟩
    · simp only [String.join_append, i2, joinItems, threadBodies, join_sepChunks]
    · simp only [i3, threadBodies, List.flatMap_cons]

/-- the loop stops at the first item whose body fails: that failure is the result -/
theorem itemsRun_fail (bodyF : NC → Sc → Q) (nb : Option String) :
    ∀ (its : List Sc) (nc : NC) (first : Bool) (pre post : List Q) (r : Q),
      threadBodies bodyF nc its = pre ++ r :: post → (∀ p ∈ pre, p.st = .ok) → r.st ≠ .ok →
      (itemsRun bodyF nb nc its first).st = r.st ∧
      (itemsRun bodyF nb nc its first).log = pre.flatMap (·.log) ++ r.log ∧
      (itemsRun bodyF nb nc its first).nc = r.nc := by
  intro its
  induction its with
  | nil => intro nc first pre post r h; simp [threadBodies] at h
  | cons sc rest ih =>
    intro nc first pre post r h hpre hr
    simp only [threadBodies] at h
    simp only [itemsRun, Q.okQ_andThen]
    cases pre with
    | nil =>
      simp only [List.nil_append, List.cons.injEq] at h
      rw [Q.andThen_not_ok]; rotate_left; (rw [← h.1] at hr; exact hr)
      simp [h.1]
    | cons p pre' =>
      simp only [List.cons_append, List.cons.injEq] at h
      have hp : (bodyF nc sc).st = .ok := by rw [h.1]; exact hpre p (by simp)
      obtain ⟨j1, j2, j3⟩ := ih (bodyF nc sc).nc false pre' post r h.2 (fun q hq => hpre q (by simp [hq])) hr
      rw [Q.andThen_ok]; rotate_left; exact hp
      simp only []
      refine ⟨j1, ?_, j3⟩
      rw [h.1] at j2
      simp only [j2, h.1, List.flatMap_cons, List.append_assoc]

theorem itemsRun_st_ok (bodyF : NC → Sc → Q) (nb : Option String) :
    ∀ (its : List Sc) (nc : NC) (first : Bool), (itemsRun bodyF nb nc its first).st = .ok →
      ∀ r ∈ threadBodies bodyF nc its, r.st = .ok := by
  intro its
  induction its with
  | nil => intro nc first _ r hr; simp [threadBodies] at hr
  | cons sc rest ih =>
    intro nc first h r hr
    simp only [itemsRun, Q.okQ_andThen] at h
    obtain ⟨h1, h2⟩ := Q.andThen_st_ok h
    simp only [threadBodies, List.mem_cons] at hr
    cases hr with
    | inl e => rw [e]; exact h1
    | inr hm => exact ih _ _ h2 r hm

/-- an element with range and without condition: with, then the loop -/
theorem refNode_range (cfg : Cfg) (env : Env Sc) (f depth : Nat) (nc : NC) (node : Node) (sc sc1 : Sc) (lgw : List String)
    (ra : CAttr) (hk : node.d.kind = .tag) (hw : withPhase cfg env node.d sc = (.ok sc1, lgw))
    (hc : condAttr cfg node.d.attrs = none) (hr : rangeAttr cfg node.d.attrs = some ra)
    (hf : (refNode cfg env f depth nc node sc).st ≠ .fuel) :
    refNode cfg env f depth nc node sc =
      (rangeRun env (fun nc sc => refBody cfg env f depth nc node sc) node.d.nextBlank nc ra sc1).addLogS lgw := by
  have e := refNode_unf_tag cfg env f depth nc node sc hk hf
  rw [e] at hf ⊢
  rw [tagPhases_nocond cfg env hw hc] at hf ⊢
  simp only [refRest, hr, Q.addLogS_st] at hf ⊢
  rw [refRange_unf cfg env f depth nc node ra sc1 hf]

theorem rangeRun_error (env : Env Sc) (bodyF : NC → Sc → Q) (nb : Option String) (nc : NC) (ra : CAttr) (sc : Sc)
    {v : String} {c : Cls} {lg : List String} (hv : ra.value = some v) (hE : env.rangeItems ra sc = (.error c, lg)) :
    rangeRun env bodyF nb nc ra sc = { st := .err c, out := [], log := lg, nc := nc } := by
  simp only [rangeRun, hv, hE]

theorem rangeRun_items (env : Env Sc) (bodyF : NC → Sc → Q) (nb : Option String) (nc : NC) (ra : CAttr) (sc : Sc)
    {v : String} {items : List Sc} {lg : List String} (hv : ra.value = some v) (hE : env.rangeItems ra sc = (.ok items, lg)) :
    rangeRun env bodyF nb nc ra sc = ((itemsRun bodyF nb nc items true).buffered).addLogS lg := by
  simp only [rangeRun, hv, hE]

/-! ## 5. closed form of the attribute loop (C05 / C07) -/

/-- effect of `remove` on (noPrint, child) -/
def removeOpt (a : CAttr) (o : Bool × ChildMode) : Bool × ChildMode :=
  let av := a.value.getD ""
  if av == "\"all\"" || av == "'all'" then (true, .nop)
  else if av == "\"body\"" || av == "'body'" then (o.1, .nop)
  else if av == "\"tag\"" || av == "'tag'" then (true, o.2)
  else if av == "\"all-but-first\"" || av == "'all-but-first'" then
    (o.1, match o.2 with | .unset => .abf | c => c)
  else o

def textOpt (a : CAttr) (isText : Bool) (o : Bool × ChildMode) : Bool × ChildMode :=
  (o.1, match o.2 with | .unset => .textLike a isText | c => c)

/-- effect of one attribute on (noPrint, child): a pure function of the attribute -/
def optStep (cfg : Cfg) (a : CAttr) (o : Bool × ChildMode) : Bool × ChildMode :=
  match classify cfg a with
  | .remove => removeOpt a o
  | .text => textOpt a true o
  | .raw => textOpt a false o
  | _ => o

def optFold (cfg : Cfg) : List CAttr → Bool × ChildMode → Bool × ChildMode
  | [], o => o
  | a :: rest, o => optFold cfg rest (optStep cfg a o)

/-- text of the fragment called by attribute `a` -/
def fragTextOf (env : Env Sc) (frag : Node → Sc → R) (sc : Sc) (a : CAttr) : String :=
  match env.evalStr a sc with
  | (.ok name, _) => (match env.tpl name with | some t => (frag t sc).text | none => "")
  | _ => ""

def fragLogOf (env : Env Sc) (frag : Node → Sc → R) (sc : Sc) (a : CAttr) : List String :=
  (env.evalStr a sc).2 ++
    (match (env.evalStr a sc).1 with
     | .ok name => (match env.tpl name with | some t => (frag t sc).log | none => [])
     | _ => [])

/-- what attribute `a` contributes to the start tag -/
def attrText (cfg : Cfg) (env : Env Sc) (d : NodeD) (sc : Sc) (a : CAttr) : String :=
  match classify cfg a with
  | .dyn cmd => (match env.evalStr a sc with | (.ok v, _) => " " ++ cmd ++ "=\"" ++ escapeHtml v ++ "\"" | _ => "")
  | .plain => if d.attrs.any (fun b => b.name == cfg.attrPrefix ++ a.name) then "" else
      " " ++ a.name ++ (match a.value with | some v => "=" ++ v | none => "")
  | _ => ""

def replTextOf (cfg : Cfg) (env : Env Sc) (frag : Node → Sc → R) (sc : Sc) (a : CAttr) : String :=
  if classify cfg a == .replace then fragTextOf env frag sc a else ""
def insTextOf (cfg : Cfg) (env : Env Sc) (frag : Node → Sc → R) (sc : Sc) (a : CAttr) : String :=
  if classify cfg a == .insert then fragTextOf env frag sc a else ""

/-- the events of attribute `a` in the rest phase -/
def attrLog (cfg : Cfg) (env : Env Sc) (frag : Node → Sc → R) (sc : Sc) (a : CAttr) : List String :=
  match classify cfg a with
  | .dyn _ => (env.evalStr a sc).2
  | .replace => fragLogOf env frag sc a
  | .insert => fragLogOf env frag sc a
  | _ => []

theorem applyRemove_form (a : CAttr) (ps : PS Sc) :
    (applyRemove a ps).data = ps.data ∧ (applyRemove a ps).tagBuf = ps.tagBuf ∧
    (applyRemove a ps).contentBuf = ps.contentBuf ∧ (applyRemove a ps).tokenBuf = ps.tokenBuf ∧
    ((applyRemove a ps).noPrint, (applyRemove a ps).child) = removeOpt a (ps.noPrint, ps.child) := by
  unfold applyRemove removeOpt
  simp only []
  split
  · simp
  · split
    · simp
    · split
      · simp
      · split
        · cases hch : ps.child <;> simp [hch]
        · simp

/-- one step of the rest phase, when it succeeds -/
structure StepForm (cfg : Cfg) (env : Env Sc) (frag : Node → Sc → R) (d : NodeD) (a : CAttr) (ps : PS Sc) (pr : PR Sc) : Prop where
  data : pr.ps.data = ps.data
  opt : (pr.ps.noPrint, pr.ps.child) = optStep cfg a (ps.noPrint, ps.child)
  token : pr.ps.tokenBuf = ps.tokenBuf ++ replTextOf cfg env frag ps.data a
  content : pr.ps.contentBuf = ps.contentBuf ++ insTextOf cfg env frag ps.data a
  tag : pr.ps.tagBuf = if ps.noPrint then ps.tagBuf else ps.tagBuf ++ attrText cfg env d ps.data a
  log : pr.log = attrLog cfg env frag ps.data a

theorem bodyStep_form (cfg : Cfg) (env : Env Sc) (frag : Node → Sc → R) (d : NodeD) (a : CAttr) (ps : PS Sc) (nc : NC) (fl : Fl)
    (hctl : isCtl cfg a = false) (hok : (bodyStep cfg env frag d a (classify cfg a) ps nc fl).st = .ok) :
    StepForm cfg env frag d a ps (bodyStep cfg env frag d a (classify cfg a) ps nc fl) := by
  cases hk : classify cfg a with
  | with_ => simp [isCtl, hk] at hctl
  | cond b => simp [isCtl, hk] at hctl
  | range => simp [isCtl, hk] at hctl
  | remove =>
    obtain ⟨r1, r2, r3, r4, r5⟩ := applyRemove_form a ps
    constructor <;> simp [bodyStep, optStep, hk, replTextOf, insTextOf, attrText, attrLog, r1, r2, r3, r4, r5]
  | text =>
    constructor <;> simp only [bodyStep, optStep, textOpt, hk, replTextOf, insTextOf, attrText, attrLog] <;>
      cases hch : ps.child <;> simp [hch]
  | raw =>
    constructor <;> simp only [bodyStep, optStep, textOpt, hk, replTextOf, insTextOf, attrText, attrLog] <;>
      cases hch : ps.child <;> simp [hch]
  | define => constructor <;> simp [bodyStep, optStep, hk, replTextOf, insTextOf, attrText, attrLog]
  | replace =>
    rw [hk] at hok
    simp only [bodyStep] at hok ⊢
    cases hE : env.evalStr a ps.data with
    | mk e lg =>
      cases e with
      | error c => simp [hE] at hok
      | ok name =>
        simp only [hE] at hok ⊢
        cases hT : env.tpl name with
        | none => simp [hT] at hok
        | some t =>
          simp only [hT] at hok ⊢
          cases hS : (frag t ps.data).st with
          | ok => constructor <;> simp [optStep, hk, replTextOf, insTextOf, attrText, attrLog, fragTextOf, fragLogOf, hE, hT]
          | err c => simp [hS] at hok
          | fuel => simp [hS] at hok
  | insert =>
    rw [hk] at hok
    simp only [bodyStep] at hok ⊢
    cases hE : env.evalStr a ps.data with
    | mk e lg =>
      cases e with
      | error c => simp [hE] at hok
      | ok name =>
        simp only [hE] at hok ⊢
        cases hT : env.tpl name with
        | none => simp [hT] at hok
        | some t =>
          simp only [hT] at hok ⊢
          cases hS : (frag t ps.data).st with
          | ok => constructor <;> simp [optStep, hk, replTextOf, insTextOf, attrText, attrLog, fragTextOf, fragLogOf, hE, hT]
          | err c => simp [hS] at hok
          | fuel => simp [hS] at hok
  | dyn cmd =>
    rw [hk] at hok
    simp only [bodyStep] at hok ⊢
    cases hE : env.evalStr a ps.data with
    | mk e lg =>
      cases e with
      | error c => simp [hE] at hok
      | ok v =>
        constructor <;> simp only [optStep, hk, replTextOf, insTextOf, attrText, attrLog, hE] <;>
          cases hnp : ps.noPrint <;> simp [String.append_assoc, hnp]
  | plain =>
    constructor <;> simp only [bodyStep, optStep, hk, replTextOf, insTextOf, attrText, attrLog] <;>
      cases hnp : ps.noPrint <;> (try split) <;> simp [String.append_assoc, hnp] <;> (cases a.value <;> rfl)

theorem removeOpt_fst_mono (a : CAttr) (c : ChildMode) : (removeOpt a (true, c)).1 = true := by
  unfold removeOpt; simp only []; repeat' split
  all_goals rfl

theorem optStep_fst_mono (cfg : Cfg) (a : CAttr) (c : ChildMode) : (optStep cfg a (true, c)).1 = true := by
  unfold optStep; split <;> first | exact removeOpt_fst_mono a c | rfl

theorem optFold_fst_mono (cfg : Cfg) : ∀ (as : List CAttr) (c : ChildMode), (optFold cfg as (true, c)).1 = true := by
  intro as
  induction as with
  | nil => intro c; rfl
  | cons a rest ih =>
    intro c
    simp only [optFold]
    have := optStep_fst_mono cfg a c
    rw [show optStep cfg a (true, c) = (true, (optStep cfg a (true, c)).2) from Prod.ext this rfl]
    exact ih _

theorem removeOpt_nop (a : CAttr) (b : Bool) : (removeOpt a (b, .nop)).2 = .nop := by
  unfold removeOpt; simp only []; repeat' split
  all_goals first | rfl | contradiction

theorem optStep_nop (cfg : Cfg) (a : CAttr) (b : Bool) : (optStep cfg a (b, .nop)).2 = .nop := by
  unfold optStep; split <;> first | exact removeOpt_nop a b | rfl

theorem optFold_nop (cfg : Cfg) : ∀ (as : List CAttr) (b : Bool), (optFold cfg as (b, .nop)).2 = .nop := by
  intro as
  induction as with
  | nil => intro b; rfl
  | cons a rest ih =>
    intro b
    simp only [optFold]
    have := optStep_nop cfg a b
    rw [show optStep cfg a (b, .nop) = ((optStep cfg a (b, .nop)).1, .nop) from Prod.ext rfl this]
    exact ih _

theorem ctl_neutral {cfg : Cfg} {a : CAttr} (h : isCtl cfg a = true) (env : Env Sc) (frag : Node → Sc → R) (d : NodeD) (sc : Sc)
    (o : Bool × ChildMode) :
    optStep cfg a o = o ∧ replTextOf cfg env frag sc a = "" ∧ insTextOf cfg env frag sc a = "" ∧
    attrText cfg env d sc a = "" ∧ attrLog cfg env frag sc a = [] := by
  unfold isCtl at h
  cases hk : classify cfg a <;> simp [hk] at h <;> simp [optStep, replTextOf, insTextOf, attrText, attrLog, hk]

/-- closed form of a successful attribute loop -/
structure RunForm (cfg : Cfg) (env : Env Sc) (frag : Node → Sc → R) (d : NodeD) (as : List CAttr) (ps : PS Sc) (pr : PR Sc) : Prop where
  data : pr.ps.data = ps.data
  opt : (pr.ps.noPrint, pr.ps.child) = optFold cfg as (ps.noPrint, ps.child)
  token : pr.ps.tokenBuf = ps.tokenBuf ++ String.join (as.map (replTextOf cfg env frag ps.data))
  content : pr.ps.contentBuf = ps.contentBuf ++ String.join (as.map (insTextOf cfg env frag ps.data))
  tag : pr.ps.noPrint = false → pr.ps.tagBuf = ps.tagBuf ++ String.join (as.map (attrText cfg env d ps.data))
  log : pr.log = as.flatMap (attrLog cfg env frag ps.data)

theorem attrsRun_nc (cfg : Cfg) (env : Env Sc) (frag : Node → Sc → R) (d : NodeD) (nc : NC) :
    ∀ (as : List CAttr) (ps : PS Sc), (attrsRun cfg env frag d nc as ps).nc = nc := by
  intro as
  induction as with
  | nil => intro ps; rfl
  | cons a rest ih =>
    intro ps
    simp only [attrsRun]
    split
    · exact ih _
    · by_cases hs : (bodyStep cfg env frag d a (classify cfg a) ps nc emptyFl).st = .ok
      · rw [PR.andThen_ok _ hs]; exact ih _
      · rw [PR.andThen_not_ok _ hs]; exact bodyStep_nc ..

theorem attrsRun_form (cfg : Cfg) (env : Env Sc) (frag : Node → Sc → R) (d : NodeD) (nc : NC) :
    ∀ (as : List CAttr) (ps : PS Sc), (attrsRun cfg env frag d nc as ps).st = .ok →
      RunForm cfg env frag d as ps (attrsRun cfg env frag d nc as ps) := by
  intro as
  induction as with
  | nil =>
    intro ps _
    constructor <;> simp [attrsRun, optFold]
  | cons a rest ih =>
    intro ps hok
    simp only [attrsRun] at hok ⊢
    by_cases hc : isCtl cfg a = true
    · simp only [hc, if_true] at hok ⊢
      have F := ih ps hok
      obtain ⟨c1, c2, c3, c4, c5⟩ := ctl_neutral hc env frag d ps.data (ps.noPrint, ps.child)
      constructor
      · exact F.data
      · rw [F.opt]; simp only [optFold, c1]
      · rw [F.token]; simp [c2]
      · rw [F.content]; simp [c3]
      · intro h; rw [F.tag h]; simp [c4]
      · rw [F.log]; simp [c5]
    · have hc' : isCtl cfg a = false := by simpa using hc
      simp only [hc', Bool.false_eq_true, if_false] at hok ⊢
      have hs : (bodyStep cfg env frag d a (classify cfg a) ps nc emptyFl).st = .ok := by
        by_cases hs : (bodyStep cfg env frag d a (classify cfg a) ps nc emptyFl).st = .ok
        · exact hs
        · rw [PR.andThen_not_ok _ hs] at hok; exact absurd hok hs
      have S := bodyStep_form cfg env frag d a ps nc emptyFl hc' hs
      rw [PR.andThen_ok _ hs] at hok ⊢
      simp only [] at hok ⊢
      have F := ih _ hok
      have f1 := F.data; have f2 := F.opt; have f3 := F.token; have f4 := F.content; have f5 := F.tag; have f6 := F.log
      rw [S.data] at f1 f3 f4 f5 f6
      constructor
      · exact f1
      · simp only []; rw [f2, S.opt]; rfl
      · simp only []; rw [f3, S.token]; simp [String.append_assoc]
      · simp only []; rw [f4, S.content]; simp [String.append_assoc]
      · simp only []
        intro h
        rw [f5 h, S.tag]
        have hnp : ps.noPrint = false := by
          cases hp : ps.noPrint with
          | false => rfl
          | true =>
            exfalso
            have h1 := f2
            rw [S.opt, hp] at h1
            have h2 := optStep_fst_mono cfg a ps.child
            have h3 := optFold_fst_mono cfg rest (optStep cfg a (true, ps.child)).2
            rw [show optStep cfg a (true, ps.child) = (true, (optStep cfg a (true, ps.child)).2) from Prod.ext h2 rfl] at h1
            rw [← h1] at h3
            simp only [] at h3
            rw [h3] at h
            exact Bool.noConfusion h
        simp [hnp, String.append_assoc]
      · simp only []; rw [f6, S.log]; simp

/-- the first chunk of a rendered element: replaced fragments, then (unless the tag is not printed) the start tag
    with its dynamic and static attributes, `>`, and the inserted fragments -/
def startChunk (cfg : Cfg) (env : Env Sc) (frag : Node → Sc → R) (d : NodeD) (sc : Sc) : String :=
  String.join (d.attrs.map (replTextOf cfg env frag sc)) ++
    (if (optFold cfg d.attrs (initOpt cfg d 3)).1 then ""
     else "<" ++ d.tagName ++ String.join (d.attrs.map (attrText cfg env d sc)) ++ ">" ++
       String.join (d.attrs.map (insTextOf cfg env frag sc)))

/-- the fragment executor of the rest phase of an element rendered at fuel `f` -/
def fragOf (cfg : Cfg) (env : Env Sc) (f depth : Nat) (nc : NC) : Node → Sc → R :=
  fun t sc => (refFrag cfg env f depth nc t sc).toR emptyFl

@[simp] theorem startPS_data (cfg : Cfg) (d : NodeD) (sc : Sc) : (startPS cfg d sc).data = sc := rfl
@[simp] theorem startPS_noPrint (cfg : Cfg) (d : NodeD) (sc : Sc) : (startPS cfg d sc).noPrint = (initOpt cfg d 3).1 := rfl
@[simp] theorem startPS_child (cfg : Cfg) (d : NodeD) (sc : Sc) : (startPS cfg d sc).child = (initOpt cfg d 3).2 := rfl
@[simp] theorem startPS_tagBuf (cfg : Cfg) (d : NodeD) (sc : Sc) :
    (startPS cfg d sc).tagBuf = if (initOpt cfg d 3).1 then "" else "<" ++ d.tagName := rfl
@[simp] theorem startPS_tokenBuf (cfg : Cfg) (d : NodeD) (sc : Sc) : (startPS cfg d sc).tokenBuf = "" := rfl
@[simp] theorem startPS_contentBuf (cfg : Cfg) (d : NodeD) (sc : Sc) : (startPS cfg d sc).contentBuf = "" := rfl

theorem refBody_ok_form (cfg : Cfg) (env : Env Sc) (f depth : Nat) (nc : NC) (node : Node) (sc : Sc)
    (hf : (refBody cfg env f depth nc node sc).st ≠ .fuel)
    (hA : (attrsRun cfg env (fragOf cfg env f depth nc) node.d nc node.d.attrs (startPS cfg node.d sc)).st = .ok) :
    refBody cfg env f depth nc node sc =
      (({ st := .ok, out := [startChunk cfg env (fragOf cfg env f depth nc) node.d sc],
          log := node.d.attrs.flatMap (attrLog cfg env (fragOf cfg env f depth nc) sc), nc := nc } : Q).andThen
        fun nc => refChild cfg env f depth nc node (optFold cfg node.d.attrs (initOpt cfg node.d 3)).2 sc).andThen
        fun nc => Q.okQ (endChunks node.endVal (optFold cfg node.d.attrs (initOpt cfg node.d 3)).1) nc := by
  rw [refBody_unf cfg env f depth nc node sc hf]
  have F := attrsRun_form cfg env (fragOf cfg env f depth nc) node.d nc node.d.attrs (startPS cfg node.d sc) hA
  have hnc := attrsRun_nc cfg env (fragOf cfg env f depth nc) node.d nc node.d.attrs (startPS cfg node.d sc)
  have f1 := F.data; have f2 := F.opt; have f3 := F.token; have f4 := F.content; have f5 := F.tag; have f6 := F.log
  simp only [startPS_data, startPS_noPrint, startPS_child, startPS_tagBuf, startPS_tokenBuf, startPS_contentBuf,
    String.empty_append] at f1 f2 f3 f4 f5 f6
  have o1 : (attrsRun cfg env (fragOf cfg env f depth nc) node.d nc node.d.attrs (startPS cfg node.d sc)).ps.noPrint =
      (optFold cfg node.d.attrs (initOpt cfg node.d 3)).1 := congrArg Prod.fst f2
  have o2 : (attrsRun cfg env (fragOf cfg env f depth nc) node.d nc node.d.attrs (startPS cfg node.d sc)).ps.child =
      (optFold cfg node.d.attrs (initOpt cfg node.d 3)).2 := congrArg Prod.snd f2
  show bodyRun node (attrsRun cfg env (fragOf cfg env f depth nc) node.d nc node.d.attrs (startPS cfg node.d sc)) _ = _
  unfold bodyRun
  simp only [hA, finishTag]
  cases hnp : (optFold cfg node.d.attrs (initOpt cfg node.d 3)).1 with
  | true =>
    rw [hnp] at o1
    simp only [o1, if_true, o2, f1, f3, f6, hnc, startChunk, hnp, String.append_empty]
  | false =>
    rw [hnp] at o1
    have f5' := f5 o1
    have hi : (initOpt cfg node.d 3).1 = false := by
      cases hi : (initOpt cfg node.d 3).1 with
      | false => rfl
      | true =>
        have := optFold_fst_mono cfg node.d.attrs (initOpt cfg node.d 3).2
        rw [show (true, (initOpt cfg node.d 3).2) = initOpt cfg node.d 3 from Prod.ext hi.symm rfl, hnp] at this
        exact Bool.noConfusion this
    simp only [hi, Bool.false_eq_true, if_false] at f5'
    simp only [o1, Bool.false_eq_true, if_false, o2, f1, f3, f4, f5', f6, hnc, startChunk, hnp]

theorem refBody_attr_fail (cfg : Cfg) (env : Env Sc) (f depth : Nat) (nc : NC) (node : Node) (sc : Sc)
    (hf : (refBody cfg env f depth nc node sc).st ≠ .fuel)
    (hA : (attrsRun cfg env (fragOf cfg env f depth nc) node.d nc node.d.attrs (startPS cfg node.d sc)).st ≠ .ok) :
    refBody cfg env f depth nc node sc =
      { st := (attrsRun cfg env (fragOf cfg env f depth nc) node.d nc node.d.attrs (startPS cfg node.d sc)).st,
        out := [],
        log := (attrsRun cfg env (fragOf cfg env f depth nc) node.d nc node.d.attrs (startPS cfg node.d sc)).log,
        nc := nc } := by
  rw [refBody_unf cfg env f depth nc node sc hf]
  have hnc := attrsRun_nc cfg env (fragOf cfg env f depth nc) node.d nc node.d.attrs (startPS cfg node.d sc)
  show bodyRun node (attrsRun cfg env (fragOf cfg env f depth nc) node.d nc node.d.attrs (startPS cfg node.d sc)) _ = _
  unfold bodyRun
  split
  · rename_i h; exact absurd h hA
  · rw [hnc]

/-! ### remove modes, define / insert / replace: the option state -/

def isAll (a : CAttr) : Bool := a.value.getD "" == "\"all\"" || a.value.getD "" == "'all'"
def isBody (a : CAttr) : Bool := a.value.getD "" == "\"body\"" || a.value.getD "" == "'body'"
def isTagM (a : CAttr) : Bool := a.value.getD "" == "\"tag\"" || a.value.getD "" == "'tag'"
def isAbf (a : CAttr) : Bool := a.value.getD "" == "\"all-but-first\"" || a.value.getD "" == "'all-but-first'"

theorem removeOpt_all {a : CAttr} (h : isAll a = true) (o : Bool × ChildMode) : removeOpt a o = (true, .nop) := by
  unfold isAll at h; simp only [removeOpt, h, if_true]

theorem removeOpt_body {a : CAttr} (h : isBody a = true) (o : Bool × ChildMode) : (removeOpt a o).2 = .nop := by
  unfold isBody at h; simp only [removeOpt, h, if_true]; split <;> rfl

theorem removeOpt_tag {a : CAttr} (h : isTagM a = true) (o : Bool × ChildMode) : (removeOpt a o).1 = true := by
  unfold isTagM at h
  have h1 : (a.value.getD "" == "\"body\"" || a.value.getD "" == "'body'") = false := by
    simp only [Bool.or_eq_true, beq_iff_eq] at h
    rcases h with h | h <;> simp [h]
  simp only [removeOpt, h, h1, if_true, Bool.false_eq_true, if_false]; split <;> rfl

theorem removeOpt_abf {a : CAttr} (h : isAbf a = true) (b : Bool) : removeOpt a (b, .unset) = (b, .abf) := by
  unfold isAbf at h
  have h1 : (a.value.getD "" == "\"body\"" || a.value.getD "" == "'body'") = false ∧
      (a.value.getD "" == "\"all\"" || a.value.getD "" == "'all'") = false ∧
      (a.value.getD "" == "\"tag\"" || a.value.getD "" == "'tag'") = false := by
    simp only [Bool.or_eq_true, beq_iff_eq] at h
    rcases h with h | h <;> simp [h]
  simp only [removeOpt, h, h1.1, h1.2.1, h1.2.2, if_true, Bool.false_eq_true, if_false]

theorem optFold_all (cfg : Cfg) : ∀ (as : List CAttr) (o : Bool × ChildMode),
    (∃ a ∈ as, classify cfg a = .remove ∧ isAll a = true) → optFold cfg as o = (true, .nop) := by
  intro as
  induction as with
  | nil => intro o ⟨a, ha, _⟩; simp at ha
  | cons b rest ih =>
    intro o ⟨a, ha, hk, hall⟩
    simp only [optFold]
    rcases List.mem_cons.mp ha with e | hm
    · subst e
      simp only [optStep, hk, removeOpt_all hall]
      exact Prod.ext (optFold_fst_mono cfg rest .nop) (optFold_nop cfg rest true)
    · exact ih _ ⟨a, hm, hk, hall⟩

theorem optFold_body (cfg : Cfg) : ∀ (as : List CAttr) (o : Bool × ChildMode),
    (∃ a ∈ as, classify cfg a = .remove ∧ isBody a = true) → (optFold cfg as o).2 = .nop := by
  intro as
  induction as with
  | nil => intro o ⟨a, ha, _⟩; simp at ha
  | cons b rest ih =>
    intro o ⟨a, ha, hk, hall⟩
    simp only [optFold]
    rcases List.mem_cons.mp ha with e | hm
    · subst e
      have h2 : (optStep cfg a o).2 = .nop := by simp only [optStep, hk]; exact removeOpt_body hall o
      rw [show optStep cfg a o = ((optStep cfg a o).1, .nop) from Prod.ext rfl h2]
      exact optFold_nop cfg rest _
    · exact ih _ ⟨a, hm, hk, hall⟩

theorem optFold_tag (cfg : Cfg) : ∀ (as : List CAttr) (o : Bool × ChildMode),
    (∃ a ∈ as, classify cfg a = .remove ∧ isTagM a = true) → (optFold cfg as o).1 = true := by
  intro as
  induction as with
  | nil => intro o ⟨a, ha, _⟩; simp at ha
  | cons b rest ih =>
    intro o ⟨a, ha, hk, hall⟩
    simp only [optFold]
    rcases List.mem_cons.mp ha with e | hm
    · subst e
      have h2 : (optStep cfg a o).1 = true := by simp only [optStep, hk]; exact removeOpt_tag hall o
      rw [show optStep cfg a o = (true, (optStep cfg a o).2) from Prod.ext h2 rfl]
      exact optFold_fst_mono cfg rest _
    · exact ih _ ⟨a, hm, hk, hall⟩

/-- attribute kinds that touch (noPrint, child) in the rest phase -/
def touchesOpt : AK → Bool | .remove | .text | .raw => true | _ => false

theorem optStep_id {cfg : Cfg} {a : CAttr} (h : touchesOpt (classify cfg a) = false) (o : Bool × ChildMode) :
    optStep cfg a o = o := by
  unfold optStep; cases hk : classify cfg a <;> simp [hk, touchesOpt] at h ⊢

theorem optFold_id (cfg : Cfg) : ∀ (as : List CAttr) (o : Bool × ChildMode),
    (∀ a ∈ as, touchesOpt (classify cfg a) = false) → optFold cfg as o = o := by
  intro as
  induction as with
  | nil => intro o _; rfl
  | cons b rest ih =>
    intro o h
    simp only [optFold, optStep_id (h b (by simp))]
    exact ih _ (fun a ha => h a (by simp [ha]))

theorem optStep_abf_stable {cfg : Cfg} {a : CAttr} (h : classify cfg a ≠ .remove) (b : Bool) :
    optStep cfg a (b, .abf) = (b, .abf) := by
  unfold optStep; cases hk : classify cfg a <;> simp [hk, textOpt] at h ⊢

theorem optFold_abf_stable (cfg : Cfg) : ∀ (as : List CAttr) (b : Bool),
    (∀ a ∈ as, classify cfg a ≠ .remove) → optFold cfg as (b, .abf) = (b, .abf) := by
  intro as
  induction as with
  | nil => intro b _; rfl
  | cons x rest ih =>
    intro b h
    simp only [optFold, optStep_abf_stable (h x (by simp))]
    exact ih _ (fun a ha => h a (by simp [ha]))

theorem optFold_append (cfg : Cfg) (as bs : List CAttr) (o : Bool × ChildMode) :
    optFold cfg (as ++ bs) o = optFold cfg bs (optFold cfg as o) := by
  induction as generalizing o with
  | nil => rfl
  | cons a rest ih => simp only [List.cons_append, optFold, ih]

theorem optFold_abf (cfg : Cfg) (pre post : List CAttr) (a : CAttr) (b : Bool)
    (hpre : ∀ x ∈ pre, touchesOpt (classify cfg x) = false) (hk : classify cfg a = .remove) (ha : isAbf a = true)
    (hpost : ∀ x ∈ post, classify cfg x ≠ .remove) :
    optFold cfg (pre ++ a :: post) (b, .unset) = (b, .abf) := by
  rw [optFold_append, optFold_id cfg pre _ hpre]
  simp only [optFold, optStep, hk, removeOpt_abf ha]
  exact optFold_abf_stable cfg post b hpost

theorem initOpt3 (cfg : Cfg) (d : NodeD) :
    initOpt cfg d 3 =
      ((if hasKind cfg d.attrs (fun k => k == .define || k == .replace) then true
        else trimSlash (lowerS d.tagName) == cfg.tagPrefix ++ "block"),
       (if hasKind cfg d.attrs (· == .insert) then ChildMode.nop
        else if hasKind cfg d.attrs (fun k => k == .define || k == .replace) then ChildMode.nop else ChildMode.unset)) := by
  simp only [initOpt, show (3 &&& 1 == 0) = false from by decide, show (3 &&& 2 == 0) = false from by decide,
    Bool.and_false, Bool.false_eq_true, if_false]
  split <;> split <;> rfl

theorem join_map_empty {α : Type} (g : α → String) : ∀ (as : List α), (∀ a ∈ as, g a = "") → String.join (as.map g) = "" := by
  intro as
  induction as with
  | nil => intro _; rfl
  | cons a rest ih =>
    intro h
    simp only [List.map_cons, String.join_cons, h a (by simp), ih (fun x hx => h x (by simp [hx])), String.append_empty]

theorem join_map_single {α : Type} (g : α → String) (pre post : List α) (a : α) (hpre : ∀ x ∈ pre, g x = "")
    (hpost : ∀ x ∈ post, g x = "") : String.join ((pre ++ a :: post).map g) = g a := by
  simp only [List.map_append, List.map_cons, String.join_append, String.join_cons, join_map_empty g pre hpre,
    join_map_empty g post hpost, String.append_empty, String.empty_append]

theorem hasKind_false_iff {cfg : Cfg} {attrs : List CAttr} {p : AK → Bool} :
    hasKind cfg attrs p = false ↔ ∀ a ∈ attrs, p (classify cfg a) = false := by
  simp [hasKind]

theorem Q.andThen_okQ_nil (r : Q) : (r.andThen fun nc => Q.okQ [] nc) = r := by
  by_cases h : r.st = .ok
  · rw [Q.andThen_ok _ h]; cases r; simp_all
  · exact Q.andThen_not_ok _ h

/-- the rest phase of an element whose attribute evaluations succeed, with all callees at the same fuel -/
def bodySpec (cfg : Cfg) (env : Env Sc) (f depth : Nat) (nc : NC) (node : Node) (sc : Sc) : Q :=
  (({ st := .ok, out := [startChunk cfg env (fragOf cfg env f depth nc) node.d sc],
      log := node.d.attrs.flatMap (attrLog cfg env (fragOf cfg env f depth nc) sc), nc := nc } : Q).andThen
    fun nc => childRun env (fun nc ks => refKids cfg env f depth nc ks sc) (fun nc k => refNode cfg env f depth nc k sc)
      node nc (optFold cfg node.d.attrs (initOpt cfg node.d 3)).2 sc).andThen
    fun nc => Q.okQ (endChunks node.endVal (optFold cfg node.d.attrs (initOpt cfg node.d 3)).1) nc

/-- all attribute evaluations of the rest phase (dynamic attributes, fragment names, fragments) succeed -/
def AttrsOk (cfg : Cfg) (env : Env Sc) (f depth : Nat) (nc : NC) (node : Node) (sc : Sc) : Prop :=
  (attrsRun cfg env (fragOf cfg env f depth nc) node.d nc node.d.attrs (startPS cfg node.d sc)).st = .ok

theorem refBody_eq_bodySpec (cfg : Cfg) (env : Env Sc) (f depth : Nat) (nc : NC) (node : Node) (sc : Sc)
    (hf : (refBody cfg env f depth nc node sc).st ≠ .fuel) (hA : AttrsOk cfg env f depth nc node sc) :
    refBody cfg env f depth nc node sc = bodySpec cfg env f depth nc node sc := by
  have e := refBody_ok_form cfg env f depth nc node sc hf hA
  rw [e] at hf ⊢
  have h2 := (Q.andThen_ne_fuel (Q.andThen_ne_fuel hf).1).2 rfl
  simp only [] at h2
  unfold bodySpec
  congr 1
  rw [Q.andThen_ok _ rfl, Q.andThen_ok _ rfl]
  simp only []
  rw [refChild_unf cfg env f depth nc node _ sc h2]

/-! ### more on the attribute loop: static/dynamic attributes, fragments -/

theorem classify_plain_iff (cfg : Cfg) (a : CAttr) : classify cfg a = .plain ↔ a.name.startsWith cfg.attrPrefix = false := by
  constructor
  · intro h
    cases hs : a.name.startsWith cfg.attrPrefix with
    | false => rfl
    | true =>
      exfalso
      simp only [classify, hs, if_true] at h
      repeat' split at h
      all_goals cases h
  · exact classify_plain

/-- C05: a static attribute is dropped when the element also carries the dynamic attribute of the same name -/
theorem bodyStep_plain_overridden (cfg : Cfg) (env : Env Sc) (frag : Node → Sc → R) (d : NodeD) (a : CAttr) (ps : PS Sc)
    (nc : NC) (fl : Fl) (h : d.attrs.any (fun b => b.name == cfg.attrPrefix ++ a.name) = true) :
    bodyStep cfg env frag d a .plain ps nc fl = { st := .ok, ps := ps, log := [], nc := nc, fl := fl } := by
  simp only [bodyStep, h, if_true]

theorem attrText_overridden (cfg : Cfg) (env : Env Sc) (d : NodeD) (sc : Sc) (a : CAttr) (hk : classify cfg a = .plain)
    (h : d.attrs.any (fun b => b.name == cfg.attrPrefix ++ a.name) = true) : attrText cfg env d sc a = "" := by
  simp only [attrText, hk, h, if_true]

/-- C05: what one step of the rest phase can append to the start tag: nothing, or ` name…` where `name` is the
    command of a dynamic attribute (its name without the prefix) or the name of a static attribute, which does not
    start with the attribute prefix. No directive attribute (with, if, …, insert) is ever appended. -/
theorem bodyStep_tagBuf (cfg : Cfg) (env : Env Sc) (frag : Node → Sc → R) (d : NodeD) (a : CAttr) (ps : PS Sc) (nc : NC) (fl : Fl) :
    (bodyStep cfg env frag d a (classify cfg a) ps nc fl).ps.tagBuf = ps.tagBuf ∨
    ∃ nm rest, (bodyStep cfg env frag d a (classify cfg a) ps nc fl).ps.tagBuf = ps.tagBuf ++ " " ++ nm ++ rest ∧
      (classify cfg a = .dyn nm ∨
        (classify cfg a = .plain ∧ nm = a.name ∧ a.name.startsWith cfg.attrPrefix = false)) := by
  cases hk : classify cfg a with
  | with_ => left; rfl
  | cond b => left; rfl
  | range => left; rfl
  | remove => left; simp only [bodyStep]; exact (applyRemove_form a ps).2.1
  | text => left; simp only [bodyStep]; cases ps.child <;> rfl
  | raw => left; simp only [bodyStep]; cases ps.child <;> rfl
  | define => left; rfl
  | replace =>
    left; simp only [bodyStep]
    cases env.evalStr a ps.data with
    | mk e lg =>
      cases e with
      | error c => rfl
      | ok name =>
        simp only []
        cases env.tpl name with
        | none => rfl
        | some t => simp only []; split <;> rfl
  | insert =>
    left; simp only [bodyStep]
    cases env.evalStr a ps.data with
    | mk e lg =>
      cases e with
      | error c => rfl
      | ok name =>
        simp only []
        cases env.tpl name with
        | none => rfl
        | some t => simp only []; split <;> rfl
  | dyn cmd =>
    simp only [bodyStep]
    cases env.evalStr a ps.data with
    | mk e lg =>
      cases e with
      | error c => left; rfl
      | ok v =>
        simp only []
        cases hnp : ps.noPrint with
        | true => left; simp
        | false =>
          right
          refine ⟨cmd, "=\"" ++ escapeHtml v ++ "\"", ?_, by simp⟩
          simp [String.append_assoc]
  | plain =>
    simp only [bodyStep]
    split
    · left; rfl
    · cases hnp : ps.noPrint with
      | true => left; simp
      | false =>
        right
        have hsw := (classify_plain_iff cfg a).mp hk
        refine ⟨a.name, (match a.value with | some v => "=" ++ v | none => ""), ?_, by simp [hsw]⟩
        cases a.value <;> simp

theorem PR.andThen_assoc (r : PR Sc) (k1 k2 : PS Sc → NC → Fl → PR Sc) :
    (r.andThen k1).andThen k2 = r.andThen fun ps nc fl => (k1 ps nc fl).andThen k2 := by
  by_cases h : r.st = .ok
  · rw [PR.andThen_ok k1 h, PR.andThen_ok _ h]
    by_cases h1 : (k1 r.ps r.nc r.fl).st = .ok
    · rw [PR.andThen_ok _ (show ({ k1 r.ps r.nc r.fl with log := r.log ++ (k1 r.ps r.nc r.fl).log } : PR Sc).st = .ok from h1),
        PR.andThen_ok _ h1]
      simp [List.append_assoc]
    · rw [PR.andThen_not_ok _ (show ({ k1 r.ps r.nc r.fl with log := r.log ++ (k1 r.ps r.nc r.fl).log } : PR Sc).st ≠ .ok from h1),
        PR.andThen_not_ok _ h1]
  · rw [PR.andThen_not_ok k1 h, PR.andThen_not_ok _ h, PR.andThen_not_ok _ h]

theorem attrsRun_append (cfg : Cfg) (env : Env Sc) (frag : Node → Sc → R) (d : NodeD) (nc : NC) (as bs : List CAttr) :
    ∀ ps, attrsRun cfg env frag d nc (as ++ bs) ps =
      (attrsRun cfg env frag d nc as ps).andThen fun ps _ _ => attrsRun cfg env frag d nc bs ps := by
  induction as with
  | nil => intro ps; simp [attrsRun, PR.andThen]
  | cons a rest ih =>
    intro ps
    simp only [List.cons_append, attrsRun]
    split
    · exact ih ps
    · rw [PR.andThen_assoc]; congr 1; funext ps' _ _; exact ih ps'

/-- C07: the name of a fragment (insert / replace) that the manager does not know is `tplNotFound`; the attributes
    before it have been processed (their events are logged), nothing is written -/
theorem attrsRun_tplNotFound (cfg : Cfg) (env : Env Sc) (frag : Node → Sc → R) (d : NodeD) (nc : NC)
    (pre post : List CAttr) (a : CAttr) (ps : PS Sc) (name : String) (lg : List String)
    (hpre : (attrsRun cfg env frag d nc pre ps).st = .ok)
    (hk : classify cfg a = .replace ∨ classify cfg a = .insert)
    (hE : env.evalStr a ps.data = (.ok name, lg)) (hT : env.tpl name = none) :
    (attrsRun cfg env frag d nc (pre ++ a :: post) ps).st = .err .tplNotFound ∧
    (attrsRun cfg env frag d nc (pre ++ a :: post) ps).log = (attrsRun cfg env frag d nc pre ps).log ++ lg := by
  have hd := (attrsRun_form cfg env frag d nc pre ps hpre).data
  rw [attrsRun_append, PR.andThen_ok _ hpre]
  simp only [attrsRun]
  have hctl : isCtl cfg a = false := by rcases hk with h | h <;> simp [isCtl, h]
  simp only [hctl, Bool.false_eq_true, if_false]
  have hstep : bodyStep cfg env frag d a (classify cfg a) (attrsRun cfg env frag d nc pre ps).ps nc emptyFl =
      { st := .err .tplNotFound, ps := (attrsRun cfg env frag d nc pre ps).ps, log := lg, nc := nc, fl := emptyFl } := by
    rcases hk with h | h <;> simp only [h, bodyStep, hd, hE, hT]
  rw [hstep, PR.andThen_not_ok _ (by simp)]
  exact ⟨rfl, rfl⟩

/-- text of a successfully executed fragment: the joined output of the fragment root, rendered one level deeper and
    with fresh conditions -/
theorem fragTextOf_eq (cfg : Cfg) (env : Env Sc) (f depth : Nat) (nc : NC) (sc : Sc) (a : CAttr) (name : String)
    (lg : List String) (t : Node) (hE : env.evalStr a sc = (.ok name, lg)) (hT : env.tpl name = some t)
    (hok : (refFrag cfg env f depth nc t sc).st = .ok) :
    fragTextOf env (fragOf cfg env f depth nc) sc a = String.join (refNode cfg env f (depth + 1) emptyNc t sc).out := by
  simp only [fragTextOf, hE, hT, fragOf, Q.toR_text]
  have hne : (refFrag cfg env f depth nc t sc).st ≠ .fuel := by rw [hok]; simp
  rw [refFrag_unf cfg env f depth nc t sc hne] at hok ⊢
  unfold fragRun at hok ⊢
  split
  · rename_i h; simp [h] at hok
  · rename_i h
    simp only [h, if_false, Q.buffered_st] at hok
    simp [Q.buffered_out_ok hok]

/-! ## 6. frame lemma: an execution changes the recorded conditions only at ids of the nodes it renders -/

mutual
def ids : Node → List Nat
  | .mk d kids _ => d.id :: idsL kids
def idsL : List Node → List Nat
  | [] => []
  | k :: ks => ids k ++ idsL ks
end

theorem ids_eq (n : Node) : ids n = n.d.id :: idsL n.kids := by cases n; simp [ids, Node.d, Node.kids]

/-- `q` leaves the conditions of `nc` unchanged outside `S` -/
def Keeps (q : Q) (nc : NC) (S : List Nat) : Prop := ∀ j, j ∉ S → q.nc j = nc j

theorem Keeps.of_nc_eq {q : Q} {nc : NC} {S : List Nat} (h : q.nc = nc) : Keeps q nc S := fun _ _ => by rw [h]

theorem Keeps.mono {q : Q} {nc : NC} {S T : List Nat} (h : Keeps q nc S) (hst : ∀ j, j ∈ S → j ∈ T) : Keeps q nc T :=
  fun j hj => h j (fun hs => hj (hst j hs))

theorem Keeps.andThen {r : Q} {k : NC → Q} {nc : NC} {S : List Nat} (h1 : Keeps r nc S) (h2 : ∀ nc', Keeps (k nc') nc' S) :
    Keeps (r.andThen k) nc S := by
  intro j hj
  by_cases h : r.st = .ok
  · rw [Q.andThen_ok _ h]; simp only []; rw [h2 r.nc j hj, h1 j hj]
  · rw [Q.andThen_not_ok _ h]; exact h1 j hj

theorem Keeps.okQ (o : List String) (nc : NC) (S : List Nat) : Keeps (Q.okQ o nc) nc S := fun _ _ => rfl

theorem Keeps.setNc {q : Q} {nc : NC} {S : List Nat} {i : Nat} {b : Bool} (h : Keeps q (setNc nc i b) S) (hi : i ∈ S) :
    Keeps q nc S := by
  intro j hj
  rw [h j hj]
  have : j ≠ i := fun e => hj (e ▸ hi)
  simp [RN.setNc, this]

theorem evalCondQ_keeps (env : Env Sc) {rest : NC → Q} {nc : NC} {id : Nat} {ca : CAttr} {sc1 : Sc} {S : List Nat}
    (hr : ∀ nc', Keeps (rest nc') nc' S) (hi : id ∈ S) : Keeps (evalCondQ env rest nc id ca sc1) nc S := by
  unfold evalCondQ
  cases env.evalStr ca sc1 with
  | mk e lg =>
    cases e with
    | error c => exact Keeps.of_nc_eq rfl
    | ok v =>
      simp only []
      split
      · have := hr (RN.setNc nc id true)
        refine Keeps.setNc (b := true) ?_ hi
        intro j hj; simp only [Q.addLogS_nc, Q.buffered_nc]; exact this j hj
      · refine Keeps.setNc (b := false) ?_ hi
        exact Keeps.of_nc_eq rfl

theorem tagPhases_keeps (cfg : Cfg) (env : Env Sc) {d : NodeD} {rest : NC → Sc → Q} {nc : NC} {sc : Sc} {S : List Nat}
    (hr : ∀ nc' sc', Keeps (rest nc' sc') nc' S) (hi : d.id ∈ S) : Keeps (tagPhases cfg env d nc rest sc) nc S := by
  unfold tagPhases
  cases withPhase cfg env d sc with
  | mk e lg =>
    cases e with
    | error c => exact Keeps.of_nc_eq rfl
    | ok sc1 =>
      simp only []
      intro j hj
      simp only [Q.addLogS_nc]
      revert j
      show Keeps (condPhase cfg env d nc (fun nc => rest nc sc1) sc1) nc S
      unfold condPhase
      cases condAttr cfg d.attrs with
      | none => exact hr nc sc1
      | some p =>
        obtain ⟨ca, isIf⟩ := p
        simp only []
        cases ca.value with
        | none => exact Keeps.of_nc_eq rfl
        | some v =>
          simp only []
          cases isIf
          · simp only [Bool.false_eq_true, if_false]
            cases d.prevTag.bind nc with
            | none => exact Keeps.of_nc_eq rfl
            | some b =>
              cases b
              · exact evalCondQ_keeps env (fun nc' => hr nc' sc1) hi
              · exact Keeps.setNc (b := true) (Keeps.of_nc_eq rfl) hi
          · simp only [if_true]; exact evalCondQ_keeps env (fun nc' => hr nc' sc1) hi

structure FrameAt (cfg : Cfg) (env : Env Sc) (f : Nat) : Prop where
  node : ∀ depth nc node sc, Keeps (refNode cfg env f depth nc node sc) nc (ids node)
  kids : ∀ depth nc ks sc, Keeps (refKids cfg env f depth nc ks sc) nc (idsL ks)
  range : ∀ depth nc node ra sc, Keeps (refRange cfg env f depth nc node ra sc) nc (idsL node.kids)
  items : ∀ depth nc node its first, Keeps (refItems cfg env f depth nc node its first) nc (idsL node.kids)
  body : ∀ depth nc node sc, Keeps (refBody cfg env f depth nc node sc) nc (idsL node.kids)
  attrs : ∀ depth nc d as ps, (refAttrs cfg env f depth nc d as ps).nc = nc
  frag : ∀ depth nc t sc, (refFrag cfg env f depth nc t sc).nc = nc
  child : ∀ depth nc node mode sc, Keeps (refChild cfg env f depth nc node mode sc) nc (idsL node.kids)

theorem abfParts_mem (kids : List Node) :
    (∀ k, (abfParts kids).1 = some k → k ∈ kids) ∧ (∀ k, (abfParts kids).2.1 = some k → k ∈ kids) ∧
    (∀ k, (abfParts kids).2.2 = some k → k ∈ kids) := by
  unfold abfParts
  simp only []
  refine ⟨?_, ?_, ?_⟩
  · intro k h
    split at h
    · cases hh : kids.head? with
      | none => simp [hh] at h
      | some x =>
        simp only [hh] at h
        split at h
        · cases h; exact List.mem_of_mem_head? hh
        · cases h
    · cases h
  · intro k h; exact List.mem_of_getElem? h
  · intro k h
    cases hh : kids.getLast? with
    | none => simp [hh] at h
    | some x =>
      simp only [hh] at h
      split at h
      · cases h; exact List.mem_of_getLast? hh
      · cases h

theorem ids_sub_idsL {k : Node} {ks : List Node} (h : k ∈ ks) : ∀ j, j ∈ ids k → j ∈ idsL ks := by
  induction ks with
  | nil => cases h
  | cons x rest ih =>
    intro j hj
    simp only [idsL, List.mem_append]
    rcases List.mem_cons.mp h with e | hm
    · left; rw [← e]; exact hj
    · right; exact ih hm j hj

theorem frame (cfg : Cfg) (env : Env Sc) : ∀ f, FrameAt cfg env f := by
  intro f
  induction f with
  | zero =>
    constructor <;> intros <;> first
      | exact Keeps.of_nc_eq (by simp [refNode, refKids, refRange, refItems, refBody, refChild])
      | simp [refAttrs, refFrag]
  | succ f ih =>
    have hchildSub : ∀ (node : Node) j, j ∈ idsL node.kids → j ∈ ids node := by
      intro node j hj; rw [ids_eq]; exact List.mem_cons_of_mem _ hj
    have hrest : ∀ depth node nc' sc', Keeps (refRest cfg env f depth nc' node sc') nc' (idsL node.kids) := by
      intro depth node nc' sc'
      unfold refRest
      cases rangeAttr cfg node.d.attrs with
      | none => exact ih.body _ _ _ _
      | some ra => exact ih.range _ _ _ _ _
    constructor
    · intro depth nc node sc
      by_cases hk : node.d.kind = .tag
      · rw [refNode_tag _ _ _ _ _ _ _ hk]
        exact tagPhases_keeps cfg env (fun nc' sc' => (hrest depth node nc' sc').mono (hchildSub node)) (by rw [ids_eq]; simp)
      · rw [refNode_nontag _ _ _ _ _ _ _ hk]
        refine Keeps.andThen (Keeps.okQ _ _ _) (fun nc' => Keeps.andThen ?_ (fun nc'' => Keeps.okQ _ _ _))
        exact (ih.kids _ _ _ _).mono (hchildSub node)
    · intro depth nc ks sc
      cases ks with
      | nil => simp only [refKids]; exact Keeps.okQ _ _ _
      | cons k ks =>
        rw [refKids]
        refine Keeps.andThen ((ih.node _ _ _ _).mono ?_) (fun nc' => (ih.kids _ _ _ _).mono ?_)
        · intro j hj; simp only [idsL, List.mem_append]; exact Or.inl hj
        · intro j hj; simp only [idsL, List.mem_append]; exact Or.inr hj
    · intro depth nc node ra sc
      rw [refRange]
      cases ra.value with
      | none => exact Keeps.of_nc_eq rfl
      | some v =>
        simp only []
        cases env.rangeItems ra sc with
        | mk e lg =>
          cases e with
          | error c => exact Keeps.of_nc_eq rfl
          | ok its =>
            simp only []
            intro j hj
            simp only [Q.buffered_nc]
            exact ih.items _ _ _ _ _ j hj
    · intro depth nc node its first
      cases its with
      | nil => simp only [refItems]; exact Keeps.okQ _ _ _
      | cons sc rest =>
        rw [refItems_cons]
        exact Keeps.andThen (Keeps.andThen (Keeps.okQ _ _ _) (fun nc' => ih.body _ _ _ _)) (fun nc' => ih.items _ _ _ _ _)
    · intro depth nc node sc
      have e0 : refBody cfg env (f+1) depth nc node sc =
          bodyRun node (refAttrs cfg env f depth nc node.d node.d.attrs (startPS cfg node.d sc))
            (fun nc mode sc => refChild cfg env f depth nc node mode sc) := by
        rw [refBody]; rfl
      rw [e0]
      unfold bodyRun
      have hnc := ih.attrs depth nc node.d node.d.attrs (startPS cfg node.d sc)
      split
      · refine Keeps.andThen (Keeps.andThen (Keeps.of_nc_eq hnc) (fun nc' => ?_)) (fun nc' => Keeps.okQ _ _ _)
        exact ih.child _ _ _ _ _
      · exact Keeps.of_nc_eq hnc
    · intro depth nc d as ps
      cases as with
      | nil => simp only [refAttrs]
      | cons a rest =>
        rw [refAttrs]
        split
        · exact ih.attrs _ _ _ _ _
        · by_cases hs : (bodyStep cfg env (fun t sc => (refFrag cfg env f depth nc t sc).toR emptyFl) d a (classify cfg a) ps nc
              emptyFl).st = .ok
          · rw [PR.andThen_ok _ hs]; simp only []; rw [ih.attrs, bodyStep_nc]
          · rw [PR.andThen_not_ok _ hs, bodyStep_nc]
    · intro depth nc t sc
      rw [refFrag]; split <;> rfl
    · intro depth nc node mode sc
      rw [refChild_succ]
      obtain ⟨m1, m2, m3⟩ := abfParts_mem node.kids
      have hopt : ∀ (o : Option Node) nc', (∀ k, o = some k → k ∈ node.kids) →
          Keeps (optRun (fun nc k => refNode cfg env f depth nc k sc) o nc') nc' (idsL node.kids) := by
        intro o nc' ho
        cases o with
        | none => exact Keeps.okQ _ _ _
        | some k => exact (ih.node _ _ _ _).mono (ids_sub_idsL (ho k rfl))
      cases mode with
      | unset => exact ih.kids _ _ _ _
      | nop => exact Keeps.okQ _ _ _
      | textLike a isText =>
        simp only [childRun]
        cases env.evalStr a sc with
        | mk e lg => cases e <;> exact Keeps.of_nc_eq rfl
      | abf =>
        simp only [childRun]
        exact Keeps.andThen (hopt _ _ m1) (fun nc' => Keeps.andThen (hopt _ _ m2) (fun nc'' => hopt _ _ m3))

theorem refRest_keeps (cfg : Cfg) (env : Env Sc) (f depth : Nat) (nc : NC) (node : Node) (sc : Sc) :
    Keeps (refRest cfg env f depth nc node sc) nc (idsL node.kids) := by
  unfold refRest
  cases rangeAttr cfg node.d.attrs with
  | none => exact (frame cfg env f).body _ _ _ _
  | some ra => exact (frame cfg env f).range _ _ _ _ _

/-! ## C03: conditional chains over a sibling list -/

/-- abstract semantics of one chain element, given the satisfied-so-far flag `sat`: result and new flag.
    The `with` assignment is always evaluated; the condition only when no earlier element was satisfied; the body
    only when the condition is the string "true". -/
def chainElem (cfg : Cfg) (env : Env Sc) (restF : NC → Sc → Q) (d : NodeD) (ca : CAttr) (sc : Sc) (sat : Bool) (nc : NC) :
    Q × Bool :=
  match withPhase cfg env d sc with
  | (.error c, lg) => ({ st := .err c, log := lg, nc := nc }, sat)
  | (.ok sc1, lg) =>
    if sat then ({ st := .ok, out := [""], log := lg, nc := setNc nc d.id true }, true)
    else
      match env.evalStr ca sc1 with
      | (.error c, lgc) => ({ st := .err c, log := lg ++ lgc, nc := nc }, false)
      | (.ok v, lgc) =>
        if v == "true" then
          ({ st := (restF (setNc nc d.id true) sc1).st, out := (restF (setNc nc d.id true) sc1).buffered.out,
             log := lg ++ (lgc ++ (restF (setNc nc d.id true) sc1).log), nc := (restF (setNc nc d.id true) sc1).nc }, true)
        else ({ st := .ok, out := [""], log := lg ++ lgc, nc := setNc nc d.id false }, false)

def condOf (cfg : Cfg) (k : Node) : CAttr := ((condAttr cfg k.d.attrs).map (·.1)).getD default

/-- ChainSpec: the abstract semantics of a sibling list that continues a chain. `sat` = an earlier element of the
    chain was satisfied. Non-tag siblings are transparent (rendered, flag unchanged). -/
def chainRun (cfg : Cfg) (env : Env Sc) (nodeF : NC → Node → Q) (restF : NC → Node → Sc → Q) (sc : Sc) :
    Bool → NC → List Node → Q
  | _, nc, [] => Q.okQ [] nc
  | sat, nc, k :: ks =>
    if k.d.kind = .tag then
      (chainElem cfg env (fun nc sc1 => restF nc k sc1) k.d (condOf cfg k) sc sat nc).1.andThen fun nc' =>
        chainRun cfg env nodeF restF sc (chainElem cfg env (fun nc sc1 => restF nc k sc1) k.d (condOf cfg k) sc sat nc).2 nc' ks
    else (nodeF nc k).andThen fun nc' => chainRun cfg env nodeF restF sc sat nc' ks

/-- the siblings after a chain element with id `prev` continue its chain: else-family elements with values, each
    naming the previous one as its previous sibling tag, separated by non-tag siblings only -/
inductive ChainTail (cfg : Cfg) : Nat → List Node → Prop
  | nil (prev : Nat) : ChainTail cfg prev []
  | skip (prev : Nat) (t : Node) (ks : List Node) : t.d.kind ≠ .tag → prev ∉ ids t → ChainTail cfg prev ks →
      ChainTail cfg prev (t :: ks)
  | elem (prev : Nat) (e : Node) (ks : List Node) (ca : CAttr) (v : String) : e.d.kind = .tag → e.d.prevTag = some prev →
      condAttr cfg e.d.attrs = some (ca, false) → ca.value = some v → e.d.id ∉ idsL e.kids → ChainTail cfg e.d.id ks →
      ChainTail cfg prev (e :: ks)

/-- a chain: an `if` element followed by its tail -/
inductive Chain (cfg : Cfg) : List Node → Prop
  | mk (e : Node) (ks : List Node) (ca : CAttr) (v : String) : e.d.kind = .tag →
      condAttr cfg e.d.attrs = some (ca, true) → ca.value = some v → e.d.id ∉ idsL e.kids → ChainTail cfg e.d.id ks →
      Chain cfg (e :: ks)

theorem Q.andThen_congr_ok {r : Q} {k k' : NC → Q} (h : r.st = .ok → k r.nc = k' r.nc) : r.andThen k = r.andThen k' := by
  by_cases hr : r.st = .ok
  · rw [Q.andThen_ok _ hr, Q.andThen_ok _ hr, h hr]
  · rw [Q.andThen_not_ok _ hr, Q.andThen_not_ok _ hr]

/-- one chain element of the specification is the abstract element, and it records its outcome under its own id -/
theorem tagPhases_chainElem (cfg : Cfg) (env : Env Sc) (d : NodeD) (nc : NC) (rest : NC → Sc → Q) (sc : Sc)
    (ca : CAttr) (isIf : Bool) (v : String) (sat : Bool) (S : List Nat)
    (hc : condAttr cfg d.attrs = some (ca, isIf)) (hv : ca.value = some v) (hs : satBefore isIf d nc = some sat)
    (hK : ∀ nc' sc', Keeps (rest nc' sc') nc' S) (hid : d.id ∉ S) :
    tagPhases cfg env d nc rest sc = (chainElem cfg env rest d ca sc sat nc).1 ∧
    ((chainElem cfg env rest d ca sc sat nc).1.st = .ok →
      (chainElem cfg env rest d ca sc sat nc).1.nc d.id = some (chainElem cfg env rest d ca sc sat nc).2) := by
  unfold chainElem
  cases hw : withPhase cfg env d sc with
  | mk e lg =>
    cases e with
    | error c => simp [tagPhases_with_error cfg env hw]
    | ok sc1 =>
      rw [tagPhases_cond cfg env hw hc hv, hs]
      cases sat with
      | true =>
        simp only [chainStep, if_true]
        exact ⟨Q.ext' rfl rfl (by simp) rfl, fun _ => by simp [setNc]⟩
      | false =>
        simp only [chainStep, evalCondQ, Bool.false_eq_true, if_false]
        cases hE : env.evalStr ca sc1 with
        | mk e2 lgc =>
          cases e2 with
          | error c => simp [Q.addLogS]
          | ok v2 =>
            simp only []
            split
            · refine ⟨Q.ext' (by simp) rfl (by simp) (by simp), fun _ => ?_⟩
              simp only []
              rw [hK (setNc nc d.id true) sc1 d.id hid]
              simp [setNc]
            · exact ⟨Q.ext' rfl rfl (by simp) rfl, fun _ => by simp [setNc]⟩

/-- C03, refinement of ChainSpec: over the tail of a chain the recorded-condition mechanism of the specification
    (`prevTag` look-ups in `nc`) computes exactly the abstract flag semantics -/
theorem kidsRun_chainTail (cfg : Cfg) (env : Env Sc) (nodeF : NC → Node → Q) (restF : NC → Node → Sc → Q) (sc : Sc)
    (H1 : ∀ nc k, k.d.kind = .tag → nodeF nc k = tagPhases cfg env k.d nc (fun nc sc1 => restF nc k sc1) sc)
    (H2 : ∀ nc k, Keeps (nodeF nc k) nc (ids k))
    (H3 : ∀ nc k sc1, Keeps (restF nc k sc1) nc (idsL k.kids)) :
    ∀ (ks : List Node) (prev : Nat), ChainTail cfg prev ks → ∀ (sat : Bool) (nc : NC), nc prev = some sat →
      kidsRun nodeF nc ks = chainRun cfg env nodeF restF sc sat nc ks := by
  intro ks prev hch
  induction hch with
  | nil prev => intro sat nc _; rfl
  | skip prev t ks hk hp _ ih =>
    intro sat nc hs
    simp only [kidsRun, chainRun, hk, if_false]
    apply Q.andThen_congr_ok
    intro _
    exact ih sat _ (by rw [H2 nc t prev hp]; exact hs)
  | elem prev e ks ca v hk hpt hc hv hid _ ih =>
    intro sat nc hs
    have hco : condOf cfg e = ca := by simp [condOf, hc]
    have hsb : satBefore false e.d nc = some sat := by simp [satBefore, hpt, hs]
    obtain ⟨e1, e2⟩ := tagPhases_chainElem cfg env e.d nc (fun nc sc1 => restF nc e sc1) sc ca false v sat (idsL e.kids)
      hc hv hsb (fun nc' sc' => H3 nc' e sc') hid
    simp only [kidsRun, chainRun, hk, if_true, hco]
    rw [H1 nc e hk, e1]
    apply Q.andThen_congr_ok
    intro hok
    exact ih _ _ (e2 hok)

/-- C03: a chain starts with `sat = false`, whatever conditions were recorded before (an `if` resets the flag) -/
theorem kidsRun_chain (cfg : Cfg) (env : Env Sc) (nodeF : NC → Node → Q) (restF : NC → Node → Sc → Q) (sc : Sc)
    (H1 : ∀ nc k, k.d.kind = .tag → nodeF nc k = tagPhases cfg env k.d nc (fun nc sc1 => restF nc k sc1) sc)
    (H2 : ∀ nc k, Keeps (nodeF nc k) nc (ids k))
    (H3 : ∀ nc k sc1, Keeps (restF nc k sc1) nc (idsL k.kids))
    (ks : List Node) (hch : Chain cfg ks) (nc : NC) :
    kidsRun nodeF nc ks = chainRun cfg env nodeF restF sc false nc ks := by
  cases hch with
  | mk e ks ca v hk hc hv hid htail =>
    have hco : condOf cfg e = ca := by simp [condOf, hc]
    obtain ⟨e1, e2⟩ := tagPhases_chainElem cfg env e.d nc (fun nc sc1 => restF nc e sc1) sc ca true v false (idsL e.kids)
      hc hv (by simp [satBefore]) (fun nc' sc' => H3 nc' e sc') hid
    simp only [kidsRun, chainRun, hk, if_true, hco]
    rw [H1 nc e hk, e1]
    apply Q.andThen_congr_ok
    intro hok
    exact kidsRun_chainTail cfg env nodeF restF sc H1 H2 H3 ks e.d.id htail _ _ (e2 hok)

/-! ### closed form: exactly the first true element is rendered -/

structure ElemEval (Sc : Type) where
  sc1 : Sc
  lw : List String
  v : String
  lc : List String

/-- scope, `with` events, condition value and condition events of a chain element, when both evaluations succeed -/
def elemEval (cfg : Cfg) (env : Env Sc) (sc : Sc) (k : Node) : Option (ElemEval Sc) :=
  match withPhase cfg env k.d sc with
  | (.ok sc1, lw) => (match env.evalStr (condOf cfg k) sc1 with | (.ok v, lc) => some ⟨sc1, lw, v, lc⟩ | _ => none)
  | _ => none

/-- chunks of a sibling that is not the selected element: an element gives the empty chunk, a text / comment leaf
    is printed -/
def sibChunks (k : Node) : List String :=
  if k.d.kind = .tag then [""]
  else headChunk k.d :: endChunks k.endVal (k.d.kind == .comment && isHiddenComment k.d.value)

/-- events of an element before the selected one: `with`, then its condition -/
def falseLog (cfg : Cfg) (env : Env Sc) (sc : Sc) (k : Node) : List String :=
  if k.d.kind = .tag then (match elemEval cfg env sc k with | some ev => ev.lw ++ ev.lc | none => []) else []

/-- events of an element after the selected one: `with` only -/
def withLog (cfg : Cfg) (env : Env Sc) (sc : Sc) (k : Node) : List String :=
  if k.d.kind = .tag then (withPhase cfg env k.d sc).2 else []

def ncMark (b : Bool) (nc : NC) : List Node → NC
  | [] => nc
  | k :: ks => ncMark b (if k.d.kind = .tag then setNc nc k.d.id b else nc) ks

/-- siblings whose conditions evaluate to something else than "true" (leaves in between) -/
def AllFalse (cfg : Cfg) (env : Env Sc) (sc : Sc) (ks : List Node) : Prop :=
  ∀ k ∈ ks, (k.d.kind = .tag → ∃ ev, elemEval cfg env sc k = some ev ∧ (ev.v == "true") = false) ∧
    (k.d.kind ≠ .tag → k.kids = [])

/-- siblings whose `with` assignments succeed (leaves in between) -/
def AllWith (cfg : Cfg) (env : Env Sc) (sc : Sc) (ks : List Node) : Prop :=
  ∀ k ∈ ks, (k.d.kind = .tag → ∃ sc1 lw, withPhase cfg env k.d sc = (.ok sc1, lw)) ∧ (k.d.kind ≠ .tag → k.kids = [])

theorem Q.mk_ok_andThen (o l : List String) (n : NC) (k : NC → Q) :
    ({ st := .ok, out := o, log := l, nc := n } : Q).andThen k =
      { st := (k n).st, out := o ++ (k n).out, log := l ++ (k n).log, nc := (k n).nc } := Q.andThen_ok _ rfl

theorem chainRun_allFalse (cfg : Cfg) (env : Env Sc) (nodeF : NC → Node → Q) (restF : NC → Node → Sc → Q) (sc : Sc)
    (H4 : ∀ nc k, k.d.kind ≠ .tag → k.kids = [] → nodeF nc k = Q.okQ (sibChunks k) nc) :
    ∀ (pre rest : List Node) (nc : NC), AllFalse cfg env sc pre →
      chainRun cfg env nodeF restF sc false nc (pre ++ rest) =
        ({ st := .ok, out := pre.flatMap sibChunks, log := pre.flatMap (falseLog cfg env sc), nc := ncMark false nc pre } : Q).andThen
          fun nc' => chainRun cfg env nodeF restF sc false nc' rest := by
  intro pre
  induction pre with
  | nil => intro rest nc _; rw [Q.mk_ok_andThen]; simp [ncMark]
  | cons k pre ih =>
    intro rest nc h
    have hk := h k (by simp)
    have hrest : AllFalse cfg env sc pre := fun x hx => h x (by simp [hx])
    simp only [List.cons_append, chainRun]
    by_cases ht : k.d.kind = .tag
    · obtain ⟨ev, hev, hv⟩ := hk.1 ht
      simp only [ht, if_true]
      have hce : chainElem cfg env (fun nc sc1 => restF nc k sc1) k.d (condOf cfg k) sc false nc =
          ({ st := .ok, out := [""], log := ev.lw ++ ev.lc, nc := setNc nc k.d.id false }, false) := by
        unfold elemEval at hev
        unfold chainElem
        cases hw : withPhase cfg env k.d sc with
        | mk e lw =>
          cases e with
          | error c => simp [hw] at hev
          | ok sc1 =>
            simp only [hw] at hev
            cases hE : env.evalStr (condOf cfg k) sc1 with
            | mk e2 lc =>
              cases e2 with
              | error c => simp [hE] at hev
              | ok v =>
                simp only [hE, Option.some.injEq] at hev
                subst hev
                simp only [hE, Bool.false_eq_true, if_false]
                simp only [] at hv
                simp [hv]
      rw [hce]
      simp only []
      rw [Q.mk_ok_andThen, ih rest _ hrest, Q.mk_ok_andThen, Q.mk_ok_andThen]
      simp [sibChunks, falseLog, ht, hev, ncMark]
    · simp only [ht, if_false]
      rw [H4 nc k ht (hk.2 ht), Q.okQ_andThen, ih rest _ hrest, Q.mk_ok_andThen, Q.mk_ok_andThen]
      simp [sibChunks, falseLog, ht, ncMark]

theorem chainRun_afterSelected (cfg : Cfg) (env : Env Sc) (nodeF : NC → Node → Q) (restF : NC → Node → Sc → Q) (sc : Sc)
    (H4 : ∀ nc k, k.d.kind ≠ .tag → k.kids = [] → nodeF nc k = Q.okQ (sibChunks k) nc) :
    ∀ (post : List Node) (nc : NC), AllWith cfg env sc post →
      chainRun cfg env nodeF restF sc true nc post =
        { st := .ok, out := post.flatMap sibChunks, log := post.flatMap (withLog cfg env sc), nc := ncMark true nc post } := by
  intro post
  induction post with
  | nil => intro nc _; rfl
  | cons k post ih =>
    intro nc h
    have hk := h k (by simp)
    have hrest : AllWith cfg env sc post := fun x hx => h x (by simp [hx])
    simp only [chainRun]
    by_cases ht : k.d.kind = .tag
    · obtain ⟨sc1, lw, hw⟩ := hk.1 ht
      simp only [ht, if_true]
      have hce : chainElem cfg env (fun nc sc1 => restF nc k sc1) k.d (condOf cfg k) sc true nc =
          ({ st := .ok, out := [""], log := lw, nc := setNc nc k.d.id true }, true) := by
        simp [chainElem, hw]
      rw [hce]
      simp only []
      rw [Q.mk_ok_andThen, ih _ hrest]
      simp [sibChunks, withLog, ht, hw, ncMark]
    · simp only [ht, if_false]
      rw [H4 nc k ht (hk.2 ht), Q.okQ_andThen, ih _ hrest]
      simp [sibChunks, withLog, ht, ncMark]

/-- C03(a), closed form on ChainSpec. In `pre ++ e :: post`, if the conditions of the elements of `pre` evaluate to
    something else than "true" and the condition of `e` to "true", then: the elements of `pre` and `post` contribute
    the empty chunk each; `e` contributes its body as one chunk; the events are, in sibling order, `with` and condition
    of the elements of `pre`, `with`, condition and body of `e`, and ONLY the `with` events of the elements of `post`
    (their conditions are not evaluated). If the body fails, that failure is the result and nothing after is run. -/
theorem chainRun_first_true (cfg : Cfg) (env : Env Sc) (nodeF : NC → Node → Q) (restF : NC → Node → Sc → Q) (sc : Sc)
    (H4 : ∀ nc k, k.d.kind ≠ .tag → k.kids = [] → nodeF nc k = Q.okQ (sibChunks k) nc)
    (pre post : List Node) (e : Node) (ev : ElemEval Sc) (nc : NC)
    (hpre : AllFalse cfg env sc pre) (hk : e.d.kind = .tag) (hev : elemEval cfg env sc e = some ev)
    (hv : (ev.v == "true") = true) (hpost : AllWith cfg env sc post) :
    let body := restF (setNc (ncMark false nc pre) e.d.id true) e ev.sc1
    chainRun cfg env nodeF restF sc false nc (pre ++ e :: post) =
      if body.st = .ok then
        { st := .ok,
          out := pre.flatMap sibChunks ++ ([String.join body.out] ++ post.flatMap sibChunks),
          log := pre.flatMap (falseLog cfg env sc) ++ (ev.lw ++ (ev.lc ++ body.log) ++ post.flatMap (withLog cfg env sc)),
          nc := ncMark true body.nc post }
      else
        { st := body.st, out := pre.flatMap sibChunks ++ [],
          log := pre.flatMap (falseLog cfg env sc) ++ (ev.lw ++ (ev.lc ++ body.log)), nc := body.nc } := by
  intro body
  rw [chainRun_allFalse cfg env nodeF restF sc H4 pre (e :: post) nc hpre, Q.mk_ok_andThen]
  simp only [chainRun, hk, if_true]
  have hce : chainElem cfg env (fun nc sc1 => restF nc e sc1) e.d (condOf cfg e) sc false (ncMark false nc pre) =
      ({ st := body.st, out := body.buffered.out, log := ev.lw ++ (ev.lc ++ body.log), nc := body.nc }, true) := by
    unfold elemEval at hev
    unfold chainElem
    cases hw : withPhase cfg env e.d sc with
    | mk x lw =>
      cases x with
      | error c => simp [hw] at hev
      | ok sc1 =>
        simp only [hw] at hev
        cases hE : env.evalStr (condOf cfg e) sc1 with
        | mk e2 lc =>
          cases e2 with
          | error c => simp [hE] at hev
          | ok v =>
            simp only [hE, Option.some.injEq] at hev
            subst hev
            simp only [hE, Bool.false_eq_true, if_false]
            simp only [] at hv
            simp only [hv, if_true]
            rfl
  rw [hce]
  simp only []
  by_cases hb : body.st = .ok
  · rw [Q.andThen_ok _ (show ({ st := body.st, out := body.buffered.out, log := ev.lw ++ (ev.lc ++ body.log), nc := body.nc } : Q).st = .ok from hb)]
    simp only []
    rw [chainRun_afterSelected cfg env nodeF restF sc H4 post body.nc hpost]
    simp [hb, Q.buffered_out_ok hb]
  · rw [Q.andThen_not_ok _ (show ({ st := body.st, out := body.buffered.out, log := ev.lw ++ (ev.lc ++ body.log), nc := body.nc } : Q).st ≠ .ok from hb)]
    simp [hb, Q.buffered_out_not_ok hb]

/-- C03(a): no condition is "true": every element of the chain gives the empty chunk (an `else` has the condition
    value "true" in this implementation, so this is a chain without a satisfied `else`) -/
theorem chainRun_none_true (cfg : Cfg) (env : Env Sc) (nodeF : NC → Node → Q) (restF : NC → Node → Sc → Q) (sc : Sc)
    (H4 : ∀ nc k, k.d.kind ≠ .tag → k.kids = [] → nodeF nc k = Q.okQ (sibChunks k) nc)
    (ks : List Node) (nc : NC) (h : AllFalse cfg env sc ks) :
    chainRun cfg env nodeF restF sc false nc ks =
      { st := .ok, out := ks.flatMap sibChunks, log := ks.flatMap (falseLog cfg env sc), nc := ncMark false nc ks } := by
  have := chainRun_allFalse cfg env nodeF restF sc H4 ks [] nc h
  rw [List.append_nil] at this
  rw [this, Q.mk_ok_andThen]
  simp [chainRun]

/-! ## C12: a failure stops the rendering -/

theorem Q.andThen_assoc (r : Q) (k1 k2 : NC → Q) :
    (r.andThen k1).andThen k2 = r.andThen fun nc => (k1 nc).andThen k2 := by
  unfold Q.andThen
  cases h : r.st <;> simp only [h]
  cases h1 : (k1 r.nc).st <;> simp [h1, List.append_assoc]

theorem kidsRun_append (F : NC → Node → Q) (pre post : List Node) :
    ∀ nc, kidsRun F nc (pre ++ post) = (kidsRun F nc pre).andThen fun nc => kidsRun F nc post := by
  induction pre with
  | nil => intro nc; simp [kidsRun]
  | cons k pre ih =>
    intro nc
    simp only [List.cons_append, kidsRun, Q.andThen_assoc]
    congr 1; funext nc'; exact ih nc'

/-- what is written before a failing step is a prefix of the whole output, and nothing is added after it -/
theorem Q.andThen_out_prefix (r : Q) (k : NC → Q) : r.out <+: (r.andThen k).out := by
  by_cases h : r.st = .ok
  · rw [Q.andThen_ok _ h]; exact List.prefix_append _ _
  · rw [Q.andThen_not_ok _ h]; exact List.prefix_refl _

theorem Q.andThen_log_prefix (r : Q) (k : NC → Q) : r.log <+: (r.andThen k).log := by
  by_cases h : r.st = .ok
  · rw [Q.andThen_ok _ h]; exact List.prefix_append _ _
  · rw [Q.andThen_not_ok _ h]; exact List.prefix_refl _

/-- C12 on the fold: if the children `pre` succeed and the next child `k` does not, the result is that failure;
    chunks and events are those of `pre` followed by the partial ones of `k`; `post` contributes nothing. -/
theorem kidsRun_fail (F : NC → Node → Q) (pre post : List Node) (k : Node) (nc : NC)
    (hpre : (kidsRun F nc pre).st = .ok) (hk : (F (kidsRun F nc pre).nc k).st ≠ .ok) :
    kidsRun F nc (pre ++ k :: post) =
      { st := (F (kidsRun F nc pre).nc k).st,
        out := (kidsRun F nc pre).out ++ (F (kidsRun F nc pre).nc k).out,
        log := (kidsRun F nc pre).log ++ (F (kidsRun F nc pre).nc k).log,
        nc := (F (kidsRun F nc pre).nc k).nc } := by
  rw [kidsRun_append, Q.andThen_ok _ hpre]
  simp only [kidsRun]
  rw [Q.andThen_not_ok _ hk]

/-! ## 8. monotonicity in the environment: making failing evaluations succeed only extends the output -/

/-- `env'` agrees with `env` wherever `env` succeeds (its failures may become anything) -/
structure EnvLe (env env' : Env Sc) : Prop where
  evalStr : ∀ a s v lg, env.evalStr a s = (.ok v, lg) → env'.evalStr a s = (.ok v, lg)
  withAssign : ∀ a s v lg, env.withAssign a s = (.ok v, lg) → env'.withAssign a s = (.ok v, lg)
  rangeItems : ∀ a s v lg, env.rangeItems a s = (.ok v, lg) → env'.rangeItems a s = (.ok v, lg)
  tpl : ∀ n, env'.tpl n = env.tpl n

/-- a successful run is reproduced; the chunks of a failed run are a prefix -/
def QLe (q q' : Q) : Prop := (q.st = .ok → q' = q) ∧ (q.st ≠ .fuel → q.out <+: q'.out)

theorem QLe.refl (q : Q) : QLe q q := ⟨fun _ => rfl, fun _ => List.prefix_refl _⟩

theorem QLe.of_err {q q' : Q} (h : q.st ≠ .ok) (ho : q.out = []) : QLe q q' :=
  ⟨fun h' => absurd h' h, fun _ => by rw [ho]; exact List.nil_prefix⟩

theorem QLe.andThen {r r' : Q} {k k' : NC → Q} (h1 : QLe r r') (h2 : ∀ nc, QLe (k nc) (k' nc)) :
    QLe (r.andThen k) (r'.andThen k') := by
  by_cases hr : r.st = .ok
  · have e := h1.1 hr
    rw [e, Q.andThen_ok k hr, Q.andThen_ok k' hr]
    constructor
    · intro hk
      simp only [] at hk
      rw [(h2 r.nc).1 hk]
    · intro hk
      simp only [] at hk ⊢
      exact (List.prefix_append_right_inj _).mpr ((h2 r.nc).2 hk)
  · rw [Q.andThen_not_ok k hr]
    constructor
    · intro h; exact absurd h hr
    · intro hf
      exact List.IsPrefix.trans (h1.2 hf) (Q.andThen_out_prefix r' k')

theorem QLe.buffered {r r' : Q} (h : QLe r r') : QLe r.buffered r'.buffered := by
  by_cases hr : r.st = .ok
  · rw [h.1 hr]; exact QLe.refl _
  · exact QLe.of_err (by simpa using hr) (Q.buffered_out_not_ok hr)

theorem QLe.addLogS {r r' : Q} (lg : List String) (h : QLe r r') : QLe (r.addLogS lg) (r'.addLogS lg) := by
  constructor
  · intro hs; simp only [Q.addLogS_st] at hs; rw [h.1 hs]
  · intro hs; simp only [Q.addLogS_st] at hs; exact h.2 hs

theorem evalCondQ_le {env env' : Env Sc} (hE : EnvLe env env') {rest rest' : NC → Q} (nc : NC) (id : Nat) (ca : CAttr) (sc1 : Sc)
    (hr : ∀ nc, QLe (rest nc) (rest' nc)) : QLe (evalCondQ env rest nc id ca sc1) (evalCondQ env' rest' nc id ca sc1) := by
  unfold evalCondQ
  cases h : env.evalStr ca sc1 with
  | mk e lg =>
    cases e with
    | error c => exact QLe.of_err (by simp) rfl
    | ok v =>
      rw [hE.evalStr _ _ _ _ h]
      simp only []
      split
      · exact ((hr _).buffered).addLogS lg
      · exact QLe.refl _

theorem tagPhases_le (cfg : Cfg) {env env' : Env Sc} (hE : EnvLe env env') (d : NodeD) (nc : NC) {rest rest' : NC → Sc → Q} (sc : Sc)
    (hr : ∀ nc sc1, QLe (rest nc sc1) (rest' nc sc1)) :
    QLe (tagPhases cfg env d nc rest sc) (tagPhases cfg env' d nc rest' sc) := by
  unfold tagPhases withPhase
  have hw : QLe
      (match (match withAttr cfg d.attrs with | some a => env.withAssign a sc | none => (Except.ok sc, [])) with
        | (Except.error c, lg) => ({ st := Status.err c, log := lg, nc := nc } : Q)
        | (Except.ok sc1, lg) => (condPhase cfg env d nc (fun nc => rest nc sc1) sc1).addLogS lg)
      (match (match withAttr cfg d.attrs with | some a => env'.withAssign a sc | none => (Except.ok sc, [])) with
        | (Except.error c, lg) => ({ st := Status.err c, log := lg, nc := nc } : Q)
        | (Except.ok sc1, lg) => (condPhase cfg env' d nc (fun nc => rest' nc sc1) sc1).addLogS lg) := by
    have hcond : ∀ sc1, QLe (condPhase cfg env d nc (fun nc => rest nc sc1) sc1)
        (condPhase cfg env' d nc (fun nc => rest' nc sc1) sc1) := by
      intro sc1
      unfold condPhase
      cases condAttr cfg d.attrs with
      | none => exact hr nc sc1
      | some p =>
        obtain ⟨ca, isIf⟩ := p
        simp only []
        cases ca.value with
        | none => exact QLe.refl _
        | some v =>
          simp only []
          cases isIf
          · simp only [Bool.false_eq_true, if_false]
            cases d.prevTag.bind nc with
            | none => exact QLe.refl _
            | some b =>
              cases b
              · exact evalCondQ_le hE nc d.id ca sc1 (fun nc => hr nc sc1)
              · exact QLe.refl _
          · simp only [if_true]; exact evalCondQ_le hE nc d.id ca sc1 (fun nc => hr nc sc1)
    cases withAttr cfg d.attrs with
    | none => exact (hcond sc).addLogS []
    | some a =>
      simp only []
      cases h : env.withAssign a sc with
      | mk e lg =>
        cases e with
        | error c => exact QLe.of_err (by simp) rfl
        | ok sc1 => rw [hE.withAssign _ _ _ _ h]; exact (hcond sc1).addLogS lg
  exact hw

theorem bodyStep_le (cfg : Cfg) {env env' : Env Sc} (hE : EnvLe env env') {frag frag' : Node → Sc → R} (d : NodeD) (a : CAttr)
    (k : AK) (ps : PS Sc) (nc : NC) (fl : Fl) (hf : ∀ t sc, (frag t sc).st = .ok → frag' t sc = frag t sc)
    (hok : (bodyStep cfg env frag d a k ps nc fl).st = .ok) :
    bodyStep cfg env' frag' d a k ps nc fl = bodyStep cfg env frag d a k ps nc fl := by
  cases k <;> try rfl
  case dyn cmd =>
    simp only [bodyStep] at hok ⊢
    cases h : env.evalStr a ps.data with
    | mk e lg =>
      cases e with
      | error c => simp [h] at hok
      | ok v => rw [hE.evalStr _ _ _ _ h]
  all_goals (
    simp only [bodyStep] at hok ⊢
    cases h : env.evalStr a ps.data with
    | mk e lg =>
      cases e with
      | error c => simp [h] at hok
      | ok name =>
        rw [hE.evalStr _ _ _ _ h]
        simp only [h] at hok ⊢
        rw [hE.tpl]
        cases hT : env.tpl name with
        | none => rfl
        | some t =>
          simp only [hT] at hok ⊢
          have : (frag t ps.data).st = .ok := by
            cases hs : (frag t ps.data).st with
            | ok => rfl
            | err c => simp [hs] at hok
            | fuel => simp [hs] at hok
          rw [hf _ _ this])

structure EnvLeAt (cfg : Cfg) (env env' : Env Sc) (f : Nat) : Prop where
  node : ∀ depth nc node sc, QLe (refNode cfg env f depth nc node sc) (refNode cfg env' f depth nc node sc)
  kids : ∀ depth nc ks sc, QLe (refKids cfg env f depth nc ks sc) (refKids cfg env' f depth nc ks sc)
  range : ∀ depth nc node ra sc, QLe (refRange cfg env f depth nc node ra sc) (refRange cfg env' f depth nc node ra sc)
  items : ∀ depth nc node its first, QLe (refItems cfg env f depth nc node its first) (refItems cfg env' f depth nc node its first)
  body : ∀ depth nc node sc, QLe (refBody cfg env f depth nc node sc) (refBody cfg env' f depth nc node sc)
  attrs : ∀ depth nc d as ps, (refAttrs cfg env f depth nc d as ps).st = .ok →
    refAttrs cfg env' f depth nc d as ps = refAttrs cfg env f depth nc d as ps
  frag : ∀ depth nc t sc, QLe (refFrag cfg env f depth nc t sc) (refFrag cfg env' f depth nc t sc)
  child : ∀ depth nc node mode sc, QLe (refChild cfg env f depth nc node mode sc) (refChild cfg env' f depth nc node mode sc)

theorem envLe_all (cfg : Cfg) {env env' : Env Sc} (hE : EnvLe env env') : ∀ f, EnvLeAt cfg env env' f := by
  intro f
  induction f with
  | zero =>
    constructor <;> intros <;> first
      | (simp only [refNode, refKids, refRange, refItems, refBody, refFrag, refChild]; exact QLe.refl _)
      | (rename_i h; simp [refAttrs] at h)
  | succ f ih =>
    constructor
    · intro depth nc node sc
      by_cases hk : node.d.kind = .tag
      · rw [refNode_tag _ _ _ _ _ _ _ hk, refNode_tag _ _ _ _ _ _ _ hk]
        refine tagPhases_le cfg hE node.d nc sc ?_
        intro nc' sc1
        unfold refRest
        cases rangeAttr cfg node.d.attrs with
        | none => exact ih.body _ _ _ _
        | some ra => exact ih.range _ _ _ _ _
      · rw [refNode_nontag _ _ _ _ _ _ _ hk, refNode_nontag _ _ _ _ _ _ _ hk]
        exact QLe.andThen (QLe.refl _) (fun nc' => QLe.andThen (ih.kids _ _ _ _) (fun _ => QLe.refl _))
    · intro depth nc ks sc
      cases ks with
      | nil => simp only [refKids]; exact QLe.refl _
      | cons k ks => rw [refKids, refKids]; exact QLe.andThen (ih.node _ _ _ _) (fun nc' => ih.kids _ _ _ _)
    · intro depth nc node ra sc
      rw [refRange, refRange]
      cases ra.value with
      | none => exact QLe.refl _
      | some v =>
        simp only []
        cases h : env.rangeItems ra sc with
        | mk e lg =>
          cases e with
          | error c => exact QLe.of_err (by simp) rfl
          | ok its =>
            rw [hE.rangeItems _ _ _ _ h]
            exact ((ih.items _ _ _ _ _).buffered).addLogS lg
    · intro depth nc node its first
      cases its with
      | nil => simp only [refItems]; exact QLe.refl _
      | cons sc rest =>
        rw [refItems_cons, refItems_cons]
        exact QLe.andThen (QLe.andThen (QLe.refl _) (fun nc' => ih.body _ _ _ _)) (fun nc' => ih.items _ _ _ _ _)
    · intro depth nc node sc
      have e0 : ∀ (env : Env Sc), refBody cfg env (f+1) depth nc node sc =
          bodyRun node (refAttrs cfg env f depth nc node.d node.d.attrs (startPS cfg node.d sc))
            (fun nc mode sc => refChild cfg env f depth nc node mode sc) := by
        intro env; rw [refBody]; rfl
      rw [e0 env, e0 env']
      by_cases hA : (refAttrs cfg env f depth nc node.d node.d.attrs (startPS cfg node.d sc)).st = .ok
      · rw [ih.attrs _ _ _ _ _ hA]
        unfold bodyRun
        simp only [hA]
        exact QLe.andThen (QLe.andThen (QLe.refl _) (fun nc' => ih.child _ _ _ _ _)) (fun _ => QLe.refl _)
      · refine QLe.of_err ?_ ?_
        · unfold bodyRun; split
          · rename_i h; exact absurd h hA
          · exact hA
        · unfold bodyRun; split
          · rename_i h; exact absurd h hA
          · rfl
    · intro depth nc d as ps hok
      cases as with
      | nil => simp only [refAttrs]
      | cons a rest =>
        rw [refAttrs] at hok ⊢; rw [refAttrs]
        split
        · rename_i hc; simp only [hc, if_true] at hok; exact ih.attrs _ _ _ _ _ hok
        · rename_i hc; simp only [hc, Bool.false_eq_true, if_false] at hok
          have hs : (bodyStep cfg env (fun t sc => (refFrag cfg env f depth nc t sc).toR emptyFl) d a (classify cfg a) ps nc
              emptyFl).st = .ok := by
            by_cases hs : (bodyStep cfg env (fun t sc => (refFrag cfg env f depth nc t sc).toR emptyFl) d a (classify cfg a) ps nc
                emptyFl).st = .ok
            · exact hs
            · rw [PR.andThen_not_ok _ hs] at hok; exact absurd hok hs
          have e1 := bodyStep_le cfg hE (frag := fun t sc => (refFrag cfg env f depth nc t sc).toR emptyFl)
            (frag' := fun t sc => (refFrag cfg env' f depth nc t sc).toR emptyFl) d a (classify cfg a) ps nc emptyFl
            (by
              intro t sc' ht
              simp only [Q.toR_st] at ht
              simp only [(ih.frag depth nc t sc').1 ht]) hs
          rw [e1]
          rw [PR.andThen_ok _ hs] at hok ⊢
          rw [PR.andThen_ok _ hs]
          simp only [] at hok ⊢
          rw [ih.attrs _ _ _ _ _ hok]
    · intro depth nc t sc
      rw [refFrag, refFrag]
      split
      · exact QLe.refl _
      · have h := (ih.node (depth + 1) emptyNc t sc).buffered
        constructor
        · intro hs
          simp only [] at hs
          have := h.1 hs
          simp only [this]
        · intro hs
          simp only [] at hs ⊢
          exact h.2 hs
    · intro depth nc node mode sc
      rw [refChild_succ, refChild_succ]
      have hopt : ∀ (o : Option Node) nc', QLe (optRun (fun nc k => refNode cfg env f depth nc k sc) o nc')
          (optRun (fun nc k => refNode cfg env' f depth nc k sc) o nc') := by
        intro o nc'
        cases o with
        | none => exact QLe.refl _
        | some k => exact ih.node _ _ _ _
      cases mode with
      | unset => exact ih.kids _ _ _ _
      | nop => exact QLe.refl _
      | textLike a isText =>
        simp only [childRun]
        cases h : env.evalStr a sc with
        | mk e lg =>
          cases e with
          | error c => exact QLe.of_err (by simp) rfl
          | ok v => rw [hE.evalStr _ _ _ _ h]; exact QLe.refl _
      | abf =>
        simp only [childRun]
        exact QLe.andThen (hopt _ _) (fun nc' => QLe.andThen (hopt _ _) (fun nc'' => hopt _ _))

/-! ## 7. dependence on the incoming conditions (C16) -/

/-- the id whose recorded condition an element reads: the previous sibling tag of an else-family element -/
def elseRead (cfg : Cfg) (d : NodeD) : List Nat :=
  match condAttr cfg d.attrs with
  | some (_, isIf) => if isIf then [] else d.prevTag.toList
  | none => []

def ownRead (cfg : Cfg) (d : NodeD) : List Nat := if d.kind = .tag then elseRead cfg d else []

/-- an element that records its outcome under its id when it is rendered successfully -/
def isCondTag (cfg : Cfg) (d : NodeD) : Bool := d.kind == .tag && (condAttr cfg d.attrs).isSome

mutual
/-- ids at which the rendering of the CHILDREN of a node reads conditions that were recorded before the node was
    entered (empty for trees in which every else-family element follows a conditional sibling) -/
def ext (cfg : Cfg) : Node → List Nat
  | .mk _ kids _ => extL cfg [] kids
/-- `w`: ids of the conditional siblings rendered so far in this list -/
def extL (cfg : Cfg) : List Nat → List Node → List Nat
  | _, [] => []
  | w, k :: ks =>
    (ownRead cfg k.d).filter (fun p => !w.contains p) ++ ext cfg k ++
      extL cfg (if isCondTag cfg k.d then k.d.id :: w else w) ks
end

theorem ext_eq (cfg : Cfg) (n : Node) : ext cfg n = extL cfg [] n.kids := by cases n; simp [ext, Node.kids]

def AgreeOn (S : List Nat) (m1 m2 : NC) : Prop := ∀ j ∈ S, m1 j = m2 j

theorem AgreeOn.mono {S T : List Nat} {m1 m2 : NC} (h : AgreeOn T m1 m2) (hs : ∀ j ∈ S, j ∈ T) : AgreeOn S m1 m2 :=
  fun j hj => h j (hs j hj)

/-- two runs from conditions `nc1`, `nc2`: same status, chunks and events, and the resulting conditions agree
    wherever the incoming ones did -/
structure Sim (nc1 nc2 : NC) (q1 q2 : Q) : Prop where
  st : q1.st = q2.st
  out : q1.out = q2.out
  log : q1.log = q2.log
  nc : ∀ j, nc1 j = nc2 j → q1.nc j = q2.nc j

theorem Sim.same (nc1 nc2 : NC) (st : Status) (o l : List String) :
    Sim nc1 nc2 { st := st, out := o, log := l, nc := nc1 } { st := st, out := o, log := l, nc := nc2 } :=
  ⟨rfl, rfl, rfl, fun _ h => h⟩

theorem Sim.andThen {nc1 nc2 : NC} {r1 r2 : Q} {k1 k2 : NC → Q} (h : Sim nc1 nc2 r1 r2)
    (hk : r1.st = .ok → Sim r1.nc r2.nc (k1 r1.nc) (k2 r2.nc)) : Sim nc1 nc2 (r1.andThen k1) (r2.andThen k2) := by
  by_cases h1 : r1.st = .ok
  · have h2 : r2.st = .ok := by rw [← h.st]; exact h1
    have K := hk h1
    rw [Q.andThen_ok _ h1, Q.andThen_ok _ h2]
    exact ⟨K.st, by simp only [h.out, K.out], by simp only [h.log, K.log], fun j hj => K.nc j (h.nc j hj)⟩
  · have h2 : r2.st ≠ .ok := by rw [← h.st]; exact h1
    rw [Q.andThen_not_ok _ h1, Q.andThen_not_ok _ h2]; exact h

theorem Sim.okQ (nc1 nc2 : NC) (o : List String) : Sim nc1 nc2 (Q.okQ o nc1) (Q.okQ o nc2) := ⟨rfl, rfl, rfl, fun _ h => h⟩

theorem Sim.buffered {nc1 nc2 : NC} {q1 q2 : Q} (h : Sim nc1 nc2 q1 q2) : Sim nc1 nc2 q1.buffered q2.buffered := by
  refine ⟨by simp [h.st], ?_, by simp [h.log], by simpa using h.nc⟩
  by_cases h1 : q1.st = .ok
  · rw [Q.buffered_out_ok h1, Q.buffered_out_ok (by rw [← h.st]; exact h1), h.out]
  · rw [Q.buffered_out_not_ok h1, Q.buffered_out_not_ok (by rw [← h.st]; exact h1)]

theorem Sim.addLogS {nc1 nc2 : NC} {q1 q2 : Q} (lg : List String) (h : Sim nc1 nc2 q1 q2) :
    Sim nc1 nc2 (q1.addLogS lg) (q2.addLogS lg) := ⟨h.st, h.out, by simp [h.log], h.nc⟩

theorem Sim.of_setNc {nc1 nc2 : NC} {q1 q2 : Q} {i : Nat} {b : Bool} (h : Sim (setNc nc1 i b) (setNc nc2 i b) q1 q2) :
    Sim nc1 nc2 q1 q2 :=
  ⟨h.st, h.out, h.log, fun j hj => h.nc j (by simp only [setNc]; split <;> simp [hj])⟩

theorem AgreeOn.setNc {S : List Nat} {m1 m2 : NC} (h : AgreeOn S m1 m2) (i : Nat) (b : Bool) :
    AgreeOn S (setNc m1 i b) (setNc m2 i b) := by
  intro j hj; simp only [RN.setNc]; split
  · rfl
  · exact h j hj

theorem evalCondQ_sim (env : Env Sc) {rest : NC → Q} (nc1 nc2 : NC) (id : Nat) (ca : CAttr) (sc1 : Sc)
    (hr : Sim (setNc nc1 id true) (setNc nc2 id true) (rest (setNc nc1 id true)) (rest (setNc nc2 id true))) :
    Sim nc1 nc2 (evalCondQ env rest nc1 id ca sc1) (evalCondQ env rest nc2 id ca sc1) ∧
    ((evalCondQ env rest nc1 id ca sc1).st = .ok →
      (evalCondQ env rest nc1 id ca sc1).nc id = (evalCondQ env rest nc2 id ca sc1).nc id) := by
  unfold evalCondQ
  cases env.evalStr ca sc1 with
  | mk e lg =>
    cases e with
    | error c => exact ⟨Sim.same .., fun h => by simp at h⟩
    | ok v =>
      simp only []
      split
      · refine ⟨((hr.buffered).addLogS lg).of_setNc, fun _ => ?_⟩
        simp only [Q.addLogS_nc, Q.buffered_nc]
        exact hr.nc id (by simp [setNc])
      · exact ⟨⟨rfl, rfl, rfl, fun j hj => by simp only [setNc]; split <;> simp [hj]⟩, fun _ => by simp [setNc]⟩

theorem tagPhases_sim (cfg : Cfg) (env : Env Sc) (d : NodeD) (nc1 nc2 : NC) (rest : NC → Sc → Q) (sc : Sc) (E : List Nat)
    (hr : ∀ m1 m2 sc1, AgreeOn E m1 m2 → Sim m1 m2 (rest m1 sc1) (rest m2 sc1))
    (ha : AgreeOn (elseRead cfg d ++ E) nc1 nc2) :
    Sim nc1 nc2 (tagPhases cfg env d nc1 rest sc) (tagPhases cfg env d nc2 rest sc) ∧
    ((condAttr cfg d.attrs).isSome → (tagPhases cfg env d nc1 rest sc).st = .ok →
      (tagPhases cfg env d nc1 rest sc).nc d.id = (tagPhases cfg env d nc2 rest sc).nc d.id) := by
  have haE : AgreeOn E nc1 nc2 := ha.mono (fun j hj => by simp [hj])
  unfold tagPhases
  cases withPhase cfg env d sc with
  | mk e lg =>
    cases e with
    | error c => exact ⟨Sim.same .., fun _ h => by simp at h⟩
    | ok sc1 =>
      simp only []
      suffices h : Sim nc1 nc2 (condPhase cfg env d nc1 (fun nc => rest nc sc1) sc1) (condPhase cfg env d nc2 (fun nc => rest nc sc1) sc1) ∧
          ((condAttr cfg d.attrs).isSome → (condPhase cfg env d nc1 (fun nc => rest nc sc1) sc1).st = .ok →
            (condPhase cfg env d nc1 (fun nc => rest nc sc1) sc1).nc d.id = (condPhase cfg env d nc2 (fun nc => rest nc sc1) sc1).nc d.id) from
        ⟨h.1.addLogS lg, fun hs hok => h.2 hs hok⟩
      unfold condPhase
      cases hc : condAttr cfg d.attrs with
      | none => exact ⟨hr nc1 nc2 sc1 haE, fun h => by simp at h⟩
      | some p =>
        obtain ⟨ca, isIf⟩ := p
        simp only []
        have hev := evalCondQ_sim env (rest := fun nc => rest nc sc1) nc1 nc2 d.id ca sc1
          (hr _ _ sc1 (haE.setNc d.id true))
        cases ca.value with
        | none => exact ⟨Sim.same .., fun _ h => by simp at h⟩
        | some v =>
          simp only []
          cases isIf
          · simp only [Bool.false_eq_true, if_false]
            have hp : d.prevTag.bind nc1 = d.prevTag.bind nc2 := by
              cases hpt : d.prevTag with
              | none => rfl
              | some p =>
                simp only [Option.bind]
                exact ha p (by simp [elseRead, hc, hpt])
            rw [← hp]
            cases d.prevTag.bind nc1 with
            | none => exact ⟨Sim.same .., fun _ h => by simp at h⟩
            | some b =>
              cases b
              · exact ⟨hev.1, fun _ => hev.2⟩
              · exact ⟨⟨rfl, rfl, rfl, fun j hj => by simp only [setNc]; split <;> simp [hj]⟩, fun _ _ => by simp [setNc]⟩
          · simp only [if_true]; exact ⟨hev.1, fun _ => hev.2⟩

local macro "triv3" : tactic => `(tactic| first | exact ⟨rfl, rfl, rfl⟩ | simp)

theorem bodyStep_nc_indep (cfg : Cfg) (env : Env Sc) {frag frag' : Node → Sc → R} (d : NodeD) (a : CAttr) (k : AK) (ps : PS Sc)
    (nc nc' : NC) (fl : Fl)
    (hf : ∀ t sc, (frag' t sc).st = (frag t sc).st ∧ (frag' t sc).out = (frag t sc).out ∧ (frag' t sc).log = (frag t sc).log) :
    (bodyStep cfg env frag' d a k ps nc' fl).st = (bodyStep cfg env frag d a k ps nc fl).st ∧
    (bodyStep cfg env frag' d a k ps nc' fl).ps = (bodyStep cfg env frag d a k ps nc fl).ps ∧
    (bodyStep cfg env frag' d a k ps nc' fl).log = (bodyStep cfg env frag d a k ps nc fl).log := by
  cases k <;> simp only [bodyStep] <;> (try triv3)
  any_goals (cases ps.child <;> triv3)
  any_goals (split <;> triv3)
  all_goals (
    cases env.evalStr a ps.data with
    | mk e lg =>
      cases e with
      | error c => triv3
      | ok name =>
        simp only []
        first
        | triv3
        | (cases env.tpl name with
           | none => triv3
           | some t =>
             simp only []
             obtain ⟨h1, h2, h3⟩ := hf t ps.data
             simp only [R.text, h1, h2, h3]
             split <;> triv3))

theorem ext_sub_extL (cfg : Cfg) {k : Node} : ∀ {ks : List Node} (w : List Nat), k ∈ ks → ∀ j ∈ ext cfg k, j ∈ extL cfg w ks := by
  intro ks
  induction ks with
  | nil => intro w h; cases h
  | cons x rest ih =>
    intro w h j hj
    simp only [extL, List.mem_append]
    rcases List.mem_cons.mp h with e | hm
    · subst e; exact Or.inl (Or.inr hj)
    · exact Or.inr (ih _ hm j hj)

/-- the first tag child (found behind non-tag siblings only) reads what the sibling list reads -/
theorem firstTag_sub_extL (cfg : Cfg) : ∀ (ks : List Node) (k : Node),
    ks[(ks.takeWhile (fun k => !isTagNode k)).length]? = some k →
    ∀ j, j ∈ ownRead cfg k.d ++ ext cfg k → j ∈ extL cfg [] ks := by
  intro ks
  induction ks with
  | nil => intro k h; simp at h
  | cons x rest ih =>
    intro k h j hj
    by_cases hx : isTagNode x = true
    · simp only [List.takeWhile, hx, Bool.not_true, List.length_nil, List.getElem?_cons_zero, Option.some.injEq] at h
      subst h
      simp only [extL, List.mem_append, List.contains_nil, Bool.not_false]
      simp only [List.mem_append] at hj
      refine Or.inl ?_
      rcases hj with h1 | h1
      · exact Or.inl (by simp [h1])
      · exact Or.inr h1
    · have hx' : isTagNode x = false := by simpa using hx
      simp only [List.takeWhile, hx', Bool.not_false, List.length_cons, List.getElem?_cons_succ] at h
      have hnc : isCondTag cfg x.d = false := by
        simp only [isTagNode] at hx'
        simp [isCondTag, hx']
      simp only [extL, hnc, Bool.false_eq_true, if_false, List.mem_append]
      exact Or.inr (ih k h j hj)

theorem nontag_ownRead (cfg : Cfg) {k : Node} (h : isBlankText k = true) : ownRead cfg k.d = [] := by
  simp only [isBlankText, Bool.and_eq_true, beq_iff_eq] at h
  simp [ownRead, h.1]

structure NcDepAt (cfg : Cfg) (env : Env Sc) (f : Nat) : Prop where
  node : ∀ depth nc1 nc2 node sc, AgreeOn (ownRead cfg node.d ++ ext cfg node) nc1 nc2 →
    Sim nc1 nc2 (refNode cfg env f depth nc1 node sc) (refNode cfg env f depth nc2 node sc) ∧
    (isCondTag cfg node.d = true → (refNode cfg env f depth nc1 node sc).st = .ok →
      (refNode cfg env f depth nc1 node sc).nc node.d.id = (refNode cfg env f depth nc2 node sc).nc node.d.id)
  kids : ∀ depth nc1 nc2 w ks sc, AgreeOn w nc1 nc2 → AgreeOn (extL cfg w ks) nc1 nc2 →
    Sim nc1 nc2 (refKids cfg env f depth nc1 ks sc) (refKids cfg env f depth nc2 ks sc)
  range : ∀ depth nc1 nc2 node ra sc, AgreeOn (ext cfg node) nc1 nc2 →
    Sim nc1 nc2 (refRange cfg env f depth nc1 node ra sc) (refRange cfg env f depth nc2 node ra sc)
  items : ∀ depth nc1 nc2 node its first, AgreeOn (ext cfg node) nc1 nc2 →
    Sim nc1 nc2 (refItems cfg env f depth nc1 node its first) (refItems cfg env f depth nc2 node its first)
  body : ∀ depth nc1 nc2 node sc, AgreeOn (ext cfg node) nc1 nc2 →
    Sim nc1 nc2 (refBody cfg env f depth nc1 node sc) (refBody cfg env f depth nc2 node sc)
  attrs : ∀ depth nc1 nc2 d as ps,
    (refAttrs cfg env f depth nc2 d as ps).st = (refAttrs cfg env f depth nc1 d as ps).st ∧
    (refAttrs cfg env f depth nc2 d as ps).ps = (refAttrs cfg env f depth nc1 d as ps).ps ∧
    (refAttrs cfg env f depth nc2 d as ps).log = (refAttrs cfg env f depth nc1 d as ps).log
  frag : ∀ depth nc1 nc2 t sc,
    (refFrag cfg env f depth nc2 t sc).st = (refFrag cfg env f depth nc1 t sc).st ∧
    (refFrag cfg env f depth nc2 t sc).out = (refFrag cfg env f depth nc1 t sc).out ∧
    (refFrag cfg env f depth nc2 t sc).log = (refFrag cfg env f depth nc1 t sc).log
  child : ∀ depth nc1 nc2 node mode sc, AgreeOn (ext cfg node) nc1 nc2 →
    Sim nc1 nc2 (refChild cfg env f depth nc1 node mode sc) (refChild cfg env f depth nc2 node mode sc)

theorem ncDep (cfg : Cfg) (env : Env Sc) : ∀ f, NcDepAt cfg env f := by
  intro f
  induction f with
  | zero =>
    constructor <;> intros <;> first
      | (simp only [refNode, refKids, refRange, refItems, refBody, refChild]
         first
         | exact ⟨⟨rfl, rfl, rfl, fun _ h => h⟩, fun _ h => by simp at h⟩
         | exact ⟨rfl, rfl, rfl, fun _ h => h⟩)
      | (simp only [refAttrs, refFrag]; triv3)
  | succ f ih =>
    have hrest : ∀ depth node m1 m2 sc1, AgreeOn (ext cfg node) m1 m2 →
        Sim m1 m2 (refRest cfg env f depth m1 node sc1) (refRest cfg env f depth m2 node sc1) := by
      intro depth node m1 m2 sc1 ha
      unfold refRest
      cases rangeAttr cfg node.d.attrs with
      | none => exact ih.body _ _ _ _ _ ha
      | some ra => exact ih.range _ _ _ _ _ _ ha
    constructor
    · -- node
      intro depth nc1 nc2 node sc ha
      by_cases hk : node.d.kind = .tag
      · rw [refNode_tag _ _ _ _ _ _ _ hk, refNode_tag _ _ _ _ _ _ _ hk]
        have ha' : AgreeOn (elseRead cfg node.d ++ ext cfg node) nc1 nc2 := by
          simpa [ownRead, hk] using ha
        obtain ⟨h1, h2⟩ := tagPhases_sim cfg env node.d nc1 nc2 (fun nc sc1 => refRest cfg env f depth nc node sc1) sc
          (ext cfg node) (fun m1 m2 sc1 hm => hrest depth node m1 m2 sc1 hm) ha'
        refine ⟨h1, fun hc hok => h2 ?_ hok⟩
        simp only [isCondTag, Bool.and_eq_true] at hc
        exact hc.2
      · rw [refNode_nontag _ _ _ _ _ _ _ hk, refNode_nontag _ _ _ _ _ _ _ hk]
        have hE : AgreeOn (extL cfg [] node.kids) nc1 nc2 := by
          rw [← ext_eq]; exact ha.mono (fun j hj => by simp [hj])
        refine ⟨?_, fun hc => ?_⟩
        · refine Sim.andThen (Sim.okQ _ _ _) (fun _ => Sim.andThen ?_ (fun _ => Sim.okQ _ _ _))
          exact ih.kids depth nc1 nc2 [] node.kids sc (fun j hj => by cases hj) hE
        · simp only [isCondTag, Bool.and_eq_true, beq_iff_eq] at hc
          exact absurd hc.1 hk
    · -- kids
      intro depth nc1 nc2 w ks sc hw ha
      cases ks with
      | nil => simp only [refKids]; exact Sim.okQ _ _ _
      | cons k ks =>
        rw [refKids, refKids]
        have hk : AgreeOn (ownRead cfg k.d ++ ext cfg k) nc1 nc2 := by
          intro j hj
          simp only [List.mem_append] at hj
          rcases hj with h1 | h1
          · by_cases hjw : j ∈ w
            · exact hw j hjw
            · exact ha j (by simp only [extL, List.mem_append, List.mem_filter]; exact Or.inl (Or.inl ⟨h1, by simpa using hjw⟩))
          · exact ha j (by simp only [extL, List.mem_append]; exact Or.inl (Or.inr h1))
        obtain ⟨s1, s2⟩ := ih.node depth nc1 nc2 k sc hk
        refine Sim.andThen s1 (fun hok => ?_)
        refine ih.kids depth _ _ (if isCondTag cfg k.d then k.d.id :: w else w) ks sc ?_ ?_
        · intro j hj
          by_cases hc : isCondTag cfg k.d = true
          · simp only [hc, if_true, List.mem_cons] at hj
            rcases hj with e | hj
            · rw [e]; exact s2 hc hok
            · exact s1.nc j (hw j hj)
          · simp only [hc, Bool.false_eq_true, if_false] at hj
            exact s1.nc j (hw j hj)
        · intro j hj
          exact s1.nc j (ha j (by simp only [extL, List.mem_append]; exact Or.inr hj))
    · -- range
      intro depth nc1 nc2 node ra sc ha
      rw [refRange, refRange]
      cases ra.value with
      | none => exact Sim.same ..
      | some v =>
        simp only []
        cases env.rangeItems ra sc with
        | mk e lg =>
          cases e with
          | error c => exact Sim.same ..
          | ok its =>
            simp only []
            have := ((ih.items depth nc1 nc2 node its true ha).buffered).addLogS lg
            exact ⟨this.st, this.out, this.log, this.nc⟩
    · -- items
      intro depth nc1 nc2 node its first ha
      cases its with
      | nil => simp only [refItems]; exact Sim.okQ _ _ _
      | cons sc rest =>
        rw [refItems_cons, refItems_cons]
        have hb : Sim nc1 nc2 ((Q.okQ (sepChunks node.d.nextBlank first) nc1).andThen fun nc => refBody cfg env f depth nc node sc)
            ((Q.okQ (sepChunks node.d.nextBlank first) nc2).andThen fun nc => refBody cfg env f depth nc node sc) :=
          Sim.andThen (Sim.okQ _ _ _) (fun _ => ih.body depth nc1 nc2 node sc ha)
        refine Sim.andThen hb (fun _ => ih.items depth _ _ node rest false ?_)
        intro j hj; exact hb.nc j (ha j hj)
    · -- body
      intro depth nc1 nc2 node sc ha
      have e0 : ∀ nc, refBody cfg env (f+1) depth nc node sc =
          bodyRun node (refAttrs cfg env f depth nc node.d node.d.attrs (startPS cfg node.d sc))
            (fun nc mode sc => refChild cfg env f depth nc node mode sc) := by
        intro nc; rw [refBody]; rfl
      rw [e0 nc1, e0 nc2]
      obtain ⟨a1, a2, a3⟩ := ih.attrs depth nc1 nc2 node.d node.d.attrs (startPS cfg node.d sc)
      have n1 := (frame cfg env f).attrs depth nc1 node.d node.d.attrs (startPS cfg node.d sc)
      have n2 := (frame cfg env f).attrs depth nc2 node.d node.d.attrs (startPS cfg node.d sc)
      unfold bodyRun
      rw [a1, a2, a3, n1, n2]
      split
      · refine Sim.andThen (Sim.andThen (Sim.same ..) (fun _ => ?_)) (fun _ => Sim.okQ _ _ _)
        exact ih.child depth nc1 nc2 node _ _ ha
      · exact Sim.same ..
    · -- attrs
      intro depth nc1 nc2 d as ps
      cases as with
      | nil => simp only [refAttrs]; triv3
      | cons a rest =>
        rw [refAttrs, refAttrs]
        split
        · exact ih.attrs _ _ _ _ _ _
        · obtain ⟨b1, b2, b3⟩ := bodyStep_nc_indep cfg env
            (frag := fun t sc => (refFrag cfg env f depth nc1 t sc).toR emptyFl)
            (frag' := fun t sc => (refFrag cfg env f depth nc2 t sc).toR emptyFl) d a (classify cfg a) ps nc1 nc2 emptyFl
            (fun t sc => by
              obtain ⟨f1, f2, f3⟩ := ih.frag depth nc1 nc2 t sc
              exact ⟨f1, f2, f3⟩)
          by_cases hs : (bodyStep cfg env (fun t sc => (refFrag cfg env f depth nc1 t sc).toR emptyFl) d a (classify cfg a) ps
              nc1 emptyFl).st = .ok
          · have hs2 := hs; rw [← b1] at hs2
            rw [PR.andThen_ok _ hs, PR.andThen_ok _ hs2]
            simp only [bodyStep_nc, b2, b3]
            obtain ⟨c1, c2, c3⟩ := ih.attrs depth nc1 nc2 d rest
              (bodyStep cfg env (fun t sc => (refFrag cfg env f depth nc1 t sc).toR emptyFl) d a (classify cfg a) ps nc1 emptyFl).ps
            exact ⟨c1, c2, by rw [c3]⟩
          · have hs2 := hs; rw [← b1] at hs2
            rw [PR.andThen_not_ok _ hs, PR.andThen_not_ok _ hs2]
            exact ⟨b1, b2, b3⟩
    · -- frag
      intro depth nc1 nc2 t sc
      rw [refFrag, refFrag]
      split <;> exact ⟨rfl, rfl, rfl⟩
    · -- child
      intro depth nc1 nc2 node mode sc ha
      rw [refChild_succ, refChild_succ]
      have hE : AgreeOn (extL cfg [] node.kids) nc1 nc2 := by rw [← ext_eq]; exact ha
      cases mode with
      | unset => exact ih.kids depth nc1 nc2 [] node.kids sc (fun j hj => by cases hj) hE
      | nop => exact Sim.okQ _ _ _
      | textLike a isText =>
        simp only [childRun]
        cases env.evalStr a sc with
        | mk e lg => cases e <;> exact Sim.same ..
      | abf =>
        simp only [childRun]
        obtain ⟨m1, m2, m3⟩ := abfParts_mem node.kids
        -- each of the three parts reads a subset of what the sibling list reads
        have hsub : ∀ (o : Option Node), (∀ k, o = some k → ∀ j ∈ ownRead cfg k.d ++ ext cfg k, j ∈ extL cfg [] node.kids) →
            ∀ m1 m2, (∀ j, nc1 j = nc2 j → m1 j = m2 j) →
              Sim m1 m2 (optRun (fun nc k => refNode cfg env f depth nc k sc) o m1)
                (optRun (fun nc k => refNode cfg env f depth nc k sc) o m2) := by
          intro o ho m1 m2 hm
          cases o with
          | none => exact Sim.okQ _ _ _
          | some k =>
            exact (ih.node depth m1 m2 k sc (fun j hj => hm j (hE j (ho k rfl j hj)))).1
        have hblank : ∀ k, isBlankText k = true → k ∈ node.kids →
            ∀ j ∈ ownRead cfg k.d ++ ext cfg k, j ∈ extL cfg [] node.kids := by
          intro k hb hk j hj
          rw [nontag_ownRead cfg hb, List.nil_append] at hj
          exact ext_sub_extL cfg [] hk j hj
        have h1 : ∀ k, (abfParts node.kids).1 = some k → ∀ j ∈ ownRead cfg k.d ++ ext cfg k, j ∈ extL cfg [] node.kids := by
          intro k hk
          refine hblank k ?_ (m1 k hk)
          simp only [abfParts] at hk
          split at hk
          · cases hh : node.kids.head? with
            | none => simp [hh] at hk
            | some x =>
              simp only [hh] at hk
              split at hk
              · rename_i hb; cases hk; exact hb
              · cases hk
          · cases hk
        have h2 : ∀ k, (abfParts node.kids).2.1 = some k → ∀ j ∈ ownRead cfg k.d ++ ext cfg k, j ∈ extL cfg [] node.kids := by
          intro k hk
          exact firstTag_sub_extL cfg node.kids k hk
        have h3 : ∀ k, (abfParts node.kids).2.2 = some k → ∀ j ∈ ownRead cfg k.d ++ ext cfg k, j ∈ extL cfg [] node.kids := by
          intro k hk
          refine hblank k ?_ (m3 k hk)
          simp only [abfParts] at hk
          cases hh : node.kids.getLast? with
          | none => simp [hh] at hk
          | some x =>
            simp only [hh] at hk
            split at hk
            · rename_i hb; cases hk; exact hb
            · cases hk
        have s1 := hsub _ h1 nc1 nc2 (fun _ h => h)
        refine Sim.andThen s1 (fun _ => ?_)
        have s2 := hsub _ h2 _ _ s1.nc
        refine Sim.andThen s2 (fun _ => ?_)
        exact hsub _ h3 _ _ (fun j hj => s2.nc j (s1.nc j hj))

end RN.Spec
