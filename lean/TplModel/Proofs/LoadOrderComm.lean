import TplModel.Proofs.LoadOrder
/-! # `addFile` respects `MgrEq`, two `addFile`s commute, `loadFrom` is invariant under permutations

Everything follows from the exact description `EN.addFile_ok_iff` and from `EN.mapNode_tplRel`. -/
namespace EN
open EV (Val FnSpec)
open RN (CAttr Part NodeD Node NK Cls All2 OptRel TreeRel TreeRelL TplRel PBij DRel)

theorem get_end (P X : Tbl) (k : Nat) (hk : k < X.size) : (P ++ X)[P.size + k]? = some X[k] := by
  rw [Array.getElem?_append_right (by omega)]
  simp [hk]

theorem get_mid (P X S : Tbl) (k : Nat) (hk : k < X.size) : (P ++ X ++ S)[P.size + k]? = some X[k] := by
  rw [Array.getElem?_append_left (by simp; omega)]
  exact get_end P X k hk

theorem names_mapEntry (f g : Nat → Nat) (ents : List (String × Node)) : names (ents.map (mapEntry f g)) = names ents := by
  simp [names, mapEntry, Function.comp_def]

theorem names_extend (fns : List (String × FnSpec)) (m : Mgr) (i : Nat) (name : String) (ents : List (String × Node)) (E : Tbl) :
    names (extend fns m i name ents E).templates = names m.templates ++ names ents := by
  simp [extend, names, mapEntry, Function.comp_def]

/-- the renumbered copies of a canonical contribution in two managers are related -/
theorem new_rel {T1 T2 : Tbl} {o1 o2 : Nat} (c1 c2 : Nat) {ents : List (String × Node)} {E : Tbl}
    (hcodes : ∀ p ∈ ents, TreeCodesLt E.size p.2) (hC : ∀ k, k < E.size → CodeRel T1 T2 (o1 + k) (o2 + k)) (nm : String) :
    OptRel (TplRel (CodeRel T1 T2)) ((lookupL ents nm).map (mapNode (o1 + ·) (gId c1)))
      ((lookupL ents nm).map (mapNode (o2 + ·) (gId c2))) := by
  cases h : lookupL ents nm with
  | none => trivial
  | some t => exact mapNode_tplRel hC (hcodes _ (lookupL_mem h))

def LoadRes.isOk {α : Type} (r : LoadRes α) : Prop := ∃ a, r = .ok a

/-- both computations succeed or both fail, and when they succeed the managers are equal up to renumbering -/
def SuccRel (r r' : LoadRes Mgr) : Prop :=
  (r.isOk ↔ r'.isOk) ∧ ∀ m1 m1', r = .ok m1 → r' = .ok m1' → MgrEq m1 m1'

theorem SuccRel.trans {r r' r'' : LoadRes Mgr} (h : SuccRel r r') (h' : SuccRel r' r'') : SuccRel r r'' := by
  refine ⟨h.1.trans h'.1, fun m1 m1'' e1 e3 => ?_⟩
  obtain ⟨m1', e2⟩ := h.1.mp ⟨m1, e1⟩
  exact (h.2 m1 m1' e1 e2).trans (h'.2 m1' m1'' e2 e3)

theorem SuccRel.symm {r r' : LoadRes Mgr} (h : SuccRel r r') : SuccRel r' r :=
  ⟨h.1.symm, fun m1 m1' e1 e2 => (h.2 m1' m1 e2 e1).symm⟩

theorem fresh_congr {b b' : List String} (h : ∀ x, x ∈ b ↔ x ∈ b') (xs : List String) : Fresh b xs ↔ Fresh b' xs := by
  rw [Fresh_iff, Fresh_iff]
  constructor
  · rintro ⟨h1, h2⟩; exact ⟨h1, fun x hx hb => h2 x hx ((h x).mpr hb)⟩
  · rintro ⟨h1, h2⟩; exact ⟨h1, fun x hx hb => h2 x hx ((h x).mp hb)⟩

/-- **addFile respects MgrEq**: adding the same file (under any file numbers) to two equal managers succeeds in both
    or fails in both, and the results are equal managers -/
theorem addFile_respects (cfg : Cfg) (fns : List (String × FnSpec)) (i i' : Nat) (name src : String) {m m' : Mgr}
    (hm : MgrEq m m') : SuccRel (addFile cfg fns i name src m) (addFile cfg fns i' name src m') := by
  constructor
  · constructor
    · rintro ⟨m1, h⟩
      obtain ⟨ents, E, h1, h2, _⟩ := (addFile_ok_iff cfg fns i name src m m1).mp h
      exact ⟨_, (addFile_ok_iff cfg fns i' name src m' _).mpr ⟨ents, E, h1, (fresh_congr hm.mem_iff _).mp h2, rfl⟩⟩
    · rintro ⟨m1, h⟩
      obtain ⟨ents, E, h1, h2, _⟩ := (addFile_ok_iff cfg fns i' name src m' m1).mp h
      exact ⟨_, (addFile_ok_iff cfg fns i name src m _).mpr ⟨ents, E, h1, (fresh_congr hm.mem_iff _).mpr h2, rfl⟩⟩
  · intro m1 m1' e1 e2
    obtain ⟨ents, E, h1, h2, rfl⟩ := (addFile_ok_iff cfg fns i name src m m1).mp e1
    obtain ⟨ents', E', h1', h2', rfl⟩ := (addFile_ok_iff cfg fns i' name src m' m1').mp e2
    rw [h1] at h1'
    cases h1'
    refine ⟨hm.cfg, rfl, hm.files.append_right _, fun nm => ?_⟩
    rw [lookup_extend, lookup_extend]
    have hl := hm.look nm
    cases hx : lookup m nm <;> cases hy : lookup m' nm <;> simp only [hx, hy, OptRel] at hl
    · simp only [Option.none_or]
      exact new_rel _ _ (canon_codes h1) (fun k hk => ⟨E[k], get_end _ _ k hk, get_end _ _ k hk⟩) nm
    · simp only [Option.some_or]
      exact hl.mono fun _ _ hc => hc.append _ _

def LoadRes.bind {α β : Type} (r : LoadRes α) (k : α → LoadRes β) : LoadRes β :=
  match r with
  | .ok a => k a
  | .err => .err | .panic => .panic | .unsupported => .unsupported

theorem LoadRes.bind_ok {α β : Type} {r : LoadRes α} {k : α → LoadRes β} {b : β} :
    r.bind k = .ok b ↔ ∃ a, r = .ok a ∧ k a = .ok b := by
  cases r <;> simp [LoadRes.bind]

/-- sequencing respects `SuccRel` -/
theorem SuccRel.bind {r r' : LoadRes Mgr} {k k' : Mgr → LoadRes Mgr} (h : SuccRel r r')
    (hk : ∀ m m', MgrEq m m' → SuccRel (k m) (k' m')) : SuccRel (r.bind k) (r'.bind k') := by
  constructor
  · constructor
    · rintro ⟨m2, e⟩
      obtain ⟨m1, e1, e2⟩ := LoadRes.bind_ok.mp e
      obtain ⟨m1', e1'⟩ := h.1.mp ⟨m1, e1⟩
      obtain ⟨m2', e2'⟩ := (hk m1 m1' (h.2 _ _ e1 e1')).1.mp ⟨m2, e2⟩
      exact ⟨m2', LoadRes.bind_ok.mpr ⟨m1', e1', e2'⟩⟩
    · rintro ⟨m2', e'⟩
      obtain ⟨m1', e1', e2'⟩ := LoadRes.bind_ok.mp e'
      obtain ⟨m1, e1⟩ := h.1.mpr ⟨m1', e1'⟩
      obtain ⟨m2, e2⟩ := (hk m1 m1' (h.2 _ _ e1 e1')).1.mpr ⟨m2', e2'⟩
      exact ⟨m2, LoadRes.bind_ok.mpr ⟨m1, e1, e2⟩⟩
  · intro m2 m2' e e'
    obtain ⟨m1, e1, e2⟩ := LoadRes.bind_ok.mp e
    obtain ⟨m1', e1', e2'⟩ := LoadRes.bind_ok.mp e'
    exact (hk m1 m1' (h.2 _ _ e1 e1')).2 _ _ e2 e2'

theorem fresh_swap (base xs ys : List String) : Fresh base (xs ++ ys) ↔ Fresh base (ys ++ xs) := by
  rw [Fresh_iff, Fresh_iff]
  constructor
  · rintro ⟨h1, h2⟩
    exact ⟨(List.perm_append_comm.nodup_iff).mp h1, fun x hx => h2 x (List.mem_append.mpr (List.mem_append.mp hx).symm)⟩
  · rintro ⟨h1, h2⟩
    exact ⟨(List.perm_append_comm.nodup_iff).mp h1, fun x hx => h2 x (List.mem_append.mpr (List.mem_append.mp hx).symm)⟩

/-- adding `b` then `a` in terms of the canonical contributions -/
theorem addTwo_ok_iff (cfg : Cfg) (fns : List (String × FnSpec)) (ia ib : Nat) (a srcA b srcB : String) (m m2 : Mgr) :
    (addFile cfg fns ib b srcB m).bind (addFile cfg fns ia a srcA) = .ok m2 ↔
      ∃ entsA EA entsB EB, canon cfg fns a srcA = .ok (entsA, EA) ∧ canon cfg fns b srcB = .ok (entsB, EB) ∧
        Fresh (names m.templates) (names entsB ++ names entsA) ∧
        m2 = extend fns (extend fns m ib b entsB EB) ia a entsA EA := by
  rw [LoadRes.bind_ok]
  constructor
  · rintro ⟨m1, e1, e2⟩
    obtain ⟨entsB, EB, h1, h2, rfl⟩ := (addFile_ok_iff cfg fns ib b srcB m m1).mp e1
    obtain ⟨entsA, EA, h3, h4, rfl⟩ := (addFile_ok_iff cfg fns ia a srcA _ m2).mp e2
    rw [names_extend] at h4
    exact ⟨entsA, EA, entsB, EB, h3, h1, (Fresh_append _ _ _).mpr ⟨h2, h4⟩, rfl⟩
  · rintro ⟨entsA, EA, entsB, EB, h3, h1, h5, rfl⟩
    obtain ⟨h2, h4⟩ := (Fresh_append _ _ _).mp h5
    refine ⟨_, (addFile_ok_iff cfg fns ib b srcB m _).mpr ⟨entsB, EB, h1, h2, rfl⟩, ?_⟩
    exact (addFile_ok_iff cfg fns ia a srcA _ _).mpr ⟨entsA, EA, h3, by rw [names_extend]; exact h4, rfl⟩

theorem extend_cfg (fns : List (String × FnSpec)) (m : Mgr) (i : Nat) (name : String) (ents : List (String × Node)) (E : Tbl) :
    (extend fns m i name ents E).cfg = m.cfg := rfl
theorem extend_fns (fns : List (String × FnSpec)) (m : Mgr) (i : Nat) (name : String) (ents : List (String × Node)) (E : Tbl) :
    (extend fns m i name ents E).cx.fns = fns := rfl
theorem extend_files (fns : List (String × FnSpec)) (m : Mgr) (i : Nat) (name : String) (ents : List (String × Node)) (E : Tbl) :
    (extend fns m i name ents E).files = m.files ++ [name] := rfl
theorem extend_exprs (fns : List (String × FnSpec)) (m : Mgr) (i : Nat) (name : String) (ents : List (String × Node)) (E : Tbl) :
    (extend fns m i name ents E).cx.exprs = m.cx.exprs ++ E := rfl

theorem lookup_extend2 (fns : List (String × FnSpec)) (m : Mgr) (i j : Nat) (n1 n2 : String) (e1 e2 : List (String × Node))
    (E1 E2 : Tbl) (nm : String) :
    lookup (extend fns (extend fns m i n1 e1 E1) j n2 e2 E2) nm =
      ((lookup m nm).or ((lookupL e1 nm).map (mapNode (m.cx.exprs.size + ·) (gId (i * 100000))))).or
        ((lookupL e2 nm).map (mapNode ((m.cx.exprs ++ E1).size + ·) (gId (j * 100000)))) := by
  rw [lookup_extend, lookup_extend, extend_exprs]

/-- **two `addFile`s commute up to `MgrEq`** (whatever file numbers are used): `b` then `a` succeeds iff `a` then `b`
    succeeds, and then the two managers are equal up to renumbering. `MgrEq m m` says that `m` is well formed
    (every expression index of a registered tree is inside the table); it holds for every loaded manager. -/
theorem addFile_swap (cfg : Cfg) (fns : List (String × FnSpec)) (ia ib ia' ib' : Nat) (a srcA b srcB : String) {m : Mgr}
    (hm : MgrEq m m) :
    SuccRel ((addFile cfg fns ib b srcB m).bind (addFile cfg fns ia a srcA))
      ((addFile cfg fns ia' a srcA m).bind (addFile cfg fns ib' b srcB)) := by
  constructor
  · constructor
    · rintro ⟨m2, e⟩
      obtain ⟨entsA, EA, entsB, EB, h1, h2, h3, _⟩ := (addTwo_ok_iff cfg fns ia ib a srcA b srcB m m2).mp e
      exact ⟨_, (addTwo_ok_iff cfg fns ib' ia' b srcB a srcA m _).mpr
        ⟨entsB, EB, entsA, EA, h2, h1, (fresh_swap _ _ _).mp h3, rfl⟩⟩
    · rintro ⟨m2, e⟩
      obtain ⟨entsB, EB, entsA, EA, h2, h1, h3, _⟩ := (addTwo_ok_iff cfg fns ib' ia' b srcB a srcA m m2).mp e
      exact ⟨_, (addTwo_ok_iff cfg fns ia ib a srcA b srcB m _).mpr
        ⟨entsA, EA, entsB, EB, h1, h2, (fresh_swap _ _ _).mp h3, rfl⟩⟩
  · intro m2 m2' e e'
    obtain ⟨entsA, EA, entsB, EB, h1, h2, h3, rfl⟩ := (addTwo_ok_iff cfg fns ia ib a srcA b srcB m m2).mp e
    obtain ⟨entsB', EB', entsA', EA', h2', h1', _, rfl⟩ := (addTwo_ok_iff cfg fns ib' ia' b srcB a srcA m m2').mp e'
    rw [h1] at h1'; cases h1'
    rw [h2] at h2'; cases h2'
    refine ⟨by simp only [extend_cfg], by simp only [extend_fns], ?_, fun nm => ?_⟩
    · simp only [extend_files]
      rw [List.append_assoc, List.append_assoc]
      exact List.Perm.append_left _ (List.Perm.swap _ _ _)
    · simp only [extend_exprs]
      rw [lookup_extend2, lookup_extend2]
      have hdisj : ∀ x, x ∈ names entsB → x ∉ names entsA := by
        have := ((Fresh_iff _ _).mp h3).1
        exact fun x hb ha => (List.nodup_append.mp this).2.2 x hb x ha rfl
      have rB := new_rel (T1 := (m.cx.exprs ++ EB) ++ EA) (T2 := (m.cx.exprs ++ EA) ++ EB) (o1 := m.cx.exprs.size)
        (o2 := (m.cx.exprs ++ EA).size) (ib * 100000) (ib' * 100000) (canon_codes h2)
        (fun k hk => ⟨EB[k], get_mid _ _ _ k hk, get_end _ _ k hk⟩) nm
      have rA := new_rel (T1 := (m.cx.exprs ++ EB) ++ EA) (T2 := (m.cx.exprs ++ EA) ++ EB) (o1 := (m.cx.exprs ++ EB).size)
        (o2 := m.cx.exprs.size) (ia * 100000) (ia' * 100000) (canon_codes h1)
        (fun k hk => ⟨EA[k], get_end _ _ k hk, get_mid _ _ _ k hk⟩) nm
      have hl := hm.look nm
      cases hx : lookup m nm with
      | some t =>
        simp only [hx, OptRel, Option.some_or] at hl ⊢
        exact hl.mono fun _ _ hc => (hc.append EB EA).append EA EB
      | none =>
        simp only [Option.none_or]
        cases hB : lookupL entsB nm with
        | none =>
          rw [hB] at rB
          simp only [Option.map_none, Option.none_or, Option.or_none]
          exact rA
        | some tB =>
          have hA : lookupL entsA nm = none :=
            (lookupL_none _ _).mpr (hdisj nm ((lookupL_isSome _ _).mp (by rw [hB]; rfl)))
          rw [hB] at rB
          simp only [hA, Option.map_none, Option.or_none, Option.map_some, Option.none_or]
          exact rB

/-! ## permutations of the file list -/

theorem LoadRes.bind_assoc {α β γ : Type} (r : LoadRes α) (k : α → LoadRes β) (k' : β → LoadRes γ) :
    (r.bind k).bind k' = r.bind fun a => (k a).bind k' := by
  cases r <;> rfl

theorem loadFrom_cons (cfg : Cfg) (fns : List (String × FnSpec)) (i : Nat) (f : String × String) (rest : List (String × String))
    (m : Mgr) :
    loadFrom cfg fns i (f :: rest) m = (addFile cfg fns (i + 1) f.1 f.2 m).bind (loadFrom cfg fns (i + 1) rest) := by
  rw [loadFrom]
  cases addFile cfg fns (i + 1) f.1 f.2 m <;> rfl

theorem loadFrom_cons' (cfg : Cfg) (fns : List (String × FnSpec)) (i : Nat) (f : String × String) (rest : List (String × String)) :
    loadFrom cfg fns i (f :: rest) = fun m => (addFile cfg fns (i + 1) f.1 f.2 m).bind (loadFrom cfg fns (i + 1) rest) :=
  funext (loadFrom_cons cfg fns i f rest)

theorem SuccRel.ok {m m' : Mgr} (h : MgrEq m m') : SuccRel (.ok m) (.ok m') :=
  ⟨⟨fun _ => ⟨_, rfl⟩, fun _ => ⟨_, rfl⟩⟩, fun _ _ e e' => by cases e; cases e'; exact h⟩

theorem MgrEq.refl_left {m m' : Mgr} (h : MgrEq m m') : MgrEq m m := h.trans h.symm
theorem MgrEq.refl_right {m m' : Mgr} (h : MgrEq m m') : MgrEq m' m' := h.symm.trans h

/-- loading the same list (under any numbering) into equal managers -/
theorem loadFrom_respects (cfg : Cfg) (fns : List (String × FnSpec)) : ∀ (files : List (String × String)) (i i' : Nat) (m m' : Mgr),
    MgrEq m m' → SuccRel (loadFrom cfg fns i files m) (loadFrom cfg fns i' files m')
  | [], _, _, _, _, h => by simp only [loadFrom]; exact SuccRel.ok h
  | f :: rest, i, i', m, m', h => by
    rw [loadFrom_cons, loadFrom_cons]
    exact (addFile_respects cfg fns _ _ f.1 f.2 h).bind fun m1 m1' h1 => loadFrom_respects cfg fns rest _ _ m1 m1' h1

/-- loading a permutation of the list -/
theorem loadFrom_perm (cfg : Cfg) (fns : List (String × FnSpec)) {files files' : List (String × String)} (hp : files.Perm files') :
    ∀ (i i' : Nat) (m m' : Mgr), MgrEq m m' → SuccRel (loadFrom cfg fns i files m) (loadFrom cfg fns i' files' m') := by
  induction hp with
  | nil => intro i i' m m' h; simp only [loadFrom]; exact SuccRel.ok h
  | cons x _ ih =>
    intro i i' m m' h
    rw [loadFrom_cons, loadFrom_cons]
    exact (addFile_respects cfg fns _ _ x.1 x.2 h).bind fun m1 m1' h1 => ih _ _ m1 m1' h1
  | swap x y l =>
    intro i i' m m' h
    rw [loadFrom_cons, loadFrom_cons, loadFrom_cons', loadFrom_cons', ← LoadRes.bind_assoc, ← LoadRes.bind_assoc]
    refine SuccRel.bind ?_ fun m1 m1' h1 => loadFrom_respects cfg fns l _ _ m1 m1' h1
    refine (addFile_swap cfg fns (i + 1 + 1) (i + 1) (i' + 1) (i' + 1 + 1) x.1 x.2 y.1 y.2 h.refl_left).trans ?_
    exact (addFile_respects cfg fns _ _ x.1 x.2 h).bind fun m1 m1' h1 => addFile_respects cfg fns _ _ y.1 y.2 h1
  | trans _ _ ih1 ih2 =>
    intro i i' m m' h
    exact (ih1 i i m m h.refl_left).trans (ih2 i i' m m' h)

theorem emptyMgr_eq (cfg : Cfg) (fns : List (String × FnSpec)) : MgrEq (emptyMgr cfg fns) (emptyMgr cfg fns) :=
  ⟨rfl, rfl, List.Perm.refl _, fun _ => trivial⟩

/-- every loaded manager is well formed -/
theorem loaded_wf {cfg : Cfg} {fns : List (String × FnSpec)} {files : List (String × String)} {m : Mgr}
    (h : loadFiles cfg fns files = .ok m) : MgrEq m m :=
  (loadFrom_respects cfg fns files 0 0 _ _ (emptyMgr_eq cfg fns)).2 m m h h

end EN
