import TplModel.Proofs.RenderSpec
import TplModel.Proofs.LoaderProofs
import TplModel.Proofs.CodeScanLoader
/-! # Text, comments and CDATA between the elements of a conditional chain (C03): helper lemmas

* `Ins P ks ks'` — `ks'` is `ks` with elements satisfying `P` inserted anywhere (before, between, after);
* `stRun` — the common shape of `kidsRun` (state `Unit`) and `chainRun` (state = the satisfied-so-far flag), its
  per-sibling trace `stTrace`, and the insertion theorem `stTrace_ins` / `stRun_ins`: inserting siblings on which the
  step is `Q.okQ (sibChunks t) nc` (state and conditions unchanged) inserts exactly those entries in the trace and changes
  neither status, log nor final conditions;
* `ChainTail.ins`, `Chain.ins` — a chain stays a chain;
* loader: `EN.prevTagAt`, `EN.annotateL_split`, `EN.annotateL_ins`, `EN.annotateL_chain`;
* `RN.Spec.tplIndep_all` — a tree without `insert` / `replace` attributes renders the same whatever the template registry;
* `EN.compileToks_forget`, `EN.compileToks_app_eq` — the token compiler depends on the tokens only through kinds, values,
  tag names, attribute names and values (not positions), and is sequential. -/

/-! ## 1. insertion -/

/-- `ks'` is `ks` with elements satisfying `P` inserted at arbitrary positions -/
inductive Ins {α : Type} (P : α → Prop) : List α → List α → Prop
  | nil : Ins P [] []
  | keep (k : α) {ks ks' : List α} : Ins P ks ks' → Ins P (k :: ks) (k :: ks')
  | ins (t : α) {ks ks' : List α} : P t → Ins P ks ks' → Ins P ks (t :: ks')

namespace Ins
variable {α : Type} {P : α → Prop}

theorem refl : ∀ ks : List α, Ins P ks ks
  | [] => .nil
  | k :: ks => .keep k (refl ks)

theorem mono {P' : α → Prop} (h : ∀ a, P a → P' a) {ks ks' : List α} (hi : Ins P ks ks') : Ins P' ks ks' := by
  induction hi with
  | nil => exact .nil
  | keep k _ ih => exact .keep k ih
  | ins t ht _ ih => exact .ins t (h t ht) ih

theorem append {as as' bs bs' : List α} (h1 : Ins P as as') (h2 : Ins P bs bs') : Ins P (as ++ bs) (as' ++ bs') := by
  induction h1 with
  | nil => exact h2
  | keep k _ ih => exact .keep k ih
  | ins t ht _ ih => exact .ins t ht ih

/-- a block of `P`-elements put in front -/
theorem prepend {g : List α} (hg : ∀ t ∈ g, P t) {ks ks' : List α} (h : Ins P ks ks') : Ins P ks (g ++ ks') := by
  induction g with
  | nil => exact h
  | cons t g ih => exact .ins t (hg t (by simp)) (ih fun x hx => hg x (by simp [hx]))

theorem of_all {g : List α} (hg : ∀ t ∈ g, P t) : Ins P [] g := by
  have := prepend hg (Ins.nil (P := P))
  simpa using this

theorem sublist {ks ks' : List α} (h : Ins P ks ks') : ks.Sublist ks' := by
  induction h with
  | nil => exact .slnil
  | keep k _ ih => exact ih.cons_cons k
  | ins t _ _ ih => exact ih.cons t

theorem mem {ks ks' : List α} (h : Ins P ks ks') {x : α} (hx : x ∈ ks') : x ∈ ks ∨ P x := by
  induction h with
  | nil => cases hx
  | keep k _ ih =>
    rcases List.mem_cons.mp hx with rfl | hx
    · exact Or.inl (by simp)
    · rcases ih hx with h | h
      · exact Or.inl (by simp [h])
      · exact Or.inr h
  | ins t ht _ ih =>
    rcases List.mem_cons.mp hx with rfl | hx
    · exact Or.inr ht
    · exact ih hx

/-- the elements not satisfying `P` are the same, in the same order -/
theorem filter_not (p : α → Bool) (hp : ∀ a, P a → p a = false) {ks ks' : List α} (h : Ins P ks ks') :
    ks'.filter p = ks.filter p := by
  induction h with
  | nil => rfl
  | keep k _ ih => simp only [List.filter_cons, ih]
  | ins t ht _ ih => simp only [List.filter_cons, hp t ht, Bool.false_eq_true, if_false, ih]

/-- a function that is trivial on the inserted elements does not see them -/
theorem flatMap_eq {β : Type} (f : α → List β) (hf : ∀ a, P a → f a = []) {ks ks' : List α} (h : Ins P ks ks') :
    ks'.flatMap f = ks.flatMap f := by
  induction h with
  | nil => rfl
  | keep k _ ih => simp only [List.flatMap_cons, ih]
  | ins t ht _ ih => simp only [List.flatMap_cons, hf t ht, List.nil_append, ih]

theorem map {β : Type} (f : α → β) {Q : β → Prop} (hf : ∀ a, P a → Q (f a)) {ks ks' : List α} (h : Ins P ks ks') :
    Ins Q (ks.map f) (ks'.map f) := by
  induction h with
  | nil => exact .nil
  | keep k _ ih => exact .keep _ ih
  | ins t ht _ ih => exact .ins _ (hf t ht) ih

end Ins

namespace RN.Spec
variable {Sc : Type}

/-- a sibling that is not an element and has no children: what the loader builds from a text, comment or CDATA token -/
def Gap (t : Node) : Prop := t.d.kind ≠ .tag ∧ t.kids = []

theorem ids_gap {t : Node} (h : Gap t) : ids t = [t.d.id] := by rw [ids_eq, h.2]; rfl

/-! ## 2. a stateful run over a sibling list, its trace, and insertion -/

/-- a run over a sibling list threading the recorded conditions and a state `σ` -/
def stRun {σ : Type} (step : σ → NC → Node → Q × σ) : σ → NC → List Node → Q
  | _, nc, [] => Q.okQ [] nc
  | s, nc, k :: ks => (step s nc k).1.andThen fun nc' => stRun step (step s nc k).2 nc' ks

/-- the siblings that the run reaches, each with its result (the run stops after the first failure) -/
def stTrace {σ : Type} (step : σ → NC → Node → Q × σ) : σ → NC → List Node → List (Node × Q)
  | _, _, [] => []
  | s, nc, k :: ks =>
    (k, (step s nc k).1) :: (if (step s nc k).1.st = .ok then stTrace step (step s nc k).2 (step s nc k).1.nc ks else [])

theorem stRun_out {σ : Type} (step : σ → NC → Node → Q × σ) : ∀ (ks : List Node) (s : σ) (nc : NC),
    (stRun step s nc ks).out = (stTrace step s nc ks).flatMap (·.2.out)
  | [], _, _ => rfl
  | k :: ks, s, nc => by
    simp only [stRun, stTrace, List.flatMap_cons]
    by_cases h : (step s nc k).1.st = .ok
    · rw [Q.andThen_ok _ h]; simp only [h, if_true]; rw [stRun_out step ks]
    · rw [Q.andThen_not_ok _ h]; simp [h]

theorem stRun_log {σ : Type} (step : σ → NC → Node → Q × σ) : ∀ (ks : List Node) (s : σ) (nc : NC),
    (stRun step s nc ks).log = (stTrace step s nc ks).flatMap (·.2.log)
  | [], _, _ => rfl
  | k :: ks, s, nc => by
    simp only [stRun, stTrace, List.flatMap_cons]
    by_cases h : (step s nc k).1.st = .ok
    · rw [Q.andThen_ok _ h]; simp only [h, if_true]; rw [stRun_log step ks]
    · rw [Q.andThen_not_ok _ h]; simp [h]

/-- the run succeeds iff every reached sibling does -/
theorem stRun_ok_iff {σ : Type} (step : σ → NC → Node → Q × σ) : ∀ (ks : List Node) (s : σ) (nc : NC),
    (stRun step s nc ks).st = .ok ↔ ∀ e ∈ stTrace step s nc ks, e.2.st = .ok
  | [], _, _ => by simp [stRun, stTrace]
  | k :: ks, s, nc => by
    simp only [stRun, stTrace]
    by_cases h : (step s nc k).1.st = .ok
    · rw [Q.andThen_ok _ h]; simp only [h, if_true, List.mem_cons, forall_eq_or_imp, true_and]
      exact stRun_ok_iff step ks _ _
    · rw [Q.andThen_not_ok _ h]; simp [h]

/-- an inserted entry of a trace: a gap node with its chunks, no events -/
def GapEntry (P : Node → Prop) (e : Node × Q) : Prop := P e.1 ∧ ∃ nc, e.2 = Q.okQ (sibChunks e.1) nc

/-- **insertion.** If the step on every node satisfying `P` is "print `sibChunks`, keep state and conditions", then
    inserting such nodes inserts exactly their entries in the trace; every other sibling is reached in the same state
    and with the same conditions, hence has the same result. Status, events and final conditions do not change. -/
theorem stRun_ins {σ : Type} (step : σ → NC → Node → Q × σ) (P : Node → Prop)
    (H : ∀ s nc t, P t → step s nc t = (Q.okQ (sibChunks t) nc, s)) {ks ks' : List Node} (hi : Ins P ks ks') :
    ∀ (s : σ) (nc : NC),
      Ins (GapEntry P) (stTrace step s nc ks) (stTrace step s nc ks') ∧
      (stRun step s nc ks').st = (stRun step s nc ks).st ∧
      (stRun step s nc ks').log = (stRun step s nc ks).log ∧
      (stRun step s nc ks').nc = (stRun step s nc ks).nc := by
  induction hi with
  | nil => intro s nc; exact ⟨.nil, rfl, rfl, rfl⟩
  | keep k _ ih =>
    intro s nc
    simp only [stRun, stTrace]
    by_cases h : (step s nc k).1.st = .ok
    · obtain ⟨i1, i2, i3, i4⟩ := ih (step s nc k).2 (step s nc k).1.nc
      rw [Q.andThen_ok _ h, Q.andThen_ok _ h]
      simp only [h, if_true]
      exact ⟨.keep _ i1, i2, by rw [i3], i4⟩
    · rw [Q.andThen_not_ok _ h, Q.andThen_not_ok _ h]
      simp only [h, if_false]
      exact ⟨.keep _ .nil, trivial, trivial, trivial⟩
  | ins t ht _ ih =>
    intro s nc
    obtain ⟨i1, i2, i3, i4⟩ := ih s nc
    simp only [stRun, stTrace, H s nc t ht, Q.okQ_andThen, Q.okQ_st, Q.okQ_nc, if_true]
    exact ⟨.ins _ ⟨ht, nc, rfl⟩ i1, i2, i3, i4⟩

/-- the output of the longer list is the output of the shorter one with the chunks of the inserted nodes spliced in:
    both are the concatenation of the per-sibling chunks of their traces, which differ by the inserted entries only -/
theorem stRun_ins_out {σ : Type} (step : σ → NC → Node → Q × σ) (P : Node → Prop)
    (H : ∀ s nc t, P t → step s nc t = (Q.okQ (sibChunks t) nc, s)) {ks ks' : List Node} (hi : Ins P ks ks')
    (s : σ) (nc : NC) :
    Ins (fun o : Node × List String => P o.1 ∧ o.2 = sibChunks o.1)
      ((stTrace step s nc ks).map fun e => (e.1, e.2.out)) ((stTrace step s nc ks').map fun e => (e.1, e.2.out)) :=
  (stRun_ins step P H hi s nc).1.map _ (fun e he => ⟨he.1, by obtain ⟨nc', h⟩ := he.2; simp [h]⟩)

/-! ### the two instances -/

theorem kidsRun_eq_stRun (nodeF : NC → Node → Q) : ∀ (ks : List Node) (nc : NC),
    kidsRun nodeF nc ks = stRun (fun (_ : Unit) nc k => (nodeF nc k, ())) () nc ks
  | [], _ => rfl
  | k :: ks, nc => by simp only [kidsRun, stRun, kidsRun_eq_stRun nodeF ks]

/-- one step of `chainRun` -/
def chainStepF (cfg : Cfg) (env : Env Sc) (nodeF : NC → Node → Q) (restF : NC → Node → Sc → Q) (sc : Sc)
    (sat : Bool) (nc : NC) (k : Node) : Q × Bool :=
  if k.d.kind = .tag then chainElem cfg env (fun nc sc1 => restF nc k sc1) k.d (condOf cfg k) sc sat nc
  else (nodeF nc k, sat)

theorem chainRun_eq_stRun (cfg : Cfg) (env : Env Sc) (nodeF : NC → Node → Q) (restF : NC → Node → Sc → Q) (sc : Sc) :
    ∀ (ks : List Node) (sat : Bool) (nc : NC),
    chainRun cfg env nodeF restF sc sat nc ks = stRun (chainStepF cfg env nodeF restF sc) sat nc ks
  | [], _, _ => rfl
  | k :: ks, sat, nc => by
    simp only [chainRun, stRun, chainStepF]
    split
    · simp only [chainRun_eq_stRun cfg env nodeF restF sc ks]
    · simp only [chainRun_eq_stRun cfg env nodeF restF sc ks]

/-- the trace of a chain run: per reached sibling, the abstract element result `chainElem … sat nc` (elements) or the
    printed leaf (other siblings) -/
def chainTrace (cfg : Cfg) (env : Env Sc) (nodeF : NC → Node → Q) (restF : NC → Node → Sc → Q) (sc : Sc)
    (sat : Bool) (nc : NC) (ks : List Node) : List (Node × Q) :=
  stTrace (chainStepF cfg env nodeF restF sc) sat nc ks

/-- the per-sibling results of `kidsRun` -/
def kidsTrace (nodeF : NC → Node → Q) (nc : NC) (ks : List Node) : List (Node × Q) :=
  stTrace (fun (_ : Unit) nc k => (nodeF nc k, ())) () nc ks

/-! ## 3. a chain stays a chain -/

/-- `t` does not carry the id of an element of `ks` -/
def FreshFor (ks : List Node) (t : Node) : Prop := ∀ e ∈ ks, e.d.kind = .tag → e.d.id ∉ ids t

theorem ChainTail.ins (cfg : Cfg) (S : List Nat) {ks ks' : List Node}
    (hi : Ins (fun t => t.d.kind ≠ .tag ∧ ∀ j ∈ S, j ∉ ids t) ks ks') :
    ∀ prev, prev ∈ S → (∀ e ∈ ks, e.d.kind = .tag → e.d.id ∈ S) → ChainTail cfg prev ks → ChainTail cfg prev ks' := by
  induction hi with
  | nil => intro prev _ _ h; exact h
  | keep k _ ih =>
    intro prev hp hS h
    cases h with
    | skip _ _ _ hk hfr ht =>
      exact .skip prev k _ hk hfr (ih prev hp (fun e he => hS e (by simp [he])) ht)
    | elem _ _ _ ca v hk hpt hc hv hid ht =>
      exact .elem prev k _ ca v hk hpt hc hv hid (ih k.d.id (hS k (by simp) hk) (fun e he => hS e (by simp [he])) ht)
  | ins t ht _ ih =>
    intro prev hp hS h
    exact .skip prev t _ ht.1 (ht.2 prev hp) (ih prev hp hS h)

/-- **a chain with non-element siblings inserted anywhere after its first element is a chain** (the inserted nodes must
    not carry the id of a chain element: `FreshFor`) -/
theorem Chain.ins (cfg : Cfg) {e : Node} {ks ks' : List Node} (hch : Chain cfg (e :: ks))
    (hi : Ins (fun t => t.d.kind ≠ .tag ∧ FreshFor (e :: ks) t) ks ks') : Chain cfg (e :: ks') := by
  cases hch with
  | mk _ _ ca v hk hc hv hid ht =>
    refine .mk e ks' ca v hk hc hv hid ?_
    refine ChainTail.ins cfg (((e :: ks).filter fun x => x.d.kind == .tag).map (·.d.id)) (hi.mono ?_) e.d.id ?_ ?_ ht
    · intro t ht'
      refine ⟨ht'.1, ?_⟩
      intro j hj
      simp only [List.mem_map, List.mem_filter, beq_iff_eq] at hj
      obtain ⟨x, ⟨hx, hxk⟩, rfl⟩ := hj
      exact ht'.2 x hx hxk
    · simp only [List.mem_map, List.mem_filter, beq_iff_eq]
      exact ⟨e, ⟨by simp, hk⟩, rfl⟩
    · intro x hx hxk
      simp only [List.mem_map, List.mem_filter, beq_iff_eq]
      exact ⟨x, ⟨by simp [hx], hxk⟩, rfl⟩

/-! ## 4. fuel: the shorter list does not run out of fuel when the longer one does not -/

theorem refKids_ins_fuel (cfg : Cfg) (env : Env Sc) {ks ks' : List Node} (hi : Ins Gap ks ks') :
    ∀ (F depth : Nat) (nc : NC) (sc : Sc), (refKids cfg env F depth nc ks' sc).st ≠ .fuel →
      (refKids cfg env F depth nc ks sc).st ≠ .fuel := by
  induction hi with
  | nil => intro F depth nc sc h; exact h
  | keep k _ ih =>
    intro F depth nc sc h
    cases F with
    | zero => exact absurd (by simp [refKids]) h
    | succ f =>
      rw [refKids] at h ⊢
      obtain ⟨h1, h2⟩ := Q.andThen_ne_fuel h
      by_cases hok : (refNode cfg env f depth nc k sc).st = .ok
      · rw [Q.andThen_ok _ hok]; exact ih f depth _ sc (h2 hok)
      · rw [Q.andThen_not_ok _ hok]; exact h1
  | ins t ht _ ih =>
    intro F depth nc sc h
    cases F with
    | zero => exact absurd (by simp [refKids]) h
    | succ f =>
      rw [refKids] at h
      obtain ⟨h1, h2⟩ := Q.andThen_ne_fuel h
      have hf : ∃ g, f = g + 2 := by
        match f, h1 with
        | 0, h1 => exact absurd (by simp [refNode]) h1
        | 1, h1 => exact absurd (by rw [refNode_nontag _ _ _ _ _ _ _ ht.1]; simp [refKids, Q.andThen]) h1
        | g + 2, _ => exact ⟨g, rfl⟩
      obtain ⟨g, rfl⟩ := hf
      have hleaf : refNode cfg env (g + 2) depth nc t sc = Q.okQ (sibChunks t) nc := by
        rw [refNode_nontag _ _ _ _ _ _ _ ht.1, ht.2]
        simp [refKids, sibChunks, ht.1, Q.andThen, Q.okQ]
      have h3 := h2 (by rw [hleaf]; rfl)
      rw [hleaf] at h3
      simp only [Q.okQ_nc] at h3
      have h4 := ih (g + 2) depth nc sc h3
      rw [refKids_mono cfg env (Nat.le_succ (g + 2)) h4]
      exact h4

end RN.Spec

/-! ## 5. the loader: `prevTag` is the nearest preceding sibling that is an element -/
namespace EN
open RN (Node NodeD)
open RN.Spec (Chain ChainTail)

/-- the previous-sibling-tag value that `annotateL prev` has reached after the siblings `pre` -/
def prevTagAt (prev : Option Nat) (pre : List Node) : Option Nat := pre.foldl (fun p k => nextPrev k p) prev

theorem prevTagAt_append (prev : Option Nat) (a b : List Node) : prevTagAt prev (a ++ b) = prevTagAt (prevTagAt prev a) b := by
  simp [prevTagAt, List.foldl_append]

theorem prevTagAt_nontags : ∀ (g : List Node) (prev : Option Nat), (∀ x ∈ g, RN.isTagNode x = false) → prevTagAt prev g = prev
  | [], _, _ => rfl
  | x :: g, prev, h => by
    have hx := h x (by simp)
    simp only [prevTagAt, List.foldl_cons, nextPrev, hx, Bool.false_eq_true, if_false]
    exact prevTagAt_nontags g prev fun y hy => h y (by simp [hy])

/-- whatever lies before the element `t`, and however many non-elements lie after it -/
theorem prevTagAt_tag_gap (prev : Option Nat) (a g : List Node) (t : Node) (ht : RN.isTagNode t = true)
    (hg : ∀ x ∈ g, RN.isTagNode x = false) : prevTagAt prev (a ++ t :: g) = some t.d.id := by
  rw [prevTagAt_append]
  show prevTagAt (nextPrev t (prevTagAt prev a)) g = _
  rw [prevTagAt_nontags g _ hg]
  simp [nextPrev, ht]

/-- a sibling list either has no element, or ends with an element followed by non-elements only -/
theorem last_tag_split : ∀ pre : List Node, (∀ x ∈ pre, RN.isTagNode x = false) ∨
    ∃ a t g, pre = a ++ t :: g ∧ RN.isTagNode t = true ∧ ∀ x ∈ g, RN.isTagNode x = false
  | [] => Or.inl (by simp)
  | x :: pre => by
    rcases last_tag_split pre with h | ⟨a, t, g, rfl, ht, hg⟩
    · cases hx : RN.isTagNode x with
      | false => left; intro y hy; rcases List.mem_cons.mp hy with rfl | hy; exact hx; exact h y hy
      | true => right; exact ⟨[], x, pre, rfl, hx, h⟩
    · right; exact ⟨x :: a, t, g, rfl, ht, hg⟩

theorem prevTagAt_none_iff (pre : List Node) : prevTagAt none pre = none ↔ ∀ x ∈ pre, RN.isTagNode x = false := by
  constructor
  · intro h
    rcases last_tag_split pre with h' | ⟨a, t, g, rfl, ht, hg⟩
    · exact h'
    · rw [prevTagAt_tag_gap none a g t ht hg] at h; cases h
  · intro h; exact prevTagAt_nontags pre none h

/-- what `annotateL` does to the sibling at position `pre.length` -/
theorem annotateL_split : ∀ (pre : List Node) (prev : Option Nat) (k : Node) (post : List Node),
    ∃ pre', pre'.length = pre.length ∧
      annotateL prev (pre ++ k :: post) =
        pre' ++ setSib (annotate k) (prevTagAt prev pre) (nextBlankOf post) :: annotateL (nextPrev k (prevTagAt prev pre)) post
  | [], prev, k, post => ⟨[], rfl, by simp [annotateL, prevTagAt]⟩
  | x :: pre, prev, k, post => by
    obtain ⟨pre', hl, he⟩ := annotateL_split pre (nextPrev x prev) k post
    refine ⟨setSib (annotate x) prev (nextBlankOf (pre ++ k :: post)) :: pre', by simp [hl], ?_⟩
    simp only [List.cons_append, annotateL, he]
    rfl

/-- the same node with the `nextBlank` field cleared -/
def clearNB (n : Node) : Node := .mk { n.d with nextBlank := none } n.kids n.endVal

theorem clearNB_setSib (m : Node) (p : Option Nat) (nb nb' : Option String) :
    clearNB (setSib m p nb) = clearNB (setSib m p nb') := by cases m; rfl

theorem isTagNode_clearNB (n : Node) : RN.isTagNode (clearNB n) = RN.isTagNode n := by cases n; rfl
theorem clearNB_prevTag (n : Node) : (clearNB n).d.prevTag = n.d.prevTag := by cases n; rfl

theorem setSib_d_kind (m : Node) (p : Option Nat) (nb : Option String) : (setSib m p nb).d.kind = m.d.kind := by cases m; rfl
theorem setSib_d_id (m : Node) (p : Option Nat) (nb : Option String) : (setSib m p nb).d.id = m.d.id := by cases m; rfl
theorem setSib_d_attrs (m : Node) (p : Option Nat) (nb : Option String) : (setSib m p nb).d.attrs = m.d.attrs := by cases m; rfl
theorem setSib_d_prevTag (m : Node) (p : Option Nat) (nb : Option String) : (setSib m p nb).d.prevTag = p := by cases m; rfl
theorem setSib_kids (m : Node) (p : Option Nat) (nb : Option String) : (setSib m p nb).kids = m.kids := by cases m; rfl
theorem isTagNode_setSib (m : Node) (p : Option Nat) (nb : Option String) : RN.isTagNode (setSib m p nb) = RN.isTagNode m := by
  cases m; rfl
theorem isTagNode_annotate (m : Node) : RN.isTagNode (annotate m) = RN.isTagNode m := by
  simp [RN.isTagNode, annotate_d]

/-- two annotated sibling lists: the second has additional non-elements; the common nodes agree except for `nextBlank` -/
inductive AnnIns : List Node → List Node → Prop
  | nil : AnnIns [] []
  | keep (a a' : Node) {ks ks' : List Node} : clearNB a' = clearNB a → AnnIns ks ks' → AnnIns (a :: ks) (a' :: ks')
  | ins (t : Node) {ks ks' : List Node} : RN.isTagNode t = false → AnnIns ks ks' → AnnIns ks (t :: ks')

theorem annotateL_ins {ks ks' : List Node} (hi : Ins (fun t => RN.isTagNode t = false) ks ks') :
    ∀ prev, AnnIns (annotateL prev ks) (annotateL prev ks') := by
  induction hi with
  | nil => intro prev; exact .nil
  | keep k _ ih =>
    intro prev
    simp only [annotateL]
    exact .keep _ _ (clearNB_setSib _ _ _ _) (ih _)
  | ins t ht _ ih =>
    intro prev
    simp only [annotateL]
    have : nextPrev t prev = prev := by simp [nextPrev, ht]
    rw [this]
    exact .ins _ (by rw [isTagNode_setSib, isTagNode_annotate]; exact ht) (ih prev)

theorem AnnIns.tags {l l' : List Node} (h : AnnIns l l') :
    (l'.filter RN.isTagNode).map clearNB = (l.filter RN.isTagNode).map clearNB := by
  induction h with
  | nil => rfl
  | keep a a' he _ ih =>
    have ht : RN.isTagNode a' = RN.isTagNode a := by rw [← isTagNode_clearNB a', he, isTagNode_clearNB]
    simp only [List.filter_cons, ht]
    split
    · simp only [List.map_cons, he, ih]
    · exact ih
  | ins t ht _ ih => simp only [List.filter_cons, ht, Bool.false_eq_true, if_false, ih]

/-! ### from the loader's sibling list to `Chain` -/

theorem spec_ids_eq : ∀ n : Node, RN.Spec.ids n = RN.ids n := by
  refine RN.Spec.Node.induct (PL := fun ks => RN.Spec.idsL ks = RN.idsL ks) ?_ ?_ ?_
  · intro d kids e ih; simp only [RN.Spec.ids, RN.ids, ih]
  · simp [RN.Spec.idsL, RN.idsL]
  · intro k ks ih1 ih2; simp only [RN.Spec.idsL, RN.idsL, ih1, ih2]

theorem spec_ids_setSib (m : Node) (p : Option Nat) (nb : Option String) : RN.Spec.ids (setSib m p nb) = RN.Spec.ids m := by
  cases m; simp [setSib, RN.Spec.ids, RN.Node.d, RN.Node.kids]

theorem spec_ids_annotate (m : Node) : RN.Spec.ids (annotate m) = RN.Spec.ids m := by
  rw [spec_ids_eq, spec_ids_eq, annotate_ids]

theorem spec_idsL_annotate_kids (m : Node) : RN.Spec.idsL (annotate m).kids = RN.Spec.idsL m.kids := by
  have h := spec_ids_annotate m
  rw [RN.Spec.ids_eq, RN.Spec.ids_eq] at h
  exact (List.cons.inj h).2

/-- the siblings after a chain element as the tree builder leaves them (no `prevTag` yet): else-family elements with
    values, separated by non-elements only -/
inductive RawTail (cfg : RN.Cfg) : List Node → Prop
  | nil : RawTail cfg []
  | skip (t : Node) (ks : List Node) : t.d.kind ≠ .tag → RawTail cfg ks → RawTail cfg (t :: ks)
  | elem (e : Node) (ks : List Node) (ca : RN.CAttr) (v : String) : e.d.kind = .tag →
      RN.condAttr cfg e.d.attrs = some (ca, false) → ca.value = some v → RawTail cfg ks → RawTail cfg (e :: ks)

/-- an `if` element followed by such a tail -/
inductive RawChain (cfg : RN.Cfg) : List Node → Prop
  | mk (e : Node) (ks : List Node) (ca : RN.CAttr) (v : String) : e.d.kind = .tag →
      RN.condAttr cfg e.d.attrs = some (ca, true) → ca.value = some v → RawTail cfg ks → RawChain cfg (e :: ks)

theorem not_mem_idsL_of_nodup {e : Node} {ks : List Node} (h : (RN.Spec.idsL (e :: ks)).Nodup) :
    e.d.id ∉ RN.Spec.idsL e.kids ∧ e.d.id ∉ RN.Spec.idsL ks ∧ (RN.Spec.idsL ks).Nodup := by
  simp only [RN.Spec.idsL, RN.Spec.ids_eq] at h
  rw [List.nodup_append] at h
  obtain ⟨h1, h2, h3⟩ := h
  refine ⟨(List.nodup_cons.mp h1).1, fun hm => h3 _ (by simp) _ hm rfl, h2⟩

theorem annotateL_chainTail (cfg : RN.Cfg) {ks : List Node} (h : RawTail cfg ks) :
    ∀ p, p ∉ RN.Spec.idsL ks → (RN.Spec.idsL ks).Nodup → ChainTail cfg p (annotateL (some p) ks) := by
  induction h with
  | nil => intro p _ _; exact .nil p
  | skip t ks hk _ ih =>
    intro p hp hnd
    have ht : RN.isTagNode t = false := by simp [RN.isTagNode, hk]
    simp only [annotateL, nextPrev, ht, Bool.false_eq_true, if_false]
    obtain ⟨_, _, hnd'⟩ := not_mem_idsL_of_nodup hnd
    refine .skip p _ _ ?_ ?_ (ih p (fun hm => hp (by simp [RN.Spec.idsL, hm])) hnd')
    · rw [setSib_d_kind, annotate_d]; exact hk
    · rw [spec_ids_setSib, spec_ids_annotate]
      intro hm; exact hp (by simp [RN.Spec.idsL, hm])
  | elem e ks ca v hk hc hv _ ih =>
    intro p hp hnd
    have ht : RN.isTagNode e = true := by simp [RN.isTagNode, hk]
    simp only [annotateL, nextPrev, ht, if_true]
    obtain ⟨h1, h2, hnd'⟩ := not_mem_idsL_of_nodup hnd
    refine .elem p _ _ ca v ?_ ?_ ?_ hv ?_ ?_
    · rw [setSib_d_kind, annotate_d]; exact hk
    · exact setSib_d_prevTag _ _ _
    · rw [setSib_d_attrs, annotate_d]; exact hc
    · rw [setSib_d_id, setSib_kids, annotate_d, spec_idsL_annotate_kids]; exact h1
    · rw [setSib_d_id, annotate_d]; exact ih e.d.id h2 hnd'

/-- **the loader turns a written chain into a `Chain`**: an `if` element, then else-family elements, with any
    non-elements in between — after `annotateL` every else-family element names the previous ELEMENT of the chain -/
theorem annotateL_chain (cfg : RN.Cfg) {ks : List Node} (h : RawChain cfg ks) (hnd : (RN.Spec.idsL ks).Nodup)
    (prev : Option Nat) : Chain cfg (annotateL prev ks) := by
  cases h with
  | mk e ks ca v hk hc hv ht =>
    have htag : RN.isTagNode e = true := by simp [RN.isTagNode, hk]
    simp only [annotateL, nextPrev, htag, if_true]
    obtain ⟨h1, h2, hnd'⟩ := not_mem_idsL_of_nodup hnd
    refine .mk _ _ ca v ?_ ?_ hv ?_ ?_
    · rw [setSib_d_kind, annotate_d]; exact hk
    · rw [setSib_d_attrs, annotate_d]; exact hc
    · rw [setSib_d_id, setSib_kids, annotate_d, spec_idsL_annotate_kids]; exact h1
    · rw [setSib_d_id, annotate_d]; exact annotateL_chainTail cfg ht e.d.id h2 hnd'

end EN

namespace RN.Spec
variable {Sc : Type}

/-! ## 6. trees without `insert` / `replace` do not consult the template registry -/

def fragAttr (cfg : Cfg) (a : CAttr) : Bool := classify cfg a == .replace || classify cfg a == .insert

mutual
def noFragB (cfg : Cfg) : Node → Bool
  | .mk d kids _ => d.attrs.all (fun a => !fragAttr cfg a) && noFragBL cfg kids
def noFragBL (cfg : Cfg) : List Node → Bool
  | [] => true
  | k :: ks => noFragB cfg k && noFragBL cfg ks
end

theorem noFragB_attrs {cfg : Cfg} {n : Node} (h : noFragB cfg n = true) : ∀ a ∈ n.d.attrs, fragAttr cfg a = false := by
  cases n with
  | mk d kids e =>
    simp only [noFragB, Bool.and_eq_true, List.all_eq_true, Bool.not_eq_true'] at h
    exact h.1
theorem noFragB_kids {cfg : Cfg} {n : Node} (h : noFragB cfg n = true) : noFragBL cfg n.kids = true := by
  cases n with
  | mk d kids e =>
    simp only [noFragB, Bool.and_eq_true] at h
    exact h.2
theorem noFragBL_mem {cfg : Cfg} : ∀ {ks : List Node}, noFragBL cfg ks = true → ∀ k ∈ ks, noFragB cfg k = true
  | [], _, k, hk => by cases hk
  | x :: xs, h, k, hk => by
    simp only [noFragBL, Bool.and_eq_true] at h
    rcases List.mem_cons.mp hk with rfl | hk
    · exact h.1
    · exact noFragBL_mem h.2 k hk

/-- the same callbacks, another registry -/
def withTpl (env : Env Sc) (tplF : String → Option Node) : Env Sc := { env with tpl := tplF }

theorem bodyStep_noFrag (cfg : Cfg) (env : Env Sc) (tplF : String → Option Node) (frag frag' : Node → Sc → R) (d : NodeD)
    (a : CAttr) (ps : PS Sc) (nc : NC) (fl : Fl) (h : fragAttr cfg a = false) :
    bodyStep cfg (withTpl env tplF) frag' d a (classify cfg a) ps nc fl = bodyStep cfg env frag d a (classify cfg a) ps nc fl := by
  simp only [fragAttr, Bool.or_eq_false_iff, beq_eq_false_iff_ne] at h
  cases hk : classify cfg a <;> first | rfl | (exfalso; first | exact h.1 hk | exact h.2 hk)

structure TplIndepAt (cfg : Cfg) (env : Env Sc) (tplF : String → Option Node) (f : Nat) : Prop where
  node : ∀ depth nc node sc, noFragB cfg node = true →
    refNode cfg (withTpl env tplF) f depth nc node sc = refNode cfg env f depth nc node sc
  kids : ∀ depth nc ks sc, noFragBL cfg ks = true →
    refKids cfg (withTpl env tplF) f depth nc ks sc = refKids cfg env f depth nc ks sc
  range : ∀ depth nc node ra sc, noFragB cfg node = true →
    refRange cfg (withTpl env tplF) f depth nc node ra sc = refRange cfg env f depth nc node ra sc
  items : ∀ depth nc node its first, noFragB cfg node = true →
    refItems cfg (withTpl env tplF) f depth nc node its first = refItems cfg env f depth nc node its first
  body : ∀ depth nc node sc, noFragB cfg node = true →
    refBody cfg (withTpl env tplF) f depth nc node sc = refBody cfg env f depth nc node sc
  attrs : ∀ depth nc d as ps, (∀ a ∈ as, fragAttr cfg a = false) →
    refAttrs cfg (withTpl env tplF) f depth nc d as ps = refAttrs cfg env f depth nc d as ps
  child : ∀ depth nc node mode sc, noFragB cfg node = true →
    refChild cfg (withTpl env tplF) f depth nc node mode sc = refChild cfg env f depth nc node mode sc

theorem tplIndep_all (cfg : Cfg) (env : Env Sc) (tplF : String → Option Node) : ∀ f, TplIndepAt cfg env tplF f := by
  intro f
  induction f with
  | zero =>
    constructor <;> intros <;> simp only [refNode, refKids, refRange, refItems, refBody, refChild, refAttrs]
  | succ f ih =>
    constructor
    · intro depth nc node sc hn
      by_cases hk : node.d.kind = .tag
      · rw [refNode_tag _ _ _ _ _ _ _ hk, refNode_tag _ _ _ _ _ _ _ hk]
        have hrest : (fun nc sc1 => refRest cfg (withTpl env tplF) f depth nc node sc1) =
            fun nc sc1 => refRest cfg env f depth nc node sc1 := by
          funext nc' sc1
          unfold refRest
          cases rangeAttr cfg node.d.attrs with
          | none => exact ih.body _ _ _ _ hn
          | some ra => exact ih.range _ _ _ _ _ hn
        rw [hrest]
        rfl
      · rw [refNode_nontag _ _ _ _ _ _ _ hk, refNode_nontag _ _ _ _ _ _ _ hk]
        have : ∀ nc', refKids cfg (withTpl env tplF) f depth nc' node.kids sc = refKids cfg env f depth nc' node.kids sc :=
          fun nc' => ih.kids _ _ _ _ (noFragB_kids hn)
        simp only [this]
    · intro depth nc ks sc hn
      cases ks with
      | nil => simp only [refKids]
      | cons k ks =>
        simp only [noFragBL, Bool.and_eq_true] at hn
        rw [refKids, refKids, ih.node _ _ _ _ hn.1]
        congr 1
        funext nc'
        exact ih.kids _ _ _ _ hn.2
    · intro depth nc node ra sc hn
      rw [refRange, refRange]
      cases ra.value with
      | none => rfl
      | some v =>
        simp only []
        have : (withTpl env tplF).rangeItems ra sc = env.rangeItems ra sc := rfl
        rw [this]
        cases env.rangeItems ra sc with
        | mk e lg =>
          cases e with
          | error c => rfl
          | ok its => simp only [ih.items _ _ _ _ _ hn]
    · intro depth nc node its first hn
      cases its with
      | nil => simp only [refItems]
      | cons sc rest =>
        rw [refItems_cons, refItems_cons]
        have h1 : (fun nc => refBody cfg (withTpl env tplF) f depth nc node sc) = fun nc => refBody cfg env f depth nc node sc := by
          funext nc'; exact ih.body _ _ _ _ hn
        have h2 : (fun nc => refItems cfg (withTpl env tplF) f depth nc node rest false) =
            fun nc => refItems cfg env f depth nc node rest false := by
          funext nc'; exact ih.items _ _ _ _ _ hn
        rw [h1, h2]
    · intro depth nc node sc hn
      have e0 : ∀ (env : Env Sc), refBody cfg env (f+1) depth nc node sc =
          bodyRun node (refAttrs cfg env f depth nc node.d node.d.attrs (startPS cfg node.d sc))
            (fun nc mode sc => refChild cfg env f depth nc node mode sc) := by
        intro env; rw [refBody]; rfl
      rw [e0 env, e0 (withTpl env tplF), ih.attrs _ _ _ _ _ (noFragB_attrs hn)]
      have : (fun nc mode sc => refChild cfg (withTpl env tplF) f depth nc node mode sc) =
          fun nc mode sc => refChild cfg env f depth nc node mode sc := by
        funext nc' mode sc'; exact ih.child _ _ _ _ _ hn
      rw [this]
    · intro depth nc d as ps hn
      cases as with
      | nil => simp only [refAttrs]
      | cons a rest =>
        rw [refAttrs, refAttrs]
        have hrest : ∀ a' ∈ rest, fragAttr cfg a' = false := fun a' h' => hn a' (by simp [h'])
        split
        · exact ih.attrs _ _ _ _ _ hrest
        · rw [bodyStep_noFrag cfg env tplF (fun t sc => (refFrag cfg env f depth nc t sc).toR emptyFl) _ d a ps nc emptyFl (hn a (by simp))]
          congr 1
          funext ps' nc' _
          exact ih.attrs _ _ _ _ _ hrest
    · intro depth nc node mode sc hn
      rw [refChild_succ, refChild_succ]
      obtain ⟨m1, m2, m3⟩ := abfParts_mem node.kids
      have hmem := noFragBL_mem (noFragB_kids hn)
      have hopt : ∀ (o : Option Node) nc', (∀ k, o = some k → k ∈ node.kids) →
          optRun (fun nc k => refNode cfg (withTpl env tplF) f depth nc k sc) o nc' =
            optRun (fun nc k => refNode cfg env f depth nc k sc) o nc' := by
        intro o nc' ho
        cases o with
        | none => rfl
        | some k => exact ih.node _ _ _ _ (hmem k (ho k rfl))
      cases mode with
      | unset => exact ih.kids _ _ _ _ (noFragB_kids hn)
      | nop => rfl
      | textLike a isText => rfl
      | abf =>
        simp only [childRun]
        rw [hopt _ _ m1]
        congr 1
        funext nc'
        rw [hopt _ _ m2]
        congr 1
        funext nc''
        exact hopt _ _ m3

end RN.Spec

/-! ## 7. the token compiler: position independence and sequentiality -/
namespace EN
open HS.RT (forget forgetTag ATok)

theorem compileTok_forget (cfg : Cfg) (id : Nat) (t t' : HS.Token) (tbl : Tbl) (h : forget t = forget t') :
    compileTok cfg id t tbl = compileTok cfg id t' tbl := by
  have hk : t.kind = t'.kind := congrArg ATok.kind h
  have hv : t.value = t'.value := congrArg ATok.value h
  have ht : t.tag.map forgetTag = t'.tag.map forgetTag := congrArg ATok.tag h
  unfold compileTok
  rw [hk, hv]
  cases h1 : t.tag with
  | none =>
    cases h2 : t'.tag with
    | none => rfl
    | some tg' => rw [h1, h2] at ht; cases ht
  | some tg =>
    cases h2 : t'.tag with
    | none => rw [h1, h2] at ht; cases ht
    | some tg' =>
      rw [h1, h2] at ht
      simp only [Option.map_some, Option.some.injEq, forgetTag, Prod.mk.injEq] at ht
      cases t'.kind <;> simp only [] <;> rw [ht.1, compileAttrsS_congr cfg tg.attrs tg'.attrs tbl ht.2]

theorem compileToks_forget (cfg : Cfg) : ∀ (ts ts' : List HS.Token) (id : Nat) (tbl : Tbl),
    ts.map forget = ts'.map forget → compileToks cfg id ts tbl = compileToks cfg id ts' tbl
  | [], [], _, _, _ => rfl
  | [], _ :: _, _, _, h => by simp at h
  | _ :: _, [], _, _, h => by simp at h
  | t :: ts, t' :: ts', id, tbl, h => by
    simp only [List.map_cons, List.cons.injEq] at h
    rw [compileToks, compileToks, compileTok_forget cfg id t t' tbl h.1]
    congr 1
    funext it tbl'
    rw [compileToks_forget cfg ts ts' (id + 1) tbl' h.2]

theorem mapRes_id' {α : Type} (r : LoadRes α × Tbl) (f : α → α) (hf : ∀ a, f a = a) : mapRes f r = r := by
  obtain ⟨r1, r2⟩ := r
  cases r1 <;> simp [mapRes, LoadRes.map, hf]

theorem compileToks_app_eq (cfg : Cfg) : ∀ (a b : List HS.Token) (id : Nat) (tbl : Tbl),
    compileToks cfg id (a ++ b) tbl =
      bindRes (compileToks cfg id a tbl) fun ia tbl' => mapRes (ia ++ ·) (compileToks cfg (id + a.length) b tbl')
  | [], b, id, tbl => by
    simp only [List.nil_append, compileToks, bindRes, List.length_nil, Nat.add_zero]
    exact (mapRes_id' _ _ (fun _ => rfl)).symm
  | t :: a, b, id, tbl => by
    simp only [List.cons_append, compileToks]
    unfold bindRes
    cases h : (compileTok cfg id t tbl).1 with
    | ok it =>
      simp only []
      rw [compileToks_app_eq cfg a b (id + 1) _]
      unfold bindRes
      cases h2 : (compileToks cfg (id + 1) a (compileTok cfg id t tbl).2).1 with
      | ok ia =>
        simp only [mapRes, LoadRes.map, h2]
        have : id + 1 + a.length = id + (a.length + 1) := by omega
        simp only [List.length_cons, this]
        cases (compileToks cfg (id + (a.length + 1)) b (compileToks cfg (id + 1) a (compileTok cfg id t tbl).2).2).1 <;> simp
      | err => simp [mapRes, LoadRes.map, h2]
      | panic => simp [mapRes, LoadRes.map, h2]
      | unsupported => simp [mapRes, LoadRes.map, h2]
    | err => simp
    | panic => simp
    | unsupported => simp


/-- the value of a successful result -/
def okOr {α : Type} (d : α) : LoadRes α → α
  | .ok a => a
  | _ => d

theorem okB_eq {α : Type} {r : LoadRes α × Tbl} {d : α} (h : r.1.okB = true) : r = (.ok (okOr d r.1), r.2) := by
  obtain ⟨r1, r2⟩ := r
  cases r1 <;> first | rfl | cases h

def isOkNil {α : Type} : LoadRes (List α) → Bool
  | .ok [] => true
  | _ => false

theorem isOkNil_eq {α : Type} {r : LoadRes (List α)} (h : isOkNil r = true) : r = .ok [] := by
  cases r with
  | ok l => cases l with
    | nil => rfl
    | cons _ _ => cases h
  | _ => cases h

theorem three_acts {l : List Item} {a0 a1 a2 : Act} (h : l.map (·.act) = [a0, a1, a2]) :
    ∃ x0 x1 x2, l = [x0, x1, x2] ∧ x0.act = a0 ∧ x1.act = a1 ∧ x2.act = a2 := by
  match l, h with
  | [x0, x1, x2], h =>
    simp only [List.map_cons, List.map_nil, List.cons.injEq, and_true] at h
    exact ⟨x0, x1, x2, rfl, h.1, h.2.1, h.2.2⟩

end EN
