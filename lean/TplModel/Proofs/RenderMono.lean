import TplModel.Html.RenderCore
namespace R

/-- all five ref functions are monotone in fuel once they finish -/
def MonoAt (env : Env) (f : Nat) : Prop :=
  (∀ g nc prev n sc, f ≤ g → refNode env f nc prev n sc ≠ .fuel → refNode env g nc prev n sc = refNode env f nc prev n sc) ∧
  (∀ g nc i kids sc, f ≤ g → refRange env f nc i kids sc ≠ .fuel → refRange env g nc i kids sc = refRange env f nc i kids sc) ∧
  (∀ g nc i kids x sc vs, f ≤ g → refItems env f nc i kids x sc vs ≠ .fuel → refItems env g nc i kids x sc vs = refItems env f nc i kids x sc vs) ∧
  (∀ g nc i kids sc, f ≤ g → refBody env f nc i kids sc ≠ .fuel → refBody env g nc i kids sc = refBody env f nc i kids sc) ∧
  (∀ g nc prev ks sc, f ≤ g → refKids env f nc prev ks sc ≠ .fuel → refKids env g nc prev ks sc = refKids env f nc prev ks sc)

theorem mono (env : Env) : ∀ f, MonoAt env f := by
  intro f
  induction f with
  | zero =>
    refine ⟨?_, ?_, ?_, ?_, ?_⟩ <;> intros <;> simp_all [refNode, refRange, refItems, refBody, refKids]
  | succ f ih =>
    obtain ⟨ihN, ihR, ihI, ihB, ihK⟩ := ih
    refine ⟨?_, ?_, ?_, ?_, ?_⟩
    · intro g nc prev n sc hg h
      obtain ⟨g, rfl⟩ : ∃ g', g = g' + 1 := ⟨g - 1, by omega⟩
      have hg' : f ≤ g := by omega
      cases n with
      | text s => simp [refNode]
      | elem i kids =>
        simp only [refNode] at h ⊢
        cases hw : applyWith env i.withB sc <;> simp only [hw] at h ⊢
        rename_i sc1
        have hEval : ∀ c, refEvalCond env (fun nc sc => refRange env f nc i kids sc) nc i c sc1 ≠ .fuel →
            refEvalCond env (fun nc sc => refRange env g nc i kids sc) nc i c sc1 =
            refEvalCond env (fun nc sc => refRange env f nc i kids sc) nc i c sc1 := by
          intro c h'
          unfold refEvalCond at h' ⊢
          cases hb : env.evalB c sc1 <;> simp only [hb] at h' ⊢
          rename_i b
          cases b <;> simp at h' ⊢
          exact ihR g _ _ _ _ hg' h'
        unfold refCondPhase at h ⊢
        cases hc : i.cond with
        | none =>
          simp only [hc] at h ⊢
          exact ihR g _ _ _ _ hg' h
        | some kc =>
          obtain ⟨k, c⟩ := kc
          simp only [hc] at h ⊢
          cases k with
          | if_ => exact hEval c h
          | elif =>
            simp only at h ⊢
            cases hp : prev.bind nc with
            | none => simp
            | some b =>
              cases b <;> simp only [hp] at h ⊢
              exact hEval c h
    · intro g nc i kids sc hg h
      obtain ⟨g, rfl⟩ : ∃ g', g = g' + 1 := ⟨g - 1, by omega⟩
      have hg' : f ≤ g := by omega
      simp only [refRange] at h ⊢
      cases hr : i.range with
      | none => simp only [hr] at h ⊢; exact ihB g _ _ _ _ hg' h
      | some xc =>
        obtain ⟨x, c⟩ := xc
        simp only [hr] at h ⊢
        cases hl : env.evalL c sc <;> simp only [hl] at h ⊢
        exact ihI g _ _ _ _ _ _ hg' h
    · intro g nc i kids x sc vs hg h
      obtain ⟨g, rfl⟩ : ∃ g', g = g' + 1 := ⟨g - 1, by omega⟩
      have hg' : f ≤ g := by omega
      cases vs with
      | nil => simp [refItems]
      | cons v vs =>
        simp only [refItems] at h ⊢
        cases h1 : refBody env f nc i kids ((x, v) :: sc) with
        | fuel => simp [h1] at h
        | err c => rw [ihB g _ _ _ _ hg' (by simp [h1])]; simp [h1]
        | ok r =>
          obtain ⟨o1, nc1⟩ := r
          rw [ihB g _ _ _ _ hg' (by simp [h1])]
          simp only [h1] at h ⊢
          cases h2 : refItems env f nc1 i kids x sc vs with
          | fuel => simp [h2] at h
          | err c => rw [ihI g _ _ _ _ _ _ hg' (by simp [h2])]; simp [h2]
          | ok r2 => rw [ihI g _ _ _ _ _ _ hg' (by simp [h2])]; simp [h2]
    · intro g nc i kids sc hg h
      obtain ⟨g, rfl⟩ : ∃ g', g = g' + 1 := ⟨g - 1, by omega⟩
      have hg' : f ≤ g := by omega
      simp only [refBody] at h ⊢
      cases h1 : refKids env f nc none kids sc with
      | fuel => simp [h1] at h
      | err c => rw [ihK g _ _ _ _ hg' (by simp [h1])]; simp [h1]
      | ok r => rw [ihK g _ _ _ _ hg' (by simp [h1])]; simp [h1]
    · intro g nc prev ks sc hg h
      obtain ⟨g, rfl⟩ : ∃ g', g = g' + 1 := ⟨g - 1, by omega⟩
      have hg' : f ≤ g := by omega
      cases ks with
      | nil => simp [refKids]
      | cons k ks =>
        simp only [refKids] at h ⊢
        cases h1 : refNode env f nc prev k sc with
        | fuel => simp [h1] at h
        | err c => rw [ihN g _ _ _ _ hg' (by simp [h1])]; simp [h1]
        | ok r =>
          obtain ⟨o1, nc1⟩ := r
          rw [ihN g _ _ _ _ hg' (by simp [h1])]
          simp only [h1] at h ⊢
          cases h2 : refKids env f nc1 (nextPrev k prev) ks sc with
          | fuel => simp [h2] at h
          | err c => rw [ihK g _ _ _ _ hg' (by simp [h2])]; simp [h2]
          | ok r2 => rw [ihK g _ _ _ _ hg' (by simp [h2])]; simp [h2]

end R
