import TplModel.Proofs.ScanPos
namespace HS

/-- attribute name buffer (reversed) without the blanks appended after the name -/
def core (n : List Char) : List Char := n.dropWhile (· == ' ')

theorem core_cons_space (n : List Char) : core (' ' :: n) = core n := by simp [core]
theorem core_cons_ne (c : Char) (n : List Char) (h : c ≠ ' ') : core (c :: n) = c :: n := by
  simp [core, h]
theorem core_nohead (n : List Char) (h : ∀ r, n ≠ ' ' :: r) : core n = n := by
  cases n with
  | nil => rfl
  | cons x r =>
    have : x ≠ ' ' := fun hx => h r (by rw [hx])
    exact core_cons_ne x r this
theorem core_noblank (n : List Char) (h : ' ' ∉ n) : core n = n := by
  apply core_nohead; intro r hr; apply h; rw [hr]; simp

theorem isSpace_blank : isSpace ' ' = true := by decide
theorem ne_blank_of_not_space {c : Char} (h : isSpace c = false) : c ≠ ' ' := by
  intro hc; rw [hc, isSpace_blank] at h; cases h

theorem trimOneSpace_spec (n : List Char) : trimOneSpace n = n ∨ n = ' ' :: trimOneSpace n := by
  unfold trimOneSpace
  split
  · right; rfl
  · left; rfl

/-- no white-space rune (Go `unicode.IsSpace`) in `n` -/
def NoSp (n : List Char) : Prop := ∀ c ∈ n, isSpace c = false

theorem noSp_nil : NoSp [] := by simp [NoSp]
theorem noSp_cons {c : Char} {n : List Char} (hc : isSpace c = false) (hn : NoSp n) : NoSp (c :: n) := by
  intro x hx
  simp only [List.mem_cons] at hx
  rcases hx with rfl | hx
  · exact hc
  · exact hn x hx
theorem noSp_reverse {n : List Char} (hn : NoSp n) : NoSp n.reverse := by
  intro x hx; exact hn x (by simpa using hx)
theorem noSp_noblank {n : List Char} (hn : NoSp n) : ' ' ∉ n := by
  intro h; have := hn _ h; rw [isSpace_blank] at this; cases this

theorem trimOneSpace_cons_space (n : List Char) : trimOneSpace (' ' :: n) = n := rfl
theorem trimOneSpace_nohead (n : List Char) (h : ∀ r, n ≠ ' ' :: r) : trimOneSpace n = n := by
  unfold trimOneSpace
  split
  · rename_i r; exact absurd rfl (h r)
  · rfl
theorem trimOneSpace_cons_ne (c : Char) (n : List Char) (h : c ≠ ' ') : trimOneSpace (c :: n) = c :: n := by
  apply trimOneSpace_nohead; intro r hr
  simp only [List.cons.injEq] at hr; exact h hr.1

/-- the recorded name end is the position after the last non-blank rune of the name -/
def NameOK (n : List Char) (st en : Pos) : Prop := core n ≠ [] → en = adv st (core n).reverse

theorem nameOK_nil (st en : Pos) : NameOK [] st en := by simp [NameOK, core]
theorem nameOK_space {n : List Char} {st en : Pos} (h : NameOK n st en) : NameOK (' ' :: n) st en := by
  simpa [NameOK, core_cons_space] using h
theorem nameOK_push {n : List Char} {st p : Pos} {c : Char}
    (hcur : adv st n.reverse = p) (hc : isSpace c = false) : NameOK (c :: n) st (p.advance c) := by
  intro _
  rw [core_cons_ne c n (ne_blank_of_not_space hc)]
  subst hcur; simp

/-- what the theorem says about one attribute -/
def AttrOK (a : Attr) : Prop :=
  (a.name ≠ [] → a.nameEnd = adv a.nameStart a.name) ∧
  (∀ v, a.value = some v → a.valueEnd = adv a.valueStart v) ∧
  NoSp a.name

theorem attrOK_mk {n t : List Char} {st en : Pos} (hn : NameOK n st en) (ht : t = n ∨ n = ' ' :: t)
    (hs : NoSp t)
    (val : Option (List Char)) (vs ve : Pos) (hv : ∀ v, val = some v → ve = adv vs v) :
    AttrOK { name := t.reverse, nameStart := st, nameEnd := en, value := val, valueStart := vs, valueEnd := ve } := by
  refine ⟨?_, hv, noSp_reverse hs⟩
  simp only [ne_eq, List.reverse_eq_nil_iff]
  intro hne
  have hb : ' ' ∉ t := noSp_noblank hs
  have hcore : core n = t := by
    rcases ht with rfl | h
    · exact core_noblank _ hb
    · rw [h, core_cons_space]; exact core_noblank _ hb
  have := hn (by rw [hcore]; exact hne)
  rw [this, hcore]

/-- every attribute is fine and the names are pairwise distinct -/
def AttrsOK (as : List Attr) : Prop := (∀ a ∈ as, AttrOK a) ∧ as.Pairwise (fun a b => a.name ≠ b.name)

theorem attrsOK_nil : AttrsOK [] := by simp [AttrsOK]
theorem attrsOK_reverse {as : List Attr} (h : AttrsOK as) : AttrsOK as.reverse := by
  refine ⟨fun a ha => h.1 a (by simpa using ha), ?_⟩
  rw [List.pairwise_reverse]
  exact h.2.imp (fun hab => Ne.symm hab)

theorem addAttr_nodup {l l' : TagL} {a : Attr} (h : addAttr l a = .ok l') :
    l.attrs.any (fun b => b.name == a.name) = false := by
  unfold addAttr at h
  split at h
  · cases h
  · rename_i hn; simpa using hn

def TokAttrOK (t : Token) : Prop := ∀ tg, t.tag = some tg → AttrsOK tg.attrs

def AttrL (l : TagL) (pos : Pos) : Prop :=
  AttrsOK l.attrs ∧
  (l.st = .attrName → NameOK l.attrName l.attrNameStart l.attrNameEnd ∧ NoSp (trimOneSpace l.attrName) ∧
      ((∀ r, l.attrName ≠ ' ' :: r) → adv l.attrNameStart l.attrName.reverse = pos)) ∧
  (l.st = .attrValue → NameOK l.attrName l.attrNameStart l.attrNameEnd ∧ NoSp (trimOneSpace l.attrName) ∧
      l.attrValueEnd = pos ∧ l.attrValueEnd = adv l.attrValueStart l.attrValue.reverse)

def AInv (s : S) : Prop :=
  (∀ t ∈ s.toks, TokAttrOK t) ∧ (∀ l, s.mode = .tag l → AttrL l s.pos)

theorem ainv_finish {s : S} {l : TagL} {p' : Pos} (htoks : ∀ t ∈ s.toks, TokAttrOK t)
    (hattrs : AttrsOK l.attrs) : AInv (finishTag s l p') := by
  refine ⟨?_, by simp [finishTag, S.emit]⟩
  intro t ht
  simp only [finishTag, S.emit, List.mem_cons] at ht
  rcases ht with rfl | ht
  · intro tg htg
    simp only [Option.some.injEq] at htg; subst htg
    exact attrsOK_reverse hattrs
  · exact htoks t ht

theorem ainv_cont {toks : List Token} {l : TagL} {p' : Pos} (htoks : ∀ t ∈ toks, TokAttrOK t)
    (hl : AttrL l p') : AInv { mode := .tag l, pos := p', toks := toks } := by
  refine ⟨htoks, ?_⟩
  intro l' hl'
  simp only [Mode.tag.injEq] at hl'; subst hl'; exact hl

theorem ainv_endCheck {s s' : S} {l : TagL} {c : Char} {p' : Pos}
    (h : (if c = '>' then Except.ok (finishTag s l p') else Except.ok { mode := Mode.tag l, pos := p', toks := s.toks })
        = (Except.ok s' : Except Err S))
    (htoks : ∀ t ∈ s.toks, TokAttrOK t) (hl : AttrL l p') : AInv s' := by
  split at h <;> (simp only [Except.ok.injEq] at h; subst h)
  · exact ainv_finish htoks hl.1
  · exact ainv_cont htoks hl

theorem attrs_cons {a : Attr} {as : List Attr} (ha : AttrOK a) (has : AttrsOK as)
    (hd : as.any (fun b => b.name == a.name) = false) : AttrsOK (a :: as) := by
  refine ⟨?_, List.pairwise_cons.2 ⟨?_, has.2⟩⟩
  · intro b hb
    simp only [List.mem_cons] at hb
    rcases hb with rfl | hb
    · exact ha
    · exact has.1 b hb
  · intro b hb heq
    have := List.any_eq_false.1 hd b hb
    simp [heq] at this

theorem stepAttrName_ainv (s : S) (l : TagL) (c : Char) (p p' : Pos) (s' : S)
    (hp' : p' = p.advance c) (hst : l.st = .attrName)
    (htoks : ∀ t ∈ s.toks, TokAttrOK t) (hattrs : AttrsOK l.attrs)
    (hn : NameOK l.attrName l.attrNameStart l.attrNameEnd)
    (hs : NoSp (trimOneSpace l.attrName))
    (hcur : (∀ r, l.attrName ≠ ' ' :: r) → adv l.attrNameStart l.attrName.reverse = p)
    (h : stepTag.stepAttrName s l c p p' = .ok s') : AInv s' := by
  unfold stepTag.stepAttrName at h
  simp only at h
  by_cases hsp : isSpace c = true
  · simp only [hsp, if_true] at h
    refine ainv_endCheck h htoks ?_
    split
    · rename_i r hr
      exact ⟨hattrs, fun _ => ⟨hn, hs, fun hh => absurd hr (hh r)⟩, by simp [hst]⟩
    · rename_i hno
      have hno' : ∀ r, l.attrName ≠ ' ' :: r := fun r hr => hno r hr
      refine ⟨hattrs, ?_, by simp [hst]⟩
      intro _
      refine ⟨nameOK_space hn, ?_, fun hr => absurd rfl (hr _)⟩
      rw [trimOneSpace_nohead _ hno'] at hs
      exact hs
  · simp only [hsp, Bool.false_eq_true, if_false] at h
    have hsp' : isSpace c = false := by simpa using hsp
    by_cases hgt : c = '>'
    · simp only [hgt, if_true] at h
      split at h
      · cases h
      · rename_i l1 hadd
        have hd := addAttr_nodup hadd
        have := addAttr_ok hadd; subst this
        simp only [Except.ok.injEq] at h; subst h
        exact ainv_finish htoks (attrs_cons (attrOK_mk hn (trimOneSpace_spec _) hs none _ _ (by simp)) hattrs hd)
    · simp only [hgt, if_false] at h
      by_cases heq : c = '='
      · simp only [heq, if_true] at h
        simp only [Except.ok.injEq] at h; subst h
        refine ainv_cont htoks ⟨hattrs, by simp, ?_⟩
        intro _; exact ⟨hn, hs, rfl, by simp⟩
      · simp only [heq, if_false] at h
        split at h
        · rename_i rest hrest
          split at h
          · cases h
          · rename_i l1 hadd
            have hd := addAttr_nodup hadd
            have := addAttr_ok hadd; subst this
            simp only [Except.ok.injEq] at h; subst h
            have hs' : NoSp rest := by rw [hrest] at hs; exact hs
            refine ainv_cont htoks ⟨?_, ?_, ?_⟩
            · exact attrs_cons (attrOK_mk hn (Or.inr hrest) hs' none _ _ (by simp)) hattrs hd
            · intro _
              refine ⟨?_, ?_, fun _ => by simp [hp']⟩
              · rw [hp']; exact nameOK_push (by simp) hsp'
              · rw [trimOneSpace_cons_ne c [] (ne_blank_of_not_space hsp')]
                exact noSp_cons hsp' noSp_nil
            · simp [hst]
        · rename_i hno
          have hno' : ∀ r, l.attrName ≠ ' ' :: r := fun r hr => hno r hr
          simp only [Except.ok.injEq] at h; subst h
          refine ainv_cont htoks ⟨hattrs, ?_, ?_⟩
          · intro _
            refine ⟨?_, ?_, fun _ => by simp [hp', hcur hno']⟩
            · rw [hp']; exact nameOK_push (hcur hno') hsp'
            · rw [trimOneSpace_cons_ne c _ (ne_blank_of_not_space hsp')]
              rw [trimOneSpace_nohead _ hno'] at hs
              exact noSp_cons hsp' hs
          · simp [hst]

theorem ainv_init_emit {s : S} {p' : Pos} {t : Token} (htoks : ∀ t ∈ s.toks, TokAttrOK t) (ht : TokAttrOK t) :
    AInv (S.emit { s with mode := .init, pos := p' } t) := by
  refine ⟨?_, by simp [S.emit]⟩
  intro u hu
  simp only [S.emit, List.mem_cons] at hu
  rcases hu with rfl | hu
  · exact ht
  · exact htoks u hu

theorem tokAttrOK_notag {t : Token} (h : t.tag = none) : TokAttrOK t := by
  intro tg htg; rw [h] at htg; cases htg

theorem trimOneSpace_spec' (n : List Char) : trimOneSpace n = n ∨ n = ' ' :: trimOneSpace n :=
  trimOneSpace_spec n

macro "attr_tac" : tactic => `(tactic| (
  all_goals (try (simp only [Except.ok.injEq, reduceCtorEq] at *))
  all_goals (try subst_vars)
  all_goals (first
    | exact ainv_finish ‹_› (by simpa using ‹AttrsOK _›)
    | exact ainv_cont ‹_› ⟨by simpa using ‹AttrsOK _›, by simp, by simp⟩
    | exact ainv_init_emit ‹_› (tokAttrOK_notag rfl))))

theorem stepTag_ainv (s : S) (l0 : TagL) (c : Char) (p p' : Pos) (s' : S)
    (hp' : p' = p.advance c) (htoks : ∀ t ∈ s.toks, TokAttrOK t) (hl : AttrL l0 p)
    (h : stepTag s l0 c p p' = .ok s') : AInv s' := by
  unfold stepTag at h
  simp only at h
  obtain ⟨hattrs, hname, hval⟩ := hl
  cases hst : l0.st <;> simp only [hst] at h
  case attrName =>
    obtain ⟨hn, hs, hcur⟩ := hname hst
    refine stepAttrName_ainv s _ c p p' s' hp' ?_ htoks ?_ ?_ ?_ ?_ h
    · simp
    · exact hattrs
    · exact hn
    · exact hs
    · exact hcur
  case space =>
    by_cases h1 : c = '>'
    · simp only [h1, if_true] at h; attr_tac
    · by_cases h2 : isSpace c = true
      · simp only [h1, h2, if_false] at h; simp at h; attr_tac
      · simp only [h1, h2, if_false] at h; simp at h
        refine stepAttrName_ainv s _ c p p' s' hp' ?_ htoks ?_ ?_ ?_ ?_ h
        · rfl
        · exact hattrs
        · exact nameOK_nil _ _
        · exact noSp_nil
        · simp
  case tagStart =>
    clear hname hval
    repeat' split at h
    attr_tac
  case tagName =>
    clear hname hval
    repeat' split at h
    attr_tac
  case cdata =>
    clear hname hval
    repeat' split at h
    attr_tac
  case comment =>
    clear hname hval
    repeat' split at h
    attr_tac
  case attrValue =>
    obtain ⟨hn, hs, hve, hvs⟩ := hval hst
    clear hname hval
    subst hve; subst hp'
    have hempty : (l0.attrValue.isEmpty && decide (c ≠ '>')) = true → l0.attrValue = [] := by
      simp only [Bool.and_eq_true, List.isEmpty_iff]; exact fun h => h.1
    repeat' split at h
    all_goals (try (simp only [Except.ok.injEq, reduceCtorEq] at h))
    all_goals (try subst h)
    all_goals (try (have hd := addAttr_nodup ‹addAttr _ _ = Except.ok _›
                    have hh := addAttr_ok ‹addAttr _ _ = Except.ok _›; subst hh))
    all_goals (first
      | (refine ainv_finish htoks (attrs_cons (attrOK_mk hn (trimOneSpace_spec' _) hs _ _ _ ?_) hattrs ‹_›)
         intro v hv; simp only [Option.some.injEq] at hv; subst hv
         first | exact hvs | (simp [← hvs]; done))
      | (refine ainv_cont htoks ⟨attrs_cons (attrOK_mk hn (trimOneSpace_spec' _) hs _ _ _ ?_) hattrs ‹_›, by simp, by simp⟩
         intro v hv; simp only [Option.some.injEq] at hv; subst hv
         first | exact hvs | (simp [← hvs]; done))
      | (refine ainv_cont htoks ⟨hattrs, by simp, fun _ => ⟨hn, hs, rfl, ?_⟩⟩
         first
           | (simp [← hvs]; done)
           | (have he := hempty ‹_›; simp [he]; done)
           | (have he := hempty ‹_›; rw [he] at hvs; simp at hvs; simp [hvs]; done))
      | (exfalso; simp_all; done))

theorem tokAttrOK_mk_none (k : Kind) (v : List Char) (a b : Pos) : TokAttrOK ⟨k, v, a, b, none⟩ :=
  tokAttrOK_notag rfl

theorem tokAttrOK_mk_nil (k : Kind) (v : List Char) (a b : Pos) (n : List Char) :
    TokAttrOK ⟨k, v, a, b, some ⟨n, []⟩⟩ := by
  intro tg htg
  simp only [Option.some.injEq] at htg; subst htg; exact attrsOK_nil

theorem attrL_new (p : Pos) : AttrL (newTagL p) p := by simp [AttrL, newTagL, attrsOK_nil]

theorem stepText_ainv (s : S) (l : TextL) (c : Char) (p p' : Pos) (s' : S)
    (hp' : p' = p.advance c) (htoks : ∀ t ∈ s.toks, TokAttrOK t)
    (h : stepText s l c p p' = .ok s') : AInv s' := by
  unfold stepText at h
  cases hraw : l.raw with
  | none =>
    simp only [hraw] at h
    split at h
    · refine stepTag_ainv _ (newTagL p) c p p' s' hp' ?_ (attrL_new p) h
      intro t ht
      simp only [S.emit, List.mem_cons] at ht
      rcases ht with rfl | ht
      · exact tokAttrOK_mk_none _ _ _ _
      · exact htoks t ht
    · simp only [Except.ok.injEq] at h; subst h
      exact ⟨htoks, by simp⟩
  | some tn =>
    simp only [hraw] at h
    repeat' split at h
    all_goals (try (simp only [Except.ok.injEq, reduceCtorEq] at h))
    all_goals (try subst h)
    all_goals (simp_all [AInv, S.emit, tokAttrOK_mk_none, tokAttrOK_mk_nil])

theorem step_ainv (cfg : Cfg) (s s' : S) (c : Char) (hi : AInv s) (h : step cfg s c = .ok s') : AInv s' := by
  obtain ⟨htoks, hl⟩ := hi
  unfold step at h
  cases hm : s.mode with
  | init =>
    simp only [hm] at h
    split at h
    · exact stepTag_ainv s _ c _ _ s' rfl htoks (attrL_new _) h
    · exact stepText_ainv s _ c _ _ s' rfl htoks h
  | text l =>
    simp only [hm] at h
    exact stepText_ainv s l c _ _ s' rfl htoks h
  | tag l =>
    simp only [hm] at h
    exact stepTag_ainv s l c _ _ s' rfl htoks (hl l hm) h

theorem fold_ainv (cfg : Cfg) (cs : List Char) (s s' : S)
    (hi : AInv s) (h : cs.foldlM (step cfg) s = .ok s') : AInv s' := by
  induction cs generalizing s with
  | nil => simp [List.foldlM, pure, Except.pure] at h; subst h; exact hi
  | cons c cs ih =>
    simp only [List.foldlM, bind, Except.bind] at h
    cases hs : step cfg s c with
    | error e => simp [hs] at h
    | ok s1 =>
      simp only [hs] at h
      exact ih s1 (step_ainv cfg s s1 c hi hs) h

/-- master statement: after a successful scan every token satisfies `TokAttrOK` -/
theorem scan_tokAttrOK (cfg : Cfg) (cs : List Char) (toks : List Token) (h : scan cfg cs = .ok toks) :
    ∀ t ∈ toks, TokAttrOK t := by
  unfold scan at h
  simp only [bind, Except.bind] at h
  cases hf : cs.foldlM (step cfg) { mode := .init, pos := ⟨1,1⟩, toks := [] } with
  | error e => simp [hf] at h
  | ok s =>
    simp only [hf] at h
    obtain ⟨htoks, _⟩ := fold_ainv cfg cs _ s ⟨by simp, by simp⟩ hf
    unfold finish at h
    cases hm : s.mode with
    | init =>
      simp only [hm, Except.ok.injEq] at h; subst h
      intro t ht; exact htoks t (by simpa using ht)
    | text l =>
      simp only [hm, Except.ok.injEq] at h; subst h
      intro t ht
      simp only [S.emit, List.reverse_cons, List.mem_append, List.mem_reverse, List.mem_singleton] at ht
      rcases ht with ht | rfl
      · exact htoks t ht
      · exact tokAttrOK_mk_none _ _ _ _
    | tag l => simp [hm] at h

/-- C17, attribute part: in every tag token of a successful scan, every attribute whose name is non-empty has
    `nameEnd = advance-fold of nameStart over the name`, and every attribute with a value has
    `valueEnd = advance-fold of valueStart over the value` (the value includes its quotes).
    (Before the Go fix "a run of blanks after an attribute name is recorded once" the name clause additionally
    needed `' ' ∉ a.name`; by `attr_name_no_space` below that can no longer happen.) -/
theorem attr_positions_exact (cfg : Cfg) (cs : List Char) (toks : List Token) (h : scan cfg cs = .ok toks) :
    ∀ t ∈ toks, ∀ tg, t.tag = some tg → ∀ a ∈ tg.attrs,
      (a.name ≠ [] → a.nameEnd = a.name.foldl Pos.advance a.nameStart) ∧
      (∀ v, a.value = some v → a.valueEnd = v.foldl Pos.advance a.valueStart) := by
  intro t ht tg htg a ha
  have := (scan_tokAttrOK cfg cs toks h t ht tg htg).1 a ha
  exact ⟨this.1, this.2.1⟩

/-- a recorded attribute name never contains a white-space rune (Go `unicode.IsSpace`) -/
theorem attr_name_no_space (cfg : Cfg) (cs : List Char) (toks : List Token) (h : scan cfg cs = .ok toks) :
    ∀ t ∈ toks, ∀ tg, t.tag = some tg → ∀ a ∈ tg.attrs, ∀ c ∈ a.name, isSpace c = false := by
  intro t ht tg htg a ha
  exact ((scan_tokAttrOK cfg cs toks h t ht tg htg).1 a ha).2.2

/-- in particular it never contains a blank -/
theorem attr_name_no_blank (cfg : Cfg) (cs : List Char) (toks : List Token) (h : scan cfg cs = .ok toks) :
    ∀ t ∈ toks, ∀ tg, t.tag = some tg → ∀ a ∈ tg.attrs, ' ' ∉ a.name := by
  intro t ht tg htg a ha
  exact noSp_noblank (attr_name_no_space cfg cs toks h t ht tg htg a ha)

/-- the attribute names of one tag token are pairwise distinct (a duplicate is rejected with `.dupAttr`) -/
theorem attr_names_distinct (cfg : Cfg) (cs : List Char) (toks : List Token) (h : scan cfg cs = .ok toks) :
    ∀ t ∈ toks, ∀ tg, t.tag = some tg → tg.attrs.Pairwise (fun a b => a.name ≠ b.name) := by
  intro t ht tg htg
  exact (scan_tokAttrOK cfg cs toks h t ht tg htg).2

/-- the same as `Nodup` of the list of names -/
theorem attr_names_nodup (cfg : Cfg) (cs : List Char) (toks : List Token) (h : scan cfg cs = .ok toks) :
    ∀ t ∈ toks, ∀ tg, t.tag = some tg → (tg.attrs.map Attr.name).Nodup := by
  intro t ht tg htg
  rw [List.Nodup, List.pairwise_map]
  exact attr_names_distinct cfg cs toks h t ht tg htg

/-- name / value with their recorded positions, per token (error = no tokens) -/
def attrSummary (r : Except Err (List Token)) : List (List (List Char × Pos × Pos × Option (List Char) × Pos × Pos)) :=
  match r with
  | .ok toks => toks.map fun t =>
      match t.tag with
      | some tg => tg.attrs.map fun a => (a.name, a.nameStart, a.nameEnd, a.value, a.valueStart, a.valueEnd)
      | none => []
  | .error _ => []

/- non-vacuity: a tag with four attributes (bare; blank before `=`; newlines around `=` and a quoted value with a
   tab; empty value) scans successfully and all of them fall under both clauses of `attr_positions_exact`. -/
example : attrSummary (scan ⟨[]⟩ "<p a b =1 c\n=\n'x\ty' d=>".toList) =
    [[("a".toList, ⟨1,4⟩, ⟨1,5⟩, none, ⟨0,0⟩, ⟨0,0⟩), ("b".toList, ⟨1,6⟩, ⟨1,7⟩, some "1".toList, ⟨1,9⟩, ⟨1,10⟩),
      ("c".toList, ⟨1,11⟩, ⟨1,12⟩, some "'x\ty'".toList, ⟨3,1⟩, ⟨3,9⟩),
      ("d".toList, ⟨3,10⟩, ⟨3,11⟩, some [], ⟨3,12⟩, ⟨3,12⟩)]] := by rfl

example : ∃ toks, scan ⟨[]⟩ "<p a b =1 c\n=\n'x\ty' d=>".toList = .ok toks := ⟨_, rfl⟩

/- sharpness of the remaining exclusion in the name clause (reproduced on the Go scanner):
   an attribute with an EMPTY name (`<p a=1 =2>`) keeps the stale `nameEnd` of the previous attribute
   (or 0:0 if there is none, `<p =x>`): name "" 1:8 – 1:5. -/
example : attrSummary (scan ⟨[]⟩ "<p a=1 =2>".toList) =
    [[(['a'], ⟨1,4⟩, ⟨1,5⟩, some ['1'], ⟨1,6⟩, ⟨1,7⟩), ([], ⟨1,8⟩, ⟨1,5⟩, some ['2'], ⟨1,9⟩, ⟨1,10⟩)]] := by rfl

example : attrSummary (scan ⟨[]⟩ "<p =x>".toList) = [[([], ⟨1,4⟩, ⟨0,0⟩, some ['x'], ⟨1,5⟩, ⟨1,6⟩)]] := by rfl

/- a name followed by two or more white-space runes (blank, tab, newline, NBSP): since the Go fix the recorded name
   is "a" (before: "a" followed by all but one of the white-space runes as blanks), `nameEnd` is the position after
   the last rune of the name -/
example : attrSummary (scan ⟨[]⟩ "<p a  b>".toList) =
    [[(['a'], ⟨1,4⟩, ⟨1,5⟩, none, ⟨0,0⟩, ⟨0,0⟩), (['b'], ⟨1,7⟩, ⟨1,8⟩, none, ⟨0,0⟩, ⟨0,0⟩)]] := by rfl

example : attrSummary (scan ⟨[]⟩ "<p a \t\n  = 1 b  >".toList) =
    [[(['a'], ⟨1,4⟩, ⟨1,5⟩, some ['1'], ⟨2,5⟩, ⟨2,6⟩), (['b'], ⟨2,7⟩, ⟨2,8⟩, none, ⟨0,0⟩, ⟨0,0⟩)]] := by rfl

/- non-vacuity of `attr_names_distinct`: three different names are accepted, a repeated name (also after blanks,
   also when one occurrence has a value) is rejected with `.dupAttr`; names are compared case-sensitively -/
def isDupErr (r : Except Err (List Token)) : Bool := match r with | .error .dupAttr => true | _ => false

example : attrSummary (scan ⟨[]⟩ "<p a b=1 A>".toList) =
    [[(['a'], ⟨1,4⟩, ⟨1,5⟩, none, ⟨0,0⟩, ⟨0,0⟩), (['b'], ⟨1,6⟩, ⟨1,7⟩, some ['1'], ⟨1,8⟩, ⟨1,9⟩),
      (['A'], ⟨1,10⟩, ⟨1,11⟩, none, ⟨0,0⟩, ⟨0,0⟩)]] := by rfl
example : isDupErr (scan ⟨[]⟩ "<p a b a>".toList) = true := by rfl
example : isDupErr (scan ⟨[]⟩ "<p a  b a  =1>".toList) = true := by rfl
example : isDupErr (scan ⟨[]⟩ "<p a=1 =2 =3>".toList) = true := by rfl

end HS
