import TplModel.Proofs.ScanPos
namespace HS

/-- attribute name buffer (reversed) without the blanks appended after the name -/
def core (n : List Char) : List Char := n.dropWhile (· == ' ')

theorem core_cons_space (n : List Char) : core (' ' :: n) = core n := by simp [core]
theorem core_cons_ne (c : Char) (n : List Char) (h : c ≠ ' ') : core (c :: n) = c :: n := by
  simp [core, h]
theorem core_nohead (n : List Char) (h : ∀ r, n ≠ ' ' :: r) : core n = n := by
  cases n with
  | nil => rfl
  | cons x r =>
    have : x ≠ ' ' := fun hx => h r (by rw [hx])
    exact core_cons_ne x r this
theorem core_noblank (n : List Char) (h : ' ' ∉ n) : core n = n := by
  apply core_nohead; intro r hr; apply h; rw [hr]; simp

theorem isSpace_blank : isSpace ' ' = true := by decide
theorem ne_blank_of_not_space {c : Char} (h : isSpace c = false) : c ≠ ' ' := by
  intro hc; rw [hc, isSpace_blank] at h; cases h

theorem trimOneSpace_spec (n : List Char) : trimOneSpace n = n ∨ n = ' ' :: trimOneSpace n := by
  unfold trimOneSpace
  split
  · right; rfl
  · left; rfl

/-- the recorded name end is the position after the last non-blank rune of the name -/
def NameOK (n : List Char) (st en : Pos) : Prop := core n ≠ [] → en = adv st (core n).reverse

theorem nameOK_nil (st en : Pos) : NameOK [] st en := by simp [NameOK, core]
theorem nameOK_space {n : List Char} {st en : Pos} (h : NameOK n st en) : NameOK (' ' :: n) st en := by
  simpa [NameOK, core_cons_space] using h
theorem nameOK_push {n : List Char} {st p : Pos} {c : Char}
    (hcur : adv st n.reverse = p) (hc : isSpace c = false) : NameOK (c :: n) st (p.advance c) := by
  intro _
  rw [core_cons_ne c n (ne_blank_of_not_space hc)]
  subst hcur; simp

/-- what the theorem says about one attribute -/
def AttrOK (a : Attr) : Prop :=
  (a.name ≠ [] → ' ' ∉ a.name → a.nameEnd = adv a.nameStart a.name) ∧
  (∀ v, a.value = some v → a.valueEnd = adv a.valueStart v)

theorem attrOK_mk {n t : List Char} {st en : Pos} (hn : NameOK n st en) (ht : t = n ∨ n = ' ' :: t)
    (val : Option (List Char)) (vs ve : Pos) (hv : ∀ v, val = some v → ve = adv vs v) :
    AttrOK { name := t.reverse, nameStart := st, nameEnd := en, value := val, valueStart := vs, valueEnd := ve } := by
  refine ⟨?_, hv⟩
  simp only [ne_eq, List.reverse_eq_nil_iff, List.mem_reverse]
  intro hne hb
  have hcore : core n = t := by
    rcases ht with rfl | h
    · exact core_noblank _ hb
    · rw [h, core_cons_space]; exact core_noblank _ hb
  have := hn (by rw [hcore]; exact hne)
  rw [this, hcore]

def TokAttrOK (t : Token) : Prop := ∀ tg, t.tag = some tg → ∀ a ∈ tg.attrs, AttrOK a

def AttrL (l : TagL) (pos : Pos) : Prop :=
  (∀ a ∈ l.attrs, AttrOK a) ∧
  (l.st = .attrName → NameOK l.attrName l.attrNameStart l.attrNameEnd ∧
      ((∀ r, l.attrName ≠ ' ' :: r) → adv l.attrNameStart l.attrName.reverse = pos)) ∧
  (l.st = .attrValue → NameOK l.attrName l.attrNameStart l.attrNameEnd ∧ l.attrValueEnd = pos ∧
      l.attrValueEnd = adv l.attrValueStart l.attrValue.reverse)

def AInv (s : S) : Prop :=
  (∀ t ∈ s.toks, TokAttrOK t) ∧ (∀ l, s.mode = .tag l → AttrL l s.pos)

theorem ainv_finish {s : S} {l : TagL} {p' : Pos} (htoks : ∀ t ∈ s.toks, TokAttrOK t)
    (hattrs : ∀ a ∈ l.attrs, AttrOK a) : AInv (finishTag s l p') := by
  refine ⟨?_, by simp [finishTag, S.emit]⟩
  intro t ht
  simp only [finishTag, S.emit, List.mem_cons] at ht
  rcases ht with rfl | ht
  · intro tg htg a ha
    simp only [Option.some.injEq] at htg; subst htg
    exact hattrs a (by simpa using ha)
  · exact htoks t ht

theorem ainv_cont {toks : List Token} {l : TagL} {p' : Pos} (htoks : ∀ t ∈ toks, TokAttrOK t)
    (hl : AttrL l p') : AInv { mode := .tag l, pos := p', toks := toks } := by
  refine ⟨htoks, ?_⟩
  intro l' hl'
  simp only [Mode.tag.injEq] at hl'; subst hl'; exact hl

theorem ainv_endCheck {s s' : S} {l : TagL} {c : Char} {p' : Pos}
    (h : (if c = '>' then Except.ok (finishTag s l p') else Except.ok { mode := Mode.tag l, pos := p', toks := s.toks })
        = (Except.ok s' : Except Err S))
    (htoks : ∀ t ∈ s.toks, TokAttrOK t) (hl : AttrL l p') : AInv s' := by
  split at h <;> (simp only [Except.ok.injEq] at h; subst h)
  · exact ainv_finish htoks hl.1
  · exact ainv_cont htoks hl

theorem stepAttrName_ainv (s : S) (l : TagL) (c : Char) (p p' : Pos) (s' : S)
    (hp' : p' = p.advance c) (hst : l.st = .attrName)
    (htoks : ∀ t ∈ s.toks, TokAttrOK t) (hattrs : ∀ a ∈ l.attrs, AttrOK a)
    (hn : NameOK l.attrName l.attrNameStart l.attrNameEnd)
    (hcur : (∀ r, l.attrName ≠ ' ' :: r) → adv l.attrNameStart l.attrName.reverse = p)
    (h : stepTag.stepAttrName s l c p p' = .ok s') : AInv s' := by
  unfold stepTag.stepAttrName at h
  simp only at h
  by_cases hsp : isSpace c = true
  · simp only [hsp, if_true] at h
    refine ainv_endCheck h htoks ⟨hattrs, ?_, ?_⟩
    · intro _; exact ⟨nameOK_space hn, fun hr => absurd rfl (hr _)⟩
    · simp [hst]
  · simp only [hsp, Bool.false_eq_true, if_false] at h
    have hsp' : isSpace c = false := by simpa using hsp
    by_cases hgt : c = '>'
    · simp only [hgt, if_true] at h
      split at h
      · cases h
      · rename_i l1 hadd
        have := addAttr_ok hadd; subst this
        simp only [Except.ok.injEq] at h; subst h
        refine ainv_finish htoks ?_
        intro a ha
        simp only [List.mem_cons] at ha
        rcases ha with rfl | ha
        · exact attrOK_mk hn ((trimOneSpace_spec _).imp id id) none _ _ (by simp)
        · exact hattrs a ha
    · simp only [hgt, if_false] at h
      by_cases heq : c = '='
      · simp only [heq, if_true] at h
        simp only [Except.ok.injEq] at h; subst h
        refine ainv_cont htoks ⟨hattrs, by simp, ?_⟩
        intro _; exact ⟨hn, rfl, by simp⟩
      · simp only [heq, if_false] at h
        split at h
        · rename_i rest hrest
          split at h
          · cases h
          · rename_i l1 hadd
            have := addAttr_ok hadd; subst this
            simp only [Except.ok.injEq] at h; subst h
            refine ainv_cont htoks ⟨?_, ?_, ?_⟩
            · intro a ha
              simp only [List.mem_cons] at ha
              rcases ha with rfl | ha
              · exact attrOK_mk hn (Or.inr hrest) none _ _ (by simp)
              · exact hattrs a ha
            · intro _
              refine ⟨?_, fun _ => by simp [hp']⟩
              rw [hp']; exact nameOK_push (by simp) hsp'
            · simp [hst]
        · rename_i hno
          have hno' : ∀ r, l.attrName ≠ ' ' :: r := fun r hr => hno r hr
          simp only [Except.ok.injEq] at h; subst h
          refine ainv_cont htoks ⟨hattrs, ?_, ?_⟩
          · intro _
            refine ⟨?_, fun _ => by simp [hp', hcur hno']⟩
            rw [hp']; exact nameOK_push (hcur hno') hsp'
          · simp [hst]

theorem ainv_init_emit {s : S} {p' : Pos} {t : Token} (htoks : ∀ t ∈ s.toks, TokAttrOK t) (ht : TokAttrOK t) :
    AInv (S.emit { s with mode := .init, pos := p' } t) := by
  refine ⟨?_, by simp [S.emit]⟩
  intro u hu
  simp only [S.emit, List.mem_cons] at hu
  rcases hu with rfl | hu
  · exact ht
  · exact htoks u hu

theorem tokAttrOK_notag {t : Token} (h : t.tag = none) : TokAttrOK t := by
  intro tg htg; rw [h] at htg; cases htg

theorem trimOneSpace_spec' (n : List Char) : trimOneSpace n = n ∨ n = ' ' :: trimOneSpace n :=
  trimOneSpace_spec n

theorem attrs_cons {a : Attr} {as : List Attr} (ha : AttrOK a) (has : ∀ b ∈ as, AttrOK b) :
    ∀ b ∈ a :: as, AttrOK b := by
  intro b hb
  simp only [List.mem_cons] at hb
  rcases hb with rfl | hb
  · exact ha
  · exact has b hb

macro "attr_tac" : tactic => `(tactic| (
  all_goals (try (simp only [Except.ok.injEq, reduceCtorEq] at *))
  all_goals (try subst_vars)
  all_goals (first
    | exact ainv_finish ‹_› (by simpa using ‹∀ a ∈ _, AttrOK a›)
    | exact ainv_cont ‹_› ⟨by simpa using ‹∀ a ∈ _, AttrOK a›, by simp, by simp⟩
    | exact ainv_init_emit ‹_› (tokAttrOK_notag rfl))))

theorem stepTag_ainv (s : S) (l0 : TagL) (c : Char) (p p' : Pos) (s' : S)
    (hp' : p' = p.advance c) (htoks : ∀ t ∈ s.toks, TokAttrOK t) (hl : AttrL l0 p)
    (h : stepTag s l0 c p p' = .ok s') : AInv s' := by
  unfold stepTag at h
  simp only at h
  obtain ⟨hattrs, hname, hval⟩ := hl
  cases hst : l0.st <;> simp only [hst] at h
  case attrName =>
    obtain ⟨hn, hcur⟩ := hname hst
    refine stepAttrName_ainv s _ c p p' s' hp' ?_ htoks ?_ ?_ ?_ h
    · simp
    · exact hattrs
    · exact hn
    · exact hcur
  case space =>
    by_cases h1 : c = '>'
    · simp only [h1, if_true] at h; attr_tac
    · by_cases h2 : isSpace c = true
      · simp only [h1, h2, if_false] at h; simp at h; attr_tac
      · simp only [h1, h2, if_false] at h; simp at h
        refine stepAttrName_ainv s _ c p p' s' hp' ?_ htoks ?_ ?_ ?_ h
        · rfl
        · exact hattrs
        · exact nameOK_nil _ _
        · simp
  case tagStart =>
    clear hname hval
    repeat' split at h
    attr_tac
  case tagName =>
    clear hname hval
    repeat' split at h
    attr_tac
  case cdata =>
    clear hname hval
    repeat' split at h
    attr_tac
  case comment =>
    clear hname hval
    repeat' split at h
    attr_tac
  case attrValue =>
    obtain ⟨hn, hve, hvs⟩ := hval hst
    clear hname hval
    subst hve; subst hp'
    have hempty : (l0.attrValue.isEmpty && decide (c ≠ '>')) = true → l0.attrValue = [] := by
      simp only [Bool.and_eq_true, List.isEmpty_iff]; exact fun h => h.1
    repeat' split at h
    all_goals (try (simp only [Except.ok.injEq, reduceCtorEq] at h))
    all_goals (try subst h)
    all_goals (try (have hh := addAttr_ok ‹addAttr _ _ = Except.ok _›; subst hh))
    all_goals (first
      | (refine ainv_finish htoks (attrs_cons (attrOK_mk hn (trimOneSpace_spec' _) _ _ _ ?_) hattrs)
         intro v hv; simp only [Option.some.injEq] at hv; subst hv
         first | exact hvs | (simp [← hvs]; done))
      | (refine ainv_cont htoks ⟨attrs_cons (attrOK_mk hn (trimOneSpace_spec' _) _ _ _ ?_) hattrs, by simp, by simp⟩
         intro v hv; simp only [Option.some.injEq] at hv; subst hv
         first | exact hvs | (simp [← hvs]; done))
      | (refine ainv_cont htoks ⟨hattrs, by simp, fun _ => ⟨hn, rfl, ?_⟩⟩
         first
           | (simp [← hvs]; done)
           | (have he := hempty ‹_›; simp [he]; done)
           | (have he := hempty ‹_›; rw [he] at hvs; simp at hvs; simp [hvs]; done))
      | (exfalso; simp_all; done))

theorem tokAttrOK_mk_none (k : Kind) (v : List Char) (a b : Pos) : TokAttrOK ⟨k, v, a, b, none⟩ :=
  tokAttrOK_notag rfl

theorem tokAttrOK_mk_nil (k : Kind) (v : List Char) (a b : Pos) (n : List Char) :
    TokAttrOK ⟨k, v, a, b, some ⟨n, []⟩⟩ := by
  intro tg htg a ha
  simp only [Option.some.injEq] at htg; subst htg; simp at ha

theorem attrL_new (p : Pos) : AttrL (newTagL p) p := by simp [AttrL, newTagL]

theorem stepText_ainv (s : S) (l : TextL) (c : Char) (p p' : Pos) (s' : S)
    (hp' : p' = p.advance c) (htoks : ∀ t ∈ s.toks, TokAttrOK t)
    (h : stepText s l c p p' = .ok s') : AInv s' := by
  unfold stepText at h
  cases hraw : l.raw with
  | none =>
    simp only [hraw] at h
    split at h
    · refine stepTag_ainv _ (newTagL p) c p p' s' hp' ?_ (attrL_new p) h
      intro t ht
      simp only [S.emit, List.mem_cons] at ht
      rcases ht with rfl | ht
      · exact tokAttrOK_mk_none _ _ _ _
      · exact htoks t ht
    · simp only [Except.ok.injEq] at h; subst h
      exact ⟨htoks, by simp⟩
  | some tn =>
    simp only [hraw] at h
    repeat' split at h
    all_goals (try (simp only [Except.ok.injEq, reduceCtorEq] at h))
    all_goals (try subst h)
    all_goals (simp_all [AInv, S.emit, tokAttrOK_mk_none, tokAttrOK_mk_nil])

theorem step_ainv (cfg : Cfg) (s s' : S) (c : Char) (hi : AInv s) (h : step cfg s c = .ok s') : AInv s' := by
  obtain ⟨htoks, hl⟩ := hi
  unfold step at h
  cases hm : s.mode with
  | init =>
    simp only [hm] at h
    split at h
    · exact stepTag_ainv s _ c _ _ s' rfl htoks (attrL_new _) h
    · exact stepText_ainv s _ c _ _ s' rfl htoks h
  | text l =>
    simp only [hm] at h
    exact stepText_ainv s l c _ _ s' rfl htoks h
  | tag l =>
    simp only [hm] at h
    exact stepTag_ainv s l c _ _ s' rfl htoks (hl l hm) h

theorem fold_ainv (cfg : Cfg) (cs : List Char) (s s' : S)
    (hi : AInv s) (h : cs.foldlM (step cfg) s = .ok s') : AInv s' := by
  induction cs generalizing s with
  | nil => simp [List.foldlM, pure, Except.pure] at h; subst h; exact hi
  | cons c cs ih =>
    simp only [List.foldlM, bind, Except.bind] at h
    cases hs : step cfg s c with
    | error e => simp [hs] at h
    | ok s1 =>
      simp only [hs] at h
      exact ih s1 (step_ainv cfg s s1 c hi hs) h

/-- C17, attribute part: in every tag token of a successful scan, every attribute whose name is non-empty and
    contains no blank (i.e. was not followed by two or more whitespace runes, see the report) has
    `nameEnd = advance-fold of nameStart over the name`, and every attribute with a value has
    `valueEnd = advance-fold of valueStart over the value` (the value includes its quotes). -/
theorem attr_positions_exact (cfg : Cfg) (cs : List Char) (toks : List Token) (h : scan cfg cs = .ok toks) :
    ∀ t ∈ toks, ∀ tg, t.tag = some tg → ∀ a ∈ tg.attrs,
      (a.name ≠ [] → ' ' ∉ a.name → a.nameEnd = a.name.foldl Pos.advance a.nameStart) ∧
      (∀ v, a.value = some v → a.valueEnd = v.foldl Pos.advance a.valueStart) := by
  unfold scan at h
  simp only [bind, Except.bind] at h
  cases hf : cs.foldlM (step cfg) { mode := .init, pos := ⟨1,1⟩, toks := [] } with
  | error e => simp [hf] at h
  | ok s =>
    simp only [hf] at h
    obtain ⟨htoks, _⟩ := fold_ainv cfg cs _ s ⟨by simp, by simp⟩ hf
    unfold finish at h
    cases hm : s.mode with
    | init =>
      simp only [hm, Except.ok.injEq] at h; subst h
      intro t ht; exact htoks t (by simpa using ht)
    | text l =>
      simp only [hm, Except.ok.injEq] at h; subst h
      intro t ht
      simp only [S.emit, List.reverse_cons, List.mem_append, List.mem_reverse, List.mem_singleton] at ht
      rcases ht with ht | rfl
      · exact htoks t ht
      · exact tokAttrOK_mk_none _ _ _ _
    | tag l => simp [hm] at h

/-- name / value with their recorded positions, per token (error = no tokens) -/
def attrSummary (r : Except Err (List Token)) : List (List (List Char × Pos × Pos × Option (List Char) × Pos × Pos)) :=
  match r with
  | .ok toks => toks.map fun t =>
      match t.tag with
      | some tg => tg.attrs.map fun a => (a.name, a.nameStart, a.nameEnd, a.value, a.valueStart, a.valueEnd)
      | none => []
  | .error _ => []

/- non-vacuity: a tag with four attributes (bare; blank before `=`; newlines around `=` and a quoted value with a
   tab; empty value) scans successfully and all of them fall under both clauses of `attr_positions_exact`. -/
example : attrSummary (scan ⟨[]⟩ "<p a b =1 c\n=\n'x\ty' d=>".toList) =
    [[("a".toList, ⟨1,4⟩, ⟨1,5⟩, none, ⟨0,0⟩, ⟨0,0⟩), ("b".toList, ⟨1,6⟩, ⟨1,7⟩, some "1".toList, ⟨1,9⟩, ⟨1,10⟩),
      ("c".toList, ⟨1,11⟩, ⟨1,12⟩, some "'x\ty'".toList, ⟨3,1⟩, ⟨3,9⟩),
      ("d".toList, ⟨3,10⟩, ⟨3,11⟩, some [], ⟨3,12⟩, ⟨3,12⟩)]] := by rfl

example : ∃ toks, scan ⟨[]⟩ "<p a b =1 c\n=\n'x\ty' d=>".toList = .ok toks := ⟨_, rfl⟩

/- sharpness of the two exclusions in the name clause (both reproduced on the Go scanner):
   (1) an attribute with an EMPTY name (`<p a=1 =2>`) keeps the stale `nameEnd` of the previous attribute
       (or 0:0 if there is none, `<p =x>`): name "" 1:8 – 1:5;
   (2) a name followed by two or more whitespace runes keeps all but one of them as blanks in `name`
       (`<p a  b>` has an attribute named "a "), while `nameEnd` is the position after the last non-blank rune. -/
example : attrSummary (scan ⟨[]⟩ "<p a=1 =2>".toList) =
    [[(['a'], ⟨1,4⟩, ⟨1,5⟩, some ['1'], ⟨1,6⟩, ⟨1,7⟩), ([], ⟨1,8⟩, ⟨1,5⟩, some ['2'], ⟨1,9⟩, ⟨1,10⟩)]] := by rfl

example : attrSummary (scan ⟨[]⟩ "<p =x>".toList) = [[([], ⟨1,4⟩, ⟨0,0⟩, some ['x'], ⟨1,5⟩, ⟨1,6⟩)]] := by rfl

example : attrSummary (scan ⟨[]⟩ "<p a  b>".toList) =
    [[(['a', ' '], ⟨1,4⟩, ⟨1,5⟩, none, ⟨0,0⟩, ⟨0,0⟩), (['b'], ⟨1,7⟩, ⟨1,8⟩, none, ⟨0,0⟩, ⟨0,0⟩)]] := by rfl

end HS
