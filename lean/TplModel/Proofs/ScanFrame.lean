import TplModel.Proofs.EscapeProofs
/-! # The HTML scanner does not look below the top of its token stack

`HS.step` uses the emitted tokens `s.toks` only to push a token and, between tokens, to look at the LAST one
(`rawTagOf`). So a run from a state `s` with tokens `s.toks ++ E` is the run from `s` with `E` put underneath
(`step_frame`, `fold_frame`, `runFrom_frame`), provided `s` is not a token-less between-tokens state (`S.Inv`; the
property is re-established by every step, `InitHasTok`).

Consequence used by C02 (`init_text_insert_tags`): between tokens and outside raw-text elements, inserting a non-empty
`<`-free string adds ONE text token and changes nothing else — `tagsOf`, the erased scan result without its text
tokens, is the same with and without the insertion, whatever follows. Core-only. -/
namespace HS

/-- put tokens underneath the emitted ones -/
def S.addBelow (E : List Token) (s : S) : S := { s with toks := s.toks ++ E }

def mapOk (E : List Token) (r : Except Err S) : Except Err S :=
  match r with | .ok s => .ok (s.addBelow E) | .error e => .error e

def InitHasTok (r : Except Err S) : Prop := ∀ s', r = .ok s' → s'.mode = .init → s'.toks ≠ []

theorem stepAttrName_frame (E : List Token) (s : S) (l : TagL) (c : Char) (p p' : Pos) :
    stepTag.stepAttrName (s.addBelow E) l c p p' = mapOk E (stepTag.stepAttrName s l c p p') ∧
    InitHasTok (stepTag.stepAttrName s l c p p') := by
  unfold stepTag.stepAttrName InitHasTok
  simp only [addAttr]
  repeat' split
  all_goals simp_all [finishTag, S.emit, S.addBelow, mapOk]

theorem stepTag_frame (E : List Token) (s : S) (l : TagL) (c : Char) (p p' : Pos) :
    stepTag (s.addBelow E) l c p p' = mapOk E (stepTag s l c p p') ∧ InitHasTok (stepTag s l c p p') := by
  cases hst : l.st with
  | space =>
    unfold stepTag
    simp only [hst]
    split
    · simp [finishTag, S.emit, S.addBelow, mapOk, InitHasTok]
    · split
      · exact stepAttrName_frame E s _ c p p'
      · simp_all [S.addBelow, mapOk, InitHasTok]
  | attrName =>
    unfold stepTag
    simp only [hst]
    exact stepAttrName_frame E s _ c p p'
  | _ =>
    unfold stepTag InitHasTok
    simp only [hst, addAttr]
    repeat' split
    all_goals simp_all [finishTag, S.emit, S.addBelow, mapOk]

theorem stepText_frame (E : List Token) (s : S) (l : TextL) (c : Char) (p p' : Pos) :
    stepText (s.addBelow E) l c p p' = mapOk E (stepText s l c p p') ∧ InitHasTok (stepText s l c p p') := by
  cases hraw : l.raw with
  | none =>
    unfold stepText
    simp only [hraw]
    split
    · have := stepTag_frame E (({ s with pos := p } : S).emit
        { kind := .text, value := l.buf.reverse, start := l.start, stop := p, tag := none }) (newTagL p) c p p'
      simpa [S.emit, S.addBelow] using this
    · simp [S.addBelow, mapOk, InitHasTok]
  | some tg =>
    unfold stepText InitHasTok
    simp only [hraw]
    repeat' split
    all_goals simp_all [S.emit, S.addBelow, mapOk]


theorem rawTagOf_append (cfg : Cfg) (ts E : List Token) (h : ts ≠ []) : rawTagOf cfg (ts ++ E) = rawTagOf cfg ts := by
  cases ts with
  | nil => exact absurd rfl h
  | cons t ts => rfl

/-- a state that is between tokens has emitted at least one token -/
def S.Inv (s : S) : Prop := s.mode = .init → s.toks ≠ []

@[simp] theorem S.addBelow_mode (E : List Token) (s : S) : (s.addBelow E).mode = s.mode := rfl
@[simp] theorem S.addBelow_pos (E : List Token) (s : S) : (s.addBelow E).pos = s.pos := rfl
@[simp] theorem S.addBelow_toks (E : List Token) (s : S) : (s.addBelow E).toks = s.toks ++ E := rfl

theorem step_frame (cfg : Cfg) (E : List Token) (s : S) (c : Char) (hi : s.Inv) :
    step cfg (s.addBelow E) c = mapOk E (step cfg s c) ∧ InitHasTok (step cfg s c) := by
  unfold step
  cases hm : s.mode with
  | init =>
    have hr : rawTagOf cfg (s.toks ++ E) = rawTagOf cfg s.toks := rawTagOf_append cfg _ _ (hi hm)
    simp only [S.addBelow_mode, S.addBelow_pos, S.addBelow_toks, hm, hr]
    split
    · exact stepTag_frame E s _ c _ _
    · exact stepText_frame E s _ c _ _
  | text l => simp only [S.addBelow_mode, S.addBelow_pos, hm]; exact stepText_frame E s l c _ _
  | tag l => simp only [S.addBelow_mode, S.addBelow_pos, hm]; exact stepTag_frame E s l c _ _

theorem fold_frame (cfg : Cfg) (E : List Token) (v : List Char) : ∀ (s : S), s.Inv →
    v.foldlM (step cfg) (s.addBelow E) = mapOk E (v.foldlM (step cfg) s) := by
  induction v with
  | nil => intro s _; rfl
  | cons c v ih =>
    intro s hi
    obtain ⟨h1, h2⟩ := step_frame cfg E s c hi
    cases hs : step cfg s c with
    | error e =>
      rw [hs] at h1
      simp [List.foldlM, bind, Except.bind, h1, hs, mapOk]
    | ok s' =>
      rw [hs] at h1
      rw [foldlM_ok_cons hs, foldlM_ok_cons h1]
      exact ih s' (h2 s' hs)

theorem finish_frame (E : List Token) (s : S) :
    finish (s.addBelow E) = (finish s).map (fun ts => E.reverse ++ ts) := by
  unfold finish
  cases hm : s.mode <;> simp [S.addBelow, hm, S.emit, Except.map]

theorem runFrom_frame (cfg : Cfg) (E : List Token) (s : S) (cs : List Char) (hi : s.Inv) :
    runFrom cfg (s.addBelow E) cs = (runFrom cfg s cs).map (fun ts => E.reverse ++ ts) := by
  unfold runFrom
  rw [fold_frame cfg E cs s hi]
  cases cs.foldlM (step cfg) s with
  | error e => rfl
  | ok s' => simp only [mapOk, Except.bind]; exact finish_frame E s'


/-- the scan result without its text tokens, erased: tags (names, attribute names), comments, CDATA, or the error -/
def tagsOf (r : Except Err (List Token)) : Except Err (List Token) :=
  (erT r).map (List.filter (fun t => t.kind != .text))

theorem tagsOf_congr {r1 r2 : Except Err (List Token)} (h : erT r1 = erT r2) : tagsOf r1 = tagsOf r2 := by
  unfold tagsOf; rw [h]

theorem tagsOf_map_append (pre : List Token) (r : Except Err (List Token)) :
    tagsOf (r.map (fun ts => pre ++ ts)) =
      (tagsOf r).map (fun ts => (pre.map Token.er).filter (fun t => t.kind != .text) ++ ts) := by
  cases r <;> simp [tagsOf, erT, Except.map]

theorem foldlM_single (cfg : Cfg) (s : S) (c : Char) {s' : S} (h : step cfg s c = .ok s') :
    [c].foldlM (step cfg) s = .ok s' := by rw [foldlM_ok_cons h]; rfl

theorem step_init_lt (cfg : Cfg) (s : S) (hm : s.mode = .init) (hraw : rawTagOf cfg s.toks = none) :
    step cfg s '<' =
      .ok { mode := .tag { newTagL s.pos with st := .tagName, buf := ['<'] }, pos := s.pos.advance '<', toks := s.toks } := by
  unfold step
  simp only [hm, hraw]
  unfold stepTag
  simp [newTagL]

/-- two erasure-equal states (not between tokens, or with a token), one on top of `t :: E` with `t` a text token, the
    other on top of `E`: the same non-text tokens -/
theorem tags_on_top (cfg : Cfg) (L0 R0 : S) (hL : L0.Inv) (hR : R0.Inv) (he : L0.er = R0.er) (t : Token)
    (ht : t.kind = .text) (E : List Token) (P : List Char) :
    tagsOf (runFrom cfg (L0.addBelow (t :: E)) P) = tagsOf (runFrom cfg (R0.addBelow E) P) := by
  rw [runFrom_frame cfg _ L0 P hL, runFrom_frame cfg _ R0 P hR, tagsOf_map_append, tagsOf_map_append,
    tagsOf_congr (runFrom_congr cfg P L0 R0 he)]
  simp [ht]

/-- between tokens and outside raw-text elements, a non-empty `<`-free string adds one text token and changes
    nothing else: the non-text tokens of the scan are the same with and without it -/
theorem init_text_insert_tags (cfg : Cfg) (s1 : S) (hm : s1.mode = .init) (hraw : rawTagOf cfg s1.toks = none)
    (x : List Char) (hx : x ≠ []) (hlt : '<' ∉ x) (P : List Char) :
    tagsOf (runFrom cfg s1 (x ++ P)) = tagsOf (runFrom cfg s1 P) := by
  cases x with
  | nil => exact absurd rfl hx
  | cons x0 xs =>
    have hfx := init_absorbs cfg x0 xs s1 hm hraw hlt
    cases P with
    | nil =>
      rw [List.append_nil]
      unfold runFrom
      rw [hfx]
      simp [Except.bind, List.foldlM, pure, Except.pure, finish, hm, S.emit, tagsOf, erT, Except.map]
    | cons c P' =>
      by_cases hc : c = '<'
      · subst hc
        rw [runFrom_append cfg _ _ _ _ hfx]
        have hL := step_text_lt cfg
          ({ s1 with mode := .text { buf := (x0 :: xs).reverse, start := s1.pos, raw := none, stop := ⟨0, 0⟩, tagBuf := [],
                                     nameBuf := [] }, pos := advanceAll s1.pos (x0 :: xs) } : S) _ rfl rfl
        have hR := step_init_lt cfg s1 hm hraw
        rw [show '<' :: P' = ['<'] ++ P' from rfl,
          runFrom_append cfg ['<'] P' _ _ (foldlM_single cfg _ _ hL),
          runFrom_append cfg ['<'] P' _ _ (foldlM_single cfg _ _ hR)]
        -- both states are a tag-mode state without tokens, put on top of the tokens emitted so far
        exact tags_on_top cfg
          { mode := .tag { newTagL (advanceAll s1.pos (x0 :: xs)) with st := .tagName, buf := ['<'] },
            pos := (advanceAll s1.pos (x0 :: xs)).advance '<', toks := [] }
          { mode := .tag { newTagL s1.pos with st := .tagName, buf := ['<'] }, pos := s1.pos.advance '<', toks := [] }
          (fun h => by cases h) (fun h => by cases h) (by simp [S.er, Mode.er, TagL.er, newTagL])
          { kind := .text, value := ((x0 :: xs).reverse).reverse, start := s1.pos, stop := advanceAll s1.pos (x0 :: xs),
            tag := none } rfl s1.toks P'
      · have hlt2 : '<' ∉ x0 :: (xs ++ [c]) := by
          intro h
          simp only [List.mem_cons, List.mem_append, List.mem_nil_iff, or_false] at h
          rcases h with h | h | h
          · exact hlt (List.mem_cons.mpr (Or.inl h))
          · exact hlt (List.mem_cons.mpr (Or.inr h))
          · exact hc h.symm
        have hf2 := init_absorbs cfg x0 (xs ++ [c]) s1 hm hraw hlt2
        have hf3 := init_absorbs cfg c [] s1 hm hraw (by intro h; simp at h; exact hc h.symm)
        rw [show x0 :: xs ++ c :: P' = (x0 :: (xs ++ [c])) ++ P' from by simp,
          show c :: P' = [c] ++ P' from rfl,
          runFrom_append cfg _ _ _ _ hf2, runFrom_append cfg _ _ _ _ hf3]
        exact tagsOf_congr (runFrom_congr cfg P' _ _ (by simp [S.er, Mode.er, TextL.er]))

end HS
