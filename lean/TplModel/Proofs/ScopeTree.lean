import TplModel.Exp.ScopeTree
/-! Helper lemmas for C06 (scope trees, `getValue` case analysis, the built-in frame). Core-only. -/
namespace EV

/-! ## firstNonAbsent -/

theorem firstNonAbsent_cons (r : Look) (rest : List Look) :
    firstNonAbsent (r :: rest) = r.orElse (firstNonAbsent rest) := by
  cases r <;> rfl

theorem firstNonAbsent_append (xs ys : List Look) :
    firstNonAbsent (xs ++ ys) = (firstNonAbsent xs).orElse (firstNonAbsent ys) := by
  induction xs with
  | nil => rfl
  | cons r rest ih => cases r <;> simp [firstNonAbsent, Look.orElse, ih]

theorem Look.orElse_assoc (a b c : Look) : (a.orElse b).orElse c = a.orElse (b.orElse c) := by
  cases a <;> rfl

theorem Look.orElse_absent (a : Look) : a.orElse .absent = a := by cases a <;> rfl

/-- `firstNonAbsent` is `absent` exactly when every element is -/
theorem firstNonAbsent_eq_absent (xs : List Look) :
    firstNonAbsent xs = .absent ↔ ∀ r ∈ xs, r = .absent := by
  induction xs with
  | nil => simp [firstNonAbsent]
  | cons r rest ih => cases r <;> simp [firstNonAbsent, ih]

/-- characterisation: the result is the element after the longest all-`absent` prefix -/
theorem firstNonAbsent_split (pre : List Look) (r : Look) (post : List Look)
    (hpre : ∀ x ∈ pre, x = .absent) (hr : r ≠ .absent) :
    firstNonAbsent (pre ++ r :: post) = r := by
  induction pre with
  | nil => cases r <;> simp_all [firstNonAbsent]
  | cons x rest ih =>
    have hx : x = .absent := hpre x (by simp)
    subst hx
    simpa [firstNonAbsent] using ih (fun y hy => hpre y (by simp [hy]))

/-! ## getWith -/

namespace Scope

theorem getWith_combine (gv : String → Val → Look) (c p : Scope) (n : String) :
    (Scope.combine c p).getWith gv n = (c.getWith gv n).orElse (p.getWith gv n) := by
  simp only [getWith, Look.orElse]

theorem getWith_spec (gv : String → Val → Look) (sc : Scope) (n : String) :
    sc.getWith gv n = firstNonAbsent (sc.inorder.map (fun d => gv n d)) := by
  induction sc with
  | leaf d => simp [getWith, inorder, firstNonAbsent_cons, firstNonAbsent, Look.orElse_absent]
  | combine c p ihc ihp =>
    rw [getWith_combine, inorder, List.map_append, firstNonAbsent_append, ihc, ihp]

theorem inorder_chain (frames : List Val) (last : Scope) :
    (chain frames last).inorder = frames ++ last.inorder := by
  induction frames with
  | nil => rfl
  | cons f rest ih => simp [chain, inorder, ih]

end Scope

/-! ## getValue by data kind -/

theorem getValue_nil (n : String) : getValue n .nil = .absent := rfl

theorem getValue_map (n ty : String) (kvs : List (String × Val)) :
    getValue n (.map ty kvs) =
      match kvs.find? (fun kv => kv.1 = n) with
      | some kv => .found kv.2
      | none => .absent := rfl

theorem getValue_struct (n ty : String) (fs : List (String × Bool × Bool × Val)) :
    getValue n (.struct ty fs) =
      if (methodsOf ty false).contains n then .found (.meth ty n (.struct ty fs))
      else match fieldByName fs n with
        | some (exported, x) => if exported then .found x else .failed
        | none => .absent := by
  unfold getValue
  by_cases h : n ∈ methodsOf ty false <;> simp [h] <;> rfl

theorem getValue_nilptr (n ty : String) (id : Nat) :
    getValue n (.ptr ty id none) =
      if (methodsOf ty true).contains n then .found (.meth ty n (.ptr ty id none)) else .absent := by
  unfold getValue
  by_cases h : n ∈ methodsOf ty true <;> simp [h]

/-- the index computation of the slice/array branch -/
def indexLook (n : String) (xs : List Val) : Look :=
  match parseDecInt n with
  | none => .failed
  | some i =>
    let i := if i < 0 then i + xs.length else i
    if i < 0 then .failed else
    match xs[i.toNat]? with
    | some x => .found x
    | none => .failed

theorem getValue_slice (n ty : String) (xs : List Val) (cap : Nat) :
    getValue n (.slice ty xs cap) = indexLook n xs := rfl

theorem getValue_array (n ty : String) (xs : List Val) :
    getValue n (.array ty xs) = indexLook n xs := rfl

theorem indexLook_ne_absent (n : String) (xs : List Val) : indexLook n xs ≠ .absent := by
  have aux : ∀ j : Int, (if j < 0 then Look.failed else
      match xs[j.toNat]? with | some x => Look.found x | none => Look.failed) ≠ .absent := by
    intro j
    by_cases hj : j < 0
    · simp [hj]
    · cases hx : xs[j.toNat]? <;> simp [hj]
  unfold indexLook
  cases parseDecInt n with
  | none => simp
  | some i => exact aux _

/-! ## find? on association lists -/

theorem find?_key_none {β} (kvs : List (String × β)) (n : String) :
    kvs.find? (fun kv => kv.1 = n) = none ↔ n ∉ kvs.map Prod.fst := by
  induction kvs with
  | nil => simp
  | cons kv rest ih =>
    by_cases h : kv.1 = n
    · simp [h]
    · have h' : ¬ n = kv.1 := fun e => h e.symm
      simp [h, h', ih]

theorem find?_key_first {β} (pre : List (String × β)) (v : β) (post : List (String × β)) (n : String)
    (hpre : n ∉ pre.map Prod.fst) :
    (pre ++ (n, v) :: post).find? (fun kv => kv.1 = n) = some (n, v) := by
  induction pre with
  | nil => simp
  | cons kv rest ih =>
    have h : ¬ kv.1 = n := fun e => hpre (by simp [e.symm])
    have hr : n ∉ rest.map Prod.fst := fun m => hpre (by simp at m ⊢; exact Or.inr m)
    simp [h, ih hr]

/-- a key-indexed table `names.map (fun m => (m, f m))` looked up at `n` -/
theorem find?_table {β} (f : String → β) (names : List String) (n : String) :
    (names.map fun m => (m, f m)).find? (fun kv => kv.1 = n) =
      if names.contains n then some (n, f n) else none := by
  induction names with
  | nil => simp
  | cons m rest ih =>
    by_cases h : m = n
    · subst h; simp
    · have h' : ¬ n = m := fun e => h e.symm
      simp [h, ih, h']

/-! ## the built-in frame -/

/-- `scopeGet []` (the built-ins pseudo-frame of the renderer model) is a lookup in `builtinFrame` -/
theorem getValue_builtinFrame (n : String) : getValue n builtinFrame = scopeGet [] n := by
  unfold builtinFrame scopeGet
  rw [getValue_map]
  by_cases h1 : n = "true"
  · subst h1; rfl
  · by_cases h2 : n = "false"
    · subst h2; rfl
    · have h1' : ¬ "true" = n := fun e => h1 e.symm
      have h2' : ¬ "false" = n := fun e => h2 e.symm
      have hc : builtinNames.contains n = (builtinNames.drop 2).contains n := by
        simp [builtinNames, h1, h2]
      simp only [List.find?, h1', h2', decide_false, h1, h2, if_false, hc]
      rw [find?_table]
      cases hd : (List.drop 2 builtinNames).contains n <;> simp

end EV
