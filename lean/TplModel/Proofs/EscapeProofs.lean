import TplModel.Basic.Escape
import TplModel.Html.Scan
/-! # Helper lemmas for C02 (escaping round-trips and is invisible to the HTML scanner)

Part 1 (`Esc`): facts about `escape` / `unescape5`. Part 2 (`HS`): single-step and multi-step absorption lemmas of
the scanner model in text mode, raw-text mode and inside a quoted attribute value. Core-only. -/
namespace Esc

theorem unescape5_cons_ne (c : Char) (r : List Char) (h : c ≠ '&') : unescape5 (c :: r) = c :: unescape5 r := by
  rw [unescape5.eq_def]
  split <;> simp_all

theorem escChar_cases (c : Char) :
    (c = '&' ∧ escChar c = ['&', 'a', 'm', 'p', ';']) ∨ (c = '\'' ∧ escChar c = ['&', '#', '3', '9', ';']) ∨
    (c = '<' ∧ escChar c = ['&', 'l', 't', ';']) ∨ (c = '>' ∧ escChar c = ['&', 'g', 't', ';']) ∨
    (c = '"' ∧ escChar c = ['&', '#', '3', '4', ';']) ∨
    (c ≠ '&' ∧ c ≠ '\'' ∧ c ≠ '<' ∧ c ≠ '>' ∧ c ≠ '"' ∧ escChar c = [c]) := by
  unfold escChar
  by_cases h1 : c = '&'
  · subst h1; simp
  by_cases h2 : c = '\''
  · subst h2; simp
  by_cases h3 : c = '<'
  · subst h3; simp
  by_cases h4 : c = '>'
  · subst h4; simp
  by_cases h5 : c = '"'
  · subst h5; simp
  simp [h1, h2, h3, h4, h5]

theorem unescape5_escChar_append (c : Char) (r : List Char) : unescape5 (escChar c ++ r) = c :: unescape5 r := by
  rcases escChar_cases c with ⟨rfl, h⟩ | ⟨rfl, h⟩ | ⟨rfl, h⟩ | ⟨rfl, h⟩ | ⟨rfl, h⟩ | ⟨h1, _, _, _, _, h⟩
  all_goals rw [h]
  · simp [unescape5]
  · simp [unescape5]
  · simp [unescape5]
  · simp [unescape5]
  · simp [unescape5]
  · simpa using unescape5_cons_ne c r h1

theorem unescape_escape : ∀ s, unescape5 (escape s) = s
  | [] => by simp [escape, unescape5]
  | c :: cs => by rw [escape, unescape5_escChar_append, unescape_escape cs]

theorem escChar_safe (c x : Char) (h : x ∈ escChar c) : x ≠ '<' ∧ x ≠ '>' ∧ x ≠ '"' ∧ x ≠ '\'' := by
  rcases escChar_cases c with ⟨_, e⟩ | ⟨_, e⟩ | ⟨_, e⟩ | ⟨_, e⟩ | ⟨_, e⟩ | ⟨_, h2, h3, h4, h5, e⟩
  all_goals rw [e] at h
  all_goals simp at h
  · rcases h with rfl | rfl | rfl | rfl | rfl <;> decide
  · rcases h with rfl | rfl | rfl | rfl | rfl <;> decide
  · rcases h with rfl | rfl | rfl | rfl <;> decide
  · rcases h with rfl | rfl | rfl | rfl <;> decide
  · rcases h with rfl | rfl | rfl | rfl | rfl <;> decide
  · subst h; exact ⟨h3, h4, h5, h2⟩

theorem escape_safe : ∀ s c, c ∈ escape s → c ≠ '<' ∧ c ≠ '>' ∧ c ≠ '"' ∧ c ≠ '\''
  | [], c, h => by simp [escape] at h
  | d :: ds, c, h => by
    rw [escape, List.mem_append] at h
    rcases h with h | h
    · exact escChar_safe d c h
    · exact escape_safe ds c h

theorem escape_append (a b : List Char) : escape (a ++ b) = escape a ++ escape b := by
  induction a with
  | nil => simp [escape]
  | cons c cs ih => simp [escape, ih]

theorem split_after_ampfree {t r a b : List Char} (ht : '&' ∉ t) (h : t ++ r = a ++ '&' :: b) :
    ∃ a', a = t ++ a' ∧ r = a' ++ '&' :: b := by
  induction t generalizing a with
  | nil => exact ⟨a, by simp, by simpa using h⟩
  | cons x t ih =>
    cases a with
    | nil => simp at h; exact absurd h.1.symm (by simp at ht; exact ht.1)
    | cons y a =>
      simp at h
      obtain ⟨a', h1, h2⟩ := ih (a := a) (by simp at ht ⊢; exact ht.2) h.2
      exact ⟨a', by simp [h.1, h1], h2⟩

theorem escape_amp_starts_entity : ∀ (s a b : List Char), escape s = a ++ '&' :: b → ∃ t ∈ entityTails, t <+: b
  | [], a, b, h => by simp [escape] at h
  | c :: cs, a, b, h => by
    rw [escape] at h
    have tail_case : ∀ t, t ∈ entityTails → escChar c = '&' :: t → ∃ t ∈ entityTails, t <+: b := by
      intro t ht e
      rw [e] at h
      cases a with
      | nil =>
        simp at h
        exact ⟨t, ht, ⟨escape cs, h⟩⟩
      | cons y a =>
        simp at h
        have hamp : '&' ∉ t := by
          simp [entityTails] at ht
          rcases ht with rfl | rfl | rfl | rfl | rfl <;> decide
        obtain ⟨a', _, h2⟩ := split_after_ampfree hamp h.2
        exact escape_amp_starts_entity cs a' b h2
    rcases escChar_cases c with ⟨_, e⟩ | ⟨_, e⟩ | ⟨_, e⟩ | ⟨_, e⟩ | ⟨_, e⟩ | ⟨h1, _, _, _, _, e⟩
    · exact tail_case _ (by simp [entityTails]) e
    · exact tail_case _ (by simp [entityTails]) e
    · exact tail_case _ (by simp [entityTails]) e
    · exact tail_case _ (by simp [entityTails]) e
    · exact tail_case _ (by simp [entityTails]) e
    · rw [e] at h
      cases a with
      | nil => simp at h; exact absurd h.1 h1
      | cons y a =>
        simp at h
        exact escape_amp_starts_entity cs a b h.2

theorem escape_injective {a b : List Char} (h : escape a = escape b) : a = b := by
  have := congrArg unescape5 h
  rwa [unescape_escape, unescape_escape] at this

theorem lt_not_mem_escape (s : List Char) : '<' ∉ escape s := fun h => (escape_safe s _ h).1 rfl
theorem dq_not_mem_escape (s : List Char) : '"' ∉ escape s := fun h => (escape_safe s _ h).2.2.1 rfl
theorem sq_not_mem_escape (s : List Char) : '\'' ∉ escape s := fun h => (escape_safe s _ h).2.2.2 rfl

end Esc

namespace HS

def advanceAll (p : Pos) (v : List Char) : Pos := v.foldl Pos.advance p

@[simp] theorem advanceAll_nil (p : Pos) : advanceAll p [] = p := rfl
@[simp] theorem advanceAll_cons (p : Pos) (c : Char) (v : List Char) :
    advanceAll p (c :: v) = advanceAll (p.advance c) v := rfl
theorem advanceAll_append (p : Pos) (a b : List Char) : advanceAll p (a ++ b) = advanceAll (advanceAll p a) b := by
  simp [advanceAll]

theorem foldlM_ok_cons {cfg : Cfg} {s s1 : S} {c : Char} {v : List Char} (h : step cfg s c = .ok s1) :
    (c :: v).foldlM (step cfg) s = v.foldlM (step cfg) s1 := by
  simp only [List.foldlM, bind, Except.bind, h]

theorem foldlM_step_append (cfg : Cfg) (a b : List Char) (s : S) :
    (a ++ b).foldlM (step cfg) s = (a.foldlM (step cfg) s).bind (fun s1 => b.foldlM (step cfg) s1) := by
  rw [List.foldlM_append]; rfl

theorem stepText_plain (s : S) (l : TextL) (c : Char) (p p' : Pos) (hraw : l.raw = none) (hc : c ≠ '<') :
    stepText s l c p p' = .ok { s with mode := .text { l with buf := c :: l.buf }, pos := p' } := by
  unfold stepText
  simp [hraw, hc]

theorem stepText_raw_plain (s : S) (l : TextL) (tag : List Char) (c : Char) (p p' : Pos)
    (hraw : l.raw = some tag) (htb : l.tagBuf = []) (hc : c ≠ '<') :
    stepText s l c p p' = .ok { s with mode := .text { l with stop := p', buf := c :: l.buf }, pos := p' } := by
  unfold stepText
  simp [hraw, hc, htb]

theorem text_state_absorbs (cfg : Cfg) (v : List Char) : ∀ (s : S) (l : TextL),
    s.mode = .text l → l.raw = none → '<' ∉ v →
    v.foldlM (step cfg) s =
      .ok { s with mode := .text { l with buf := v.reverse ++ l.buf }, pos := advanceAll s.pos v } := by
  induction v with
  | nil => intro s l hm _ _; cases s; cases l; simp_all [List.foldlM, pure, Except.pure]
  | cons c v ih =>
    intro s l hm hraw hv
    have hc : c ≠ '<' := by intro h; simp [h] at hv
    have hv' : '<' ∉ v := by intro h; simp [h] at hv
    have h1 : step cfg s c = .ok { s with mode := .text { l with buf := c :: l.buf }, pos := s.pos.advance c } := by
      unfold step; simp only [hm]; exact stepText_plain _ _ _ _ _ hraw hc
    rw [foldlM_ok_cons h1, ih _ { l with buf := c :: l.buf } rfl hraw hv']
    simp

theorem isEmpty_of_getLast? {α} {l : List α} {q : α} (h : l.getLast? = some q) : l.isEmpty = false := by
  cases l <;> simp_all

theorem isQuote_ne_gt {q : Char} (hq : isQuote q = true) : q ≠ '>' := by
  intro h; subst h; simp [isQuote] at hq

theorem stepTag_quoted_other (s : S) (l : TagL) (q c : Char) (p p' : Pos)
    (hst : l.st = .attrValue) (hlast : l.attrValue.getLast? = some q) (hq : isQuote q = true) (hc : c ≠ q) :
    stepTag s l c p p' =
      .ok { s with mode := .tag { l with buf := c :: l.buf, attrValue := c :: l.attrValue, attrValueEnd := p' },
                   pos := p' } := by
  have hne := isEmpty_of_getLast? hlast
  have hc' : ¬ q = c := fun h => hc h.symm
  unfold stepTag
  simp [hst, hne, hlast, hq, hc']

/-- the attribute record produced when the closing quote `q` arrives -/
def closedAttr (l : TagL) (q : Char) (p' : Pos) : Attr :=
  { name := (trimOneSpace l.attrName).reverse, nameStart := l.attrNameStart, nameEnd := l.attrNameEnd,
    value := some (l.attrValue.reverse ++ [q]), valueStart := l.attrValueStart, valueEnd := p' }

theorem stepTag_quoted_close (s : S) (l : TagL) (q : Char) (p p' : Pos)
    (hst : l.st = .attrValue) (hlast : l.attrValue.getLast? = some q) (hq : isQuote q = true)
    (hnd : l.attrs.any (fun b => b.name == (trimOneSpace l.attrName).reverse) = false) :
    stepTag s l q p p' =
      .ok { s with mode := .tag { l with buf := q :: l.buf, st := .space, attrValue := q :: l.attrValue,
                                         attrValueEnd := p', attrs := closedAttr l q p' :: l.attrs },
                   pos := p' } := by
  have hne := isEmpty_of_getLast? hlast
  have hgt := isQuote_ne_gt hq
  unfold stepTag
  simp [hst, hne, hlast, hq, hgt, addAttr, hnd, closedAttr]

theorem stepTag_quoted_close_dup (s : S) (l : TagL) (q : Char) (p p' : Pos)
    (hst : l.st = .attrValue) (hlast : l.attrValue.getLast? = some q) (hq : isQuote q = true)
    (hd : l.attrs.any (fun b => b.name == (trimOneSpace l.attrName).reverse) = true) :
    stepTag s l q p p' = .error .dupAttr := by
  have hne := isEmpty_of_getLast? hlast
  have hgt := isQuote_ne_gt hq
  unfold stepTag
  simp [hst, hne, hlast, hq, hgt, addAttr, hd]

theorem rawtext_absorbs (cfg : Cfg) (tag : List Char) (v : List Char) : ∀ (s : S) (l : TextL),
    s.mode = .text l → l.raw = some tag → l.tagBuf = [] → '<' ∉ v →
    v.foldlM (step cfg) s =
      .ok { s with mode := .text { l with buf := v.reverse ++ l.buf,
                                          stop := if v.isEmpty then l.stop else advanceAll s.pos v },
                   pos := advanceAll s.pos v } := by
  induction v with
  | nil => intro s l hm _ _ _; cases s; cases l; simp_all [List.foldlM, pure, Except.pure]
  | cons c v ih =>
    intro s l hm hraw htb hv
    have hc : c ≠ '<' := by intro h; simp [h] at hv
    have hv' : '<' ∉ v := by intro h; simp [h] at hv
    have h1 : step cfg s c =
        .ok { s with mode := .text { l with stop := s.pos.advance c, buf := c :: l.buf }, pos := s.pos.advance c } := by
      unfold step; simp only [hm]; exact stepText_raw_plain _ _ tag _ _ _ hraw htb hc
    rw [foldlM_ok_cons h1, ih _ { l with stop := s.pos.advance c, buf := c :: l.buf } rfl hraw htb hv']
    cases v <;> simp

theorem quoted_value_absorbs (cfg : Cfg) (q : Char) (hq : isQuote q = true) (v : List Char) : ∀ (s : S) (l : TagL),
    s.mode = .tag l → l.st = .attrValue → l.attrValue.getLast? = some q → q ∉ v →
    v.foldlM (step cfg) s =
      .ok { s with mode := .tag { l with buf := v.reverse ++ l.buf, attrValue := v.reverse ++ l.attrValue,
                                         attrValueEnd := if v.isEmpty then l.attrValueEnd else advanceAll s.pos v },
                   pos := advanceAll s.pos v } := by
  induction v with
  | nil => intro s l hm _ _ _; cases s; cases l; simp_all [List.foldlM, pure, Except.pure]
  | cons c v ih =>
    intro s l hm hst hlast hv
    have hc : c ≠ q := by intro h; simp [h] at hv
    have hv' : q ∉ v := by intro h; simp [h] at hv
    have h1 : step cfg s c =
        .ok { s with mode := .tag { l with buf := c :: l.buf, attrValue := c :: l.attrValue,
                                           attrValueEnd := s.pos.advance c },
                     pos := s.pos.advance c } := by
      unfold step; simp only [hm]; exact stepTag_quoted_other _ _ q _ _ _ hst hlast hq hc
    have hlast' : (c :: l.attrValue).getLast? = some q := by
      cases hl : l.attrValue with
      | nil => simp [hl] at hlast
      | cons x xs => rw [hl] at hlast; simpa [List.getLast?_cons_cons] using hlast
    rw [foldlM_ok_cons h1,
      ih _ { l with buf := c :: l.buf, attrValue := c :: l.attrValue, attrValueEnd := s.pos.advance c } rfl hst hlast' hv']
    cases v <;> simp

theorem step_quoted_close (cfg : Cfg) (q : Char) (hq : isQuote q = true) (s : S) (l : TagL)
    (hm : s.mode = .tag l) (hst : l.st = .attrValue) (hlast : l.attrValue.getLast? = some q)
    (hnd : l.attrs.any (fun b => b.name == (trimOneSpace l.attrName).reverse) = false) :
    step cfg s q =
      .ok { s with mode := .tag { l with buf := q :: l.buf, st := .space, attrValue := q :: l.attrValue,
                                         attrValueEnd := s.pos.advance q,
                                         attrs := closedAttr l q (s.pos.advance q) :: l.attrs },
                   pos := s.pos.advance q } := by
  unfold step; simp only [hm]; exact stepTag_quoted_close _ _ q _ _ hst hlast hq hnd

/-- a quoted value is absorbed and the matching quote closes the attribute -/
theorem quoted_value_closes (cfg : Cfg) (q : Char) (hq : isQuote q = true) (v : List Char) (s : S) (l : TagL)
    (hm : s.mode = .tag l) (hst : l.st = .attrValue) (hlast : l.attrValue.getLast? = some q) (hv : q ∉ v)
    (hnd : l.attrs.any (fun b => b.name == (trimOneSpace l.attrName).reverse) = false) :
    (v ++ [q]).foldlM (step cfg) s =
      .ok { s with
        mode := .tag { l with
          buf := q :: (v.reverse ++ l.buf), st := .space, attrValue := q :: (v.reverse ++ l.attrValue),
          attrValueEnd := advanceAll s.pos (v ++ [q]),
          attrs := { name := (trimOneSpace l.attrName).reverse, nameStart := l.attrNameStart, nameEnd := l.attrNameEnd,
                     value := some (l.attrValue.reverse ++ v ++ [q]), valueStart := l.attrValueStart,
                     valueEnd := advanceAll s.pos (v ++ [q]) } :: l.attrs },
        pos := advanceAll s.pos (v ++ [q]) } := by
  rw [foldlM_step_append, quoted_value_absorbs cfg q hq v s l hm hst hlast hv]
  simp only [Except.bind, List.foldlM, bind, pure, Except.pure]
  have hlast' : (v.reverse ++ l.attrValue).getLast? = some q := by
    cases hl : l.attrValue with
    | nil => simp [hl] at hlast
    | cons x xs => rw [hl] at hlast; simp [List.getLast?_append, hlast]
  have h2 := step_quoted_close cfg q hq
    { s with mode := .tag { l with buf := v.reverse ++ l.buf, attrValue := v.reverse ++ l.attrValue,
                                   attrValueEnd := if v.isEmpty then l.attrValueEnd else advanceAll s.pos v },
             pos := advanceAll s.pos v } _ rfl hst hlast' hnd
  rw [h2]
  simp [closedAttr, advanceAll_append]

/-! ## Erasure: the scanner's behaviour does not depend on positions, text, attribute values or raw tag text

`S.er` forgets everything that an inserted (escaped) string can change: all positions, the value of text and tag
tokens, attribute values (kept: whether there is one), the text buffer of ordinary text mode, the raw buffer of tag
mode and all but the first character of the attribute-value buffer. `step_er` shows that `step` commutes with this
erasure, so two runs from erasure-equal states stay erasure-equal (`fold_congr`, `runFrom_congr`). -/

def Z : Pos := ⟨0, 0⟩

def Attr.er (a : Attr) : Attr :=
  { name := a.name, nameStart := Z, nameEnd := Z, value := a.value.map (fun _ => []), valueStart := Z, valueEnd := Z }

def Tag.er (t : Tag) : Tag := { name := t.name, attrs := t.attrs.map Attr.er }

def Token.er (t : Token) : Token :=
  { kind := t.kind, value := if t.kind = .text ∨ t.kind = .tag then [] else t.value, start := Z, stop := Z,
    tag := t.tag.map Tag.er }

def TextL.er (l : TextL) : TextL :=
  match l.raw with
  | none => { buf := [], start := Z, raw := none, stop := Z, tagBuf := [], nameBuf := [] }
  | some t => { buf := l.buf, start := Z, raw := some t, stop := Z, tagBuf := l.tagBuf, nameBuf := l.nameBuf }

def TagL.er (l : TagL) : TagL :=
  { st := l.st, buf := [], start := Z, attrs := l.attrs.map Attr.er, tagName := l.tagName, comment := l.comment,
    cdata := l.cdata, attrName := l.attrName, attrNameStart := Z, attrNameEnd := Z,
    attrValue := l.attrValue.getLast?.toList, attrValueStart := Z, attrValueEnd := Z }

def Mode.er : Mode → Mode
  | .init => .init
  | .text l => .text l.er
  | .tag l => .tag l.er

def S.er (s : S) : S := { mode := s.mode.er, pos := Z, toks := s.toks.map Token.er }

def erR (r : Except Err S) : Except Err S := match r with | .ok s => .ok s.er | .error e => .error e

@[simp] theorem erR_ok (s : S) : erR (.ok s) = .ok s.er := rfl
@[simp] theorem erR_error (e : Err) : erR (.error e) = .error e := rfl

@[simp] theorem Attr.er_mk (n : List Char) (a b : Pos) (v : Option (List Char)) (c d : Pos) :
    Attr.er ⟨n, a, b, v, c, d⟩ = ⟨n, Z, Z, v.map (fun _ => []), Z, Z⟩ := rfl
@[simp] theorem Attr.er_er (a : Attr) : a.er.er = a.er := by
  cases a with | mk n a b v c d => cases v <;> simp
@[simp] theorem Attr.er_name (a : Attr) : a.er.name = a.name := rfl
@[simp] theorem Tag.er_mk (n : List Char) (as : List Attr) : Tag.er ⟨n, as⟩ = ⟨n, as.map Attr.er⟩ := rfl
@[simp] theorem Tag.er_er (a : Tag) : a.er.er = a.er := by cases a; simp [Tag.er]
@[simp] theorem Tag.er_name (a : Tag) : a.er.name = a.name := rfl
@[simp] theorem Token.er_mk (k : Kind) (v : List Char) (a b : Pos) (t : Option Tag) :
    Token.er ⟨k, v, a, b, t⟩ = ⟨k, if k = .text ∨ k = .tag then [] else v, Z, Z, t.map Tag.er⟩ := rfl
@[simp] theorem Token.er_er (a : Token) : a.er.er = a.er := by
  cases a with | mk k v a b t => cases t <;> cases k <;> simp
@[simp] theorem Token.er_kind (a : Token) : a.er.kind = a.kind := rfl
@[simp] theorem Token.er_tag (a : Token) : a.er.tag = a.tag.map Tag.er := rfl
@[simp] theorem map_Attr_er_er (as : List Attr) : (as.map Attr.er).map Attr.er = as.map Attr.er := by simp
@[simp] theorem map_Token_er_er (as : List Token) : (as.map Token.er).map Token.er = as.map Token.er := by simp
@[simp] theorem getLast?_toList_idem (l : List Char) : l.getLast?.toList.getLast?.toList = l.getLast?.toList := by
  cases l.getLast? <;> simp
@[simp] theorem isSpace_gt : isSpace '>' = false := by decide
@[simp] theorem isSpace_eq : isSpace '=' = false := by decide
@[simp] theorem S.er_toks (s : S) : s.er.toks = s.toks.map Token.er := rfl

@[simp] theorem any_er (as : List Attr) (n : List Char) :
    (as.map Attr.er).any (fun b => b.name == n) = as.any (fun b => b.name == n) := by
  simp [List.any_map, Function.comp_def]

theorem stepAttrName_er (s : S) (l : TagL) (c : Char) (p p' q q' : Pos) :
    erR (stepTag.stepAttrName s.er l.er c q q') = erR (stepTag.stepAttrName s l c p p') := by
  unfold stepTag.stepAttrName
  simp only [addAttr, any_er, TagL.er]
  by_cases h1 : isSpace c = true
  · have hgt : c ≠ '>' := by intro h; simp [h] at h1
    simp only [h1, hgt, if_true, if_false]
    split <;> simp [S.er, Mode.er, TagL.er]
  by_cases h2 : c = '>'
  · subst h2
    by_cases hd : (l.attrs.any fun b => b.name == (trimOneSpace l.attrName).reverse) = true
    · simp [hd]
    · simp [hd, finishTag, S.emit, S.er, Mode.er]
  by_cases h3 : c = '='
  · subst h3
    simp [S.er, Mode.er, TagL.er]
  simp only [h1, h2, h3, if_false, Bool.false_eq_true]
  split
  · rename_i rest _
    by_cases hd : ∃ x, x ∈ l.attrs ∧ x.name = rest.reverse
    · simp [hd]
    · simp [hd, S.er, Mode.er, TagL.er]
  · simp [S.er, Mode.er, TagL.er]

@[simp] theorem TagL.er_er (l : TagL) : l.er.er = l.er := by simp [TagL.er]
@[simp] theorem TextL.er_er (l : TextL) : l.er.er = l.er := by
  unfold TextL.er; cases h : l.raw <;> simp
@[simp] theorem Mode.er_er (m : Mode) : m.er.er = m.er := by cases m <;> simp [Mode.er]
@[simp] theorem S.er_er (s : S) : s.er.er = s.er := by simp [S.er]

theorem stepAttrName_congr (s1 s2 : S) (l1 l2 : TagL) (c : Char) (p p' q q' : Pos)
    (hs : s1.er = s2.er) (hl : l1.er = l2.er) :
    erR (stepTag.stepAttrName s1 l1 c q q') = erR (stepTag.stepAttrName s2 l2 c p p') := by
  rw [← stepAttrName_er s1 l1 c q q' Z Z, ← stepAttrName_er s2 l2 c p p' Z Z, hs, hl]

theorem getLast?_cons_some {l : List Char} {ch : Char} (c : Char) (h : l.getLast? = some ch) :
    (c :: l).getLast? = some ch := by
  cases l with
  | nil => simp at h
  | cons x xs => simpa [List.getLast?_cons_cons] using h

theorem stepTag_er (s : S) (l : TagL) (c : Char) (p p' q q' : Pos) :
    erR (stepTag s.er l.er c q q') = erR (stepTag s l c p p') := by
  cases hst : l.st with
  | tagStart =>
    unfold stepTag
    by_cases h1 : c = '<'
    · subst h1; simp [hst, TagL.er, S.er, Mode.er]
    · simp [hst, TagL.er, h1]
  | tagName =>
    unfold stepTag
    simp only [hst, TagL.er]
    by_cases h1 : c = '>'
    · subst h1; simp [finishTag, S.emit, S.er, Mode.er]
    by_cases h2 : isSpace c = true
    · simp [h1, h2, S.er, Mode.er, TagL.er]
    simp only [h1, h2, if_false, Bool.false_eq_true]
    split <;> split <;> simp [S.er, Mode.er, TagL.er]
  | comment =>
    unfold stepTag
    simp only [hst, TagL.er]
    repeat' split
    all_goals simp [S.emit, S.er, Mode.er, TagL.er]
  | cdata =>
    unfold stepTag
    simp only [hst, TagL.er]
    split
    · simp [S.emit, S.er, Mode.er]
    · simp [S.er, Mode.er, TagL.er]
  | space =>
    unfold stepTag
    simp only [hst, TagL.er]
    by_cases h1 : c = '>'
    · subst h1; simp [finishTag, S.emit, S.er, Mode.er]
    by_cases h2 : isSpace c = true
    · simp [h1, h2, S.er, Mode.er, TagL.er]
    simp only [h1, h2, if_false, Bool.not_false, if_true]
    exact stepAttrName_congr _ _ _ _ c p p' q q' (by simp) (by simp [TagL.er])
  | attrName =>
    unfold stepTag
    simp only [hst, TagL.er]
    exact stepAttrName_congr _ _ _ _ c p p' q q' (by simp) (by simp [TagL.er])
  | attrValue =>
    unfold stepTag
    simp only [hst, TagL.er]
    cases hv : l.attrValue.getLast? with
    | none =>
      have hnil : l.attrValue = [] := List.getLast?_eq_none_iff.mp hv
      by_cases h1 : c = '>'
      · subst h1
        by_cases hd : ∃ x, x ∈ l.attrs ∧ x.name = (trimOneSpace l.attrName).reverse
        · simp [hnil, addAttr, hd]
        · simp [hnil, addAttr, hd, finishTag, S.emit, S.er, Mode.er]
      by_cases h2 : isSpace c = true
      · simp [hnil, h1, h2, S.er, Mode.er, TagL.er]
      · simp [hnil, h1, h2, S.er, Mode.er, TagL.er]
    | some ch =>
      have hne : l.attrValue.isEmpty = false := isEmpty_of_getLast? hv
      have hcons := getLast?_cons_some c hv
      by_cases hd : ∃ x, x ∈ l.attrs ∧ x.name = (trimOneSpace l.attrName).reverse
      · by_cases hq : isQuote ch = true
        · have hgt := isQuote_ne_gt hq
          by_cases hc : ch = c
          · subst hc; simp [hne, hq, addAttr, hd, hgt]
          · simp [hne, hq, hc, S.er, Mode.er, TagL.er, hcons]
        · by_cases h1 : c = '>'
          · subst h1; simp [hne, hq, addAttr, hd]
          by_cases h2 : isSpace c = true
          · simp [hne, hq, h1, h2, addAttr, hd]
          · simp [hne, hq, h1, h2, S.er, Mode.er, TagL.er, hcons]
      · by_cases hq : isQuote ch = true
        · have hgt := isQuote_ne_gt hq
          by_cases hc : ch = c
          · subst hc; simp [hne, hq, addAttr, hd, hgt, S.er, Mode.er, TagL.er, hcons]
          · simp [hne, hq, hc, S.er, Mode.er, TagL.er, hcons]
        · by_cases h1 : c = '>'
          · subst h1; simp [hne, hq, addAttr, hd, finishTag, S.emit, S.er, Mode.er]
          by_cases h2 : isSpace c = true
          · simp [hne, hq, h1, h2, addAttr, hd, S.er, Mode.er, TagL.er, hv]
          · simp [hne, hq, h1, h2, S.er, Mode.er, TagL.er, hcons]

theorem stepTag_congr (s1 s2 : S) (l1 l2 : TagL) (c : Char) (p p' q q' : Pos)
    (hs : s1.er = s2.er) (hl : l1.er = l2.er) :
    erR (stepTag s1 l1 c q q') = erR (stepTag s2 l2 c p p') := by
  rw [← stepTag_er s1 l1 c q q' Z Z, ← stepTag_er s2 l2 c p p' Z Z, hs, hl]

theorem stepText_er (s : S) (l : TextL) (c : Char) (p p' q q' : Pos) :
    erR (stepText s.er l.er c q q') = erR (stepText s l c p p') := by
  cases hraw : l.raw with
  | none =>
    have hl : l.er = { buf := [], start := Z, raw := none, stop := Z, tagBuf := [], nameBuf := [] } := by
      simp [TextL.er, hraw]
    unfold stepText
    simp only [hraw, hl]
    by_cases h1 : c = '<'
    · simp only [h1, if_true]
      exact stepTag_congr _ _ _ _ _ _ _ _ _ (by simp [S.emit, S.er]) (by simp [newTagL, TagL.er])
    · simp [h1, S.er, Mode.er, TextL.er]
  | some tg =>
    have hl : l.er = { buf := l.buf, start := Z, raw := some tg, stop := Z, tagBuf := l.tagBuf, nameBuf := l.nameBuf } := by
      simp [TextL.er, hraw]
    unfold stepText
    simp only [hraw, hl]
    by_cases h1 : c = '<'
    · subst h1
      simp only [if_true]
      repeat' split
      all_goals simp_all [S.er, Mode.er, TextL.er]
    · simp only [h1, if_false]
      repeat' split
      all_goals simp_all [S.emit, S.er, Mode.er, TextL.er]

theorem stepText_congr (s1 s2 : S) (l1 l2 : TextL) (c : Char) (p p' q q' : Pos)
    (hs : s1.er = s2.er) (hl : l1.er = l2.er) :
    erR (stepText s1 l1 c q q') = erR (stepText s2 l2 c p p') := by
  rw [← stepText_er s1 l1 c q q' Z Z, ← stepText_er s2 l2 c p p' Z Z, hs, hl]

theorem rawTagOf_er (cfg : Cfg) (toks : List Token) : rawTagOf cfg (toks.map Token.er) = rawTagOf cfg toks := by
  cases toks with
  | nil => rfl
  | cons t ts =>
    cases t with | mk k v a b tg =>
    cases tg with
    | none => cases k <;> simp [rawTagOf]
    | some tg => cases k <;> simp [rawTagOf]

theorem step_er (cfg : Cfg) (s : S) (c : Char) : erR (step cfg s.er c) = erR (step cfg s c) := by
  unfold step
  cases hm : s.mode with
  | init =>
    simp only [S.er, hm, Mode.er, rawTagOf_er]
    split
    · exact stepTag_congr _ _ _ _ _ _ _ _ _ (by simp [S.er, hm]) (by simp [newTagL, TagL.er])
    · exact stepText_congr _ _ _ _ _ _ _ _ _ (by simp [S.er, hm]) (by cases rawTagOf cfg s.toks <;> simp [TextL.er])
  | text l =>
    simp only [S.er, hm, Mode.er]
    exact stepText_congr _ _ _ _ _ _ _ _ _ (by simp [S.er, hm, Mode.er]) (by simp)
  | tag l =>
    simp only [S.er, hm, Mode.er]
    exact stepTag_congr _ _ _ _ _ _ _ _ _ (by simp [S.er, hm, Mode.er]) (by simp)

theorem step_congr (cfg : Cfg) (s1 s2 : S) (c : Char) (h : s1.er = s2.er) :
    erR (step cfg s1 c) = erR (step cfg s2 c) := by
  rw [← step_er cfg s1, ← step_er cfg s2, h]

theorem erR_eq_cases {r1 r2 : Except Err S} (h : erR r1 = erR r2) :
    (∃ e, r1 = .error e ∧ r2 = .error e) ∨ (∃ a b, r1 = .ok a ∧ r2 = .ok b ∧ a.er = b.er) := by
  cases r1 <;> cases r2 <;> simp_all [erR]

theorem fold_congr (cfg : Cfg) (v : List Char) : ∀ (s1 s2 : S), s1.er = s2.er →
    erR (v.foldlM (step cfg) s1) = erR (v.foldlM (step cfg) s2) := by
  induction v with
  | nil => intro s1 s2 h; simpa [List.foldlM, pure, Except.pure] using h
  | cons c v ih =>
    intro s1 s2 h
    rcases erR_eq_cases (step_congr cfg s1 s2 c h) with ⟨e, h1, h2⟩ | ⟨a, b, h1, h2, hab⟩
    · simp [List.foldlM, bind, Except.bind, h1, h2]
    · rw [foldlM_ok_cons h1, foldlM_ok_cons h2]; exact ih a b hab

/-- erase positions and text from a token list result -/
def erT (r : Except Err (List Token)) : Except Err (List Token) :=
  match r with | .ok ts => .ok (ts.map Token.er) | .error e => .error e

theorem finish_congr (s1 s2 : S) (h : s1.er = s2.er) : erT (finish s1) = erT (finish s2) := by
  have key : ∀ s : S, erT (finish s) = erT (finish s.er) := by
    intro s
    unfold finish
    cases hm : s.mode with
    | init => simp [S.er, hm, Mode.er, erT]
    | text l => simp [S.er, hm, Mode.er, erT, S.emit]
    | tag l => simp [S.er, hm, Mode.er, erT]
  rw [key s1, key s2, h]

/-- run the scanner from an arbitrary state to the end of input -/
def runFrom (cfg : Cfg) (s : S) (cs : List Char) : Except Err (List Token) :=
  (cs.foldlM (step cfg) s).bind finish

def initS : S := { mode := .init, pos := ⟨1, 1⟩, toks := [] }

theorem scan_eq_runFrom (cfg : Cfg) (cs : List Char) : scan cfg cs = runFrom cfg initS cs := rfl

theorem runFrom_append (cfg : Cfg) (a b : List Char) (s s1 : S) (h : a.foldlM (step cfg) s = .ok s1) :
    runFrom cfg s (a ++ b) = runFrom cfg s1 b := by
  unfold runFrom
  rw [foldlM_step_append, h]; rfl

theorem runFrom_congr (cfg : Cfg) (cs : List Char) (s1 s2 : S) (h : s1.er = s2.er) :
    erT (runFrom cfg s1 cs) = erT (runFrom cfg s2 cs) := by
  unfold runFrom
  rcases erR_eq_cases (fold_congr cfg cs s1 s2 h) with ⟨e, h1, h2⟩ | ⟨a, b, h1, h2, hab⟩
  · rw [h1, h2]
  · rw [h1, h2]; exact finish_congr a b hab


/-! ## Further absorption facts used by C02 -/

/-- from the initial (between-tokens) state outside raw-text elements, a non-empty `<`-free string opens text mode -/
theorem init_absorbs (cfg : Cfg) (c : Char) (v : List Char) (s : S)
    (hm : s.mode = .init) (hraw : rawTagOf cfg s.toks = none) (hv : '<' ∉ c :: v) :
    (c :: v).foldlM (step cfg) s =
      .ok { s with mode := .text { buf := (c :: v).reverse, start := s.pos, raw := none, stop := ⟨0, 0⟩,
                                   tagBuf := [], nameBuf := [] },
                   pos := advanceAll s.pos (c :: v) } := by
  have hc : c ≠ '<' := by intro h; simp [h] at hv
  have hv' : '<' ∉ v := by intro h; simp [h] at hv
  have h1 : step cfg s c =
      .ok { s with mode := .text { buf := [c], start := s.pos, raw := none, stop := ⟨0, 0⟩, tagBuf := [], nameBuf := [] },
                   pos := s.pos.advance c } := by
    unfold step
    simp only [hm, hraw, hc]
    simpa using stepText_plain s _ c _ _ rfl hc
  rw [foldlM_ok_cons h1, text_state_absorbs cfg v _ _ rfl rfl hv']
  simp

/-- a `<` in ordinary text mode emits the pending text as one token and opens a tag -/
theorem step_text_lt (cfg : Cfg) (s : S) (l : TextL) (hm : s.mode = .text l) (hraw : l.raw = none) :
    step cfg s '<' =
      .ok { mode := .tag { newTagL s.pos with st := .tagName, buf := ['<'] }, pos := s.pos.advance '<',
            toks := { kind := .text, value := l.buf.reverse, start := l.start, stop := s.pos, tag := none } :: s.toks } := by
  unfold step
  simp only [hm]
  unfold stepText
  simp [hraw, stepTag, newTagL, S.emit]

theorem text_absorb_er (s : S) (l : TextL) (hm : s.mode = .text l) (hraw : l.raw = none) (b : List Char) (p : Pos) :
    ({ s with mode := .text { l with buf := b }, pos := p } : S).er = s.er := by
  simp [S.er, hm, Mode.er, TextL.er, hraw]

theorem quoted_absorb_er (s : S) (l : TagL) (hm : s.mode = .tag l) (q : Char) (hlast : l.attrValue.getLast? = some q)
    (v : List Char) (e p : Pos) :
    ({ s with mode := .tag { l with buf := v.reverse ++ l.buf, attrValue := v.reverse ++ l.attrValue, attrValueEnd := e },
              pos := p } : S).er = s.er := by
  have : (v.reverse ++ l.attrValue).getLast? = l.attrValue.getLast? := by
    cases hl : l.attrValue with
    | nil => simp [hl] at hlast
    | cons x xs => rw [hl] at hlast; simp [List.getLast?_append, hlast]
  simp [S.er, hm, Mode.er, TagL.er, this]

end HS
