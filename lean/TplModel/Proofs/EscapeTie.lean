import TplModel.Html.Render
import TplModel.Basic.Escape
import TplModel.Proofs.EscapeProofs
import TplModel.Proofs.RenderSpec
/-! # Tie between the renderer's `RN.escapeHtml` and the escaping model `Esc.escape`, and what the structural
specification emits for `text`, `raw` and dynamic attributes

1. `escapeHtml_eq`: `RN.escapeHtml s = Esc.escapeStr s`; the round trip, the output alphabet and injectivity transfer.
2. the option state `(noPrint, child)` after the attribute loop: when it is `.textLike a isText` (`optFold_text`), and
   where a `.textLike` comes from (`optFold_textLike_origin`: only from a `text` / `raw` attribute of the element);
3. closed forms of the chunks of `refBody`: `body_textLike`, `startChunk_nofrag`, `attrText_dyn`, `join_attrText_split`,
   `refBody_out_head`;
4. the output of an element as a function `elemForm` of the *emitted* strings (`emitted`: `escapeHtml v`, or `v` for
   `raw`), a function that has no access to the evaluation interface: `refBody_out_elemForm`.

Core-only. -/
namespace RN.Tie
open RN RN.Spec Esc
variable {Sc : Type}

/-! ## 1. `RN.escapeHtml` is `Esc.escape` -/

/-- the per-character table of `RN.escapeHtml` -/
def escOne (c : Char) : String :=
  if c = '&' then "&amp;" else if c = '\'' then "&#39;" else if c = '<' then "&lt;"
  else if c = '>' then "&gt;" else if c = '"' then "&#34;" else c.toString

theorem escapeHtml_def (s : String) : escapeHtml s = String.join (s.toList.map escOne) := rfl

theorem escOne_toList (c : Char) : (escOne c).toList = escChar c := by
  unfold escOne escChar
  split
  · rfl
  · split
    · rfl
    · split
      · rfl
      · split
        · rfl
        · split
          · rfl
          · simp

theorem join_escOne_toList : ∀ l : List Char, (String.join (l.map escOne)).toList = escape l
  | [] => rfl
  | c :: cs => by
    simp only [List.map_cons, String.join_cons, String.toList_append, escOne_toList, escape, join_escOne_toList cs]

/-- the renderer's escaping, on character lists, is the escaping model of `Basic/Escape.lean` -/
theorem escapeHtml_toList (s : String) : (escapeHtml s).toList = escape s.toList :=
  join_escOne_toList s.toList

/-- **tie**: `RN.escapeHtml` (used by the renderer model where Go calls `html.EscapeString`) is `Esc.escapeStr` -/
theorem escapeHtml_eq (s : String) : escapeHtml s = escapeStr s := by
  rw [← String.toList_inj, escapeHtml_toList]; simp [escapeStr]

theorem escapeHtml_ofList (l : List Char) : escapeHtml (String.ofList l) = String.ofList (escape l) := by
  rw [escapeHtml_eq]; simp [escapeStr]

/-- HTML-unescaping what the renderer emits gives back the evaluated string -/
theorem unescape_escapeHtml (s : String) : unescape5Str (escapeHtml s) = s := by
  simp [unescape5Str, escapeHtml_toList, Esc.unescape_escape]

theorem unescape_escapeHtml_toList (s : String) : unescape5 (escapeHtml s).toList = s.toList := by
  rw [escapeHtml_toList, Esc.unescape_escape]

/-- none of `< > " '` in the escaped string -/
theorem escapeHtml_safe (s : String) (c : Char) (h : c ∈ (escapeHtml s).toList) :
    c ≠ '<' ∧ c ≠ '>' ∧ c ≠ '"' ∧ c ≠ '\'' := by
  rw [escapeHtml_toList] at h; exact Esc.escape_safe _ _ h

/-- every `&` of the escaped string starts one of the five entities -/
theorem escapeHtml_amp_starts_entity (s : String) (a b : List Char) (h : (escapeHtml s).toList = a ++ '&' :: b) :
    ∃ t ∈ entityTails, t <+: b := by
  rw [escapeHtml_toList] at h; exact Esc.escape_amp_starts_entity _ _ _ h

theorem escapeHtml_injective {a b : String} (h : escapeHtml a = escapeHtml b) : a = b := by
  have := congrArg String.toList h
  rw [escapeHtml_toList, escapeHtml_toList] at this
  exact String.toList_inj.mp (Esc.escape_injective this)

theorem escapeHtml_append (a b : String) : escapeHtml (a ++ b) = escapeHtml a ++ escapeHtml b := by
  rw [← String.toList_inj]
  simp only [escapeHtml_toList, String.toList_append, Esc.escape_append]

@[simp] theorem escapeHtml_empty : escapeHtml "" = "" := rfl

theorem escapeHtml_eq_empty_iff (s : String) : escapeHtml s = "" ↔ s = "" :=
  ⟨fun h => escapeHtml_injective (h.trans escapeHtml_empty.symm), fun h => by rw [h]; rfl⟩

/-! ## 2. the option state after the attribute loop: `text` / `raw` -/

/-- an attribute that leaves the child mode `.unset`: anything but `text`, `raw` and a `remove` with mode
    all / body / all-but-first -/
def leavesUnset (cfg : Cfg) (x : CAttr) : Bool :=
  match classify cfg x with
  | .text | .raw => false
  | .remove => !(isAll x || isBody x || isAbf x)
  | _ => true

/-- an attribute that leaves a child mode `.textLike …` alone: anything but a `remove` with mode all / body -/
def keepsText (cfg : Cfg) (x : CAttr) : Bool :=
  match classify cfg x with
  | .remove => !(isAll x || isBody x)
  | _ => true

theorem removeOpt_unset {x : CAttr} (h : (isAll x || isBody x || isAbf x) = false) (b : Bool) :
    (removeOpt x (b, .unset)).2 = .unset := by
  simp only [Bool.or_eq_false_iff] at h
  obtain ⟨⟨h1, h2⟩, h3⟩ := h
  unfold isAll at h1; unfold isBody at h2; unfold isAbf at h3
  simp only [removeOpt, h1, h2, h3, Bool.false_eq_true, if_false]
  split <;> rfl

theorem removeOpt_textLike {x : CAttr} (h : (isAll x || isBody x) = false) (b : Bool) (a : CAttr) (t : Bool) :
    (removeOpt x (b, .textLike a t)).2 = .textLike a t := by
  simp only [Bool.or_eq_false_iff] at h
  obtain ⟨h1, h2⟩ := h
  unfold isAll at h1; unfold isBody at h2
  simp only [removeOpt, h1, h2, Bool.false_eq_true, if_false]
  split
  · rfl
  · split <;> rfl

theorem optStep_unset {cfg : Cfg} {x : CAttr} (h : leavesUnset cfg x = true) (b : Bool) :
    (optStep cfg x (b, .unset)).2 = .unset := by
  unfold leavesUnset at h
  unfold optStep
  cases hk : classify cfg x <;> simp only [hk] at h ⊢ <;> first | exact Bool.noConfusion h | skip
  exact removeOpt_unset (by simpa using h) b

theorem optStep_textLike {cfg : Cfg} {x : CAttr} (h : keepsText cfg x = true) (b : Bool) (a : CAttr) (t : Bool) :
    (optStep cfg x (b, .textLike a t)).2 = .textLike a t := by
  unfold keepsText at h
  unfold optStep
  cases hk : classify cfg x <;> simp only [hk, textOpt] at h ⊢
  exact removeOpt_textLike (by simpa using h) b a t

theorem optFold_unset (cfg : Cfg) : ∀ (as : List CAttr) (b : Bool), (∀ x ∈ as, leavesUnset cfg x = true) →
    (optFold cfg as (b, .unset)).2 = .unset := by
  intro as
  induction as with
  | nil => intro b _; rfl
  | cons x rest ih =>
    intro b h
    simp only [optFold]
    rw [show optStep cfg x (b, .unset) = ((optStep cfg x (b, .unset)).1, .unset) from
      Prod.ext rfl (optStep_unset (h x (by simp)) b)]
    exact ih _ (fun y hy => h y (by simp [hy]))

theorem optFold_textLike (cfg : Cfg) (a : CAttr) (t : Bool) : ∀ (as : List CAttr) (b : Bool),
    (∀ x ∈ as, keepsText cfg x = true) → (optFold cfg as (b, .textLike a t)).2 = .textLike a t := by
  intro as
  induction as with
  | nil => intro b _; rfl
  | cons x rest ih =>
    intro b h
    simp only [optFold]
    rw [show optStep cfg x (b, .textLike a t) = ((optStep cfg x (b, .textLike a t)).1, .textLike a t) from
      Prod.ext rfl (optStep_textLike (h x (by simp)) b a t)]
    exact ih _ (fun y hy => h y (by simp [hy]))

/-- the first `text` / `raw` attribute that finds the child mode unset decides the content of the element -/
theorem optFold_text (cfg : Cfg) (pre post : List CAttr) (a : CAttr) (t b : Bool)
    (hk : classify cfg a = if t then .text else .raw)
    (hpre : ∀ x ∈ pre, leavesUnset cfg x = true) (hpost : ∀ x ∈ post, keepsText cfg x = true) :
    (optFold cfg (pre ++ a :: post) (b, .unset)).2 = .textLike a t := by
  rw [optFold_append]
  have h1 := optFold_unset cfg pre b hpre
  rw [show optFold cfg pre (b, .unset) = ((optFold cfg pre (b, .unset)).1, .unset) from Prod.ext rfl h1]
  simp only [optFold]
  have h2 : optStep cfg a ((optFold cfg pre (b, .unset)).1, .unset) =
      ((optFold cfg pre (b, .unset)).1, .textLike a t) := by
    cases t <;> simp only [Bool.false_eq_true, if_false, if_true] at hk <;> simp [optStep, hk, textOpt]
  rw [h2]
  exact optFold_textLike cfg a t post _ hpost

theorem removeOpt_textLike_origin {x a : CAttr} {t : Bool} {o : Bool × ChildMode}
    (h : (removeOpt x o).2 = .textLike a t) : o.2 = .textLike a t := by
  unfold removeOpt at h
  simp only [] at h
  split at h
  · cases h
  · split at h
    · cases h
    · split at h
      · exact h
      · split at h
        · split at h
          · cases h
          · exact h
        · exact h

theorem optStep_textLike_origin {cfg : Cfg} {x a : CAttr} {t : Bool} {o : Bool × ChildMode}
    (h : (optStep cfg x o).2 = .textLike a t) :
    o.2 = .textLike a t ∨ (x = a ∧ classify cfg a = if t then .text else .raw) := by
  unfold optStep at h
  cases hk : classify cfg x <;> simp only [hk] at h <;> first | exact Or.inl h | skip
  · exact Or.inl (removeOpt_textLike_origin h)
  · simp only [textOpt] at h
    split at h
    · injection h with h1 h2; subst h1; subst h2; exact Or.inr ⟨rfl, by simp [hk]⟩
    · exact Or.inl h
  · simp only [textOpt] at h
    split at h
    · injection h with h1 h2; subst h1; subst h2; exact Or.inr ⟨rfl, by simp [hk]⟩
    · exact Or.inl h

/-- a child mode `.textLike a t` after the attribute loop was there before, or `a` is a `text` (`t = true`) /
    `raw` (`t = false`) attribute of the element -/
theorem optFold_textLike_origin (cfg : Cfg) {a : CAttr} {t : Bool} : ∀ (as : List CAttr) (o : Bool × ChildMode),
    (optFold cfg as o).2 = .textLike a t →
    o.2 = .textLike a t ∨ (a ∈ as ∧ classify cfg a = if t then .text else .raw) := by
  intro as
  induction as with
  | nil => intro o h; exact Or.inl h
  | cons x rest ih =>
    intro o h
    simp only [optFold] at h
    rcases ih _ h with h1 | ⟨h1, h2⟩
    · rcases optStep_textLike_origin h1 with h3 | ⟨h3, h4⟩
      · exact Or.inl h3
      · exact Or.inr ⟨by simp [h3], h4⟩
    · exact Or.inr ⟨by simp [h1], h2⟩

theorem initOpt_snd (cfg : Cfg) (d : NodeD) : (initOpt cfg d 3).2 = .unset ∨ (initOpt cfg d 3).2 = .nop := by
  rw [initOpt3]; simp only []
  split
  · exact Or.inr rfl
  · split
    · exact Or.inr rfl
    · exact Or.inl rfl

/-- on a rendered element, the content is replaced by an evaluated string only on behalf of a `text` / `raw`
    attribute of that element; the flag says which -/
theorem child_textLike_origin (cfg : Cfg) (d : NodeD) {a : CAttr} {t : Bool}
    (h : (optFold cfg d.attrs (initOpt cfg d 3)).2 = .textLike a t) :
    a ∈ d.attrs ∧ classify cfg a = if t then .text else .raw := by
  rcases optFold_textLike_origin cfg d.attrs _ h with h1 | h1
  · rcases initOpt_snd cfg d with h2 | h2 <;> rw [h2] at h1 <;> cases h1
  · exact h1

/-- no `insert`, `define`, `replace` on the element -/
def noFrag (cfg : Cfg) (d : NodeD) : Bool :=
  !hasKind cfg d.attrs (fun k => k == .insert || k == .define || k == .replace)

theorem noFrag_iff {cfg : Cfg} {d : NodeD} : noFrag cfg d = true ↔
    ∀ a ∈ d.attrs, classify cfg a ≠ .insert ∧ classify cfg a ≠ .define ∧ classify cfg a ≠ .replace := by
  unfold noFrag
  rw [Bool.not_eq_true', hasKind_false_iff]
  constructor
  · intro h a ha
    have := h a ha
    simp only [Bool.or_eq_false_iff, beq_eq_false_iff_ne, ne_eq] at this
    exact ⟨this.1.1, this.1.2, this.2⟩
  · intro h a ha
    obtain ⟨h1, h2, h3⟩ := h a ha
    simp [h1, h2, h3]

theorem initOpt_noFrag {cfg : Cfg} {d : NodeD} (h : noFrag cfg d = true) :
    initOpt cfg d 3 = (trimSlash (lowerS d.tagName) == cfg.tagPrefix ++ "block", .unset) := by
  rw [noFrag_iff] at h
  have h1 : hasKind cfg d.attrs (fun k => k == .define || k == .replace) = false := by
    rw [hasKind_false_iff]; intro a ha; obtain ⟨_, h2, h3⟩ := h a ha; simp [h2, h3]
  have h2 : hasKind cfg d.attrs (· == .insert) = false := by
    rw [hasKind_false_iff]; intro a ha; obtain ⟨h2, _, _⟩ := h a ha; simp [h2]
  rw [initOpt3]; simp [h1, h2]

/-! ## 3. closed forms of the chunks -/

/-- the start tag of an element that is printed: `<name`, what each attribute contributes, `>` -/
def startTag (cfg : Cfg) (env : Env Sc) (d : NodeD) (sc : Sc) : String :=
  "<" ++ d.tagName ++ String.join (d.attrs.map (attrText cfg env d sc)) ++ ">"

theorem startChunk_nofrag (cfg : Cfg) (env : Env Sc) (frag : Node → Sc → R) (d : NodeD) (sc : Sc)
    (h : noFrag cfg d = true) :
    startChunk cfg env frag d sc =
      if (optFold cfg d.attrs (initOpt cfg d 3)).1 then "" else startTag cfg env d sc := by
  rw [noFrag_iff] at h
  have h1 : String.join (d.attrs.map (replTextOf cfg env frag sc)) = "" :=
    join_map_empty _ _ (fun a ha => by simp [replTextOf, (h a ha).2.2])
  have h2 : String.join (d.attrs.map (insTextOf cfg env frag sc)) = "" :=
    join_map_empty _ _ (fun a ha => by simp [insTextOf, (h a ha).1])
  simp only [startChunk, h1, h2, String.empty_append, String.append_empty, startTag]

/-- **dynamic attribute**: what it contributes to the start tag -/
theorem attrText_dyn (cfg : Cfg) (env : Env Sc) (d : NodeD) (sc : Sc) (a : CAttr) (cmd v : String) (lg : List String)
    (hk : classify cfg a = .dyn cmd) (hE : env.evalStr a sc = (.ok v, lg)) :
    attrText cfg env d sc a = " " ++ cmd ++ "=\"" ++ escapeHtml v ++ "\"" := by
  simp only [attrText, hk, hE]

/-- the three shapes of an attribute's contribution to the start tag: nothing; a dynamic attribute with its ESCAPED
    value between double quotes; a static attribute copied from the template source (no evaluated string) -/
theorem attrText_cases (cfg : Cfg) (env : Env Sc) (d : NodeD) (sc : Sc) (a : CAttr) :
    attrText cfg env d sc a = "" ∨
    (∃ cmd v lg, classify cfg a = .dyn cmd ∧ env.evalStr a sc = (.ok v, lg) ∧
      attrText cfg env d sc a = " " ++ cmd ++ "=\"" ++ escapeHtml v ++ "\"") ∨
    (classify cfg a = .plain ∧
      attrText cfg env d sc a = " " ++ a.name ++ (match a.value with | some s => "=" ++ s | none => "")) := by
  cases hk : classify cfg a with
  | dyn cmd =>
    cases hE : env.evalStr a sc with
    | mk e lg =>
      cases e with
      | error c => left; simp only [attrText, hk, hE]
      | ok v => right; left; exact ⟨cmd, v, lg, rfl, rfl, by simp only [attrText, hk, hE]⟩
  | plain =>
    by_cases hov : d.attrs.any (fun b => b.name == cfg.attrPrefix ++ a.name) = true
    · left; simp only [attrText, hk, hov, if_true]
    · right; right; exact ⟨rfl, by simp only [attrText, hk, hov, Bool.false_eq_true, if_false]; cases a.value <;> rfl⟩
  | _ => left; simp only [attrText, hk]

theorem join_map_split {α : Type} (g : α → String) (pre post : List α) (a : α) :
    String.join ((pre ++ a :: post).map g) = String.join (pre.map g) ++ g a ++ String.join (post.map g) := by
  simp only [List.map_append, List.map_cons, String.join_append, String.join_cons, String.append_assoc]

/-- the start tag of an element with the dynamic attribute `a` singled out -/
theorem startTag_split (cfg : Cfg) (env : Env Sc) (d : NodeD) (sc : Sc) (pre post : List CAttr) (a : CAttr)
    (cmd v : String) (lg : List String) (has : d.attrs = pre ++ a :: post)
    (hk : classify cfg a = .dyn cmd) (hE : env.evalStr a sc = (.ok v, lg)) :
    startTag cfg env d sc =
      "<" ++ d.tagName ++ String.join (pre.map (attrText cfg env d sc)) ++
        " " ++ cmd ++ "=\"" ++ escapeHtml v ++ "\"" ++ String.join (post.map (attrText cfg env d sc)) ++ ">" := by
  unfold startTag
  rw [has, join_map_split, attrText_dyn cfg env d sc a cmd v lg hk hE]
  simp only [String.append_assoc]

/-- the first chunk of an element whose rest-phase evaluations succeed is its `startChunk` -/
theorem refBody_out_head (cfg : Cfg) (env : Env Sc) (f depth : Nat) (nc : NC) (node : Node) (sc : Sc)
    (hf : (refBody cfg env f depth nc node sc).st ≠ .fuel) (hA : AttrsOk cfg env f depth nc node sc) :
    ∃ rest, (refBody cfg env f depth nc node sc).out =
      startChunk cfg env (fragOf cfg env f depth nc) node.d sc :: rest := by
  rw [refBody_eq_bodySpec cfg env f depth nc node sc hf hA]
  unfold bodySpec
  have h1 := Q.andThen_out_prefix
    (({ st := .ok, out := [startChunk cfg env (fragOf cfg env f depth nc) node.d sc],
        log := node.d.attrs.flatMap (attrLog cfg env (fragOf cfg env f depth nc) sc), nc := nc } : Q).andThen
      fun nc => childRun env (fun nc ks => refKids cfg env f depth nc ks sc) (fun nc k => refNode cfg env f depth nc k sc)
        node nc (optFold cfg node.d.attrs (initOpt cfg node.d 3)).2 sc)
    (fun nc => Q.okQ (endChunks node.endVal (optFold cfg node.d.attrs (initOpt cfg node.d 3)).1) nc)
  have h2 := Q.andThen_out_prefix
    ({ st := .ok, out := [startChunk cfg env (fragOf cfg env f depth nc) node.d sc],
       log := node.d.attrs.flatMap (attrLog cfg env (fragOf cfg env f depth nc) sc), nc := nc } : Q)
    (fun nc => childRun env (fun nc ks => refKids cfg env f depth nc ks sc) (fun nc k => refNode cfg env f depth nc k sc)
        node nc (optFold cfg node.d.attrs (initOpt cfg node.d 3)).2 sc)
  obtain ⟨r, hr⟩ := h2.trans h1
  exact ⟨r, hr.symm⟩

/-- an element whose content is an evaluated string (`text`: `isText = true`, `raw`: `isText = false`), evaluation
    succeeds: three parts — start chunk, ONE content chunk, end tag; the children of the element do not occur -/
theorem body_textLike (cfg : Cfg) (env : Env Sc) (f depth : Nat) (nc : NC) (node : Node) (sc : Sc)
    (a : CAttr) (isText : Bool) (v : String) (lg : List String)
    (hf : (refBody cfg env f depth nc node sc).st ≠ .fuel) (hA : AttrsOk cfg env f depth nc node sc)
    (ho : (optFold cfg node.d.attrs (initOpt cfg node.d 3)).2 = .textLike a isText)
    (hE : env.evalStr a sc = (.ok v, lg)) :
    refBody cfg env f depth nc node sc =
      { st := .ok,
        out := [startChunk cfg env (fragOf cfg env f depth nc) node.d sc, if isText then escapeHtml v else v] ++
          endChunks node.endVal (optFold cfg node.d.attrs (initOpt cfg node.d 3)).1,
        log := node.d.attrs.flatMap (attrLog cfg env (fragOf cfg env f depth nc) sc) ++ lg, nc := nc } := by
  rw [refBody_eq_bodySpec cfg env f depth nc node sc hf hA]
  unfold bodySpec
  rw [ho]
  simp [childRun, hE, Q.andThen, Q.okQ]

/-- … evaluation fails: the start chunk has been written, the error is the evaluation's -/
theorem body_textLike_error (cfg : Cfg) (env : Env Sc) (f depth : Nat) (nc : NC) (node : Node) (sc : Sc)
    (a : CAttr) (isText : Bool) (c : Cls) (lg : List String)
    (hf : (refBody cfg env f depth nc node sc).st ≠ .fuel) (hA : AttrsOk cfg env f depth nc node sc)
    (ho : (optFold cfg node.d.attrs (initOpt cfg node.d 3)).2 = .textLike a isText)
    (hE : env.evalStr a sc = (.error c, lg)) :
    refBody cfg env f depth nc node sc =
      { st := .err c, out := [startChunk cfg env (fragOf cfg env f depth nc) node.d sc],
        log := node.d.attrs.flatMap (attrLog cfg env (fragOf cfg env f depth nc) sc) ++ lg, nc := nc } := by
  rw [refBody_eq_bodySpec cfg env f depth nc node sc hf hA]
  unfold bodySpec
  rw [ho]
  simp [childRun, hE, Q.andThen]

/-! ## 4. the output of an element as a function of the emitted strings

`elemForm` computes the chunks of an element from the template (`cfg`, `d`, `endVal`), the texts of the fragments, the
rendering of the children and a table `em : CAttr → Option String` of *emitted* strings. It has no access to the
evaluation interface `Env`, hence none to an evaluated string: these enter only through `em`, and `emitted` — the
table the renderer uses — holds `escapeHtml v` for every attribute except `raw` ones. -/

/-- what the renderer emits for the string `v` that attribute `a` evaluates to: `v` itself for a `raw` attribute,
    `escapeHtml v` for every other one; `none` when the evaluation fails -/
def emitted (cfg : Cfg) (env : Env Sc) (sc : Sc) (a : CAttr) : Option String :=
  match (env.evalStr a sc).1 with
  | .ok v => some (if classify cfg a = .raw then v else escapeHtml v)
  | .error _ => none

/-- contribution of one attribute to the start tag, from the table of emitted strings -/
def attrForm (cfg : Cfg) (d : NodeD) (em : CAttr → Option String) (a : CAttr) : String :=
  match classify cfg a with
  | .dyn cmd => (match em a with | some e => " " ++ cmd ++ "=\"" ++ e ++ "\"" | none => "")
  | .plain => if d.attrs.any (fun b => b.name == cfg.attrPrefix ++ a.name) then "" else
      " " ++ a.name ++ (match a.value with | some v => "=" ++ v | none => "")
  | _ => ""

/-- the chunks between start chunk and end tag -/
def childForm (em : CAttr → Option String) (kidsOut : List String) : ChildMode → List String
  | .unset => kidsOut
  | .abf => kidsOut
  | .nop => []
  | .textLike a _ => (em a).toList

/-- all chunks of a successfully rendered element -/
def elemForm (cfg : Cfg) (d : NodeD) (endVal : Option String) (em : CAttr → Option String) (replT insT : String)
    (kidsOut : List String) : List String :=
  (replT ++ (if (optFold cfg d.attrs (initOpt cfg d 3)).1 then ""
             else "<" ++ d.tagName ++ String.join (d.attrs.map (attrForm cfg d em)) ++ ">" ++ insT)) ::
    (childForm em kidsOut (optFold cfg d.attrs (initOpt cfg d 3)).2 ++
      endChunks endVal (optFold cfg d.attrs (initOpt cfg d 3)).1)

theorem attrText_eq_attrForm (cfg : Cfg) (env : Env Sc) (d : NodeD) (sc : Sc) (a : CAttr) :
    attrText cfg env d sc a = attrForm cfg d (emitted cfg env sc) a := by
  unfold attrText attrForm emitted
  cases hk : classify cfg a with
  | dyn cmd =>
    simp only []
    cases hE : env.evalStr a sc with
    | mk e lg =>
      cases e with
      | error c => rfl
      | ok v => simp
  | plain => simp only []; split <;> first | rfl | (cases a.value <;> rfl)
  | _ => rfl

theorem startChunk_eq_form (cfg : Cfg) (env : Env Sc) (frag : Node → Sc → R) (d : NodeD) (sc : Sc) :
    startChunk cfg env frag d sc =
      String.join (d.attrs.map (replTextOf cfg env frag sc)) ++
        (if (optFold cfg d.attrs (initOpt cfg d 3)).1 then ""
         else "<" ++ d.tagName ++ String.join (d.attrs.map (attrForm cfg d (emitted cfg env sc))) ++ ">" ++
           String.join (d.attrs.map (insTextOf cfg env frag sc))) := by
  unfold startChunk
  rw [show d.attrs.map (attrText cfg env d sc) = d.attrs.map (attrForm cfg d (emitted cfg env sc)) from
    List.map_congr_left (fun a _ => attrText_eq_attrForm cfg env d sc a)]

theorem refBody_st_ok_attrs (cfg : Cfg) (env : Env Sc) (f depth : Nat) (nc : NC) (node : Node) (sc : Sc)
    (hok : (refBody cfg env f depth nc node sc).st = .ok) : AttrsOk cfg env f depth nc node sc := by
  have hf : (refBody cfg env f depth nc node sc).st ≠ .fuel := by rw [hok]; simp
  by_cases hA : (attrsRun cfg env (fragOf cfg env f depth nc) node.d nc node.d.attrs (startPS cfg node.d sc)).st = .ok
  · exact hA
  · rw [refBody_attr_fail cfg env f depth nc node sc hf hA] at hok
    exact absurd hok hA

/-- the chunks of a successfully rendered element are `elemForm` of the emitted strings, the fragment texts and the
    rendering of the children -/
theorem refBody_out_elemForm (cfg : Cfg) (env : Env Sc) (f depth : Nat) (nc : NC) (node : Node) (sc : Sc)
    (hok : (refBody cfg env f depth nc node sc).st = .ok) :
    (refBody cfg env f depth nc node sc).out =
      elemForm cfg node.d node.endVal (emitted cfg env sc)
        (String.join (node.d.attrs.map (replTextOf cfg env (fragOf cfg env f depth nc) sc)))
        (String.join (node.d.attrs.map (insTextOf cfg env (fragOf cfg env f depth nc) sc)))
        (refChild cfg env f depth nc node (optFold cfg node.d.attrs (initOpt cfg node.d 3)).2 sc).out := by
  have hf : (refBody cfg env f depth nc node sc).st ≠ .fuel := by rw [hok]; simp
  have hA := refBody_st_ok_attrs cfg env f depth nc node sc hok
  have e := refBody_ok_form cfg env f depth nc node sc hf hA
  rw [e] at hok ⊢
  obtain ⟨h1, _⟩ := Q.andThen_st_ok hok
  obtain ⟨_, h2⟩ := Q.andThen_st_ok h1
  simp only [] at h2
  rw [Q.andThen_ok _ h1, Q.andThen_ok _ rfl]
  simp only [Q.okQ_out, elemForm, startChunk_eq_form, List.cons_append, List.nil_append, List.cons.injEq, true_and,
    List.append_cancel_right_eq]
  -- the child chunks
  cases hm : (optFold cfg node.d.attrs (initOpt cfg node.d 3)).2 with
  | unset => rfl
  | abf => rfl
  | nop =>
    rw [hm] at h2
    have hne : (refChild cfg env f depth nc node .nop sc).st ≠ .fuel := by rw [h2]; simp
    rw [refChild_unf cfg env f depth nc node _ sc hne]; rfl
  | textLike a t =>
    rw [hm] at h2
    have hne : (refChild cfg env f depth nc node (.textLike a t) sc).st ≠ .fuel := by rw [h2]; simp
    rw [refChild_unf cfg env f depth nc node _ sc hne] at h2 ⊢
    obtain ⟨_, hk⟩ := child_textLike_origin cfg node.d hm
    simp only [childRun, childForm, emitted] at h2 ⊢
    cases hE : env.evalStr a sc with
    | mk e lg =>
      cases e with
      | error c => simp [hE] at h2
      | ok v =>
        cases t <;> simp [hk]

/-- provenance of the content chunk: it is `escapeHtml v` unless the attribute is a `raw` one -/
theorem emitted_eq (cfg : Cfg) (env : Env Sc) (sc : Sc) (a : CAttr) (v : String) (lg : List String)
    (hE : env.evalStr a sc = (.ok v, lg)) :
    (classify cfg a ≠ .raw → emitted cfg env sc a = some (escapeHtml v)) ∧
    (classify cfg a = .raw → emitted cfg env sc a = some v) := by
  unfold emitted
  rw [hE]
  constructor
  · intro h; simp [h]
  · intro h; simp [h]

end RN.Tie
