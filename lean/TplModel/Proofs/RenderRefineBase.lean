import TplModel.Proofs.RenderMono2
/-! # Refinement `exec ⊑ ref`: hypotheses (`Uniq`, `OrderOK`, `Sorted`, `ClearOn`, `ModeOK`), attribute-order lemmas,
the "eventually equal" relation `Ev` and the refinement relation `Ref` with its sequencing lemma. -/
set_option linter.unusedSimpArgs false
namespace RN
variable {Sc : Type}

/-! ## hypotheses on trees -/

mutual
/-- ids of a node and of all its descendants -/
def ids : Node → List Nat
  | .mk d kids _ => d.id :: idsL kids
def idsL : List Node → List Nat
  | [] => []
  | k :: ks => ids k ++ idsL ks
end

mutual
/-- no node of the tree has the id of one of its own descendants
    (weaker than, and implied by, pairwise distinct ids: `uniq_of_nodup`) -/
def Uniq : Node → Prop
  | .mk d kids _ => d.id ∉ idsL kids ∧ UniqL kids
def UniqL : List Node → Prop
  | [] => True
  | k :: ks => Uniq k ∧ UniqL ks
end

/-- phase of an attribute in processTagStart: with(0) < if-family(1) < range(2) < everything else(3) -/
def rank (cfg : Cfg) (a : CAttr) : Nat :=
  match classify cfg a with
  | .with_ => 0
  | .cond _ => 1
  | .range => 2
  | _ => 3

/-- `orderFrom cfg r attrs`: ranks are non-decreasing, start at `r` or above, and there is at most one `with` -/
def orderFrom (cfg : Cfg) : Nat → List CAttr → Bool
  | _, [] => true
  | r, a :: rest => decide (r ≤ rank cfg a) && orderFrom cfg (if rank cfg a = 0 then 1 else rank cfg a) rest

/-- The documented order of `SortedAttr`: (at most one) `with`, then the if-family, then `range`, then the rest.
    (Attribute names of a tag are unique — `Tag.AddAttr` rejects duplicates — hence at most one `with`.) -/
def OrderOK (cfg : Cfg) (attrs : List CAttr) : Prop := orderFrom cfg 0 attrs = true

instance (cfg : Cfg) (attrs : List CAttr) : Decidable (OrderOK cfg attrs) := by unfold OrderOK; infer_instance

mutual
/-- every node of the tree has its attributes in the documented order -/
def Sorted (cfg : Cfg) : Node → Prop
  | .mk d kids _ => OrderOK cfg d.attrs ∧ SortedL cfg kids
def SortedL (cfg : Cfg) : List Node → Prop
  | [] => True
  | k :: ks => Sorted cfg k ∧ SortedL cfg ks
end

/-- all templates reachable through `env.tpl` satisfy the tree hypotheses -/
def TplOK (cfg : Cfg) (env : Env Sc) : Prop := ∀ name t, env.tpl name = some t → Uniq t ∧ Sorted cfg t

def ClearOn (fl : Fl) (S : List Nat) : Prop := ∀ j ∈ S, fl j = 0

theorem Uniq.notin {n : Node} (h : Uniq n) : n.d.id ∉ idsL n.kids := by
  cases n; simp only [Uniq] at h; exact h.1
theorem Uniq.kids {n : Node} (h : Uniq n) : UniqL n.kids := by
  cases n; simp only [Uniq] at h; exact h.2
theorem Sorted.order {cfg : Cfg} {n : Node} (h : Sorted cfg n) : OrderOK cfg n.d.attrs := by
  cases n; simp only [Sorted] at h; exact h.1
theorem Sorted.kids {cfg : Cfg} {n : Node} (h : Sorted cfg n) : SortedL cfg n.kids := by
  cases n; simp only [Sorted] at h; exact h.2

theorem ids_eq (n : Node) : ids n = n.d.id :: idsL n.kids := by cases n; simp [ids, Node.d, Node.kids]

theorem uniqL_mem {ks : List Node} (h : UniqL ks) {k : Node} (hk : k ∈ ks) : Uniq k := by
  induction ks with
  | nil => cases hk
  | cons x xs ih =>
    simp only [UniqL] at h
    rcases List.mem_cons.mp hk with rfl | hk
    · exact h.1
    · exact ih h.2 hk
theorem sortedL_mem {cfg : Cfg} {ks : List Node} (h : SortedL cfg ks) {k : Node} (hk : k ∈ ks) : Sorted cfg k := by
  induction ks with
  | nil => cases hk
  | cons x xs ih =>
    simp only [SortedL] at h
    rcases List.mem_cons.mp hk with rfl | hk
    · exact h.1
    · exact ih h.2 hk
theorem ids_sub_idsL {ks : List Node} {k : Node} (hk : k ∈ ks) : ∀ j ∈ ids k, j ∈ idsL ks := by
  induction ks with
  | nil => cases hk
  | cons x xs ih =>
    intro j hj
    simp only [idsL, List.mem_append]
    rcases List.mem_cons.mp hk with rfl | hk
    · exact Or.inl hj
    · exact Or.inr (ih hk j hj)

theorem clearOn_mono {fl : Fl} {A B : List Nat} (h : ClearOn fl B) (hs : ∀ j ∈ A, j ∈ B) : ClearOn fl A :=
  fun j hj => h j (hs j hj)
theorem clearOn_empty (S : List Nat) : ClearOn emptyFl S := fun _ _ => rfl
theorem clearOn_setFl {fl : Fl} {S : List Nat} {i : Nat} (v : Nat) (h : ClearOn fl S) (hi : i ∉ S) :
    ClearOn (setFl fl i v) S := by
  intro j hj
  have hne : j ≠ i := fun e => hi (e ▸ hj)
  simp [setFl, hne, h j hj]

theorem setFl_same (fl : Fl) (i v : Nat) : setFl fl i v i = v := by simp [setFl]
theorem setFl_setFl_self (fl : Fl) (i v w : Nat) (h : fl i = v) : setFl (setFl fl i w) i v = fl := by
  funext j; by_cases hj : j = i <;> simp [setFl, hj, h]

/-- pairwise distinct ids (the usual reading of "unique ids") imply `Uniq` -/
theorem nodup_append_left {α} {a b : List α} (h : (a ++ b).Nodup) : a.Nodup := (List.nodup_append.mp h).1
theorem nodup_append_right {α} {a b : List α} (h : (a ++ b).Nodup) : b.Nodup := (List.nodup_append.mp h).2.1

mutual
theorem uniq_of_nodup : ∀ (n : Node), (ids n).Nodup → Uniq n
  | .mk d kids e, h => by
    simp only [ids, List.nodup_cons] at h
    simp only [Uniq]
    exact ⟨h.1, uniqL_of_nodup kids h.2⟩
theorem uniqL_of_nodup : ∀ (ks : List Node), (idsL ks).Nodup → UniqL ks
  | [], _ => by simp [UniqL]
  | k :: ks, h => by
    simp only [idsL] at h
    simp only [UniqL]
    exact ⟨uniq_of_nodup k (nodup_append_left h), uniqL_of_nodup ks (nodup_append_right h)⟩
end

/-! ## ranks and the attribute finders -/

theorem rank_zero {cfg : Cfg} {a : CAttr} : rank cfg a = 0 ↔ classify cfg a = .with_ := by
  unfold rank; cases classify cfg a <;> simp
theorem rank_one {cfg : Cfg} {a : CAttr} : rank cfg a = 1 ↔ ∃ b, classify cfg a = .cond b := by
  unfold rank; cases classify cfg a <;> simp
theorem rank_two {cfg : Cfg} {a : CAttr} : rank cfg a = 2 ↔ classify cfg a = .range := by
  unfold rank; cases classify cfg a <;> simp
theorem rank_le3 (cfg : Cfg) (a : CAttr) : rank cfg a ≤ 3 := by
  unfold rank; cases classify cfg a <;> simp
theorem isCtl_iff {cfg : Cfg} {a : CAttr} : isCtl cfg a = true ↔ rank cfg a ≤ 2 := by
  unfold rank isCtl; cases classify cfg a <;> simp
theorem isCtl_false_iff {cfg : Cfg} {a : CAttr} : isCtl cfg a = false ↔ rank cfg a = 3 := by
  unfold rank isCtl; cases classify cfg a <;> simp

theorem orderFrom_mono {cfg : Cfg} {r r' : Nat} {l : List CAttr} (hr : r' ≤ r) (h : orderFrom cfg r l = true) :
    orderFrom cfg r' l = true := by
  cases l with
  | nil => rfl
  | cons a rest =>
    simp only [orderFrom, Bool.and_eq_true, decide_eq_true_eq] at h ⊢
    exact ⟨by omega, h.2⟩

theorem orderFrom_ge {cfg : Cfg} : ∀ {r : Nat} {l : List CAttr}, orderFrom cfg r l = true → ∀ a ∈ l, r ≤ rank cfg a := by
  intro r l
  induction l generalizing r with
  | nil => intro _ a ha; cases ha
  | cons x xs ih =>
    intro h a ha
    simp only [orderFrom, Bool.and_eq_true, decide_eq_true_eq] at h
    rcases List.mem_cons.mp ha with rfl | ha
    · exact h.1
    · have := ih h.2 a ha
      split at this <;> omega

theorem orderFrom_tail {cfg : Cfg} {r : Nat} {a : CAttr} {l : List CAttr} (h : orderFrom cfg r (a :: l) = true) :
    orderFrom cfg (max 1 (rank cfg a)) l = true := by
  simp only [orderFrom, Bool.and_eq_true, decide_eq_true_eq] at h
  have h2 := h.2
  by_cases h0 : rank cfg a = 0
  · simpa [h0] using h2
  · simp only [h0, if_false] at h2
    have : max 1 (rank cfg a) = rank cfg a := by omega
    rw [this]; exact h2

theorem withAttr_none_of {cfg : Cfg} {l : List CAttr} (h : ∀ a ∈ l, rank cfg a ≠ 0) : withAttr cfg l = none := by
  unfold withAttr
  rw [List.find?_eq_none]
  intro a ha hc
  exact h a ha (rank_zero.mpr (by simpa using hc))
theorem withAttr_cons {cfg : Cfg} {a : CAttr} {l : List CAttr} (h : classify cfg a = .with_) :
    withAttr cfg (a :: l) = some a := by
  simp [withAttr, h]

theorem condAttr_none_of {cfg : Cfg} {l : List CAttr} (h : ∀ a ∈ l, rank cfg a ≠ 1) : condAttr cfg l = none := by
  unfold condAttr
  rw [List.findSome?_eq_none_iff]
  intro a ha
  have := h a ha
  cases hc : classify cfg a <;> simp_all [rank]
theorem condAttr_cons {cfg : Cfg} {a : CAttr} {b : Bool} {l : List CAttr} (h : classify cfg a = .cond b) :
    condAttr cfg (a :: l) = some (a, b) := by
  simp [condAttr, h]
theorem condAttr_cons_ne {cfg : Cfg} {a : CAttr} {l : List CAttr} (h : rank cfg a ≠ 1) :
    condAttr cfg (a :: l) = condAttr cfg l := by
  unfold condAttr
  cases hc : classify cfg a <;> simp_all [rank]

theorem condAttr_append_of {cfg : Cfg} {pre l : List CAttr} (h : ∀ a ∈ pre, rank cfg a ≠ 1) :
    condAttr cfg (pre ++ l) = condAttr cfg l := by
  have := condAttr_none_of h
  unfold condAttr at this ⊢
  rw [List.findSome?_append, this]; rfl

theorem orderFrom_head_le {cfg : Cfg} {r : Nat} {a : CAttr} {l : List CAttr} (h : orderFrom cfg r (a :: l) = true) :
    ∀ b ∈ l, rank cfg a ≤ rank cfg b := by
  intro b hb
  have := orderFrom_ge (orderFrom_tail h) b hb
  omega

theorem orderFrom_one_of {cfg : Cfg} {l : List CAttr} (h : orderFrom cfg 0 l = true)
    (hh : ∀ a rest, l = a :: rest → rank cfg a ≠ 0) : orderFrom cfg 1 l = true := by
  cases l with
  | nil => rfl
  | cons a rest =>
    have := hh a rest rfl
    simp only [orderFrom, Bool.and_eq_true, decide_eq_true_eq] at h ⊢
    exact ⟨by omega, h.2⟩

theorem no_cond_of {cfg : Cfg} {l : List CAttr} (h : orderFrom cfg 1 l = true)
    (hh : ∀ a rest, l = a :: rest → rank cfg a ≠ 1) : ∀ b ∈ l, 2 ≤ rank cfg b := by
  cases l with
  | nil => intro b hb; cases hb
  | cons a rest =>
    have h1 := hh a rest rfl
    have h2 := orderFrom_ge h a (List.mem_cons_self ..)
    intro b hb
    rcases List.mem_cons.mp hb with rfl | hb
    · omega
    · have := orderFrom_head_le h b hb; omega

theorem rangeAttr_none_of {cfg : Cfg} {l : List CAttr} (h : ∀ a ∈ l, rank cfg a ≠ 2) : rangeAttr cfg l = none := by
  unfold rangeAttr
  rw [List.find?_eq_none]
  intro a ha hc
  exact h a ha (rank_two.mpr (by simpa using hc))
theorem rangeAttr_cons {cfg : Cfg} {a : CAttr} {l : List CAttr} (h : classify cfg a = .range) :
    rangeAttr cfg (a :: l) = some a := by
  simp [rangeAttr, h]
theorem rangeAttr_append_of {cfg : Cfg} {pre l : List CAttr} (h : ∀ a ∈ pre, rank cfg a ≠ 2) :
    rangeAttr cfg (pre ++ l) = rangeAttr cfg l := by
  have := rangeAttr_none_of h
  unfold rangeAttr at this ⊢
  rw [List.find?_append, this]; rfl

theorem hasCond_false_of {cfg : Cfg} {l : List CAttr} (h : ∀ a ∈ l, rank cfg a ≠ 1) : hasCond cfg l = false := by
  unfold hasCond hasKind
  rw [List.any_eq_false]
  intro a ha
  have := h a ha
  cases hc : classify cfg a <;> simp_all [rank, isCondK]
theorem hasCond_true_of {cfg : Cfg} {l : List CAttr} {a : CAttr} (ha : a ∈ l) (h : rank cfg a = 1) : hasCond cfg l = true := by
  unfold hasCond hasKind
  rw [List.any_eq_true]
  obtain ⟨b, hb⟩ := rank_one.mp h
  exact ⟨a, ha, by simp [hb, isCondK]⟩
theorem hasRange_false_of {cfg : Cfg} {l : List CAttr} (h : ∀ a ∈ l, rank cfg a ≠ 2) : hasRange cfg l = false := by
  unfold hasRange hasKind
  rw [List.any_eq_false]
  intro a ha
  have := h a ha
  cases hc : classify cfg a <;> simp_all [rank]
theorem hasRange_true_of {cfg : Cfg} {l : List CAttr} {a : CAttr} (ha : a ∈ l) (h : rank cfg a = 2) : hasRange cfg l = true := by
  unfold hasRange hasKind
  rw [List.any_eq_true]
  exact ⟨a, ha, by simp [rank_two.mp h]⟩
theorem rank_of_hasCond_false {cfg : Cfg} {l : List CAttr} (h : hasCond cfg l = false) : ∀ a ∈ l, rank cfg a ≠ 1 := by
  intro a ha h1
  rw [hasCond_true_of ha h1] at h; cases h
theorem rank_of_hasRange_false {cfg : Cfg} {l : List CAttr} (h : hasRange cfg l = false) : ∀ a ∈ l, rank cfg a ≠ 2 := by
  intro a ha h1
  rw [hasRange_true_of ha h1] at h; cases h

/-! ## initial option state -/

theorem initOpt_eq3 (cfg : Cfg) (d : NodeD) (flags : Nat)
    (hc : hasCond cfg d.attrs = true → flags &&& 1 ≠ 0) (hr : hasRange cfg d.attrs = true → flags &&& 2 ≠ 0) :
    initOpt cfg d flags = initOpt cfg d 3 := by
  unfold initOpt
  cases h1 : hasCond cfg d.attrs <;> cases h2 : hasRange cfg d.attrs <;> simp_all

theorem initOpt_hidden (cfg : Cfg) (d : NodeD) (flags : Nat)
    (h : (hasCond cfg d.attrs = true ∧ flags &&& 1 = 0) ∨ (hasRange cfg d.attrs = true ∧ flags &&& 2 = 0)) :
    initOpt cfg d flags = (true, ChildMode.nop) := by
  unfold initOpt
  rcases h with ⟨h1, h2⟩ | ⟨h1, h2⟩
  · simp only [h1, h2]
    split <;> split <;> simp_all
  · simp only [h1, h2]
    split <;> split <;> simp_all

/-! ## `Ev`: a fuel-indexed specification value is eventually a given result -/

def Ev {α : Type} (spec : Nat → α) (q : α) : Prop := ∃ g, ∀ g', g ≤ g' → spec g' = q

theorem Ev.const {α : Type} (q : α) : Ev (fun _ => q) q := ⟨0, fun _ _ => rfl⟩

theorem Ev.both {α β : Type} {s1 : Nat → α} {s2 : Nat → β} {q1 : α} {q2 : β} (h1 : Ev s1 q1) (h2 : Ev s2 q2) :
    ∃ g, ∀ g', g ≤ g' → s1 g' = q1 ∧ s2 g' = q2 := by
  obtain ⟨g1, h1⟩ := h1
  obtain ⟨g2, h2⟩ := h2
  exact ⟨max g1 g2, fun g' hg => ⟨h1 g' (by omega), h2 g' (by omega)⟩⟩

theorem Ev.succ {α : Type} {s s' : Nat → α} {q : α} (h : Ev s q) (hs : ∀ g, s' (g+1) = s g) : Ev s' q := by
  obtain ⟨g, h⟩ := h
  refine ⟨g+1, fun g' hg => ?_⟩
  obtain ⟨g'', rfl⟩ : ∃ g'', g' = g'' + 1 := ⟨g' - 1, by omega⟩
  rw [hs]; exact h g'' (by omega)

theorem Ev.map {α β : Type} {s : Nat → α} {q : α} (F : α → β) (h : Ev s q) : Ev (fun g => F (s g)) (F q) := by
  obtain ⟨g, h⟩ := h
  exact ⟨g, fun g' hg => by show F (s g') = F q; rw [h g' hg]⟩

theorem Ev.congr {α : Type} {s s' : Nat → α} {q : α} (h : Ev s q) (hs : ∀ g, s' g = s g) : Ev s' q := by
  obtain ⟨g, h⟩ := h
  exact ⟨g, fun g' hg => by show s' g' = q; rw [hs]; exact h g' hg⟩

theorem Ev.ex {α : Type} {s : Nat → α} {q : α} (h : Ev s q) : ∃ g, s g = q := by
  obtain ⟨g, h⟩ := h; exact ⟨g, h g (Nat.le_refl g)⟩

/-! ## `Ref`: a finished faithful run equals the specification (for all large fuels) and keeps the flags -/

def Ref (run : R) (fl : Fl) (spec : Nat → Q) : Prop :=
  run.st ≠ .fuel → Ev spec run.toQ ∧ run.fl = fl

theorem R.andThen_st_left {r : R} {k : NC → Fl → R} (h : (r.andThen k).st ≠ .fuel) : r.st ≠ .fuel := by
  intro h'; apply h; unfold R.andThen; simp [h']

theorem R.andThen_st_right {r : R} {k : NC → Fl → R} (h : (r.andThen k).st ≠ .fuel) (hr : r.st = .ok) :
    (k r.nc r.fl).st ≠ .fuel := by
  intro h'; apply h; unfold R.andThen; simp [hr, h']

theorem Ref.andThen {r : R} {k : NC → Fl → R} {fl : Fl} {sr : Nat → Q} {sk : Nat → NC → Q}
    (hr : Ref r fl sr) (hk : r.st = .ok → Ref (k r.nc fl) fl (fun g => sk g r.nc)) :
    Ref (r.andThen k) fl (fun g => (sr g).andThen (sk g)) := by
  intro hne
  obtain ⟨hev, hfl⟩ := hr (R.andThen_st_left hne)
  cases hs : r.st with
  | fuel => exact absurd hs (R.andThen_st_left hne)
  | err c =>
    have e : r.andThen k = r := by unfold R.andThen; simp [hs]
    rw [e]
    refine ⟨?_, hfl⟩
    obtain ⟨g, hg⟩ := hev
    refine ⟨g, fun g' hg' => ?_⟩
    show (sr g').andThen (sk g') = r.toQ
    rw [hg g' hg']
    unfold Q.andThen R.toQ; simp [hs]
  | ok =>
    have hne2 := R.andThen_st_right hne hs
    rw [hfl] at hne2
    obtain ⟨hev2, hfl2⟩ := hk hs hne2
    have e : r.andThen k = { st := (k r.nc fl).st, out := r.out ++ (k r.nc fl).out, log := r.log ++ (k r.nc fl).log,
                             nc := (k r.nc fl).nc, fl := (k r.nc fl).fl } := by
      unfold R.andThen; simp [hs, hfl]
    rw [e]
    refine ⟨?_, hfl2⟩
    obtain ⟨g, hg⟩ := Ev.both hev hev2
    refine ⟨g, fun g' hg' => ?_⟩
    obtain ⟨e1, e2⟩ := hg g' hg'
    show (sr g').andThen (sk g') = _
    have e2' : sk g' (r.toQ).nc = (k r.nc fl).toQ := e2
    unfold Q.andThen
    rw [e1]
    simp only [R.toQ, hs] at e2' ⊢
    rw [e2']

theorem Ref.okR (out : List String) (nc : NC) (fl : Fl) : Ref (R.okR out nc fl) fl (fun _ => Q.okQ out nc) :=
  fun _ => ⟨Ev.const _, rfl⟩

theorem Ref.congr {run : R} {fl : Fl} {s s' : Nat → Q} (h : Ref run fl s) (hs : ∀ g, s' g = s g) : Ref run fl s' :=
  fun hne => ⟨(h hne).1.congr hs, (h hne).2⟩

theorem Ref.succ {run : R} {fl : Fl} {s s' : Nat → Q} (h : Ref run fl s) (hs : ∀ g, s' (g+1) = s g) : Ref run fl s' :=
  fun hne => ⟨(h hne).1.succ hs, (h hne).2⟩

theorem R.buffered_st (r : R) : r.buffered.st = r.st := by
  unfold R.buffered; cases h : r.st <;> simp [h]
theorem R.buffered_fl (r : R) : r.buffered.fl = r.fl := by
  unfold R.buffered; cases h : r.st <;> simp [h]
theorem R.buffered_nc (r : R) : r.buffered.nc = r.nc := by
  unfold R.buffered; cases h : r.st <;> simp [h]
theorem R.buffered_toQ (r : R) : r.buffered.toQ = r.toQ.buffered := by
  unfold R.buffered Q.buffered R.toQ; cases h : r.st <;> simp [h]

theorem String.join_single (s : String) : String.join [s] = s := by simp [String.join]

/-! ## `OrderOK` in list terms (for connecting with the sortedness property of `SortedAttr`) -/

theorem orderFrom_iff (cfg : Cfg) : ∀ (l : List CAttr) (r : Nat), orderFrom cfg r l = true ↔
    (∀ a ∈ l, r ≤ rank cfg a) ∧ (l.map (rank cfg)).Pairwise (· ≤ ·) ∧ (l.filter (fun a => rank cfg a == 0)).length ≤ 1 := by
  intro l
  induction l with
  | nil => intro r; simp [orderFrom]
  | cons a rest ih =>
    intro r
    simp only [orderFrom, Bool.and_eq_true, decide_eq_true_eq, ih, List.map_cons, List.pairwise_cons,
      List.mem_map, forall_exists_index, and_imp, forall_apply_eq_imp_iff₂, List.mem_cons, forall_eq_or_imp]
    have hcount : ∀ (l : List CAttr), (∀ b ∈ l, 1 ≤ rank cfg b) → (l.filter (fun a => rank cfg a == 0)).length = 0 := by
      intro l hl
      rw [List.length_eq_zero_iff, List.filter_eq_nil_iff]
      intro b hb; have := hl b hb; simp; omega
    constructor
    · rintro ⟨hra, hge, hpw, hcnt⟩
      refine ⟨⟨hra, fun b hb => ?_⟩, ⟨fun b hb => ?_, hpw⟩, ?_⟩
      · have := hge b hb; split at this <;> omega
      · have := hge b hb; split at this <;> omega
      · have h0 := hcount rest (fun b hb => by have := hge b hb; split at this <;> omega)
        rw [List.filter_cons]; split <;> simp [h0]
    · rintro ⟨⟨hra, hge⟩, ⟨hle, hpw⟩, hcnt⟩
      refine ⟨hra, fun b hb => ?_, hpw, ?_⟩
      · by_cases h0 : rank cfg a = 0
        · simp only [h0, if_true]
          rw [List.filter_cons] at hcnt
          simp only [h0, beq_self_eq_true, if_true, List.length_cons] at hcnt
          have hz : (rest.filter (fun a => rank cfg a == 0)).length = 0 := by omega
          rw [List.length_eq_zero_iff, List.filter_eq_nil_iff] at hz
          have := hz b hb
          simp at this; omega
        · simp only [h0, if_false]; exact hle b hb
      · rw [List.filter_cons] at hcnt
        split at hcnt
        · simp only [List.length_cons] at hcnt; omega
        · exact hcnt

/-- `OrderOK` in words: ranks non-decreasing (with < if-family < range < rest) and at most one `with` -/
theorem orderOK_iff (cfg : Cfg) (l : List CAttr) : OrderOK cfg l ↔
    (l.map (rank cfg)).Pairwise (· ≤ ·) ∧ (l.filter (fun a => rank cfg a == 0)).length ≤ 1 := by
  unfold OrderOK
  rw [orderFrom_iff]
  simp

end RN
