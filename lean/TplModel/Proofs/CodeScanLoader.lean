import TplModel.Proofs.CodeScanAbs
import TplModel.Proofs.LoaderSafety
import TplModel.Proofs.LoadOrder
import TplModel.Proofs.ScanRoundTrip
/-! # The loader does not depend on source positions (consequences of `CS.scan_abs` / `CS.succ_pos_indep`)

* `compileParts_forget`, `codeScanFailed_pos_indep`, `compileAttrS_congr`, `compileAttrsS_congr`: compiling an attribute
  (list) gives literally the same result for attributes that differ in positions only;
* with the index-shift lemmas of `Proofs/LoadOrder.lean`: `compileAttrS_canon` — the result on any table is the result
  on the empty table, shifted; hence success is independent of positions, table and node ids (`compileToks_okB_congr`);
* `loaded_attr_generic`: every property of compiled attributes that `compileAttrS` establishes and that is monotone in
  the expression table holds for every attribute of every node of every template of a loaded manager.  Core-only. -/
namespace EN
open RN (CAttr Part NodeD Node)

/-! ## 1. one attribute -/

/-- `compileParts` looks at kinds and values only -/
theorem compileParts_forget : ∀ (toks toks' : List CS.CTok) (tbl : Tbl),
    toks.map CS.forget = toks'.map CS.forget → compileParts toks tbl = compileParts toks' tbl
  | [], [], _, _ => rfl
  | [], _ :: _, _, h => by simp at h
  | _ :: _, [], _, h => by simp at h
  | t :: ts, t' :: ts', tbl, h => by
    simp only [List.map_cons, List.cons.injEq] at h
    obtain ⟨ht, hr⟩ := h
    have hk : t.kind = t'.kind := congrArg CS.ATok.kind ht
    have hv : t.value = t'.value := congrArg CS.ATok.value ht
    rw [compileParts, compileParts, hk, hv, compileParts_forget ts ts' tbl hr]
    cases t'.kind <;> simp only
    cases EL.parseCode (String.ofList t'.value) <;> simp only
    rw [compileParts_forget ts ts' _ hr]

/-- the loader's failure test on the output of the code scanner does not depend on the start position (any position) -/
theorem codeScanFailed_pos_indep (p q : HS.Pos) (v : List Char) :
    codeScanFailed (CS.scan p v) = codeScanFailed (CS.scan q v) := by
  have h1 := codeScanFailed_scan p v
  have h2 := codeScanFailed_scan q v
  have h3 := CS.succ_pos_indep p q v
  cases hp : codeScanFailed (CS.scan p v) <;> cases hq : codeScanFailed (CS.scan q v) <;> try rfl
  · rw [hp] at h1; rw [hq] at h2
    exact absurd (h2.2 (h3.1 (h1.1 rfl))) (by simp)
  · rw [hp] at h1; rw [hq] at h2
    exact absurd (h1.2 (h3.2 (h2.1 rfl))) (by simp)

theorem attrValueOf_congr (cfg : Cfg) (a a' : HS.Attr) (hn : a.name = a'.name) (hv : a.value = a'.value) :
    attrValueOf cfg a = attrValueOf cfg a' := by
  unfold attrValueOf; rw [hn, hv]

/-- **compileAttrS_congr.** Two attributes with the same name and value — whatever their positions — compile to
    literally the same result on the same table. -/
theorem compileAttrS_congr (cfg : Cfg) (a a' : HS.Attr) (hn : a.name = a'.name) (hv : a.value = a'.value) (tbl : Tbl) :
    compileAttrS cfg a tbl = compileAttrS cfg a' tbl := by
  unfold compileAttrS
  simp only [attrValueOf_congr cfg a a' hn hv, hn]
  cases attrValueOf cfg a' with
  | none => rfl
  | some v =>
    simp only [codeScanFailed_pos_indep a.valueStart a'.valueStart v,
      compileParts_forget _ _ tbl (CS.scan_abs a.valueStart a'.valueStart v)]

theorem compileAttrsS_congr (cfg : Cfg) : ∀ (as as' : List HS.Attr) (tbl : Tbl),
    as.map HS.RT.forgetAttr = as'.map HS.RT.forgetAttr → compileAttrsS cfg as tbl = compileAttrsS cfg as' tbl
  | [], [], _, _ => rfl
  | [], _ :: _, _, h => by simp at h
  | _ :: _, [], _, h => by simp at h
  | a :: as, a' :: as', tbl, h => by
    simp only [List.map_cons, List.cons.injEq] at h
    obtain ⟨ha, hr⟩ := h
    have hn : a.name = a'.name := congrArg HS.RT.AAttr.name ha
    have hv : a.value = a'.value := congrArg HS.RT.AAttr.value ha
    rw [compileAttrsS, compileAttrsS, compileAttrS_congr cfg a a' hn hv]
    congr 1
    funext c t
    rw [compileAttrsS_congr cfg as as' t hr]

/-! ## 2. any table: the result is the result on the empty table, shifted -/

theorem tbl_append_empty (T : Tbl) : T ++ (#[] : Tbl) = T := by simp

/-- **compileAttrS_canon.** On any table `T` the result is the result on the empty table with every block index shifted
    by `T.size`; the table grows by the same expressions. -/
theorem compileAttrS_canon (cfg : Cfg) (a : HS.Attr) (T : Tbl) :
    compileAttrS cfg a T = shiftRes (mapAttr (T.size + ·)) T (compileAttrS cfg a #[]) := by
  have := compileAttrS_shift cfg a T #[]
  rwa [tbl_append_empty] at this

theorem compileAttrsS_canon (cfg : Cfg) (as : List HS.Attr) (T : Tbl) :
    compileAttrsS cfg as T = shiftRes (List.map (mapAttr (T.size + ·))) T (compileAttrsS cfg as #[]) := by
  have := compileAttrsS_shift cfg T as #[]
  rwa [tbl_append_empty] at this

def LoadRes.okB {α : Type} : LoadRes α → Bool
  | .ok _ => true
  | _ => false

theorem okB_map {α β : Type} (f : α → β) (r : LoadRes α) : (r.map f).okB = r.okB := by cases r <;> rfl

theorem okB_iff {α : Type} {r : LoadRes α} : r.okB = true ↔ ∃ x, r = .ok x := by
  cases r <;> simp [LoadRes.okB]

/-- success of compiling an attribute list depends on names and values only -/
theorem compileAttrsS_okB_congr (cfg : Cfg) (as as' : List HS.Attr) (T T' : Tbl)
    (h : as.map HS.RT.forgetAttr = as'.map HS.RT.forgetAttr) :
    (compileAttrsS cfg as T).1.okB = (compileAttrsS cfg as' T').1.okB := by
  rw [compileAttrsS_canon cfg as T, compileAttrsS_canon cfg as' T', compileAttrsS_congr cfg as as' _ h]
  simp only [shiftRes, okB_map]

/-- success of compiling a token depends on its kind and on the names and values of its attributes only -/
theorem compileTok_okB_congr (cfg : Cfg) (id id' : Nat) (t t' : HS.Token) (T T' : Tbl)
    (hk : t.kind = t'.kind) (ht : t.tag.map HS.RT.forgetTag = t'.tag.map HS.RT.forgetTag) :
    (compileTok cfg id t T).1.okB = (compileTok cfg id' t' T').1.okB := by
  unfold compileTok
  rw [← hk]
  cases hkk : t.kind
  case tag =>
    cases htg : t.tag with
    | none =>
      rw [htg] at ht
      cases htg' : t'.tag with
      | none => rfl
      | some tg' => rw [htg'] at ht; cases ht
    | some tg =>
      rw [htg] at ht
      cases htg' : t'.tag with
      | none => rw [htg'] at ht; cases ht
      | some tg' =>
        rw [htg'] at ht
        simp only [Option.map_some, Option.some.injEq, HS.RT.forgetTag, Prod.mk.injEq] at ht
        simp only [mapRes, okB_map]
        exact compileAttrsS_okB_congr cfg tg.attrs tg'.attrs T T' ht.2
  all_goals rfl

/-- the position-free view of a token that decides whether it compiles -/
def tokKT (t : HS.Token) : HS.Kind × Option (List Char × List HS.RT.AAttr) := (t.kind, t.tag.map HS.RT.forgetTag)

theorem bindRes_okB {α β : Type} (r : LoadRes α × Tbl) (k : α → Tbl → LoadRes β × Tbl) :
    (bindRes r k).1.okB = match r.1 with | .ok a => (k a r.2).1.okB | _ => false := by
  obtain ⟨r1, r2⟩ := r
  cases r1 <;> rfl

/-- **compileToks_okB_congr.** Whether a token list compiles does not depend on positions, token texts, node ids or
    the expression table it is compiled into. -/
theorem compileToks_okB_congr (cfg : Cfg) : ∀ (ts ts' : List HS.Token) (id id' : Nat) (T T' : Tbl),
    ts.map tokKT = ts'.map tokKT → (compileToks cfg id ts T).1.okB = (compileToks cfg id' ts' T').1.okB
  | [], [], _, _, _, _, _ => rfl
  | [], _ :: _, _, _, _, _, h => by simp at h
  | _ :: _, [], _, _, _, _, h => by simp at h
  | t :: ts, t' :: ts', id, id', T, T', h => by
    simp only [List.map_cons, List.cons.injEq] at h
    obtain ⟨ht, hr⟩ := h
    simp only [tokKT, Prod.mk.injEq] at ht
    have h1 := compileTok_okB_congr cfg id id' t t' T T' ht.1 ht.2
    rw [compileToks, compileToks, bindRes_okB, bindRes_okB]
    cases hc : (compileTok cfg id t T).1 <;> cases hc' : (compileTok cfg id' t' T').1 <;>
      rw [hc, hc'] at h1 <;> try (cases h1; done)
    all_goals try rfl
    simp only [mapRes, okB_map]
    exact compileToks_okB_congr cfg ts ts' _ _ _ _ hr

/-! ## 3. a generic invariant of loaded managers

`LoaderSafety.loadFiles_regInv` for an arbitrary property `P T ca` of a compiled attribute relative to an expression
table: if `compileAttrS` establishes `P` (w.r.t. the table it returns) and `P` survives appending to the table, then
`P m.cx.exprs ca` holds for every attribute of every node of every template of every loaded manager. -/
section Generic
variable (cfg : Cfg) (P : Tbl → CAttr → Prop)
  (hmono : ∀ (T : Tbl) (l : List EL.E) (ca : CAttr), P T ca → P (T ++ l) ca)
  (hcomp : ∀ (a : HS.Attr) (tbl tbl' : Tbl) (ca : CAttr), compileAttrS cfg a tbl = (.ok ca, tbl') → P tbl' ca)
include hmono hcomp

theorem compileAttrsS_gen : ∀ (as : List HS.Attr) (tbl tbl' : Tbl) (cs : List CAttr),
    compileAttrsS cfg as tbl = (.ok cs, tbl') → ∀ c ∈ cs, P tbl' c
  | [], tbl, tbl', cs, h => by
    simp only [compileAttrsS, Prod.mk.injEq, LoadRes.ok.injEq] at h
    rw [← h.1]; intro c hc; cases hc
  | a :: as, tbl, tbl', cs, h => by
    simp only [compileAttrsS] at h
    obtain ⟨c, t1, h1, h2⟩ := bindRes_ok h
    obtain ⟨cs0, h3, h4⟩ := mapRes_ok h2
    obtain ⟨⟨e2, he2⟩, _⟩ := compileAttrsS_inv cfg as t1 tbl' cs0 h3
    intro c' hc'
    rw [h4] at hc'
    rcases List.mem_cons.mp hc' with rfl | hc'
    · rw [he2]; exact hmono _ _ _ (hcomp a tbl t1 _ h1)
    · exact compileAttrsS_gen as t1 tbl' cs0 h3 c' hc'

theorem compileTok_gen (id : Nat) (t : HS.Token) (tbl tbl' : Tbl) (it : Item)
    (h : compileTok cfg id t tbl = (.ok it, tbl')) : ∀ c ∈ it.d.attrs, P tbl' c := by
  unfold compileTok at h
  split at h
  · obtain ⟨cs, h1, h2⟩ := mapRes_ok h
    rw [h2]
    intro c hc
    exact compileAttrsS_gen cfg P hmono hcomp _ _ _ _ h1 c ((sortedAttrs_perm cfg cs).mem_iff.mp hc)
  · cases h
  · cases h
    intro c hc; cases hc

theorem compileToks_gen : ∀ (toks : List HS.Token) (id : Nat) (tbl tbl' : Tbl) (items : List Item),
    compileToks cfg id toks tbl = (.ok items, tbl') → ∀ it ∈ items, ∀ c ∈ it.d.attrs, P tbl' c
  | [], id, tbl, tbl', items, h => by
    simp only [compileToks, Prod.mk.injEq, LoadRes.ok.injEq] at h
    rw [← h.1]; intro it hit; cases hit
  | t :: ts, id, tbl, tbl', items, h => by
    simp only [compileToks] at h
    obtain ⟨it, t1, h1, h2⟩ := bindRes_ok h
    obtain ⟨is0, h3, h4⟩ := mapRes_ok h2
    obtain ⟨⟨e2, he2⟩, _⟩ := compileToks_inv cfg ts (id + 1) t1 tbl' is0 h3
    intro it' hit'
    rw [h4] at hit'
    rcases List.mem_cons.mp hit' with rfl | hit'
    · intro c hc; rw [he2]; exact hmono _ _ _ (compileTok_gen cfg P hmono hcomp id t tbl t1 _ h1 c hc)
    · exact compileToks_gen ts (id + 1) t1 tbl' is0 h3 it' hit'

theorem buildTreeS_gen {fileIdx : Nat} {toks : List HS.Token} {tbl tbl' : Tbl} {root : Node}
    (h : buildTreeS cfg fileIdx toks tbl = (.ok root, tbl')) :
    AllD (fun d => ∀ c ∈ d.attrs, P tbl' c) (flatD root) := by
  obtain ⟨items, h1, h2⟩ := mapRes_ok h
  have hi := compileToks_gen cfg P hmono hcomp toks _ _ _ _ h1
  rw [h2, assemble_flat]
  intro d hd
  rcases List.mem_cons.mp hd with hd | hd
  · cases hd; intro c hc; cases hc
  · obtain ⟨it, hit, hrel⟩ := (emits_aligned items ⟨[], []⟩).mem_right hd
    have hd' : d = it.d := by
      rcases hrel with e | ⟨_, e⟩
      · exact Sum.inl.inj e
      · cases e
    rw [hd']; exact hi it hit

theorem addFile_gen (fns : List (String × EV.FnSpec)) (idx : Nat) (name src : String) (m m' : Mgr)
    (hinv : ∀ p ∈ m.templates, AllD (fun d => ∀ c ∈ d.attrs, P m.cx.exprs c) (flatD p.2))
    (h : addFile cfg fns idx name src m = .ok m') :
    ∀ p ∈ m'.templates, AllD (fun d => ∀ c ∈ d.attrs, P m'.cx.exprs c) (flatD p.2) := by
  obtain ⟨toks, root0, tbl', hscan, hb, hadd, hcx⟩ := addFile_ok' h
  obtain ⟨⟨es, hes⟩, _⟩ := buildTreeS_inv hb
  have hall := buildTreeS_gen cfg P hmono hcomp hb
  have hann : AllD (fun d => ∀ c ∈ d.attrs, P tbl' c) (flatD (annotate root0)) :=
    (annotate_allD _ (fun _ => Iff.rfl) root0).mpr hall
  have hkind : (annotate root0).d.kind = .root := by
    rw [annotate_d]; obtain ⟨items, _, _, rfl⟩ := buildTreeS_ok hb; rfl
  intro p hp
  rw [hcx]
  simp only
  rcases addDefined_root_sub cfg _ _ hkind _ _ hadd p hp with hp | ⟨ks, hks, hsub⟩
  · rcases List.mem_append.mp hp with hp | hp
    · rw [hes]; intro d hd c hc; exact hmono _ _ _ (hinv p hp d hd c hc)
    · simp only [List.mem_singleton] at hp; subst hp; exact hann
  · rw [hks, allD_node]
    refine ⟨fun c hc => (by cases hc), AllD.sublist ?_ hsub⟩
    cases hr : annotate root0 with
    | mk d kids e =>
      rw [hr, allD_node] at hann
      exact hann.2

theorem loadFrom_gen (fns : List (String × EV.FnSpec)) : ∀ (files : List (String × String)) (i : Nat) (m m' : Mgr),
    (∀ p ∈ m.templates, AllD (fun d => ∀ c ∈ d.attrs, P m.cx.exprs c) (flatD p.2)) →
    loadFrom cfg fns i files m = .ok m' →
    ∀ p ∈ m'.templates, AllD (fun d => ∀ c ∈ d.attrs, P m'.cx.exprs c) (flatD p.2)
  | [], i, m, m', hinv, h => by
    simp only [loadFrom, LoadRes.ok.injEq] at h; subst h; exact hinv
  | f :: rest, i, m, m', hinv, h => by
    rw [loadFrom] at h
    cases ha : addFile cfg fns (i + 1) f.1 f.2 m with
    | ok m1 =>
      simp only [ha] at h
      exact loadFrom_gen fns rest (i + 1) m1 m' (addFile_gen cfg P hmono hcomp fns _ _ _ m m1 hinv ha) h
    | err => simp [ha] at h
    | panic => simp [ha] at h
    | unsupported => simp [ha] at h

/-- **loaded_attr_generic.** -/
theorem loaded_attr_generic (fns : List (String × EV.FnSpec)) (files : List (String × String)) (m : Mgr)
    (h : loadFiles cfg fns files = .ok m) :
    ∀ p ∈ m.templates, ∀ d, Sum.inl d ∈ flatD p.2 → ∀ ca ∈ d.attrs, P m.cx.exprs ca :=
  loadFrom_gen cfg P hmono hcomp fns files 0 (emptyMgr cfg fns) m (by intro p hp; cases hp) h

end Generic

/-! ## 4. the instance: a stored directive attribute carries exactly the compiled parts of its stored value -/

/-- `Aligned (PartOK T)` looks at kinds and values only -/
theorem aligned_partOK_forget {T : Tbl} : ∀ {toks toks' : List CS.CTok} {ps : List Part},
    toks.map CS.forget = toks'.map CS.forget → Aligned (PartOK T) toks ps → Aligned (PartOK T) toks' ps
  | [], [], _, _, h => h
  | [], _ :: _, _, hf, _ => by simp at hf
  | _ :: _, [], _, hf, _ => by simp at hf
  | t :: ts, t' :: ts', _, hf, h => by
    simp only [List.map_cons, List.cons.injEq] at hf
    obtain ⟨ht, hr⟩ := hf
    have hk : t.kind = t'.kind := congrArg CS.ATok.kind ht
    have hv : t.value = t'.value := congrArg CS.ATok.value ht
    cases h with
    | cons h1 h2 =>
      refine .cons ?_ (aligned_partOK_forget hr h2)
      unfold PartOK at h1 ⊢
      rw [← hk, ← hv]; exact h1

/-- what the loader stores for an attribute, position-free: a plain attribute (no directive prefix, or no value) has no
    parts; a directive attribute with value `s` has — for EVERY start position — an accepted scan of `s` whose tokens
    are aligned with the parts (`PartOK`) -/
def AttrInvS (cfg : Cfg) (T : Tbl) (ca : CAttr) : Prop :=
  ((ca.name.startsWith cfg.attrPrefix = false ∨ ca.value = none) → ca.parts = []) ∧
  (ca.name.startsWith cfg.attrPrefix = true → ∀ s, ca.value = some s →
    ∀ start, CS.Succ (CS.scan start s.toList) ∧ Aligned (PartOK T) (CS.scan start s.toList) ca.parts)

theorem AttrInvS.mono {cfg : Cfg} (T : Tbl) (l : List EL.E) (ca : CAttr) (h : AttrInvS cfg T ca) :
    AttrInvS cfg (T ++ l) ca :=
  ⟨h.1, fun hd s hs start => ⟨(h.2 hd s hs start).1, (h.2 hd s hs start).2.imp' fun _ _ => PartOK.mono l⟩⟩

theorem compileAttrS_invS (cfg : Cfg) (a : HS.Attr) (tbl tbl' : Tbl) (ca : CAttr)
    (h : compileAttrS cfg a tbl = (.ok ca, tbl')) : AttrInvS cfg tbl' ca := by
  by_cases hdir : (String.ofList a.name).startsWith cfg.attrPrefix = true
  · cases hv : attrValueOf cfg a with
    | none =>
      rw [compileAttrS_plain cfg a tbl (Or.inr hv)] at h
      cases h
      exact ⟨fun _ => rfl, fun _ s hs => by simp [hv] at hs⟩
    | some v =>
      obtain ⟨hs, es, hal, h1, h2⟩ := (compileAttrS_dir_ok_iff cfg a v tbl tbl' ca hdir hv).1 h
      subst h2
      refine ⟨fun hp => ?_, fun _ s hs' start => ?_⟩
      · rcases hp with hp | hp
        · simp only at hp; rw [hdir] at hp; cases hp
        · cases hp
      · simp only [Option.some.injEq] at hs'
        subst hs'
        rw [String.toList_ofList]
        refine ⟨(CS.succ_pos_indep _ _ _).1 hs, aligned_partOK_forget (CS.scan_abs a.valueStart start v) ?_⟩
        rw [h1]; exact partsFrom_aligned _ _ _ hal
  · have hdir' : (String.ofList a.name).startsWith cfg.attrPrefix = false := by simpa using hdir
    rw [compileAttrS_plain cfg a tbl (Or.inl hdir')] at h
    cases h
    exact ⟨fun _ => rfl, fun hd => by simp only at hd; rw [hdir'] at hd; cases hd⟩

/-- **loaded_attr_invS.** every attribute of every node of every template of a loaded manager satisfies `AttrInvS` -/
theorem loaded_attr_invS (cfg : Cfg) (fns : List (String × EV.FnSpec)) (files : List (String × String)) (m : Mgr)
    (h : loadFiles cfg fns files = .ok m) :
    ∀ p ∈ m.templates, ∀ d, Sum.inl d ∈ flatD p.2 → ∀ ca ∈ d.attrs, AttrInvS cfg m.cx.exprs ca :=
  loaded_attr_generic cfg (AttrInvS cfg) AttrInvS.mono (compileAttrS_invS cfg) fns files m h

end EN
