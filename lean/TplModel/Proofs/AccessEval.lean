import TplModel.Proofs.AccessProofs
import TplModel.Proofs.EvalProofs
/-! # Access (C13) as statements about `EV.eval` itself — helper lemmas

`AccessProofs.lean` defines the pure functions `indexName` and `sliceOf` and proves them against the specification
`Spec/Walk.lean`.  Here they are tied to the code `eval` actually runs:

* `indexOp_eq_indexName`   — `indexOp` (the `.index` case after both operands) IS `indexName` followed by `getValue`;
* `sliceOf_eq_asSlice`, `asSlice_eq_sliceable` — `sliceOf` is written over the same `asSlice` that `sliceStep` calls;
* `sliceStep_pure`         — `sliceStep` on already-evaluated bounds IS `(sliceOf …).toM`, as an equation in `M Val`;
* `sliceStep_run`, `sliceStep_notSliceable`, `sliceStep_lo_bad/hi_bad/cap_bad` — the run equations of `sliceStep`
  for bounds evaluated by arbitrary state-changing actions;
* `BoundTo` / `OptTo`      — "this optional bound evaluates to this integer / this value, from state to state";
* `lookRes`, `indexOp` never panic.

Headline theorems: `TplModel/Props/C13eval.lean`. -/
namespace EV
open EL (E)

/-! ## run facts of the primitive results -/

theorem lookRes_ne_error (l : Look) (s : St) : lookRes l s ≠ .error () := by
  cases l <;> simp [lookRes, pure_apply, setErr_apply]

theorem lookRes_found (v : Val) (s : St) : lookRes (.found v) s = .ok (v, s) := rfl

theorem lookRes_absent {s : St} (h : s.err = none) :
    lookRes .absent s = .ok (.nil, { s with err := some ⟨false, true⟩ }) := setErr_of_ok h

theorem lookRes_failed {s : St} (h : s.err = none) :
    lookRes .failed s = .ok (.nil, { s with err := some ⟨false, false⟩ }) := setErr_of_ok h

/-- `lookRes` returns into the state it started from (no error recorded) only for `found` -/
theorem lookRes_ok_same_iff (l : Look) {s : St} (h : s.err = none) (v : Val) :
    lookRes l s = .ok (v, s) ↔ l = .found v := by
  cases l with
  | found w =>
    rw [lookRes_found]
    constructor
    · intro hh; cases hh; rfl
    · intro hh; cases hh; rfl
  | absent =>
    rw [lookRes_absent h]
    constructor
    · intro hh
      have : (some (⟨false, true⟩ : Err)) = s.err := by
        have := congrArg (fun r => match r with | .ok (_, t) => t.err | .error _ => none) hh
        simpa using this
      rw [h] at this; cases this
    · intro hh; cases hh
  | failed =>
    rw [lookRes_failed h]
    constructor
    · intro hh
      have : (some (⟨false, false⟩ : Err)) = s.err := by
        have := congrArg (fun r => match r with | .ok (_, t) => t.err | .error _ => none) hh
        simpa using this
      rw [h] at this; cases this
    · intro hh; cases hh

/-! ## `.index`: `indexName` is what `indexOp` computes -/

/-- the `.index` case of `eval` after both operands: the member name is `indexName iv`, looked up by `getValue` -/
theorem indexOp_eq_indexName (pv iv : Val) :
    indexOp pv iv = match indexName iv with
      | none => setErr
      | some n => lookRes (getValue n pv) := rfl

theorem indexOp_some {pv iv : Val} {n : String} (h : indexName iv = some n) :
    indexOp pv iv = lookRes (getValue n pv) := by
  rw [indexOp_eq_indexName, h]

theorem indexOp_none {pv iv : Val} (h : indexName iv = none) : indexOp pv iv = setErr := by
  rw [indexOp_eq_indexName, h]

theorem indexOp_ne_error (pv iv : Val) (s : St) : indexOp pv iv s ≠ .error () := by
  rw [indexOp_eq_indexName]
  cases indexName iv with
  | none => simp [setErr_apply]
  | some n => exact lookRes_ne_error _ s

/-- exactly the integers (any kind) and the strings name a member -/
theorem indexName_eq_none_iff (iv : Val) : indexName iv = none ↔ isInt iv = none ∧ ∀ s, iv ≠ .str s := by
  unfold indexName
  cases hi : isInt iv with
  | some i => simp
  | none => cases iv <;> simp

/-! ## `.slice`: `sliceOf` is what `sliceStep` computes -/

theorem asSlice_eq_sliceable (v : Val) : asSlice v = Walk.sliceable v := by
  cases v <;> rfl

/-- `sliceOf` (AccessProofs) written over the very `asSlice` that `sliceStep` calls -/
theorem sliceOf_eq_asSlice (pv : Val) (lo hi cap : Option Int) :
    sliceOf pv lo hi cap =
      match asSlice pv with
      | some (sty, xs, c) =>
        match cap with
        | none =>
          if 0 ≤ lo.getD 0 ∧ lo.getD 0 ≤ hi.getD xs.length ∧ hi.getD xs.length ≤ c then
            if (hi.getD xs.length).toNat ≤ xs.length then
              .ok (.slice sty ((xs.drop (lo.getD 0).toNat).take ((hi.getD xs.length).toNat - (lo.getD 0).toNat))
                (c - (lo.getD 0).toNat))
            else .unsupported
          else .panic
        | some m =>
          if 0 ≤ lo.getD 0 ∧ lo.getD 0 ≤ hi.getD xs.length ∧ hi.getD xs.length ≤ m ∧ m ≤ c then
            if (hi.getD xs.length).toNat ≤ xs.length then
              .ok (.slice sty ((xs.drop (lo.getD 0).toNat).take ((hi.getD xs.length).toNat - (lo.getD 0).toNat))
                (m.toNat - (lo.getD 0).toNat))
            else .unsupported
          else .panic
      | none => .notSliceable := by
  cases pv <;> rfl

theorem sliceOf_notSliceable {pv : Val} (h : asSlice pv = none) (lo hi cap : Option Int) :
    sliceOf pv lo hi cap = .notSliceable := by
  rw [sliceOf_eq_asSlice, h]

/-- an omitted bound is its default: `0` for `lo`, the length for `hi` -/
theorem sliceOf_defaults {pv : Val} {sty : String} {xs : List Val} {c : Nat} (h : asSlice pv = some (sty, xs, c))
    (lo hi cap : Option Int) :
    sliceOf pv (some (lo.getD 0)) (some (hi.getD xs.length)) cap = sliceOf pv lo hi cap := by
  rw [sliceOf_eq_asSlice, sliceOf_eq_asSlice, h]
  rfl

/-- the action a slice outcome stands for -/
def SliceRes.toM : SliceRes → M Val
  | .ok v => pure v
  | .panic => goPanic
  | .unsupported => unsupp
  | .notSliceable => setErr

/-- `sliceOf` IS `sliceStep` on evaluated bounds (an equation between actions, for every operand and all bounds) -/
theorem sliceStep_pure (pv : Val) (lo hi cap : Option Int) :
    sliceStep pv (fun d => pure (some (lo.getD d))) (fun d => pure (some (hi.getD d)))
      (fun d => pure (some (cap.getD d))) cap.isSome = (sliceOf pv lo hi cap).toM := by
  rw [sliceOf_eq_asSlice]
  unfold sliceStep
  cases hpv : asSlice pv with
  | none => rfl
  | some t =>
    obtain ⟨sty, xs, c⟩ := t
    simp only [pure_bind]
    cases cap with
    | none =>
      simp only [Option.isSome_none, Bool.not_false, if_true]
      split
      · split <;> rfl
      · rfl
    | some m =>
      simp only [Option.isSome_some, Bool.not_true, Bool.false_eq_true, if_false, Option.getD_some]
      split
      · split <;> rfl
      · rfl

/-- the operand is neither a slice nor an array: an error is recorded at once, NO bound is evaluated -/
theorem sliceStep_notSliceable {pv : Val} (h : asSlice pv = none) (glo ghi gcap : Int → M (Option Int))
    (hasCap : Bool) : sliceStep pv glo ghi gcap hasCap = setErr := by
  unfold sliceStep; rw [h]

/-- a `lo` that is not an integer: error, nothing else is evaluated -/
theorem sliceStep_lo_bad {pv : Val} {t : String × List Val × Nat} (hpv : asSlice pv = some t)
    {glo ghi gcap : Int → M (Option Int)} {hasCap : Bool} {s1 s2 : St} (hlo : glo 0 s1 = .ok (none, s2)) :
    sliceStep pv glo ghi gcap hasCap s1 = setErr false false s2 := by
  obtain ⟨sty, xs, c⟩ := t
  unfold sliceStep
  simp only [hpv]
  rw [bind_apply_ok hlo]

/-- a `hi` that is not an integer: error, `cap` is not evaluated -/
theorem sliceStep_hi_bad {pv : Val} {sty : String} {xs : List Val} {c : Nat} (hpv : asSlice pv = some (sty, xs, c))
    {glo ghi gcap : Int → M (Option Int)} {hasCap : Bool} {s1 s2 s3 : St} {l : Int}
    (hlo : glo 0 s1 = .ok (some l, s2)) (hhi : ghi xs.length s2 = .ok (none, s3)) :
    sliceStep pv glo ghi gcap hasCap s1 = setErr false false s3 := by
  unfold sliceStep
  simp only [hpv]
  rw [bind_apply_ok hlo]
  simp only
  rw [bind_apply_ok hhi]

/-- a `cap` that is not an integer: error -/
theorem sliceStep_cap_bad {pv : Val} {sty : String} {xs : List Val} {c : Nat} (hpv : asSlice pv = some (sty, xs, c))
    {glo ghi gcap : Int → M (Option Int)} {s1 s2 s3 s4 : St} {l h : Int}
    (hlo : glo 0 s1 = .ok (some l, s2)) (hhi : ghi xs.length s2 = .ok (some h, s3))
    (hcap : gcap 0 s3 = .ok (none, s4)) :
    sliceStep pv glo ghi gcap true s1 = setErr false false s4 := by
  unfold sliceStep
  simp only [hpv]
  rw [bind_apply_ok hlo]
  simp only
  rw [bind_apply_ok hhi]
  simp only [Bool.not_true, Bool.false_eq_true, if_false]
  rw [bind_apply_ok hcap]

/-- two-index form, both bounds integers: the outcome is `sliceOf`'s, from the state after the bounds
    (`gcap` is not run) -/
theorem sliceStep_run2 {pv : Val} {sty : String} {xs : List Val} {c : Nat} (hpv : asSlice pv = some (sty, xs, c))
    {glo ghi gcap : Int → M (Option Int)} {s1 s2 s3 : St} {l h : Int}
    (hlo : glo 0 s1 = .ok (some l, s2)) (hhi : ghi xs.length s2 = .ok (some h, s3)) :
    sliceStep pv glo ghi gcap false s1 = (sliceOf pv (some l) (some h) none).toM s3 := by
  rw [sliceOf_eq_asSlice]
  unfold sliceStep
  simp only [hpv]
  rw [bind_apply_ok hlo]
  simp only
  rw [bind_apply_ok hhi]
  simp only [Bool.not_false, if_true, Option.getD_some]
  split
  · split <;> rfl
  · rfl

/-- three-index form, all bounds integers -/
theorem sliceStep_run3 {pv : Val} {sty : String} {xs : List Val} {c : Nat} (hpv : asSlice pv = some (sty, xs, c))
    {glo ghi gcap : Int → M (Option Int)} {s1 s2 s3 s4 : St} {l h m : Int}
    (hlo : glo 0 s1 = .ok (some l, s2)) (hhi : ghi xs.length s2 = .ok (some h, s3))
    (hcap : gcap 0 s3 = .ok (some m, s4)) :
    sliceStep pv glo ghi gcap true s1 = (sliceOf pv (some l) (some h) (some m)).toM s4 := by
  rw [sliceOf_eq_asSlice]
  unfold sliceStep
  simp only [hpv]
  rw [bind_apply_ok hlo]
  simp only
  rw [bind_apply_ok hhi]
  simp only [Bool.not_true, Bool.false_eq_true, if_false]
  rw [bind_apply_ok hcap]
  simp only [Option.getD_some]
  split
  · split <;> rfl
  · rfl

/-- a panic while a bound is evaluated unwinds through the slice expression -/
theorem sliceStep_lo_panic {pv : Val} {t : String × List Val × Nat} (hpv : asSlice pv = some t)
    {glo ghi gcap : Int → M (Option Int)} {hasCap : Bool} {s1 : St} (hlo : glo 0 s1 = .error ()) :
    sliceStep pv glo ghi gcap hasCap s1 = .error () := by
  obtain ⟨sty, xs, c⟩ := t
  unfold sliceStep
  simp only [hpv]
  rw [bind_apply_error hlo]

theorem sliceStep_hi_panic {pv : Val} {sty : String} {xs : List Val} {c : Nat} (hpv : asSlice pv = some (sty, xs, c))
    {glo ghi gcap : Int → M (Option Int)} {hasCap : Bool} {s1 s2 : St} {l : Int}
    (hlo : glo 0 s1 = .ok (some l, s2)) (hhi : ghi xs.length s2 = .error ()) :
    sliceStep pv glo ghi gcap hasCap s1 = .error () := by
  unfold sliceStep
  simp only [hpv]
  rw [bind_apply_ok hlo]
  simp only
  rw [bind_apply_error hhi]

theorem sliceStep_cap_panic {pv : Val} {sty : String} {xs : List Val} {c : Nat} (hpv : asSlice pv = some (sty, xs, c))
    {glo ghi gcap : Int → M (Option Int)} {s1 s2 s3 : St} {l h : Int}
    (hlo : glo 0 s1 = .ok (some l, s2)) (hhi : ghi xs.length s2 = .ok (some h, s3))
    (hcap : gcap 0 s3 = .error ()) :
    sliceStep pv glo ghi gcap true s1 = .error () := by
  unfold sliceStep
  simp only [hpv]
  rw [bind_apply_ok hlo]
  simp only
  rw [bind_apply_ok hhi]
  simp only [Bool.not_true, Bool.false_eq_true, if_false]
  rw [bind_apply_error hcap]

/-! ## optional bounds -/

/-- the optional bound `o`, run from `s`, ends in `s'` having produced the value `r` (`none`: bound omitted,
    nothing is run) -/
def OptTo (fns : List (String × FnSpec)) (data : List Val) (o : Option E) (s : St) (r : Option Val) (s' : St) :
    Prop :=
  match o with
  | none => r = none ∧ s' = s
  | some ex => ∃ v, eval fns data ex s = .ok (v, s') ∧ r = some v

/-- what a slice bound makes of the value: omitted = no constraint (`some none`), an integer of any kind =
    `some (some i)`, anything else = `none` (an error) -/
def boundInt : Option Val → Option (Option Int)
  | none => some none
  | some v => (isInt v).map some

/-- the optional bound `o`, run from `s`, ends in `s'` with the integer bound `b` (`none`: bound omitted) -/
def BoundTo (fns : List (String × FnSpec)) (data : List Val) (o : Option E) (s : St) (b : Option Int) (s' : St) :
    Prop :=
  match o with
  | none => b = none ∧ s' = s
  | some ex => ∃ v i, eval fns data ex s = .ok (v, s') ∧ isInt v = some i ∧ b = some i

section bounds
variable {fns : List (String × FnSpec)} {data : List Val}

theorem OptTo.omitted (s : St) : OptTo fns data none s none s := ⟨rfl, rfl⟩
theorem OptTo.present {ex : E} {s s' : St} {v : Val} (he : eval fns data ex s = .ok (v, s')) :
    OptTo fns data (some ex) s (some v) s' := ⟨v, he, rfl⟩
theorem BoundTo.omitted (s : St) : BoundTo fns data none s none s := ⟨rfl, rfl⟩
theorem BoundTo.present {ex : E} {s s' : St} {v : Val} {i : Int} (he : eval fns data ex s = .ok (v, s'))
    (hi : isInt v = some i) : BoundTo fns data (some ex) s (some i) s' := ⟨v, i, he, hi, rfl⟩

theorem BoundTo.optTo {o : Option E} {s s' : St} {b : Option Int} (h : BoundTo fns data o s b s') :
    ∃ r, OptTo fns data o s r s' ∧ boundInt r = some b := by
  cases o with
  | none => obtain ⟨rfl, rfl⟩ := h; exact ⟨none, ⟨rfl, rfl⟩, rfl⟩
  | some ex =>
    obtain ⟨v, i, he, hi, rfl⟩ := h
    exact ⟨some v, ⟨v, he, rfl⟩, by simp [boundInt, hi]⟩

theorem OptTo.boundTo {o : Option E} {s s' : St} {r : Option Val} {b : Option Int} (h : OptTo fns data o s r s')
    (hb : boundInt r = some b) : BoundTo fns data o s b s' := by
  cases o with
  | none => obtain ⟨rfl, rfl⟩ := h; simp [boundInt] at hb; exact ⟨hb.symm, rfl⟩
  | some ex =>
    obtain ⟨v, he, rfl⟩ := h
    simp only [boundInt, Option.map_eq_some_iff] at hb
    obtain ⟨i, hi, rfl⟩ := hb
    exact ⟨v, i, he, hi, rfl⟩

/-- `evalOpt` on a bound that runs normally: the default for an omitted bound, `isInt` of the value otherwise -/
theorem evalOpt_of_optTo {o : Option E} {s s' : St} {r : Option Val} (h : OptTo fns data o s r s') (d : Int) :
    evalOpt fns data o d s = .ok ((boundInt r).map (·.getD d), s') := by
  cases o with
  | none => obtain ⟨rfl, rfl⟩ := h; rw [evalOpt]; rfl
  | some ex =>
    obtain ⟨v, he, rfl⟩ := h
    rw [evalOpt, bind_apply_ok he, pure_apply]
    simp only [boundInt]
    cases isInt v <;> rfl

theorem evalOpt_of_boundTo {o : Option E} {s s' : St} {b : Option Int} (h : BoundTo fns data o s b s') (d : Int) :
    evalOpt fns data o d s = .ok (some (b.getD d), s') := by
  obtain ⟨r, hr, hb⟩ := h.optTo
  rw [evalOpt_of_optTo hr, hb]; rfl

/-- a present bound whose value is not an integer -/
theorem evalOpt_not_int {ex : E} {s s' : St} {v : Val} (he : eval fns data ex s = .ok (v, s')) (hv : isInt v = none)
    (d : Int) : evalOpt fns data (some ex) d s = .ok (none, s') := by
  rw [evalOpt, bind_apply_ok he, pure_apply, hv]

theorem evalOpt_panic {ex : E} {s : St} (he : eval fns data ex s = .error ()) (d : Int) :
    evalOpt fns data (some ex) d s = .error () := by
  rw [evalOpt, bind_apply_error he]

theorem BoundTo.isSome {o : Option E} {s s' : St} {b : Option Int} (h : BoundTo fns data o s b s') :
    b.isSome = o.isSome := by
  cases o with
  | none => obtain ⟨rfl, _⟩ := h; rfl
  | some ex => obtain ⟨_, _, _, _, rfl⟩ := h; rfl

/-- a recorded error is never cleared while a bound is evaluated -/
theorem OptTo.err_none {o : Option E} {s s' : St} {r : Option Val} (h : OptTo fns data o s r s')
    (h' : s'.err = none) : s.err = none := by
  cases o with
  | none => obtain ⟨_, rfl⟩ := h; exact h'
  | some ex =>
    obtain ⟨v, he, _⟩ := h
    cases hs : s.err with
    | none => rfl
    | some x => rw [(eval_mono fns data ex _ _ _ he).1 x hs] at h'; cases h'

theorem BoundTo.err_none {o : Option E} {s s' : St} {b : Option Int} (h : BoundTo fns data o s b s')
    (h' : s'.err = none) : s.err = none := by
  obtain ⟨r, hr, _⟩ := h.optTo
  exact hr.err_none h'

end bounds

/-- what the run of a slice outcome is, in terms of the state `s1` after the operand and the state `s4` after the
    bounds -/
def SliceRes.run : SliceRes → St → St → Except Unit (Val × St)
  | .ok v, _, s4 => .ok (v, s4)
  | .panic, _, _ => .error ()
  | .unsupported, _, s4 => unsupp s4
  | .notSliceable, s1, _ => setErr false false s1

theorem SliceRes.toM_apply {pv : Val} (h : asSlice pv ≠ none) (lo hi cap : Option Int) (s1 s4 : St) :
    (sliceOf pv lo hi cap).toM s4 = (sliceOf pv lo hi cap).run s1 s4 := by
  cases hr : sliceOf pv lo hi cap with
  | notSliceable =>
    exfalso
    rw [sliceOf_eq_asSlice] at hr
    cases hp : asSlice pv with
    | none => exact h hp
    | some t =>
      obtain ⟨sty, xs, c⟩ := t
      rw [hp] at hr
      cases cap <;> simp only at hr <;> split at hr <;> (try split at hr) <;> cases hr
  | _ => rfl

/-- the four runs are pairwise distinguishable (`h4`: no error recorded so far; `hu1`: the run had not left the
    modelled fragment before the slice expression) -/
theorem SliceRes.run_classify (x : SliceRes) {s1 s4 : St} (h1 : s1.err = none) (h4 : s4.err = none)
    (hu1 : s1.unsupported = false) :
    (∀ r, x = .ok r ↔ x.run s1 s4 = .ok (r, s4)) ∧
    (x = .panic ↔ x.run s1 s4 = .error ()) ∧
    (x = .unsupported ↔ x.run s1 s4 = .ok (.nil, { s4 with unsupported := true, err := some ⟨false, false⟩ })) ∧
    (x = .notSliceable ↔ x.run s1 s4 = .ok (.nil, { s1 with err := some ⟨false, false⟩ })) := by
  have hU : unsupp s4 = .ok (.nil, { s4 with unsupported := true, err := some ⟨false, false⟩ }) := by
    rw [unsupp_apply]; simp [h4]
  have hS : setErr false false s1 = .ok (.nil, { s1 with err := some ⟨false, false⟩ }) := setErr_of_ok h1
  have errOf : ∀ {a b : Val} {s t : St}, (Except.ok (a, s) : Except Unit (Val × St)) = .ok (b, t) →
      s.err = t.err := by
    intro a b s t hh; cases hh; rfl
  have unsOf : ∀ {a b : Val} {s t : St}, (Except.ok (a, s) : Except Unit (Val × St)) = .ok (b, t) →
      s.unsupported = t.unsupported := by
    intro a b s t hh; cases hh; rfl
  cases x with
  | ok r' =>
    simp only [SliceRes.run]
    refine ⟨fun r => ?_, ?_, ?_, ?_⟩
    · exact ⟨fun hh => (by cases hh; rfl), fun hh => (by cases hh; rfl)⟩
    · exact ⟨nofun, nofun⟩
    · refine ⟨nofun, fun hh => ?_⟩
      have := errOf hh; rw [h4] at this; cases this
    · refine ⟨nofun, fun hh => ?_⟩
      have := errOf hh; rw [h4] at this; cases this
  | panic =>
    simp only [SliceRes.run]
    refine ⟨fun r => ?_, ?_, ?_, ?_⟩
    · exact ⟨nofun, nofun⟩
    · trivial
    · exact ⟨nofun, nofun⟩
    · exact ⟨nofun, nofun⟩
  | unsupported =>
    simp only [SliceRes.run, hU]
    refine ⟨fun r => ?_, ?_, ?_, ?_⟩
    · refine ⟨nofun, fun hh => ?_⟩
      have := errOf hh; rw [h4] at this; cases this
    · exact ⟨nofun, nofun⟩
    · trivial
    · refine ⟨nofun, fun hh => ?_⟩
      have := unsOf hh; rw [hu1] at this; cases this
  | notSliceable =>
    simp only [SliceRes.run, hS]
    refine ⟨fun r => ?_, ?_, ?_, ?_⟩
    · refine ⟨nofun, fun hh => ?_⟩
      have := errOf hh; rw [h4] at this; cases this
    · exact ⟨nofun, nofun⟩
    · refine ⟨nofun, fun hh => ?_⟩
      have := unsOf hh; rw [hu1] at this; cases this
    · trivial

end EV
